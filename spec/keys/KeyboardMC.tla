----------------------------- MODULE KeyboardMC -----------------------------
(***************************************************************************)
(* Pattern A: the tracer machine of Keyboard.tla on small instances.        *)
(* `load` schedules of a few command lines (every kind of token: plain key, *)
(* capital, keyword, symbol-shift, E mode, E mode + symbol shift, explicit   *)
(* chords, a doubled key) with gaps 1 and 2, and `--press` plans (single     *)
(* keys, a repeat count, NONE); reads of the eight half-row ports and of     *)
(* ports selecting several / all / no half-rows, an even port that is not    *)
(* 0x??FE and an odd port.                                                   *)
(***************************************************************************)
EXTENDS Keyboard

MCLoad == { << <<"L","O","A","D">>, <<"\"","\"">>, <<"E","N","T","E","R">> >>,
            << <<"P","I">>, <<"C","S","+","6">>, <<"O","U","T">> >>,
            << <<"a","A","0">>, <<"S","S","+","C","S">> >>,
            << <<"C","S","+","S","S","+","a">> >>,
            << <<"C","L","E","A","R">>, <<"3","4",":">>, <<"L","O","A","D">>, <<"\"","\"">>, <<"C","O","D","E">> >>,
            << <<"D","E","F","F","N">>, <<"U+00A3", "U+00A9">>, <<"<","=">>, <<"D","O","W","N">> >>,
            << >> }
MCPress == { << <<"s","*","2">>, <<"N","O","N","E">>, <<"E","N","T","E","R">> >>,
             << <<"C","S">>, <<"6">>, <<"S","P","A","C","E">> >>,
             << <<"N","O","N","E","*","2">>, <<"0">> >>,
             << <<"a">>, <<"a">>, <<"S","S">>, <<"p","*","3">>, <<"E","N","T","E","R">> >> }
MCPorts == {RowPort(r) : r \in Rows} \cup {64766, 61182, 254, 65534, 65279, 65276, 32510, 31}
\* 0xFCFE (rows 1,2), 0xEEFE (rows 1,5), 0x00FE (all), 0xFFFE (none), 0xFEFF (odd), 0xFEFC (even, not FE), 0x7EFE (rows 1,8), 0x001F
MCGaps == {1, 2, 4}

MCInit == /\ last = NoRead
          /\ \/ kind = "load" /\ \E ws \in MCLoad, g \in MCGaps : sched = Schedule(ws, g)
             \/ kind = "press" /\ \E ws \in MCPress : sched = PressPlan(ws)
MCNext == Frame \/ \E p \in MCPorts : ReadPort(p)
MCSpec == MCInit /\ [][MCNext]_kvars
MCFair == MCSpec /\ WF_kvars(Frame) /\ \A r \in Rows : WF_kvars(ReadPort(RowPort(r)))

MCCombine == CombineByAnd(MCPorts \cup {(h * 256) + 254 : h \in {0, 85, 170, 15, 240, 231, 126, 129}})
\* vacuity guard (Keyboard_neg.cfg): a matrix that shows a key only when it is down in ALL selected half-rows (OR instead of
\* AND) must violate MCCombine
NegUp(down, rows, b) == ~(rows # {} /\ \A r \in rows : \E k \in down : RowOf(k) = r /\ BitOf(k) = b)
NegKeyBits(down, rows) == (IF NegUp(down, rows, 0) THEN 1 ELSE 0) + (IF NegUp(down, rows, 1) THEN 2 ELSE 0)
                        + (IF NegUp(down, rows, 2) THEN 4 ELSE 0) + (IF NegUp(down, rows, 3) THEN 8 ELSE 0)
                        + (IF NegUp(down, rows, 4) THEN 16 ELSE 0)
\* whoever scans all half-rows in every frame sees the whole schedule go by
EventuallyDone == <>[]Done
ASSUME MCDefined == \A ws \in MCLoad : WordsDefined(ws)

\* the matrix itself, for every high address byte: one key down shows in exactly the reads that select its half-row
ASSUME \A h \in 0..255, k \in Keys :
         LET v == MatrixRead({k}, (h * 256) + 254) IN
         /\ v >= Fixed
         /\ (RowOf(k) \in Selected((h * 256) + 254)) = ~BitSet(v, BitOf(k))
         /\ \A b \in Bits \ {BitOf(k)} : BitSet(v, b)
         /\ KeyBits({k}, Selected((h * 256) + 254)) = AndOver({k}, Selected((h * 256) + 254))
\* the documented example: CLEAR 34999: LOAD "" CODE : RANDOMIZE USR 35000
ASSUME LET ws == << <<"C","L","E","A","R">>, <<"3","4","9","9","9",":">>, <<"L","O","A","D">>, <<"\"","\"">>, <<"C","O","D","E">>,
                    <<":">>, <<"R","A","N","D","O","M","I","Z","E">>, <<"U","S","R">>, <<"3","5","0","0","0">>, <<"E","N","T","E","R">> >>
           t == Typed(ChordsOf(ws))
       IN /\ WordsDefined(ws)
          /\ t.ok /\ t.done
          /\ t.codes = <<253, 51, 52, 57, 57, 57, 58, 239, 34, 34, 175, 58, 249, 192, 51, 53, 48, 48, 48, 13>>
ASSUME Cardinality(Keys) = 40 /\ Len(TokenNames) = 91 /\ Len(AsciiChars) = 96 /\ Cardinality(Vocabulary) = 40 + 1 + 26 + 26 + 36 + 26 + 26 + 10
\* every BASIC token of appendix A has keystrokes, and typing them in the right mode gives back its code
ASSUME \A i \in 1..Len(TokenNames) : IsToken(TokenNames[i])
=============================================================================
