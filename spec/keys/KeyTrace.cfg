SPECIFICATION TraceSpec
CHECK_DEADLOCK FALSE
INVARIANT TypeOK
INVARIANT FixedBits
INVARIANT NoPhantom
INVARIANT NoRowAllUp
INVARIANT ShownFromLooked
INVARIANT PressSlotsOK
PROPERTY TrShrinks
PROPERTY TrHeldUntilRead
PROPERTY TrPressIgnoresFrames
