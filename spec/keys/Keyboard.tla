------------------------------ MODULE Keyboard ------------------------------
(***************************************************************************)
(* Extension E05: simulated key presses (skoolkit/kbtracer.py, used by      *)
(* tap2sna.py for the `load` simulated-LOAD parameter and for `--press`).   *)
(*                                                                         *)
(* Sources (not SkoolKit's code):                                           *)
(*  [M23] ZX Spectrum BASIC programming manual ch. 23 "IN and OUT": the      *)
(*        keyboard is 8 half-rows of 5 keys; IN from port 0xFEFE, 0xFDFE,    *)
(*        0xFBFE, 0xF7FE, 0xEFFE, 0xDFFE, 0xBFFE, 0x7FFE reads one half-row;  *)
(*        bits D0..D4 are the five keys, outside key first, 0 = pressed;    *)
(*        the ULA answers every even port, each 0 bit among A8..A15 selects *)
(*        a half-row and the selected half-rows are combined (a key bit is  *)
(*        0 iff that key is down in some selected half-row); D6 is EAR,     *)
(*        D5 and D7 are not driven (read 1).                                 *)
(*  [M1]  the keyboard legends (manual ch. 1/2 and the keyboard itself): the *)
(*        keyword on each letter key (K mode), the red symbol/word obtained  *)
(*        with SYMBOL SHIFT, the green word above the key (E mode = CAPS     *)
(*        SHIFT + SYMBOL SHIFT, then the key) and the red word below it      *)
(*        (E mode, then SYMBOL SHIFT + key); capitals with CAPS SHIFT; K     *)
(*        mode at the start of a line, after THEN and after ':' outside a    *)
(*        string, L mode otherwise.                                          *)
(*  [MA]  manual appendix A: the character set (codes 32..127, tokens        *)
(*        165..255).                                                         *)
(*  [SK]  sphinx/source/commands.rst, tap2sna.py: "LOAD command" (the `load` *)
(*        parameter: space-separated words; a word with '+' = simultaneous   *)
(*        keys; a word that is a BASIC token = the keypresses producing it;  *)
(*        otherwise character by character; special tokens CS SS SPACE ENTER *)
(*        DOWN GOTO GOSUB DEFFN OPEN# CLOSE# PC=address; ENTER appended)     *)
(*        and "User input" (`--press N:KEYS`: digits, a-z, CS SS SPACE ENTER *)
(*        NONE; each key is pressed "until the appropriate key row has been  *)
(*        read"; `s*3` = `s s s`; the tape resumes after the last one).      *)
(*                                                                         *)
(* What SkoolKit does NOT have (so nothing here): no frame-count timing      *)
(* language (no durations, no delays in the key specs), no Kempston tokens,  *)
(* no key specs for trace.py (its --screen keyboard is interactive).        *)
(*                                                                         *)
(* Undocumented choices of SkoolKit are parameters or named operators:      *)
(*   InitialGap (4 interrupts before the first keypress), the gap between    *)
(*   keypresses (tap2sna: 4 on a 48K, 13 on a 128K machine), SkExactRow      *)
(*   (the `load` tracer answers only the eight ports 0x??FE with exactly one *)
(*   half-row selected), `load` keys being held until each of their          *)
(*   half-rows has been read once.  The conformance modules count            *)
(*   differences in these as drift / standing deviation, never as verdicts. *)
(*                                                                         *)
(* Characters are one-character strings; the two non-ASCII characters of    *)
(* the Spectrum set are written "U+00A3" (pound) and "U+00A9" (copyright).  *)
(* A "word" is a sequence of characters.  Z80.tla's `inv` (the value an IN   *)
(* instruction receives) is what ReadPort yields here.                       *)
(***************************************************************************)
EXTENDS Naturals, Sequences, FiniteSets, TLC

\* ------------------------------------------------------------------------------------------------- helpers
P2 == <<1, 2, 4, 8, 16, 32, 64, 128, 256>>
BitSet(v, n) == ((v \div P2[n + 1]) % 2) = 1
Has(seq, x) == \E i \in 1..Len(seq) : seq[i] = x
IndexOf(seq, x) == CHOOSE i \in 1..Len(seq) : seq[i] = x
Range(seq) == {seq[i] : i \in 1..Len(seq)}
RECURSIVE Join(_)
Join(w) == IF w = <<>> THEN "" ELSE Head(w) \o Join(Tail(w))
RECURSIVE Flatten(_)
Flatten(ss) == IF ss = <<>> THEN <<>> ELSE Head(ss) \o Flatten(Tail(ss))
Repeat(x, n) == [i \in 1..n |-> x]
\* split a sequence at every occurrence of sep (empty pieces kept)
RECURSIVE SplitAll(_, _, _)
SplitAll(s, sep, cur) ==
  IF s = <<>> THEN <<cur>>
  ELSE IF Head(s) = sep THEN <<cur>> \o SplitAll(Tail(s), sep, <<>>)
  ELSE SplitAll(Tail(s), sep, Append(cur, Head(s)))
Split(s, sep) == SplitAll(s, sep, <<>>)
NonEmpty(ss) == SelectSeq(ss, LAMBDA w : w # <<>>)

\* ================================================================================================ 1. the matrix [M23]
\* half-row r (1..8) is selected by address line A(7+r) = 0, i.e. port high byte bit r-1 = 0; entry b+1 is data bit b
HalfRows == << <<"CS",    "z",  "x", "c", "v">>,      \* 0xFEFE
               <<"a",     "s",  "d", "f", "g">>,      \* 0xFDFE
               <<"q",     "w",  "e", "r", "t">>,      \* 0xFBFE
               <<"1",     "2",  "3", "4", "5">>,      \* 0xF7FE
               <<"0",     "9",  "8", "7", "6">>,      \* 0xEFFE
               <<"p",     "o",  "i", "u", "y">>,      \* 0xDFFE
               <<"ENTER", "l",  "k", "j", "h">>,      \* 0xBFFE
               <<"SPACE", "SS", "m", "n", "b">> >>    \* 0x7FFE
Rows == 1..8
Bits == 0..4
KeyAt(r, b) == HalfRows[r][b + 1]
Keys == {KeyAt(r, b) : r \in Rows, b \in Bits}
PosOf == [k \in Keys |-> CHOOSE p \in Rows \X Bits : KeyAt(p[1], p[2]) = k]
RowOf(k) == PosOf[k][1]
BitOf(k) == PosOf[k][2]
RowsOf(ks) == {RowOf(k) : k \in ks}

RowPort(r) == 65534 - (256 * P2[r])                    \* 0xFEFE, 0xFDFE, ... 0x7FFE
UlaPort(port) == (port % 2) = 0                        \* the ULA answers every even port
Selected(port) == {r \in Rows : ~BitSet(port \div 256, r - 1)}
\* the half-rows a read of `port` looks at
UlaRows(port) == IF UlaPort(port) THEN Selected(port) ELSE {}

\* data bit b reads 1 unless a key with that bit is down in a selected half-row (combination = AND of the half-rows)
BitUp(down, rows, b) == ~\E k \in down : RowOf(k) \in rows /\ BitOf(k) = b
KeyBits(down, rows) == (IF BitUp(down, rows, 0) THEN 1 ELSE 0) + (IF BitUp(down, rows, 1) THEN 2 ELSE 0)
                     + (IF BitUp(down, rows, 2) THEN 4 ELSE 0) + (IF BitUp(down, rows, 3) THEN 8 ELSE 0)
                     + (IF BitUp(down, rows, 4) THEN 16 ELSE 0)
\* D5, D7 read 1; D6 (EAR) is 1 while nothing is played (what both tracers return)
Fixed == 224
MatrixRead(down, port) == Fixed + KeyBits(down, UlaRows(port))
AllUp(v) == (v % 32) = 31
\* the keys a value can be showing as pressed (exact for a single half-row read)
ShownDown(v, port) == {KeyAt(r, b) : r \in UlaRows(port), b \in {x \in Bits : ~BitSet(v, x)}}
\* bitwise AND of two 5-bit key fields
And5(x, y) == (IF BitSet(x, 0) /\ BitSet(y, 0) THEN 1 ELSE 0) + (IF BitSet(x, 1) /\ BitSet(y, 1) THEN 2 ELSE 0)
            + (IF BitSet(x, 2) /\ BitSet(y, 2) THEN 4 ELSE 0) + (IF BitSet(x, 3) /\ BitSet(y, 3) THEN 8 ELSE 0)
            + (IF BitSet(x, 4) /\ BitSet(y, 4) THEN 16 ELSE 0)
RECURSIVE AndOver(_, _)
AndOver(down, rows) == IF rows = {} THEN 31
                       ELSE LET r == CHOOSE x \in rows : TRUE IN And5(KeyBits(down, {r}), AndOver(down, rows \ {r}))

\* ================================================================================================ 2. the legends [M1]
Letters == <<"a", "b", "c", "d", "e", "f", "g", "h", "i", "j", "k", "l", "m",
             "n", "o", "p", "q", "r", "s", "t", "u", "v", "w", "x", "y", "z">>
Uppers  == <<"A", "B", "C", "D", "E", "F", "G", "H", "I", "J", "K", "L", "M",
             "N", "O", "P", "Q", "R", "S", "T", "U", "V", "W", "X", "Y", "Z">>
Digits  == <<"1", "2", "3", "4", "5", "6", "7", "8", "9", "0">>
\* letter keys a..z: the keyword in K mode (names as SkoolKit's documentation spells them: GOTO, GOSUB)
KeywordOf == <<"NEW", "BORDER", "CONTINUE", "DIM", "REM", "FOR", "GOTO", "GOSUB", "INPUT", "LOAD", "LIST", "LET", "PAUSE",
               "NEXT", "POKE", "PRINT", "PLOT", "RUN", "SAVE", "RANDOMIZE", "IF", "CLS", "DRAW", "CLEAR", "RETURN", "COPY">>
\* letter keys with SYMBOL SHIFT
SymLetter == <<"STOP", "*", "?", "STEP", ">=", "TO", "THEN", "^", "AT", "-", "+", "=", ".",
               ",", ";", "\"", "<=", "<", "NOT", ">", "OR", "/", "<>", "U+00A3", "AND", ":">>
\* letter keys in E mode (green, above the key)
EAboveLetter == <<"READ", "BIN", "LPRINT", "DATA", "TAN", "SGN", "ABS", "SQR", "CODE", "VAL", "LEN", "USR", "PI",
                  "INKEY$", "PEEK", "TAB", "SIN", "INT", "RESTORE", "RND", "CHR$", "LLIST", "COS", "EXP", "STR$", "LN">>
\* letter keys in E mode with SYMBOL SHIFT (red, below the key)
EBelowLetter == <<"~", "BRIGHT", "PAPER", "\\", "ATN", "{", "}", "CIRCLE", "IN", "VAL$", "SCREEN$", "ATTR", "INVERSE",
                  "OVER", "OUT", "U+00A9", "ASN", "VERIFY", "|", "MERGE", "]", "FLASH", "ACS", "INK", "[", "BEEP">>
\* digit keys 1..9, 0 with SYMBOL SHIFT, and in E mode with SYMBOL SHIFT (DEFFN, OPEN#, CLOSE# as SkoolKit spells them)
SymDigit    == <<"!", "@", "#", "$", "%", "&", "'", "(", ")", "_">>
EBelowDigit == <<"DEFFN", "FN", "LINE", "OPEN#", "CLOSE#", "MOVE", "ERASE", "POINT", "CAT", "FORMAT">>

EMode == {"CS", "SS"}                                  \* the chord that enters (and leaves) E mode
\* Strokes(tok): the sequence of chords (sets of keys down together) that produces a token; <<>> = not a token
Strokes(tok) ==
  IF tok \in Keys THEN << {tok} >>                                                  \* digits, a-z, CS SS SPACE ENTER
  ELSE IF tok = "DOWN" THEN << {"CS", "6"} >>                                       \* [SK] cursor down
  ELSE IF Has(Uppers, tok) THEN << {"CS", Letters[IndexOf(Uppers, tok)]} >>
  ELSE IF Has(KeywordOf, tok) THEN << {Letters[IndexOf(KeywordOf, tok)]} >>
  ELSE IF Has(SymLetter, tok) THEN << {"SS", Letters[IndexOf(SymLetter, tok)]} >>
  ELSE IF Has(SymDigit, tok) THEN << {"SS", Digits[IndexOf(SymDigit, tok)]} >>
  ELSE IF Has(EAboveLetter, tok) THEN << EMode, {Letters[IndexOf(EAboveLetter, tok)]} >>
  ELSE IF Has(EBelowLetter, tok) THEN << EMode, {"SS", Letters[IndexOf(EBelowLetter, tok)]} >>
  ELSE IF Has(EBelowDigit, tok) THEN << EMode, {"SS", Digits[IndexOf(EBelowDigit, tok)]} >>
  ELSE <<>>
IsToken(tok) == Strokes(tok) # <<>>
\* every token, for generators and coverage accounting
Vocabulary == Keys \cup {"DOWN"} \cup Range(Uppers) \cup Range(KeywordOf) \cup Range(SymLetter) \cup Range(SymDigit)
              \cup Range(EAboveLetter) \cup Range(EBelowLetter) \cup Range(EBelowDigit)

\* ================================================================================================ 3. the `load` language [SK]
\* a word with '+' (other than the word "+"): the key identifiers it separates, pressed together
IsChordWord(w) == Has(w, "+") /\ w # <<"+">>
ChordParts(w) == LET ps == Split(w, "+") IN [i \in 1..Len(ps) |-> Join(ps[i])]
ChordOK(w) == \A p \in Range(ChordParts(w)) : p \in Keys
\* the documentation does not limit the number of simultaneous keys; SkoolKit accepts exactly two ("A+B")
SkChordArity(w) == Len(ChordParts(w)) = 2
\* the chords of one word; <<>> if the word is not defined by the documentation
WordChords(w) ==
  IF IsChordWord(w) THEN (IF ChordOK(w) THEN << Range(ChordParts(w)) >> ELSE <<>>)
  ELSE IF IsToken(Join(w)) THEN Strokes(Join(w))
  ELSE IF w # <<>> /\ \A i \in 1..Len(w) : IsToken(w[i]) THEN Flatten([i \in 1..Len(w) |-> Strokes(w[i])])
  ELSE <<>>
WordDefined(w) == WordChords(w) # <<>>
WordsDefined(ws) == \A i \in 1..Len(ws) : WordDefined(ws[i])
ChordsOf(ws) == Flatten([i \in 1..Len(ws) |-> WordChords(ws[i])])

\* the words of a `load` value: space separated
WordsOf(chars) == NonEmpty(Split(chars, " "))
IsPC(w) == Len(w) >= 3 /\ w[1] = "P" /\ w[2] = "C" /\ w[3] = "="
HexDigits == <<"0", "1", "2", "3", "4", "5", "6", "7", "8", "9", "a", "b", "c", "d", "e", "f">>
HexUpper  == <<"0", "1", "2", "3", "4", "5", "6", "7", "8", "9", "A", "B", "C", "D", "E", "F">>
DigitVal(c) == IF Has(HexDigits, c) THEN IndexOf(HexDigits, c) - 1 ELSE IF Has(HexUpper, c) THEN IndexOf(HexUpper, c) - 1 ELSE 99
RECURSIVE NumVal(_, _, _)
NumVal(ds, base, acc) == IF ds = <<>> THEN acc
                         ELSE IF DigitVal(Head(ds)) >= base \/ acc > 65535 THEN 0 - 1
                         ELSE NumVal(Tail(ds), base, (acc * base) + DigitVal(Head(ds)))
\* "0x0605", "1541" ("$0605" is SkoolKit's usual alternative hexadecimal notation); -1 = not a number
Address(ds) == IF Len(ds) > 2 /\ ds[1] = "0" /\ ds[2] = "x" THEN NumVal(SubSeq(ds, 3, Len(ds)), 16, 0)
               ELSE IF Len(ds) > 1 /\ ds[1] = "$" THEN NumVal(Tail(ds), 16, 0)
               ELSE IF ds = <<>> THEN 0 - 1 ELSE NumVal(ds, 10, 0)
DefaultStop(machine) == IF machine = 128 THEN 5054 ELSE 1541        \* 0x13BE / 0x0605
EnterWord == <<"E", "N", "T", "E", "R">>
\* LoadPlan: the words whose keys are pressed and the address at which keyboard input ends
LoadPlan(chars, machine) ==
  LET ws0 == WordsOf(chars)
      ws1 == IF ws0 = <<>> /\ machine = 128 THEN <<EnterWord>> ELSE ws0      \* [SK] machine=128: default is ENTER (the menu)
      pc == ws1 # <<>> /\ IsPC(ws1[Len(ws1)])
      ws2 == IF pc THEN SubSeq(ws1, 1, Len(ws1) - 1) ELSE ws1
      stop == IF pc THEN Address(SubSeq(ws1[Len(ws1)], 4, Len(ws1[Len(ws1)]))) ELSE DefaultStop(machine)
  IN [words |-> IF Has(ws2, EnterWord) THEN ws2 ELSE Append(ws2, EnterWord),     \* "ENTER is appended if not already present"
      \* SkoolKit appends unless ENTER is the LAST word
      skwords |-> IF ws2 # <<>> /\ ws2[Len(ws2)] = EnterWord THEN ws2 ELSE Append(ws2, EnterWord),
      stop |-> stop]

\* ---- the schedule of the `load` tracer: slots; a slot is a chord with the half-rows still to be read, or a gap
Slot(ks) == [keys |-> ks, unread |-> RowsOf(ks)]
Gap == Slot({})
InitialGap == 4                                        \* SkoolKit: interrupts before the first keypress
ToolGap(machine) == IF machine = 128 THEN 13 ELSE 4    \* tap2sna's choice
Schedule(ws, gap) == LET cs == ChordsOf(ws) IN
                      Repeat(Gap, InitialGap) \o Flatten([i \in 1..Len(cs) |-> <<Slot(cs[i])>> \o Repeat(Gap, gap)])

\* ================================================================================================ 4. the `--press` language [SK]
PressNames == Range(Digits) \cup Range(Letters) \cup {"CS", "SS", "SPACE", "ENTER", "NONE"}
\* one key identifier, optionally "*count"
PressName(w) == Join(Split(w, "*")[1])
PressCount(w) == LET ps == Split(w, "*") IN IF Len(ps) = 1 THEN 1 ELSE NumVal(ps[2], 10, 0)
PressWordOK(w) == LET ps == Split(w, "*") IN
                  /\ PressName(w) \in PressNames
                  /\ Len(ps) <= 2
                  /\ (Len(ps) = 2 => ps[2] # <<>> /\ NumVal(ps[2], 10, 0) >= 1)     \* "s*3" = "s s s"; a count of 0 is not defined
\* NONE: no key down; SkoolKit's choice: it lasts until any half-row has been read
PressSlot(name) == IF name = "NONE" THEN [keys |-> {}, unread |-> Rows] ELSE Slot({name})
PressPlan(ws) == Flatten([i \in 1..Len(ws) |-> Repeat(PressSlot(PressName(ws[i])), PressCount(ws[i]))])
PressDefined(ws) == ws # <<>> /\ \A i \in 1..Len(ws) : PressWordOK(ws[i])
\* KEYS of "N:KEYS" is a list separated by single spaces
PressWordsOf(chars) == Split(chars, " ")

\* ================================================================================================ 5. what a command line types [M1][MA]
\* appendix A: codes 32..127, and the tokens 165..255
AsciiChars == <<" ", "!", "\"", "#", "$", "%", "&", "'", "(", ")", "*", "+", ",", "-", ".", "/",
                "0", "1", "2", "3", "4", "5", "6", "7", "8", "9", ":", ";", "<", "=", ">", "?",
                "@", "A", "B", "C", "D", "E", "F", "G", "H", "I", "J", "K", "L", "M", "N", "O",
                "P", "Q", "R", "S", "T", "U", "V", "W", "X", "Y", "Z", "[", "\\", "]", "^", "_",
                "U+00A3", "a", "b", "c", "d", "e", "f", "g", "h", "i", "j", "k", "l", "m", "n", "o",
                "p", "q", "r", "s", "t", "u", "v", "w", "x", "y", "z", "{", "|", "}", "~", "U+00A9">>
TokenNames == <<"RND", "INKEY$", "PI", "FN", "POINT", "SCREEN$", "ATTR", "AT", "TAB", "VAL$", "CODE", "VAL", "LEN", "SIN", "COS",
                "TAN", "ASN", "ACS", "ATN", "LN", "EXP", "INT", "SQR", "SGN", "ABS", "PEEK", "IN", "USR", "STR$", "CHR$", "NOT",
                "BIN", "OR", "AND", "<=", ">=", "<>", "LINE", "THEN", "TO", "STEP", "DEFFN", "CAT", "FORMAT", "MOVE", "ERASE",
                "OPEN#", "CLOSE#", "MERGE", "VERIFY", "BEEP", "CIRCLE", "INK", "PAPER", "FLASH", "BRIGHT", "INVERSE", "OVER",
                "OUT", "LPRINT", "LLIST", "STOP", "READ", "DATA", "RESTORE", "NEW", "BORDER", "CONTINUE", "DIM", "REM", "FOR",
                "GOTO", "GOSUB", "INPUT", "LOAD", "LIST", "LET", "PAUSE", "NEXT", "POKE", "PRINT", "PLOT", "RUN", "SAVE",
                "RANDOMIZE", "IF", "CLS", "DRAW", "CLEAR", "RETURN", "COPY">>
CodeOf(x) == IF Has(TokenNames, x) THEN 164 + IndexOf(TokenNames, x) ELSE 31 + IndexOf(AsciiChars, x)
Then == 203
\* the mode in which the next key is decoded: K at the start, after THEN and after ':' outside a string; digits, spaces keep it
RECURSIVE ModeK(_, _, _)
ModeK(codes, k, inq) ==
  IF codes = <<>> THEN k
  ELSE LET c == Head(codes) IN
       IF (c >= 48 /\ c <= 57) \/ c <= 32 THEN ModeK(Tail(codes), k, inq)
       ELSE IF c = Then THEN ModeK(Tail(codes), TRUE, inq)
       ELSE IF c = 58 /\ ~inq THEN ModeK(Tail(codes), TRUE, inq)
       ELSE ModeK(Tail(codes), FALSE, IF c = 34 THEN ~inq ELSE inq)
KMode(codes) == ModeK(codes, TRUE, FALSE)
IsLetterKey(k) == Has(Letters, k)
IsDigitKey(k) == Has(Digits, k)
\* Typed: the codes that a sequence of chords puts into the line being edited, up to and including ENTER (13).
\* ok = FALSE: a chord whose effect the sources above do not define (cursor/edit keys, BREAK, colour codes...) - such
\* command lines are outside this operator.
RECURSIVE TypedFrom(_, _, _, _)
TypedFrom(chs, i, codes, emode) ==
  IF i > Len(chs) THEN [codes |-> codes, ok |-> TRUE, done |-> FALSE]
  ELSE LET c == chs[i]
           one == IF Cardinality(c) = 1 THEN CHOOSE k \in c : TRUE ELSE ""
           ssk == IF Cardinality(c) = 2 /\ "SS" \in c THEN CHOOSE k \in c : k # "SS" ELSE ""
           csk == IF Cardinality(c) = 2 /\ "CS" \in c THEN CHOOSE k \in c : k # "CS" ELSE ""
           bad == [codes |-> codes, ok |-> FALSE, done |-> FALSE]
       IN
       IF c = EMode THEN TypedFrom(chs, i + 1, codes, ~emode)
       ELSE IF emode THEN
            IF IsLetterKey(one) THEN TypedFrom(chs, i + 1, Append(codes, CodeOf(EAboveLetter[IndexOf(Letters, one)])), FALSE)
            ELSE IF IsLetterKey(ssk) THEN TypedFrom(chs, i + 1, Append(codes, CodeOf(EBelowLetter[IndexOf(Letters, ssk)])), FALSE)
            ELSE IF IsDigitKey(ssk) THEN TypedFrom(chs, i + 1, Append(codes, CodeOf(EBelowDigit[IndexOf(Digits, ssk)])), FALSE)
            ELSE bad
       ELSE IF one = "ENTER" THEN [codes |-> Append(codes, 13), ok |-> TRUE, done |-> TRUE]
       ELSE IF one = "SPACE" THEN TypedFrom(chs, i + 1, Append(codes, 32), FALSE)
       ELSE IF IsDigitKey(one) THEN TypedFrom(chs, i + 1, Append(codes, CodeOf(one)), FALSE)
       ELSE IF IsLetterKey(one) THEN
            TypedFrom(chs, i + 1, Append(codes, CodeOf(IF KMode(codes) THEN KeywordOf[IndexOf(Letters, one)] ELSE one)), FALSE)
       ELSE IF IsLetterKey(ssk) THEN TypedFrom(chs, i + 1, Append(codes, CodeOf(SymLetter[IndexOf(Letters, ssk)])), FALSE)
       ELSE IF IsDigitKey(ssk) THEN TypedFrom(chs, i + 1, Append(codes, CodeOf(SymDigit[IndexOf(Digits, ssk)])), FALSE)
       \* CAPS SHIFT + letter: the capital in L mode; in K mode a letter key gives its keyword, shifted or not
       ELSE IF IsLetterKey(csk) THEN
            TypedFrom(chs, i + 1, Append(codes, CodeOf(IF KMode(codes) THEN KeywordOf[IndexOf(Letters, csk)] ELSE Uppers[IndexOf(Letters, csk)])), FALSE)
       ELSE bad
Typed(chs) == TypedFrom(chs, 1, <<>>, FALSE)

\* ================================================================================================ 6. the tracer machine
\* kind "load":  the schedule of section 3; an accepted frame interrupt (Frame) moves past a slot that is exhausted
\*               (a gap, or a chord all of whose half-rows have been read); a read shows the keys of the current chord
\*               in the half-rows it looks at and uses those half-rows up.
\* kind "press": the plan of section 4; a key stays down until its half-row has been read, then the next one is
\*               down; interrupts change nothing; when the plan is empty the tape resumes.
VARIABLES kind, sched, last
kvars == <<kind, sched, last>>

NoRead == [port |-> 0 - 1, value |-> 255, head |-> {}, looked |-> {}]

\* SkoolKit's `load` tracer: only the eight ports 0x??FE that select exactly one half-row are answered
SkExactRow(port) == {r \in Rows : port = RowPort(r)}
LoadLooks(port) == SkExactRow(port)                    \* published: UlaRows(port)

HeadKeys == IF sched = <<>> THEN {} ELSE sched[1].keys
HeadUnread == IF sched = <<>> THEN {} ELSE sched[1].unread

ReadLoadWith(port, looks) ==
  LET vis == looks \cap HeadUnread
      down == {k \in HeadKeys : RowOf(k) \in vis}
  IN /\ last' = [port |-> port, value |-> MatrixRead(down, port), head |-> HeadKeys, looked |-> vis]
     /\ sched' = IF vis = {} THEN sched ELSE [sched EXCEPT ![1].unread = @ \ vis]
ReadLoad(port) == ReadLoadWith(port, LoadLooks(port))
\* what the published matrix would show for the same keys (differs from ReadLoad's value exactly on SkExactRow's account)
PublishedLoadValue(port) == MatrixRead({k \in HeadKeys : RowOf(k) \in (UlaRows(port) \cap HeadUnread)}, port)

PressHit(port) == UlaRows(port) \cap HeadUnread # {}
ReadPress(port) ==
  /\ last' = [port |-> port, value |-> IF PressHit(port) THEN MatrixRead(HeadKeys, port) ELSE 255, head |-> HeadKeys,
              looked |-> UlaRows(port) \cap HeadUnread]
  /\ sched' = IF PressHit(port) THEN Tail(sched) ELSE sched

ReadPort(port) == /\ (IF kind = "load" THEN ReadLoad(port) ELSE ReadPress(port))
                  /\ UNCHANGED kind
Frame == /\ sched' = IF kind = "load" /\ sched # <<>> /\ sched[1].unread = {} THEN Tail(sched) ELSE sched
         /\ last' = NoRead
         /\ UNCHANGED kind
\* the tape resumes / keyboard input is over
Done == sched = <<>>

\* ---- invariants (model-checked by KeyboardMC on small instances; evaluated on every recorded trace by KeyTrace)
SlotOK(s) == s.keys \subseteq Keys /\ s.unread \subseteq Rows
TypeOK == /\ kind \in {"load", "press"}
          /\ \A i \in 1..Len(sched) : SlotOK(sched[i])
          /\ last.value \in 0..255
\* D5, D6, D7 read 1
FixedBits == last.value >= Fixed
\* a key that is not in the current set never reads pressed
NoPhantom == last.port >= 0 => ShownDown(last.value, last.port) \cap Keys \subseteq
                               {k \in Keys : \E h \in last.head : RowOf(h) \in UlaRows(last.port) /\ BitOf(h) = BitOf(k)}
\* no half-row selected, or not a ULA port: all keys up
NoRowAllUp == last.port >= 0 /\ UlaRows(last.port) = {} => AllUp(last.value)
\* what is shown comes from half-rows the read looked at
ShownFromLooked == last.port >= 0 => \A b \in Bits : ~BitSet(last.value, b) => \E h \in last.head : RowOf(h) \in last.looked /\ BitOf(h) = b
\* half-rows combine by AND: holds for the matrix operator on every set of keys the machine can have down
CombineByAnd(ports) == \A p \in ports : KeyBits(HeadKeys, UlaRows(p)) = AndOver(HeadKeys, UlaRows(p))
\* a `press` slot is one key in one half-row, or NONE
PressSlotsOK == kind = "press" => \A i \in 1..Len(sched) : Cardinality(sched[i].keys) <= 1
\* action properties
ShrinksA == Len(sched') \in {Len(sched), Len(sched) - 1}
\* a chord leaves the `load` schedule only after all its half-rows have been read; a `press` key only by a read of its half-row
HeldUntilReadA == Len(sched') < Len(sched) =>
                    IF kind = "load" THEN sched[1].unread = {} /\ last' = NoRead
                    ELSE last'.port >= 0 /\ UlaRows(last'.port) \cap sched[1].unread # {}
\* interrupts do not move a `press` plan
PressIgnoresFramesA == kind = "press" /\ last' = NoRead => sched' = sched
Shrinks == [][ShrinksA]_kvars
HeldUntilRead == [][HeldUntilReadA]_kvars
PressIgnoresFrames == [][PressIgnoresFramesA]_kvars
=============================================================================
