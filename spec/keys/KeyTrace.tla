------------------------------ MODULE KeyTrace ------------------------------
(***************************************************************************)
(* Sequential trace validation for extension E05: every recorded step IS a  *)
(* Frame / ReadPort action of the tracer machine of Keyboard.tla.           *)
(*                                                                         *)
(* Traces[tid] = [kind, words, delay, groups, steps, obs, ended, left, n]    *)
(*  kind "load":  KeyboardTracer.run on a real simulator (Python / C, with   *)
(*                or without contention) executing a generated program;      *)
(*                words, delay = what the tracer was constructed with        *)
(*  kind "press": KeypressTracer.run likewise; words = the key identifiers   *)
(*  kind "pe2e":  tap2sna.py --press N:KEYS on a generated tape whose        *)
(*                program reads ports and stores what it reads; groups[g] =  *)
(*                the characters of the KEYS of the g-th --press option      *)
(*  steps[l] = <<"f", 0>> an accepted frame interrupt (EI: HALT)             *)
(*           | <<"r", port>> an IN from port (IN A,(n) / IN r,(C) / INI)     *)
(*           | <<"g", g>> the tape reaches the block of the g-th --press     *)
(*  obs[l]   = the value read (0 for "f", "g")                               *)
(*  ended    = "exhausted" (run returned because no keys were left) or       *)
(*             "stopped" (stop address / end of program)                     *)
(*  left     = number of slots left in the tracer's list at the end          *)
(*                                                                         *)
(* Verdicts: bits D5/D7, all keys up when no half-row is selected, and for   *)
(* `press` (documented semantics) every value, the moment the run ends and   *)
(* what is left.  For `load` the exact timing is SkoolKit's own choice: a    *)
(* value that differs from the machine's is a violation only if no           *)
(* assignment of times explains it (LooseOK: every key shown belongs to a    *)
(* chord of the schedule, chords in order); otherwise it is drift.  Reads    *)
(* that the published matrix would answer differently from SkoolKit's `load`  *)
(* tracer (SkExactRow) are reported as DEVIATION notes.                      *)
(***************************************************************************)
EXTENDS Keyboard, Json, IOUtils

Traces == JsonDeserialize(IOEnv.CASES)

VARIABLES tid, l, verdict
tvars == <<kind, sched, last, tid, l, verdict>>

T == Traces[tid]
Mach(k) == IF k = "load" THEN "load" ELSE "press"

\* ---- timing-free reading of a `load` trace: keys shown must come from the chords, in order
Explains(ch, v, port) == \A b \in Bits : ~BitSet(v, b) => \E k \in ch : RowOf(k) \in UlaRows(port) /\ BitOf(k) = b
RECURSIVE LooseFrom(_, _, _, _)
LooseFrom(tr, cs, i, j) ==
  IF i > Len(tr.steps) THEN TRUE
  ELSE IF tr.steps[i][1] # "r" \/ AllUp(tr.obs[i]) THEN LooseFrom(tr, cs, i + 1, j)
  ELSE LET cand == {x \in j..Len(cs) : Explains(cs[x], tr.obs[i], tr.steps[i][2])} IN
       IF cand = {} THEN FALSE ELSE LooseFrom(tr, cs, i + 1, CHOOSE x \in cand : \A y \in cand : x <= y)
LooseOK(tr) == LooseFrom(tr, ChordsOf(tr.words), 1, 1)

\* NONE (documented only as "no key") is current or has been: how long it lasts is SkoolKit's choice
NoneSeen(tr, sc) == IF tr.kind = "press" THEN \E i \in 1..Len(tr.words) : PressName(tr.words[i]) = "NONE"
                    ELSE \E g \in 1..Len(tr.groups) : LET ws == PressWordsOf(tr.groups[g]) IN \E i \in 1..Len(ws) : PressName(ws[i]) = "NONE"

TraceInit ==
  /\ tid \in 1..Len(Traces)
  /\ l = 0 /\ verdict = "pending"
  /\ kind = Mach(Traces[tid].kind) /\ sched = <<>> /\ last = NoRead

Final(sc) ==
  IF T.kind = "load" THEN (IF Len(sc) # T.left THEN "drift:left" ELSE "ok")
  ELSE IF T.kind = "press" THEN
       (IF (T.ended = "exhausted") # (sc = <<>>) THEN "press-end"
        ELSE IF Len(sc) # T.left THEN "press-left" ELSE "ok")
  ELSE (IF sc # <<>> THEN "harness:unconsumed" ELSE IF T.resumed # Len(T.groups) THEN "resume-count" ELSE "ok")

Setup ==
  /\ l = 0
  /\ UNCHANGED <<kind, last>>
  /\ sched' = IF T.kind = "load" THEN Schedule(T.words, T.delay)
              ELSE IF T.kind = "press" THEN PressPlan(T.words) ELSE <<>>
  /\ verdict' = IF T.kind = "load" /\ ~WordsDefined(T.words) THEN "harness:undefined"
                ELSE IF T.kind = "press" /\ ~PressDefined(T.words) THEN "harness:undefined"
                ELSE IF T.kind = "pe2e" /\ \E g \in 1..Len(T.groups) : ~PressDefined(PressWordsOf(T.groups[g])) THEN "harness:undefined"
                ELSE IF Len(T.steps) = 0 THEN Final(sched') ELSE "pending"

\* the verdict after step l, given the machine's post-state
ReadClause(v, port, mv, sc, pub) ==
  IF ~BitSet(v, 5) \/ ~BitSet(v, 7) THEN "fixed-bits"
  ELSE IF UlaRows(port) = {} /\ ~AllUp(v) THEN "no-row-not-up"
  ELSE IF (v % 32) # (mv % 32) THEN
       (IF T.kind = "load" THEN (IF LooseOK(T) THEN "drift:timing" ELSE "phantom-key")
        ELSE IF NoneSeen(T, sc) THEN "drift:none" ELSE "press-value")
  ELSE IF T.kind = "press" /\ sc = <<>> /\ l < Len(T.steps) THEN "ran-past-end"
  ELSE "ok"

Step ==
  /\ l >= 1 /\ l <= Len(T.steps)
  /\ LET a == T.steps[l] IN
     /\ IF a[1] = "f" THEN Frame
        ELSE IF a[1] = "r" THEN ReadPort(a[2])
        ELSE /\ sched' = (IF sched = <<>> THEN PressPlan(PressWordsOf(T.groups[a[2]])) ELSE sched)
             /\ last' = NoRead /\ UNCHANGED kind
     /\ LET pub == IF a[1] = "r" /\ T.kind = "load" THEN PublishedLoadValue(a[2]) ELSE 0 - 1
            c == IF a[1] = "r" THEN ReadClause(T.obs[l], a[2], last'.value, sched', pub)
                 ELSE IF a[1] = "g" /\ sched # <<>> THEN "harness:group-overlap"
                 ELSE IF T.kind = "press" /\ sched' = <<>> /\ l < Len(T.steps) THEN "ran-past-end"
                 ELSE "ok"
            c2 == IF c = "ok" /\ l = Len(T.steps) THEN Final(sched') ELSE c
        IN /\ verdict' = IF c2 = "ok" THEN (IF l = Len(T.steps) THEN "ok" ELSE "pending") ELSE c2
           /\ (IF pub < 0 \/ pub = last'.value THEN TRUE
               ELSE PrintT(<<"DEVIATION", (tid * 1000) + l, IF (a[2] % 256) = 254 THEN "multi-row" ELSE "port-alias">>))

TraceStep ==
  /\ verdict = "pending"
  /\ (Setup \/ Step)
  /\ l' = l + 1
  /\ UNCHANGED tid
  /\ (IF verdict' \in {"ok", "pending"} THEN TRUE
      ELSE PrintT(<<IF verdict' \in {"drift:timing", "drift:none", "drift:left"} THEN "DRIFT" ELSE "FAIL", (tid * 1000) + l, verdict'>>))

TraceSpec == TraceInit /\ [][TraceStep]_tvars

\* the machine's action properties on every recorded Frame / ReadPort step
RealStep == l >= 1 /\ T.steps[l][1] # "g"
TrShrinks == [][RealStep => ShrinksA]_tvars
TrHeldUntilRead == [][RealStep => HeldUntilReadA]_tvars
TrPressIgnoresFrames == [][RealStep => PressIgnoresFramesA]_tvars
=============================================================================
