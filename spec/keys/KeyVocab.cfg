INIT VInit
NEXT VNext
CHECK_DEADLOCK FALSE
