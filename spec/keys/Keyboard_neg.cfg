SPECIFICATION MCSpec
CONSTANT KeyBits <- NegKeyBits
INVARIANT MCCombine
CHECK_DEADLOCK FALSE
