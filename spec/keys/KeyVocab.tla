------------------------------ MODULE KeyVocab ------------------------------
(* Exports the tables of Keyboard.tla for the generators of the harness (so that they exist in one place only). *)
EXTENDS Keyboard, Json, IOUtils

ASSUME JsonSerialize(IOEnv.VOCAB_OUT,
         [rows |-> HalfRows, letters |-> Letters, uppers |-> Uppers, digits |-> Digits, keyword |-> KeywordOf,
          symletter |-> SymLetter, symdigit |-> SymDigit, eabove |-> EAboveLetter, ebelowl |-> EBelowLetter,
          ebelowd |-> EBelowDigit, tokens |-> TokenNames])

VInit == kind = "load" /\ sched = <<>> /\ last = NoRead
VNext == FALSE /\ UNCHANGED kvars
=============================================================================
