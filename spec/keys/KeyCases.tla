------------------------------ MODULE KeyCases ------------------------------
(***************************************************************************)
(* Pattern B judge for extension E05: one case = one observation of the     *)
(* real code, judged against Keyboard.tla.                                  *)
(*                                                                         *)
(* kind "sched": KeyboardTracer(simulator, words, delay, None) constructed  *)
(*    as tap2sna does; obs = its schedule (`keys`): for every slot the list  *)
(*    of [port, value] pairs (empty = gap), or the error raised.             *)
(* kind "plan":  tap2sna.main with `-c load=...` (and machine) up to the     *)
(*    point where it starts the keyboard tracer: the words, the delay and    *)
(*    the stop address it passes.                                            *)
(* kind "line":  tap2sna.main end to end on the 48K ROM: `-c load=<line>     *)
(*    PC=0x12B4` (the return from the ROM's EDITOR, i.e. ENTER has been      *)
(*    accepted) and `--start 0x1B17`; obs = the edit line (E_LINE..WORKSP)   *)
(*    of the snapshot: what the ROM's own keyboard routines made of the      *)
(*    simulated keys.                                                        *)
(* kind "scan":  a program that reads all eight half-rows after every frame  *)
(*    interrupt, run by KeyboardTracer.run on a real simulator; obs = the    *)
(*    eight values per frame.                                                *)
(* kind "plist": KeypressTracer(...) constructed as tap2sna does for         *)
(*    `--press`; obs = its list of (half-row mask, value) or the error.      *)
(*                                                                         *)
(* Judge returns <<clause, drift>>: clause "ok" or the first clause of the  *)
(* documentation / the published matrix that fails; drift names a           *)
(* difference in something that is not documented (gap lengths, arity of a   *)
(* chord, treatment of undefined words...) - counted, never a violation.     *)
(***************************************************************************)
EXTENDS Keyboard, Json, IOUtils

Cases == JsonDeserialize(IOEnv.CASES)

VARIABLES tid, verdict

\* ---- decoding observations ---------------------------------------------------------------------------------------
\* a slot of KeyboardTracer.keys: [port, value] pairs
PairOK(pr) == /\ \E r \in Rows : pr[1] = RowPort(r)
              /\ pr[2] >= Fixed /\ pr[2] < 255
SlotFormOK(prs) == /\ \A i \in 1..Len(prs) : PairOK(prs[i])
                   /\ \A i, j \in 1..Len(prs) : i # j => prs[i][1] # prs[j][1]
SlotKeys(prs) == UNION {ShownDown(prs[i][2], prs[i][1]) : i \in 1..Len(prs)}
NonGaps(kss) == SelectSeq(kss, LAMBDA ks : ks # {})

JudgeSched(c) ==
  LET def == WordsDefined(c.words)
      two == \A i \in 1..Len(c.words) : IsChordWord(c.words[i]) => SkChordArity(c.words[i])
  IN
  IF ~def THEN <<"ok", IF c.err = "" THEN "undefined-word-accepted" ELSE "">>
  ELSE IF c.err # "" THEN (IF two THEN <<"rejected", "">> ELSE <<"ok", "chord-arity">>)
  ELSE IF \E i \in 1..Len(c.slots) : ~SlotFormOK(c.slots[i]) THEN <<"slot-form", "">>
  ELSE LET obs == [i \in 1..Len(c.slots) |-> SlotKeys(c.slots[i])]
           exp == Schedule(c.words, c.delay)
       IN IF NonGaps(obs) # ChordsOf(c.words) THEN <<"chords", "">>
          ELSE IF obs # [i \in 1..Len(exp) |-> exp[i].keys] THEN <<"ok", "gaps">>
          ELSE <<"ok", "">>

JudgePlan(c) ==
  LET p == LoadPlan(c.chars, c.machine) IN
  IF p.stop < 0 THEN <<"ok", IF c.err = "" THEN "bad-address-accepted" ELSE "">>
  ELSE IF c.err # "" THEN <<"plan-error", "">>
  ELSE IF c.stop # p.stop THEN <<"plan-stop", "">>
  ELSE IF c.words # p.words /\ c.words # p.skwords THEN <<"plan-words", "">>
  ELSE <<"ok", IF c.words # p.words THEN "enter-not-last" ELSE IF c.delay # ToolGap(c.machine) THEN "gap" ELSE "">>

EditorReturn == 4788       \* 0x12B4: MAIN-2 after CALL EDITOR
LineScan == 6935           \* 0x1B17: LINE-SCAN, the instruction executed next
JudgeLine(c) ==
  LET p == LoadPlan(c.chars, 48) IN
  IF ~WordsDefined(p.words) \/ p.stop # EditorReturn THEN <<"harness:line", "">>
  ELSE LET t == Typed(ChordsOf(p.words)) IN
       IF ~(t.ok /\ t.done) THEN <<"ok", "skip">>
       ELSE IF c.err # "" THEN <<"line-error", "">>
       ELSE IF c.pc # LineScan THEN <<"stop-address", "">>
       ELSE IF c.line = Append(t.codes, 128) THEN <<"ok", "">>
       \* a recognisable way of failing: everything but the first keypress arrived
       ELSE LET t1 == Typed(Tail(ChordsOf(p.words))) IN
            IF t1.ok /\ t1.done /\ c.line = Append(t1.codes, 128) THEN <<"first-key-lost", "">> ELSE <<"typed-line", "">>

\* eight values (half-rows 1..8 in order) -> the keys seen down
ScanOK(vs) == \A r \in Rows : BitSet(vs[r], 5) /\ BitSet(vs[r], 7)
ScanKeys(vs) == UNION {ShownDown(vs[r], RowPort(r)) : r \in Rows}
\* a press = a maximal run of equal non-empty scans
Presses(kss) == LET idx == SelectSeq([i \in 1..Len(kss) |-> i], LAMBDA i : kss[i] # {} /\ (i = 1 \/ kss[i - 1] # kss[i]))
                IN [j \in 1..Len(idx) |-> kss[idx[j]]]
JudgeScan(c) ==
  IF ~WordsDefined(c.words) THEN <<"harness:scan", "">>
  ELSE IF \E i \in 1..Len(c.scans) : ~ScanOK(c.scans[i]) THEN <<"fixed-bits", "">>
  ELSE LET kss == [i \in 1..Len(c.scans) |-> ScanKeys(c.scans[i])]
           exp == Schedule(c.words, c.delay)
       IN IF Presses(kss) # ChordsOf(c.words) THEN <<"chords-seen", "">>
          \* scan n follows n interrupts; a full scan uses a chord up, so interrupt n leaves slot n+1 current
          ELSE IF kss # [n \in 1..Len(kss) |-> IF n + 1 <= Len(exp) THEN exp[n + 1].keys ELSE {}] THEN <<"ok", "timing">>
          ELSE IF \E i \in 1..Len(c.scans) : \E r \in Rows : ~BitSet(c.scans[i][r], 6) THEN <<"ok", "ear-bit">>
          ELSE <<"ok", "">>

\* an entry of KeypressTracer.keys: [mask, value]; mask has bit 8+r-1 set for each half-row r that answers
MaskRows(m) == {r \in Rows : BitSet(m \div 256, r - 1)}
JudgePlist(c) ==
  IF ~PressDefined(c.words) THEN <<"ok", IF c.err = "" THEN "undefined-key-accepted" ELSE "">>
  ELSE IF c.err # "" THEN <<"press-rejected", "">>
  ELSE LET exp == PressPlan(c.words) IN
       IF Len(c.keys) # Len(exp) THEN <<"press-count", "">>
       ELSE IF \E i \in 1..Len(exp) : exp[i].keys # {} /\
                 ~(/\ (c.keys[i][1] % 256) = 0 /\ MaskRows(c.keys[i][1]) = exp[i].unread
                   /\ c.keys[i][2] = MatrixRead(exp[i].keys, RowPort(RowOf(CHOOSE k \in exp[i].keys : TRUE))))
            THEN <<"press-key", "">>
       ELSE IF \E i \in 1..Len(exp) : exp[i].keys = {} /\ ~(MaskRows(c.keys[i][1]) = Rows /\ AllUp(c.keys[i][2]) /\ c.keys[i][2] >= Fixed)
            THEN (IF \E i \in 1..Len(exp) : exp[i].keys = {} /\ ~AllUp(c.keys[i][2]) THEN <<"none-shows-key", "">> ELSE <<"ok", "none-rows">>)
       ELSE <<"ok", "">>

Judge(c) == IF c.kind = "sched" THEN JudgeSched(c)
            ELSE IF c.kind = "plan" THEN JudgePlan(c)
            ELSE IF c.kind = "line" THEN JudgeLine(c)
            ELSE IF c.kind = "scan" THEN JudgeScan(c)
            ELSE IF c.kind = "plist" THEN JudgePlist(c)
            ELSE <<"harness:kind", "">>

\* (the machine's variables are not used by this module)
Init == tid \in 1..Len(Cases) /\ verdict = "pending" /\ kind = "load" /\ sched = <<>> /\ last = NoRead
Next == /\ verdict = "pending"
        /\ UNCHANGED kvars
        /\ UNCHANGED tid
        /\ LET j == Judge(Cases[tid]) IN
           /\ verdict' = j[1]
           /\ (IF j[2] = "" THEN TRUE ELSE PrintT(<<"DRIFT", tid, j[2]>>))
           /\ (IF j[1] = "ok" THEN TRUE ELSE PrintT(<<"FAIL", tid, j[1]>>))
=============================================================================
