SPECIFICATION MCFair
INVARIANT TypeOK
INVARIANT FixedBits
INVARIANT NoPhantom
INVARIANT NoRowAllUp
INVARIANT ShownFromLooked
INVARIANT PressSlotsOK
INVARIANT MCCombine
PROPERTY Shrinks
PROPERTY HeldUntilRead
PROPERTY PressIgnoresFrames
PROPERTY EventuallyDone
CHECK_DEADLOCK FALSE
