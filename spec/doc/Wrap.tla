------------------------------- MODULE Wrap -------------------------------
(***************************************************************************)
(* Annotated-disassembly text layout (C18).                                 *)
(*                                                                          *)
(* An annotation (title, description paragraph, register description,       *)
(* start/mid-block/end comment paragraph, instruction comment) is a         *)
(* sequence of WORDS; a word is a maximal run of non-blank characters and   *)
(* is never split.  A converter lays the words out on LINES; a line has a   *)
(* fixed part (comment marker, indentation, instruction field, register     *)
(* name ...) and the words it carries.  The two requirements of C18 are     *)
(*                                                                          *)
(*   InOrderOnce : the words of the lines, read line by line, are exactly   *)
(*                 the words of the annotation (nothing dropped, repeated   *)
(*                 or reordered - only white space changes);                *)
(*   WidthRule   : a line is no longer than the configured width W unless   *)
(*                 what it carries is a single unbreakable unit (one word,  *)
(*                 one table, an instruction that alone is too long).       *)
(*                                                                          *)
(* Instruction comments that cover a group of `rowspan' instructions are    *)
(* laid out in ROWS: Rows(group) = max(rowspan, #comment lines); row j      *)
(* carries instruction j (j <= rowspan) and comment line j (j <= #lines).   *)
(*                                                                          *)
(* Part 1 of this module is the state machine of the reference layout       *)
(* algorithm - greedy placement, i.e. Python's textwrap with                *)
(* break_long_words=False, break_on_hyphens=False, which is what            *)
(* skoolkit.wrap() is documented to be - and is model-checked with          *)
(* Wrap_mc.cfg.  Part 2 holds the pure operators with which recorded        *)
(* output of the real tools is judged (WrapCases.tla): flattening, the      *)
(* brace rules of the skool file format, the width rule with its            *)
(* exceptions and the greedy "could the next word still have fitted" test   *)
(* that measures drift from the reference.                                  *)
(***************************************************************************)
EXTENDS Integers, Sequences, FiniteSets

CONSTANTS W,          \* width available to the words of one line
          MaxWords,   \* annotations of 0..MaxWords words are explored
          Lens,       \* set of word lengths explored
          MaxInstr    \* group sizes 1..MaxInstr are explored

VARIABLES lens,       \* lens[i] = length of word i (chosen in Init)
          rowspan,    \* number of instructions the comment covers
          lines,      \* sequence of lines; a line is a sequence of word indexes
          nxt,        \* index of the next word to place
          rows,       \* instruction rows emitted so far
          phase       \* "wrap" -> "rows" -> "done"
vars == <<lens, rowspan, lines, nxt, rows, phase>>

Max(a, b) == IF a >= b THEN a ELSE b
Min(a, b) == IF a <= b THEN a ELSE b

\* sums and concatenations split their range in halves: the recursion is only log(n) deep, so that TLC can
\* evaluate them on the few hundred words of a long comment without exhausting its stack
RECURSIVE SumRange(_, _, _)
SumRange(f, a, b) == IF a > b THEN 0 ELSE IF a = b THEN f[a]
                     ELSE LET m == (a + b) \div 2 IN SumRange(f, a, m) + SumRange(f, m + 1, b)
SumSeq(s) == SumRange(s, 1, Len(s))

RECURSIVE FlattenRange(_, _, _)
FlattenRange(ls, a, b) == IF a > b THEN <<>> ELSE IF a = b THEN ls[a]
                          ELSE LET m == (a + b) \div 2 IN FlattenRange(ls, a, m) \o FlattenRange(ls, m + 1, b)
Flatten(ls) == FlattenRange(ls, 1, Len(ls))    \* concatenation of a sequence of sequences

Iota(n) == [i \in 1..n |-> i]

(***************************************************************************)
(* Part 1 - the greedy layout as a state machine                            *)
(***************************************************************************)
\* length of the text of a line: its words separated by single blanks
TextLen(line) == SumSeq([j \in 1..Len(line) |-> lens[line[j]]]) + (Len(line) - 1)

Init == /\ \E n \in 0..MaxWords : lens \in [1..n -> Lens]
        /\ rowspan \in 1..MaxInstr
        /\ lines = <<>> /\ nxt = 1 /\ rows = <<>> /\ phase = "wrap"

\* textwrap: a word goes on the current line if it still fits behind one blank; otherwise it starts
\* a new line - also when it is longer than the whole width (break_long_words=False)
Place(w) ==
  /\ phase = "wrap" /\ w = nxt /\ w <= Len(lens)
  /\ lines' = IF lines = <<>> THEN << <<w>> >>
              ELSE LET cur == lines[Len(lines)] IN
                   IF TextLen(cur) + 1 + lens[w] <= W
                   THEN [lines EXCEPT ![Len(lines)] = Append(cur, w)]
                   ELSE Append(lines, <<w>>)
  /\ nxt' = nxt + 1
  /\ UNCHANGED <<lens, rowspan, rows, phase>>

EndOfText == /\ phase = "wrap" /\ nxt > Len(lens) /\ phase' = "rows"
             /\ UNCHANGED <<lens, rowspan, lines, nxt, rows>>

NumRows == Max(rowspan, Len(lines))

\* row j: instruction j while there are instructions left, comment line j while there are lines left
EmitRow ==
  /\ phase = "rows" /\ Len(rows) < NumRows
  /\ LET j == Len(rows) + 1 IN
     rows' = Append(rows, [ins |-> IF j <= rowspan THEN j ELSE 0,
                           cl  |-> IF j <= Len(lines) THEN lines[j] ELSE <<>>])
  /\ UNCHANGED <<lens, rowspan, lines, nxt, phase>>

Finish == /\ phase = "rows" /\ Len(rows) = NumRows /\ phase' = "done"
          /\ UNCHANGED <<lens, rowspan, lines, nxt, rows>>

Next == (\E w \in 1..MaxWords : Place(w)) \/ EndOfText \/ EmitRow \/ Finish
Spec == Init /\ [][Next]_vars

TypeOK == /\ lens \in Seq(Lens) /\ Len(lens) <= MaxWords
          /\ rowspan \in 1..MaxInstr /\ nxt \in 1..(MaxWords + 1)
          /\ phase \in {"wrap", "rows", "done"}

\* C18, clause 1 (on the model): at every moment the placed words, read line by line, are 1..nxt-1
InOrderOnce == Flatten(lines) = Iota(nxt - 1)
NoEmptyLine == \A l \in 1..Len(lines) : Len(lines[l]) > 0
\* C18, clause 2 (on the model): only a line that consists of one unbreakable word may exceed W
WidthRule == \A l \in 1..Len(lines) : TextLen(lines[l]) <= W \/ Len(lines[l]) = 1
\* greedy = no line is broken although the next word would still have fitted (textwrap's wrap points)
NoEarlyBreak == \A l \in 1..(Len(lines) - 1) : TextLen(lines[l]) + 1 + lens[lines[l + 1][1]] > W

RowsRule ==
  phase = "done" =>
    /\ Len(rows) = Max(rowspan, Len(lines))
    /\ [j \in 1..rowspan |-> rows[j].ins] = Iota(rowspan)                 \* every instruction once, in order
    /\ \A j \in (rowspan + 1)..Len(rows) : rows[j].ins = 0
    /\ Flatten([j \in 1..Len(rows) |-> rows[j].cl]) = Iota(Len(lens))      \* every word once, in order
    /\ \A j \in 1..Len(rows) : (rows[j].cl = <<>>) = (j > Len(lines))     \* comment lines fill the rows from the top

(***************************************************************************)
(* Part 2 - operators for judging recorded output                           *)
(*                                                                          *)
(* A recorded word is an integer code = 100*id + 10*lb + rb: id names the    *)
(* word with its leading '{' and trailing '}' characters taken off (0 if    *)
(* nothing is left), lb / rb count those leading / trailing braces.         *)
(***************************************************************************)
Core(c) == c \div 100
Lb(c) == (c \div 10) % 10
Rb(c) == c % 10
NoLb(c) == c - (10 * Lb(c))
NoRb(c) == c - Rb(c)

MinOf(S) == CHOOSE x \in S : \A y \in S : x <= y
MaxOf(S) == CHOOSE x \in S : \A y \in S : x >= y

\* Brace rules of the skool file format ("Braces in comments"): an instruction comment that starts
\* with '{' ends where the closing braces seen so far are at least as many as the opening braces;
\* the adjacent opening braces at its start and the adjacent closing braces at its end are markup.
Opens(ws) == SumSeq([i \in 1..Len(ws) |-> Lb(ws[i])])
Closes(ws) == SumSeq([i \in 1..Len(ws) |-> Rb(ws[i])])
Braced(ws) == Len(ws) > 0 /\ Lb(ws[1]) > 0
DropFirstMarkup(ws) ==
  LET c == NoLb(ws[1]) IN IF c = 0 THEN Tail(ws) ELSE <<c>> \o Tail(ws)
DropLastMarkup(ws) ==
  IF ws = <<>> THEN ws
  ELSE LET n == Len(ws) c == NoRb(ws[n]) IN
       IF c = 0 THEN SubSeq(ws, 1, n - 1) ELSE SubSeq(ws, 1, n - 1) \o <<c>>
\* the words a reader of the skool file sees in a comment written as ws
Rendered(ws) == IF Braced(ws) THEN DropLastMarkup(DropFirstMarkup(ws)) ELSE ws

\* Extent of an instruction comment in a skool file.  A recorded line is the tuple
\*   <<kind, w, n, wl, cl, fl, op, addr, rs, warn, tab, cols, lf>>
\* of which only kind ("i" = instruction or comment-continuation row), w (the words of the comment part)
\* and op (0 on a continuation row) matter here.
\* The comment of the instruction at row p consists of that row and the continuation rows after it;
\* if it starts with '{' it goes on over the following instructions until the braces balance.
RowKind(l) == l[1]
RowWords(l) == l[2]
RowOp(l) == l[7]
\* first row in a..b that is not a continuation row (b+1 if there is none); halves the range (see SumRange)
IsCont(l) == RowKind(l) = "i" /\ RowOp(l) = 0
RECURSIVE FirstNotCont(_, _, _)
FirstNotCont(o, a, b) == IF a > b THEN a ELSE IF a = b THEN (IF IsCont(o[a]) THEN a + 1 ELSE a)
                         ELSE LET m == (a + b) \div 2
                                  f == FirstNotCont(o, a, m)
                              IN IF f <= m THEN f ELSE FirstNotCont(o, m + 1, b)
InstrEnd(o, p) == FirstNotCont(o, p + 1, Len(o)) - 1
WordsIn(o, a, b) == Flatten([j \in 1..(b - a + 1) |-> RowWords(o[a + j - 1])])
RECURSIVE BraceExt(_, _, _)
BraceExt(o, e, nest) ==
  IF nest <= 0 \/ e + 1 > Len(o) \/ RowKind(o[e + 1]) # "i" THEN e
  ELSE LET e2 == InstrEnd(o, e + 1)
           ws == WordsIn(o, e + 1, e2)
       IN BraceExt(o, e2, nest + Opens(ws) - Closes(ws))
BraceExtent(o, p) ==
  LET e == InstrEnd(o, p)
      ws == WordsIn(o, p, e)
  IN IF Braced(ws) THEN BraceExt(o, e, Opens(ws) - Closes(ws)) ELSE e

\* Field widths as documented (@set properties line-width, indent / tab, instruction-width, comment-width-min of
\* skool2asm; --line-width, InstructionWidth, CommentWidthMin of sna2skool).  A comment line is "; " + text.  An
\* ASM instruction row is indent + instruction field + " ; " + comment, the field being as wide as the longest
\* operation of the group if that exceeds instruction-width.  A skool instruction row is control character +
\* 5-digit address + blank + instruction field + " ; " + comment, the field being as wide as the longest
\* operation of the whole entry if that exceeds InstructionWidth.  The comment field never gets narrower than
\* comment-width-min, even if the row then exceeds the line width.
ParagraphWidth(width) == width - 2
AsmCommentColumn(indent, iw, maxop) == indent + Max(iw, maxop) + 3
SkoolCommentColumn(iw, maxop) == 10 + Max(iw, maxop)
CommentWidth(width, column, cwmin) == Max(width - column, cwmin)

\* The width rule for one line: `over' = the line is longer than the configured width; it is excused
\* only if the wrappable part of the line is at most one unbreakable unit.
LineOK(len, width, units, excusedOtherwise) == width = 0 \/ len <= width \/ units <= 1 \/ excusedOtherwise

\* Drift from the greedy reference: the first word of the next line (length fl) would still have
\* fitted behind the text (length cl) of this line, whose words may use `avail' columns.
BrokeEarly(cl, fl, avail) == cl > 0 /\ fl > 0 /\ cl + 1 + fl <= avail
=============================================================================
