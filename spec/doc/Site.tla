-------------------------------- MODULE Site --------------------------------
(***************************************************************************)
(* The HTML disassembly written by skool2html, seen as a set of files with  *)
(* element ids and hyperlinks (C16).                                        *)
(*                                                                          *)
(* A path is a sequence of components relative to the output directory      *)
(* (<<"code","deep","32768.html">>).  An href is the sequence of components *)
(* of its path part ("..", ".", names) plus a fragment; Resolve is what a    *)
(* browser does with it relative to the directory of the linking file.      *)
(*                                                                          *)
(* State:                                                                   *)
(*   site    - the abstract input (entries, codes, maps, pages, options,    *)
(*             path settings); constant once the writing starts            *)
(*   files   - path -> sequence (bag) of element ids found in that file      *)
(*   written - sequence of paths written/copied in the current run           *)
(*   links   - set of [src, to, frag]: a link in file src to file `to`        *)
(*   todo    - (model checking only) files the documented generator still    *)
(*             has to write                                                 *)
(*                                                                          *)
(* Part 1: paths, formats, the abstract input and what the user              *)
(*         documentation says it produces (ExpectedFiles, anchors).          *)
(* Part 2: the file-system actions WriteFile / CopyResource / RemoveFile /   *)
(*         NewRun and the invariants NoDangling, FragmentExists,             *)
(*         WrittenOnce, EntryAnchorsUnique (+ Failures, the same clauses     *)
(*         as a set of strings naming every failing link).                   *)
(* Part 3: the documented generator (link rule of ref-files.rst,             *)
(*         skool-macros.rst #R, html-templates.rst) over abstract sites      *)
(*         built by constructor actions; model-checked by Site_mc.cfg, and   *)
(*         (Site_sim.cfg) simulated to give the harness abstract sites whose  *)
(*         rendering is compared page by page with DocFile (ModelDiff).      *)
(***************************************************************************)
EXTENDS Integers, Sequences, FiniteSets, TLC

CONSTANTS MaxEntries,   \* bound on entries built by the constructor actions
          MaxRefs,      \* bound on address references (operands / #R) in a built site
          Types,        \* entry types the constructor may use
          Pts,          \* numbers of extra instructions (entry points) an entry may get
          Layouts,      \* path layouts (indices into LayoutTable) the constructor may use
          AnchorKinds,  \* AddressAnchor kinds the constructor may use
          Ancs,         \* explicit-anchor choices (0 none, 1 the containing entry's address) a #R reference may get
          Deviation     \* "none" | "single-remote-operand" (a former behaviour of skoolkit, see RefLink)

VARIABLES site, files, written, links, todo
vars == <<site, files, written, links, todo>>

Range(s) == {s[i] : i \in DOMAIN s}
Count(s, x) == Cardinality({i \in DOMAIN s : s[i] = x})
Front(s) == SubSeq(s, 1, Len(s) - 1)

-----------------------------------------------------------------------------
(* Part 1a: paths and hrefs *)

Dir(p) == Front(p)
Join(d, f) == d \o f                       \* directory path + relative path

RECURSIVE Walk(_, _)
Walk(stack, comps) ==
  IF comps = <<>> THEN stack
  ELSE IF Head(comps) = "." THEN Walk(stack, Tail(comps))
  ELSE IF Head(comps) = ".."
       THEN (IF stack = <<>> THEN <<"..">>          \* leaves the output tree: names no file
             ELSE Walk(Front(stack), Tail(comps)))
  ELSE Walk(Append(stack, Head(comps)), Tail(comps))

\* the file an href in file src designates (an empty path designates src itself)
Resolve(src, href) == IF href = <<>> THEN src ELSE Walk(Dir(src), href)

RECURSIVE CommonLen(_, _)
CommonLen(a, b) == IF a = <<>> \/ b = <<>> \/ Head(a) # Head(b) THEN 0 ELSE 1 + CommonLen(Tail(a), Tail(b))

\* the relative href the documentation promises: from a page in directory d to file t
Rel(d, t) == LET k == CommonLen(d, t) IN [i \in 1..(Len(d) - k) |-> ".."] \o SubSeq(t, k + 1, Len(t))

RECURSIVE PathStr(_)
PathStr(p) == IF p = <<>> THEN "" ELSE IF Len(p) = 1 THEN p[1] ELSE p[1] \o "/" \o PathStr(Tail(p))

(* Part 1b: address formats (Python format strings {address}, {address:04x}, {address:04X}, {address:05d} and
   the documented "{address#IF({mode[base]}==16)(:04X)}", with literal prefix/suffix) *)
LoHex == <<"0","1","2","3","4","5","6","7","8","9","a","b","c","d","e","f">>
UpHex == <<"0","1","2","3","4","5","6","7","8","9","A","B","C","D","E","F">>
Hex4(n, D) == D[((n \div 4096) % 16) + 1] \o D[((n \div 256) % 16) + 1] \o D[((n \div 16) % 16) + 1] \o D[(n % 16) + 1]
Dec5(n) == LoHex[((n \div 10000) % 10) + 1] \o LoHex[((n \div 1000) % 10) + 1] \o LoHex[((n \div 100) % 10) + 1]
           \o LoHex[((n \div 10) % 10) + 1] \o LoHex[(n % 10) + 1]
FmtAddr(fmt, base, a) ==
  fmt.pre \o (CASE fmt.kind = "d" -> ToString(a)
                [] fmt.kind = "x" -> Hex4(a, LoHex)
                [] fmt.kind = "X" -> Hex4(a, UpHex)
                [] fmt.kind = "D" -> Dec5(a)
                [] fmt.kind = "b" -> (IF base = 16 THEN Hex4(a, UpHex) ELSE ToString(a))) \o fmt.suf

(* Part 1c: the abstract input.
   site = [single: 0..1, base: {10,16}, afmt, ffmt: [pre, kind, suf]   (AddressAnchor, CodeFiles)
           index: Path, res: Seq(Path)                               (GameIndex; CSS/JS/[Resources] copies)
           codes: Seq([dir: Path, map: Path, asm1: Path])           (1 = main: CodePath, MemoryMap, AsmSinglePage)
           entries: Seq([a, t, c, ins: Seq(addr), bc: Seq(addr), refs: Seq([c, a, op, anc])])
           maps: Seq([path, types: Seq(STRING), inc: Seq(addr), wr: 0..1])   (main memory maps)
           pages: Seq([path, ids: Seq(STRING), refs: Seq([c, a, op, anc])])
           w: Seq(STRING)]                                           (subset of d i m o P)
   A reference [c, a, op, anc] addresses instruction a of disassembly c, as the operand of an instruction
   (op = 1) or with a #R macro (op = 0); anc = 1: the #R macro carries an explicit anchor that evaluates to the
   address of the entry that contains a ("#R40003#40000", "#R40000#$9C40"), anc = 0: it carries none. *)
AllFlags == <<"d", "i", "m", "o", "P">>
Anchor(s, a) == FmtAddr(s.afmt, s.base, a)
Entries(s) == Range(s.entries)
Real(s) == {e \in Entries(s) : e.t # "i"}                \* 'i' entries are not part of the memory map
OfCode(s, c) == {e \in Real(s) : e.c = c}
AsmFile(s, c, a) == IF s.single = 1 THEN s.codes[c].asm1 ELSE Join(s.codes[c].dir, <<FmtAddr(s.ffmt, s.base, a)>>)
EntryFile(s, e) == AsmFile(s, e.c, e.a)
Listed(m, e) == e.c = 1 /\ (e.t \in Range(m.types) \/ e.a \in Range(m.inc))
MapWritten(s, m) == m.wr = 1 /\ (m.inc # <<>> \/ \E e \in OfCode(s, 1) : e.t \in Range(m.types))
WrittenMaps(s) == {m \in Range(s.maps) : MapWritten(s, m)}
OtherCodes(s) == 2..Len(s.codes)

\* the files the documentation says a run with -w flags produces
ExpectedFor(s, flags) ==
  (IF "d" \in flags THEN {EntryFile(s, e) : e \in OfCode(s, 1)} ELSE {})
  \cup (IF "m" \in flags THEN {m.path : m \in WrittenMaps(s)} ELSE {})
  \cup (IF "P" \in flags THEN {p.path : p \in Range(s.pages)} ELSE {})
  \cup (IF "o" \in flags THEN {s.codes[c].map : c \in OtherCodes(s)}
                              \cup {EntryFile(s, e) : e \in {x \in Real(s) : x.c > 1}} ELSE {})
  \cup (IF "i" \in flags THEN {s.index} ELSE {})
ExpectedFiles(s) == ExpectedFor(s, Range(s.w)) \cup Range(s.res)
\* a link into a class of files that was deselected with -w is not expected to resolve in this tree
Excused(s) == ExpectedFor(s, Range(AllFlags)) \ ExpectedFor(s, Range(s.w))

\* how many elements carry the anchor of instruction a of entry e on its disassembly page (html-templates.rst:
\* one <span id> in the address cell, one more above a mid-block comment, and the entry <div id> on a single page)
Mult(s, e, a) == 1 + (IF a \in Range(e.bc) THEN 1 ELSE 0) + (IF s.single = 1 /\ a = e.a THEN 1 ELSE 0)

-----------------------------------------------------------------------------
(* Part 2: actions on the output tree and the C16 invariants *)

TypeOK == /\ DOMAIN files \subseteq Seq(STRING)
          /\ \A l \in links : l.src \in DOMAIN files

WriteFile(p, ids, lks) ==
  /\ files' = [q \in DOMAIN files \cup {p} |-> IF q = p THEN ids ELSE files[q]]
  /\ written' = Append(written, p)
  /\ links' = {l \in links : l.src # p}
              \cup {[src |-> p, to |-> Resolve(p, l.href), frag |-> l.frag] : l \in lks}

CopyResource(p) == WriteFile(p, <<>>, {})

\* an empty image file is deleted again by the writer
RemoveFile(p) ==
  /\ files' = [q \in DOMAIN files \ {p} |-> files[q]]
  /\ links' = {l \in links : l.src # p}
  /\ UNCHANGED written

\* skool2html is started again on the same output directory (-w subsets are meant to be combined this way)
NewRun == written' = <<>> /\ UNCHANGED <<files, links>>

WrittenOnceIn(w) == \A i, j \in DOMAIN w : w[i] = w[j] => i = j
WrittenOnce == WrittenOnceIn(written)

Exists(fs, s, p) == p \in DOMAIN fs \/ p \in Excused(s)
\* Links to files that only another -w run writes are excused (the parts are meant to be combined) - except on the index
\* page: skool2html lists there only pages that exist when the index is written, so its links are judged strictly
DanglingIn(fs, lk, s) == {l \in lk : ~(l.to \in DOMAIN fs \/ (l.to \in Excused(s) /\ l.src # s.index))}
BadFragIn(fs, lk) == {l \in lk : l.frag # "" /\ l.to \in DOMAIN fs /\ l.frag \notin Range(fs[l.to])}
NoDangling == DanglingIn(files, links, site) = {}
FragmentExists == BadFragIn(files, links) = {}
ExpectedExist == ExpectedFiles(site) \subseteq DOMAIN files

\* <<file, anchor, found, allowed>> for every instruction of an entry on its disassembly page / every map row
AnchorCounts(fs, s) ==
  UNION {{<<EntryFile(s, e), Anchor(s, a), Count(fs[EntryFile(s, e)], Anchor(s, a)), Mult(s, e, a)>> : a \in Range(e.ins)}
           : e \in {x \in Real(s) : EntryFile(s, x) \in DOMAIN fs}}
  \cup UNION {{<<m.path, Anchor(s, e.a), Count(fs[m.path], Anchor(s, e.a)), 1>> : e \in {x \in OfCode(s, 1) : Listed(m, x)}}
                : m \in {x \in WrittenMaps(s) : x.path \in DOMAIN fs}}
  \cup {<<s.codes[e.c].map, Anchor(s, e.a), Count(fs[s.codes[e.c].map], Anchor(s, e.a)), 1>>
          : e \in {x \in Real(s) : x.c > 1 /\ s.codes[x.c].map \in DOMAIN fs}}
\* violations: no anchor at all, or more anchors than the documented templates attach to one address
AnchorProblems(fs, s) == {t \in AnchorCounts(fs, s) : t[3] = 0 \/ t[3] > t[4]}
\* fewer anchors than the templates produce, but at least one: not a violation of C16 (drift)
AnchorDrift(fs, s) == {t \in AnchorCounts(fs, s) : t[3] > 0 /\ t[3] < t[4]}
EntryAnchorsUnique == AnchorProblems(files, site) = {}

\* every failing clause as a string "clause|..." (used by trace validation to report all of them)
Failures(fs, lk, s) ==
  {"expected-missing|" \o PathStr(p) : p \in ExpectedFiles(s) \ DOMAIN fs}
  \cup {"dangling|" \o PathStr(l.src) \o "|" \o PathStr(l.to) \o "|" \o l.frag : l \in DanglingIn(fs, lk, s)}
  \cup {"fragment|" \o PathStr(l.src) \o "|" \o PathStr(l.to) \o "|" \o l.frag : l \in BadFragIn(fs, lk)}
  \cup {(IF t[3] = 0 THEN "anchor-missing|" ELSE "anchor-duplicate|") \o PathStr(t[1]) \o "|" \o t[2] \o "|" \o ToString(t[3])
          : t \in AnchorProblems(fs, s)}

-----------------------------------------------------------------------------
(* Part 3: the documented generator over abstract sites built by constructor actions *)

Fmt(k, suf) == [pre |-> "", kind |-> k, suf |-> suf]
\* path layouts: everything at the documented default places / maps, code and assets at different depths
LayoutTable == <<
  [index |-> <<"index.html">>, css |-> <<"skoolkit.css">>,
   main |-> [dir |-> <<"asm">>, map |-> <<"maps", "all.html">>, asm1 |-> <<"asm.html">>],
   other |-> [dir |-> <<"other">>, map |-> <<"other", "other.html">>, asm1 |-> <<"other", "asm.html">>],
   rmap |-> <<"maps", "routines.html">>, dmap |-> <<"maps", "data.html">>, page |-> <<"P1.html">>],
  [index |-> <<"index.html">>, css |-> <<"css", "a", "skoolkit.css">>,
   main |-> [dir |-> <<"code", "deep">>, map |-> <<"everything.html">>, asm1 |-> <<"one", "asm.html">>],
   other |-> [dir |-> <<"oc", "x", "y">>, map |-> <<"load.html">>, asm1 |-> <<"oc", "all", "in", "one.html">>],
   rmap |-> <<"maps", "routines.html">>, dmap |-> <<"maps", "data", "index.html">>, page |-> <<"pages", "sub", "p1.html">>]
>>

EmptySite(lay, single, ak) ==
  LET L == LayoutTable[lay] IN
  [single |-> single, base |-> 10, afmt |-> Fmt(ak, ""), ffmt |-> Fmt("d", ".html"),
   index |-> L.index, res |-> <<L.css>>, codes |-> <<L.main, L.other>>, entries |-> <<>>,
   maps |-> <<[path |-> L.main.map, types |-> <<"b", "c", "g", "s", "t", "u", "w">>, inc |-> <<>>, wr |-> 1],
              [path |-> L.rmap, types |-> <<"c">>, inc |-> <<>>, wr |-> 1],
              [path |-> L.dmap, types |-> <<"b", "w">>, inc |-> <<>>, wr |-> 1]>>,
   pages |-> <<[path |-> L.page, ids |-> <<"s1">>, refs |-> <<>>]>>,
   w |-> AllFlags]

BuildMark == << <<"#build">> >>           \* todo while the constructor actions are still shaping the site
Init == /\ site \in {EmptySite(lay, sp, ak) : lay \in Layouts, sp \in 0..1, ak \in AnchorKinds}
        /\ files = << >> /\ written = <<>> /\ links = {} /\ todo = BuildMark

Building == todo = BuildMark
CodeBase(c) == IF c = 1 THEN 32768 ELSE 49152
NumRefs(s) == LET RECURSIVE Sum(_) Sum(q) == IF q = <<>> THEN 0 ELSE Len(Head(q).refs) + Sum(Tail(q))
              IN Sum(s.entries) + Sum(s.pages)

\* constructor: the next entry of code c (addresses ascend inside a code, main code first - the order of
\* the two skool files is immaterial); pts extra instructions, the second of which carries a mid-block comment
AddEntry(t, c, pts) ==
  /\ Building /\ Len(site.entries) < MaxEntries /\ NumRefs(site) = 0
  /\ \A e \in Entries(site) : e.c <= c
  /\ LET a == CodeBase(c) + (16 * Cardinality({e \in Entries(site) : e.c = c}))
         e == [a |-> a, t |-> t, c |-> c, ins |-> [i \in 1..(1 + pts) |-> a + (3 * (i - 1))],
               bc |-> IF pts >= 1 THEN <<a + 3>> ELSE <<>>, refs |-> <<>>]
     IN site' = [site EXCEPT !.entries = Append(@, e)]
  /\ UNCHANGED <<files, written, links, todo>>

\* constructor: entry i refers to instruction k of entry j, with a #R macro in its text (op = 0; anc = 1: the macro
\* names the containing entry in an explicit numeric anchor) or with the operand of its last instruction (op = 1, at
\* most one per entry)
AddRef(i, j, k, op, anc) ==
  /\ Building /\ NumRefs(site) < MaxRefs
  /\ i \in DOMAIN site.entries /\ j \in DOMAIN site.entries /\ k \in DOMAIN site.entries[j].ins
  /\ site.entries[i].t # "i" /\ site.entries[j].t # "i"
  /\ op = 1 => anc = 0 /\ \A x \in Range(site.entries[i].refs) : x.op = 0
  /\ site' = [site EXCEPT !.entries[i].refs = Append(@, [c |-> site.entries[j].c, a |-> site.entries[j].ins[k], op |-> op,
                                                         anc |-> anc])]
  /\ UNCHANGED <<files, written, links, todo>>

\* constructor: the [Page:*] page refers to instruction k of entry j (a #R macro, with or without the explicit anchor)
AddPageRef(j, k, anc) ==
  /\ Building /\ NumRefs(site) < MaxRefs
  /\ j \in DOMAIN site.entries /\ k \in DOMAIN site.entries[j].ins /\ site.entries[j].t # "i"
  /\ site' = [site EXCEPT !.pages[1].refs = Append(@, [c |-> site.entries[j].c, a |-> site.entries[j].ins[k], op |-> 0,
                                                       anc |-> anc])]
  /\ UNCHANGED <<files, written, links, todo>>

\* ---- what each page contains according to the documentation ----
Href(s, p, t, frag) == [href |-> Rel(Dir(p), t), frag |-> frag]
RECURSIVE SetToSeq(_)
SetToSeq(S) == IF S = {} THEN <<>> ELSE LET x == CHOOSE x \in S : TRUE IN <<x>> \o SetToSeq(S \ {x})
Container(s, r) == {e \in Real(s) : e.c = r.c /\ r.a \in Range(e.ins)}

\* a reference r = [c, a, op] from page p (belonging to entry `from`, or to no entry: from = <<>>) to address r.a
\* of disassembly r.c leads to the page of the containing entry.  #R (skool-macros.rst): "to the disassembly page
\* for a routine or data block, or to a line at a given address within that page", i.e. with the instruction's
\* anchor unless it is the first instruction.  An instruction operand (op = 1) is linked the same way, except that
\* a reference to the first instruction of the entry it is in gets the anchor too (it stays on the page).
\* On a single page every reference carries the anchor.
\* A #R macro with an explicit anchor links to that anchor of the page; "an anchor that matches the entry address is
\* converted to the format specified by the AddressAnchor parameter" (skool-macros.rst #R, 5.1), whichever instruction
\* or entry point of the entry the macro addresses: the fragment is the formatted anchor of the entry's first
\* instruction, never the number as the author wrote it.
\* SinglePageIgnoresExplicitAnchor: on a single page skoolkit drops the explicit anchor and links to the anchor of the
\* addressed instruction (a deliberate deviation of the implementation; both fragments name an element).
\* Deviation "single-remote-operand": what skoolhtml._get_asm_entry did before the fix c7a4346 (found by this
\* check): an operand that refers to a remote entry was linked to '#anchor' on the *current* single page.
SinglePageIgnoresExplicitAnchor == TRUE

\* @remote (asm.rst): "@remote=code:address[,address2...]" in the skool file of disassembly c declares the entry at
\* `address` of disassembly `code` and entry points in it; only declared addresses of another disassembly are linked
\* to the page of their entry.  A skool file may hold several directives for one code id and for one entry of it (one
\* next to each routine that refers to it, say, each naming the entry points that routine needs): what is linkable is
\* the union of everything they name.  In a built site the file of disassembly c holds one directive per reference
\* that leaves c - next to the referring routine, or at the top of the main file for the [Page:*] page - naming the
\* containing entry and, when it is not the first instruction, the addressed entry point.
RefsOf(s, c) == UNION {Range(e.refs) : e \in OfCode(s, c)}
                \cup (IF c = 1 THEN UNION {Range(g.refs) : g \in Range(s.pages)} ELSE {})
Directives(s, c) == UNION {{[c |-> r.c, a |-> te.a, pts |-> {r.a} \ {te.a}] : te \in Container(s, r)}
                             : r \in {x \in RefsOf(s, c) : x.c # c}}
Declared(s, c, rc) == UNION {{d.a} \cup d.pts : d \in {x \in Directives(s, c) : x.c = rc}}

RefLink(s, p, from, r) ==
  LET fc == IF from = <<>> THEN 1 ELSE from.c IN
  IF r.c # fc /\ r.a \notin Declared(s, fc, r.c)
  THEN \* an undeclared address of another disassembly: an operand is not linked, #R takes it for an entry of its own
       (IF r.op = 1 THEN {} ELSE {Href(s, p, AsmFile(s, r.c, r.a), IF s.single = 1 THEN Anchor(s, r.a) ELSE "")})
  ELSE
  {IF s.single = 1
   THEN (IF Deviation = "single-remote-operand" /\ r.op = 1 /\ from.c # te.c
         THEN [href |-> <<>>, frag |-> Anchor(s, r.a)]
         ELSE Href(s, p, EntryFile(s, te), IF r.anc = 1 /\ ~SinglePageIgnoresExplicitAnchor THEN Anchor(s, te.a)
                                           ELSE Anchor(s, r.a)))
   ELSE Href(s, p, EntryFile(s, te), IF r.anc = 1 THEN Anchor(s, te.a)
                                     ELSE IF r.a # te.a \/ (r.op = 1 /\ from = te) THEN Anchor(s, r.a) ELSE "")
   : te \in Container(s, r)}

\* every page links to the style sheets / scripts and, through its logo, to the index (the index itself does not)
Std(s, p) == (IF p = s.index THEN {} ELSE {Href(s, p, s.index, "")}) \cup {Href(s, p, s.res[i], "") : i \in DOMAIN s.res}
Before(s, e) == {x \in OfCode(s, e.c) : x.a < e.a}
After(s, e) == {x \in OfCode(s, e.c) : x.a > e.a}
Prev(s, e) == {x \in Before(s, e) : \A y \in Before(s, e) : y.a <= x.a}
Next1(s, e) == {x \in After(s, e) : \A y \in After(s, e) : y.a >= x.a}

EntryIds(s, e) == \* bag of anchors of entry e, in page order
  LET RECURSIVE Ids(_)
      Ids(q) == IF q = <<>> THEN <<>> ELSE [i \in 1..Mult(s, e, Head(q)) |-> Anchor(s, Head(q))] \o Ids(Tail(q))
  IN Ids(e.ins)
\* an entry page has Prev / Up / Next navigation (Up = the entry's row on the memory map of its disassembly);
\* the single-page template has no navigation
EntryLinks(s, p, e) ==
  UNION {RefLink(s, p, e, e.refs[i]) : i \in DOMAIN e.refs}
  \cup (IF s.single = 1 THEN {}
        ELSE {Href(s, p, s.codes[e.c].map, Anchor(s, e.a))}
             \cup {Href(s, p, EntryFile(s, x), "") : x \in Prev(s, e) \cup Next1(s, e)})

RECURSIVE Flat(_)
Flat(q) == IF q = <<>> THEN <<>> ELSE Head(q) \o Flat(Tail(q))
CodeSeq(s, c) == LET S == OfCode(s, c) IN
  [i \in 1..Cardinality(S) |-> CHOOSE e \in S : Cardinality({x \in S : x.a < e.a}) = i - 1]

\* contents [ids, lks] of the documented file p (p is one of the expected files)
DocFile(s, p) ==
  LET lk(S) == S \cup Std(s, p) IN
  IF p = s.index THEN
    [ids |-> <<>>, lks |-> lk({Href(s, p, m.path, "") : m \in WrittenMaps(s)}
                               \cup {Href(s, p, s.codes[c].map, "") : c \in OtherCodes(s)}
                               \cup {Href(s, p, g.path, "") : g \in Range(s.pages)})]
  ELSE IF \E m \in WrittenMaps(s) : m.path = p THEN
    LET m == CHOOSE m \in WrittenMaps(s) : m.path = p
        es == SelectSeq(CodeSeq(s, 1), LAMBDA e : Listed(m, e)) IN
    [ids |-> [i \in DOMAIN es |-> Anchor(s, es[i].a)],
     lks |-> lk({Href(s, p, EntryFile(s, es[i]), IF s.single = 1 THEN Anchor(s, es[i].a) ELSE "") : i \in DOMAIN es})]
  ELSE IF \E c \in OtherCodes(s) : s.codes[c].map = p THEN
    LET c == CHOOSE c \in OtherCodes(s) : s.codes[c].map = p
        es == CodeSeq(s, c) IN
    [ids |-> [i \in DOMAIN es |-> Anchor(s, es[i].a)],
     lks |-> lk({Href(s, p, EntryFile(s, es[i]), IF s.single = 1 THEN Anchor(s, es[i].a) ELSE "") : i \in DOMAIN es})]
  ELSE IF \E g \in Range(s.pages) : g.path = p THEN
    LET g == CHOOSE g \in Range(s.pages) : g.path = p IN
    [ids |-> g.ids, lks |-> lk(UNION {RefLink(s, p, <<>>, g.refs[i]) : i \in DOMAIN g.refs}
                               \cup {[href |-> <<>>, frag |-> g.ids[i]] : i \in DOMAIN g.ids})]
  ELSE IF s.single = 1 THEN
    LET c == CHOOSE c \in DOMAIN s.codes : s.codes[c].asm1 = p
        es == CodeSeq(s, c) IN
    [ids |-> Flat([i \in DOMAIN es |-> EntryIds(s, es[i])]),
     lks |-> lk(UNION {EntryLinks(s, p, es[i]) : i \in DOMAIN es})]
  ELSE
    LET e == CHOOSE e \in Real(s) : EntryFile(s, e) = p IN
    [ids |-> EntryIds(s, e), lks |-> lk(EntryLinks(s, p, e))]

\* the order in which skool2html writes (commands.rst: resources, disassembly, maps, pages, other code, index)
Plan(s) ==
  LET sq(S) == SetToSeq(S) IN
  s.res \o sq(ExpectedFor(s, {"d"})) \o sq(ExpectedFor(s, {"m"})) \o sq(ExpectedFor(s, {"P"}))
        \o sq(ExpectedFor(s, {"o"})) \o sq(ExpectedFor(s, {"i"}))

\* an abstract site is usable when both codes have something to show
Finish ==
  /\ Building
  /\ OfCode(site, 1) # {} /\ OfCode(site, 2) # {}
  /\ todo' = Plan(site)
  /\ UNCHANGED <<site, files, written, links>>

WriteNext ==
  /\ ~Building /\ todo # <<>>
  /\ LET p == Head(todo) IN
       IF p \in Range(site.res) THEN CopyResource(p)
       ELSE WriteFile(p, DocFile(site, p).ids, DocFile(site, p).lks)
  /\ todo' = Tail(todo)
  /\ UNCHANGED site

Next == \/ \E t \in Types, c \in 1..2, pts \in Pts : AddEntry(t, c, pts)
        \/ \E i, j \in 1..MaxEntries, k \in 1..3, op \in 0..1, anc \in Ancs : AddRef(i, j, k, op, anc)
        \/ \E j \in 1..MaxEntries, k \in 1..3, anc \in Ancs : AddPageRef(j, k, anc)
        \/ Finish
        \/ WriteNext

Spec == Init /\ [][Next]_vars

\* documented files whose recorded content (ids in order, resolved link set) differs from DocFile: model drift,
\* reported by trace validation for sites that were rendered with nothing but the abstract content
ModelDiff(fs, lk, s) ==
  {p \in (ExpectedFor(s, Range(s.w)) \cap DOMAIN fs) :
     \/ fs[p] # DocFile(s, p).ids
     \/ {[to |-> l.to, frag |-> l.frag] : l \in {x \in lk : x.src = p}}
        # {[to |-> Resolve(p, l.href), frag |-> l.frag] : l \in DocFile(s, p).lks}}

Done == ~Building /\ todo = <<>>
\* the documented file set and link rule imply the property
DocNoDangling == Done => NoDangling
DocFragmentExists == Done => FragmentExists
DocExpectedExist == Done => ExpectedExist
DocEntryAnchorsUnique == Done => EntryAnchorsUnique
DocNoFailures == Done => Failures(files, links, site) = {}
\* the promised relative href leads back to the target, for every pair of files of the tree
RelResolves == Done => \A p, t \in DOMAIN files : Resolve(p, Rel(Dir(p), t)) = t
=============================================================================
