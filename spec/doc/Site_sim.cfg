\* pattern C: -simulate builds abstract sites with the constructor actions; the harness renders the site of each
\* behaviour to skool + ref files, runs skool2html on it and lets SiteTrace judge the recorded tree (c16.py).
SPECIFICATION Spec
CONSTANTS
  MaxEntries = 4
  MaxRefs = 3
  Types = {"b", "c", "g", "s", "t", "u", "w", "i"}
  Pts = {0, 1, 2}
  Layouts = {1, 2}
  AnchorKinds = {"d", "x"}
  Ancs = {0, 1}
  Deviation = "none"
INVARIANT TypeOK
INVARIANT WrittenOnce
INVARIANT DocExpectedExist
INVARIANT DocNoDangling
INVARIANT DocFragmentExists
INVARIANT DocEntryAnchorsUnique
INVARIANT DocNoFailures
INVARIANT RelResolves
CHECK_DEADLOCK FALSE
