\* pattern A: every abstract site of <= 4 entries in 2 disassemblies (entry types c/b, with and without entry
\* points and mid-block comments, one #R or operand reference from an entry or a page), both path layouts, decimal and hex anchors,
\* single-page on/off: the documented file set and link rule imply the C16 invariants.
\* (#R references without explicit anchor here; with explicit anchors: Site_mca.cfg)
SPECIFICATION Spec
CONSTANTS
  MaxEntries = 4
  MaxRefs = 1
  Types = {"c", "b"}
  Pts = {0, 2}
  Layouts = {1, 2}
  AnchorKinds = {"d", "x"}
  Ancs = {0}
  Deviation = "none"
INVARIANT TypeOK
INVARIANT WrittenOnce
INVARIANT DocExpectedExist
INVARIANT DocNoDangling
INVARIANT DocFragmentExists
INVARIANT DocEntryAnchorsUnique
INVARIANT DocNoFailures
INVARIANT RelResolves
CHECK_DEADLOCK FALSE
