SPECIFICATION Spec
CONSTANTS
  MaxEntries = 3
  MaxRefs = 1
  Types = {"c", "b"}
  Layouts = {1, 2}
  Deviation = "none"
INVARIANT TypeOK
INVARIANT WrittenOnce
INVARIANT DocExpectedExist
INVARIANT DocNoDangling
INVARIANT DocFragmentExists
INVARIANT DocEntryAnchorsUnique
INVARIANT DocNoFailures
INVARIANT RelResolves
CHECK_DEADLOCK FALSE
