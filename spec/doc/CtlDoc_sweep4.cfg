SPECIFICATION Spec
CONSTANTS
  MaxTop = 10
  MaxBlocks = 1
  MaxSubs = 5
  MaxStmts = 1
  MaxNotes = 1
  MaxDirs = 0
  MaxNons = 0
  WordCounts = {2}
  GenBlockTypes = {"b", "c"}
  GenNoteKinds = {"M"}
  GenSubTypes = {"B", "C"}
  Rich = 0
  Terse = 2
  Phased = TRUE
CHECK_DEADLOCK FALSE
