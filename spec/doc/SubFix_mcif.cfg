\* pattern A for @if: every file of up to MaxLines lines / MaxIns instruction lines in which directives of every
\* kind (flagged @*sub/@*fix, ! removals, @org, @label, @keep, @nowarn) come wrapped in @if, read in one mode.
\* c04.py runs this configuration for several modes (AsmMode / FixMode are rewritten there).
SPECIFICATION Spec
CONSTANTS
  AsmMode = 3
  FixMode = 3
  Base = 40000
  MaxIns = 2
  MaxDirs = 2
  MaxLines = 4
  Kinds = {"bfix"}
  TokKinds = {"one", "jp", "ld8", "jr", "defb"}
  DirTokKinds = {"ld8", "jp", "defw"}
  DirIns = 99
  Classes <- McIfClasses
  FlagSets <- McIfFlags
  TargetOffs = {1}
  RemOffs = {0, 1}
  RemLens = {1, 2}
  LabChoices = {FALSE}
  IfConds <- McIfConds
  MaxIfs = 1
  Rotate = FALSE
  FeatureSets <- McIfFeatures
  Ctls = {"c", " "}
INVARIANT TypeOK
INVARIANT LayoutIsFunctionOfFileAndMode
INVARIANT NoTwoOnOneAddress
INVARIANT OverwriteRemoves
INVARIANT LabelTableIsAFunction
INVARIANT AmapPointsAtItsInstruction
INVARIANT NoModeIsIdentity
INVARIANT StationaryKeepsOperands
INVARIANT ImagesAgreeWithoutOverrides
CHECK_DEADLOCK FALSE
