---------------------------- MODULE SubFixCases ----------------------------
(***************************************************************************)
(* C04, pattern B.  One case = one abstract skool file (the line records of *)
(* SubFix) in one mode, with what the real tools did with its rendering:    *)
(*   am, fm   the mode; base: skool address of the first instruction (the   *)
(*            harness puts a one-byte sentinel entry, DEFB 165, at base-1   *)
(*            which carries the #PEEK probes)                               *)
(*   prog     the file                                                      *)
(*   bin      [ok, start, bytes] what skool2bin wrote in that mode          *)
(*   bind     the same with --data (@defb/@defs/@defw processed)            *)
(*   hasasm   1 if skool2asm has this mode (it is always at least @isub)    *)
(*   imgs     the distinct images <<<<addr, byte>>, ...>> obtained by        *)
(*            assembling skool2asm's output (reference resolver)            *)
(*   vecs     <<option vector code, index into imgs or 0 = failed>> for     *)
(*            every {-D,-H,} x {-l,-u,} x {-c,} vector that was run;        *)
(*            code 0 is the run without options                             *)
(*   labels   <<name, value>> of the run without options                    *)
(*   peek     [have, lo, vals] #PEEK(lo), #PEEK(lo+1), ... as expanded by   *)
(*            skool2asm (run without options); hpeek: by skool2html (only   *)
(*            in the case of mode (0, 0): HTML mode executes no directive)  *)
(*   probe    1: a hand-written file of a class the generators avoid; the   *)
(*            #PEEK clause is judged although the file is not Stationary    *)
(* Verdict: "ok" or the first failing clause.                               *)
(***************************************************************************)
EXTENDS Integers, Sequences, FiniteSets, Json, IOUtils, TLC

SF == INSTANCE SubFix WITH AsmMode <- 0, FixMode <- 0, Base <- 40000, MaxIns <- 0, MaxDirs <- 0, MaxLines <- 0,
                           Kinds <- {}, TokKinds <- {}, Classes <- <<>>, FlagSets <- {}, TargetOffs <- {},
                           RemOffs <- {}, RemLens <- {}, LabChoices <- {}, Ctls <- {}, FeatureSets <- {}, DirTokKinds <- {}, DirIns <- 0,
                           IfConds <- {}, MaxIfs <- 0, Rotate <- FALSE,
                           prog <- <<>>, st <- 0, gen <- 0

Cases == JsonDeserialize(IOEnv.CASES)
VARIABLES tid, verdict

Sentinel == 165

\* a tool image [start, bytes] read at address a (-1 outside)
At(b, a) == LET k == a - b.start IN IF k >= 0 /\ k < Len(b.bytes) THEN b.bytes[k + 1] ELSE -1
\* a partial image f (function address -> byte) against what a tool wrote: the same bytes where f is defined,
\* zeroes in between, nothing outside
SameImage(f, b) ==
  /\ DOMAIN f # {}
  /\ b.start = SF!MinOf(DOMAIN f)
  /\ b.start + Len(b.bytes) = SF!MaxOf(DOMAIN f) + 1
  /\ \A a \in DOMAIN f : At(b, a) = f[a]
  /\ \A k \in 1..Len(b.bytes) : (b.start + k - 1) \in DOMAIN f \/ b.bytes[k] = 0
PairsImage(img) == SF!ImageOf(img)
WithSentinel(f, base) == [a \in DOMAIN f \cup {base - 1} |-> IF a = base - 1 THEN Sentinel ELSE f[a]]

ImgOf(c, code) ==
  LET S == { i \in 1..Len(c.vecs) : c.vecs[i][1] = code } IN
  IF S = {} THEN 0 ELSE c.vecs[CHOOSE i \in S : TRUE][2]

\* #PEEK values against an image, wherever the image has a byte
PeekOK(p, b) ==
  \A k \in 1..Len(p.vals) : LET v == At(b, p.lo + k - 1) IN v = -1 \/ v = p.vals[k]

Judge(c) ==
  LET s == SF!Run(c.prog, c.am, c.fm)
      notes == SF!FinalNotes(s)
      \* a probe of the class "remove-of-inserted" is held to the tools-agree clause although the generators leave it out
      claimed == \/ notes \cap SF!UnclaimedNotes = {}
                 \/ c.probe = 1 /\ notes \cap SF!UnclaimedNotes = {"remove-of-inserted"}
      \* @bytes cannot be written in ASM text: each tool is still held to the model, not to each other
      modelok == notes \subseteq {"bytes-override"}
      peekclaim == SF!Stationary(s)
                   \/ (c.probe = 1 /\ \A i \in 1..Len(s.out) : s.out[i].sa = -1 \/ s.out[i].a = s.out[i].sa)
      plain == ImgOf(c, 0)
      masm == WithSentinel(SF!Image(s, "asm"), c.base)
      mbin == WithSentinel(SF!Image(s, "bin"), c.base)
      mdat == WithSentinel(SF!Image(s, "data"), c.base)
  IN
  IF Len(s.out) = 0 THEN "ok"                          \* everything removed: nothing to compare
  ELSE IF (claimed \/ modelok) /\ c.bin.ok = 0 THEN "skool2bin-failed"
  ELSE IF (claimed \/ modelok) /\ c.hasasm = 1 /\ \E i \in 1..Len(c.vecs) : c.vecs[i][2] = 0 THEN "skool2asm-failed"
  ELSE IF claimed /\ c.hasasm = 1 /\ plain # 0 /\ ~SameImage(PairsImage(c.imgs[plain]), c.bin) THEN "asm-image-vs-bin"
  ELSE IF claimed /\ c.hasasm = 1 /\ \E i \in 1..Len(c.imgs) : ~SameImage(PairsImage(c.imgs[i]), c.bin) THEN "option-dependence"
  ELSE IF modelok /\ ~SameImage(mbin, c.bin) THEN "model-vs-bin"
  ELSE IF modelok /\ c.hasasm = 1 /\ \E i \in 1..Len(c.imgs) : PairsImage(c.imgs[i]) # masm THEN "model-vs-asm"
  ELSE IF modelok /\ c.hasasm = 1 /\ plain # 0
          /\ \E p \in SF!Labels(s) : ~\E k \in 1..Len(c.labels) : c.labels[k][1] = p[1] /\ c.labels[k][2] = p[2]
       THEN "model-labels"
  ELSE IF modelok /\ c.bind.ok = 1 /\ ~SameImage(mdat, c.bind) THEN "model-vs-bin-data"
  ELSE IF peekclaim /\ c.bind.ok = 0 THEN "skool2bin-data-failed"
  ELSE IF peekclaim /\ c.hasasm = 1 /\ plain # 0 /\ c.peek.have = 0 THEN "peek-asm-missing"
  ELSE IF peekclaim /\ c.hasasm = 1 /\ c.peek.have = 1 /\ ~PeekOK(c.peek, c.bind) THEN "peek-asm"
  ELSE IF peekclaim /\ c.am = 0 /\ c.fm = 0 /\ c.hpeek.have = 1 /\ ~PeekOK(c.hpeek, c.bind) THEN "peek-html"
  ELSE "ok"

Flag(b) == IF b THEN 1 ELSE 0
\* what the model made of the case (for the vacuity counts of c04.py): claimed, definite, stationary, dropped lines
Stat(c, t) ==
  LET s == SF!Run(c.prog, c.am, c.fm)
      notes == SF!FinalNotes(s)
  IN /\ PrintT(<<"STAT", t, Flag(notes \cap SF!UnclaimedNotes = {}), Flag(notes = {}), Flag(SF!Stationary(s)), Len(s.out), s.dropped>>)
     /\ \A n \in notes : PrintT(<<"NOTE", t, n>>)

Init == tid \in 1..Len(Cases) /\ verdict = "pending"
Next == /\ verdict = "pending"
        /\ verdict' = Judge(Cases[tid])
        /\ UNCHANGED tid
        /\ Stat(Cases[tid], tid)
        /\ (verdict' = "ok" \/ PrintT(<<"FAIL", tid, verdict'>>))
=============================================================================
