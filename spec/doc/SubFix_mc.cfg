\* pattern A: every file of up to MaxIns instruction lines over a small alphabet, read in one mode.
\* c04.py runs this configuration for several modes (AsmMode / FixMode are rewritten there).
SPECIFICATION Spec
CONSTANTS
  AsmMode = 3
  FixMode = 3
  Base = 40000
  MaxIns = 2
  MaxDirs = 2
  Kinds = {"isub", "bfix"}
  TokKinds = {"one", "jp", "jr"}
  Classes <- McClasses
  FlagSets <- McFlags
  TargetOffs = {0, 1}
INVARIANT TypeOK
INVARIANT LayoutIsFunctionOfFileAndMode
INVARIANT NoTwoOnOneAddress
INVARIANT OverwriteRemoves
INVARIANT LabelTableIsAFunction
INVARIANT AmapPointsAtItsInstruction
INVARIANT NoModeIsIdentity
INVARIANT ModesMonotone
INVARIANT StationaryKeepsOperands
INVARIANT ImagesAgreeWithoutOverrides
CHECK_DEADLOCK FALSE
