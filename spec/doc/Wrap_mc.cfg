SPECIFICATION Spec
CONSTANTS
  W = 12
  MaxWords = 6
  Lens = {1, 5, 11, 12, 13}
  MaxInstr = 3
INVARIANT TypeOK
INVARIANT InOrderOnce
INVARIANT NoEmptyLine
INVARIANT WidthRule
INVARIANT NoEarlyBreak
INVARIANT RowsRule
CHECK_DEADLOCK FALSE
