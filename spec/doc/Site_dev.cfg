\* the same sites as Site_mcq.cfg with the model of what skoolkit did before c7a4346 (operands that address an @remote
\* entry linked to #anchor on the current single page): TLC must find DocFragmentExists violated (the invariants can fail).
SPECIFICATION Spec
CONSTANTS
  MaxEntries = 3
  MaxRefs = 1
  Types = {"c", "b"}
  Pts = {2}
  Layouts = {2}
  AnchorKinds = {"x"}
  Ancs = {0, 1}
  Deviation = "single-remote-operand"
INVARIANT TypeOK
INVARIANT WrittenOnce
INVARIANT DocExpectedExist
INVARIANT DocNoDangling
INVARIANT DocFragmentExists
INVARIANT DocEntryAnchorsUnique
INVARIANT DocNoFailures
INVARIANT RelResolves
CHECK_DEADLOCK FALSE
