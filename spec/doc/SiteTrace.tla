----------------------------- MODULE SiteTrace -----------------------------
(***************************************************************************)
(* Trace validation for Site: many recorded skool2html sites per TLC run.   *)
(* Traces[tid] = [site, ev] where site is the abstract input the harness     *)
(* rendered into skool + ref files (the record described in Site.tla) and    *)
(* ev is what one or two runs of the real skool2html.main did to the output  *)
(* directory, in order:                                                     *)
(*   <<"w", path, ids, lks>>  FileInfo.open_file wrote path; ids = every id= *)
(*                            / <a name=> in it (document order, with        *)
(*                            repeats), lks = <<href components, fragment>>  *)
(*                            of every relative href= / src=                 *)
(*   <<"c", path>>            a resource was copied (CSS, JS, [Resources])   *)
(*   <<"x", path>>            a written file was deleted again               *)
(*   <<"r">>                  skool2html started again on the same directory *)
(*   <<"e">>                  the last run has ended (always the last event)  *)
(* Each event IS the corresponding Site action.  WrittenOnce is evaluated    *)
(* after every step, the other C16 clauses on the final tree; every failing  *)
(* clause is printed as <<"FAIL", tid * 10000 + step, "clause|detail">>.     *)
(***************************************************************************)
EXTENDS Site, Json, IOUtils

Traces == JsonDeserialize(IOEnv.CASES)

VARIABLES tid, l, verdict
tvars == <<site, files, written, links, todo, tid, l, verdict>>

TraceInit ==
  /\ tid \in 1..Len(Traces)
  /\ l = 1 /\ verdict = "pending"
  /\ site = Traces[tid].site
  /\ files = << >> /\ written = <<>> /\ links = {} /\ todo = <<>>

Lks(q) == {[href |-> x[1], frag |-> x[2]] : x \in Range(q)}

TraceStep ==
  /\ verdict = "pending"
  /\ l <= Len(Traces[tid].ev)
  /\ LET e == Traces[tid].ev[l] IN
       \/ e[1] = "w" /\ WriteFile(e[2], e[3], Lks(e[4]))
       \/ e[1] = "c" /\ CopyResource(e[2])
       \/ e[1] = "x" /\ RemoveFile(e[2])
       \/ e[1] = "r" /\ NewRun
       \/ e[1] = "e" /\ UNCHANGED <<files, written, links>>
  /\ l' = l + 1
  /\ UNCHANGED <<tid, site, todo>>
  /\ LET last == l = Len(Traces[tid].ev)
         fails == IF ~WrittenOnceIn(written') THEN {"written-twice|" \o PathStr(written'[Len(written')])}
                  ELSE IF last THEN Failures(files', links', site) ELSE {}
     IN /\ verdict' = IF fails # {} THEN "fail" ELSE IF last THEN "ok" ELSE "pending"
        /\ \A f \in fails : PrintT(<<"FAIL", (tid * 10000) + l, f>>)
        /\ (~last \/ fails # {} \/ AnchorDrift(files', site) = {}
            \/ PrintT(<<"DRIFT", tid, Cardinality(AnchorDrift(files', site))>>))
        \* sites built by Site's constructor actions (doc = 1): recorded pages = documented pages?
        /\ (~last \/ fails # {} \/ "doc" \notin DOMAIN site \/ ModelDiff(files', links', site) = {}
            \/ \A p \in ModelDiff(files', links', site) : PrintT(<<"MODEL", tid, PathStr(p)>>))

TraceSpec == TraceInit /\ [][TraceStep]_tvars

\* evaluated on every state of every recorded trace
TraceTypeOK == TypeOK
=============================================================================
