------------------------------- MODULE CtlDoc -------------------------------
(***************************************************************************)
(* C03: the abstract annotated disassembly document.                        *)
(*                                                                          *)
(* A document is what a control file (and, equivalently, a skool file in    *)
(* the form sna2skool writes) says about an address range [0, top):         *)
(*   blocks  - entries: type b/c/g/i/s/t/u/w and start address              *)
(*   subs    - sub-blocks B/C/S/T/W (I = the body of an ignored block),     *)
(*             each a sequence of statements; a statement has a byte length  *)
(*             and a base specification (parts for DEFB/DEFM/DEFW/DEFS,      *)
(*             operand base letters for instructions)                        *)
(*   notes   - comments keyed by address: title, D, R, N (start/mid-block),  *)
(*             E (end), I (instruction-level comment of one sub-block),      *)
(*             M (instruction-level comment of a group of sub-blocks)        *)
(*   dirs    - ASM directives (@ lines) keyed by statement address           *)
(*   igs     - @ignoreua directives: address, comment type, suffix           *)
(*   nons    - non-entry blocks ('>' lines): header of a block / footer      *)
(* The state machine builds a document with constructor actions AddBlock,    *)
(* AddSubBlock, SetLengths, AddComment, AddRegister, AddInstrComment,         *)
(* AddMultiLine (M), AddDirective (@), AddIgnore (@ignoreua), AddHeader /     *)
(* AddFooter ('>'), Finish.  The invariants below say what "well formed"      *)
(* means, i.e. which control files denote a document at all; they are model   *)
(* checked with unrestricted interleaving of the actions (CtlDoc_mc.cfg,      *)
(* CtlDoc_mc2.cfg).  TLC generates the documents the check feeds to the real  *)
(* tools: random behaviours (-simulate; CtlDoc_sim.cfg: everything,           *)
(* CtlDoc_sim2.cfg: b/c/i entries with few kinds of statements,               *)
(* CtlDoc_sim3.cfg: N/I/M comments only) and the complete set of finished     *)
(* small documents (-dump of the reachable states of CtlDoc_sweep*.cfg: one    *)
(* entry of up to 3 one-statement sub-blocks with one I / M / N comment;       *)
(* 4 or 5 one-statement B / C sub-blocks with one M comment over any range).   *)
(* Texts are abstract: a comment                                               *)
(* is [t0, nw, nl, sh, dot] = nw fresh word tokens t0+1..t0+nw laid out on   *)
(* nl lines, decorated according to shape sh (braces in the positions the    *)
(* skool format allows, blank, dots only), written with dot/colon directives *)
(* (dot = 1: the line structure is part of the document) or as one text.     *)
(* The harness (harness/drivers/docdrv.py) turns a final state into a        *)
(* control file + a memory image whose bytes disassemble into exactly these  *)
(* statements.                                                               *)
(***************************************************************************)
EXTENDS Integers, Sequences, FiniteSets, TLC, CtlDocDefs

CONSTANTS MaxTop,      \* bound on the size of the range in bytes
          MaxBlocks, MaxSubs, MaxStmts,   \* bounds on the structure
          MaxNotes, MaxDirs,              \* bounds on the annotations
          MaxNons,                        \* bound on the number of non-entry blocks
          WordCounts,                     \* numbers of word tokens a comment may have
          GenBlockTypes,                  \* entry types offered to the generator (a subset of BlockTypes)
          GenNoteKinds,                   \* comment kinds offered to the generator (a subset of NoteKinds)
          GenSubTypes,                    \* sub-block types offered to the generator (a subset of SubTypes)
          Terse,                          \* 0: every layout; 1: one text layout and the blank comment; 2: one text layout
                                          \* (1, 2: exhaustive sweeps)
          Rich,                           \* 2: the full statement universe; 1: two statements per type; 0: the minimum
          Phased                          \* TRUE: annotate only finished structures (used for generation)

VARIABLES blocks, subs, notes, dirs, igs, nons, top, ntok, closed
vars == <<blocks, subs, notes, dirs, igs, nons, top, ntok, closed>>


\* ---- statements -----------------------------------------------------------------------------
P(n, b) == [n |-> n, b |-> b]
\* v: which instruction of that shape (the harness has a table of opcodes per shape)
StmtV(n, ops, b, parts, v) == [n |-> n, ops |-> ops, b |-> b, parts |-> parts, v |-> v]
Stmt(n, ops, b, parts) == StmtV(n, ops, b, parts, 0)
Data(parts) == Stmt(parts[1].n + (IF Len(parts) > 1 THEN parts[2].n ELSE 0) + (IF Len(parts) > 2 THEN parts[3].n ELSE 0),
                    0, "", parts)
\* instructions: byte length, number of numeric operands, base letters (one per operand, or one for both, or none)
CodeStmts ==
  {StmtV(1, 0, "", <<>>, v) : v \in 0..5} \cup {StmtV(2, 0, "", <<>>, v) : v \in 0..3}     \* no numeric operand
  \cup {Stmt(1, 1, b, <<>>) : b \in {"", "n", "b", "d", "h"}}               \* RST n
  \cup {Stmt(n, 1, b, <<>>) : n \in {2, 3, 4}, b \in {"", "n", "b", "c", "d", "h", "m"}}
  \cup {Stmt(4, 2, b, <<>>) : b \in {"", "b", "d", "h", "nb", "hc", "dm", "bh", "hd", "nn", "dn"}}
\* DEFB: byte parts in any base, strings (c)
BStmts == {Data(<<P(n, "n")>>) : n \in 1..3}
          \cup {Data(<<P(1, b)>>) : b \in Bases} \cup {Data(<<P(2, "c")>>), Data(<<P(2, "h")>>), Data(<<P(3, "b")>>)}
          \cup {Data(<<P(1, "d"), P(1, "h")>>), Data(<<P(1, "n"), P(2, "c")>>), Data(<<P(2, "c"), P(1, "m")>>),
                Data(<<P(1, "b"), P(1, "d"), P(1, "h")>>), Data(<<P(1, "h"), P(1, "n")>>)}
\* DEFM: strings (c, the default) and byte parts
TStmts == {Data(<<P(n, "c")>>) : n \in 1..3}
          \cup {Data(<<P(2, "c"), P(1, "n")>>), Data(<<P(1, "h"), P(2, "c")>>), Data(<<P(2, "c"), P(1, "b")>>),
                Data(<<P(1, "d")>>), Data(<<P(2, "m")>>), Data(<<P(1, "c"), P(1, "d"), P(1, "c")>>)}
\* DEFW: words
WStmts == {Data(<<P(2, b)>>) : b \in Bases} \cup {Data(<<P(4, "n")>>), Data(<<P(2, "b"), P(2, "d")>>),
                                                    Data(<<P(2, "d"), P(2, "h"), P(2, "n")>>)}
\* DEFS: size in base sb; optional value base (part of length 0)
SStmts == {Stmt(n, 0, "", <<P(n, sb)>>) : n \in {1, 2, 5}, sb \in {"n", "b", "d", "h"}}
          \cup {Stmt(n, 0, "", <<P(n, sb), P(0, vb)>>) : n \in {1, 3}, sb \in {"n", "h"}, vb \in Bases}
AllStmtsOf(ty) == CASE ty = "C" -> CodeStmts [] ty = "B" -> BStmts [] ty = "T" -> TStmts [] ty = "W" -> WStmts
                    [] ty = "S" -> SStmts [] OTHER -> {}
FewStmtsOf(ty) == CASE ty = "C" -> {Stmt(1, 0, "", <<>>), Stmt(2, 1, "h", <<>>)}
                    [] ty = "B" -> {Data(<<P(1, "n")>>), Data(<<P(1, "d"), P(1, "h")>>)}
                    [] ty = "T" -> {Data(<<P(1, "c")>>), Data(<<P(2, "c"), P(1, "n")>>)}
                    [] ty = "W" -> {Data(<<P(2, "n")>>)}
                    [] ty = "S" -> {Stmt(1, 0, "", <<P(1, "n")>>), Stmt(1, 0, "", <<P(1, "h"), P(0, "c")>>)}
                    [] OTHER -> {}
MinStmtsOf(ty) == CASE ty = "C" -> {Stmt(1, 0, "", <<>>), Stmt(2, 1, "h", <<>>)}      \* without / with a numeric operand
                    [] ty = "B" -> {Data(<<P(1, "n")>>)} [] ty = "T" -> {Data(<<P(1, "c")>>)}
                    [] ty = "W" -> {Data(<<P(2, "n")>>)} [] ty = "S" -> {Stmt(1, 0, "", <<P(1, "n")>>)}
                    [] OTHER -> {}
StmtsOf(ty) == IF Rich = 2 THEN AllStmtsOf(ty) ELSE IF Rich = 1 THEN FewStmtsOf(ty) ELSE MinStmtsOf(ty)

RECURSIVE SumN(_)
SumN(q) == IF q = <<>> THEN 0 ELSE Head(q).n + SumN(Tail(q))
SubLen(sb) == IF sb.ty = "I" THEN sb.n ELSE SumN(sb.stmts)
SubEnd(sb) == sb.a + SubLen(sb)

\* ---- comments -------------------------------------------------------------------------------
\* "brace": braces on the words of the text in one of the positions the skool format allows - every '{' before
\* every '}': open-first, close-last, both, nested, mid-pair, open-mid, close-mid, more-open, more-close,
\* lone-open, lone-close (the harness picks the variant)
TextShapes == {"plain", "brace"}
BlankShapes == {"blank", "dot", "dots"}            \* instruction-level comments over >= 2 statements only
Cm(nw, nl, sh, dot) == [t0 |-> ntok, nw |-> nw, nl |-> nl, sh |-> sh, dot |-> dot]
NoteKinds == {"title", "D", "R", "N", "E", "I", "M"}
RegHeads == {"A", "HL", "O:DE", "Input:B", "I:bc", "(O:B, C)", "/IX-1/", "[In:(HL)]"}

BlockStarts == {blocks[i].a : i \in 1..Len(blocks)}
SubStarts == {subs[i].a : i \in 1..Len(subs)}
SubAt(a) == CHOOSE i \in 1..Len(subs) : subs[i].a = a
BlockOf(a) == CHOOSE i \in 1..Len(blocks) : blocks[i].a <= a /\ (i = Len(blocks) \/ blocks[i + 1].a > a)
BlockEnd(i) == IF i = Len(blocks) THEN top ELSE blocks[i + 1].a
RECURSIVE StmtAddrs(_,_,_)
StmtAddrs(q, a, acc) == IF q = <<>> THEN acc ELSE StmtAddrs(Tail(q), a + Head(q).n, acc \cup {a})
StmtStarts == UNION {IF subs[i].ty = "I" THEN {} ELSE StmtAddrs(subs[i].stmts, subs[i].a, {}) : i \in 1..Len(subs)}
NotesAt(k, a) == {i \in 1..Len(notes) : notes[i].k = k /\ notes[i].a = a}
Ms == {i \in 1..Len(notes) : notes[i].k = "M"}
InsideM(a) == \E i \in Ms : notes[i].a <= a /\ a < notes[i].e
StrictlyInsideM(a) == \E i \in Ms : notes[i].a < a /\ a < notes[i].e
NStmts(a) == Len(subs[SubAt(a)].stmts)

\* ---- initial state and constructor actions --------------------------------------------------
Init == /\ blocks = <<>> /\ subs = <<>> /\ notes = <<>> /\ dirs = <<>> /\ igs = <<>> /\ nons = <<>>
        /\ top = 0 /\ ntok = 0 /\ closed = FALSE

\* a new entry with its first sub-block (an entry is never empty)
AddBlock(bt, st, s) ==
  /\ ~closed /\ Len(blocks) < MaxBlocks /\ Len(subs) < MaxSubs
  /\ IF bt = "i" THEN st = "I" /\ s \in 1..3 /\ top > 0
     ELSE st \in SubTypes /\ s \in StmtsOf(st)
  /\ top + (IF bt = "i" THEN s ELSE s.n) <= MaxTop
  /\ blocks' = Append(blocks, [ty |-> bt, a |-> top])
  /\ subs' = Append(subs, IF bt = "i" THEN [ty |-> "I", a |-> top, stmts |-> <<>>, n |-> s]
                          ELSE [ty |-> st, a |-> top, stmts |-> <<s>>, n |-> 0])
  /\ top' = top + (IF bt = "i" THEN s ELSE s.n)
  /\ UNCHANGED <<notes, dirs, igs, nons, ntok, closed>>

\* a further sub-block of the last entry, of one statement
AddSubBlock(st, s) ==
  /\ ~closed /\ blocks # <<>> /\ blocks[Len(blocks)].ty # "i" /\ Len(subs) < MaxSubs
  /\ st \in SubTypes /\ s \in StmtsOf(st) /\ top + s.n <= MaxTop
  /\ subs' = Append(subs, [ty |-> st, a |-> top, stmts |-> <<s>>, n |-> 0])
  /\ top' = top + s.n
  /\ UNCHANGED <<blocks, notes, dirs, igs, nons, ntok, closed>>

\* statement lengths (the sublength list) of the last sub-block: one more statement
SetLengths(s) ==
  /\ ~closed /\ subs # <<>>
  /\ LET sb == subs[Len(subs)] IN
     /\ sb.ty # "I" /\ Len(sb.stmts) < MaxStmts /\ s \in StmtsOf(sb.ty) /\ top + s.n <= MaxTop
     /\ ~InsideM(sb.a)                                 \* an M range ends where a sub-block ends
     /\ subs' = [subs EXCEPT ![Len(subs)].stmts = Append(sb.stmts, s)]
     /\ top' = top + s.n
  /\ UNCHANGED <<blocks, notes, dirs, igs, nons, ntok, closed>>

Note(k, a, cm) == [k |-> k, a |-> a, e |-> 0, cm |-> cm, head |-> ""]

\* title / description paragraph / start or mid-block comment paragraph / end comment paragraph
AddComment(k, a, nw, nl, sh, dot) ==
  /\ Len(notes) < MaxNotes /\ nw \in WordCounts /\ nl \in 1..2 /\ nl <= nw /\ (nl = 1 \/ dot = 1)
  /\ k \in {"title", "D", "N", "E"} /\ sh \in TextShapes
  /\ IF k = "N" THEN a \in SubStarts /\ ~StrictlyInsideM(a) /\ subs[SubAt(a)].ty # "I"
     ELSE a \in BlockStarts
  /\ k = "title" => NotesAt("title", a) = {}
  /\ k \in {"D", "E"} => blocks[BlockOf(a)].ty # "i"
  /\ Cardinality(NotesAt(k, a)) < 3
  /\ notes' = Append(notes, Note(k, a, Cm(nw, nl, sh, dot)))
  /\ ntok' = ntok + nw
  /\ UNCHANGED <<blocks, subs, dirs, igs, nons, top, closed>>

\* one line of the register section
AddRegister(a, head, nw) ==
  /\ Len(notes) < MaxNotes /\ nw \in WordCounts \cup {0} /\ a \in BlockStarts /\ blocks[BlockOf(a)].ty # "i"
  /\ head \in RegHeads /\ Cardinality(NotesAt("R", a)) < 3
  /\ notes' = Append(notes, [Note("R", a, Cm(nw, 1, "plain", 0)) EXCEPT !.head = head])
  /\ ntok' = ntok + nw
  /\ UNCHANGED <<blocks, subs, dirs, igs, nons, top, closed>>

\* instruction-level comment of one sub-block
AddInstrComment(a, nw, nl, sh, dot) ==
  /\ Len(notes) < MaxNotes /\ a \in SubStarts /\ subs[SubAt(a)].ty # "I"
  /\ NotesAt("I", a) = {} /\ ~InsideM(a)
  /\ \/ sh \in TextShapes /\ nw \in WordCounts /\ nl \in 1..3 /\ nl <= nw /\ (nl = 1 \/ dot = 1)
     \/ sh \in BlankShapes /\ nw = 0 /\ nl = 1 /\ dot = 0 /\ (sh = "blank" => NStmts(a) > 1)
  /\ notes' = Append(notes, Note("I", a, Cm(nw, nl, sh, dot)))
  /\ ntok' = ntok + nw
  /\ UNCHANGED <<blocks, subs, dirs, igs, nons, top, closed>>

\* M directive: one comment for the sub-blocks in [a, e)
AddMultiLine(a, e, nw, nl, sh, dot) ==
  /\ Len(notes) < MaxNotes /\ a \in SubStarts /\ e > a
  /\ \E j \in 1..Len(subs) : SubEnd(subs[j]) = e /\ (j < Len(subs) \/ closed)
  /\ BlockOf(a) = BlockOf(e - 1) /\ subs[SubAt(a)].ty # "I"
  /\ \A x \in SubStarts : (a <= x /\ x < e) => NotesAt("I", x) = {} /\ ~InsideM(x)
  /\ \A x \in SubStarts : (a < x /\ x < e) => NotesAt("N", x) = {}
  /\ \/ sh \in TextShapes /\ nw \in WordCounts /\ nl \in 1..3 /\ nl <= nw /\ (nl = 1 \/ dot = 1)
     \/ sh \in BlankShapes /\ nw = 0 /\ nl = 1 /\ dot = 0
  /\ (sh = "blank" /\ SubEnd(subs[SubAt(a)]) = e) => NStmts(a) > 1
  /\ notes' = Append(notes, [Note("M", a, Cm(nw, nl, sh, dot)) EXCEPT !.e = e])
  /\ ntok' = ntok + nw
  /\ UNCHANGED <<blocks, subs, dirs, igs, nons, top, closed>>

\* k: "entry" (a kind of EntryDirKinds) or "instr" (any other kind); the harness picks the kind and its value
AddDirective(a, k) ==
  /\ Len(dirs) < MaxDirs /\ a \in StmtStarts /\ k \in {"entry", "instr"}
  /\ notes' = notes /\ dirs' = Append(dirs, [a |-> a, k |-> k, id |-> ntok + 1])
  /\ ntok' = ntok + 1
  /\ UNCHANGED <<blocks, subs, igs, nons, top, closed>>

\* @ignoreua for the comment of type t at a; the comment it applies to exists (i: the instruction exists)
AddIgnore(a, t, sfx) ==
  /\ Len(igs) < MaxDirs /\ sfx \in 0..2 /\ ~(\E i \in 1..Len(igs) : igs[i].a = a /\ igs[i].t = t)
  /\ CASE t = "t" -> NotesAt("title", a) # {}
       [] t = "d" -> NotesAt("D", a) # {} /\ NotesAt("title", a) # {}
       [] t = "r" -> NotesAt("R", a) # {} /\ NotesAt("title", a) # {}
       [] t = "m" -> NotesAt("N", a) # {}
       [] t = "e" -> NotesAt("E", a) # {}
       [] t = "i" -> a \in StmtStarts
       [] OTHER -> FALSE
  /\ igs' = Append(igs, [a |-> a, t |-> t, sfx |-> sfx])
  /\ UNCHANGED <<blocks, subs, notes, dirs, nons, top, ntok, closed>>

\* non-entry blocks: header lines of any entry; footer lines of the last entry of a finished document
AddHeader(a, nl) ==
  /\ Len(nons) < MaxNons /\ a \in BlockStarts /\ nl \in 1..2
  /\ nons' = Append(nons, [a |-> a, foot |-> 0, nl |-> nl, t0 |-> ntok])
  /\ ntok' = ntok + nl
  /\ UNCHANGED <<blocks, subs, notes, dirs, igs, top, closed>>
AddFooter(nl) ==
  /\ closed /\ Len(nons) < MaxNons /\ nl \in 1..2 /\ blocks[Len(blocks)].ty # "i"
  /\ nons' = Append(nons, [a |-> blocks[Len(blocks)].a, foot |-> 1, nl |-> nl, t0 |-> ntok])
  /\ ntok' = ntok + nl
  /\ UNCHANGED <<blocks, subs, notes, dirs, igs, top, closed>>

\* no more blocks / statements (an ignored block at the very end would be the terminator of the control file)
Finish == /\ ~closed /\ blocks # <<>> /\ blocks[Len(blocks)].ty # "i" /\ closed' = TRUE
          /\ UNCHANGED <<blocks, subs, notes, dirs, igs, nons, top, ntok>>

\* comment layouts offered to the generator: <<words, lines, dot form>> (a multi-line layout needs the dot form)
Layouts == IF Terse > 0 THEN {<<nw, 1, 0>> : nw \in WordCounts}
           ELSE {<<nw, 1, 0>> : nw \in WordCounts} \cup {<<nw, 1, 1>> : nw \in WordCounts}
                \cup {<<nw, nl, 1>> : nw \in WordCounts \ {1}, nl \in {2}} \cup {<<nw, 3, 1>> : nw \in WordCounts \ {1, 2}}
ILayouts == IF Terse > 0 THEN {<<"plain", ly>> : ly \in Layouts} \cup {<<"blank", <<0, 1, 0>>>>}
            ELSE {<<sh, ly>> : sh \in TextShapes, ly \in Layouts} \cup {<<sh, <<0, 1, 0>>>> : sh \in BlankShapes}
GenShapes == IF Terse > 0 THEN {"plain"} ELSE TextShapes
SubEnds == {SubEnd(subs[j]) : j \in 1..Len(subs)}

Build == \/ ("i" \in GenBlockTypes /\ \E s \in 1..3 : AddBlock("i", "I", s))
         \/ \E bt \in GenBlockTypes \ {"i"} : \E st \in {DefaultSub(bt), "B", "C"} \cap GenSubTypes : \E s \in StmtsOf(st) : AddBlock(bt, st, s)
         \/ \E st \in GenSubTypes : \E s \in StmtsOf(st) : AddSubBlock(st, s)
         \/ (subs # <<>> /\ \E s \in StmtsOf(subs[Len(subs)].ty) : SetLengths(s))
         \/ Finish
\* (the address guards are stated first so that TLC enumerates layouts only for enabled addresses)
CanComment(k, a) == /\ Len(notes) < MaxNotes
                    /\ IF k = "N" THEN a \in SubStarts /\ ~StrictlyInsideM(a) /\ subs[SubAt(a)].ty # "I" ELSE a \in BlockStarts
                    /\ (k = "title" => NotesAt("title", a) = {}) /\ (k \in {"D", "E"} => blocks[BlockOf(a)].ty # "i")
                    /\ Cardinality(NotesAt(k, a)) < 3
CanInstrComment(a) == Len(notes) < MaxNotes /\ subs[SubAt(a)].ty # "I" /\ NotesAt("I", a) = {} /\ ~InsideM(a)
CanMultiLine(a, e) == /\ Len(notes) < MaxNotes /\ e > a /\ BlockOf(a) = BlockOf(e - 1) /\ subs[SubAt(a)].ty # "I"
                      /\ \A x \in SubStarts : (a <= x /\ x < e) => NotesAt("I", x) = {} /\ ~InsideM(x)
                      /\ \A x \in SubStarts : (a < x /\ x < e) => NotesAt("N", x) = {}
Annotate ==
         \/ \E k \in {"title", "D", "N", "E"} \cap GenNoteKinds, a \in BlockStarts \cup SubStarts :
              CanComment(k, a) /\ \E ly \in Layouts, sh \in GenShapes : AddComment(k, a, ly[1], ly[2], sh, ly[3])
         \/ ("R" \in GenNoteKinds /\ \E a \in BlockStarts, h \in RegHeads, nw \in WordCounts \cup {0} : AddRegister(a, h, nw))
         \/ \E a \in SubStarts : "I" \in GenNoteKinds /\ CanInstrComment(a) /\ \E il \in ILayouts : AddInstrComment(a, il[2][1], il[2][2], il[1], il[2][3])
         \/ \E a \in SubStarts, e \in SubEnds :
              "M" \in GenNoteKinds /\ CanMultiLine(a, e) /\ \E il \in ILayouts : AddMultiLine(a, e, il[2][1], il[2][2], il[1], il[2][3])
         \/ \E a \in StmtStarts, k \in {"entry", "instr"} : AddDirective(a, k)
         \/ \E a \in StmtStarts \cup BlockStarts, t \in {"t", "d", "r", "m", "e", "i"}, sfx \in 0..2 : AddIgnore(a, t, sfx)
         \/ \E a \in BlockStarts, nl \in 1..2 : AddHeader(a, nl)
         \/ \E nl \in 1..2 : AddFooter(nl)
Next == Build \/ ((~Phased \/ closed) /\ Annotate)
Spec == Init /\ [][Next]_vars

\* ---- well-formedness -------------------------------------------------------------------------
\* sub-blocks tile [0, top) in order; every entry starts on a sub-block start and owns at least one sub-block
Tiles == /\ (subs = <<>> => top = 0) /\ (subs # <<>> => subs[1].a = 0 /\ SubEnd(subs[Len(subs)]) = top)
         /\ \A i \in 1..Len(subs) - 1 : SubEnd(subs[i]) = subs[i + 1].a
         /\ \A i \in 1..Len(subs) : SubLen(subs[i]) > 0
BlocksOnSubs == /\ BlockStarts \subseteq SubStarts
                /\ \A i \in 1..Len(blocks) - 1 : blocks[i].a < blocks[i + 1].a
                /\ (blocks # <<>> => blocks[1].a = 0)
                /\ \A i \in 1..Len(subs) : (subs[i].ty = "I") = (blocks[BlockOf(subs[i].a)].ty = "i")
\* every statement is one the sub-block type can hold; words are whole
StmtsOk == \A i \in 1..Len(subs) : subs[i].ty # "I" =>
             \A j \in 1..Len(subs[i].stmts) : subs[i].stmts[j] \in StmtsOf(subs[i].ty)
                                               /\ (subs[i].ty = "W" => subs[i].stmts[j].n % 2 = 0)
\* an M range starts on a sub-block start, ends on a sub-block end of the same entry, holds no other
\* instruction-level comment and no mid-block comment after its first statement; M ranges do not overlap
MRanges == \A i \in Ms :
             /\ notes[i].a \in SubStarts /\ (notes[i].e = top \/ notes[i].e \in SubStarts)
             /\ BlockOf(notes[i].a) = BlockOf(notes[i].e - 1)
             /\ \A x \in SubStarts : (notes[i].a <= x /\ x < notes[i].e) => NotesAt("I", x) = {}
             /\ \A x \in SubStarts : (notes[i].a < x /\ x < notes[i].e) => NotesAt("N", x) = {}
             /\ \A j \in Ms : j # i => (notes[j].e <= notes[i].a \/ notes[i].e <= notes[j].a)
\* every comment / directive is attached to an address that exists
Attached == /\ \A i \in 1..Len(notes) :
                 IF notes[i].k \in {"N", "I", "M"} THEN notes[i].a \in SubStarts ELSE notes[i].a \in BlockStarts
            /\ \A i \in 1..Len(dirs) : dirs[i].a \in StmtStarts
            /\ \A i \in 1..Len(igs) : igs[i].a \in StmtStarts \cup BlockStarts
            /\ \A i \in 1..Len(nons) : nons[i].a \in BlockStarts
                                        /\ (nons[i].foot = 1 => closed /\ nons[i].a = blocks[Len(blocks)].a)
\* an @ignoreua has the comment it applies to; at most one title / instruction-level comment per address
IgnoreHasComment == \A i \in 1..Len(igs) :
   CASE igs[i].t = "t" -> NotesAt("title", igs[i].a) # {} [] igs[i].t = "d" -> NotesAt("D", igs[i].a) # {}
     [] igs[i].t = "r" -> NotesAt("R", igs[i].a) # {} [] igs[i].t = "m" -> NotesAt("N", igs[i].a) # {}
     [] igs[i].t = "e" -> NotesAt("E", igs[i].a) # {} [] OTHER -> igs[i].a \in StmtStarts
OneEach == \A a \in SubStarts : Cardinality(NotesAt("title", a)) <= 1 /\ Cardinality(NotesAt("I", a)) <= 1
\* a blank multi-instruction comment spans at least two statements (else it is no comment at all)
BlankSpans == \A i \in 1..Len(notes) : (notes[i].k = "I" /\ notes[i].cm.sh = "blank") => NStmts(notes[i].a) > 1
\* word tokens are handed out once
RECURSIVE TokRanges(_,_)
TokRanges(q, lo) == q = <<>> \/ (Head(q).cm.t0 >= lo /\ TokRanges(Tail(q), Head(q).cm.t0 + Head(q).cm.nw))
TokensUnique == TokRanges(notes, 0) /\ \A i \in 1..Len(notes) : notes[i].cm.t0 + notes[i].cm.nw <= ntok

\* token numbering is irrelevant to well-formedness: a VIEW for larger model-checking configurations
View == <<blocks, subs, [i \in 1..Len(notes) |-> [notes[i] EXCEPT !.cm.t0 = 0]], [i \in 1..Len(dirs) |-> [dirs[i] EXCEPT !.id = 0]],
          igs, [i \in 1..Len(nons) |-> [nons[i] EXCEPT !.t0 = 0]], top, closed>>

WellFormed == Tiles /\ BlocksOnSubs /\ StmtsOk /\ MRanges /\ Attached /\ IgnoreHasComment /\ OneEach /\ BlankSpans
              /\ TokensUnique
=============================================================================
