SPECIFICATION Spec
CONSTANTS
  MaxTop = 3
  MaxBlocks = 2
  MaxSubs = 2
  MaxStmts = 2
  MaxNotes = 1
  MaxDirs = 0
  MaxNons = 0
  WordCounts = {1}
  GenBlockTypes = {"c", "i"}
  GenNoteKinds = {"title", "D", "R", "N", "E", "I", "M"}
  GenSubTypes = {"B", "C", "S", "T", "W"}
  Terse = 0
  Rich = 1
  Phased = FALSE
INVARIANT WellFormed
CHECK_DEADLOCK FALSE
