SPECIFICATION Spec
CONSTANTS
  MaxTop = 4
  MaxBlocks = 2
  MaxSubs = 2
  MaxStmts = 2
  MaxNotes = 2
  MaxDirs = 1
  WordCounts = {1}
  Phased = FALSE
INVARIANT WellFormed
CHECK_DEADLOCK FALSE
