SPECIFICATION Spec
CONSTANTS
  MaxTop = 3
  MaxBlocks = 2
  MaxSubs = 2
  MaxStmts = 2
  MaxNotes = 1
  MaxDirs = 1
  MaxNons = 1
  WordCounts = {1}
  GenBlockTypes = {"c", "i"}
  Rich = FALSE
  Phased = FALSE
INVARIANT WellFormed
CHECK_DEADLOCK FALSE
