---------------------------- MODULE WrapCases ----------------------------
(***************************************************************************)
(* C18, pattern B: what skool2asm, skool2html and sna2skool actually wrote  *)
(* for one entry of a generated document, judged against the annotations    *)
(* the document was generated from.                                         *)
(*                                                                          *)
(* case  = [tool, W, cwmin, ind, iw, eop, dot, exc, exp, out]               *)
(*   tool  "asm" | "html" | "skool" (sna2skool's output) | "gen" (the skool *)
(*         file the harness itself wrote as input for asm/html: it is       *)
(*         judged by the same rules, so the generator is not trusted)       *)
(*   W     configured line width (0: no width rule, html/gen)               *)
(*   cwmin comment-width-min: an instruction comment field is never         *)
(*         narrower than this, whatever the instruction needs               *)
(*   ind   indent of ASM instruction rows in columns (8 for a tab)          *)
(*   iw    instruction-width (asm) / InstructionWidth (skool)               *)
(*   eop   length of the longest operation of the entry                     *)
(*   dot   code of the word "." (continuation marker of register lines)     *)
(*   exp   expected items in entry order                                    *)
(*     P (paragraph-like block: title, paragraph, the register section)     *)
(*        [sec, w, st, dotc, tabs]: w = word codes; st = <<at, fix, nb>>:   *)
(*        word `at' must begin a line, the first `fix' words of that line   *)
(*        are a fixed prefix (register name, bullet), nb = 1: the chunk is  *)
(*        an unbreakable row (sna2skool's <nowrap>); tabs = tables in order *)
(*        (a table that stands behind a register name is on that line: the  *)
(*        name is the fixed prefix, the table the one unit of the line)     *)
(*     G (instruction group) [k, ins = <<addr, op, length of operation>>.., *)
(*        w, st, tabs]: st / tabs as in P for an instruction-level comment  *)
(*        that holds #LIST / #TABLE blocks (ASM mode: an item begins a row  *)
(*        behind its bullet, a table and the text behind a block begin a    *)
(*        row; HTML: the cells of the table in the comment cell)            *)
(*   out   projected output lines in order                                  *)
(*     [kind, w, n, wl, cl, fl, op, addr, rs, warn, tab, cols, lf]          *)
(*     kind "c" comment text, "s" empty comment line, "d" dot line,         *)
(*          "i" instruction / continuation row, "x" anything else           *)
(*     n display length, wl length in characters, cl length of the text     *)
(*     part, fl length of its first word, op/addr instruction identity      *)
(*     (op = 0: continuation row), rs rowspan of the html comment cell,     *)
(*     warn = 1: skool2asm printed a warning quoting this line / table,     *)
(*     tab = 1: the line stands for a whole rendered table (cols = words of *)
(*     its cells: one sequence per horizontal extent (first column,         *)
(*     colspan) that occurs, ordered by that pair, the cells of one extent  *)
(*     top to bottom - without spanning cells: each column top to bottom;   *)
(*     w = the table placeholder code); in an                               *)
(*     instruction group every row of a rendered table stays a row:         *)
(*     tab = 1 the first (placeholder + cells), tab = 2 the others (w = <<>>)*)
(*     lf = 1: the line ended in a bare LF although CRLF is configured      *)
(*     (counted as drift "TERMINATOR", not a clause of C18)                 *)
(* Verdict: "ok" or the first failing clause; drift (layout differs from    *)
(* the greedy reference / the row model without breaking the property) is   *)
(* reported separately and never fails a case.                              *)
(***************************************************************************)
EXTENDS Integers, Sequences, FiniteSets, Json, IOUtils, TLC

Wr == INSTANCE Wrap WITH W <- 0, MaxWords <- 0, Lens <- {}, MaxInstr <- 0,
                         lens <- <<>>, rowspan <- 0, lines <- <<>>, nxt <- 0, rows <- <<>>, phase <- ""

Cases == JsonDeserialize(IOEnv.CASES)
VARIABLES tid, verdict

\* an output line is the tuple <<kind, w, n, wl, cl, fl, op, addr, rs, warn, tab, cols, lf>> (see Wrap.tla)
Lkind(l) == l[1]
Lw(l) == l[2]
Ln(l) == l[3]
Lwl(l) == l[4]
Lcl(l) == l[5]
Lfl(l) == l[6]
Lop(l) == l[7]
Laddr(l) == l[8]
Lrs(l) == l[9]
Lwarn(l) == l[10]
Ltab(l) == l[11]
Lcols(l) == l[12]
Llf(l) == l[13]

IsSep(l) == Lkind(l) \in {"s", "d"}
SkoolSyntax(c) == c.tool \in {"skool", "gen"}

\* first index in a..b of a line whose kind is not in K (b+1 if there is none; a if a > b).  The range is
\* halved, so the recursion is log(n) deep and the cost is that of the run it skips.
RECURSIVE FirstNotIn(_, _, _, _)
FirstNotIn(o, a, b, K) == IF a > b THEN a ELSE IF a = b THEN (IF Lkind(o[a]) \in K THEN a + 1 ELSE a)
                          ELSE LET m == (a + b) \div 2
                                   f == FirstNotIn(o, a, m, K)
                               IN IF f <= m THEN f ELSE FirstNotIn(o, m + 1, b, K)
\* first index >= li that is not a separator line (Len+1 if none)
SkipSeps(o, li) == FirstNotIn(o, li, Len(o), {"s", "d"})
\* last index of the maximal run of lines of one kind that starts at p (p-1 if there is none)
RunEnd(o, p, kind) == FirstNotIn(o, p, Len(o), {kind}) - 1
\* rows of an instruction group of k instructions starting at p: up to the row before instruction k+1
GroupEnd(o, p, k) ==
  LET r == RunEnd(o, p, "i")
      ops == { j \in p..r : Lop(o[j]) # 0 }
  IN IF Cardinality(ops) <= k THEN r
     ELSE (CHOOSE j \in ops : Cardinality({ i \in ops : i < j }) = k) - 1
LinesOf(o, p, q) == [j \in 1..(q - p + 1) |-> o[p + j - 1]]
CountSep(o, a, b) == Cardinality({ j \in a..b : Lkind(o[j]) = "s" })

--------------------------------------------------------------------------
(* Tables with a column that may be wrapped (:w).  Documented (#TABLE): such a column is narrowed "so that    *)
(* the table will be no more than <line width> characters wide when rendered" - a limit on the table itself,  *)
(* i.e. the width of a description line (ParagraphWidth), wherever the table stands.  l = the line that       *)
(* stands for the table (Lcl = its rendered width, Ln - Lcl = what stands in front of it), minw = the width   *)
(* of its narrowest rendering (0: unknown).                                                                   *)
(* TableTooWide: wider than documented although the narrowest rendering is not - a violation (for a table on  *)
(*   a description line this is the same as "line > line width although minw + prefix fits").                 *)
(* TableNotNarrowed: behind a register name / in a comment field less than a description line is available;   *)
(*   the line exceeds the line width although the narrowest rendering would have fitted there: more than the  *)
(*   documentation promises (lead's triage) - drift.  skool2asm must still warn (warn-table / warn-row).      *)
TableTooWide(l, W, minw) ==
  /\ W > 0 /\ Ltab(l) = 1 /\ minw > 0
  /\ \/ Lcl(l) > Wr!ParagraphWidth(W) /\ minw <= Wr!ParagraphWidth(W)
     \/ Ln(l) - Lcl(l) <= 2 /\ Ln(l) > W /\ minw + (Ln(l) - Lcl(l)) <= W
TableNotNarrowed(l, W, minw) ==
  /\ W > 0 /\ Ltab(l) = 1 /\ minw > 0 /\ ~TableTooWide(l, W, minw)
  /\ Ln(l) > W /\ minw + (Ln(l) - Lcl(l)) <= W

--------------------------------------------------------------------------
(* paragraph-like blocks *)
JudgeP(c, it, p, q, nsec) ==
  IF q < p THEN <<"block-missing", 0>>
  ELSE
  LET ls == LinesOf(c.out, p, q)
      n == Len(ls)
      dotCont(j) == it.dotc = 1 /\ Len(Lw(ls[j])) > 0 /\ Lw(ls[j])[1] = c.dot
      ws == [j \in 1..n |-> IF dotCont(j) THEN Tail(Lw(ls[j])) ELSE Lw(ls[j])]
      firsts == [j \in 1..n |-> 1 + Wr!SumSeq([i \in 1..(j - 1) |-> Len(ws[i])])]
      starts == { it.st[s][1] : s \in 1..Len(it.st) }
      stOf(j) == { s \in 1..Len(it.st) : it.st[s][1] = firsts[j] /\ Len(ws[j]) > 0 }
      fixAt(j) == IF stOf(j) = {} THEN 0 ELSE it.st[CHOOSE s \in stOf(j) : TRUE][2]
      nbAt(j) == stOf(j) # {} /\ it.st[CHOOSE s \in stOf(j) : TRUE][3] = 1
      units(j) == Len(ws[j]) - fixAt(j)
      tabLines == SelectSeq(ls, LAMBDA l : Ltab(l) = 1)
      excused(j) == units(j) <= 1 \/ Ltab(ls[j]) = 1 \/ nbAt(j)
      tabNo(j) == Cardinality({ i \in 1..j : Ltab(ls[i]) = 1 })
      drift == Cardinality({ j \in 1..(n - 1) :
                  /\ c.W > 0 /\ Ltab(ls[j]) = 0 /\ Ltab(ls[j + 1]) = 0 /\ stOf(j + 1) = {} /\ ~nbAt(j)
                  /\ Wr!BrokeEarly(Lcl(ls[j]), Lfl(ls[j + 1]), Lcl(ls[j]) + c.W - Ln(ls[j])) })
  IN
  IF Wr!Flatten(ws) # it.w THEN <<"words", 0>>
  ELSE IF c.tool = "skool" /\ it.sec <= 4 /\ nsec + 1 # it.sec THEN <<"section", 0>>
  ELSE IF c.tool = "gen" /\ it.sec <= 4 /\ nsec + 1 # it.sec THEN <<"section", 0>>
  ELSE IF \E s \in starts : ~\E j \in 1..n : firsts[j] = s /\ Len(ws[j]) > 0 /\ ~dotCont(j) THEN <<"line-start", 0>>
  ELSE IF it.dotc = 1 /\ \E j \in 1..n : ~dotCont(j) /\ firsts[j] \notin starts THEN <<"reg-continuation", 0>>
  ELSE IF Len(tabLines) # Len(it.tabs) THEN <<"table-count", 0>>
  ELSE IF \E i \in 1..Len(it.tabs) : Lcols(tabLines[i]) # it.tabs[i].cols THEN <<"table-cells", 0>>
  ELSE IF \E j \in 1..n : ~Wr!LineOK(Ln(ls[j]), c.W, units(j), excused(j)) THEN <<"width", 0>>
  ELSE IF c.tool = "asm" /\ \E j \in 1..n : Lwl(ls[j]) > c.W /\ Ltab(ls[j]) = 1 /\ Lwarn(ls[j]) = 0 THEN <<"warn-table", 0>>
  ELSE IF \E j \in 1..n : Ltab(ls[j]) = 1 /\ TableTooWide(ls[j], c.W, it.tabs[tabNo(j)].minw) THEN <<"table-width", 0>>
  ELSE IF c.tool = "asm" /\ \E j \in 1..n : Lwl(ls[j]) > c.W /\ Ltab(ls[j]) = 0 /\ Lwarn(ls[j]) = 0 THEN <<"warn-comment", 0>>
  ELSE <<"ok", drift, Cardinality({ j \in 1..n : Ltab(ls[j]) = 1 /\ TableNotNarrowed(ls[j], c.W, it.tabs[tabNo(j)].minw) })>>

--------------------------------------------------------------------------
(* instruction groups *)
JudgeG(c, it, p, q) ==
  IF p > Len(c.out) \/ Lkind(c.out[p]) # "i" THEN <<"instr-missing", 0>>
  ELSE
  LET rs == LinesOf(c.out, p, q)
      n == Len(rs)
      insIdx == SelectSeq(Wr!Iota(n), LAMBDA j : Lop(rs[j]) # 0)
      toks == Wr!Flatten([j \in 1..n |-> Lw(rs[j])])
      words == IF SkoolSyntax(c) THEN Wr!Rendered(toks) ELSE toks
      \* blocks in the comment: rows that must begin at given words (it.st as in JudgeP), the bullet of a list
      \* item is a fixed prefix of its row, a rendered table is one unbreakable unit
      firsts == [j \in 1..n |-> 1 + Wr!SumSeq([i \in 1..(j - 1) |-> Len(Lw(rs[i]))])]
      starts == { it.st[s][1] : s \in 1..Len(it.st) }
      stOf(j) == IF it.st = <<>> THEN {} ELSE { s \in 1..Len(it.st) : it.st[s][1] = firsts[j] /\ Len(Lw(rs[j])) > 0 }
      fixAt(j) == IF stOf(j) = {} THEN 0 ELSE it.st[CHOOSE s \in stOf(j) : TRUE][2]
      units(j) == Len(Lw(rs[j])) - fixAt(j)
      blk == Len(it.st) > 0 \/ Len(it.tabs) > 0
      tabRows == SelectSeq(rs, LAMBDA l : Ltab(l) = 1)
      tabNo(j) == Cardinality({ i \in 1..j : Ltab(rs[i]) = 1 })
      overOK(j) == Wr!LineOK(Ln(rs[j]), c.W, units(j), Lcl(rs[j]) <= c.cwmin)
      \* drift: comment lines not packed from the first row down / continuation rows before the last
      \* instruction / a break although the next word would have fitted
      \* a last row that holds nothing but the closing braces of the group (codes 1..9) is placed by the
      \* instruction it closes, not by the wrapping
      closingOnly(j) == SkoolSyntax(c) /\ j = n /\ Wr!Braced(toks) /\ Len(Lw(rs[j])) > 0
                        /\ \A i \in 1..Len(Lw(rs[j])) : Lw(rs[j])[i] \in 1..9
      hasText(j) == (Len(Lw(rs[j])) > 0 \/ Ltab(rs[j]) # 0) /\ ~closingOnly(j)
      unpacked == Cardinality({ j \in 1..(n - 1) : ~hasText(j) /\ hasText(j + 1) })
      early == Cardinality({ j \in 1..(n - 1) : Lop(rs[j]) = 0 /\ Lop(rs[j + 1]) # 0 })
      \* where the comment field should begin according to the documented field widths (Wrap.tla)
      column == IF c.tool = "asm" THEN Wr!AsmCommentColumn(c.ind, c.iw, Wr!MaxOf({ it.ins[j][3] : j \in 1..it.k }))
                ELSE Wr!SkoolCommentColumn(c.iw, c.eop)
      \* (the continuation lines of a list item are indented by the bullet, text behind a block by one blank)
      misaligned == Cardinality({ j \in 1..n : /\ c.W > 0 /\ Lcl(rs[j]) > 0
                                               /\ IF blk THEN Ln(rs[j]) - Lcl(rs[j]) \notin column..(column + 2)
                                                  ELSE Ln(rs[j]) - Lcl(rs[j]) # column })
      notNarrowed == Cardinality({ j \in 1..n : Ltab(rs[j]) = 1 /\ TableNotNarrowed(rs[j], c.W, it.tabs[tabNo(j)].minw) })
      broke == Cardinality({ j \in 1..(n - 1) :
                  /\ c.W > 0 /\ ~closingOnly(j + 1)
                  /\ Ltab(rs[j]) = 0 /\ Ltab(rs[j + 1]) = 0 /\ stOf(j + 1) = {}
                  /\ \/ Wr!BrokeEarly(Lcl(rs[j]), Lfl(rs[j + 1]), Lcl(rs[j]) + c.W - Ln(rs[j]))
                     \/ ~blk /\ Wr!BrokeEarly(Lcl(rs[j]), Lfl(rs[j + 1]), c.cwmin) })
  IN
  IF Len(insIdx) # it.k THEN <<"instr-count", 0>>
  ELSE IF \E j \in 1..it.k : Lop(rs[insIdx[j]]) # it.ins[j][2] THEN <<"instr-operation", 0>>
  ELSE IF c.tool # "asm" /\ \E j \in 1..it.k : Laddr(rs[insIdx[j]]) # it.ins[j][1] THEN <<"instr-address", 0>>
  ELSE IF SkoolSyntax(c) /\ Wr!BraceExtent(c.out, p) # q THEN <<"group-extent", 0>>
  ELSE IF words # it.w THEN <<"group-words", 0>>
  ELSE IF \E s \in starts : ~\E j \in 1..n : firsts[j] = s /\ Len(Lw(rs[j])) > 0 THEN <<"line-start", 0>>
  ELSE IF Len(tabRows) # Len(it.tabs) THEN <<"table-count", 0>>
  ELSE IF \E i \in 1..Len(it.tabs) : Lcols(tabRows[i]) # it.tabs[i].cols THEN <<"table-cells", 0>>
  ELSE IF c.tool = "html" /\ (Lrs(rs[1]) # it.k \/ \E j \in 2..n : Lrs(rs[j]) # 0 \/ Len(Lw(rs[j])) > 0) THEN <<"rowspan", 0>>
  ELSE IF \E j \in 1..n : ~overOK(j) THEN <<"width-row", 0>>
  ELSE IF \E j \in 1..n : Ltab(rs[j]) = 1 /\ TableTooWide(rs[j], c.W, it.tabs[tabNo(j)].minw) THEN <<"table-width", 0>>
  ELSE IF c.tool = "asm" /\ \E j \in 1..n : Lwl(rs[j]) > c.W /\ Lwarn(rs[j]) = 0 THEN <<"warn-row", 0>>
  ELSE <<"ok", IF c.tool = "gen" THEN 0 ELSE unpacked + early + broke + misaligned, notNarrowed>>

--------------------------------------------------------------------------
RECURSIVE Walk(_, _, _, _, _, _)
Walk(c, ei, li, nsec, drift, narrow) ==
  IF ei > Len(c.exp)
  THEN IF \A j \in li..Len(c.out) : IsSep(c.out[j]) THEN <<"ok", drift, narrow>> ELSE <<"extra-lines", drift, narrow>>
  ELSE
  LET it == c.exp[ei] IN
  IF it.t = "P"
  THEN LET p == SkipSeps(c.out, li)
           ns2 == nsec + CountSep(c.out, li, p - 1)
           q == RunEnd(c.out, p, "c")
           r == JudgeP(c, it, p, q, ns2)
       IN IF r[1] # "ok" THEN <<r[1] \o "@" \o ToString(ei), 0, 0>>
          ELSE Walk(c, ei + 1, q + 1, ns2, drift + r[2], narrow + r[3])
  ELSE LET p == SkipSeps(c.out, li)
           q == GroupEnd(c.out, p, it.k)
           r == JudgeG(c, it, p, q)
       IN IF r[1] # "ok" THEN <<r[1] \o "@" \o ToString(ei), 0, 0>>
          ELSE Walk(c, ei + 1, q + 1, nsec, drift + r[2], narrow + r[3])

Judge(c) == IF c.exc # "" THEN <<"exception", 0, 0>> ELSE Walk(c, 1, 1, 0, 0, 0)

Init == tid \in 1..Len(Cases) /\ verdict = "pending"
\* not part of C18 (lead's triage): lines that end in a bare LF although CRLF is configured are only counted
BareLf(c) == Cardinality({ j \in 1..Len(c.out) : Llf(c.out[j]) = 1 })
\* DRIFT: wrap points / row packing differ from the reference; NARROW: tables not narrowed to a place narrower
\* than a description line (TableNotNarrowed); TERMINATOR: bare LF
Say(r) == /\ IF r[1] = "ok" THEN TRUE ELSE PrintT(<<"FAIL", tid, r[1]>>)
          /\ IF r[2] = 0 THEN TRUE ELSE PrintT(<<"DRIFT", tid, r[2]>>)
          /\ IF r[3] = 0 THEN TRUE ELSE PrintT(<<"NARROW", tid, r[3]>>)
          /\ IF BareLf(Cases[tid]) = 0 THEN TRUE ELSE PrintT(<<"TERMINATOR", tid, BareLf(Cases[tid])>>)
Next == /\ verdict = "pending"
        /\ LET r == Judge(Cases[tid]) IN verdict' = r[1] /\ Say(r)
        /\ UNCHANGED tid
=============================================================================
