SPECIFICATION Spec
CONSTANTS
  MaxTop = 20
  MaxBlocks = 1
  MaxSubs = 5
  MaxStmts = 1
  MaxNotes = 1
  MaxDirs = 1
  MaxNons = 0
  WordCounts = {2, 5}
  GenBlockTypes = {"b", "c"}
  GenNoteKinds = {"M"}
  GenSubTypes = {"B", "C"}
  Rich = 0
  Terse = 0
  Phased = TRUE
CHECK_DEADLOCK FALSE
