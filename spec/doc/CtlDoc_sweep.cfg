SPECIFICATION Spec
CONSTANTS
  MaxTop = 6
  MaxBlocks = 1
  MaxSubs = 3
  MaxStmts = 1
  MaxNotes = 1
  MaxDirs = 0
  MaxNons = 0
  WordCounts = {2}
  GenBlockTypes = {"b", "c"}
  GenNoteKinds = {"I", "M"}
  GenSubTypes = {"B", "C"}
  Rich = 1
  Terse = 1
  Phased = TRUE
CHECK_DEADLOCK FALSE
