\* thorough tier: one more line per file.
\* pattern A: every file of up to MaxLines lines / MaxIns instruction lines over a small alphabet, read in
\* one mode.  c04.py runs this configuration for several modes (AsmMode / FixMode are rewritten there).
SPECIFICATION Spec
CONSTANTS
  AsmMode = 3
  FixMode = 3
  Base = 40000
  MaxIns = 2
  MaxDirs = 2
  MaxLines = 5
  Kinds = {"bfix"}
  TokKinds = {"one", "ld8", "jp", "call", "ldhl", "lda", "jr", "djnz", "defw", "defb", "defm", "defs"}
  DirTokKinds = {"one", "ld8", "jp", "call", "ldhl", "lda", "jr", "djnz", "defw", "defb", "defm", "defs"}
  DirIns = 99
  Classes <- McClasses
  FlagSets <- McFlags
  TargetOffs = {1, 3}
  RemOffs = {0, 1}
  RemLens = {1, 2}
  LabChoices = {FALSE}
  IfConds <- NoConds
  MaxIfs = 0
  Rotate = FALSE
  FeatureSets <- McFeatures
  Ctls = {"c", " "}
INVARIANT TypeOK
INVARIANT LayoutIsFunctionOfFileAndMode
INVARIANT NoTwoOnOneAddress
INVARIANT OverwriteRemoves
INVARIANT LabelTableIsAFunction
INVARIANT AmapPointsAtItsInstruction
INVARIANT NoModeIsIdentity
INVARIANT StationaryKeepsOperands
INVARIANT ImagesAgreeWithoutOverrides
CHECK_DEADLOCK FALSE
