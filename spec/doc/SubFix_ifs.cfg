\* pattern D for @if: TLC enumerates every file that puts one @if-wrapped directive (an @*sub/@*fix with every flag
\* combination on the first instruction; a ! removal, @label, @keep or @nowarn anywhere) among three one-byte
\* instructions; c04.py takes the complete files from the state dump and feeds each of them to the real tools.
SPECIFICATION Spec
CONSTANTS
  AsmMode = 2
  FixMode = 2
  Base = 40000
  MaxIns = 3
  MaxDirs = 1
  MaxLines = 5
  Kinds = {"bfix", "ssub"}
  TokKinds = {"one"}
  DirTokKinds = {"ld8"}
  DirIns = 1
  Classes <- IfsClasses
  FlagSets <- SimFlags
  TargetOffs = {1}
  RemOffs = {0, 1}
  RemLens = {1, 2}
  LabChoices = {FALSE}
  IfConds <- IfsConds
  MaxIfs = 1
  Rotate = FALSE
  FeatureSets <- IfsFeatures
  Ctls = {"c", " "}
INVARIANT TypeOK
INVARIANT LayoutIsFunctionOfFileAndMode
INVARIANT NoTwoOnOneAddress
INVARIANT OverwriteRemoves
INVARIANT AmapPointsAtItsInstruction
CHECK_DEADLOCK FALSE
