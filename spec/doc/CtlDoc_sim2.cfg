SPECIFICATION Spec
CONSTANTS
  MaxTop = 40
  MaxBlocks = 3
  MaxSubs = 7
  MaxStmts = 3
  MaxNotes = 5
  MaxDirs = 3
  MaxNons = 2
  WordCounts = {2, 5}
  GenBlockTypes = {"b", "c", "i"}
  GenNoteKinds = {"title", "D", "R", "N", "E", "I", "M"}
  GenSubTypes = {"B", "C", "S", "T", "W"}
  Terse = 0
  Rich = 1
  Phased = TRUE
CHECK_DEADLOCK FALSE
