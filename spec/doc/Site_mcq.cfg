\* pattern A: every abstract site of <= 3 entries (quick tier) in 2 disassemblies (entry types c/b, three instructions each, one with a
\* mid-block comment; one #R or operand reference from an entry or a page), the deep path layout, hex anchors,
\* single-page on/off: the documented file set and link rule imply the C16 invariants.
SPECIFICATION Spec
CONSTANTS
  MaxEntries = 3
  MaxRefs = 1
  Types = {"c", "b"}
  Pts = {2}
  Layouts = {2}
  AnchorKinds = {"x"}
  Ancs = {0, 1}
  Deviation = "none"
INVARIANT TypeOK
INVARIANT WrittenOnce
INVARIANT DocExpectedExist
INVARIANT DocNoDangling
INVARIANT DocFragmentExists
INVARIANT DocEntryAnchorsUnique
INVARIANT DocNoFailures
INVARIANT RelResolves
CHECK_DEADLOCK FALSE
