---------------------------- MODULE CtlDocCases ----------------------------
(***************************************************************************)
(* Pattern B for C03.  One case = one round trip                            *)
(*   ctl0 -sna2skool-> A -skool2ctl-> ctl1 -sna2skool-> B -skool2ctl-> ctl2  *)
(* recorded by harness/drivers/docdrv.py:                                    *)
(*   A, B    the two skool files, lexed into entries / instruction rows      *)
(*   C       the directive records of ctl1 (one per line, lexed)             *)
(*   D       the items of the generated document (spec/doc/CtlDoc.tla)       *)
(*   hA, hB, hC1, hC2   line hashes of the four texts                        *)
(*   kl      skool2ctl -k was used (line structure is kept)                  *)
(*   hexm    sna2skool -H was used (the default base is hexadecimal)         *)
(*   end     end address of the disassembled range                           *)
(*                                                                          *)
(* Both file formats are mapped to the same item space by the projections   *)
(* defined here from the format documentation (skool-files.rst,              *)
(* control-files.rst):                                                       *)
(*   SkoolItems(A)  = SkoolItems(B) = CtlItems(ctl1)      item by item,      *)
(*   A = B textually, ctl2 = ctl1 (fixed point),                             *)
(* and the document's own items are looked up in A (a miss there is drift   *)
(* of the ctl0 -> A leg, which the property does not speak about).           *)
(* An item is [k, a, i, p]: kind, address, index, payload (integers):        *)
(*   block, title, desc#i, reg#i, mid#i (start / mid-block comment at an     *)
(*   instruction), end#i, stmt (kind, length, base of every part/operand),   *)
(*   icmt (instruction-level comment; i = address after its last statement), *)
(*   edir#i / adir#i (entry-level / instruction-level ASM directives),       *)
(*   ig-t ig-d ig-r ig-m ig-i ig-e (@ignoreua by comment type),              *)
(*   hdr#i / ftr#i (lines of non-entry blocks).                              *)
(* The verdict names the first item that is lost, added or changed.          *)
(***************************************************************************)
EXTENDS Integers, Sequences, FiniteSets, Json, IOUtils, TLC, CtlDocDefs

Cases == JsonDeserialize(IOEnv.CASES)
VARIABLES tid, verdict

DOT == 2000100                \* the word "." (word code = 100 * core + 10 * opening braces + closing braces;
                              \* core 0 = braces only, core 20000 + k = k dots)
SEP == -100                   \* line break inside a paragraph (kept lines)
Mark(ord) == 0 - (200 + ord)  \* "the following words sit on instruction ord of the group"

Item(k, a, i, p) == [k |-> k, a |-> a, i |-> i, p |-> p]

\* ---- sequences ------------------------------------------------------------------------------
RECURSIVE Flat(_)
Flat(ss) == IF ss = <<>> THEN <<>> ELSE Head(ss) \o Flat(Tail(ss))
RECURSIVE JoinWith(_, _)
JoinWith(ss, sep) == IF ss = <<>> THEN <<>> ELSE IF Len(ss) = 1 THEN ss[1] ELSE ss[1] \o <<sep>> \o JoinWith(Tail(ss), sep)
Payload(lines, kl) == IF kl THEN JoinWith(lines, SEP) ELSE Flat(lines)
RECURSIVE SumSeq(_)
SumSeq(q) == IF q = <<>> THEN 0 ELSE Head(q) + SumSeq(Tail(q))

\* ---- paragraphs and registers ---------------------------------------------------------------
\* paragraphs of a comment section: maximal runs of lines that are not a lone dot; blank lines do not count
RECURSIVE Paras(_, _, _)
Paras(ls, cur, acc) ==
  IF ls = <<>> THEN (IF cur = <<>> THEN acc ELSE Append(acc, cur))
  ELSE IF Head(ls) = <<DOT>> THEN Paras(Tail(ls), <<>>, IF cur = <<>> THEN acc ELSE Append(acc, cur))
  ELSE IF Head(ls) = <<>> THEN Paras(Tail(ls), cur, acc)
  ELSE Paras(Tail(ls), Append(cur, Head(ls)), acc)
ParaItems(k, a, ls, kl) == LET ps == Paras(ls, <<>>, <<>>) IN {Item(k, a, j, Payload(ps[j], kl)) : j \in 1..Len(ps)}
\* registers: a line starts a register unless it starts with a dot (continuation of the description)
RECURSIVE Regs(_, _, _)
Regs(ls, cur, acc) ==
  IF ls = <<>> THEN (IF cur = <<>> THEN acc ELSE Append(acc, cur))
  ELSE LET l == Head(ls) IN
       IF l = <<>> \/ l = <<DOT>> THEN Regs(Tail(ls), cur, acc)
       ELSE IF l[1] = DOT /\ cur # <<>> THEN Regs(Tail(ls), Append(cur, Tail(l)), acc)
       ELSE Regs(Tail(ls), <<l>>, IF cur = <<>> THEN acc ELSE Append(acc, cur))
RegItems(a, ls, kl) == LET rs == Regs(ls, <<>>, <<>>) IN {Item("reg", a, j, Payload(rs[j], kl)) : j \in 1..Len(rs)}

\* ---- codes ----------------------------------------------------------------------------------
BlockCode(c) == CASE c = "b" -> 1 [] c = "c" -> 2 [] c = "g" -> 3 [] c = "i" -> 4 [] c = "s" -> 5 [] c = "t" -> 6
                  [] c = "u" -> 7 [] c = "w" -> 8 [] OTHER -> 0
KindCode(k) == CASE k = "B" -> 1 [] k = "C" -> 2 [] k = "S" -> 3 [] k = "T" -> 4 [] k = "W" -> 5 [] OTHER -> 0
\* spelling class of a number: the base letter, with n = the default base of the disassembly
ClassCode(b, hexm) == CASE b = "b" -> 1 [] b = "c" -> 2 [] b = "d" -> 3 [] b = "h" -> 4 [] b = "m" -> 5
                        [] OTHER -> IF hexm THEN 4 ELSE 3
\* parts <<n, base>> of a DEFB / DEFM / DEFW statement: adjacent parts of one class are one part
RECURSIVE MergeParts(_, _, _)
MergeParts(ps, hexm, acc) ==
  IF ps = <<>> THEN acc
  ELSE LET n == Head(ps)[1]
           cl == ClassCode(Head(ps)[2], hexm)
       IN IF acc # <<>> /\ acc[Len(acc)] = cl THEN MergeParts(Tail(ps), hexm, [acc EXCEPT ![Len(acc) - 1] = @ + n])
          ELSE MergeParts(Tail(ps), hexm, acc \o <<n, cl>>)
\* DEFS: size class, value class (no lengths: the size is the statement length)
DefsParts(ps, hexm) == [j \in 1..Len(ps) |-> ClassCode(ps[j][2], hexm)]
DataPayload(k, n, ps, hexm) == <<KindCode(k), n>> \o (IF k = "S" THEN DefsParts(ps, hexm) ELSE MergeParts(ps, hexm, <<>>))

\* =============================================================================================
\* DocOfSkool: the items of a skool file (skool-files.rst)
\* =============================================================================================
IsCmt(r) == r.t = 1
\* entry header: the section (0 title, 1 description, 2 registers, 3 start comment) of every row; a blank
\* comment line after a non-blank one ends a section
RECURSIVE SecSeq(_, _, _)
SecSeq(rows, sec, started) ==
  IF rows = <<>> THEN <<>>
  ELSE LET r == Head(rows) IN
       IF IsCmt(r) /\ r.w = <<>>
       THEN <<sec>> \o SecSeq(Tail(rows), IF started /\ sec < 3 THEN sec + 1 ELSE sec, started)
       ELSE <<sec>> \o SecSeq(Tail(rows), sec, started \/ IsCmt(r))
RECURSIVE SelLines(_, _, _, _)
SelLines(rows, secs, s, j) ==
  IF j > Len(rows) THEN <<>>
  ELSE IF IsCmt(rows[j]) /\ rows[j].w # <<>> /\ secs[j] = s THEN <<rows[j].w>> \o SelLines(rows, secs, s, j + 1)
  ELSE SelLines(rows, secs, s, j + 1)
CmtLines(rows) == SelLines(rows, [j \in 1..Len(rows) |-> 0], 0, 1)
\* index of the next non-blank comment row after row j (0: none)
NextCmt(rows, j) == LET S == {x \in (j + 1)..Len(rows) : IsCmt(rows[x]) /\ rows[x].w # <<>>}
                    IN IF S = {} THEN 0 ELSE CHOOSE x \in S : \A y \in S : x <= y
SecLetter(s) == CASE s = 0 -> "t" [] s = 1 -> "d" [] s = 2 -> "r" [] OTHER -> "m"
\* ASM directive rows above an instruction: @ignoreua applies to the comment that follows it (ctx names the
\* comment found there), any other directive to the instruction; entry-level kinds above the first instruction
\* of an entry belong to the entry
DirItems(rows, secs, a, first, ctx) ==
  LET cls(j) == IF first /\ rows[j].d \in EntryDirKinds THEN "edir" ELSE "adir"
      isdir(j) == rows[j].t = 4 /\ rows[j].d # "ignoreua"
      ord(j) == Cardinality({x \in 1..j : isdir(x) /\ cls(x) = cls(j)})
      igk(j) == LET nx == NextCmt(rows, j) IN
                IF nx = 0 THEN (IF ctx = "tail" THEN "" ELSE "ig-i")
                ELSE IF ctx = "hdr" THEN "ig-" \o SecLetter(secs[nx])
                ELSE IF ctx = "tail" THEN "ig-e" ELSE "ig-m"
  IN {Item(cls(j), a, ord(j), <<rows[j].dc>>) : j \in {x \in 1..Len(rows) : isdir(x) /\ ctx # "tail"}}
     \cup {Item(igk(j), a, 0, <<rows[j].sfx>>) : j \in {x \in 1..Len(rows) : rows[x].t = 4 /\ rows[x].d = "ignoreua" /\ igk(x) # ""}}

\* instruction-level comments: a comment that starts with '{' extends over the following instructions until the
\* closing braces balance the opening ones (or a comment line / the end of the entry intervenes)
RECURSIVE NetOf(_)
NetOf(cl) == IF cl = <<>> THEN 0 ELSE Head(cl).ob - Head(cl).cb + NetOf(Tail(cl))
Starts(ins) == ins.cl # <<>> /\ ins.cl[1].sb = 1
Brk(ins) == \E j \in 1..Len(ins.pre) : IsCmt(ins.pre[j])
RECURSIVE GEnd(_, _, _)
GEnd(I, e, nest) == IF nest <= 0 \/ e = Len(I) THEN e ELSE IF Brk(I[e + 1]) THEN e ELSE GEnd(I, e + 1, nest + NetOf(I[e + 1].cl))
RECURSIVE Groups(_, _)
Groups(I, j) == IF j > Len(I) THEN <<>>
                ELSE LET e == IF Starts(I[j]) THEN GEnd(I, j, NetOf(I[j].cl)) ELSE j IN <<<<j, e>>>> \o Groups(I, e + 1)
\* the adjacent opening braces at the start / closing braces at the end of a group comment are not part of it
StripOpen(w) == IF w = <<>> THEN w
                ELSE LET t == w[1] IN
                     IF t > 0 /\ t < 100 /\ (t % 10) = 0 THEN Tail(w)
                     ELSE IF t > 0 THEN <<t - (((t \div 10) % 10) * 10)>> \o Tail(w) ELSE w
StripClose(w) == IF w = <<>> THEN w
                 ELSE LET t == w[Len(w)] IN
                      IF t > 0 /\ t < 10 THEN SubSeq(w, 1, Len(w) - 1)
                      ELSE IF t > 0 THEN SubSeq(w, 1, Len(w) - 1) \o <<t - (t % 10)>> ELSE w
\* the comment lines of a group as <<ordinal of the instruction in the group, words>>
RECURSIVE GLines(_, _, _, _)
GLines(I, j, x, e) == IF x > e THEN <<>>
                      ELSE [y \in 1..Len(I[x].cl) |-> <<x - j, I[x].cl[y].w>>] \o GLines(I, j, x + 1, e)
Stripped(ls, braces) ==
  IF ~braces \/ ls = <<>> THEN ls
  ELSE LET a == [ls EXCEPT ![1] = <<@[1], StripOpen(@[2])>>]
       IN [a EXCEPT ![Len(a)] = <<@[1], StripClose(@[2])>>]
RECURSIVE LinePayload(_, _)
LinePayload(ls, kl) == IF ls = <<>> THEN <<>>
                       ELSE IF Head(ls)[2] = <<>> THEN LinePayload(Tail(ls), kl)
                       ELSE (IF kl THEN <<Mark(Head(ls)[1])>> ELSE <<>>) \o Head(ls)[2] \o LinePayload(Tail(ls), kl)
GroupItems(I, kl) ==
  LET gs == Groups(I, 1) IN
  UNION {LET j == gs[g][1]
             e == gs[g][2]
             p == LinePayload(Stripped(GLines(I, j, j, e), Starts(I[j])), kl)
         IN IF I[j].k # "" /\ (e > j \/ p # <<>>) THEN {Item("icmt", I[j].a, I[e].a + I[e].n, p)} ELSE {}
         : g \in 1..Len(gs)}

StmtItem(ins, hexm) ==
  IF ins.k = "C" THEN Item("stmt", ins.a, 0, <<KindCode("C"), ins.n>> \o [j \in 1..Len(ins.bs) |-> ClassCode(ins.bs[j][2], hexm)])
  ELSE Item("stmt", ins.a, 0, DataPayload(ins.k, ins.n, ins.bs, hexm))

\* lines of non-entry blocks, blocks separated by a blank line (code 0)
NonEntryItems(k, a, blks) == LET ls == JoinWith(blks, 0) IN {Item(k, a, j, <<ls[j]>>) : j \in 1..Len(ls)}

EntryItems(e, kl, hexm) ==
  LET I == e.ins
      a0 == I[1].a
      rows == I[1].pre
      secs == SecSeq(rows, 0, FALSE)
      title == SelLines(rows, secs, 0, 1)
  IN {Item("block", a0, 0, <<BlockCode(I[1].c)>>)}
     \cup (IF title = <<>> THEN {} ELSE {Item("title", a0, 0, Payload(title, kl))})
     \cup ParaItems("desc", a0, SelLines(rows, secs, 1, 1), kl)
     \cup RegItems(a0, SelLines(rows, secs, 2, 1), kl)
     \cup ParaItems("mid", a0, SelLines(rows, secs, 3, 1), kl)
     \cup UNION {ParaItems("mid", I[j].a, CmtLines(I[j].pre), kl) : j \in 2..Len(I)}
     \cup ParaItems("end", a0, CmtLines(e.tail), kl)
     \cup DirItems(rows, secs, a0, TRUE, "hdr")
     \cup UNION {DirItems(I[j].pre, <<>>, I[j].a, FALSE, "mid") : j \in 2..Len(I)}
     \cup DirItems(e.tail, <<>>, a0, FALSE, "tail")
     \cup {StmtItem(I[j], hexm) : j \in {x \in 1..Len(I) : I[x].k # ""}}
     \cup GroupItems(I, kl)
     \cup NonEntryItems("hdr", a0, e.pre)

SkoolItems(S, kl, hexm) ==
  UNION {EntryItems(S.ents[x], kl, hexm) : x \in 1..Len(S.ents)}
  \cup (IF S.ents = <<>> THEN {} ELSE NonEntryItems("ftr", S.ents[Len(S.ents)].ins[1].a, S.post))
DocOfSkool(S, kl, hexm) == SkoolItems(S, kl, hexm)
SkoolStmts(S) == UNION {{S.ents[x].ins[j] : j \in {y \in 1..Len(S.ents[x].ins) : S.ents[x].ins[y].k # ""}} : x \in 1..Len(S.ents)}

\* =============================================================================================
\* DocOfCtl: the items of a control file (control-files.rst)
\* =============================================================================================
IsBlockDir(r) == r.d \in BlockTypes
IsSubDir(r) == r.d \in SubTypes
\* the comment lines of a directive: its inline text (if any) and the dot / colon lines that follow it
DirLines(r) == (IF r.ht = 1 THEN <<[c |-> 0, w |-> r.w]>> ELSE <<>>) \o r.dl
WordsOf(ls) == [j \in 1..Len(ls) |-> ls[j].w]
\* all lines of the directives of kind d at address a; each directive starts a new paragraph
RECURSIVE LinesAt(_, _, _, _)
LinesAt(C, d, a, j) == IF j > Len(C) THEN <<>>
                       ELSE IF C[j].d = d /\ C[j].a = a THEN WordsOf(DirLines(C[j])) \o <<<<DOT>>>> \o LinesAt(C, d, a, j + 1)
                       ELSE LinesAt(C, d, a, j + 1)
RECURSIVE RegLinesAt(_, _, _)
RegLinesAt(C, a, j) == IF j > Len(C) THEN <<>>
                       ELSE IF C[j].d = "R" /\ C[j].a = a THEN WordsOf(DirLines(C[j])) \o RegLinesAt(C, a, j + 1)
                       ELSE RegLinesAt(C, a, j + 1)
AddrsOf(C, d) == {C[j].a : j \in {x \in 1..Len(C) : C[x].d = d}}
BlockAddrs(C) == {C[j].a : j \in {x \in 1..Len(C) : IsBlockDir(C[x])}}

\* statements of a B / S / T / W directive: the sublengths in turn, the last one repeated, up to the length
PartsSize(d, ps) == IF d = "S" THEN ps[1][1] ELSE SumSeq([j \in 1..Len(ps) |-> ps[j][1]])
RECURSIVE Expand(_, _, _, _)
Expand(r, pos, j, hexm) ==
  IF pos >= r.a + r.len \/ r.subs = <<>> THEN {}
  ELSE LET ps == r.subs[IF j <= Len(r.subs) THEN j ELSE Len(r.subs)]
           sz == PartsSize(r.d, ps)
           n == IF pos + sz > r.a + r.len THEN r.a + r.len - pos ELSE sz
       IN IF sz <= 0 THEN {}
          ELSE {Item("stmt", pos, 0, DataPayload(r.d, n, ps, hexm))} \cup Expand(r, pos + sz, j + 1, hexm)
\* instructions of a C directive: the base letters of the sublength that covers the instruction; one letter (or the
\* first of two) for the first numeric operand, the last letter for the second
RECURSIVE CodeRanges(_, _, _)
CodeRanges(r, pos, j) == IF j > Len(r.subs) THEN <<>>
                         ELSE <<<<pos, pos + r.subs[j][1][1], r.subs[j][1][2], r.subs[j][1][3]>>>> \o CodeRanges(r, pos + r.subs[j][1][1], j + 1)
CodeBases(b1, b2, m, hexm) == IF m = 0 THEN <<>>
                              ELSE IF m = 1 THEN <<ClassCode(b1, hexm)>>
                              ELSE <<ClassCode(b1, hexm), ClassCode(IF b2 = "" THEN b1 ELSE b2, hexm)>>
CodeItems(r, stmts, hexm) ==
  LET rgs == IF r.subs = <<>> THEN <<<<r.a, r.a + r.len, r.pb[1], r.pb[2]>>>> ELSE CodeRanges(r, r.a, 1)
      cov(s) == {g \in 1..Len(rgs) : rgs[g][1] <= s.a /\ s.a < rgs[g][2]}
  IN {LET g == CHOOSE g \in cov(s) : TRUE
      IN Item("stmt", s.a, 0, <<KindCode("C"), s.n>> \o CodeBases(rgs[g][3], rgs[g][4], Len(s.bs), hexm))
      : s \in {x \in stmts : r.a <= x.a /\ x.a < r.a + r.len /\ cov(x) # {}}}
Covered(C, a) == \E j \in 1..Len(C) : IsSubDir(C[j]) /\ C[j].a <= a /\ a < C[j].a + C[j].len
\* a statement no sub-block directive covers has the entry's default type and the default bases
BlockTypeAt(C, a) == LET S == {j \in 1..Len(C) : IsBlockDir(C[j]) /\ C[j].a <= a}
                     IN IF S = {} THEN "" ELSE C[CHOOSE j \in S : \A y \in S : C[y].a <= C[j].a].d
DefaultItem(C, s, hexm) ==
  LET k == DefaultSub(BlockTypeAt(C, s.a)) IN
  IF k = "C" THEN Item("stmt", s.a, 0, <<KindCode("C"), s.n>> \o [j \in 1..Len(s.bs) |-> ClassCode("n", hexm)])
  ELSE Item("stmt", s.a, 0, <<KindCode(k), s.n, s.n, ClassCode(IF k = "T" THEN "c" ELSE "n", hexm)>>)

\* instruction-level comment of a sub-block or M directive over [a, e): the words (a blank or dots-only inline text
\* over two or more statements has one dot too many); with kept lines a dot line moves to the next instruction,
\* a colon line stays, lines beyond the last instruction stay on it
RECURSIVE Ords(_, _, _, _)
Ords(ls, j, dots, nst) == IF j > Len(ls) THEN <<>>
                          ELSE LET d == IF ls[j].c = 0 THEN dots + 1 ELSE dots
                                   o == IF d = 0 THEN 0 ELSE IF d - 1 < nst - 1 THEN d - 1 ELSE nst - 1
                               IN <<<<IF o < 0 THEN 0 ELSE o, ls[j].w>>>> \o Ords(ls, j + 1, d, nst)
Undot(w) == IF Len(w) = 1 /\ w[1] >= DOT /\ (w[1] % 100) = 0 THEN (IF w[1] = DOT THEN <<>> ELSE <<w[1] - 100>>) ELSE w
CommentItem(r, e, stmts, kl) ==
  LET ls == DirLines(r)
      nst == Cardinality({s \in stmts : r.a <= s.a /\ s.a < e})
      ls2 == IF Len(ls) = 1 /\ r.ht = 1 /\ nst > 1 THEN <<[c |-> 0, w |-> Undot(r.w)]>> ELSE ls
      p == LinePayload(Ords(ls2, 1, 0, nst), kl)
  IN IF ls # <<>> /\ (nst > 1 \/ p # <<>>) THEN {Item("icmt", r.a, e, p)} ELSE {}
\* an M directive without length extends to the next mid-block comment or the end of the entry
MEnd(C, r, end) == IF r.len > 0 THEN r.a + r.len
                   ELSE LET S == {x \in BlockAddrs(C) \cup AddrsOf(C, "N") \cup {end} : x > r.a}
                        IN CHOOSE x \in S : \A y \in S : x <= y

CtlItems(C, stmts, kl, hexm, end) ==
  LET N == Len(C)
      bas == BlockAddrs(C)
      ms == AddrsOf(C, "M")
      cls(j) == IF C[j].a \in bas /\ C[j].dn \in EntryDirKinds THEN "edir" ELSE "adir"
      isdir(j) == C[j].d = "@" /\ C[j].dn # "ignoreua"
      ord(j) == Cardinality({x \in 1..j : isdir(x) /\ C[x].a = C[j].a /\ cls(x) = cls(j)})
      nonord(j) == Cardinality({x \in 1..j : C[x].d = ">" /\ C[x].a = C[j].a /\ C[x].foot = C[j].foot})
  IN {Item("block", C[j].a, 0, <<BlockCode(C[j].d)>>) : j \in {x \in 1..N : IsBlockDir(C[x]) /\ ~(C[x].d = "i" /\ C[x].a >= end)}}
     \cup UNION {LET ls == WordsOf(DirLines(C[j])) IN IF Flat(ls) = <<>> THEN {} ELSE {Item("title", C[j].a, 0, Payload(ls, kl))}
                 : j \in {x \in 1..N : IsBlockDir(C[x])}}
     \cup UNION {ParaItems("desc", a, LinesAt(C, "D", a, 1), kl) : a \in AddrsOf(C, "D")}
     \cup UNION {ParaItems("mid", a, LinesAt(C, "N", a, 1), kl) : a \in AddrsOf(C, "N")}
     \cup UNION {ParaItems("end", a, LinesAt(C, "E", a, 1), kl) : a \in AddrsOf(C, "E")}
     \cup UNION {RegItems(a, RegLinesAt(C, a, 1), kl) : a \in AddrsOf(C, "R")}
     \cup {Item(cls(j), C[j].a, ord(j), <<C[j].dc>>) : j \in {x \in 1..N : isdir(x)}}
     \cup {Item("ig-" \o C[j].igt, C[j].a, 0, <<C[j].sfx>>) : j \in {x \in 1..N : C[x].d = "@" /\ C[x].dn = "ignoreua"}}
     \cup {Item(IF C[j].foot = 1 THEN "ftr" ELSE "hdr", C[j].a, nonord(j), <<C[j].lc>>) : j \in {x \in 1..N : C[x].d = ">"}}
     \cup UNION {Expand(C[j], C[j].a, 1, hexm) : j \in {x \in 1..N : C[x].d \in {"B", "S", "T", "W"}}}
     \cup UNION {CodeItems(C[j], stmts, hexm) : j \in {x \in 1..N : C[x].d = "C"}}
     \cup {DefaultItem(C, s, hexm) : s \in {x \in stmts : ~Covered(C, x.a)}}
     \cup UNION {CommentItem(C[j], C[j].a + C[j].len, stmts, kl) : j \in {x \in 1..N : IsSubDir(C[x]) /\ C[x].a \notin ms}}
     \cup UNION {CommentItem(C[j], MEnd(C, C[j], end), stmts, kl) : j \in {x \in 1..N : C[x].d = "M"}}

DocOfCtl(C, stmts, kl, hexm, end) == CtlItems(C, stmts, kl, hexm, end)

\* =============================================================================================
\* the verdict
\* =============================================================================================
First(S) == CHOOSE x \in S : \A y \in S : x.a < y.a \/ (x.a = y.a /\ x.i <= y.i)
NoMarks(p) == SelectSeq(p, LAMBDA v : v > -200)
\* name of an item that is in X but not in Y: kind, what happened to it, where
Describe(x, Y, spans) ==
  LET same == {y \in Y : y.k = x.k /\ y.a = x.a /\ y.i = x.i}
      other == {y \in Y : y.k = x.k /\ y.a = x.a}
      how == IF same # {} THEN (IF NoMarks(x.p) = NoMarks((CHOOSE y \in same : TRUE).p) THEN "layout" ELSE "changed")
             ELSE IF x.k = "icmt" /\ other # {} THEN "extent"
             ELSE IF x.p = <<0>> \/ x.p = <<>> THEN "blank" ELSE "missing"
      ing == IF \E s \in spans : s.a < x.a /\ x.a < s.i THEN ":in-group" ELSE ""
  IN x.k \o ":" \o how \o ing \o " #" \o ToString(x.i) \o " @" \o ToString(x.a)
FirstDiff(p, q) == LET S == {j \in 1..(IF Len(p) < Len(q) THEN Len(p) ELSE Len(q)) : p[j] # q[j]}
                   IN IF S = {} THEN (IF Len(p) < Len(q) THEN Len(p) ELSE Len(q)) + 1 ELSE CHOOSE j \in S : \A y \in S : j <= y

Judge(c) ==
  IF c.err # "" THEN "tool-error"
  ELSE IF c.A.bad > 0 \/ c.B.bad > 0 THEN "skool-line-not-understood"
  ELSE IF \E j \in 1..Len(c.C) : c.C[j].d = "?" THEN "ctl1-line-not-understood"
  ELSE
  LET kl == c.kl = 1
      hexm == c.hexm = 1
      IA == DocOfSkool(c.A, kl, hexm)
      IC == DocOfCtl(c.C, SkoolStmts(c.A), kl, hexm, c.end)
      IB == DocOfSkool(c.B, kl, hexm)
      spans == {x \in IA : x.k = "icmt"}
  IN IF IA \ IC # {} THEN "ctl1-lost " \o Describe(First(IA \ IC), IC, spans)
     ELSE IF IC \ IA # {} THEN "ctl1-added " \o Describe(First(IC \ IA), IA, spans)
     ELSE IF IA \ IB # {} THEN "B-lost " \o Describe(First(IA \ IB), IB, spans)
     ELSE IF IB \ IA # {} THEN "B-added " \o Describe(First(IB \ IA), IA, spans)
     ELSE IF c.hA # c.hB THEN "A!=B text line " \o ToString(FirstDiff(c.hA, c.hB))
     ELSE IF c.hC1 # c.hC2 THEN "ctl2!=ctl1 text line " \o ToString(FirstDiff(c.hC1, c.hC2))
     ELSE IF c.warn # "" THEN "warning-on-leg-B"
     ELSE "ok"

\* drift of the ctl0 -> A leg: items of the generated document that A does not show
Drift(c) == IF c.err # "" \/ c.A.bad > 0 THEN {}
            ELSE LET IA == DocOfSkool(c.A, FALSE, c.hexm = 1)
                     D == {Item(c.D[j].k, c.D[j].a, c.D[j].i, c.D[j].p) : j \in 1..Len(c.D)}
                 IN D \ IA

Init == tid \in 1..Len(Cases) /\ verdict = "pending"
Next == /\ verdict = "pending"
        /\ verdict' = Judge(Cases[tid])
        /\ UNCHANGED tid
        /\ (verdict' = "ok" \/ PrintT(<<"FAIL", tid, verdict'>>))
        /\ LET d == Drift(Cases[tid]) IN d = {} \/ PrintT(<<"DRIFT", tid, Describe(First(d), {}, {})>>)
=============================================================================
