SPECIFICATION Spec
CONSTANTS
  MaxTop = 60
  MaxBlocks = 3
  MaxSubs = 6
  MaxStmts = 4
  MaxNotes = 10
  MaxDirs = 5
  WordCounts = {1, 2, 5}
  Phased = TRUE
INVARIANT WellFormed
CHECK_DEADLOCK FALSE
