SPECIFICATION Spec
CONSTANTS
  MaxTop = 60
  MaxBlocks = 3
  MaxSubs = 6
  MaxStmts = 4
  MaxNotes = 10
  MaxDirs = 5
  MaxNons = 3
  WordCounts = {2, 5, 20}
  GenBlockTypes = {"b", "c", "g", "i", "s", "t", "u", "w"}
  GenNoteKinds = {"title", "D", "R", "N", "E", "I", "M"}
  GenSubTypes = {"B", "C", "S", "T", "W"}
  Terse = 0
  Rich = 2
  Phased = TRUE
CHECK_DEADLOCK FALSE
