\* pattern A: every abstract site of <= 3 entries in 2 disassemblies whose one #R reference (from an entry or a page, to a first
\* instruction or an entry point, local or in the other disassembly) may carry the explicit anchor "address of the containing
\* entry", both path layouts, decimal and hex anchors, single-page on/off: the documented link rule implies the C16 invariants.
SPECIFICATION Spec
CONSTANTS
  MaxEntries = 3
  MaxRefs = 1
  Types = {"c", "b"}
  Pts = {0, 2}
  Layouts = {1, 2}
  AnchorKinds = {"d", "x"}
  Ancs = {0, 1}
  Deviation = "none"
INVARIANT TypeOK
INVARIANT WrittenOnce
INVARIANT DocExpectedExist
INVARIANT DocNoDangling
INVARIANT DocFragmentExists
INVARIANT DocEntryAnchorsUnique
INVARIANT DocNoFailures
INVARIANT RelResolves
CHECK_DEADLOCK FALSE
