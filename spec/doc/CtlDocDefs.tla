----------------------------- MODULE CtlDocDefs -----------------------------
(***************************************************************************)
(* Static vocabulary shared by CtlDoc (the document state machine) and      *)
(* CtlDocCases (the judge): entry / sub-block types, number bases, ASM       *)
(* directive kinds.                                                          *)
(***************************************************************************)
BlockTypes == {"b", "c", "g", "i", "s", "t", "u", "w"}
SubTypes == {"B", "C", "S", "T", "W"}
Bases == {"n", "b", "c", "d", "h", "m"}
\* the statement type an entry of type bt holds by default
DefaultSub(bt) == CASE bt = "c" -> "C" [] bt = "s" -> "S" [] bt = "t" -> "T" [] bt = "w" -> "W" [] bt = "i" -> "I"
                    [] OTHER -> "B"
DirKinds == {"label", "keep", "nowarn", "ssub", "isub", "rsub", "ofix", "bfix", "rfix", "rem", "refs", "if", "bytes",
             "assemble", "equ", "set", "org", "start", "end", "replace", "writer", "defb", "defw", "defs", "expand",
             "remote", "bank", "rom"}
\* directives that belong to the entry (placed above the title) when given at the entry address
EntryDirKinds == {"assemble", "bank", "defb", "defs", "defw", "end", "equ", "expand", "if", "org", "remote", "replace",
                  "rom", "set", "start", "writer"}
=============================================================================
