SPECIFICATION Spec
CONSTANTS
  MaxTop = 40
  MaxBlocks = 2
  MaxSubs = 7
  MaxStmts = 2
  MaxNotes = 4
  MaxDirs = 2
  MaxNons = 1
  WordCounts = {2, 5}
  GenBlockTypes = {"b", "c", "t"}
  GenNoteKinds = {"N", "I", "M"}
  GenSubTypes = {"B", "C", "S", "T", "W"}
  Terse = 0
  Rich = 1
  Phased = TRUE
CHECK_DEADLOCK FALSE
