\* pattern D: TLC enumerates every file that puts zero, one or two directives of one kind, with every flag
\* combination, with or without an instruction, on the first of three one-byte instructions; c04.py takes the
\* complete files from the state dump and feeds each of them to the real tools.
SPECIFICATION Spec
CONSTANTS
  AsmMode = 1
  FixMode = 2
  Base = 40000
  MaxIns = 3
  MaxDirs = 2
  MaxLines = 6
  Kinds = {"bfix"}
  TokKinds = {"one"}
  DirTokKinds = {"ld8"}
  DirIns = 1
  Classes <- PairClasses
  FlagSets <- SimFlags
  TargetOffs = {1}
  RemOffs = {0}
  RemLens = {1}
  LabChoices = {FALSE}
  IfConds <- NoConds
  MaxIfs = 0
  Rotate = FALSE
  FeatureSets <- NoFeatures
  Ctls = {"c", " "}
INVARIANT TypeOK
INVARIANT LayoutIsFunctionOfFileAndMode
INVARIANT NoTwoOnOneAddress
INVARIANT OverwriteRemoves
INVARIANT AmapPointsAtItsInstruction
CHECK_DEADLOCK FALSE
