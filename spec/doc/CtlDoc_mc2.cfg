SPECIFICATION Spec
CONSTANTS
  MaxTop = 3
  MaxBlocks = 2
  MaxSubs = 2
  MaxStmts = 2
  MaxNotes = 2
  MaxDirs = 1
  MaxNons = 1
  WordCounts = {1}
  GenBlockTypes = {"c", "i"}
  Rich = FALSE
  Phased = FALSE
INVARIANT Tiles
INVARIANT BlocksOnSubs
INVARIANT StmtsOk
INVARIANT MRanges
INVARIANT Attached
INVARIANT IgnoreHasComment
INVARIANT OneEach
INVARIANT BlankSpans
VIEW View
CHECK_DEADLOCK FALSE
