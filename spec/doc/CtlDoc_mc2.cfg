SPECIFICATION Spec
CONSTANTS
  MaxTop = 3
  MaxBlocks = 1
  MaxSubs = 2
  MaxStmts = 1
  MaxNotes = 1
  MaxDirs = 1
  MaxNons = 1
  WordCounts = {1}
  GenBlockTypes = {"c"}
  Rich = FALSE
  Phased = TRUE
INVARIANT WellFormed
VIEW View
CHECK_DEADLOCK FALSE
