SPECIFICATION Spec
CONSTANTS
  MaxTop = 3
  MaxBlocks = 1
  MaxSubs = 2
  MaxStmts = 1
  MaxNotes = 1
  MaxDirs = 1
  MaxNons = 1
  WordCounts = {1}
  GenBlockTypes = {"c"}
  GenNoteKinds = {"title", "D", "R", "N", "E", "I", "M"}
  GenSubTypes = {"B", "C", "S", "T", "W"}
  Terse = 0
  Rich = 1
  Phased = TRUE
INVARIANT WellFormed
VIEW View
CHECK_DEADLOCK FALSE
