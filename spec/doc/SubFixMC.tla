------------------------------ MODULE SubFixMC ------------------------------
(* Constant definitions for the TLC runs of SubFix (tuples cannot be written in a .cfg file). *)
EXTENDS SubFix

AllFlags == { <<p, o, a, f>> : p \in {0, 1}, o \in {0, 1}, a \in {0, 1}, f \in {0, 1} }
\* > and + on one directive contradict each other (SkoolKit then inserts an empty instruction): left to c04.py's notes
SimFlags == { f \in AllFlags : ~(f[1] = 1 /\ f[3] = 1) }

\* SubFix_mc.cfg: exhaustive, small alphabet
McClasses == <<"ins", "sub", "rem", "begin", "else", "end", "lab", "gap">>
McFlags == { <<0, 0, 0, 0>>, <<1, 0, 0, 0>>, <<0, 1, 0, 0>>, <<0, 0, 1, 0>>, <<0, 1, 1, 0>>, <<1, 1, 0, 0>> }

\* SubFix_sim.cfg: random files for the real tools; repeats are weights
SimClasses == <<"ins", "ins", "ins", "ins", "ins", "sub", "sub", "sub", "rem", "begin", "else", "end", "end",
                "org", "lab", "lab", "lab", "keep", "data", "bytes", "if", "ifrem", "ifrem", "ifdir", "gap">>
\* @if conditions: every relation over both mode fields; each is true in some of the 12 modes and false in others
AllConds == { <<v, r, n>> : v \in {"asm", "fix"}, r \in {">=", "==", "<", ">", "!="}, n \in 1..3 }
NoConds == {}
\* SubFix_mcif.cfg: exhaustive, every kind of directive wrapped in @if
McIfClasses == <<"ins", "if", "ifrem", "ifdir", "rem", "lab", "gap">>
McIfFeatures == { {"if", "rem", "lab", "gap", "org", "keep"} }
McIfFlags == { <<0, 0, 0, 0>>, <<1, 0, 0, 0>>, <<0, 1, 0, 0>>, <<0, 0, 1, 0>>, <<0, 1, 1, 0>>, <<1, 1, 0, 0>>, <<0, 0, 0, 1>> }
McIfConds == { <<"asm", ">=", 2>>, <<"fix", "<", 2>>, <<"fix", "!=", 3>> }
\* SubFix_ifs.cfg: every file with one @if-wrapped directive among three instructions
IfsClasses == <<"if", "ifrem", "ifdir", "ins">>
IfsFeatures == { {"if", "keep"} }
IfsConds == { <<"asm", ">", 1>>, <<"fix", "==", 2>>, <<"fix", "<", 2>> }
\* SubFix_pairs.cfg: every pair of directives (all flag combinations) on the first of three instructions
PairClasses == <<"sub", "ins">>
NoFeatures == { {} }
McFeatures == { {"rem", "begin", "lab", "gap"} }
Optional == {"rem", "begin", "org", "lab", "keep", "data", "bytes", "if", "gap"}
SimFeatures == { f \in SUBSET Optional : Cardinality(f) <= 3 /\ Cardinality(f \cap {"keep", "data", "bytes"}) <= 1 }
=============================================================================
