------------------------------ MODULE SubFixMC ------------------------------
(* Constant definitions for the TLC runs of SubFix (tuples cannot be written in a .cfg file). *)
EXTENDS SubFix

AllFlags == { <<p, o, a, f>> : p \in {0, 1}, o \in {0, 1}, a \in {0, 1}, f \in {0, 1} }
\* > and + on one directive contradict each other (SkoolKit then inserts an empty instruction): left to c04.py's notes
SimFlags == { f \in AllFlags : ~(f[1] = 1 /\ f[3] = 1) }

\* SubFix_mc.cfg: exhaustive, small alphabet
McClasses == <<"ins", "sub", "rem", "begin", "else", "end", "lab", "gap">>
McFlags == { <<0, 0, 0, 0>>, <<1, 0, 0, 0>>, <<0, 1, 0, 0>>, <<0, 0, 1, 0>>, <<0, 1, 1, 0>>, <<1, 1, 0, 0>> }

\* SubFix_sim.cfg: random files for the real tools; repeats are weights
SimClasses == <<"ins", "ins", "ins", "ins", "ins", "sub", "sub", "sub", "rem", "begin", "else", "end", "end",
                "org", "lab", "lab", "lab", "keep", "data", "bytes", "if", "gap">>
\* SubFix_pairs.cfg: every pair of directives (all flag combinations) on the first of three instructions
PairClasses == <<"sub", "ins">>
NoFeatures == { {} }
McFeatures == { {"rem", "begin", "lab", "gap"} }
Optional == {"rem", "begin", "org", "lab", "keep", "data", "bytes", "if", "gap"}
SimFeatures == { f \in SUBSET Optional : Cardinality(f) <= 3 /\ Cardinality(f \cap {"keep", "data", "bytes"}) <= 1 }
=============================================================================
