------------------------------ MODULE SubFixMC ------------------------------
(* Constant definitions for the TLC runs of SubFix (tuples cannot be written in a .cfg file). *)
EXTENDS SubFix

AllFlags == { <<p, o, a, f>> : p \in {0, 1}, o \in {0, 1}, a \in {0, 1}, f \in {0, 1} }

\* SubFix_mc.cfg: exhaustive, small alphabet
McClasses == <<"ins", "sub", "rem", "begin", "else", "end", "lab", "gap">>
McFlags == { <<0, 0, 0, 0>>, <<1, 0, 0, 0>>, <<0, 1, 0, 0>>, <<0, 0, 1, 0>>, <<0, 1, 1, 0>>, <<1, 1, 0, 0>> }

\* SubFix_sim.cfg: random files for the real tools; repeats are weights
SimClasses == <<"ins", "ins", "ins", "ins", "sub", "sub", "sub", "sub", "rem", "begin", "else", "end", "end",
                "org", "lab", "lab", "keep", "data", "bytes", "if", "gap", "gap">>
=============================================================================
