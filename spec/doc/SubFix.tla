------------------------------- MODULE SubFix -------------------------------
(***************************************************************************)
(* C04.  The *documented* semantics of the ASM directives that decide what  *)
(* ends up at which address when a skool file is converted in one of the    *)
(* substitution / bugfix modes (sphinx/source/asm.rst, commands.rst):       *)
(*   @isub/@ssub/@rsub/@ofix/@bfix/@rfix = [>][|][+][/][LABEL:][INSTR]      *)
(*   @*sub=!a1[-a2], @*sub/@*fix block directives (+/-begin, else, end),    *)
(*   @org, @label, @keep, @bytes, @defb/@defs/@defw, @if, @equ.             *)
(*                                                                          *)
(* A skool file is abstracted to a sequence of lines (records, field l):    *)
(*  "ins"  [ctl, addr, tok]      instruction line; addr = -1: no address    *)
(*  "sub"  [kind, pre, ovw, app, fin, lab, has, tok]   @kind=>|+/LAB: INSTR  *)
(*  "rem"  [kind, a1, a2]        @kind=!a1-a2                               *)
(*  "blk"  [kind, plus, part]    @kind+begin / -begin / +else / ... / end   *)
(*  "org"  [v]                   @org (v = -1) / @org=v                     *)
(*  "lab"  [name]  "keep"  "nowarn"  "equ" [name, v]                        *)
(*  "data" [d, addr, vals]       @defb / @defs / @defw (addr = -1: default) *)
(*  "bytes" [vals]               @bytes                                     *)
(*  "if"   [var, rel, n, yes, no]  @if({var} rel n)(yes[,no]): yes and no are *)
(*                               themselves directive lines of any kind above *)
(*                               ("sub" with any flags, "rem", "org", "lab",  *)
(*                               "keep", "nowarn", "data", "bytes", "if";     *)
(*                               no = [l |-> "none"]: not given)              *)
(*  "gap"                        blank line: the entry ends                 *)
(* An instruction is a token [k, a, n, t] whose bytes identify it (t: the   *)
(* 16-bit operand as written, a candidate instruction address).             *)
(*                                                                          *)
(* Step(s, line, am, fm) is the reader: it consumes one line in mode        *)
(* (am, fm) = (substitution mode 0..3, bugfix mode 0..3).  Run folds Step   *)
(* over a file, Finish resolves operands and yields the layout: which token *)
(* sits at which address, what every label resolves to, and the images      *)
(* (assembled ASM output / skool2bin / skool2bin --data = #PEEK snapshot).  *)
(* Base (-D/-H), case (-l/-u), -c and @nowarn do not occur anywhere in this *)
(* module: the layout is a function of (file, mode) only.                   *)
(*                                                                          *)
(* The second half is a state machine that writes a file line by line       *)
(* (Pick chooses the class of the next line, the class action appends it    *)
(* and lets the reader consume it in mode (AsmMode, FixMode)); SubFix_mc    *)
(* checks the invariants below on all small files, SubFix_sim produces      *)
(* files that harness/checks/c04.py renders and feeds to the real tools.    *)
(***************************************************************************)
EXTENDS Integers, Sequences, FiniteSets, TLC

CONSTANTS AsmMode, FixMode,      \* the mode in force for the state machine
          Base,                  \* skool address of the first instruction
          MaxIns, MaxDirs,       \* instruction lines per file, directives per instruction
          MaxLines,              \* lines per file
          Kinds,                 \* directive kinds the generator uses
          TokKinds,              \* token kinds the generator uses
          Classes,               \* sequence of line classes Pick chooses from (repeats = weights)
          FlagSets,              \* set of <<pre, ovw, app, fin>> the generator uses
          TargetOffs,            \* operand values offered: Base + offset
          RemOffs, RemLens,      \* @kind=!a1-a2: a1 = next skool address + offset, a2 = a1 + length - 1
          LabChoices,            \* subset of BOOLEAN: may a directive carry a label
          Ctls,                  \* control characters used: subset of {"c", "b", " ", "*"}
          FeatureSets,           \* set of sets of optional line classes; a file uses the classes of one of them
          DirTokKinds,           \* token kinds of the instructions carried by directives
          DirIns,                \* only the first DirIns instruction lines carry sub/fix directives
          IfConds,               \* set of <<var, rel, n>>: the conditions of the @if lines the generator writes
          MaxIfs,                \* @if lines per file
          Rotate                 \* TRUE: the @if actions offer a rotating part of IfConds / FlagSets per step (simulation)

VARIABLES prog, st, gen

Range(s) == { s[i] : i \in 1..Len(s) }
MaxOf(S) == CHOOSE x \in S : \A y \in S : y <= x
MinOf(S) == CHOOSE x \in S : \A y \in S : x <= y
Last(s) == s[Len(s)]
Front(s) == SubSeq(s, 1, Len(s) - 1)

-----------------------------------------------------------------------------
(* Modes (asm.rst "Substitution modes", "Bugfix modes"; commands.rst)        *)

AllKinds == {"isub", "ssub", "rsub", "ofix", "bfix", "rfix"}
\* @rfix mode implies @rsub mode; @rsub mode implies @ofix mode
ModeOK(am, fm) == am \in 0..3 /\ fm \in 0..3 /\ (fm = 3 => am = 3) /\ (am = 3 => fm >= 1)
\* "In @ssub mode, @isub and @ssub directives are executed, but @rsub directives are not" etc.
Executed(kind, am, fm) ==
  CASE kind = "isub" -> am >= 1
    [] kind = "ssub" -> am >= 2
    [] kind = "rsub" -> am >= 3
    [] kind = "ofix" -> fm >= 1
    [] kind = "bfix" -> fm >= 2
    [] kind = "rfix" -> fm >= 3
\* Not documented: which directives win when executed directives of two kinds sit on one instruction.
\* SkoolKit (Mode.weights, BinWriter.weights) applies only those of the heaviest kind, fixes above subs.
SkoolKitWeight(kind) ==
  CASE kind = "isub" -> 1 [] kind = "ssub" -> 2 [] kind = "rsub" -> 3
    [] kind = "ofix" -> 10 [] kind = "bfix" -> 20 [] kind = "rfix" -> 30

-----------------------------------------------------------------------------
(* Tokens                                                                    *)

NoTok == [k |-> "none", a |-> 0, n |-> 0, t |-> -1]
\* NOP, XOR A, INC A, RET, LD B,C, EX DE,HL, CPL, SCF
OneByte == <<0, 175, 60, 201, 65, 235, 47, 55>>
StrBytes(n) == SubSeq(<<97, 98, 99, 100>>, 1, n)
Opcode3 == [jp |-> 195, call |-> 205, ldhl |-> 33, lda |-> 58]
Opcode2 == [jr |-> 24, djnz |-> 16]

Size(tok) ==
  CASE tok.k = "one" -> 1
    [] tok.k \in {"ld8", "jr", "djnz", "defw"} -> 2
    [] tok.k \in {"jp", "call", "ldhl", "lda"} -> 3
    [] tok.k = "defb" -> tok.n + 1
    [] tok.k \in {"defm", "defs", "raw"} -> tok.n
HasTarget(tok) == tok.k \in {"jp", "call", "ldhl", "lda", "jr", "djnz", "defw"}
Lo(x) == x % 256
Hi(x) == (x \div 256) % 256
\* the bytes of tok placed at address a when its address operand resolves to t
Bytes(tok, a, t) ==
  CASE tok.k = "one" -> <<OneByte[tok.a + 1]>>
    [] tok.k = "ld8" -> <<62, tok.a>>
    [] tok.k \in {"jp", "call", "ldhl", "lda"} -> <<Opcode3[tok.k], Lo(t), Hi(t)>>
    [] tok.k \in {"jr", "djnz"} -> <<Opcode2[tok.k], (t - a - 2 + 65536) % 256>>
    [] tok.k = "defw" -> <<Lo(t), Hi(t)>>
    [] tok.k = "defb" -> StrBytes(tok.n) \o <<tok.a>>
    [] tok.k = "defm" -> StrBytes(tok.n)
    [] tok.k = "defs" -> [i \in 1..tok.n |-> tok.a]
    [] tok.k = "raw" -> tok.bs
\* operand values of a token that are candidates for label substitution / relocation
Refs(tok) == IF HasTarget(tok) THEN {tok.t} ELSE IF tok.k = "raw" THEN Range(tok.refs) ELSE {}

DataBytes(line) ==
  CASE line.d = "defb" -> line.vals
    [] line.d = "defw" -> IF line.vals = <<>> THEN <<>>
                          ELSE [i \in 1..(2 * Len(line.vals)) |->
                                 IF i % 2 = 1 THEN Lo(line.vals[(i + 1) \div 2]) ELSE Hi(line.vals[i \div 2])]
    [] line.d = "defs" -> [i \in 1..line.vals[1] |-> line.vals[2]]

-----------------------------------------------------------------------------
(* The reader                                                                *)

InitSt == [ addr    |-> -1,     \* where the next instruction is placed (-1: at its own / the @org address)
            stack   |-> <<>>,   \* open block directives [kind, plus]
            removed |-> {},     \* skool addresses removed from the current entry (!, |)
            subs    |-> <<>>,   \* pending executed @*sub/@*fix directives of the next instruction
            plab    |-> "",     \* pending @label
            pbytes  |-> <<>>,   \* pending @bytes
            pdata   |-> <<>>,   \* pending @defb/@defs/@defw
            porg    |-> -2,     \* pending @org: -2 none, -1 bare, else the value
            pkeep   |-> FALSE,
            first   |-> TRUE,   \* no instruction of the current entry has been placed yet
            out     |-> <<>>,   \* placed instructions in order
            amap    |-> <<>>,   \* <<skool address, placed address>> of the original instructions
            dropped |-> 0,      \* instruction lines dropped because their address was removed
            ent     |-> 0,      \* entries finished so far
            notes   |-> {} ]    \* why the documentation does not settle this input (see below)

\* Inputs on which the documentation leaves room for the two tools to differ legitimately: the claim
\* "assembled ASM = skool2bin image" is not made there.
UnclaimedNotes == { "org-not-first",       \* "@org works only on the first instruction in an entry" (skool2asm),
                                           \* yet "forces skool2bin.py to place the next instruction" anywhere
                    "no-org",              \* nothing tells an assembler where the first instruction goes
                    "directive-on-removed",\* a directive attached to an instruction that ! or | removed
                    "keep-on-inserted",    \* @keep is documented for "the next instruction" only
                    "bytes-override",      \* @bytes cannot be expressed in ASM text
                    "overwrite-unplaced",  \* | after an instruction whose skool address is unknown
                    "before-and-after",    \* > and + on one directive contradict each other
                    "data-on-unplaced",    \* @defb/@defs/@defw without address default to "the address of the next
                                           \* instruction", which a line without address does not have (skool2asm: TypeError)
                    "bytes-length",        \* @bytes is for "an alternative set of opcodes" of the instruction: same length
                    "unlabelled-moved-ref",\* operand = address of an unlabelled instruction that moved:
                                           \* skool2asm keeps the number and warns "No label for address"
                    "remove-of-inserted",  \* ! names the skool address at which only an instruction inserted by a later |
                                           \* directive stands: is that "the instruction at the given address"?
                                           \* (skool2asm drops it and what it overwrites, skool2bin keeps it: reported)
                    "if-on-option" }       \* a layout-changing directive under @if({base}|{case}|{html}|{vars[..]} ...):
                                           \* the author asks for an image that depends on skool2asm's options
\* Inputs on which the tools must agree but this model is not definite
UndocNotes == { "precedence",              \* executed directives of two kinds on one instruction
                "label-on-comment-directive",
                "data-with-insert",        \* are pending data directives placed before or after an inserted instruction?
                "raw-moved" }              \* a token given by its bytes whose operand would have to follow an instruction

Included(s, am, fm) ==
  \A i \in 1..Len(s.stack) : (s.stack[i].plus = 1) <=> Executed(s.stack[i].kind, am, fm)

\* @if(expr)(true[,false]) "conditionally processes other ASM directives": `true` is processed when expr is true,
\* `false` (if given) when it is not - processed, i.e. read exactly as if it stood there on a line of its own.
\* expr is over the replacement fields.  asm and fix are the mode in force, known to every tool; base, case, html
\* and vars[..] belong to skool2asm / skool2html alone (-D/-H, -l/-u, --var): the layout must not depend on them
\* (nothing here reads them), so such a condition may only guard a directive without effect on the layout.
ModeVars == {"asm", "fix"}
EvalIf(line, am, fm) ==
  LET v == IF line.var = "asm" THEN am ELSE fm
  IN CASE line.rel = ">=" -> v >= line.n
       [] line.rel = "==" -> v = line.n
       [] line.rel = "<" -> v < line.n
       [] line.rel = ">" -> v > line.n
       [] line.rel = "!=" -> v # line.n
LayoutNeutral(line) == line.l \in {"nowarn", "equ", "none"}

\* a placed instruction: a = address, sa = address written on its line (-1: none), va = skool address under
\* which the reader knows it (-1: none), src = orig / repl / pre / post, ov = it claimed its skool range (|),
\* jump = it was not simply put after its predecessor (@org, start of file), ent = number of its entry
Item(a, tok, sa, va, src, lab, bv, pd, keep, ov) ==
  [a |-> a, tok |-> tok, sa |-> sa, va |-> va, src |-> src, lab |-> lab, bv |-> bv, pd |-> pd, keep |-> keep,
   ov |-> ov, jump |-> FALSE, ent |-> 0]
ItemSize(it) == IF it.bv # <<>> THEN Len(it.bv) ELSE Size(it.tok)

\* ds: directives that each carry an instruction, placed one after another from address a.
\* off = skool address - placed address of the current instruction; known: the skool address of this place is
\* known (the current instruction has one and every instruction since overwrote); an overwriting (|)
\* instruction removes the skool addresses it covers.
RECURSIVE Chain(_, _, _, _, _, _)
Chain(ds, a, off, rem, src, known) ==
  IF ds = <<>> THEN [items |-> <<>>, a |-> a, rem |-> rem, bad |-> FALSE, hit |-> FALSE]
  ELSE LET d == Head(ds)
           sz == Size(d.tok)
           ov == d.ovw = 1 /\ src = "post"
           va == IF ov /\ known THEN a + off ELSE -1
           rem1 == IF ov /\ known THEN rem \cup { a + off + i : i \in 0..(sz - 1) } ELSE rem
           r == Chain(Tail(ds), a + sz, off, rem1, src, known /\ ov)
       IN [items |-> <<Item(a, d.tok, -1, va, src, d.lab, <<>>, <<>>, FALSE, ov /\ known)>> \o r.items,
           a |-> r.a, rem |-> r.rem, bad |-> r.bad \/ (ov /\ ~known),
           hit |-> r.hit \/ (ov /\ known /\ (a + off) \in rem)]

\* pending data directives poke their bytes from the address of the next instruction onwards
RECURSIVE Pokes(_, _)
Pokes(ds, a) ==
  IF ds = <<>> THEN <<>>
  ELSE LET d == Head(ds)
           at == IF d.addr >= 0 THEN d.addr ELSE a
           bs == DataBytes(d)
       IN <<[a |-> at, bs |-> bs]>> \o Pokes(Tail(ds), at + Len(bs))

Reset(s) == [s EXCEPT !.subs = <<>>, !.plab = "", !.pbytes = <<>>, !.pdata = <<>>, !.porg = -2, !.pkeep = FALSE]

InsLine(s, line) ==
  LET sa == line.addr
      a0 == IF s.porg >= 0 THEN s.porg
            ELSE IF s.porg = -1 \/ s.addr = -1 THEN sa
            ELSE s.addr
      n0 == (IF s.porg # -2 /\ ~s.first THEN {"org-not-first"} ELSE {})
            \cup (IF s.porg = -2 /\ s.addr = -1 THEN {"no-org"} ELSE {})
  IN
  IF sa # -1 /\ sa \in s.removed
  THEN \* "removes the instruction": nothing is placed, whatever was pending is gone
       [Reset(s) EXCEPT !.dropped = @ + 1,
                        !.addr = IF s.porg # -2 THEN a0 ELSE s.addr,
                        !.notes = @ \cup (IF s.subs # <<>> \/ s.porg # -2 \/ s.pdata # <<>> \/ s.pbytes # <<>>
                                          THEN {"directive-on-removed"} ELSE {})]
  ELSE
  LET wmax == MaxOf({d.w : d \in Range(s.subs)})
      D == IF s.subs = <<>> THEN <<>> ELSE SelectSeq(s.subs, LAMBDA d : d.w = wmax)
      n1 == IF Cardinality({d.w : d \in Range(s.subs)}) > 1 THEN {"precedence"} ELSE {}
      \* ">": inserted before the current instruction
      pre == Chain(SelectSeq(D, LAMBDA d : d.pre = 1 /\ d.has = 1), a0, 0, s.removed, "pre", FALSE)
      a1 == pre.a
      rest == SelectSeq(D, LAMBDA d : d.pre = 0)
      \* the first directive without ">" replaces the current instruction unless it carries "+"
      repl == rest # <<>> /\ rest[1].app = 0
      cur == IF repl /\ rest[1].has = 1 THEN rest[1].tok ELSE line.tok
      lab == IF repl /\ rest[1].lab # "" THEN rest[1].lab ELSE s.plab
      ovw == repl /\ rest[1].ovw = 1
      it == Item(a1, cur, sa, sa, IF repl /\ rest[1].has = 1 THEN "repl" ELSE "orig", lab, s.pbytes,
                 Pokes(s.pdata, a1), s.pkeep, ovw /\ sa # -1)
      a2 == a1 + ItemSize(it)
      known == sa # -1
      off == IF known THEN sa - a1 ELSE 0
      rem1 == IF ovw /\ known THEN s.removed \cup { sa + i : i \in 0..(ItemSize(it) - 1) } ELSE s.removed
      \* the remaining directives that carry an instruction are inserted after it
      later == SelectSeq(IF repl THEN Tail(rest) ELSE rest, LAMBDA d : d.has = 1)
      post == Chain(later, a2, off, rem1, "post", known /\ ovw)
      laterNoIns == SelectSeq(IF repl THEN Tail(rest) ELSE rest, LAMBDA d : d.has = 0 /\ d.lab # "")
      n2 == (IF post.bad \/ (ovw /\ ~known) THEN {"overwrite-unplaced"} ELSE {})
            \cup (IF post.hit THEN {"remove-of-inserted"} ELSE {})
            \cup (IF s.pkeep /\ \E x \in Range(pre.items \o post.items) : Refs(x.tok) # {} THEN {"keep-on-inserted"} ELSE {})
            \cup (IF s.pbytes # <<>> /\ s.pbytes # Bytes(cur, a1, cur.t) THEN {"bytes-override"} ELSE {})
            \cup (IF \E d \in Range(D) : d.pre = 1 /\ d.app = 1 THEN {"before-and-after"} ELSE {})
            \cup (IF s.pdata # <<>> /\ pre.items # <<>> THEN {"data-with-insert"} ELSE {})
            \cup (IF s.pdata # <<>> /\ s.pdata[1].addr = -1 /\ sa = -1 THEN {"data-on-unplaced"} ELSE {})
            \cup (IF s.pbytes # <<>> /\ Len(s.pbytes) # Size(cur) THEN {"bytes-length"} ELSE {})
            \cup (IF laterNoIns # <<>> \/ \E d \in Range(D) : d.pre = 1 /\ d.has = 0 /\ d.lab # ""
                  THEN {"label-on-comment-directive"} ELSE {})
      new0 == pre.items \o <<it>> \o post.items
      new == [i \in 1..Len(new0) |-> [new0[i] EXCEPT !.ent = s.ent, !.jump = (i = 1 /\ (s.porg # -2 \/ s.addr = -1))]]
  IN [Reset(s) EXCEPT !.out = @ \o new,
                      !.amap = IF known THEN Append(@, <<sa, a1>>) ELSE @,
                      !.removed = post.rem,
                      !.addr = post.a,
                      !.first = FALSE,
                      !.notes = @ \cup n0 \cup n1 \cup n2]

RECURSIVE Step(_, _, _, _)
Step(s, line, am, fm) ==
  IF line.l = "blk" THEN
       \* block directives are tracked even inside a block that is left out
       (CASE line.part = "begin" -> [s EXCEPT !.stack = Append(@, [kind |-> line.kind, plus |-> line.plus])]
          [] line.part = "else" -> [s EXCEPT !.stack = Append(Front(@), [kind |-> line.kind, plus |-> line.plus])]
          [] line.part = "end" -> [s EXCEPT !.stack = Front(@)])
  ELSE IF ~Included(s, am, fm) THEN s
  ELSE (CASE line.l = "ins" -> InsLine(s, line)
         [] line.l = "sub" -> IF Executed(line.kind, am, fm)
                              THEN [s EXCEPT !.subs = Append(@, [line EXCEPT !.l = "sub"] @@ [w |-> SkoolKitWeight(line.kind)])]
                              ELSE s
         [] line.l = "rem" -> IF Executed(line.kind, am, fm)
                              THEN [s EXCEPT !.removed = @ \cup { line.a1 + i : i \in 0..(line.a2 - line.a1) }]
                              ELSE s
         [] line.l = "org" -> [s EXCEPT !.porg = line.v]
         [] line.l = "lab" -> [s EXCEPT !.plab = line.name]
         [] line.l = "keep" -> [s EXCEPT !.pkeep = TRUE]
         [] line.l = "data" -> [s EXCEPT !.pdata = Append(@, line)]
         [] line.l = "bytes" -> [s EXCEPT !.pbytes = line.vals]
         \* compositional: whatever kind of directive is wrapped (a removal, a flagged @*sub/@*fix, @org, @label,
         \* @keep, @bytes, @defb/@defs/@defw, another @if), it is read by this very reader; "none" has no effect
         [] line.l = "if" -> IF line.var \notin ModeVars
                             THEN (IF LayoutNeutral(line.yes) /\ LayoutNeutral(line.no) THEN s
                                   ELSE [s EXCEPT !.notes = @ \cup {"if-on-option"}])
                             ELSE IF EvalIf(line, am, fm) THEN Step(s, line.yes, am, fm)
                             ELSE Step(s, line.no, am, fm)
         [] line.l = "gap" -> [s EXCEPT !.removed = {}, !.first = TRUE, !.ent = @ + 1]
         [] OTHER -> s)           \* nowarn, equ, none: no effect on the layout

RECURSIVE RunFrom(_, _, _, _)
RunFrom(s, lines, am, fm) == IF lines = <<>> THEN s ELSE RunFrom(Step(s, Head(lines), am, fm), Tail(lines), am, fm)
Run(lines, am, fm) == RunFrom(InitSt, lines, am, fm)

-----------------------------------------------------------------------------
(* The layout                                                                *)

\* "the operand ... will be replaced by the label for that address": an operand that is the skool
\* address of an original instruction follows that instruction to wherever it is placed.
Moved(s, t) == LET S == { i \in 1..Len(s.amap) : s.amap[i][1] = t } IN IF S = {} THEN t ELSE s.amap[MinOf(S)][2]
Target(s, it) == IF it.keep THEN it.tok.t ELSE Moved(s, it.tok.t)
ItemBytes(s, it) == Bytes(it.tok, it.a, IF HasTarget(it.tok) THEN Target(s, it) ELSE it.tok.t)

RECURSIVE Spread(_, _, _)
Spread(a, bs, i) == IF i > Len(bs) THEN <<>> ELSE <<<<a + i - 1, bs[i]>>>> \o Spread(a, bs, i + 1)
RECURSIVE PokePairs(_)
PokePairs(pd) == IF pd = <<>> THEN <<>> ELSE Spread(Head(pd).a, Head(pd).bs, 1) \o PokePairs(Tail(pd))
\* which: "asm" (the text alone), "bin" (@bytes honoured), "data" (@bytes and @defb/@defs/@defw: the snapshot)
RECURSIVE Pairs(_, _, _)
Pairs(s, i, which) ==
  IF i > Len(s.out) THEN <<>>
  ELSE LET it == s.out[i]
           bs == IF which # "asm" /\ it.bv # <<>> THEN it.bv ELSE ItemBytes(s, it)
       IN (IF which = "data" THEN PokePairs(it.pd) ELSE <<>>) \o Spread(it.a, bs, 1) \o Pairs(s, i + 1, which)
\* later writes win
ImageOf(pairs) ==
  LET A == { pairs[i][1] : i \in 1..Len(pairs) }
  IN [a \in A |-> pairs[MaxOf({ i \in 1..Len(pairs) : pairs[i][1] = a })][2]]
Image(s, which) == ImageOf(Pairs(s, 1, which))

Labels(s) == { <<s.out[i].lab, s.out[i].a>> : i \in { j \in 1..Len(s.out) : s.out[j].lab # "" } }

\* notes that can only be decided once every line has been read
FinalNotes(s) ==
  LET vis == { i \in 1..Len(s.out) : s.out[i].va # -1 }
      refs == UNION { IF s.out[i].keep THEN {} ELSE Refs(s.out[i].tok) : i \in 1..Len(s.out) }
      \* an operand equal to the address under which skool2asm knows an instruction that was placed elsewhere
      \* needs a label to follow it; skool2bin follows only original instructions
      movedNoLabel == \E i \in vis : s.out[i].va \in refs /\ s.out[i].a # s.out[i].va
                                     /\ (s.out[i].lab = "" \/ s.out[i].sa = -1)
      rawMoved == \E i \in 1..Len(s.out) : s.out[i].tok.k = "raw" /\ ~s.out[i].keep
                                           /\ \E r \in Refs(s.out[i].tok) : Moved(s, r) # r
  IN s.notes \cup (IF movedNoLabel THEN {"unlabelled-moved-ref"} ELSE {})
             \cup (IF rawMoved THEN {"raw-moved"} ELSE {})
Claimed(s) == FinalNotes(s) \cap UnclaimedNotes = {}
Definite(s) == FinalNotes(s) = {}
\* The #PEEK clause is about files whose instruction lines stand at the addresses written in the file:
\* every placed instruction comes from a line with an address and sits at that address, and no line with
\* an address was left out.  (What SkoolKit does outside this class is probed by c04.py separately.)
Stationary(s) == /\ \A i \in 1..Len(s.out) : s.out[i].sa # -1 /\ s.out[i].a = s.out[i].sa
                 /\ s.dropped = 0
                 /\ s.notes \cap {"directive-on-removed", "overwrite-unplaced", "no-org", "data-on-unplaced"} = {}

-----------------------------------------------------------------------------
(* The writer: a state machine that produces files                           *)

GenInit == [ n |-> 0,        \* instruction lines written
             sk |-> Base,    \* skool address of the next instruction line outside a + block
             blk |-> "",     \* "" / "-" / "+": inside which part of a block directive
             bkind |-> "", belse |-> FALSE,
             pend |-> 0,     \* sub/fix directives since the last instruction
             first |-> TRUE, haslab |-> FALSE, hasorg |-> TRUE, hasbytes |-> FALSE, haskeep |-> FALSE,
             nlab |-> 0, nif |-> 0, cls |-> "", feat |-> {} ]

Tok(k, a, n, t) == [k |-> k, a |-> a, n |-> n, t |-> t]
\* Tokens offered for the id-th instruction: three kinds and up to three operand values, rotating with id, so
\* that one step has a few hundred successors (TLC's simulator enumerates them all) yet every kind and operand
\* comes up.  The immediate of LD A,n / DEFB / DEFS is the id: the bytes tell the instructions apart.
KindSeq == <<"one", "jp", "ld8", "jr", "defw", "call", "defb", "ldhl", "one", "djnz", "defs", "lda", "defm", "jp">>
TargetSeq == <<0, 1, 2, 3, 4, 5, 6, 8, 4096>>
OfferedKinds(id, TK) == LET K == { KindSeq[((3 * id + j) % Len(KindSeq)) + 1] : j \in 0..2 } \cap TK
                        IN IF K = {} THEN TK ELSE K
OfferedTargets(id) == { Base + o : o \in { TargetSeq[((2 * id + j) % Len(TargetSeq)) + 1] : j \in 0..2 } \cap TargetOffs }
TokPoolOf(id, TK) ==
  UNION { CASE k = "one" -> { Tok("one", id % 8, 0, -1) }
            [] k = "ld8" -> { Tok("ld8", 16 + id, 0, -1) }
            [] k \in {"jp", "call", "ldhl", "lda", "defw"} -> { Tok(k, 0, 0, t) : t \in OfferedTargets(id) }
            [] k \in {"jr", "djnz"} -> { Tok(k, 0, 0, t) : t \in { x \in OfferedTargets(id) : x < Base + 100 } }
            [] k = "defb" -> { Tok("defb", 32 + id, 1 + (id % 2), -1) }
            [] k = "defm" -> { Tok("defm", 0, 3, -1) }
            [] k = "defs" -> { Tok("defs", 48 + id, 1 + 2 * (id % 2), -1) }
          : k \in OfferedKinds(id, TK) }
TokPool(id) == TokPoolOf(id, TokKinds)
DirTokPool(id) == TokPoolOf(id, DirTokKinds)

\* directive kinds offered for the directives of the id-th instruction: two of the six, rotating (see TokPool)
KindOrder == <<"isub", "ofix", "ssub", "bfix", "rsub", "rfix">>
DirKinds(id) == LET K == { KindOrder[(id % 6) + 1], KindOrder[((id + 3) % 6) + 1] } \cap Kinds
                IN IF K = {} THEN Kinds ELSE K

Can(c) ==
  CASE c = "ins" -> gen.n < MaxIns
    [] c = "sub" -> gen.n < MaxIns /\ gen.pend < MaxDirs /\ gen.n < DirIns
    [] c = "rem" -> gen.n < MaxIns /\ gen.blk = ""
    [] c = "begin" -> gen.n < MaxIns /\ gen.blk = "" /\ ~gen.first /\ gen.pend = 0 /\ ~gen.haslab
    [] c = "else" -> gen.blk # "" /\ ~gen.belse /\ gen.pend = 0 /\ ~gen.haslab
    [] c = "end" -> gen.blk # "" /\ gen.pend = 0 /\ ~gen.haslab
    [] c = "org" -> gen.n < MaxIns /\ gen.first /\ ~gen.hasorg /\ gen.pend = 0
    [] c = "lab" -> gen.n < MaxIns /\ ~gen.haslab
    [] c = "keep" -> gen.n < MaxIns /\ ~gen.haskeep
    [] c = "data" -> gen.n < MaxIns
    [] c = "bytes" -> gen.n < MaxIns /\ ~gen.hasbytes
    [] c = "if" -> gen.n < MaxIns /\ gen.pend < MaxDirs /\ gen.n < DirIns /\ gen.nif < MaxIfs
    [] c = "ifrem" -> gen.n < MaxIns /\ gen.blk = "" /\ gen.nif < MaxIfs
    [] c = "ifdir" -> gen.n < MaxIns /\ gen.nif < MaxIfs
    [] c = "gap" -> gen.n > 0 /\ gen.n < MaxIns /\ gen.blk = "" /\ ~gen.first /\ gen.pend = 0 /\ ~gen.haslab
                    /\ ~gen.hasbytes /\ ~gen.haskeep

Emit(line, g) ==
  /\ prog' = Append(prog, line)
  /\ st' = Step(st, line, AsmMode, FixMode)
  /\ gen' = [g EXCEPT !.cls = ""]

Pick(i) ==
  /\ gen.cls = ""
  /\ \/ Classes[i] \in gen.feat \cup {"ins", "sub", "lab", "else", "end"}
     \/ Classes[i] \in {"ifrem", "ifdir"} /\ "if" \in gen.feat
  /\ Len(prog) < MaxLines \/ Classes[i] \in {"ins", "end"}
  /\ Can(Classes[i])
  /\ gen' = [gen EXCEPT !.cls = Classes[i]]
  /\ UNCHANGED <<prog, st>>

SubLine(kind, f, lab, has, tok) ==
  [l |-> "sub", kind |-> kind, pre |-> f[1], ovw |-> f[2], app |-> f[3], fin |-> f[4], lab |-> lab, has |-> has, tok |-> tok]

InstructionLine(ctl, tok) ==
  /\ gen.cls = "ins"
  /\ ctl \in Ctls \cap (IF gen.first THEN {"c", "b"} ELSE {" ", "*"})
  /\ tok \in TokPool(gen.n)
  /\ LET inplus == gen.blk = "+"
     IN Emit([l |-> "ins", ctl |-> ctl, addr |-> IF inplus THEN -1 ELSE gen.sk, tok |-> tok],
             [gen EXCEPT !.n = @ + 1, !.sk = IF inplus THEN @ ELSE @ + Size(tok), !.pend = 0, !.first = FALSE,
                         !.haslab = FALSE, !.hasorg = FALSE, !.hasbytes = FALSE, !.haskeep = FALSE])

Directive(kind, f, lab, has, tok) ==
  /\ gen.cls = "sub"
  /\ kind \in DirKinds(gen.n) /\ f \in FlagSets /\ lab \in LabChoices /\ has \in {0, 1}
  /\ tok \in (IF has = 1 THEN DirTokPool(8 + gen.n + gen.pend) ELSE {NoTok})
  /\ Emit(SubLine(kind, f, IF lab THEN "LD" \o ToString(gen.nlab) ELSE "", has, tok),
          [gen EXCEPT !.pend = @ + 1, !.nlab = IF lab THEN @ + 1 ELSE @])

Remove(kind, o, len) ==
  /\ gen.cls = "rem"
  /\ kind \in Kinds /\ o \in RemOffs /\ len \in RemLens
  /\ Emit([l |-> "rem", kind |-> kind, a1 |-> gen.sk + o, a2 |-> gen.sk + o + len - 1], gen)

BlockBegin(kind, plus) ==
  /\ gen.cls = "begin"
  /\ kind \in Kinds /\ plus \in {0, 1}
  /\ Emit([l |-> "blk", kind |-> kind, plus |-> plus, part |-> "begin"],
          [gen EXCEPT !.blk = IF plus = 1 THEN "+" ELSE "-", !.bkind = kind, !.belse = FALSE])

BlockElse ==
  /\ gen.cls = "else"
  /\ LET plus == IF gen.blk = "+" THEN 0 ELSE 1
     IN Emit([l |-> "blk", kind |-> gen.bkind, plus |-> plus, part |-> "else"],
             [gen EXCEPT !.blk = IF plus = 1 THEN "+" ELSE "-", !.belse = TRUE])

BlockEnd ==
  /\ gen.cls = "end"
  /\ Emit([l |-> "blk", kind |-> gen.bkind, plus |-> IF gen.blk = "+" THEN 1 ELSE 0, part |-> "end"],
          [gen EXCEPT !.blk = "", !.bkind = "", !.belse = FALSE])

Org(v) ==
  /\ gen.cls = "org"
  /\ v \in {-1, gen.sk, gen.sk + 16}
  /\ Emit([l |-> "org", v |-> v], [gen EXCEPT !.hasorg = TRUE])

Label ==
  /\ gen.cls = "lab"
  /\ Emit([l |-> "lab", name |-> "LB" \o ToString(gen.nlab)], [gen EXCEPT !.haslab = TRUE, !.nlab = @ + 1])

Keep ==
  /\ gen.cls = "keep"
  /\ Emit([l |-> "keep"], [gen EXCEPT !.haskeep = TRUE])

Defx(d, o, vals) ==
  /\ gen.cls = "data"
  /\ d \in {"defb", "defs", "defw"} /\ o \in {-1, 0, 2, 5}
  /\ vals \in (CASE d = "defb" -> {<<201>>, <<7, 8, 9>>}
                 [] d = "defw" -> {<<513>>, <<Base + 1, 258>>}
                 [] d = "defs" -> {<<2, 255>>, <<4, 17>>})
  /\ Emit([l |-> "data", d |-> d, addr |-> IF o = -1 THEN -1 ELSE gen.sk + o, vals |-> vals], gen)

BytesDir(vals) ==
  /\ gen.cls = "bytes"
  /\ vals \in {<<237, 76>>, <<0>>, <<1, 2, 3>>}
  /\ Emit([l |-> "bytes", vals |-> vals], [gen EXCEPT !.hasbytes = TRUE])

\* @if around every kind of directive.  c = <<var, rel, n>>.
NoLine == [l |-> "none"]
IfLine(c, yes, no) == [l |-> "if", var |-> c[1], rel |-> c[2], n |-> c[3], yes |-> yes, no |-> no]
RelSeq == <<">=", "==", "<", ">", "!=">>
IfId == Len(prog) + gen.n
OfferedConds == IF Rotate THEN { c \in IfConds : c[2] \in {RelSeq[(IfId % 5) + 1], RelSeq[((IfId + 2) % 5) + 1]} } ELSE IfConds
FlagIdx(f) == (8 * f[1]) + (4 * f[2]) + (2 * f[3]) + f[4]
OfferedFlags == IF Rotate THEN { f \in FlagSets : (FlagIdx(f) + IfId) % 3 = 0 } ELSE FlagSets
\* conditions over the fields that only skool2asm / skool2html know: around @nowarn only
OptConds == { <<"base", "==", 16>>, <<"base", "==", 10>>, <<"base", "<", 10>>, <<"case", "==", 1>>, <<"case", "==", 2>>,
              <<"html", "==", 0>>, <<"html", "==", 1>>, <<"vars", "==", 0>> }
DataValsOf(d) == CASE d = "defb" -> {<<201>>, <<7, 8, 9>>}
                   [] d = "defw" -> {<<513>>, <<Base + 1, 258>>}
                   [] d = "defs" -> {<<2, 255>>, <<4, 17>>}

\* ... an @*sub/@*fix directive that carries an instruction, with any flags (and a label now and then)
If(c, kind, f, tok, hasno) ==
  /\ gen.cls = "if"
  /\ LET lab == IF TRUE \in LabChoices /\ IfId % 4 = 1 THEN "LD" \o ToString(gen.nlab) ELSE ""
     IN Emit(IfLine(c, SubLine(kind, f, lab, 1, tok),
                    IF hasno THEN SubLine(kind, <<0, 0, 0, 0>>, "", 1, Tok("ld8", 99, 0, -1)) ELSE NoLine),
             [gen EXCEPT !.pend = @ + 1, !.nif = @ + 1, !.nlab = IF lab # "" THEN @ + 1 ELSE @])

\* ... a removal (the false part, if given, removes the range one further on)
IfRem(c, kind, o, len, hasno) ==
  /\ gen.cls = "ifrem"
  /\ LET R(d) == [l |-> "rem", kind |-> kind, a1 |-> gen.sk + o + d, a2 |-> gen.sk + o + d + len - 1]
     IN Emit(IfLine(c, R(0), IF hasno THEN R(1) ELSE NoLine), [gen EXCEPT !.nif = @ + 1])

\* ... any other directive the file may use (g: the writer's state after it, as for the plain directive)
IfDir(c, body, g) ==
  /\ gen.cls = "ifdir"
  /\ Emit(IfLine(c, body, NoLine), [g EXCEPT !.nif = @ + 1])

Gap ==
  /\ gen.cls = "gap"
  /\ Emit([l |-> "gap"], [gen EXCEPT !.first = TRUE])

Init == /\ prog = <<[l |-> "org", v |-> -1]>>
        /\ st = Step(InitSt, [l |-> "org", v |-> -1], AsmMode, FixMode)
        /\ \E f \in FeatureSets : gen = [GenInit EXCEPT !.feat = f]

DataVals == {<<201>>, <<7, 8, 9>>, <<513>>, <<Base + 1, 258>>, <<2, 255>>, <<4, 17>>}

Next == \/ \E i \in 1..Len(Classes) : Pick(i)
        \/ gen.cls = "ins" /\ \E ctl \in {"c", "b", " ", "*"}, tok \in TokPool(gen.n) : InstructionLine(ctl, tok)
        \/ gen.cls = "sub" /\ \E kind \in DirKinds(gen.n), f \in FlagSets, lab \in LabChoices, has \in {0, 1},
                                 tok \in DirTokPool(8 + gen.n + gen.pend) \cup {NoTok} : Directive(kind, f, lab, has, tok)
        \/ gen.cls = "rem" /\ \E kind \in Kinds, o \in RemOffs, len \in RemLens : Remove(kind, o, len)
        \/ gen.cls = "begin" /\ \E kind \in Kinds, plus \in {0, 1} : BlockBegin(kind, plus)
        \/ BlockElse \/ BlockEnd \/ Label \/ Keep \/ Gap
        \/ gen.cls = "org" /\ \E v \in {-1, gen.sk, gen.sk + 16} : Org(v)
        \/ gen.cls = "data" /\ \E d \in {"defb", "defs", "defw"}, o \in {-1, 0, 2, 5}, vals \in DataVals : Defx(d, o, vals)
        \/ gen.cls = "bytes" /\ \E vals \in {<<237, 76>>, <<0>>, <<1, 2, 3>>} : BytesDir(vals)
        \/ gen.cls = "if" /\ \E c \in OfferedConds, k1 \in DirKinds(gen.n), f \in OfferedFlags, t1 \in DirTokPool(16 + gen.n),
                                hasno \in BOOLEAN : If(c, k1, f, t1, hasno)
        \/ gen.cls = "ifrem" /\ \E c \in OfferedConds, kind \in DirKinds(gen.n), o \in RemOffs, len \in RemLens, hasno \in BOOLEAN :
                                   IfRem(c, kind, o, len, hasno)
        \/ gen.cls = "ifdir" /\ \E c \in OfferedConds :
              \/ Can("org") /\ "org" \in gen.feat /\ \E v \in {-1, gen.sk, gen.sk + 16} :
                    IfDir(c, [l |-> "org", v |-> v], [gen EXCEPT !.hasorg = TRUE])
              \/ Can("lab") /\ IfDir(c, [l |-> "lab", name |-> "LB" \o ToString(gen.nlab)], [gen EXCEPT !.haslab = TRUE, !.nlab = @ + 1])
              \/ Can("keep") /\ "keep" \in gen.feat /\ IfDir(c, [l |-> "keep"], [gen EXCEPT !.haskeep = TRUE])
              \/ IfDir(c, [l |-> "nowarn"], gen)
              \/ "data" \in gen.feat /\ \E d \in {"defb", "defs", "defw"}, o \in {-1, 0, 2} : \E vals \in DataValsOf(d) :
                    IfDir(c, [l |-> "data", d |-> d, addr |-> IF o = -1 THEN -1 ELSE gen.sk + o, vals |-> vals], gen)
              \/ Can("bytes") /\ "bytes" \in gen.feat /\ \E vals \in {<<237, 76>>, <<0>>, <<1, 2, 3>>} :
                    IfDir(c, [l |-> "bytes", vals |-> vals], [gen EXCEPT !.hasbytes = TRUE])
        \/ gen.cls = "ifdir" /\ \E c \in OptConds : IfDir(c, [l |-> "nowarn"], gen)

Spec == Init /\ [][Next]_<<prog, st, gen>>

-----------------------------------------------------------------------------
(* Invariants (SubFix_mc.cfg)                                                *)

Items == 1..Len(st.out)
End(it) == it.a + ItemSize(it)

TypeOK == /\ ModeOK(AsmMode, FixMode)
          /\ st.addr \in {-1} \cup Nat
          /\ \A i \in Items : st.out[i].a \in Nat /\ ItemSize(st.out[i]) > 0

\* The layout is a function of (file, mode): the incremental reader and the fold over the file agree,
\* and nothing else (base, case, -c, @nowarn) is consulted anywhere.
LayoutIsFunctionOfFileAndMode == st = Run(prog, AsmMode, FixMode)

\* Instructions follow one another: a placed instruction starts where its predecessor ends unless an @org
\* (or the start of the file) placed it, so two live instructions never share an address except by @org.
NoTwoOnOneAddress ==
  /\ \A i \in Items : i > 1 => st.out[i].jump \/ st.out[i].a = End(st.out[i - 1])
  /\ (\A i \in Items : i > 1 => ~st.out[i].jump) => \A i, j \in Items : i < j => End(st.out[i]) <= st.out[j].a

\* "overwrites any overlapping instructions": once an instruction has claimed a range of skool addresses with |,
\* no instruction line of that entry with an address in the range is placed any more
OverwriteRemoves ==
  \A i, j \in Items :
     (i < j /\ st.out[i].ov /\ st.out[i].ent = st.out[j].ent /\ st.out[j].sa # -1)
        => ~(st.out[j].sa >= st.out[i].va /\ st.out[j].sa < st.out[i].va + ItemSize(st.out[i]))

\* a label names one place
LabelTableIsAFunction ==
  \A p, q \in Labels(st) : p[1] = q[1] => p = q
\* ... and the skool address of an original instruction maps to the place of that instruction
AmapPointsAtItsInstruction ==
  \A i \in 1..Len(st.amap) : \E k \in Items : st.out[k].sa = st.amap[i][1] /\ st.out[k].a = st.amap[i][2]

\* In mode (0, 0) no directive is executed: the file's own instruction lines, in order, where the file says.
NoModeIsIdentity ==
  (AsmMode = 0 /\ FixMode = 0) =>
     /\ \A i \in Items : st.out[i].src = "orig"
     /\ st.dropped = 0
     /\ (\A k \in 2..Len(prog) : prog[k].l # "org") => \A i \in Items : st.out[i].sa = -1 \/ st.out[i].a = st.out[i].sa

\* Executing more kinds never executes fewer: modes are ordered as documented
ASSUME ModesMonotone ==
  \A k \in AllKinds : \A a1, a2, f1, f2 \in 0..3 :
     (a1 <= a2 /\ f1 <= f2 /\ Executed(k, a1, f1)) => Executed(k, a2, f2)

\* In a stationary layout no operand has to follow anything: relocation is the identity
StationaryKeepsOperands ==
  Stationary(st) => \A i \in Items : \A r \in Refs(st.out[i].tok) : Moved(st, r) = r

\* the three images differ only where @bytes / data directives say so
ImagesAgreeWithoutOverrides ==
  ((\A i \in Items : st.out[i].bv = <<>> /\ st.out[i].pd = <<>>) /\ Len(st.out) <= 4)
     => (Image(st, "asm") = Image(st, "bin") /\ Image(st, "bin") = Image(st, "data"))
=============================================================================
