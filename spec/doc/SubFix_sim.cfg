\* pattern C: -simulate writes files line by line; c04.py takes the final `prog` of every behaviour, renders it
\* to skool text and feeds it to the real skool2bin / skool2asm / skool2html in every mode.
SPECIFICATION Spec
CONSTANTS
  AsmMode = 3
  FixMode = 3
  Base = 40000
  MaxIns = 6
  MaxDirs = 3
  MaxLines = 26
  Kinds = {"isub", "ssub", "rsub", "ofix", "bfix", "rfix"}
  TokKinds = {"one", "ld8", "jp", "call", "ldhl", "lda", "jr", "djnz", "defw", "defb", "defm", "defs"}
  DirTokKinds = {"one", "ld8", "jp", "call", "ldhl", "lda", "jr", "djnz", "defw", "defb", "defm", "defs"}
  DirIns = 99
  Classes <- SimClasses
  FlagSets <- SimFlags
  TargetOffs = {0, 1, 2, 3, 4, 5, 6, 8, 4096}
  RemOffs = {0, 1, 2, 3}
  RemLens = {1, 2, 3}
  LabChoices = {TRUE, FALSE}
  IfConds <- AllConds
  MaxIfs = 4
  Rotate = TRUE
  FeatureSets <- SimFeatures
  Ctls = {"c", "b", " ", "*"}
INVARIANT TypeOK
CHECK_DEADLOCK FALSE
