SPECIFICATION Spec
CONSTANTS
  MaxTop = 8
  MaxBlocks = 1
  MaxSubs = 4
  MaxStmts = 1
  MaxNotes = 1
  MaxDirs = 0
  MaxNons = 0
  WordCounts = {2}
  GenBlockTypes = {"b", "c"}
  GenNoteKinds = {"M"}
  GenSubTypes = {"B", "C"}
  Rich = 0
  Terse = 2
  Phased = TRUE
CHECK_DEADLOCK FALSE
