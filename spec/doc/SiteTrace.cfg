SPECIFICATION TraceSpec
CONSTANTS
  MaxEntries = 0
  MaxRefs = 0
  Types = {}
  Pts = {}
  Layouts = {}
  AnchorKinds = {}
  Ancs = {}
  Deviation = "none"
CHECK_DEADLOCK FALSE
INVARIANT TraceTypeOK
