INIT Init
NEXT Next
INVARIANT Inv
CHECK_DEADLOCK FALSE
