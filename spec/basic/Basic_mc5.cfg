CONSTANT MaxLen = 5
INIT Init
NEXT Next
INVARIANT Inv
CHECK_DEADLOCK FALSE
