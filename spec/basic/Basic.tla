------------------------------- MODULE Basic -------------------------------
(***************************************************************************)
(* Sinclair BASIC as it lies in a 48K ZX Spectrum's memory, and the queries *)
(* of snapinfo.py that read it (extension E02).                             *)
(*                                                                         *)
(* Sources (not skoolkit's code):                                           *)
(*  - ZX Spectrum BASIC programming manual, ch. 24 "The memory": layout of  *)
(*    the program area (PROG..VARS), of one line (line number, two bytes,   *)
(*    MORE significant byte first; length of text+ENTER, two bytes, less    *)
(*    significant first; text; ENTER = 0x0D), of a number inside a line     *)
(*    (its characters, then CHR$ 14, then five bytes), of the six kinds of  *)
(*    variable (the pictures of ch. 24), and of the display file;           *)
(*    the two forms of the five bytes (small integer 00 sign lo hi 00,      *)
(*    floating point: exponent+128, four mantissa bytes whose top bit is    *)
(*    the sign, mantissa in [1/2,1))                                        *)
(*  - ch. 25 "The system variables": VARS 23627, PROG 23635, E_LINE 23641   *)
(*  - appendix A "The character set": 0x10-0x15 colour controls with one    *)
(*    parameter byte, 0x16 AT and 0x17 TAB controls with two, 0x5E up-arrow,*)
(*    0x60 pound, 0x7F copyright, 0x80-0x8F block graphics, 0x90-0xA4 the   *)
(*    user-defined graphics A-U, 0xA5-0xFF the keyword tokens               *)
(*  - the LIST command (ch. 2; ROM routine OUT-LINE for the spacing rule):  *)
(*    a line is shown as its number and its text, the CHR$ 14 and the five  *)
(*    bytes after it are never shown                                        *)
(*  - skoolkit's sphinx/source/commands.rst, section snapinfo.py, and the   *)
(*    changelog entries on --basic / --variables / --peek / --find.         *)
(*                                                                         *)
(* What the documentation does not fix is named, not judged:                *)
(*   the spacing rule around keywords (RomRule / SkRule below), the escape  *)
(*   notation {0x..} for unprintable codes, the layout of a --variables     *)
(*   line, the layout of a --find result line.                              *)
(*                                                                         *)
(* Numbers.  TLC has 32-bit integers, so a number is kept as its normal     *)
(* form <<sg, hi, lo, ex>>: value = (-1)^sg * (hi*65536 + lo) * 2^ex with   *)
(* hi >= 32768 (32-bit mantissa with its top bit set), zero = <<0,0,0,0>>.  *)
(***************************************************************************)
EXTENDS Naturals, Integers, Sequences, FiniteSets

TOP == 65536                       \* addresses are 0..TOP-1
VARS == 23627
PROG == 23635
ELINE == 23641

----------------------------------------------------------------------------
(* Memory: a fill byte and a few explicit regions (later regions do not     *)
(* override earlier ones; the harness never overlaps them).                 *)
Region(base, bytes) == [base |-> base, bytes |-> bytes]
Peek(m, a) ==
  LET hits == {k \in 1..Len(m.regs) : a >= m.regs[k].base /\ a < m.regs[k].base + Len(m.regs[k].bytes)} IN
  IF hits = {} THEN m.fill
  ELSE LET k == CHOOSE k \in hits : \A j \in hits : k <= j IN m.regs[k].bytes[a - m.regs[k].base + 1]
Word(m, a) == Peek(m, a) + 256 * Peek(m, a + 1)
Bytes(m, a, n) == [k \in 1..n |-> Peek(m, a + k - 1)]

----------------------------------------------------------------------------
(* The character set *)
KW == <<
  <<82,78,68>>,  \* 165 RND
  <<73,78,75,69,89,36>>,  \* 166 INKEY$
  <<80,73>>,  \* 167 PI
  <<70,78>>,  \* 168 FN
  <<80,79,73,78,84>>,  \* 169 POINT
  <<83,67,82,69,69,78,36>>,  \* 170 SCREEN$
  <<65,84,84,82>>,  \* 171 ATTR
  <<65,84>>,  \* 172 AT
  <<84,65,66>>,  \* 173 TAB
  <<86,65,76,36>>,  \* 174 VAL$
  <<67,79,68,69>>,  \* 175 CODE
  <<86,65,76>>,  \* 176 VAL
  <<76,69,78>>,  \* 177 LEN
  <<83,73,78>>,  \* 178 SIN
  <<67,79,83>>,  \* 179 COS
  <<84,65,78>>,  \* 180 TAN
  <<65,83,78>>,  \* 181 ASN
  <<65,67,83>>,  \* 182 ACS
  <<65,84,78>>,  \* 183 ATN
  <<76,78>>,  \* 184 LN
  <<69,88,80>>,  \* 185 EXP
  <<73,78,84>>,  \* 186 INT
  <<83,81,82>>,  \* 187 SQR
  <<83,71,78>>,  \* 188 SGN
  <<65,66,83>>,  \* 189 ABS
  <<80,69,69,75>>,  \* 190 PEEK
  <<73,78>>,  \* 191 IN
  <<85,83,82>>,  \* 192 USR
  <<83,84,82,36>>,  \* 193 STR$
  <<67,72,82,36>>,  \* 194 CHR$
  <<78,79,84>>,  \* 195 NOT
  <<66,73,78>>,  \* 196 BIN
  <<79,82>>,  \* 197 OR
  <<65,78,68>>,  \* 198 AND
  <<60,61>>,  \* 199 <=
  <<62,61>>,  \* 200 >=
  <<60,62>>,  \* 201 <>
  <<76,73,78,69>>,  \* 202 LINE
  <<84,72,69,78>>,  \* 203 THEN
  <<84,79>>,  \* 204 TO
  <<83,84,69,80>>,  \* 205 STEP
  <<68,69,70,32,70,78>>,  \* 206 DEF FN
  <<67,65,84>>,  \* 207 CAT
  <<70,79,82,77,65,84>>,  \* 208 FORMAT
  <<77,79,86,69>>,  \* 209 MOVE
  <<69,82,65,83,69>>,  \* 210 ERASE
  <<79,80,69,78,32,35>>,  \* 211 OPEN #
  <<67,76,79,83,69,32,35>>,  \* 212 CLOSE #
  <<77,69,82,71,69>>,  \* 213 MERGE
  <<86,69,82,73,70,89>>,  \* 214 VERIFY
  <<66,69,69,80>>,  \* 215 BEEP
  <<67,73,82,67,76,69>>,  \* 216 CIRCLE
  <<73,78,75>>,  \* 217 INK
  <<80,65,80,69,82>>,  \* 218 PAPER
  <<70,76,65,83,72>>,  \* 219 FLASH
  <<66,82,73,71,72,84>>,  \* 220 BRIGHT
  <<73,78,86,69,82,83,69>>,  \* 221 INVERSE
  <<79,86,69,82>>,  \* 222 OVER
  <<79,85,84>>,  \* 223 OUT
  <<76,80,82,73,78,84>>,  \* 224 LPRINT
  <<76,76,73,83,84>>,  \* 225 LLIST
  <<83,84,79,80>>,  \* 226 STOP
  <<82,69,65,68>>,  \* 227 READ
  <<68,65,84,65>>,  \* 228 DATA
  <<82,69,83,84,79,82,69>>,  \* 229 RESTORE
  <<78,69,87>>,  \* 230 NEW
  <<66,79,82,68,69,82>>,  \* 231 BORDER
  <<67,79,78,84,73,78,85,69>>,  \* 232 CONTINUE
  <<68,73,77>>,  \* 233 DIM
  <<82,69,77>>,  \* 234 REM
  <<70,79,82>>,  \* 235 FOR
  <<71,79,32,84,79>>,  \* 236 GO TO
  <<71,79,32,83,85,66>>,  \* 237 GO SUB
  <<73,78,80,85,84>>,  \* 238 INPUT
  <<76,79,65,68>>,  \* 239 LOAD
  <<76,73,83,84>>,  \* 240 LIST
  <<76,69,84>>,  \* 241 LET
  <<80,65,85,83,69>>,  \* 242 PAUSE
  <<78,69,88,84>>,  \* 243 NEXT
  <<80,79,75,69>>,  \* 244 POKE
  <<80,82,73,78,84>>,  \* 245 PRINT
  <<80,76,79,84>>,  \* 246 PLOT
  <<82,85,78>>,  \* 247 RUN
  <<83,65,86,69>>,  \* 248 SAVE
  <<82,65,78,68,79,77,73,90,69>>,  \* 249 RANDOMIZE
  <<73,70>>,  \* 250 IF
  <<67,76,83>>,  \* 251 CLS
  <<68,82,65,87>>,  \* 252 DRAW
  <<67,76,69,65,82>>,  \* 253 CLEAR
  <<82,69,84,85,82,78>>,  \* 254 RETURN
  <<67,79,80,89>>   \* 255 COPY
>>
Keyword(c) == KW[c - 164]                    \* c in 165..255
IsToken(c) == c >= 165 /\ c <= 255
IsUdg(c) == c >= 144 /\ c <= 164
IsPrintable(c) == c >= 32 /\ c <= 127
\* the Unicode code point of a printable Spectrum character
Uni(c) == IF c = 94 THEN 8593 ELSE IF c = 96 THEN 163 ELSE IF c = 127 THEN 169 ELSE c
UdgLetter(c) == c - 79                        \* 144 -> 'A'
CtlParams(c) == IF c >= 16 /\ c <= 21 THEN 1 ELSE IF c = 22 \/ c = 23 THEN 2 ELSE 0

----------------------------------------------------------------------------
(* Five-byte numbers *)
RECURSIVE Pow2(_)
Pow2(n) == IF n = 0 THEN 1 ELSE 2 * Pow2(n - 1)
RECURSIVE BitLen(_)
BitLen(n) == IF n = 0 THEN 0 ELSE 1 + BitLen(n \div 2)
Zero == <<0, 0, 0, 0>>
IntNF(v) ==
  IF v = 0 THEN Zero
  ELSE LET a == IF v < 0 THEN 0 - v ELSE v
           l == BitLen(a) IN
       <<IF v < 0 THEN 1 ELSE 0, IF l <= 16 THEN a * Pow2(16 - l) ELSE a \div Pow2(l - 16), 0, l - 32>>
\* small integer form: 00, sign byte (00 or FF), value less significant byte first, 00 (two's complement for FF)
WellFormedNum(b) == b[1] # 0 \/ ((b[2] = 0 \/ b[2] = 255) /\ b[5] = 0)
IntValue(b) == IF b[2] = 0 THEN b[3] + 256 * b[4] ELSE (b[3] + 256 * b[4]) - 65536
NumNF(b) ==
  IF b[1] = 0 THEN IntNF(IntValue(b))
  ELSE <<b[2] \div 128, (128 + (b[2] % 128)) * 256 + b[3], b[4] * 256 + b[5], b[1] - 160>>
\* encoders (ch. 24: "the number is written ... exponent byte = e + 128")
EncInt(v) == LET w == IF v < 0 THEN v + 65536 ELSE v IN <<0, IF v < 0 THEN 255 ELSE 0, w % 256, w \div 256, 0>>
EncFloat(nf) == <<nf[4] + 160, ((nf[2] \div 256) - 128) + 128 * nf[1], nf[2] % 256, nf[3] \div 256, nf[3] % 256>>
NormalNF(nf) == nf = Zero \/ (nf[1] \in {0, 1} /\ nf[2] \in 32768..65535 /\ nf[3] \in 0..65535)
\* nearness of two normal forms (what "the digits denote the number" can mean at 32 bits of mantissa)
AbsDiff(x, y) == IF x < y THEN y - x ELSE x - y
\* "close": equal, or one unit apart in the last of the 32 mantissa bits
NFClose(x, y) == x = y \/ (x # Zero /\ y # Zero /\ x[1] = y[1] /\ x[4] = y[4] /\ x[2] = y[2] /\ AbsDiff(x[3], y[3]) <= 1)
\* "grossly different": not within a factor 1 +- 2^-14 of each other (zero against anything of at least 2^-14)
NFGross(x, y) ==
  IF x = Zero /\ y = Zero THEN FALSE
  ELSE IF x = Zero THEN y[4] >= -45
  ELSE IF y = Zero THEN x[4] >= -45
  ELSE IF x[1] # y[1] THEN TRUE
  ELSE IF x[4] = y[4] THEN AbsDiff(x[2], y[2]) >= 2
  ELSE IF AbsDiff(x[4], y[4]) >= 2 THEN TRUE
  ELSE LET a == IF x[4] < y[4] THEN x ELSE y          \* the one with the smaller exponent
           b == IF x[4] < y[4] THEN y ELSE x IN
       ~(a[2] >= 65534 /\ b[2] <= 32769)

----------------------------------------------------------------------------
(* Items: the units a line's text is made of *)
It(k, code, par) == [k |-> k, code |-> code, par |-> par]
CharItem(c) ==
  IF c = 32 THEN It("sp", 32, <<>>)
  ELSE IF c >= 33 /\ c <= 127 THEN It("chr", c, <<>>)
  ELSE IF IsUdg(c) THEN It("udg", c, <<>>)
  ELSE IF IsToken(c) THEN It("tok", c, <<>>)
  ELSE It("raw", c, <<>>)                    \* 0..31 and the block graphics 128..143
\* the text of a line: number markers and control codes take their bytes with them
RECURSIVE LItems(_, _)
LItems(b, i) ==
  IF i > Len(b) THEN <<>>
  ELSE LET c == b[i] IN
    IF c = 14 /\ i + 5 <= Len(b) THEN <<It("num", 14, SubSeq(b, i + 1, i + 5))>> \o LItems(b, i + 6)
    ELSE IF CtlParams(c) > 0 /\ i + CtlParams(c) <= Len(b)
      THEN <<It("ctl", c, SubSeq(b, i + 1, i + CtlParams(c)))>> \o LItems(b, i + 1 + CtlParams(c))
    ELSE <<CharItem(c)>> \o LItems(b, i + 1)
LineItems(b) == LItems(b, 1)
\* the characters of a string (variables area): one code at a time
StrItems(b) == [k \in 1..Len(b) |-> CharItem(b[k])]
\* encoder
ItemBytes(it) == IF it.k = "num" \/ it.k = "ctl" THEN <<it.code>> \o it.par ELSE <<it.code>>
RECURSIVE EncItems(_)
EncItems(its) == IF its = <<>> THEN <<>> ELSE ItemBytes(Head(its)) \o EncItems(Tail(its))
\* an item sequence that is the parse of its own encoding
Incomplete(it) == it.k = "raw" /\ (it.code = 14 \/ CtlParams(it.code) > 0)
CanonItems(its) == \A k \in 1..Len(its) : LET it == its[k] IN
  /\ it.k \in {"sp", "chr", "udg", "tok", "raw", "num", "ctl"}
  /\ it.k = "sp" => it.code = 32 /\ it.par = <<>>
  /\ it.k = "chr" => it.code \in 33..127 /\ it.par = <<>>
  /\ it.k = "udg" => IsUdg(it.code) /\ it.par = <<>>
  /\ it.k = "tok" => IsToken(it.code) /\ it.par = <<>>
  /\ it.k = "raw" => (it.code \in 0..31 \/ it.code \in 128..143) /\ it.par = <<>> /\ ~Incomplete(it)
  /\ it.k = "num" => it.code = 14 /\ Len(it.par) = 5
  /\ it.k = "ctl" => CtlParams(it.code) > 0 /\ Len(it.par) = CtlParams(it.code)

----------------------------------------------------------------------------
(* The program area *)
Line(no, body, at) == [no |-> no, body |-> body, at |-> at]
RECURSIVE LinesFrom(_, _, _)
LinesFrom(m, a, vars) ==
  IF a >= vars THEN <<>>
  ELSE IF a + 4 > TOP \/ a + 4 + Word(m, a + 2) > TOP \/ a + 4 + Word(m, a + 2) > vars \/ Word(m, a + 2) = 0
    THEN <<Line(-1, <<>>, a)>>                \* not a whole line: the area is ill-formed from here on
  ELSE LET n == Word(m, a + 2) IN
    <<Line(256 * Peek(m, a) + Peek(m, a + 1), Bytes(m, a + 4, n), a)>> \o LinesFrom(m, a + 4 + n, vars)
Lines(m, prog, vars) == LinesFrom(m, prog, vars)
ProgLines(m) == Lines(m, Word(m, PROG), Word(m, VARS))
LineText(ln) == SubSeq(ln.body, 1, Len(ln.body) - 1)
\* a line as the BASIC editor makes them: ends with its only ENTER, nothing cut short, number below 16384
WellFormedLine(ln) ==
  /\ ln.no >= 0 /\ ln.no < 16384
  /\ ln.body[Len(ln.body)] = 13
  /\ \A it \in {LineItems(LineText(ln))[k] : k \in 1..Len(LineItems(LineText(ln)))} :
       ~(it.k = "raw" /\ it.code = 13) /\ ~Incomplete(it)
\* the number of leading lines that are well-formed
RECURSIVE WFPrefix(_, _)
WFPrefix(ls, k) == IF k > Len(ls) \/ ~WellFormedLine(ls[k]) THEN k - 1 ELSE WFPrefix(ls, k + 1)
EncLine(no, its) == LET t == EncItems(its) IN <<no \div 256, no % 256, (Len(t) + 1) % 256, (Len(t) + 1) \div 256>> \o t \o <<13>>

----------------------------------------------------------------------------
(* Listing text.  Characters are Unicode code points.                       *)
(* A spacing rule says where LIST puts a space around a keyword:            *)
(*   "loose" every keyword may or may not have one space before and after   *)
(*           it, and the line number may or may not be followed by one;     *)
(*           this is all that is judged                                     *)
(*   "rom"   the 48K ROM (PO-TOKENS): a space before a keyword from OR      *)
(*           (197) on that begins with a letter unless the last character   *)
(*           was a space; a space after every keyword from FN (168) on that *)
(*           ends with a letter or $                                        *)
(*   "sk"    what snapinfo is observed to do: as "rom", but no space after  *)
(*           THEN, a space after the line number, and no space before the   *)
(*           first keyword                                                  *)
(* st = "a leading space is allowed now".                                   *)
Last(s) == s[Len(s)]
LeadWanted(c) == c >= 197 /\ Keyword(c)[1] >= 65
TrailRom(c) == c >= 168 /\ (Last(Keyword(c)) = 36 \/ Last(Keyword(c)) >= 65)
Trail(R, c) == IF R = "sk" THEN TrailRom(c) /\ c # 203 ELSE TrailRom(c)
StAfter(R, it, st) ==
  IF it.k = "sp" THEN FALSE
  ELSE IF it.k = "chr" \/ it.k = "udg" THEN TRUE
  ELSE IF it.k = "tok" THEN ~Trail(R, it.code)
  ELSE IF it.k = "raw" /\ R = "sk" THEN it.code >= 128
  ELSE st
UdgText(c) == <<123, 85, 68, 71, 45, UdgLetter(c), 125>>           \* {UDG-A}
HexDigit(d) == IF d < 10 THEN 48 + d ELSE 55 + d
Hex2(v) == <<HexDigit(v \div 16), HexDigit(v % 16)>>
RECURSIVE HexAll(_)
HexAll(b) == IF b = <<>> THEN <<>> ELSE Hex2(Head(b)) \o HexAll(Tail(b))
Escape(b) == <<123, 48, 120>> \o HexAll(b) \o <<125>>               \* {0x1005}: the observable notation, not documented

RECURSIVE SpaceRun(_, _)
SpaceRun(ob, j) == IF j <= Len(ob) /\ ob[j] = 32 THEN 1 + SpaceRun(ob, j + 1) ELSE 0
StartsWith(ob, j, t) == j + Len(t) - 1 <= Len(ob) /\ \A k \in 1..Len(t) : ob[j + k - 1] = t[k]
RECURSIVE FindClose(_, _)
FindClose(ob, j) == IF j > Len(ob) THEN 0 ELSE IF ob[j] = 125 THEN j ELSE FindClose(ob, j + 1)
HexVal(ch) == IF ch >= 48 /\ ch <= 57 THEN ch - 48 ELSE IF ch >= 65 /\ ch <= 70 THEN ch - 55 ELSE IF ch >= 97 /\ ch <= 102 THEN ch - 87 ELSE -1
\* the bytes named by an escape's content "0xHH..", or <<-1>> when it is not of that form
EscBytes(t) ==
  IF Len(t) < 4 \/ (Len(t) % 2) = 1 \/ t[1] # 48 \/ t[2] # 120 \/ \E k \in 3..Len(t) : HexVal(t[k]) < 0 THEN <<-1>>
  ELSE [k \in 1..((Len(t) - 2) \div 2) |-> 16 * HexVal(t[2 * k + 1]) + HexVal(t[2 * k + 2])]

\* One solid (non-space) item against the observed text at j.
\* Result <<next index (0 = mismatch), drift (0/1)>>.  nums = the numeric groups {..} the harness found in the
\* observed text: [pos, end, nf].
NumAt(nums, j) == {k \in 1..Len(nums) : nums[k].pos = j}
Shown(ob, nums, j) == j <= Len(ob) /\ ob[j] = 123 /\ NumAt(nums, j) # {}
Solid(R, it, ob, nums, j) ==
  IF j > Len(ob) THEN <<0, 0>>
  ELSE IF it.k = "chr" THEN IF ob[j] = Uni(it.code) THEN <<j + 1, 0>> ELSE <<0, 0>>
  ELSE IF it.k = "udg" THEN IF StartsWith(ob, j, UdgText(it.code)) THEN <<j + 7, 0>> ELSE <<0, 0>>
  ELSE IF it.k = "tok" THEN IF StartsWith(ob, j, Keyword(it.code)) THEN <<j + Len(Keyword(it.code)), 0>> ELSE <<0, 0>>
  ELSE IF it.k = "num" THEN
    LET k == CHOOSE k \in NumAt(nums, j) : TRUE IN
    IF nums[k].nf = NumNF(it.par) THEN <<nums[k].end + 1, 0>>
    ELSE IF ~WellFormedNum(it.par) THEN <<nums[k].end + 1, 1>>       \* five bytes that are no number: any value shown
    ELSE <<0, 0>>
  ELSE \* raw, ctl: an escape group naming exactly the bytes of the item
    LET e == IF ob[j] = 123 THEN FindClose(ob, j + 1) ELSE 0 IN
    IF e = 0 THEN <<0, 0>>
    ELSE LET hb == EscBytes(SubSeq(ob, j + 1, e - 1)) IN
      IF hb = ItemBytes(it) THEN <<e + 1, IF R # "loose" /\ SubSeq(ob, j, e) # Escape(ItemBytes(it)) THEN 1 ELSE 0>>
      ELSE IF hb = <<-1>> /\ R = "loose" THEN <<e + 1, 1>>
      ELSE <<0, 0>>

\* hidden-number verdicts: cls[n] for the n-th number marker of the line is "same" (the digits before the marker
\* denote the five bytes), "gross" (they denote something else) or "free"
Fail(v) == [v |-> v, d |-> 0]
RECURSIVE MatchFrom(_, _, _, _, _, _, _, _, _, _, _, _)
MatchFrom(R, its, ob, nums, cls, i, j, man, opt, st, nn, dr) ==
  IF i > Len(its) THEN
    LET s == SpaceRun(ob, j) IN
    IF j + s <= Len(ob) THEN Fail("extra-text")
    ELSE IF s < man THEN Fail("space-missing") ELSE IF s > man + opt THEN Fail("space-extra") ELSE [v |-> "ok", d |-> dr]
  ELSE LET it == its[i] IN
  IF it.k = "sp" THEN MatchFrom(R, its, ob, nums, cls, i + 1, j, man + 1, opt, FALSE, nn, dr)
  ELSE LET s == SpaceRun(ob, j)
           shown == it.k = "num" /\ Shown(ob, nums, j + s)
           cl == IF it.k = "num" /\ nn + 1 <= Len(cls) THEN cls[nn + 1] ELSE "free" IN
  IF it.k = "num" /\ ~shown THEN
    IF cl = "gross" /\ WellFormedNum(it.par) THEN Fail("num-not-shown")
    ELSE MatchFrom(R, its, ob, nums, cls, i + 1, j, man, opt, st, nn + 1, dr)
  ELSE IF it.k = "num" /\ cl = "same" THEN Fail("num-not-hidden")
  ELSE
    LET lead == IF it.k = "tok" THEN (IF R = "loose" THEN 1 ELSE IF st /\ LeadWanted(it.code) THEN 1 ELSE 0) ELSE 0
        man2 == IF R = "loose" THEN man ELSE man + lead
        opt2 == IF R = "loose" THEN opt + lead ELSE opt IN
    IF s < man2 THEN Fail("space-missing")
    ELSE IF s > man2 + opt2 THEN Fail("space-extra")
    ELSE LET r == Solid(R, it, ob, nums, j + s) IN
      IF r[1] = 0 THEN Fail(IF it.k = "num" THEN "num-value" ELSE IF it.k = "raw" \/ it.k = "ctl" THEN "escape" ELSE it.k)
      ELSE LET tr == IF it.k = "tok" THEN (IF R = "loose" THEN 1 ELSE IF Trail(R, it.code) THEN 1 ELSE 0) ELSE 0 IN
        MatchFrom(R, its, ob, nums, cls, i + 1, r[1], IF R = "loose" THEN 0 ELSE tr, IF R = "loose" THEN tr ELSE 0,
                  StAfter(R, it, st), IF it.k = "num" THEN nn + 1 ELSE nn, dr + r[2])
\* text of a line / of a string against observed characters from index j on
\* (man0 / opt0: spaces that must / may precede the text, e.g. the separator after the line number)
MatchText(R, its, ob, nums, cls, j, man0, opt0, st0) == MatchFrom(R, its, ob, nums, cls, 1, j, man0, opt0, st0, 0, 0)

\* the exact text under a rule, for lines without number markers (used by the model check of the matcher)
RECURSIVE Render(_, _, _, _)
Render(R, its, i, st) ==
  IF i > Len(its) THEN <<>>
  ELSE LET it == its[i]
           t == IF it.k = "sp" THEN <<32>>
                ELSE IF it.k = "chr" THEN <<Uni(it.code)>>
                ELSE IF it.k = "udg" THEN UdgText(it.code)
                ELSE IF it.k = "tok" THEN (IF st /\ LeadWanted(it.code) THEN <<32>> ELSE <<>>) \o Keyword(it.code)
                                           \o (IF Trail(R, it.code) THEN <<32>> ELSE <<>>)
                ELSE IF it.k = "num" THEN <<>>
                ELSE Escape(ItemBytes(it)) IN
       t \o Render(R, its, i + 1, StAfter(R, it, st))

\* decimal digits of a natural number
RECURSIVE Dec(_)
Dec(n) == IF n < 10 THEN <<48 + n>> ELSE Dec(n \div 10) \o <<48 + (n % 10)>>
PadL(t, w) == [k \in 1..(IF Len(t) < w THEN w - Len(t) ELSE 0) |-> 32] \o t
\* the line number field of a listing: right-justified in four columns (ROM OUT-NUM-2 and the observed "{:>4}")
NoField(no) == PadL(Dec(no), 4)
ListLine(R, ln) == NoField(ln.no) \o (IF R = "sk" THEN <<32>> ELSE <<>>) \o Render(R, LineItems(LineText(ln)), 1, R = "rom")

\* a digit run just before item i (for cross-checking what the harness says the digits denote)
RECURSIVE DigitsBefore(_, _, _)
DigitsBefore(its, i, base) ==
  IF i >= 1 /\ its[i].k = "chr" /\ its[i].code >= 48 /\ its[i].code < 48 + base THEN DigitsBefore(its, i - 1, base) \o <<its[i].code - 48>>
  ELSE <<>>
RECURSIVE DigitsValue(_, _)
DigitsValue(ds, base) == IF ds = <<>> THEN 0 ELSE DigitsValue(SubSeq(ds, 1, Len(ds) - 1), base) * base + ds[Len(ds)]

----------------------------------------------------------------------------
(* The variables area (ch. 24): from VARS up to the byte 0x80; E_LINE is    *)
(* the address after that byte.                                             *)
Var(kind, name, dims, nums, strs, line, stmt) ==
  [kind |-> kind, name |-> name, dims |-> dims, nums |-> nums, strs |-> strs, line |-> line, stmt |-> stmt]
BadVar == Var("bad", <<>>, <<>>, <<>>, <<>>, 0, 0)
RECURSIVE Product(_)
Product(d) == IF d = <<>> THEN 1 ELSE Head(d) * Product(Tail(d))
\* end of a long name: the first byte from a on with bit 7 set
RECURSIVE NameEnd(_, _)
NameEnd(m, a) == IF a >= TOP THEN TOP ELSE IF Peek(m, a) >= 128 THEN a ELSE NameEnd(m, a + 1)
RECURSIVE VarsFrom(_, _)
VarsFrom(m, a) ==
  IF a >= TOP THEN <<BadVar>>
  ELSE LET b == Peek(m, a)
           t == b \div 32
           l == 96 + (b % 32) IN
  IF b = 128 THEN <<>>
  ELSE IF t < 2 \/ l < 97 \/ l > 122 THEN <<BadVar>>
  ELSE IF t = 3 THEN                          \* 011: number, one-letter name
    IF a + 6 > TOP THEN <<BadVar>> ELSE <<Var("num", <<l>>, <<>>, <<Bytes(m, a + 1, 5)>>, <<>>, 0, 0)>> \o VarsFrom(m, a + 6)
  ELSE IF t = 5 THEN                          \* 101: number, longer name; the last character has bit 7 set
    LET e == NameEnd(m, a + 1) IN
    IF e + 6 > TOP THEN <<BadVar>>
    ELSE <<Var("num", <<l>> \o [k \in 1..(e - a) |-> Peek(m, a + k) % 128], <<>>, <<Bytes(m, e + 1, 5)>>, <<>>, 0, 0)>> \o VarsFrom(m, e + 6)
  ELSE IF t = 2 THEN                          \* 010: string; length, then the characters
    IF a + 3 > TOP \/ a + 3 + Word(m, a + 1) > TOP THEN <<BadVar>>
    ELSE <<Var("str", <<l>>, <<>>, <<>>, <<Bytes(m, a + 3, Word(m, a + 1))>>, 0, 0)>> \o VarsFrom(m, a + 3 + Word(m, a + 1))
  ELSE IF t = 7 THEN                          \* 111: FOR-NEXT control variable
    IF a + 19 > TOP THEN <<BadVar>>
    ELSE <<Var("for", <<l>>, <<>>, <<Bytes(m, a + 1, 5), Bytes(m, a + 6, 5), Bytes(m, a + 11, 5)>>, <<>>, Word(m, a + 16), Peek(m, a + 18))>>
         \o VarsFrom(m, a + 19)
  ELSE                                        \* 100 array of numbers, 110 array of characters
    IF a + 4 > TOP \/ a + 3 + Word(m, a + 1) > TOP THEN <<BadVar>>
    ELSE LET len == Word(m, a + 1)
             nd == Peek(m, a + 3)
             dims == [k \in 1..nd |-> Word(m, a + 2 + 2 * k)]
             el == a + 4 + 2 * nd IN
      IF nd = 0 \/ 1 + 2 * nd > len \/ \E k \in 1..nd : dims[k] = 0 \/ dims[k] > 255 THEN <<BadVar>>
      ELSE IF t = 4 THEN
        IF len # 1 + 2 * nd + 5 * Product(dims) THEN <<BadVar>>
        ELSE <<Var("numarr", <<l>>, dims, [k \in 1..Product(dims) |-> Bytes(m, el + 5 * (k - 1), 5)], <<>>, 0, 0)>> \o VarsFrom(m, a + 3 + len)
      ELSE
        IF len # 1 + 2 * nd + Product(dims) THEN <<BadVar>>
        ELSE LET w == dims[nd] IN
          <<Var("chrarr", <<l>>, dims, <<>>, [k \in 1..(Product(dims) \div w) |-> Bytes(m, el + w * (k - 1), w)], 0, 0)>> \o VarsFrom(m, a + 3 + len)
Variables(m, vars) == VarsFrom(m, vars)
WellFormedVars(vs) == \A k \in 1..Len(vs) : vs[k].kind # "bad" /\ \A n \in 1..Len(vs[k].nums) : WellFormedNum(vs[k].nums[n])
\* encoder of one variable (letter index 1..26 = a..z)
RECURSIVE Flatten(_)
Flatten(ss) == IF ss = <<>> THEN <<>> ELSE Head(ss) \o Flatten(Tail(ss))
DimBytes(dims) == Flatten([k \in 1..Len(dims) |-> <<dims[k] % 256, dims[k] \div 256>>])
W2(n) == <<n % 256, n \div 256>>
EncVar(v) ==
  LET li == v.name[1] - 96 IN
  IF v.kind = "num" /\ Len(v.name) = 1 THEN <<96 + li>> \o v.nums[1]
  ELSE IF v.kind = "num" THEN <<160 + li>> \o SubSeq(v.name, 2, Len(v.name) - 1) \o <<128 + Last(v.name)>> \o v.nums[1]
  ELSE IF v.kind = "str" THEN <<64 + li>> \o W2(Len(v.strs[1])) \o v.strs[1]
  ELSE IF v.kind = "for" THEN <<224 + li>> \o v.nums[1] \o v.nums[2] \o v.nums[3] \o W2(v.line) \o <<v.stmt>>
  ELSE IF v.kind = "numarr" THEN <<128 + li>> \o W2(1 + 2 * Len(v.dims) + 5 * Len(v.nums)) \o <<Len(v.dims)>> \o DimBytes(v.dims) \o Flatten(v.nums)
  ELSE <<192 + li>> \o W2(1 + 2 * Len(v.dims) + Len(Flatten(v.strs))) \o <<Len(v.dims)>> \o DimBytes(v.dims) \o Flatten(v.strs)

----------------------------------------------------------------------------
(* --peek A[-B[-C]] and --word A[-B[-C]]: "addresses A TO B STEP C" (C >= 1; *)
(* B defaults to A, C to 1 as in BASIC; that --word steps by 2 when C is    *)
(* not given is observed, not documented), one line per address in the      *)
(* documented default formats                                               *)
(*   {address:>5} {address:04X}: {value:>3}  {value:02X}  {value:08b}  {char}*)
(*   {address:>5} {address:04X}: {value:>5}  {value:04X}                     *)
Addresses(A, B, C) == IF B < A THEN <<>> ELSE [k \in 1..(((B - A) \div C) + 1) |-> A + (k - 1) * C]
RECURSIVE HexW(_, _)
HexW(n, w) == IF w = 0 THEN <<>> ELSE HexW(n \div 16, w - 1) \o <<HexDigit(n % 16)>>
RECURSIVE BinW(_, _)
BinW(n, w) == IF w = 0 THEN <<>> ELSE BinW(n \div 2, w - 1) \o <<48 + (n % 2)>>
PeekPrefix(a, v) == PadL(Dec(a), 5) \o <<32>> \o HexW(a, 4) \o <<58, 32>> \o PadL(Dec(v), 3) \o <<32, 32>> \o HexW(v, 2)
                    \o <<32, 32>> \o BinW(v, 8) \o <<32, 32>>
\* "shows UDGs and BASIC tokens" (changelog 6.0); the notation for a UDG is the observable one
PeekChar(v) == IF IsPrintable(v) THEN <<Uni(v)>> ELSE IF IsUdg(v) THEN <<85, 68, 71, 45, UdgLetter(v)>>
               ELSE IF IsToken(v) THEN Keyword(v) ELSE <<>>
PeekCharJudged(v) == IsPrintable(v) \/ IsUdg(v) \/ IsToken(v)
WordLine(a, w) == PadL(Dec(a), 5) \o <<32>> \o HexW(a, 4) \o <<58, 32>> \o PadL(Dec(w), 5) \o <<32, 32>> \o HexW(w, 4)

----------------------------------------------------------------------------
(* --find A[,B...[-M[-N]]]: "the byte sequence A,B... with distance ranging *)
(* from M to N (default=1) between bytes"; --find-text: the codes of the    *)
(* characters; --find-tile X,Y: the eight bytes of the character cell (X,Y) *)
(* of the display file (ch. 24: address 16384 + 2048*(Y div 8) + 32*(Y mod  *)
(* 8) + X, rows 256 bytes apart).  A result is <<address, distance>>.       *)
MatchAt(m, seq, a, s, hi) == \A k \in 1..Len(seq) : a + (k - 1) * s <= hi /\ Peek(m, a + (k - 1) * s) = seq[k]
FindSet(m, seq, steps, lo, hi) == {c \in (lo..hi) \X steps : MatchAt(m, seq, c[1], c[2], hi)}
\* the same set, computed from the explicit regions (needs a sequence byte that differs from the fill byte)
Anchor(m, seq) == CHOOSE k \in 1..Len(seq) : seq[k] # m.fill /\ \A j \in 1..(k - 1) : seq[j] = m.fill
RegionAddrs(m) == UNION {m.regs[k].base .. (m.regs[k].base + Len(m.regs[k].bytes) - 1) : k \in 1..Len(m.regs)}
FindFast(m, seq, steps, lo, hi) ==
  LET k0 == Anchor(m, seq)
      cands == {<<p - (k0 - 1) * s, s>> : p \in RegionAddrs(m), s \in steps} IN
  {c \in cands : c[1] >= lo /\ c[1] <= hi /\ MatchAt(m, seq, c[1], c[2], hi)}
TileAddr(x, y) == 16384 + 2048 * (y \div 8) + 32 * (y % 8) + x
TileBytes(m, base, x, y) == [k \in 1..8 |-> Peek(m, (base - 16384) + TileAddr(x, y) + 256 * (k - 1))]
=============================================================================
