------------------------------ MODULE BasicMC ------------------------------
(* Pattern A/D: TLC enumerates small instances and checks that the          *)
(* specification's own encoders and decoders, renderer and matcher, and the *)
(* two definitions of a search result agree with each other.                *)
EXTENDS Basic, TLC

CONSTANT MaxLen
VARIABLES tag, x

\* ---- item sequences up to length 4 over an alphabet with one item of every shape --------------------------
Alpha == <<
  It("sp", 32, <<>>), It("chr", 49, <<>>), It("chr", 123, <<>>), It("chr", 96, <<>>),
  It("tok", 165, <<>>), It("tok", 196, <<>>), It("tok", 203, <<>>), It("tok", 245, <<>>), It("tok", 211, <<>>),
  It("udg", 144, <<>>), It("raw", 6, <<>>), It("raw", 128, <<>>), It("ctl", 16, <<7>>),
  It("ctl", 22, <<1, 13>>), It("num", 14, <<0, 0, 13, 0, 0>>) >>
NA == Len(Alpha)
Idx(n) == IF n = 0 THEN {<<>>} ELSE [1..n -> 1..NA]
ItemsOf(ix) == [k \in 1..Len(ix) |-> Alpha[ix[k]]]
MemOf(base, bytes) == [fill |-> 0, regs |-> <<Region(base, bytes)>>]
W(n) == <<n % 256, n \div 256>>

ItemsOK(its) ==
  LET b == EncItems(its)
      ln == EncLine(9999, its)
      \* PROG = 23755; VARS right after the line, holding the end marker only
      m == [fill |-> 0, regs |-> <<Region(VARS, W(23755 + Len(ln))), Region(PROG, W(23755)), Region(23755, ln \o <<128>>)>>]
      ls == ProgLines(m)
      romt == Render("rom", its, 1, TRUE)
      skt == Render("sk", its, 1, FALSE) IN
  /\ CanonItems(its)
  /\ LineItems(b) = its
  /\ \A k \in 1..Len(b) : b[k] \in 0..255
  /\ Len(ls) = 1 /\ ls[1].no = 9999 /\ ls[1].at = 23755 /\ WellFormedLine(ls[1]) /\ LineItems(LineText(ls[1])) = its
  /\ WFPrefix(ls, 1) = 1
  /\ Variables(m, Word(m, VARS)) = <<>>
  \* the renderer and the matcher agree, exactly under each rule and loosely across rules
  /\ MatchText("rom", its, romt, <<>>, <<>>, 1, 0, 0, TRUE) = [v |-> "ok", d |-> 0]
  /\ MatchText("sk", its, skt, <<>>, <<>>, 1, 0, 0, FALSE) = [v |-> "ok", d |-> 0]
  /\ MatchText("loose", its, romt, <<>>, <<>>, 1, 0, 0, TRUE).v = "ok"
  /\ MatchText("loose", its, skt, <<>>, <<>>, 1, 0, 0, TRUE).v = "ok"
  \* and the matcher is not vacuous: one more or one fewer character is refused
  /\ MatchText("loose", its, skt \o <<65>>, <<>>, <<>>, 1, 0, 0, TRUE).v # "ok"
  /\ (Len(skt) > 0 /\ Last(skt) # 32) => MatchText("loose", its, SubSeq(skt, 1, Len(skt) - 1), <<>>, <<>>, 1, 0, 0, TRUE).v # "ok"

\* ---- two lines, the second one's number above 9999, variables after them ------------------------------------
TwoOK(ix) ==
  LET a == ItemsOf(<<ix[1]>>)
      b == ItemsOf(<<ix[2]>>)
      l1 == EncLine(0, a)
      l2 == EncLine(16383, b)
      v == Var("num", <<120>>, <<>>, <<EncInt(-3)>>, <<>>, 0, 0)
      at == 65536 - (Len(l1) + Len(l2) + 7)          \* the area ends with the last byte of memory
      m == [fill |-> 255, regs |-> <<Region(VARS, W(at + Len(l1) + Len(l2))), Region(PROG, W(at)), Region(at, l1 \o l2 \o EncVar(v) \o <<128>>)>>]
      ls == ProgLines(m) IN
  /\ Len(ls) = 2 /\ ls[1].no = 0 /\ ls[2].no = 16383 /\ WFPrefix(ls, 1) = 2
  /\ LineItems(LineText(ls[1])) = a /\ LineItems(LineText(ls[2])) = b
  /\ Variables(m, Word(m, VARS)) = <<v>>
  /\ ListLine("sk", ls[2]) = <<49, 54, 51, 56, 51, 32>> \o Render("sk", b, 1, FALSE)
  /\ ListLine("rom", ls[1]) = <<32, 32, 32, 48>> \o Render("rom", a, 1, TRUE)

\* ---- numbers -------------------------------------------------------------------------------------------------
IntOK(v) ==
  /\ WellFormedNum(EncInt(v)) /\ NumNF(EncInt(v)) = IntNF(v) /\ NormalNF(IntNF(v))
  /\ \A k \in 1..5 : EncInt(v)[k] \in 0..255
  /\ (v # 0 => NumNF(EncFloat(IntNF(v))) = IntNF(v))           \* both forms of the same value have one normal form
FloatSpace == {<<sg, hi, lo, ex>> : sg \in {0, 1}, hi \in {32768, 32769, 40000, 49152, 65535}, lo \in {0, 1, 255, 256, 65535}, ex \in -159..95}
FloatOK(nf) ==
  LET b == EncFloat(nf) IN
  /\ NormalNF(nf) /\ \A k \in 1..5 : b[k] \in 0..255
  /\ b[1] # 0 /\ WellFormedNum(b) /\ NumNF(b) = nf /\ EncFloat(NumNF(b)) = b
  /\ NFClose(nf, nf) /\ ~NFGross(nf, nf)
  /\ NFGross(nf, <<nf[1], nf[2], nf[3], nf[4] + 1>>)                  \* twice the value
  /\ ~NFGross(<<0, 65535, 65535, 0>>, <<0, 32768, 0, 1>>)               \* 2^32-1 against 2^32
  /\ \A d \in {-1, 1} : (nf[3] + d \in 0..65535) => NFClose(nf, <<nf[1], nf[2], nf[3] + d, nf[4]>>) /\ ~NFGross(nf, <<nf[1], nf[2], nf[3] + d, nf[4]>>)
  /\ \A d \in {-2, 2} : (nf[3] + d \in 0..65535) => ~NFClose(nf, <<nf[1], nf[2], nf[3] + d, nf[4]>>)
  /\ NFGross(nf, <<1 - nf[1], nf[2], nf[3], nf[4]>>) /\ (NFGross(nf, Zero) <=> nf[4] >= -45) /\ (NFGross(Zero, nf) <=> nf[4] >= -45)

\* ---- variables -------------------------------------------------------------------------------------------------
N1 == EncInt(7)
N2 == EncFloat(<<1, 49152, 1, -40>>)
VarSpace == {
  Var("num", <<97>>, <<>>, <<N1>>, <<>>, 0, 0), Var("num", <<122>>, <<>>, <<N2>>, <<>>, 0, 0),
  Var("num", <<97, 98>>, <<>>, <<N2>>, <<>>, 0, 0), Var("num", <<113, 49, 120, 57>>, <<>>, <<N1>>, <<>>, 0, 0),
  Var("str", <<97>>, <<>>, <<>>, << <<>> >>, 0, 0), Var("str", <<115>>, <<>>, <<>>, << <<65, 128, 13, 16, 255>> >>, 0, 0),
  Var("for", <<105>>, <<>>, <<N1, N2, EncInt(-1)>>, <<>>, 9999, 3),
  Var("numarr", <<97>>, <<1>>, <<N1>>, <<>>, 0, 0), Var("numarr", <<98>>, <<2, 3>>, <<N1, N2, N1, N1, N2, N2>>, <<>>, 0, 0),
  Var("chrarr", <<99>>, <<3>>, <<>>, << <<65, 66, 67>> >>, 0, 0),
  Var("chrarr", <<100>>, <<2, 2>>, <<>>, << <<65, 66>>, <<32, 200>> >>, 0, 0) }
VarsOK(p) ==
  LET b == EncVar(p[1]) \o EncVar(p[2]) \o <<128>>
      m == MemOf(30000, b) IN
  /\ \A k \in 1..Len(b) : b[k] \in 0..255
  /\ Variables(m, 30000) = <<p[1], p[2]>> /\ WellFormedVars(Variables(m, 30000))
  \* cut short by the end of memory: never a well-formed area
  /\ ~WellFormedVars(Variables(MemOf(65536 - (Len(b) - 1), b), 65536 - (Len(b) - 1)))

\* ---- searching: the definition and the region-driven computation agree on a small memory -----------------------
FindSpace == {<<base, bytes, seq>> : base \in {2, 5, 9}, bytes \in UNION {[1..n -> {0, 1, 2}] : n \in 1..3},
                                     seq \in {s \in UNION {[1..n -> {0, 1, 2}] : n \in 1..3} : \E k \in 1..Len(s) : s[k] # 0}}
FindOK(f) ==
  LET m == MemOf(f[1], f[2]) IN
  /\ FindFast(m, f[3], 1..3, 1, 11) = FindSet(m, f[3], 1..3, 1, 11)
  /\ FindFast(m, f[3], {1}, 0, 11) = FindSet(m, f[3], 1..1, 0, 11)

\* ---- formatting ---------------------------------------------------------------------------------------------------
FormatOK ==
  /\ PeekPrefix(23755, 234) \o PeekChar(234) = <<50, 51, 55, 53, 53, 32, 53, 67, 67, 66, 58, 32, 50, 51, 52, 32, 32, 69, 65, 32, 32,
                                                   49, 49, 49, 48, 49, 48, 49, 48, 32, 32, 82, 69, 77>>
  /\ WordLine(16384, 513) = <<49, 54, 51, 56, 52, 32, 52, 48, 48, 48, 58, 32, 32, 32, 53, 49, 51, 32, 32, 48, 50, 48, 49>>
  /\ Addresses(10, 20, 4) = <<10, 14, 18>> /\ Addresses(5, 5, 1) = <<5>> /\ Addresses(6, 5, 1) = <<>>
  /\ TileAddr(0, 0) = 16384 /\ TileAddr(31, 23) = 20735 /\ TileAddr(1, 8) = 18433
  /\ Len(KW) = 91 /\ Keyword(255) = <<67, 79, 80, 89>> /\ Keyword(236) = <<71, 79, 32, 84, 79>>

\* The spaces are grown by Next so that all workers share the work (initial states are computed by one thread).
Init == \/ tag = "items" /\ x = <<>>
        \/ tag = "two" /\ x \in [1..2 -> 1..NA]
        \/ tag = "inthi" /\ x \in -256..255
        \/ tag = "floatex" /\ x \in -159..95
        \/ tag = "vars" /\ x \in VarSpace \X VarSpace
        \/ tag = "find" /\ x \in FindSpace
        \/ tag = "format" /\ x = 0
Next == \/ tag = "items" /\ Len(x) < MaxLen /\ \E k \in 1..NA : x' = Append(x, k) /\ UNCHANGED tag
        \/ tag = "inthi" /\ \E lo \in 0..255 : x' = x * 256 + lo /\ x' \in -65535..65535 /\ tag' = "int"
        \/ tag = "floatex" /\ \E f \in FloatSpace : f[4] = x /\ x' = f /\ tag' = "float"
Inv == CASE tag = "items" -> ItemsOK(ItemsOf(x))
         [] tag = "two" -> TwoOK(x)
         [] tag = "int" -> IntOK(x)
         [] tag = "float" -> FloatOK(x)
         [] tag = "vars" -> VarsOK(x)
         [] tag = "find" -> FindOK(x)
         [] tag = "format" -> FormatOK
         [] OTHER -> TRUE
=============================================================================
