----------------------------- MODULE BasicCases -----------------------------
(***************************************************************************)
(* Pattern B judge for extension E02 (snapinfo.py --basic, --variables,     *)
(* --peek, --word, --find, --find-text, --find-tile).                       *)
(*                                                                         *)
(* One case = one invocation of the real snapinfo.main on a snapshot file   *)
(* (.z80 v1/v2/v3 or .szx, written by the independent writer) whose RAM the *)
(* harness generated.  The case carries                                     *)
(*   fill, bregs, page : the RAM image, as a fill byte and explicit regions *)
(*                 [bank, off, bytes] (bank numbering of the 128K machine;  *)
(*                 a 48K machine is banks 5, 2, 0), and the bank at 0xC000  *)
(*   out         : what snapinfo printed, projected by the harness: lines   *)
(*                 as sequences of Unicode code points (--basic, --peek,    *)
(*                 --word), parsed records (--variables, searches)           *)
(*   err         : the exception it raised, if any                          *)
(* TLC itself decodes the memory image with the operators of Basic.tla and  *)
(* compares.  Judge returns <<clause, drift>>: clause "ok" or the first     *)
(* clause of the documentation / format definition that fails; drift names  *)
(* differences in what is not documented (spacing rule, escape notation,    *)
(* result order...), which is counted and never a violation.                *)
(***************************************************************************)
EXTENDS Basic, Json, IOUtils, TLC

Cases == JsonDeserialize(IOEnv.CASES)

VARIABLES tid, verdict

\* ---- the memory of a case ------------------------------------------------------------------------------------
SlotRegs(bregs, bank, base) ==
  LET s == SelectSeq(bregs, LAMBDA r : r.bank = bank) IN [k \in 1..Len(s) |-> Region(base + s[k].off, s[k].bytes)]
\* the 64K view: bank 5 at 0x4000, bank 2 at 0x8000, bank `page` at 0xC000
View(c) == [fill |-> c.fill, regs |-> SlotRegs(c.bregs, 5, 16384) \o SlotRegs(c.bregs, 2, 32768) \o SlotRegs(c.bregs, c.page, 49152)]
\* one bank on its own, addresses 0..16383
BankMem(c, b) == [fill |-> c.fill, regs |-> SlotRegs(c.bregs, b, 0)]

FirstBad(vs) == LET bad == {k \in 1..Len(vs) : vs[k][1] # "ok"} IN
                IF bad = {} THEN "ok" ELSE vs[CHOOSE k \in bad : \A j \in bad : k <= j][1]
RECURSIVE JoinDrift(_)
JoinDrift(vs) == IF vs = <<>> THEN "" ELSE LET r == JoinDrift(Tail(vs)) IN IF Head(vs)[2] = "" THEN r ELSE IF r = "" THEN Head(vs)[2] ELSE Head(vs)[2]

\* ---- --basic -------------------------------------------------------------------------------------------------------
RECURSIVE NumIdxFrom(_, _)
NumIdxFrom(its, i) == IF i > Len(its) THEN <<>> ELSE (IF its[i].k = "num" THEN <<i>> ELSE <<>>) \o NumIdxFrom(its, i + 1)
\* what the harness says the digits before a marker denote: form "none" (no claim), "int" (a run of at most five
\* decimal digits - TLC computes the value itself), "bin" (binary digits after BIN - likewise), "dec" (any other
\* numeral: the nearest 32-bit-mantissa value, computed with exact rationals by the harness - trusted)
ClaimOK(its, i, cl) ==
  IF cl.form = "int" THEN LET ds == DigitsBefore(its, i - 1, 10) IN Len(ds) >= 1 /\ Len(ds) <= 5 /\ IntNF(DigitsValue(ds, 10)) = cl.nf
  ELSE IF cl.form = "bin" THEN LET ds == DigitsBefore(its, i - 1, 2) IN Len(ds) >= 1 /\ Len(ds) <= 16 /\ IntNF(DigitsValue(ds, 2)) = cl.nf
  ELSE TRUE
ClassOf(its, i, cl) ==
  IF cl.form = "none" \/ ~WellFormedNum(its[i].par) THEN "free"
  ELSE IF NFClose(cl.nf, NumNF(its[i].par)) THEN "same"
  ELSE IF NFGross(cl.nf, NumNF(its[i].par)) THEN "gross" ELSE "free"

JudgeLine(c, ln, k) ==
  LET ob == c.out[k]
      nf == NoField(ln.no)
      its == LineItems(LineText(ln))
      idx == NumIdxFrom(its, 1)
      claims == c.numtxt[k]
      cls == [n \in 1..Len(idx) |-> IF n <= Len(claims) THEN ClassOf(its, idx[n], claims[n]) ELSE "free"]
      free == [n \in 1..Len(idx) |-> "free"] IN
  IF \E n \in 1..Len(idx) : n <= Len(claims) /\ ~ClaimOK(its, idx[n], claims[n]) THEN <<"harness:numtxt", "">>
  ELSE IF ~StartsWith(ob, 1, nf) THEN <<"lineno", "">>
  ELSE LET r == MatchText("loose", its, ob, c.nums[k], cls, Len(nf) + 1, 0, 1, TRUE) IN
    IF r.v # "ok" THEN <<"text:" \o r.v, "">>
    ELSE LET sk == MatchText("sk", its, ob, c.nums[k], free, Len(nf) + 1, 1, 0, FALSE)
             rom == MatchText("rom", its, ob, c.nums[k], free, Len(nf) + 1, 0, 0, TRUE) IN
      <<"ok", IF r.d > 0 THEN "escape-form" ELSE IF sk.v # "ok" \/ sk.d > 0 THEN "sk-text" ELSE IF rom.v # "ok" THEN "rom-text" ELSE "">>

JudgeBasic(c) ==
  LET m == View(c)
      ls == ProgLines(m)
      n == WFPrefix(ls, 1) IN
  IF c.err # "" THEN <<"crash", "">>
  ELSE IF c.wf = 1 /\ n # Len(ls) THEN <<"harness:wf", "">>
  ELSE IF c.wf = 1 /\ Word(m, VARS) < TOP /\ Peek(m, Word(m, VARS)) < 64 THEN <<"harness:vars", "">>
  ELSE IF Len(c.numtxt) < n \/ Len(c.nums) # Len(c.out) THEN <<"harness:shape", "">>
  \* a well-formed program area is listed line for line; of an ill-formed one only the lines before the first
  \* ill-formed line are judged (LIST itself runs on from there, the length field notwithstanding)
  ELSE IF (c.wf = 1 /\ Len(c.out) # n) \/ Len(c.out) < n THEN <<"count", "">>
  ELSE LET res == [k \in 1..n |-> JudgeLine(c, ls[k], k)] IN
    <<FirstBad(res), IF c.wf = 0 THEN "extent" ELSE JoinDrift(res)>>

\* ---- --variables ---------------------------------------------------------------------------------------------------
StrOK(R, b, ob) == LET r == MatchText(R, StrItems(b), ob, <<>>, <<>>, 1, 0, 0, TRUE) IN r.v = "ok" /\ (R = "loose" \/ r.d = 0)
JudgeVar(v, o) ==
  IF o.kind = "unparsed" THEN <<"form", "">>
  ELSE IF o.kind # v.kind THEN <<"kind", "">>
  ELSE IF o.name # v.name THEN <<"name", "">>
  ELSE IF v.kind = "num" THEN <<IF o.nums = <<NumNF(v.nums[1])>> THEN "ok" ELSE "value", "">>
  ELSE IF v.kind = "for" THEN
    IF o.nums # [k \in 1..3 |-> NumNF(v.nums[k])] THEN <<"value", "">>
    ELSE IF o.line # v.line THEN <<"for-line", "">> ELSE IF o.stmt # v.stmt THEN <<"for-statement", "">> ELSE <<"ok", "">>
  ELSE IF v.kind = "str" THEN
    IF Len(o.strs) # 1 \/ ~StrOK("loose", v.strs[1], o.strs[1]) THEN <<"string", "">>
    ELSE <<"ok", IF StrOK("sk", v.strs[1], o.strs[1]) THEN "" ELSE "sk-text">>
  ELSE IF o.dims # v.dims THEN <<"dims", "">>
  ELSE IF v.kind = "numarr" THEN
    IF o.shape # v.dims THEN <<"shape", "">>
    ELSE <<IF o.nums = [k \in 1..Len(v.nums) |-> NumNF(v.nums[k])] THEN "ok" ELSE "value", "">>
  ELSE \* chrarr
    IF o.shape # SubSeq(v.dims, 1, Len(v.dims) - 1) \/ Len(o.strs) # Len(v.strs) THEN <<"shape", "">>
    ELSE IF \E k \in 1..Len(v.strs) : ~StrOK("loose", v.strs[k], o.strs[k]) THEN <<"string", "">>
    ELSE <<"ok", IF \A k \in 1..Len(v.strs) : StrOK("sk", v.strs[k], o.strs[k]) THEN "" ELSE "sk-text">>

JudgeVars(c) ==
  LET m == View(c)
      vs == Variables(m, Word(m, VARS)) IN
  \* an area the generator made ill-formed on purpose is not decoded at all (the decoder would follow garbage
  \* through all of memory): nothing is judged, a crash is noted as drift
  IF c.wf = 0 THEN <<"ok", IF c.err # "" THEN "crash-ill-formed" ELSE "extent">>
  ELSE IF ~WellFormedVars(vs) THEN <<"harness:wf", "">>
  ELSE IF c.err # "" THEN <<"crash", "">>
  ELSE IF Len(c.out) # Len(vs) THEN <<"count", "">>
  ELSE LET res == [k \in 1..Len(vs) |-> LET r == JudgeVar(vs[k], c.out[k]) IN
                                         <<IF r[1] = "ok" THEN "ok" ELSE vs[k].kind \o ":" \o r[1], r[2]>>] IN
    <<FirstBad(res), JoinDrift(res)>>

\* ---- --peek, --word --------------------------------------------------------------------------------------------------
Rows(specs) == Flatten([k \in 1..Len(specs) |-> Addresses(specs[k][1], specs[k][2], specs[k][3])])
JudgePeekRow(m, a, ob) ==
  LET v == Peek(m, a)
      p == PeekPrefix(a, v)
      rest == SubSeq(ob, Len(p) + 1, Len(ob)) IN
  IF ~StartsWith(ob, 1, p) THEN <<"line", "">>
  ELSE IF PeekCharJudged(v) THEN
    IF rest = PeekChar(v) THEN <<"ok", "">> ELSE IF IsUdg(v) /\ rest = UdgText(v) THEN <<"ok", "udg-form">> ELSE <<"char", "">>
  ELSE <<"ok", IF rest = <<>> THEN "" ELSE "unprintable-char">>
JudgePeek(c) ==
  LET m == View(c)
      rows == Rows(c.specs) IN
  IF c.err # "" THEN <<"crash", "">>
  ELSE IF Len(c.out) # Len(rows) THEN (IF c.open = 1 THEN <<"ok", "word-default-step">> ELSE <<"count", "">>)
  ELSE LET res == [k \in 1..Len(rows) |->
                    IF c.kind = "peek" THEN JudgePeekRow(m, rows[k], c.out[k])
                    ELSE <<IF c.out[k] = WordLine(rows[k], Word(m, rows[k])) THEN "ok" ELSE "line", "">>] IN
    IF c.open = 1 /\ FirstBad(res) # "ok" THEN <<"ok", "word-default-step">> ELSE <<FirstBad(res), JoinDrift(res)>>

\* ---- --find, --find-text, --find-tile ---------------------------------------------------------------------------------
\* out rows are <<space, address, end, distance>>; space 0 = the 64K view, space b+1 = RAM bank b on its own (128K
\* snapshot searched without --page: "search all RAM banks")
Shadow(c) == IF c.shadow = 1 THEN 7 ELSE 5
TileSeq(c) == IF c.allbanks = 1 THEN [k \in 1..8 |-> Peek(BankMem(c, Shadow(c)), (TileAddr(c.x, c.y) - 16384) + 256 * (k - 1))]
              ELSE TileBytes(View(c), 16384, c.x, c.y)
SeqOf(c) == IF c.kind = "tile" THEN TileSeq(c) ELSE c.seq
Expected(c, seq) ==
  IF c.allbanks = 1 THEN UNION {{<<b + 1, r[1], r[2]>> : r \in FindFast(BankMem(c, b), seq, c.m..c.n, 0, 16383)} : b \in 0..7}
  ELSE {<<0, r[1], r[2]>> : r \in FindFast(View(c), seq, c.m..c.n, c.lo, 65535)}
\* results that the documentation leaves open: the display file itself when searching for a tile
Open(c, r) == c.kind = "tile" /\ (IF c.allbanks = 1 THEN r[1] \in {6, 8} /\ r[2] < 6912 ELSE r[2] < 23296)
TailOnly(c, seq, r) == r[2] + Len(seq) * r[3] > (IF c.allbanks = 1 THEN 16384 ELSE 65536)
JudgeFind(c) ==
  LET seq == SeqOf(c) IN
  IF c.err # "" THEN <<"crash", "">>
  ELSE IF \A k \in 1..Len(seq) : seq[k] = c.fill THEN <<"harness:anchor", "">>
  ELSE IF c.kind = "tile" /\ c.pic # seq THEN <<"tile-picture", "">>
  ELSE LET exp == Expected(c, seq)
           obs == {<<c.out[k][1], c.out[k][2], c.out[k][4]>> : k \in 1..Len(c.out)}
           missed == {r \in exp \ obs : ~Open(c, r)}
           spurious == obs \ exp IN
    IF spurious # {} \/ c.more > 0 THEN <<"spurious", "">>      \* more > 0: thousands of result lines beyond those handed over
    ELSE IF missed # {} THEN <<IF \A r \in missed : TailOnly(c, seq, r) THEN "missed-at-end-of-memory" ELSE "missed", "">>
    ELSE <<"ok", IF Cardinality(obs) # Len(c.out) THEN "duplicates"
                 ELSE IF \E k \in 1..Len(c.out) : c.out[k][3] # c.out[k][2] + (Len(seq) - 1) * c.out[k][4] THEN "end-field"
                 ELSE IF c.fmtbad = 1 THEN "line-format" ELSE "">>

Judge(c) ==
  IF c.kind = "basic" THEN JudgeBasic(c)
  ELSE IF c.kind = "vars" THEN JudgeVars(c)
  ELSE IF c.kind = "peek" \/ c.kind = "word" THEN JudgePeek(c)
  ELSE JudgeFind(c)

Init == tid \in 1..Len(Cases) /\ verdict = "pending"
Next == /\ verdict = "pending" /\ UNCHANGED tid
        /\ LET r == Judge(Cases[tid]) IN
           /\ verdict' = r[1]
           /\ (r[1] = "ok" \/ PrintT(<<"FAIL", tid, r[1]>>))
           /\ (r[2] = "" \/ PrintT(<<"DRIFT", tid, r[2]>>))
=============================================================================
