------------------------------ MODULE SimDebug ------------------------------
(* Replay aid: prints, for every case of CASES, what SimMacro expects each op to expand to. *)
EXTENDS SimCases

RECURSIVE Expected(_, _, _, _)
Expected(c, k, st, acc) ==
  IF k > Len(c.ops) THEN acc
  ELSE LET a == Apply(c, st, c.ops[k]) IN Expected(c, k + 1, a.st, Append(acc, a.out))

DInit == tid \in 1..Len(Cases) /\ verdict = "pending"
DNext == /\ verdict = "pending"
         /\ verdict' = "done"
         /\ PrintT(<<"EXPECTED", tid, Expected(Cases[tid], 1, Init0(Cases[tid]), <<>>)>>)
         /\ UNCHANGED tid
=============================================================================
