------------------------------ MODULE SimCases ------------------------------
(***************************************************************************)
(* Pattern B for E01.  A case = one skool file: the memory its instructions *)
(* and @defb directives assemble to, and one comment text made of a         *)
(* sequence of macros ("ops").  For every op the harness recorded the        *)
(* integers the macro expanded to in skool2asm.main and skool2html.main      *)
(* output.  TLC evaluates SimMacro on the same ops, carrying the snapshot,   *)
(* the sim dictionary and the #PUSHS stack from op to op, and compares.      *)
(*                                                                         *)
(* c = [is128, p7, ov, ins, ops, asm, html, exc]                             *)
(* op.t: "sim" [ps] | "fields" [fs] | "peek" [a] | "ts" [start, stop, flags, *)
(*   execint, txt] | "audio" [start, stop, execint, offset] | "pokes" [a, b, *)
(*   n, step] | "bank" [page] | "pushs" | "pops"; every op has asm / html    *)
(*   (observed integers), and d = 1 when the documents leave its outcome     *)
(*   open (a mismatch at or after such an op is DRIFT, not FAIL).            *)
(* Verdict: [v |-> "ok" | "fail" | "drift", c |-> "<op index>:<op>:<clause>:<mode>"] *)
(***************************************************************************)
EXTENDS SimMacro, Json, IOUtils

Cases == JsonDeserialize(IOEnv.CASES)
VARIABLES tid, verdict

Bit2(v, n) == (v \div Pow2(n)) % 2

\* st = [m, sim, stack, ok, n, in, mpdef, steps]
Init0(c) == [m |-> [ov |-> c.ov, is128 |-> c.is128 = 1, p7 |-> c.p7], sim |-> NoSim, stack |-> <<>>,
             ok |-> TRUE, n |-> 0, in |-> FALSE, mpdef |-> TRUE, steps |-> 0]

Tick(st) == [st EXCEPT !.steps = st.steps + st.n, !.n = 0]

\* expected expansion and next state of one op
Apply(c, st, op) ==
  CASE op.t = "sim" ->
         LET s2 == SimOp(st, op.ps)
             ran == Par(st.sim, op.ps, "stop") >= 0
         IN [st |-> Tick([s2 EXCEPT !.mpdef = IF ran THEN FALSE ELSE (st.mpdef \/ ~st.sim.has \/ Par(st.sim, op.ps, "clear") = 1 \/ Given(op.ps, "memptr"))]),
             out |-> <<>>]
    [] op.t = "fields" -> [st |-> st, out |-> [i \in 1..Len(op.fs) |-> Field(st.sim, op.fs[i].n, op.fs[i].i)]]
    [] op.t = "peek" -> [st |-> st, out |-> <<Peek(st.m, Val(st.sim, op.a))>>]
    [] op.t = "ts" ->
         LET start == Val(st.sim, op.start)
             stop == Val(st.sim, op.stop)
         IN IF Bit2(op.flags, 2) = 1
            THEN LET e == TstatesExec(st, start, stop, op.execint)
                 IN [st |-> Tick([st EXCEPT !.ok = e.ok, !.n = e.n, !.in = e.in]), out |-> <<e.t>>]
            ELSE LET mm == TstatesStatic(st.m, c.ins, start, stop)
                 IN [st |-> st, out |-> IF op.txt = 1 THEN mm ELSE IF Bit2(op.flags, 0) = 1 THEN <<mm[2]>> ELSE <<mm[1]>>]
    [] op.t = "audio" ->
         LET a == AudioOp(st, op.start, op.stop, op.execint, op.offset)
         IN [st |-> Tick([a.st EXCEPT !.mpdef = FALSE]), out |-> a.delays]
    [] op.t = "pokes" -> [st |-> [st EXCEPT !.m = PokeRun(st.m, op.a, op.b, op.n, op.step)], out |-> <<>>]
    [] op.t = "bank" -> [st |-> [st EXCEPT !.m = BankOp(st.m, op.page)], out |-> <<>>]
    [] op.t = "pushs" -> [st |-> [st EXCEPT !.stack = Append(st.stack, st.m)], out |-> <<>>]
    [] op.t = "pops" -> [st |-> [st EXCEPT !.m = st.stack[Len(st.stack)], !.stack = SubSeq(st.stack, 1, Len(st.stack) - 1)], out |-> <<>>]

\* first difference between an observed and the expected expansion, named
Diff(op, obs, out) ==
  IF obs = out THEN ""
  ELSE IF Len(obs) # Len(out) THEN "count"
  ELSE LET i == CHOOSE i \in 1..Len(out) : obs[i] # out[i] /\ \A j \in 1..(i - 1) : obs[j] = out[j]
       IN IF op.t = "fields" THEN op.fs[i].n
          ELSE IF op.t = "ts" THEN (IF Bit2(op.flags, 2) = 1 THEN "exec" ELSE IF i = 2 \/ Bit2(op.flags, 0) = 1 THEN "max" ELSE "min")
          ELSE IF op.t = "audio" THEN "delays"
          ELSE "value"

\* MEMPTR after a run without cmio: the documents do not say (MemptrFrozenWithoutCmio)
Soft(st, op, d) == op.t = "fields" /\ d = "MEMPTR" /\ ~st.mpdef

RECURSIVE JudgeFrom(_, _, _, _, _)
JudgeFrom(c, k, st, open, soft) ==
  IF k > Len(c.ops) THEN [v |-> IF soft = "" THEN "ok" ELSE "drift", c |-> soft, steps |-> st.steps]
  ELSE
    LET op == c.ops[k]
        a == Apply(c, st, op)
        open2 == open \/ op.d = 1
        da == IF c.asm = 1 /\ op.t # "audio" THEN Diff(op, op.asm, a.out) ELSE ""
        dh == IF c.html = 1 THEN Diff(op, op.html, a.out) ELSE ""
        d == IF da # "" THEN da ELSE dh
        where == ToString(k) \o ":" \o op.t \o ":" \o d \o ":" \o (IF da # "" THEN "asm" ELSE "html")
    IN IF ~a.st.ok THEN [v |-> "fail", c |-> ToString(k) \o ":" \o op.t \o ":undefined:" \o
                                            (IF a.st.in THEN "in128" ELSE IF Aliased(a.st.m) THEN "aliased" ELSE "steps"), steps |-> st.steps]
       ELSE IF d = "" THEN JudgeFrom(c, k + 1, a.st, open2, soft)
       ELSE IF Soft(a.st, op, d) THEN JudgeFrom(c, k + 1, a.st, open2, IF soft = "" THEN where ELSE soft)
       ELSE IF open2 THEN [v |-> "drift", c |-> where, steps |-> a.st.steps]
       ELSE [v |-> "fail", c |-> where, steps |-> a.st.steps]

Judge(c) == IF c.exc # "" THEN [v |-> "fail", c |-> "0:tool:exception:both", steps |-> 0]
            ELSE JudgeFrom(c, 1, Init0(c), FALSE, "")

Init == tid \in 1..Len(Cases) /\ verdict = "pending"
Next == /\ verdict = "pending"
        /\ LET j == Judge(Cases[tid]) IN
           /\ verdict' = j.v
           /\ PrintT(<<"STEPS", tid, j.steps>>)
           /\ (j.v = "ok" \/ (j.v = "drift" /\ PrintT(<<"DRIFT", tid, j.c>>)) \/ (j.v = "fail" /\ PrintT(<<"FAIL", tid, j.c>>)))
        /\ UNCHANGED tid
=============================================================================
