INIT DInit
NEXT DNext
CHECK_DEADLOCK FALSE
