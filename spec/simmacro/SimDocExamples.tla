--------------------------- MODULE SimDocExamples ---------------------------
(***************************************************************************)
(* The worked examples of skool-macros.rst (#SIM, #TSTATES) evaluated on    *)
(* SimMacro: the numbers the documentation prints must come out.  TLC       *)
(* checks the ASSUMEs before it explores the (trivial) state space.         *)
(***************************************************************************)
EXTENDS SimMacro

Lit(v) == [k |-> 0, v |-> v, f |-> "", i |-> 0]
P(n, v) == [n |-> n, v |-> Lit(v)]
Mem(bytes, org) == [ov |-> [i \in 1..Len(bytes) |-> <<org + i - 1, bytes[i]>>], is128 |-> FALSE, p7 |-> 0]
St0(m) == [m |-> m, sim |-> NoSim, stack |-> <<>>, ok |-> TRUE, n |-> 0, in |-> FALSE]

\* #SIM(start=32768,stop=32772,bc=13256,de=672) / 32768 LD HL,443 / 32771 ADD HL,BC / #SIM(32773) / 32772 ADD HL,DE / 32773 RET
\* "the second mid-block comment here is rendered as 'At this point HL=13699', and the third ... 'And now HL=14371'"
SimEx == Mem(<<33, 187, 1, 9, 25, 201>>, 32768)
S1 == SimOp(St0(SimEx), <<P("start", 32768), P("stop", 32772), P("bc", 13256), P("de", 672)>>)
S2 == SimOp(S1, <<P("stop", 32773)>>)
ASSUME SimExample1 == S1.ok /\ Field(S1.sim, "HL", 0) = 13699 /\ Field(S1.sim, "PC", 0) = 32772
ASSUME SimExample2 == S2.ok /\ Field(S2.sim, "HL", 0) = 14371 /\ Field(S2.sim, "PC", 0) = 32773 /\ Field(S2.sim, "tstates", 0) = 32
\* defaults "shown below": IY = 23610, I = 63, SP = 23552, IM 1, everything else 0
ASSUME SimDefaults == /\ Field(S1.sim, "IY", 0) = 23610 /\ Field(S1.sim, "I", 0) = 63 /\ Field(S1.sim, "SP", 0) = 23552
                      /\ Field(S1.sim, "im", 0) = 1 /\ Field(S1.sim, "iff", 0) = 0 /\ Field(S1.sim, "IX", 0) = 0
                      /\ Field(S1.sim, "BC", 0) = 13256 /\ Field(S1.sim, "DE", 0) = 672

\* c30000 LD A,1 : "#TSTATES30000 ... expands to '7'"
ASSUME TsLdA == TstatesStatic(Mem(<<62, 1>>, 30000), << <<30000, 2>> >>, 30000, -1) = <<7, 7>>
\* c40000 RET Z : "expands to '5'" (and 11 with bit 0 of flags)
ASSUME TsRetZ == TstatesStatic(Mem(<<200>>, 40000), << <<40000, 1>> >>, 40000, -1) = <<5, 11>>
\* c50000 LD B,100 / 50002 DJNZ 50002 : #TSTATES50002,,2(#EVAL(99*$max+$min)) -> #EVAL(99*13+8) -> 1295
Djnz == Mem(<<6, 100, 16, 254>>, 50000)
ASSUME TsDjnz == TstatesStatic(Djnz, << <<50000, 2>>, <<50002, 2>> >>, 50002, -1) = <<8, 13>>
\* ... and the executed delay loop really takes 7 + 1295 T-states
ASSUME TsDjnzExec == LET e == TstatesExec(St0(Djnz), 50000, 50004, 0) IN e.ok /\ e.t = 7 + 1295
\* c32768 LD DE,0 / *32771 DEC DE / LD A,D / OR E / JR NZ,32771 / 32776 RET : "#TSTATES(32768,32776,4) expands to
\* '1703941'" = 10 + 65536 * 26 - 5; the same loop with DE = 3 must take 10 + 3 * 26 - 5
DeLoop(n) == Mem(<<17, n, 0, 27, 122, 179, 32, 251, 201>>, 32768)
ASSUME TsDeLoop == LET e == TstatesExec(St0(DeLoop(3)), 32768, 32776, 0) IN e.ok /\ e.t = (10 + (3 * 26)) - 5
ASSUME TsDeLoopDoc == (10 + (65536 * 26)) - 5 = 1703941

VARIABLE done
Init == done = FALSE
Next == ~done /\ done' = TRUE
=============================================================================
