------------------------------ MODULE SimMacro ------------------------------
(***************************************************************************)
(* E01 - the simulator-backed skool macros #SIM, #TSTATES and #AUDIO (sim  *)
(* mode), written from sphinx/source/skool-macros.rst on top of the         *)
(* executable Z80 specification (Z80!Step / Z80!StepInt).                   *)
(*                                                                         *)
(* The state a skool file's macros share while a tool expands them:         *)
(*   m    : the internal memory snapshot                                    *)
(*            [ov |-> <<cell, byte>> overlay over Z80Bits!Base,              *)
(*             is128 |-> BOOLEAN, p7 |-> last value latched at port 0x7ffd]  *)
(*   sim  : the "sim" dictionary of replacement fields                      *)
(*            [has |-> populated?, r |-> the 30 simulator registers in      *)
(*             Z80.tla's layout, o7/fffd/ay |-> hardware state]              *)
(*   stack: snapshots saved by #PUSHS                                       *)
(*                                                                         *)
(* Documented behaviour (section of skool-macros.rst in brackets):          *)
(*   Run            [#SIM]  execute from start until PC = stop; interrupt   *)
(*                  routines are executed iff execint says so               *)
(*   SimOp          [#SIM]  clear / register parameters / defaults, no code *)
(*                  executed without stop, start defaults to the previous   *)
(*                  stop (0 on the first run), registers and hardware state *)
(*                  copied to sim[...], the snapshot itself is modified     *)
(*   TstatesStatic  [#TSTATES] sums of the smaller / larger timing values   *)
(*   TstatesExec    [#TSTATES bit 2] execution from the state left by the   *)
(*                  last #SIM/#AUDIO on a COPY of the snapshot              *)
(*   AudioOp        [#AUDIO sim=1] delays between speaker flips computed    *)
(*                  from the executed code; state left for the next #SIM    *)
(*                                                                         *)
(* Named conventions where the documents are silent (never verdicts, see    *)
(* SimCases!Soft and op.d): MemptrFrozenWithoutCmio, ClearResetsHardwareState,      *)
(* OutStampedAtInstructionStart.                                            *)
(***************************************************************************)
EXTENDS Z80

-----------------------------------------------------------------------------
(* Machines: "execution in a 48K or a 128K memory snapshot" *)
Frame(is128) == IF is128 THEN 70908 ELSE 69888
IntActive(is128) == IF is128 THEN 36 ELSE 32

-----------------------------------------------------------------------------
(* The memory snapshot.  A cell is a logical address below 0xC000 (or any   *)
(* address of a 48K snapshot); in a 128K snapshot an address >= 0xC000       *)
(* names cell 65536 + bank * 16384 + offset of the bank paged in by bits    *)
(* 0-2 of the last OUT to port 0x7ffd.  RAM banks 2 and 5 (also visible at  *)
(* 0x8000 / 0x4000) and ROM 1 are outside the modelled domain: Aliased.     *)
Bank(m) == m.p7 % 8
BankLo(m) == 65536 + (Bank(m) * 16384)
Cell(m, a) == IF m.is128 /\ a >= 49152 THEN BankLo(m) + (a - 49152) ELSE a
Aliased(m) == m.is128 /\ (Bank(m) \in {2, 5} \/ (m.p7 \div 16) % 2 = 1)

\* what the CPU (and #PEEK) sees: logical address -> byte, as a Z80!MemAt overlay
View(m) ==
  IF ~m.is128 THEN m.ov
  ELSE LET lo == BankLo(m)
           vis == SelectSeq(m.ov, LAMBDA e : e[1] < 49152 \/ (e[1] >= lo /\ e[1] < lo + 16384))
       IN [i \in 1..Len(vis) |-> IF vis[i][1] < 49152 THEN vis[i] ELSE <<49152 + (vis[i][1] - lo), vis[i][2]>>]

Peek(m, a) == MemAt(View(m), W16(a))

\* writes (logical <<addr, byte>>, in order) land in the cells that are paged in; older values of the
\* same cells are dropped so that the overlay stays as small as the set of touched cells
Store(m, wr) ==
  IF wr = <<>> THEN m
  ELSE LET cw == [i \in 1..Len(wr) |-> <<Cell(m, wr[i][1]), wr[i][2]>>]
           keep == SelectSeq(m.ov, LAMBDA e : \A i \in 1..Len(cw) : cw[i][1] # e[1])
       IN [m EXCEPT !.ov = keep \o cw]

RECURSIVE PokeRun(_, _, _, _, _)
PokeRun(m, a, b, n, step) == IF n = 0 THEN m ELSE PokeRun(Store(m, <<<<W16(a), b>>>>), a + step, b, n - 1, step)

\* #BANKpage : "switches the RAM bank that is mapped to 49152-65535"
BankOp(m, page) == [m EXCEPT !.p7 = ((m.p7 \div 8) * 8) + (page % 8)]

-----------------------------------------------------------------------------
(* 128K hardware reached through OUT (partial decoding of the 128K ULA/AY):  *)
(*   0x7ffd: A15 = 0, A1 = 0 (ignored once bit 5 of the latch is set)         *)
(*   0xfffd: A15 = A14 = 1, A1 = 0 (AY register select)                       *)
(*   0xbffd: A15 = 1, A14 = 0, A1 = 0 (write to the selected AY register)     *)
A15(p) == (p \div 32768) % 2
A14(p) == (p \div 16384) % 2
A1(p) == (p \div 2) % 2

\* h = [m, fffd, ay]
OutHw(h, port, v) ==
  LET pg == A15(port) = 0 /\ A1(port) = 0 /\ (h.m.p7 \div 32) % 2 = 0
      m2 == IF pg THEN [h.m EXCEPT !.p7 = v] ELSE h.m
  IN IF A15(port) = 1 /\ A14(port) = 1 /\ A1(port) = 0 THEN [h EXCEPT !.m = m2, !.fffd = v]
     ELSE IF A15(port) = 1 /\ A14(port) = 0 /\ A1(port) = 0 /\ h.fffd < 16
          THEN [h EXCEPT !.m = m2, !.ay = [h.ay EXCEPT ![h.fffd + 1] = v]]
     ELSE [h EXCEPT !.m = m2]

RECURSIVE OutsHw(_, _, _)
OutsHw(h, io, i) ==
  IF i > Len(io) THEN h
  ELSE OutsHw(IF io[i][1] = "o" THEN OutHw(h, io[i][2], io[i][3]) ELSE h, io, i + 1)

-----------------------------------------------------------------------------
(* Run: "simulates the execution of machine code in the internal memory     *)
(* snapshot": from the given registers (PC = start) one instruction after    *)
(* another until PC = stop (at least one instruction; what start = stop     *)
(* means is left open by the documents and is not generated).  ints:        *)
(* interrupt routines are executed (a frame interrupt is accepted at an     *)
(* instruction boundary inside the INT window when IFF = 1) or ignored.     *)
(* x = [r, m, fffd, ay, log, n, ok, in, done]:                              *)
(*   log  <<T at the start of the instruction, port, value>> of every OUT   *)
(*        (OutStampedAtInstructionStart), collected when cfg.log holds      *)
(*   n    instructions executed                                             *)
(*   ok   FALSE: outside the modelled domain (stop not reached within       *)
(*        MaxChunks * ChunkLen instructions, or Aliased paging)             *)
(*   in   an IN was executed on a 128K snapshot (reads of the AY data port  *)
(*        are not modelled; a 48K snapshot has no port hardware at all:     *)
(*        IN reads the idle bus and OUT goes nowhere)                       *)
\* one instruction (plus the interrupt it may be followed by)
Step1(x, cfg) ==
  LET s == [r |-> x.r, ov |-> View(x.m), inv |-> IF x.m.is128 THEN 255 ELSE -1,
            frame |-> Frame(x.m.is128), ia |-> IntActive(x.m.is128), tA |-> -1]
      st == StepInt(s, cfg.ints)
      m1 == Store(x.m, st.wr)
      h == IF x.m.is128 /\ st.io # <<>> THEN OutsHw([m |-> m1, fffd |-> x.fffd, ay |-> x.ay], st.io, 1)
           ELSE [m |-> m1, fffd |-> x.fffd, ay |-> x.ay]
      outs == SelectSeq(st.io, LAMBDA e : e[1] = "o")
      log2 == IF cfg.log /\ outs # <<>> THEN x.log \o [i \in 1..Len(outs) |-> <<x.r[rT], outs[i][2], outs[i][3]>>] ELSE x.log
  IN [r |-> st.r, m |-> h.m, fffd |-> h.fffd, ay |-> h.ay, log |-> log2, n |-> x.n + 1,
      ok |-> x.ok /\ ~Aliased(h.m), in |-> x.in \/ (x.m.is128 /\ \E i \in 1..Len(st.io) : st.io[i][1] = "i"),
      done |-> st.r[rPC] = cfg.stop]

\* (TLC evaluates an operator body in the caller's context, so the cost of a step grows with the recursion depth:
\* the iteration is split into chunks to keep the depth near the square root of the number of instructions)
RECURSIVE RunChunk(_, _, _)
RunChunk(x, cfg, k) == IF k = 0 \/ x.done THEN x ELSE RunChunk(Step1(x, cfg), cfg, k - 1)

ChunkLen == 24
MaxChunks == 250

RECURSIVE RunFrom(_, _, _)
RunFrom(x, cfg, k) ==
  LET y == RunChunk(x, cfg, ChunkLen)
  IN IF y.done THEN y ELSE IF k = 0 THEN [y EXCEPT !.ok = FALSE] ELSE RunFrom(y, cfg, k - 1)

Run(r, m, fffd, ay, start, stop, ints, log) ==
  RunFrom([r |-> [r EXCEPT ![rPC] = start], m |-> m, fffd |-> fffd, ay |-> ay, log |-> <<>>, n |-> 0, ok |-> TRUE, in |-> FALSE,
           done |-> FALSE],
          [stop |-> stop, ints |-> ints, log |-> log], MaxChunks)

-----------------------------------------------------------------------------
(* The sim dictionary *)
Zero16 == [i \in 1..16 |-> 0]
\* "default values (shown below)": everything 0 except IY = 23610, I = 63, SP = 23552, IM 1
DefaultRegs == [i \in 1..30 |-> CASE i = rIYh -> 92 [] i = rIYl -> 58 [] i = rSP -> 23552 [] i = rI -> 63
                                  [] i = rIM -> 1 [] OTHER -> 0]
NoSim == [has |-> FALSE, r |-> DefaultRegs, o7 |-> 0, fffd |-> 0, ay |-> Zero16]

\* sim[name] (index i for sim[ay][i])
Field(sim, n, i) ==
  LET r == sim.r IN
  CASE n = "A" -> r[rA] [] n = "F" -> r[rF] [] n = "BC" -> Pair(r, rB) [] n = "DE" -> Pair(r, rD) [] n = "HL" -> Pair(r, rH)
    [] n = "^A" -> r[rxA] [] n = "^F" -> r[rxF] [] n = "^BC" -> Pair(r, rxB) [] n = "^DE" -> Pair(r, 21) [] n = "^HL" -> Pair(r, rxH)
    [] n = "IX" -> Pair(r, rIXh) [] n = "IY" -> Pair(r, rIYh) [] n = "I" -> r[rI] [] n = "R" -> r[rR] [] n = "SP" -> r[rSP]
    [] n = "PC" -> r[rPC] [] n = "MEMPTR" -> r[rMEMPTR] [] n = "tstates" -> r[rT] [] n = "iff" -> r[rIFF] [] n = "im" -> r[rIM]
    [] n = "halted" -> r[rHALT] [] n = "7ffd" -> sim.o7 [] n = "fffd" -> sim.fffd [] n = "ay" -> sim.ay[i + 1]

\* a parameter value: an integer, or a replacement field {sim[name]} plus a constant ("may contain replacement fields")
Val(sim, v) == IF v.k = 0 THEN v.v ELSE Field(sim, v.f, v.i) + v.v

\* named parameter lookup; -1 = not given
Given(ps, n) == \E i \in 1..Len(ps) : ps[i].n = n
Par(sim, ps, n) == IF Given(ps, n) THEN Val(sim, ps[CHOOSE i \in 1..Len(ps) : ps[i].n = n].v) ELSE -1

Set8(r, i, v) == IF v < 0 THEN r ELSE [r EXCEPT ![i] = v]
Set16(r, hi, v) == IF v < 0 THEN r ELSE [r EXCEPT ![hi] = v \div 256, ![hi + 1] = v % 256]

\* "a sets the value of the A register", ... "memptr sets the value of the MEMPTR register"
SetRegs(r0, P(_)) ==
  LET r1 == Set8(Set8(r0, rA, P("a")), rF, P("f"))
      r2 == Set16(Set16(Set16(r1, rB, P("bc")), rD, P("de")), rH, P("hl"))
      r3 == Set8(Set8(r2, rxA, P("xa")), rxF, P("xf"))
      r4 == Set16(Set16(Set16(r3, rxB, P("xbc")), 21, P("xde")), rxH, P("xhl"))
      r5 == Set16(Set16(r4, rIXh, P("ix")), rIYh, P("iy"))
      r6 == Set8(Set8(Set8(r5, rI, P("i")), rR, P("r")), rSP, P("sp"))
      r7 == Set8(Set8(Set8(Set8(r6, rT, P("tstates")), rIFF, P("iff")), rIM, P("im")), rMEMPTR, P("memptr"))
  IN r7

\* st = [m, sim, stack]
WriteSim(r, m, fffd, ay) == [has |-> TRUE, r |-> r, o7 |-> m.p7, fffd |-> fffd, ay |-> ay]

\* MemptrFrozenWithoutCmio: "cmio specifies whether ... the MEMPTR register [is] simulated"
Memptr(cmio, r0, r1) == IF cmio THEN r1 ELSE [r1 EXCEPT ![rMEMPTR] = r0[rMEMPTR]]

(* #SIM[stop,start,clear,a,...,memptr] *)
SimOp(st, ps) ==
  LET P(n) == Par(st.sim, ps, n)
      fresh == ~st.sim.has \/ P("clear") = 1
      base == IF fresh THEN DefaultRegs ELSE st.sim.r          \* fresh: PC = 0, clock = 0, IFF = 0, IM 1, not halted
      r1 == SetRegs(base, P)
      fffd0 == IF fresh THEN 0 ELSE st.sim.fffd                 \* ClearResetsHardwareState
      ay0 == IF fresh THEN Zero16 ELSE st.sim.ay
      stop == P("stop")
      start == IF P("start") >= 0 THEN P("start") ELSE r1[rPC]
      x == Run(r1, st.m, fffd0, ay0, start, stop, P("execint") = 1, FALSE)
  IN IF stop < 0                                                 \* "if not given, no code is executed"
     THEN [st EXCEPT !.sim = WriteSim(r1, st.m, IF st.m.is128 THEN fffd0 ELSE 0, IF st.m.is128 THEN ay0 ELSE Zero16), !.ok = TRUE, !.n = 0, !.in = FALSE]
     ELSE [st EXCEPT !.m = x.m, !.sim = WriteSim(Memptr(P("cmio") = 1, r1, x.r), x.m, x.fffd, x.ay), !.ok = x.ok, !.n = x.n, !.in = x.in]

-----------------------------------------------------------------------------
(* #TSTATESstart[,stop,flags,execint,cmio(text)] *)
\* "an instruction whose timing is variable": the set of durations the instruction at pc can take; three
\* register files take both outcomes of every conditional / repeating form between them
RegFile(f, b, c) == [i \in 1..30 |-> CASE i = rF -> f [] i = rB -> b [] i = rC -> c [] i = rA -> 1 [] OTHER -> 0]
TimingSet(ov, pc) ==
  LET s(f, b, c) == [r |-> [RegFile(f, b, c) EXCEPT ![rPC] = pc], ov |-> ov, inv |-> 0, frame |-> 69888, ia |-> 32, tA |-> -1]
  IN { Decode(s(0, 1, 0)).t, Decode(s(255, 0, 1)).t, Decode(s(0, 2, 2)).t }
MinOf(S) == CHOOSE v \in S : \A w \in S : v <= w
MaxOf(S) == CHOOSE v \in S : \A w \in S : v >= w

\* ins: the instructions of the skool file, <<address, length>> in address order
RECURSIVE SumTimes(_, _, _, _, _, _)
SumTimes(ov, ins, i, lo, hi, acc) ==
  IF i > Len(ins) THEN acc
  ELSE IF ins[i][1] >= lo /\ ins[i][1] < hi
       THEN LET ts == TimingSet(ov, ins[i][1]) IN SumTimes(ov, ins, i + 1, lo, hi, <<acc[1] + MinOf(ts), acc[2] + MaxOf(ts)>>)
       ELSE SumTimes(ov, ins, i + 1, lo, hi, acc)

\* <<sum of the smaller timing values, sum of the larger timing values>> of the instructions from start up
\* to (not including) stop; without stop: the instruction at start
TstatesStatic(m, ins, start, stop) ==
  SumTimes(View(m), ins, 1, start, IF stop < start THEN start + 1 ELSE stop, <<0, 0>>)

\* bit 2 of flags: "executed in a simulator", "copies the simulator state as it was left by the most recent
\* invocation of the #AUDIO or #SIM macro (if any)", "operates on a copy of the internal memory snapshot"
TstatesExec(st, start, stop, execint) ==
  LET x == Run(st.sim.r, st.m, st.sim.fffd, st.sim.ay, start, stop, execint = 1, FALSE)
  IN [t |-> x.r[rT] - st.sim.r[rT], clock |-> x.r[rT], ok |-> x.ok, n |-> x.n, in |-> x.in]

-----------------------------------------------------------------------------
(* #AUDIO1,start,stop[,execint,cmio,offset](fname): "execute the code that  *)
(* produces the sound effect in a simulator, and let the simulator compute   *)
(* the delays" = intervals in T-states between speaker state changes (bit 4  *)
(* of an OUT to an even port).  The first OUT to the ULA counts as the first *)
(* change.                                                                   *)
RECURSIVE Flips(_, _, _, _)
Flips(log, i, spk, acc) ==
  IF i > Len(log) THEN acc
  ELSE LET e == log[i]  b == (e[3] \div 16) % 2 IN
       IF e[2] % 2 = 0 /\ b # spk THEN Flips(log, i + 1, b, Append(acc, e[1])) ELSE Flips(log, i + 1, spk, acc)
Delays(log) == LET f == Flips(log, 1, -1, <<>>) IN [i \in 1..(IF Len(f) = 0 THEN 0 ELSE Len(f) - 1) |-> f[i + 1] - f[i]]

\* execint 2: "enable interrupts before execution begins and execute interrupt routines";
\* offset: "defaults to the current value of the simulator's clock"
AudioOp(st, start, stop, execint, offset) ==
  LET r0 == st.sim.r
      r1 == [r0 EXCEPT ![rIFF] = IF execint = 2 THEN 1 ELSE r0[rIFF], ![rT] = IF offset >= 0 THEN offset ELSE r0[rT]]
      x == Run(r1, st.m, st.sim.fffd, st.sim.ay, start, stop, execint > 0, TRUE)
  IN [st |-> [st EXCEPT !.m = x.m, !.sim = WriteSim(Memptr(FALSE, r1, x.r), x.m, x.fffd, x.ay), !.ok = x.ok, !.n = x.n, !.in = x.in],
      delays |-> Delays(x.log)]
=============================================================================
