\* Pattern A: the chunk automaton against the declarative grammar, and the pixel function against matrix geometry
CONSTANTS
  MaxChunks = 11
  MaxOps = 2
  MaxSeq = 3
INIT MCInit
NEXT MCNext
INVARIANTS
  MCTypeOK
  AutomatonIsGrammar
  AutomatonAgreesWithRun
  EndIsFinal
  FlipFlipIsId
  Rotate4IsId
  FlipIsMirror
  RotateIsTurn
  ScaleIsRepeat
  CropIsSub
  CropOfCrop
  FlashIsSwap
CHECK_DEADLOCK FALSE
