------------------------------ MODULE PngCases ------------------------------
(***************************************************************************)
(* C15, pattern B: every image file written by the real code is judged      *)
(* against Png.tla.  A case =                                               *)
(*   frames   the abstract input (tile arrays before flip/rotate, scale,    *)
(*            mask type, cropping specification, offsets, delays)           *)
(*   tindex, alpha, pngalpha, anim   transparency / animation settings      *)
(*   obs      what an independent PNG reader found in the file:             *)
(*     chunks  [t, seq, nf, crc] in file order ("SIG" = signature ok)       *)
(*     ihdr    <<width, height, bit depth, colour type, compression,        *)
(*               filter, interlace>>, plen = PLTE length, pal = RGB triples,*)
(*     trns    alpha bytes, frames = one record per IDAT / fcTL+fdAT group: *)
(*               fc (has fcTL), w h xo yo dn dd dop bop, zok (zlib stream   *)
(*               complete, nothing after it, size = h * (1 + ceil(w*bd/8)), *)
(*               filter types valid), rows (palette indexes)                *)
(* CRC-32 and inflate are facts of the reader (DESIGN §5); everything else  *)
(* is decided here.  Verdict: "ok" or the first failing clause.             *)
(***************************************************************************)
EXTENDS Png, Json, IOUtils

Cases == JsonDeserialize(IOEnv.CASES)
VARIABLES tid, verdict

Str(n) == ToString(n)

\* first pixel (row-major) where the file and the display rules disagree, as text
FirstBad(rows, want, obsRgba, expRgba) ==
  LET y == CHOOSE yy \in 1..Len(want) : (\E x \in 1..Len(want[yy]) : obsRgba[rows[yy][x] + 1] # expRgba[want[yy][x] + 1])
                                         /\ \A y2 \in 1..(yy - 1) : \A x \in 1..Len(want[y2]) : obsRgba[rows[y2][x] + 1] = expRgba[want[y2][x] + 1]
      x == CHOOSE xx \in 1..Len(want[y]) : obsRgba[rows[y][xx] + 1] # expRgba[want[y][xx] + 1]
                                         /\ \A x2 \in 1..(xx - 1) : obsRgba[rows[y][x2] + 1] = expRgba[want[y][x2] + 1]
  IN "x" \o Str(x - 1) \o "y" \o Str(y - 1) \o ":want" \o Str(want[y][x]) \o ":got-index" \o Str(rows[y][x])

Same(rows, want, obsRgba, expRgba) ==
  \A y \in 1..Len(want) : \A x \in 1..Len(want[y]) : obsRgba[rows[y][x] + 1] = expRgba[want[y][x] + 1]

Shape(rows, w, h) == Len(rows) = h /\ \A y \in 1..h : Len(rows[y]) = w

Judge(c) ==
  LET o == c.obs
      F == c.frames
      nF == Len(F)
      run == ARun(o.chunks)
      T == Force([i \in 1..nF |-> Tiles(F[i])])
      wf == \A i \in 1..nF : WellFormedFrame(F[i], T[i])
      M0 == Force([i \in 1..nF |-> MatrixOf(F[i], T[i], 0)])
      flashTile == nF = 1 /\ \E r \in 1..Len(T[1]) : \E k \in 1..Len(T[1][r]) : Flashing(T[1][r][k].a)
      M1 == IF flashTile THEN MatrixOf(F[1], T[1], 1) ELSE M0[1]
      maskTrans == \E i \in 1..nF : \E y \in 1..Len(M0[i]) : \E x \in 1..Len(M0[i][y]) : M0[i][y][x] = 0
      tentry == TransparentEntry(maskTrans, c.tindex)
      alpha == EffAlpha(c.alpha, c.pngalpha)
      expRgba == Force([k \in 1..16 |-> Rgba(k - 1, tentry, alpha)])
      n == Len(o.pal)
      obsRgba == Force([i \in 1..n |-> o.pal[i] \o << IF i <= Len(o.trns) THEN o.trns[i] ELSE 255 >>])
      OF == o.frames
      nO == Len(OF)
      W == Len(M0[1][1])
      H == Len(M0[1])
      animated == \E i \in 1..Len(o.chunks) : o.chunks[i].t = "acTL"
      \* first observed frame with a defect of the given kind, 0 if none
      BadFrame(P(_)) == IF \E j \in 1..nO : P(j) THEN CHOOSE j \in 1..nO : P(j) /\ \A k \in 1..(j - 1) : ~P(k) ELSE 0
      badZ == BadFrame(LAMBDA j : OF[j].zok # 1)
      badShape == BadFrame(LAMBDA j : ~Shape(OF[j].rows, OF[j].w, OF[j].h))
      badIndex == BadFrame(LAMBDA j : \E y \in 1..Len(OF[j].rows) : \E x \in 1..Len(OF[j].rows[y]) : OF[j].rows[y][x] >= n)
      badFctl == BadFrame(LAMBDA j : \/ (animated /\ j > 1 /\ OF[j].fc # 1)
                                     \/ OF[j].w < 1 \/ OF[j].h < 1 \/ OF[j].xo < 0 \/ OF[j].yo < 0
                                     \/ OF[j].xo + OF[j].w > o.ihdr[1] \/ OF[j].yo + OF[j].h > o.ihdr[2]
                                     \/ (j = 1 /\ (OF[j].w # o.ihdr[1] \/ OF[j].h # o.ihdr[2] \/ OF[j].xo # 0 \/ OF[j].yo # 0)))
      badOps == BadFrame(LAMBDA j : OF[j].fc = 1 /\ (OF[j].dop # 0 \/ OF[j].bop # 0))
      \* multi-frame sequences: frame j is input frame j
      badGeom == BadFrame(LAMBDA j : j <= nF /\ nF > 1 /\
                            (OF[j].w # Len(M0[j][1]) \/ OF[j].h # Len(M0[j]) \/ OF[j].xo # F[j].xo \/ OF[j].yo # F[j].yo))
      badDelay == BadFrame(LAMBDA j : j <= nF /\ OF[j].fc = 1 /\
                            (OF[j].dn * 100) # (F[j].delay * (IF OF[j].dd = 0 THEN 100 ELSE OF[j].dd)))
      badPix == BadFrame(LAMBDA j : j <= nF /\ ~Same(OF[j].rows, M0[j], obsRgba, expRgba))
      \* flash: the canvas after the second frame
      C2 == Over(OF[1].rows, OF[2].rows, OF[2].xo, OF[2].yo)
  IN
  IF ~wf THEN "machinery:ill-formed-input"
  ELSE IF run.pos # "end" THEN "chunks:" \o (IF run.pos = "bad" THEN run.err ELSE "truncated-after-" \o run.pos)
  ELSE IF \E i \in 1..Len(o.chunks) : o.chunks[i].crc # 1 THEN "crc"
  ELSE IF o.ihdr[4] # 3 \/ o.ihdr[3] \notin {1, 2, 4, 8} \/ o.ihdr[5] # 0 \/ o.ihdr[6] # 0 \/ o.ihdr[7] # 0 THEN "ihdr:type"
  ELSE IF o.ihdr[1] # W \/ o.ihdr[2] # H THEN "ihdr:size:want" \o Str(W) \o "x" \o Str(H) \o ":got" \o Str(o.ihdr[1]) \o "x" \o Str(o.ihdr[2])
  ELSE IF (o.plen % 3) # 0 \/ n < 1 \/ n > 2 ^ o.ihdr[3] THEN "plte:size"
  ELSE IF Len(o.trns) > n THEN "trns:size"
  ELSE IF nO < 1 THEN "frames:none"
  ELSE IF badZ # 0 THEN "zlib:f" \o Str(badZ)
  ELSE IF badShape # 0 THEN "datalen:f" \o Str(badShape)
  ELSE IF badIndex # 0 THEN "plte:index-out-of-range:f" \o Str(badIndex)
  ELSE IF badFctl # 0 THEN "fctl:region:f" \o Str(badFctl)
  ELSE IF badOps # 0 THEN "fctl:ops:f" \o Str(badOps)
  ELSE IF c.anim = 0 /\ nF = 1 /\ (animated \/ nO # 1) THEN "anim:disabled-but-animated"
  ELSE IF nF > 1 /\ nO # nF THEN "frames:count:want" \o Str(nF) \o ":got" \o Str(nO)
  ELSE IF nF = 1 /\ nO > 2 THEN "frames:count:want1or2:got" \o Str(nO)
  ELSE IF badGeom # 0 THEN "fctl:geometry:f" \o Str(badGeom)
  ELSE IF badDelay # 0 THEN "fctl:delay:f" \o Str(badDelay)
  ELSE IF badPix # 0 THEN "pixel:f" \o Str(badPix) \o ":" \o FirstBad(OF[badPix].rows, M0[badPix], obsRgba, expRgba)
  ELSE IF c.anim = 1 /\ nF = 1 /\ nO = 1 /\ ~Same(OF[1].rows, M1, obsRgba, expRgba) THEN "flash:missing:" \o FirstBad(OF[1].rows, M1, obsRgba, expRgba)
  ELSE IF nF = 1 /\ nO = 2 /\ ~Same(C2, M1, obsRgba, expRgba) THEN "flash:frame2:" \o FirstBad(C2, M1, obsRgba, expRgba)
  ELSE "ok"

Init == tid \in 1..Len(Cases) /\ verdict = "pending" /\ JudgeIdle
Next == /\ verdict = "pending"
        /\ verdict' = Judge(Cases[tid])
        /\ UNCHANGED <<tid, mvars>>
        /\ (verdict' = "ok" \/ PrintT(<<"FAIL", tid, verdict'>>))
=============================================================================
