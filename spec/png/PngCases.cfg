CONSTANTS
  MaxChunks = 0
  MaxOps = 0
  MaxSeq = 0
INIT Init
NEXT Next
CHECK_DEADLOCK FALSE
