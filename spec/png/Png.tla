-------------------------------- MODULE Png --------------------------------
(***************************************************************************)
(* Spectrum images as PNG / APNG files (property C15).                      *)
(*                                                                          *)
(* Part 1  the Spectrum display rules: an image is an array of 8x8 tiles    *)
(*         (graphic bytes, attribute byte, optional mask bytes) that is     *)
(*         flipped / rotated as an array, scaled, masked and cropped;       *)
(*         Pixel(f, ph, x, y) is the colour (palette entry 0..15 of the     *)
(*         documented 16-entry palette) of output pixel (x, y) of frame f   *)
(*         in flash phase ph.                                               *)
(* Part 2  the colour/transparency rules (tindex, alpha, PNGAlpha).         *)
(* Part 3  the PNG/APNG chunk-order automaton (PNG ISO/IEC 15948 5.6 and    *)
(*         the APNG specification: acTL/fcTL/fdAT, sequence numbers).       *)
(* Part 4  a small state machine over both (pattern A, Png_mc.cfg) that     *)
(*         lets TLC check the automaton against a declarative grammar and   *)
(*         the pixel function against plain matrix geometry.                *)
(*                                                                          *)
(* Sources: skool-macros.rst (#UDG, #UDGARRAY, #FONT, #SCR, #FRAMES,        *)
(* Cropping, Masks, Palette), ref-files.rst ([ImageWriter]), commands.rst   *)
(* (sna2img.py), the ZX Spectrum attribute byte layout (FLASH, BRIGHT,      *)
(* PAPER, INK), PNG and APNG specifications.  Nothing here is transcribed   *)
(* from pngwriter.py / image.py.                                            *)
(***************************************************************************)
EXTENDS Integers, Sequences, FiniteSets, TLC

---------------------------------------------------------------------------
(* Part 1a: bytes and tiles                                                *)

Pow2 == <<1, 2, 4, 8, 16, 32, 64, 128>>
Bit(b, k) == (b \div Pow2[k + 1]) % 2      \* bit k of byte b; k = 0 is the least significant bit
Min(a, b) == IF a < b THEN a ELSE b
Max(a, b) == IF a > b THEN a ELSE b
\* TLC evaluates a function constructor lazily (element by element, again at every application);
\* Force turns it into an explicit sequence once, Map8 builds an explicit 8-tuple.
Force(s) == s \o <<>>
Map8(F(_)) == <<F(1), F(2), F(3), F(4), F(5), F(6), F(7), F(8)>>
Rev(s) == Force([i \in 1..Len(s) |-> s[Len(s) + 1 - i]])

\* the leftmost pixel of a graphic byte is bit 7
MirrorByte(b) == (Bit(b, 0) * 128) + (Bit(b, 1) * 64) + (Bit(b, 2) * 32) + (Bit(b, 3) * 16)
                 + (Bit(b, 4) * 8) + (Bit(b, 5) * 4) + (Bit(b, 6) * 2) + Bit(b, 7)

\* A tile is a record [a |-> attribute byte, d |-> 8 graphic bytes (top pixel row first),
\*                     m |-> 8 mask bytes, or <<>> when the tile has no mask].
TileH(t) == [a |-> t.a, d |-> Map8(LAMBDA i : MirrorByte(t.d[i])),
             m |-> IF Len(t.m) = 0 THEN <<>> ELSE Map8(LAMBDA i : MirrorByte(t.m[i]))]    \* mirror left-right
TileV(t) == [a |-> t.a, d |-> Rev(t.d), m |-> Rev(t.m)]                      \* mirror top-bottom

\* 90 degrees clockwise: the pixel at column x, row y moves to column 7-y, row x, i.e. new row i
\* (1..8) is old column i read from the bottom row (leftmost new pixel) to the top row.
RotBytes(d) == Map8(LAMBDA i :
    (Bit(d[1], 8 - i) * Pow2[1]) + (Bit(d[2], 8 - i) * Pow2[2]) + (Bit(d[3], 8 - i) * Pow2[3])
  + (Bit(d[4], 8 - i) * Pow2[4]) + (Bit(d[5], 8 - i) * Pow2[5]) + (Bit(d[6], 8 - i) * Pow2[6])
  + (Bit(d[7], 8 - i) * Pow2[7]) + (Bit(d[8], 8 - i) * Pow2[8]))
TileR(t) == [a |-> t.a, d |-> RotBytes(t.d), m |-> IF Len(t.m) = 0 THEN <<>> ELSE RotBytes(t.m)]

---------------------------------------------------------------------------
(* Part 1b: arrays of tiles (a sequence of rows, each a sequence of tiles) *)

Rows(u) == Len(u)
Cols(u) == Len(u[1])
FlipH(u) == Force([r \in 1..Len(u) |-> Force([c \in 1..Len(u[r]) |-> TileH(u[r][Len(u[r]) + 1 - c])])])
FlipV(u) == Force([r \in 1..Len(u) |-> Force([c \in 1..Len(u[1]) |-> TileV(u[Len(u) + 1 - r][c])])])
\* flip = 1 horizontally, 2 vertically, 3 both ways, 0 not at all
Flip(u, f) == LET a == IF f % 2 = 1 THEN FlipH(u) ELSE u
              IN IF (f \div 2) % 2 = 1 THEN FlipV(a) ELSE a
\* a quarter turn clockwise of an R x C array is a C x R array; its row r is old column r read bottom-up
RotCW(u) == Force([r \in 1..Len(u[1]) |-> Force([c \in 1..Len(u) |-> TileR(u[Len(u) + 1 - c][r])])])
\* rotate = number of quarter turns clockwise (3 = one quarter turn anticlockwise)
Rotate(u, n) == CASE n % 4 = 0 -> u
                  [] n % 4 = 1 -> RotCW(u)
                  [] n % 4 = 2 -> RotCW(RotCW(u))
                  [] OTHER -> RotCW(RotCW(RotCW(u)))
\* FlipThenRotate: the documentation lists flip before rotate and does not say more; the image macros
\* and sna2img flip first and rotate second, which is the order taken as the definition here.
Adjust(u, f, n) == Rotate(Flip(u, f), n)

\* sna2img -i: "invert video for cells that are flashing": ink and paper pixels are exchanged by
\* complementing the graphic bytes, and the cell stops flashing.
InvertTile(t) == IF t.a >= 128 THEN [a |-> t.a - 128, d |-> Map8(LAMBDA i : 255 - t.d[i]), m |-> t.m] ELSE t
Invert(u) == Force([r \in 1..Len(u) |-> Force([c \in 1..Len(u[r]) |-> InvertTile(u[r][c])])])

---------------------------------------------------------------------------
(* Part 1c: frames.  A frame is a record                                    *)
(*   udgs          the tile array as read from memory / handed to the API   *)
(*   flip, rot     flip/rotate parameters of the macro                      *)
(*   inv           1 = sna2img --invert                                     *)
(*   flip2, rot2   sna2img --flip / --rotate, applied to the macro's image  *)
(*   scale         >= 1: every source pixel covers scale x scale pixels     *)
(*   mask          0 none, 1 OR-AND, 2 AND-OR                               *)
(*   x, y, w, h    cropping specification; w = 0 / h = 0: up to the edge    *)
(*   xo, yo, delay position and delay (1/100 s) of the frame in an animation*)

Tiles(f) == Adjust(IF f.inv = 1 THEN Invert(Adjust(f.udgs, f.flip, f.rot)) ELSE Adjust(f.udgs, f.flip, f.rot),
                   f.flip2, f.rot2)

FullW(f, tiles) == 8 * f.scale * Cols(tiles)
FullH(f, tiles) == 8 * f.scale * Rows(tiles)
\* a requested width that reaches beyond the constructed image ends at its edge
ViewW(f, tiles) == IF f.w = 0 THEN FullW(f, tiles) - f.x ELSE Min(f.w, FullW(f, tiles) - f.x)
ViewH(f, tiles) == IF f.h = 0 THEN FullH(f, tiles) - f.y ELSE Min(f.h, FullH(f, tiles) - f.y)
WellFormedFrame(f, tiles) == /\ f.scale >= 1 /\ f.mask \in 0..2
                             /\ f.x >= 0 /\ f.y >= 0 /\ f.x < FullW(f, tiles) /\ f.y < FullH(f, tiles)
                             /\ f.w >= 0 /\ f.h >= 0

\* What a pixel of a tile shows: 0 = paper, 1 = ink, 2 = transparent (background shows through).
\* (skool-macros.rst, "Masks"; U = graphic bit, M = mask bit.)  A tile without mask bytes is not masked.
KPaper == 0
KInk == 1
KTrans == 2
Kind(t, mtype, row, col) ==        \* row 0..7 from the top, col 0..7 from the left
  LET u == Bit(t.d[row + 1], 7 - col)
  IN IF mtype = 0 \/ Len(t.m) = 0 THEN u
     ELSE LET m == Bit(t.m[row + 1], 7 - col)
          IN IF mtype = 1
             THEN (IF m = 0 THEN KPaper ELSE IF u = 1 THEN KInk ELSE KTrans)       \* OR-AND: 00 P, 01 T, 10 P, 11 I
             ELSE (IF u = 1 THEN KInk ELSE IF m = 1 THEN KTrans ELSE KPaper)       \* AND-OR: 00 P, 01 T, 10 I, 11 I

\* Attribute byte: bit 7 FLASH, bit 6 BRIGHT, bits 5-3 PAPER, bits 2-0 INK.
\* Palette (skool-macros.rst "Palette"): 0 transparent, 1 black, 2..8 blue red magenta green cyan yellow
\* white, 9..15 their bright versions.  Bright black is black.
ColourOf(c, bright) == IF c = 0 THEN 1 ELSE IF bright = 1 THEN 8 + c ELSE 1 + c
InkOf(a) == ColourOf(a % 8, (a \div 64) % 2)
PaperOf(a) == ColourOf((a \div 8) % 8, (a \div 64) % 2)
Flashing(a) == a >= 128

\* Colour of pixel (X, Y) of the uncropped scaled image built from `tiles`; phase 0 = normal,
\* phase 1 = the other half of the flash cycle (ink and paper exchanged in flashing cells).
ColourAt(tiles, scale, mtype, phase, X, Y) ==
  LET t == tiles[(Y \div (8 * scale)) + 1][(X \div (8 * scale)) + 1]
      k == Kind(t, mtype, (Y \div scale) % 8, (X \div scale) % 8)
      sw == phase = 1 /\ Flashing(t.a)
  IN IF k = KTrans THEN 0
     ELSE IF (k = KInk) # sw THEN InkOf(t.a) ELSE PaperOf(t.a)

\* Pixel (x, y) of the cropped frame
Pixel(f, phase, x, y) == ColourAt(Tiles(f), f.scale, f.mask, phase, x + f.x, y + f.y)

\* the whole frame as a matrix M[y][x], 1-based (pixel (x, y) is M[y + 1][x + 1])
MatrixOf(f, tiles, phase) ==
  LET vw == ViewW(f, tiles)
      vh == ViewH(f, tiles)
  IN Force([y \in 1..vh |-> Force([x \in 1..vw |-> ColourAt(tiles, f.scale, f.mask, phase, x - 1 + f.x, y - 1 + f.y)])])
Matrix(f, phase) == MatrixOf(f, Tiles(f), phase)

\* An animation shows frame j of a sequence at (xo, yo) on the canvas of frame 1 (APNG dispose "none",
\* blend "source"): what is on the canvas after frame B was rendered over canvas A
Over(A, B, xo, yo) == Force([y \in 1..Len(A) |-> Force([x \in 1..Len(A[y]) |->
                         IF y > yo /\ y <= yo + Len(B) /\ x > xo /\ x <= xo + Len(B[1]) THEN B[y - yo][x - xo] ELSE A[y][x]])])

---------------------------------------------------------------------------
(* Part 2: colours in the file                                              *)

\* [Colours] defaults (ref-files.rst); index = palette entry + 1
Rgb == << <<0, 254, 0>>, <<0, 0, 0>>, <<0, 0, 197>>, <<197, 0, 0>>, <<197, 0, 197>>, <<0, 198, 0>>,
          <<0, 198, 197>>, <<197, 198, 0>>, <<205, 198, 205>>, <<0, 0, 255>>, <<255, 0, 0>>,
          <<255, 0, 255>>, <<0, 255, 0>>, <<0, 255, 255>>, <<255, 255, 0>>, <<255, 255, 255>> >>

\* alpha of the transparent colour: the frame's alpha parameter, or PNGAlpha when that is -1
EffAlpha(alpha, pngalpha) == IF alpha < 0 THEN pngalpha ELSE alpha

\* The colour that is rendered with EffAlpha: entry 0 when a mask produced transparent pixels
\* anywhere in the image; otherwise palette entry tindex ("used as the transparent colour only if
\* the image does not already contain any transparent bits produced by a mask").
TransparentEntry(hasMaskTrans, tindex) == IF hasMaskTrans THEN 0 ELSE tindex

\* expected <<r, g, b, a>> of a pixel showing palette entry c
Rgba(c, tentry, alpha) == Rgb[c + 1] \o << IF c = tentry THEN alpha ELSE 255 >>

---------------------------------------------------------------------------
(* Part 3: chunk order.  A chunk is [t |-> type, seq |-> APNG sequence number or -1,                *)
(* nf |-> num_frames of acTL or -1]; "SIG" stands for the 8 signature bytes.                          *)

AStart == [pos |-> "start", anim |-> FALSE, decl |-> 0, fc |-> 0, seq |-> 0, err |-> ""]
ABad(s, why) == [s EXCEPT !.pos = "bad", !.err = why]
AGo(s, from, to, c) == IF s.pos \in from THEN [s EXCEPT !.pos = to] ELSE ABad(s, "order:" \o c.t \o "-after-" \o s.pos)

AStep(s, c) ==
  CASE s.pos = "bad" -> s
    [] s.pos = "end" -> ABad(s, "order:" \o c.t \o "-after-IEND")
    [] c.t = "SIG" -> AGo(s, {"start"}, "sig", c)
    [] c.t = "IHDR" -> AGo(s, {"sig"}, "ihdr", c)
    [] c.t = "PLTE" -> AGo(s, {"ihdr"}, "plte", c)
    [] c.t = "tRNS" -> AGo(s, {"plte"}, "trns", c)
    [] c.t = "acTL" -> IF c.nf < 1 THEN ABad(s, "acTL:num_frames")
                       ELSE [AGo(s, {"plte", "trns"}, "actl", c) EXCEPT !.anim = TRUE, !.decl = c.nf]
    [] c.t = "fcTL" -> IF ~s.anim THEN ABad(s, "fcTL-without-acTL")
                       ELSE IF c.seq # s.seq THEN ABad(s, "sequence-number")
                       ELSE [AGo(s, {"actl", "idat", "fdat"}, IF s.pos = "actl" THEN "fctl0" ELSE "fctl", c)
                             EXCEPT !.seq = s.seq + 1, !.fc = s.fc + 1]
    [] c.t = "IDAT" -> AGo(s, {"plte", "trns", "actl", "fctl0", "idat"}, "idat", c)
    [] c.t = "fdAT" -> IF c.seq # s.seq THEN ABad(s, "sequence-number")
                       ELSE [AGo(s, {"fctl", "fdat"}, "fdat", c) EXCEPT !.seq = s.seq + 1]
    [] c.t = "IEND" -> IF s.anim /\ s.fc # s.decl THEN ABad(s, "frame-count")
                       ELSE AGo(s, {"idat", "fdat"}, "end", c)
    [] OTHER -> ABad(s, "unexpected-chunk:" \o c.t)

ARun(chunks) == LET run[i \in 0..Len(chunks)] == IF i = 0 THEN AStart ELSE AStep(run[i - 1], chunks[i])
                IN run[Len(chunks)]
Accepted(chunks) == ARun(chunks).pos = "end"

\* The same language, declaratively: SIG IHDR PLTE [tRNS] [acTL [fcTL]] IDAT+ (fcTL fdAT+)* IEND,
\* sequence numbers of fcTL/fdAT chunks count 0, 1, 2, ...; number of fcTL chunks = acTL.num_frames.
Types(h) == [i \in 1..Len(h) |-> h[i].t]
Keep(ts, i) == i = 1 \/ ts[i] # ts[i - 1] \/ ts[i] \notin {"IDAT", "fdAT"}
RECURSIVE CollapseFrom(_, _)
CollapseFrom(ts, i) == IF i > Len(ts) THEN <<>>
                       ELSE (IF Keep(ts, i) THEN <<ts[i]>> ELSE <<>>) \o CollapseFrom(ts, i + 1)
Collapse(ts) == CollapseFrom(ts, 1)
RECURSIVE Rep(_, _)
Rep(s, k) == IF k = 0 THEN <<>> ELSE s \o Rep(s, k - 1)
Heads == { <<"SIG", "IHDR", "PLTE">> \o tr \o an : tr \in {<<>>, <<"tRNS">>},
                                                    an \in {<<>>, <<"acTL">>, <<"acTL", "fcTL">>} }
InLanguage(ts) == \E hd \in Heads, k \in 0..Len(ts) :
                     /\ ts = hd \o <<"IDAT">> \o Rep(<<"fcTL", "fdAT">>, k) \o <<"IEND">>
                     /\ (k > 0 => hd[Len(hd)] \in {"acTL", "fcTL"})
Numbered(h) == SelectSeq(h, LAMBDA c : c.t \in {"fcTL", "fdAT"})
SeqOK(h) == LET n == Numbered(h) IN \A i \in 1..Len(n) : n[i].seq = i - 1
CountOK(h) == \A i \in 1..Len(h) : h[i].t = "acTL" =>
                 h[i].nf = Cardinality({j \in 1..Len(h) : h[j].t = "fcTL"}) /\ h[i].nf >= 1
ValidFile(h) == InLanguage(Collapse(Types(h))) /\ SeqOK(h) /\ CountOK(h)

---------------------------------------------------------------------------
(* Part 4: the model checked by Png_mc.cfg                                  *)
(* mode "chunks": feed every chunk sequence up to MaxChunks to the automaton *)
(* mode "pixels": apply flips and rotations to small tile arrays             *)
(* mode "judge" : idle (PngCases)                                            *)

CONSTANTS MaxChunks, MaxOps, MaxSeq
VARIABLES mode, aut, hist, arr, nops
mvars == <<mode, aut, hist, arr, nops>>

Alphabet == { [t |-> ty, seq |-> -1, nf |-> -1] : ty \in {"SIG", "IHDR", "PLTE", "tRNS", "IDAT", "IEND", "zTXt"} }
            \cup { [t |-> "acTL", seq |-> -1, nf |-> n] : n \in 0..2 }
            \cup { [t |-> ty, seq |-> q, nf |-> -1] : ty \in {"fcTL", "fdAT"}, q \in 0..MaxSeq }

\* asymmetric tiles, so that no flip or rotation maps one to itself or to another
T1 == [a |-> 56, d |-> <<128, 64, 3, 0, 5, 0, 0, 16>>, m |-> <<>>]
T2 == [a |-> 199, d |-> <<1, 2, 4, 0, 240, 0, 9, 0>>, m |-> <<255, 129, 0, 60, 15, 1, 2, 3>>]
T3 == [a |-> 66, d |-> <<0, 0, 0, 0, 0, 0, 0, 0>>, m |-> <<>>]
SmallTiles == {T1, T2, T3}
SmallArrays == { <<r1>> : r1 \in { <<a>> : a \in SmallTiles } \cup { <<a, b>> : a \in {T1, T2}, b \in SmallTiles } }
               \cup { <<r1, r2>> : r1 \in { <<T1>>, <<T2>> }, r2 \in { <<a>> : a \in SmallTiles } }
               \cup { << <<T1, b>>, <<c, d>> >> : b \in {T1, T2}, c \in {T2, T3}, d \in SmallTiles }

IdleChunks == aut = AStart /\ hist = <<>>
IdlePixels == arr = <<>> /\ nops = 0
MCInit == \/ mode = "chunks" /\ IdleChunks /\ IdlePixels
          \/ mode = "pixels" /\ IdleChunks /\ arr \in SmallArrays /\ nops = 0
JudgeIdle == mode = "judge" /\ IdleChunks /\ IdlePixels

Feed(c) == /\ mode = "chunks" /\ aut.pos \notin {"bad", "end"} /\ Len(hist) < MaxChunks
           /\ aut' = AStep(aut, c) /\ hist' = Append(hist, c)
           /\ UNCHANGED <<mode, arr, nops>>
DoFlip(f) == /\ mode = "pixels" /\ nops < MaxOps
             /\ arr' = Flip(arr, f) /\ nops' = nops + 1 /\ UNCHANGED <<mode, aut, hist>>
DoRotate(n) == /\ mode = "pixels" /\ nops < MaxOps
               /\ arr' = Rotate(arr, n) /\ nops' = nops + 1 /\ UNCHANGED <<mode, aut, hist>>
MCNext == (\E c \in Alphabet : Feed(c)) \/ (\E f \in 1..3 : DoFlip(f)) \/ (\E n \in 1..3 : DoRotate(n))

\* ---- invariants: automaton ----
AutomatonIsGrammar == mode = "chunks" => ((aut.pos = "end") <=> ValidFile(hist))
AutomatonAgreesWithRun == mode = "chunks" => ARun(hist) = aut
EndIsFinal == mode = "chunks" /\ aut.pos = "end" => hist[Len(hist)].t = "IEND"

\* ---- invariants: pixel function against matrix geometry ----
Fr(u, s, mt, x, y, w, h) == [udgs |-> u, flip |-> 0, rot |-> 0, inv |-> 0, flip2 |-> 0, rot2 |-> 0, scale |-> s,
                             mask |-> mt, x |-> x, y |-> y, w |-> w, h |-> h, xo |-> 0, yo |-> 0, delay |-> 32]
Plain(u, s, mt) == Matrix(Fr(u, s, mt, 0, 0, 0, 0), 0)
MirrorLR(M) == Force([y \in 1..Len(M) |-> Rev(M[y])])
MirrorTB(M) == Rev(M)
TurnCW(M) == Force([y \in 1..Len(M[1]) |-> Force([x \in 1..Len(M) |-> M[Len(M) + 1 - x][y]])])
Sub(M, x, y, w, h) == Force([j \in 1..h |-> Force([i \in 1..w |-> M[y + j][x + i]])])

FlipFlipIsId == mode = "pixels" => \A f \in 0..3 : Flip(Flip(arr, f), f) = arr
Rotate4IsId == mode = "pixels" => /\ RotCW(RotCW(RotCW(RotCW(arr)))) = arr
                                  /\ \A n \in 0..3 : Rotate(Rotate(arr, n), 4 - n) = arr
                                  /\ Rotate(arr, 2) = Flip(arr, 3)
\* (scale 1 is checked with the OR-AND mask, scale 2 with the AND-OR mask)
FlipIsMirror == mode = "pixels" => \A s \in 1..2 :
                   LET P == Plain(arr, s, s)
                   IN /\ Plain(Flip(arr, 1), s, s) = MirrorLR(P)
                      /\ Plain(Flip(arr, 2), s, s) = MirrorTB(P)
                      /\ Plain(Flip(arr, 3), s, s) = MirrorTB(MirrorLR(P))
RotateIsTurn == mode = "pixels" => \A s \in 1..2 :
                   LET P == Plain(arr, s, s)
                   IN /\ Plain(Rotate(arr, 1), s, s) = TurnCW(P)
                      /\ Plain(Rotate(arr, 3), s, s) = TurnCW(TurnCW(TurnCW(P)))
ScaleIsRepeat == mode = "pixels" => \A mt \in 0..2 :
                   LET P == Plain(arr, 1, mt) Q == Plain(arr, 3, mt)
                   IN /\ Len(Q) = 3 * Len(P) /\ Len(Q[1]) = 3 * Len(P[1])
                      /\ \A y \in 1..Len(Q), x \in 1..Len(Q[1]) : Q[y][x] = P[((y - 1) \div 3) + 1][((x - 1) \div 3) + 1]
\* crop = sub-matrix of the uncropped image; crop of a crop = one crop with added origins
CropXs == {0, 1, 7, 9}
CropWs == {1, 6, 8}
CropIsSub == mode = "pixels" /\ nops = 0 => \A s \in 1..2 :
                LET P == Plain(arr, s, 1)
                IN \A x \in CropXs, y \in CropXs, w \in CropWs, h \in CropWs :
                     (x + w <= Len(P[1]) /\ y + h <= Len(P)) => Matrix(Fr(arr, s, 1, x, y, w, h), 0) = Sub(P, x, y, w, h)
CropOfCrop == mode = "pixels" /\ nops = 0 =>
                LET P == Plain(arr, 2, 2)
                IN \A x1 \in {0, 3}, y1 \in {1, 8} :
                     LET w1 == Len(P[1]) - x1 - 1
                         h1 == Len(P) - y1 - 1
                         C1 == Matrix(Fr(arr, 2, 2, x1, y1, w1, h1), 0)
                     IN /\ Len(C1) = h1 /\ Len(C1[1]) = w1
                        /\ \A x2 \in {0, 2}, y2 \in {0, 5}, w2 \in {1, 3}, h2 \in {2} :
                             (x2 + w2 <= w1 /\ y2 + h2 <= h1) =>
                               Sub(C1, x2, y2, w2, h2) = Matrix(Fr(arr, 2, 2, x1 + x2, y1 + y2, w2, h2), 0)
\* the second flash phase differs from the first exactly in flashing cells whose ink and paper differ
FlashIsSwap == mode = "pixels" => \A mt \in 0..2 :
                 LET f == Fr(arr, 1, mt, 0, 0, 0, 0)
                     A == Matrix(f, 0) B == Matrix(f, 1)
                 IN \A y \in 1..Len(A), x \in 1..Len(A[1]) :
                      LET t == arr[((y - 1) \div 8) + 1][((x - 1) \div 8) + 1]
                      IN IF Flashing(t.a) /\ A[y][x] # 0
                         THEN {A[y][x], B[y][x]} = {InkOf(t.a), PaperOf(t.a)}
                         ELSE A[y][x] = B[y][x]
MCTypeOK == /\ mode \in {"chunks", "pixels", "judge"} /\ nops \in 0..MaxOps /\ Len(hist) <= MaxChunks
            /\ aut.pos \in {"start", "sig", "ihdr", "plte", "trns", "actl", "fctl0", "idat", "fctl", "fdat", "end", "bad"}
=============================================================================
