CONSTANTS
  FD = 40
  CB = 8
  CE = 27
  CF = 50
  ID1 = 3
  ID2 = 5
  MaxDelays = 2
SPECIFICATION Spec
INVARIANTS TypeOK InvIntsExact InvCmioClose InvBothClose InvLonger InvVariantFlags InvRender InvSteady InvHeader
CHECK_DEADLOCK FALSE
