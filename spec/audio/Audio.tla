------------------------------- MODULE Audio -------------------------------
(***************************************************************************)
(* E04 - audio generation: what a WAV file written for the #AUDIO macro /   *)
(* trace.py must contain.                                                   *)
(*                                                                          *)
(* Sources: the RIFF/WAVE PCM format definition (Microsoft/IBM Multimedia   *)
(* Programming Interface 1.0); SkoolKit's documentation of #AUDIO           *)
(* (skool-macros.rst), of the [AudioWriter] section (ref-files.rst) and of  *)
(* trace.py (commands.rst); the General Instrument AY-3-8910/8912 data      *)
(* sheet (tone / noise / envelope period arithmetic, mixer, envelope shape  *)
(* diagram, logarithmic D/A).                                               *)
(*                                                                          *)
(* Whatever those sources fix is stated as a plain operator and judged      *)
(* (AudioCases.tla).  What they leave open but the implementation has to    *)
(* choose is a NAMED operator, marked [impl]; a difference there is drift.  *)
(*                                                                          *)
(*   1  arithmetic helpers                                                  *)
(*   2  RIFF/WAVE PCM container                                             *)
(*   3  16-bit sample encoding                                    [impl]    *)
(*   4  beeper: delays -> adjusted delays (contention, interrupts)          *)
(*   5  beeper: adjusted delays -> samples                                  *)
(*   6  AY-3-8912: registers, generators, envelope shapes, mixer, D/A       *)
(*   7  AY: register log -> frames -> samples                     [impl]    *)
(*   8  AY: what the data sheet implies for a stream of samples             *)
(*                                                                          *)
(* All numbers stay below 2^31 (TLC integers); rationals are pairs.         *)
(***************************************************************************)
EXTENDS Integers, Sequences, FiniteSets, TLC
SX == INSTANCE SequencesExt

-----------------------------------------------------------------------------
(* 1. helpers *)
Max(a, b) == IF a >= b THEN a ELSE b
Min(a, b) == IF a <= b THEN a ELSE b
Abs(a) == IF a < 0 THEN 0 - a ELSE a
RECURSIVE Gcd(_, _)
Gcd(a, b) == IF b = 0 THEN a ELSE Gcd(b, a % b)
CeilDiv(a, b) == (a + (b - 1)) \div b
\* TLC keeps [i \in S |-> e] as a rule that is re-evaluated at every application: Force makes it an explicit sequence once
Force(s) == s \o <<>>
Upto(n) == Force([i \in 1..n |-> i])
Fold(Op(_, _), base, seq) == SX!FoldLeft(Op, base, seq)
Sum(seq) == Fold(LAMBDA a, x : a + x, 0, seq)
Bit(v, n) == (v \div (2 ^ n)) % 2
Xor(a, b) == IF a = b THEN 0 ELSE 1
\* the reduced fraction a/b as <<p, q>>
Frac(a, b) == LET g == Gcd(a, b) IN <<a \div g, b \div g>>
\* (a*b)/(c*d) reduced without forming a*b or c*d first (each factor < 2^31)
Frac4(a, b, c, d) ==
  LET g1 == Gcd(a, c)  a1 == a \div g1  c1 == c \div g1
      g2 == Gcd(a1, d) a2 == a1 \div g2 d1 == d \div g2
      g3 == Gcd(b, c1) b1 == b \div g3  c2 == c1 \div g3
      g4 == Gcd(b1, d1) b2 == b1 \div g4 d2 == d1 \div g4
  IN <<a2 * b2, c2 * d2>>

-----------------------------------------------------------------------------
(* 2. RIFF/WAVE, PCM.                                                       *)
(*    "RIFF" size "WAVE" { ckID ckSize data [pad to even] }                 *)
(*    fmt-ck: wFormatTag(1 = PCM) nChannels nSamplesPerSec nAvgBytesPerSec  *)
(*            nBlockAlign wBitsPerSample; nBlockAlign = nChannels *         *)
(*            bits/8; nAvgBytesPerSec = nSamplesPerSec * nBlockAlign;       *)
(*    the fmt chunk precedes the data chunk; RIFF size = file length - 8.   *)

\* the fields as functions of (channels, sample rate, bits, number of sample frames); no other chunk
WavFields(ch, rate, bits, nframes) ==
  LET ba == ch * (bits \div 8)
      dl == nframes * ba
  IN [format |-> 1, channels |-> ch, rate |-> rate, byteRate |-> rate * ba, blockAlign |-> ba, bits |-> bits,
      fmtSize |-> 16, dataSize |-> dl, riffSize |-> 4 + (8 + 16) + (8 + dl + (dl % 2)),
      fileLen |-> 8 + 4 + (8 + 16) + (8 + dl + (dl % 2))]

(* What the harness reader found (a projection of the bytes, no judgement):   *)
(*   riff, wave  1 when the tags are "RIFF" / "WAVE"                          *)
(*   riffSize, fileLen                                                        *)
(*   chunks  <<[id, size, off]>> in file order, over = 1 when a chunk runs    *)
(*           past the end of the file                                         *)
(*   fmt     <<format, channels, rate, byteRate, blockAlign, bits>> of the    *)
(*           first "fmt " chunk (<<>> when there is none or it is < 16 bytes) *)
(*   samples the 16-bit little endian signed integers of the first "data"     *)
(*           chunk, interleaved (<<>> unless bits = 16)                       *)
ChunkIdx(w, id) == {i \in 1..Len(w.chunks) : w.chunks[i].id = id}
Padded(n) == n + (n % 2)

WavClause(w) ==
  LET f == ChunkIdx(w, "fmt ")
      d == ChunkIdx(w, "data")
      fi == CHOOSE i \in f : \A j \in f : i <= j
      di == CHOOSE i \in d : \A j \in d : i <= j
      F == w.fmt
  IN IF w.riff # 1 THEN "riff-id"
     ELSE IF w.wave # 1 THEN "wave-id"
     ELSE IF w.riffSize + 8 # w.fileLen THEN "riff-size"
     ELSE IF w.over # 0 THEN "chunk-overrun"
     ELSE IF w.riffSize # 4 + Sum([i \in 1..Len(w.chunks) |-> 8 + Padded(w.chunks[i].size)]) THEN "chunk-sum"
     ELSE IF Cardinality(f) # 1 THEN "fmt-count"
     ELSE IF Cardinality(d) # 1 THEN "data-count"
     ELSE IF fi > di THEN "fmt-after-data"
     ELSE IF w.chunks[fi].size < 16 \/ Len(F) # 6 THEN "fmt-size"
     ELSE IF F[1] # 1 THEN "format-tag"
     ELSE IF F[2] < 1 THEN "channels"
     ELSE IF F[6] < 8 \/ (F[6] % 8) # 0 THEN "bits"
     ELSE IF F[5] # F[2] * (F[6] \div 8) THEN "block-align"
     ELSE IF F[4] # F[3] * F[5] THEN "byte-rate"
     ELSE IF (w.chunks[di].size % F[5]) # 0 THEN "data-align"
     ELSE "ok"

WavDataSize(w) == LET d == ChunkIdx(w, "data") IN w.chunks[CHOOSE i \in d : \A j \in d : i <= j].size
WavFrames(w) == WavDataSize(w) \div w.fmt[5]

\* a stream of one channel out of interleaved samples
Stream(samples, nch, c) == Force([i \in 1..(Len(samples) \div nch) |-> samples[(i - 1) * nch + c]])

-----------------------------------------------------------------------------
(* 3. [impl] sample encoding: a level x in [0, 1] is written as the signed  *)
(* 16-bit number round(65535 x) - 32768 ("offset binary": silence = -32768).*)
(* x is given as num/den; a value exactly half way may go either way        *)
(* (the implementation rounds a binary floating point product).             *)
PcmSet(num, den) ==                          \* requires num * 65535 < 2^31
  LET n == num * 65535
      q == n \div den
      r == n % den
  IN IF 2 * r < den THEN {q - 32768}
     ELSE IF 2 * r > den THEN {q + 1 - 32768}
     ELSE {q - 32768, q + 1 - 32768}
\* the same for n/den already multiplied by 65535
PcmSetQ(q, r, den) ==
  IF 2 * r < den THEN {q - 32768} ELSE IF 2 * r > den THEN {q + 1 - 32768} ELSE {q - 32768, q + 1 - 32768}

\* [impl] "audio volume percentage": values outside 0..100 are clamped
ClampVol(v) == Max(0, Min(100, v))

-----------------------------------------------------------------------------
(* 4. Beeper: the delays are T-states of program time between speaker state *)
(* changes.  With cmio/execint the #AUDIO macro adjusts them:               *)
(*   "increases any delays that occur during the contended period of a      *)
(*    frame by a given factor (ContentionBegin, ContentionEnd,              *)
(*    ContentionFactor = percentage slowdown)"                              *)
(*   "increases any delays that occur over a frame boundary by a given      *)
(*    number of T-states (InterruptDelay)"                                  *)
(*   "offset = the initial offset in T-states from the start of a frame"    *)
(* Model: a position pos in the frame (0..fd-1) advances with real time.     *)
(* One program T-state takes (100+cf)/100 real T-states while pos is in     *)
(* [cb, ce) and 1 elsewhere; when pos reaches fd it becomes 0 and an        *)
(* interrupt routine of ids[j] T-states (j cycles through the list) runs    *)
(* before the program continues.  The adjusted delay is the real time.      *)
(*                                                                          *)
(* cfg = [cs, sr, cb, ce, cf, fd, ids]   opt = [vol, cmio, ints, off]       *)
(* The walk below goes segment by segment (uncontended gap, contended       *)
(* period, rest of frame).  Bookkeeping as in the documentation's terms:    *)
(*   D    the delay as adjusted so far (real time if the rest is unhindered)*)
(*   el   real time of the delay already accounted for                      *)
(* Choices the documentation does not make (all [impl], built into Walk):     *)
(*   - scaled amounts are truncated to whole T-states                       *)
(*   - a delay that ends exactly on the frame boundary takes the interrupt  *)
(*   - when the first delay starts at position 0 the interrupt is taken to  *)
(*     have just happened (position = its length, nothing is added)         *)
(*   - the interrupt routine itself is not slowed down by contention        *)

ScaleUp(w, cf) == (w * (100 + cf)) \div 100          \* real time of w contended program T-states (truncated)
ScaleDown(p, cf) == (p * 100) \div (100 + cf)        \* program T-states done in p contended real T-states (truncated)
ScaleUpTie(w, cf) == ((w * (100 + cf)) % 100) = 0     \* binary floating point may land on either side of these
ScaleDownTie(p, cf) == ((p * 100) % (100 + cf)) = 0

(* Two deviations of skoolkit 10.x from this model are named so that a        *)
(* mismatch can be attributed to them; v = [span, first] switches them on:     *)
(*  v.span  (ImplSpanBook) after a delay has used up a whole contended period  *)
(*          of p real T-states doing k = ScaleDown(p) program T-states, the    *)
(*          real time accounted for must grow by p; skoolkit advances it by k, *)
(*          so the remainder of the delay (and the frame position after it)    *)
(*          is too long by p - k.                                              *)
(*  v.first (ImplFirstDelayExempt) skoolkit never adds an interrupt delay to   *)
(*          the first delay of the list, also when that delay crosses a frame  *)
(*          boundary later on.                                                 *)
DocSpanBook(p, k) == p
ImplSpanBook(p, k) == k
DocVariant == [span |-> FALSE, first |-> FALSE]
\* Both deviations were found by this specification and repaired in skoolkit (fix commits e0b2cb9 and ed48092), so the
\* implementation is now expected to follow the documented variant; v.span / v.first stay as named operators so that a
\* regression is reported under its name (adjust:ImplSpanBook / adjust:ImplFirstDelayExempt).
ImplVariant == DocVariant
OldImplVariant == [span |-> TRUE, first |-> TRUE]

\* one delay: s = [pos, D, el, j, segs, tie, span, fcross, one, first]
\*   one = this is the first delay of the list, first = ... and it is still at its initial position
RECURSIVE Walk(_, _, _, _)
Walk(cfg, opt, v, s0) ==
  LET nid == Len(cfg.ids)
      intr == opt.ints = 1 /\ s0.pos = 0
      id == cfg.ids[s0.j]
      exempt == s0.first \/ (v.first /\ s0.one)
      s == IF intr
           THEN [s0 EXCEPT !.pos = id, !.D = IF exempt THEN @ ELSE @ + id, !.el = IF exempt THEN @ ELSE @ + id,
                           !.j = (s0.j % nid) + 1, !.fcross = @ \/ (s0.one /\ ~s0.first)]
           ELSE s0
      rem == s.D - s.el
  IN IF opt.cmio = 1 /\ s.pos < cfg.ce
     THEN IF s.pos < cfg.cb
          THEN LET gap == cfg.cb - s.pos
               IN IF gap >= rem
                  THEN [s EXCEPT !.pos = @ + rem]                                       \* ends before the contended period
                  ELSE Walk(cfg, opt, v, [s EXCEPT !.el = @ + gap, !.pos = cfg.cb, !.first = FALSE])
          ELSE LET period == cfg.ce - s.pos
                   need == ScaleUp(rem, cfg.cf)
                   k == ScaleDown(period, cfg.cf)
               IN IF need < period
                  THEN [s EXCEPT !.D = s.el + need, !.pos = @ + need, !.segs = @ + 1,
                                 !.tie = @ \/ ScaleUpTie(rem, cfg.cf)]                   \* ends within it
                  ELSE Walk(cfg, opt, v,
                            [s EXCEPT !.D = @ + (period - k), !.pos = cfg.ce, !.segs = @ + 1, !.span = TRUE,
                                      !.el = @ + (IF v.span THEN ImplSpanBook(period, k) ELSE DocSpanBook(period, k)),
                                      !.tie = @ \/ ScaleUpTie(rem, cfg.cf) \/ ScaleDownTie(period, cfg.cf) \/ need = period,
                                      !.first = FALSE])
     ELSE LET room == cfg.fd - s.pos
          IN IF rem < room
             THEN [s EXCEPT !.pos = @ + rem]                                            \* ends before the frame boundary
             ELSE Walk(cfg, opt, v, [s EXCEPT !.el = @ + room, !.pos = 0, !.first = FALSE,
                                              !.tie = @ \/ (rem = room /\ opt.ints = 1)])

\* all delays: -> [adj, pos, j, segs, tie, span, fcross]; adj = the adjusted delays
Adjust(cfg, opt, v, delays) ==
  IF opt.cmio # 1 /\ opt.ints # 1
  THEN [adj |-> delays, pos |-> 0, j |-> 1, segs |-> 0, tie |-> FALSE, span |-> FALSE, fcross |-> FALSE]
  ELSE Fold(LAMBDA a, i :
              LET r == Walk(cfg, opt, v, [pos |-> a.pos, D |-> delays[i], el |-> 0, j |-> a.j, segs |-> a.segs, tie |-> a.tie,
                                          span |-> a.span, fcross |-> a.fcross, one |-> i = 1, first |-> i = 1])
              IN [adj |-> Append(a.adj, r.D), pos |-> r.pos, j |-> r.j, segs |-> r.segs, tie |-> r.tie, span |-> r.span,
                  fcross |-> r.fcross],
            [adj |-> <<>>, pos |-> opt.off, j |-> 1, segs |-> 0, tie |-> FALSE, span |-> FALSE, fcross |-> FALSE],
            Upto(Len(delays)))

-----------------------------------------------------------------------------
(* 5. Beeper samples.  "SampleRate - sample rate in Hz", "ClockSpeed - Z80   *)
(* clock speed in cycles per second"; the documented example gives the       *)
(* duration of the file as sum(delays) / ClockSpeed.  One sample period is   *)
(* cycle = cs/sr T-states = P/Q; sample k = 0, 1, ... covers the T-states t  *)
(* with k*cycle <= t < (k+1)*cycle, i.e. Bound(k) <= t < Bound(k+1).         *)
Cycle(cfg) == Frac(cfg.cs, cfg.sr)
Bound(PQ, k) == CeilDiv(k * PQ[1], PQ[2])
\* whole sample periods in `total` T-states
NumSamples(PQ, total) == (total * PQ[2]) \div PQ[1]
\* [impl] the boundary is found by adding a binary floating point cycle k times: where k*cycle is a whole number
\* the sum may lie just above it and the boundary one T-state later
BoundTie(PQ, k) == PQ[2] > 1 /\ k > 0 /\ (k % PQ[2]) = 0

\* flip times: F[i] = end of delay i; the speaker is in its first state during odd delays, in the other during even ones
FlipTimes(adj) == Fold(LAMBDA a, d : Append(a, (IF a = <<>> THEN 0 ELSE a[Len(a)]) + d), <<>>, adj)

\* T-states in [a, b) during which the speaker is in its second state (declarative form)
HighIn(F, a, b) ==
  Sum([i \in 1..Len(F) |-> IF (i % 2) = 0 THEN Max(0, Min(F[i], b) - Max(IF i = 1 THEN 0 ELSE F[i - 1], a)) ELSE 0])

\* the same by a sweep: i = least index with F[i] > t (Len(F)+1 if none); -> <<i', high T-states in [t, hi)>>
RECURSIVE Sweep(_, _, _, _, _)
Sweep(F, i, t, hi, bits) ==
  IF i > Len(F) THEN <<i, bits>>
  ELSE IF F[i] > hi THEN <<i, bits + (IF (i % 2) = 0 THEN hi - t ELSE 0)>>
  ELSE Sweep(F, i + 1, F[i], hi, bits + (IF (i % 2) = 0 THEN F[i] - t ELSE 0))
\* state of the speaker (0 first, 1 second) during T-state t, given i = least index with F[i] > t
StateAt(F, i) == IF i > Len(F) THEN 0 ELSE (i - 1) % 2

(* [impl] MovingAverage: the value of sample k is the fraction of its period  *)
(* spent in the second state, times volume/100 (the first state is level 0).  *)
(* -> sequence of [lo, hi, bits, s0, s1]: period [lo, hi), high T-states in   *)
(* it, speaker state during T-state lo and during T-state hi                   *)
Periods(PQ, F, n) ==
  Fold(LAMBDA a, k :
         LET lo == Bound(PQ, k - 1)
             hi == Bound(PQ, k)
             r == Sweep(F, a.i, lo, hi, 0)
         IN [i |-> r[1], out |-> Append(a.out, [lo |-> lo, hi |-> hi, bits |-> r[2], s0 |-> StateAt(F, a.i), s1 |-> StateAt(F, r[1])])],
       [i |-> Sweep(F, 1, 0, 0, 0)[1], out |-> <<>>], Upto(n)).out

\* <<high T-states, length>> of sample k (1-based); a boundary that is a floating point tie may lie one T-state later
BeeperAlt(PQ, p, k) ==
  LET los == IF BoundTie(PQ, k - 1) THEN {0, 1} ELSE {0}
      his == IF BoundTie(PQ, k) THEN {0, 1} ELSE {0}
  IN {<<(p.bits - (a * p.s0)) + (b * p.s1), (p.hi + b) - (p.lo + a)>> : a \in los, b \in his}
\* acceptable 16-bit values of sample k
BeeperPcm(PQ, vol, p, k) == UNION {PcmSet(vol * x[1], 100 * x[2]) : x \in BeeperAlt(PQ, p, k)}

(* What the documentation fixes about the samples, whatever the filter: a     *)
(* sample whose whole period (widened by `slack` T-states on both sides) lies *)
(* inside one delay shows the steady level of that speaker state.             *)
(* -> for every sample 0 (a flip may fall into it), 1 (first state), 2 (second)*)
RECURSIVE SkipTo(_, _, _)
SkipTo(F, i, t) == IF i > Len(F) \/ F[i] > t THEN i ELSE SkipTo(F, i + 1, t)
SteadyClass(PQ, F, n, slack) ==
  Fold(LAMBDA a, k :
         LET lo == Max(0, Bound(PQ, k - 1) - slack)
             hi == Bound(PQ, k) + slack
             i0 == SkipTo(F, a.i, lo)              \* delay containing lo
             steady == i0 <= Len(F) /\ F[i0] >= hi
         IN [i |-> i0, out |-> Append(a.out, IF steady THEN 1 + ((i0 - 1) % 2) ELSE 0)],
       [i |-> 1, out |-> <<>>], Upto(n)).out

-----------------------------------------------------------------------------
(* 6. AY-3-8912 (data sheet).  R is the register file R[1..16] = R0..R15.     *)
AYClock == 1773400                 \* [impl] the 128K Spectrum's AY clock in Hz (not configurable)
TonePeriod(R, c) == LET p == (R[(2 * c) - 1] + (256 * R[2 * c])) % 4096 IN IF p = 0 THEN 1 ELSE p   \* 12 bits: fine + 256 * (coarse & 15)
NoisePeriod(R) == LET p == R[7] % 32 IN IF p = 0 THEN 1 ELSE p                                      \* 5 bits
ToneOff(R, c) == Bit(R[8], c - 1)          \* R7 bits 0-2: tone disable A, B, C
NoiseOff(R, c) == Bit(R[8], c + 2)         \* R7 bits 3-5: noise disable A, B, C
EnvMode(R, c) == Bit(R[8 + c], 4)          \* R8-R10 bit 4: amplitude under envelope control
FixedLevel(R, c) == R[8 + c] % 16          \* R8-R10 bits 0-3
EnvPeriod(R) == LET p == R[12] + (256 * R[13]) IN IF p = 0 THEN 1 ELSE p                            \* 16 bits
EnvShape(R) == R[14] % 16                  \* R13 bits 3-0: CONTinue ATTack ALTernate HOLD

(* Frequencies: tone = clock / (16 TP), noise = clock / (16 NP), envelope =    *)
(* clock / (256 EP) with 16 steps per envelope cycle.  In units of 8 clock     *)
(* cycles ("ticks"): a tone output changes every TP ticks, the noise generator *)
(* shifts every 2 NP ticks, the envelope takes a step every 2 EP ticks.        *)

\* envelope level (0..15) at step s = 0, 1, ... after R13 was written (shape diagram of the data sheet)
EnvLevel(shape, s) ==
  LET cont == Bit(shape, 3)  att == Bit(shape, 2)  alt == Bit(shape, 1)  hold == Bit(shape, 0)
      cyc == s \div 16
      ph == s % 16
      up == IF alt = 1 /\ (cyc % 2) = 1 THEN 1 - att ELSE att
  IN IF cyc = 0 THEN (IF att = 1 THEN ph ELSE 15 - ph)
     ELSE IF cont = 0 THEN 0
     ELSE IF hold = 1 THEN (IF att # alt THEN 15 ELSE 0)
     ELSE IF up = 1 THEN ph ELSE 15 - ph

\* [impl] the 17-bit noise shift register (the data sheet only says "pseudo-random"): feedback bit0 xor bit3, output bit0
NoiseStep(n) == (n \div 2) + (Xor(n % 2, Bit(n, 3)) * 65536)

\* [impl] D/A levels (measured on a real chip; the data sheet: logarithmic, 16 levels, level 0 = off)
DacTable == <<0, 901, 1341, 1904, 2775, 4053, 5552, 8972, 11084, 17345, 23115, 29487, 37380, 45041, 55585, 65535>>

(* The chip as a state machine, one step = one tick (8 clock cycles):          *)
(*   tc, to   tone counters and outputs (sequences of 3)                       *)
(*   nc, lfsr noise counter and shift register                                 *)
(*   ec, eh   envelope counter and number of HALF steps since R13 was written  *)
(*            (kept below 96: from 32 on the level has period 64 half steps)   *)
ChipInit == [tc |-> <<0, 0, 0>>, to |-> <<0, 0, 0>>, nc |-> 0, lfsr |-> 1, ec |-> 0, eh |-> 0]
Tick(ch, R) ==
  LET tn == [c \in 1..3 |-> ch.tc[c] + 1 >= TonePeriod(R, c)]
      ns == ch.nc + 1 >= 2 * NoisePeriod(R)
      es == ch.ec + 1 >= EnvPeriod(R)
  IN [tc |-> <<IF tn[1] THEN 0 ELSE ch.tc[1] + 1, IF tn[2] THEN 0 ELSE ch.tc[2] + 1, IF tn[3] THEN 0 ELSE ch.tc[3] + 1>>,
      to |-> <<IF tn[1] THEN 1 - ch.to[1] ELSE ch.to[1], IF tn[2] THEN 1 - ch.to[2] ELSE ch.to[2], IF tn[3] THEN 1 - ch.to[3] ELSE ch.to[3]>>,
      nc |-> IF ns THEN 0 ELSE ch.nc + 1,
      lfsr |-> IF ns THEN NoiseStep(ch.lfsr) ELSE ch.lfsr,
      ec |-> IF es THEN 0 ELSE ch.ec + 1,
      eh |-> IF es THEN (IF ch.eh + 1 >= 96 THEN 32 ELSE ch.eh + 1) ELSE ch.eh]
EnvRestart(ch) == [ch EXCEPT !.ec = 0, !.eh = 0]          \* writing R13 restarts the envelope cycle
\* mixer: a channel passes its amplitude when (tone or tone disabled) and (noise or noise disabled)
Gate(ch, R, c) == IF (ch.to[c] = 1 \/ ToneOff(R, c) = 1) /\ ((ch.lfsr % 2) = 1 \/ NoiseOff(R, c) = 1) THEN 1 ELSE 0
ChanLevel(ch, R, c) == Gate(ch, R, c) * (IF EnvMode(R, c) = 1 THEN EnvLevel(EnvShape(R), ch.eh \div 2) ELSE FixedLevel(R, c))

(* n ticks at once (registers unchanged meanwhile): a counter that is reset   *)
(* when it reaches its period wraps (c0 + n) div per times, c0 = min(c, per-1) *)
AdvCounter(cnt, per, n) == LET t == Min(cnt, per - 1) + n IN <<t % per, t \div per>>
RECURSIVE NoiseSteps(_, _)
NoiseSteps(l, n) == IF n = 0 THEN l ELSE NoiseSteps(NoiseStep(l), n - 1)
EhAdd(eh, n) == IF eh + n >= 96 THEN 32 + (((eh + n) - 32) % 64) ELSE eh + n
\* the register file decoded once: periods, mixer bits, amplitude modes
Decode(R) == [tp |-> <<TonePeriod(R, 1), TonePeriod(R, 2), TonePeriod(R, 3)>>, np |-> NoisePeriod(R), ep |-> EnvPeriod(R),
              toff |-> <<ToneOff(R, 1), ToneOff(R, 2), ToneOff(R, 3)>>, noff |-> <<NoiseOff(R, 1), NoiseOff(R, 2), NoiseOff(R, 3)>>,
              em |-> <<EnvMode(R, 1), EnvMode(R, 2), EnvMode(R, 3)>>, lv |-> <<FixedLevel(R, 1), FixedLevel(R, 2), FixedLevel(R, 3)>>,
              shape |-> EnvShape(R)]
AdvanceD(ch, P, n) ==
  IF n = 0 THEN ch
  ELSE LET a == AdvCounter(ch.tc[1], P.tp[1], n)
           b == AdvCounter(ch.tc[2], P.tp[2], n)
           c == AdvCounter(ch.tc[3], P.tp[3], n)
           ns == AdvCounter(ch.nc, 2 * P.np, n)
           es == AdvCounter(ch.ec, P.ep, n)
       IN [tc |-> <<a[1], b[1], c[1]>>,
           to |-> <<(ch.to[1] + a[2]) % 2, (ch.to[2] + b[2]) % 2, (ch.to[3] + c[2]) % 2>>,
           nc |-> ns[1], lfsr |-> NoiseSteps(ch.lfsr, ns[2]), ec |-> es[1], eh |-> EhAdd(ch.eh, es[2])]
Advance(ch, R, n) == AdvanceD(ch, Decode(R), n)
ChanLevelD(ch, P, c) ==
  IF (ch.to[c] = 1 \/ P.toff[c] = 1) /\ ((ch.lfsr % 2) = 1 \/ P.noff[c] = 1)
  THEN (IF P.em[c] = 1 THEN EnvLevel(P.shape, ch.eh \div 2) ELSE P.lv[c]) ELSE 0

\* stereo: documented modes MONO, ABC, ACB; weight of channel c on <<left, right>> in halves
\* ABC = A left, B centre, C right; ACB = A left, C centre, B right; [impl] MONO = every channel at half weight
Pan(mode, c) == IF mode = 0 THEN <<1, 1>>
                ELSE IF c = 1 THEN <<2, 0>>
                ELSE IF (mode = 1 /\ c = 2) \/ (mode = 2 /\ c = 3) THEN <<1, 1>> ELSE <<0, 2>>
NumChannels(mode) == IF mode = 0 THEN 1 ELSE 2
\* side s (1 left, 2 right) of the three channels' D/A outputs, in units of 1/2 * 1/65535
MixSide(ch, R, mode, s) == (DacTable[ChanLevel(ch, R, 1) + 1] * Pan(mode, 1)[s]) + (DacTable[ChanLevel(ch, R, 2) + 1] * Pan(mode, 2)[s])
                           + (DacTable[ChanLevel(ch, R, 3) + 1] * Pan(mode, 3)[s])
MixSideD(ch, P, mode, s) == (DacTable[ChanLevelD(ch, P, 1) + 1] * Pan(mode, 1)[s]) + (DacTable[ChanLevelD(ch, P, 2) + 1] * Pan(mode, 2)[s])
                            + (DacTable[ChanLevelD(ch, P, 3) + 1] * Pan(mode, 3)[s])

-----------------------------------------------------------------------------
(* 7. [impl] from a register log to samples.  log = <<<<t, r, v>>, ...>>, r < 16 *)
(* a register write at T-state t, the last entry only marks the end.  "The AY *)
(* registers are sampled at a resolution of ay_res T-states": frame g = t div *)
(* res; the registers of frame g are those after the last write of frame g;   *)
(* the log covers the frames from that of its first entry up to, not          *)
(* including, that of its last entry.                                         *)
FrameOf(t, res) == t \div res
NumFrames(log, res) == FrameOf(log[Len(log)][1], res) - FrameOf(log[1][1], res)
\* -> <<[R, e13]>> per frame: register file and whether R13 was written in that frame
FramesOf(log, res) ==
  LET f0 == FrameOf(log[1][1], res)
      nf == NumFrames(log, res)
      st == Fold(LAMBDA a, e :
                   LET g == FrameOf(e[1], res) - f0
                       fill == [i \in 1..(g - a.g) |-> [R |-> a.R, e13 |-> IF i = 1 THEN a.e13 ELSE FALSE]]
                   IN [g |-> g, R |-> [a.R EXCEPT ![e[2] + 1] = e[3]], e13 |-> (IF g > a.g THEN FALSE ELSE a.e13) \/ e[2] = 13,
                       out |-> a.out \o fill],
                 [g |-> 0, R |-> [i \in 1..16 |-> 0], e13 |-> FALSE, out |-> <<>>], log)
  IN SubSeq(st.out, 1, nf)

\* frames per sample = 50 * fd / (res * sr) [impl: 50 frames of fd T-states per second]; ticks per 1/8 sample = AYClock / (64 sr)
FrameStep(cfg, res) == Frac4(50, cfg.fd, res, cfg.sr)
TickStep(cfg) == Frac(AYClock, 64 * cfg.sr)
\* frames loaded up to and including sample iteration m (the first iteration loads the first frame)
Loaded(FS, m) == IF m = 0 THEN 0 ELSE (FS[2] + (m * FS[1])) \div FS[2]
LoadTie(FS, m) == FS[2] > 1 /\ m > 0 /\ ((m * FS[1]) % FS[2]) = 0
\* ticks up to and including sample m; [impl] at most one tick per 1/8 sample
TicksUpTo(TS, m) == IF TS[1] >= TS[2] THEN 8 * m ELSE ((8 * m) * TS[1]) \div TS[2]
\* number of samples: iterations whose frame loads all exist
RECURSIVE CountSamples(_, _, _)
CountSamples(FS, nf, m) == IF Loaded(FS, m + 1) > nf THEN m ELSE CountSamples(FS, nf, m + 1)
AYNumSamples(FS, nf) ==                      \* closed form of CountSamples(FS, nf, 0)
  IF nf = 0 THEN 0 ELSE LET x == nf * FS[2] IN IF (x % FS[1]) = 0 THEN (x \div FS[1]) - 1 ELSE x \div FS[1]

RECURSIVE TickN(_, _, _)
TickN(ch, R, n) == IF n = 0 THEN ch ELSE TickN(Tick(ch, R), R, n - 1)
\* -> <<<<left, right>>>> per sample in units of 1/2 * 1/65535 before the volume is applied
AYRender(cfg, opt, frames, n) ==
  LET FS == FrameStep(cfg, opt.res)
      TS == TickStep(cfg)
      nf == Len(frames)
      stereo == opt.mode # 0
  IN Fold(LAMBDA a, m :
            LET l0 == Loaded(FS, m - 1)
                l1 == Min(Loaded(FS, m), nf)
                ch1 == IF \E g \in (l0 + 1)..l1 : frames[g].e13 THEN EnvRestart(a.ch) ELSE a.ch
                P == IF l1 > l0 THEN Decode(frames[l1].R) ELSE a.P
                nt == TicksUpTo(TS, m) - TicksUpTo(TS, m - 1)
                ch2 == AdvanceD(ch1, P, nt)
                left == MixSideD(ch2, P, opt.mode, 1)
                lr == IF nt > 0 THEN <<left, IF stereo THEN MixSideD(ch2, P, opt.mode, 2) ELSE left>> ELSE a.lr
            IN [ch |-> ch2, P |-> P, lr |-> lr, out |-> Append(a.out, lr)],
          [ch |-> ChipInit, P |-> Decode([i \in 1..16 |-> 0]), lr |-> <<0, 0>>, out |-> <<>>], Upto(n)).out

\* [impl] AY level = side/2 * 1/65535 * (vol/100 * 2/3): as a sample, round(side * vol / 300) - 32768
AYPcm(side, vol) == LET n == side * vol IN PcmSetQ(n \div 300, n % 300, 300)
\* [impl] with beeper: (AY + beeper) / 2; beeper = vol/100 * bits/len
MixPcm(side, vol, bits, len) ==            \* 65535 * (AY + beeper) / 2 = A/600 + B/(40 len), A = side * vol, B = 13107 * vol * bits
  LET A == side * vol
      B == (13107 * vol) * bits
      den == 600 * len
      num == ((A % 600) * len) + (15 * (B % (40 * len)))
  IN PcmSetQ((A \div 600) + (B \div (40 * len)) + (num \div den), num % den, den)

-----------------------------------------------------------------------------
(* 8. What the data sheet implies for one stream of samples, whatever the    *)
(* phase and the sub-sample timing of an implementation.                     *)
\* lengths of the maximal runs of equal consecutive values
Runs(st) ==
  IF st = <<>> THEN <<>>
  ELSE LET r == Fold(LAMBDA a, i : IF st[i] = st[i - 1] THEN [a EXCEPT !.n = @ + 1] ELSE [n |-> 1, out |-> Append(a.out, a.n)],
                     [n |-> 1, out |-> <<>>], Force([i \in 1..(Len(st) - 1) |-> i + 1]))
       IN Append(r.out, r.n)
Values(st) == {st[i] : i \in 1..Len(st)}
\* a run between two changes of a square wave with half period hp ticks, TS = ticks per 1/8 sample: within 1.25 samples
RunOK(r, hp, TS) == Abs(((8 * r) * TS[1]) - (hp * TS[2])) < 10 * TS[1]
\* a run of a signal that changes at most every hp ticks / at least every hp ticks
RunLongEnough(r, hp, TS) == ((8 * r) * TS[1]) - (hp * TS[2]) > 0 - (10 * TS[1])
RunShortEnough(r, hp, TS) == ((8 * r) * TS[1]) - (hp * TS[2]) < 10 * TS[1]
=============================================================================
