------------------------------ MODULE AudioMC ------------------------------
(***************************************************************************)
(* E04, pattern A (1): the beeper timeline, T-state by T-state.             *)
(*                                                                          *)
(* The documentation describes the two adjustments in terms of what happens *)
(* to a program while the frame goes by: in the contended period it runs    *)
(* slower by ContentionFactor per cent, at a frame boundary an interrupt    *)
(* routine takes InterruptDelay T-states.  This machine executes that       *)
(* description literally: one step = one real T-state; `prog` counts the    *)
(* program's progress in units of 1/(100+CF) program T-states (100+CF units *)
(* per real T-state outside, 100 units inside the contended period, none    *)
(* while the interrupt routine runs); the speaker flips when the progress   *)
(* made since the last flip reaches delay * (100+CF).                       *)
(*                                                                          *)
(* Checked against it: Audio!Adjust (the segment-wise closed form that the  *)
(* judge uses) - exact with interrupts only, within one T-state per         *)
(* contended segment otherwise; and the rendering operators: Sweep =        *)
(* HighIn, sample periods tile the time axis, the high time is preserved,   *)
(* the number of samples is the duration, every long enough delay shows its *)
(* steady level, the canonical header is a valid RIFF/WAVE header.          *)
(***************************************************************************)
EXTENDS Audio
CONSTANTS FD, CB, CE, CF, ID1, ID2, MaxDelays
VARIABLES ds, opt, pos, prog, k, t, irem, j, flips

vars == <<ds, opt, pos, prog, k, t, irem, j, flips>>
IDS == <<ID1, ID2>>
DelaySet == {1, 2, 5, 9, 14, 22, 37}
Offsets == {0, 1, CB - 1, CB, CB + 3, CE - 1, CE, FD - 3, FD - 1}
cfg == [cs |-> 8, sr |-> 3, cb |-> CB, ce |-> CE, cf |-> CF, fd |-> FD, ids |-> IDS]
PQ == Cycle(cfg)

Seqs(S, n) == UNION {[1..m -> S] : m \in 1..n}

Init == /\ ds \in Seqs(DelaySet, MaxDelays)
        /\ opt \in [vol : {100}, cmio : {0, 1}, ints : {0, 1}, off : Offsets]
        /\ (opt.cmio = 1 \/ opt.ints = 1)
        \* [impl] FirstAtZero: at position 0 the interrupt has just been served
        /\ pos = IF opt.ints = 1 /\ opt.off = 0 THEN IDS[1] ELSE opt.off
        /\ j = IF opt.ints = 1 /\ opt.off = 0 THEN 2 ELSE 1
        /\ prog = 0 /\ k = 1 /\ t = 0 /\ irem = 0 /\ flips = <<>>

Need == ds[k] * (100 + CF)
Contended == opt.cmio = 1 /\ pos >= CB /\ pos < CE

\* the speaker flips: the delay is over (after the interrupt routine, if one has just begun)
Flip == /\ k <= Len(ds) /\ irem = 0 /\ prog >= Need
        /\ flips' = Append(flips, t)
        /\ prog' = prog - Need
        /\ k' = k + 1
        /\ UNCHANGED <<ds, opt, pos, t, irem, j>>

\* one real T-state
TState ==
        /\ k <= Len(ds) /\ (irem > 0 \/ prog < Need)
        /\ t' = t + 1
        /\ prog' = IF irem > 0 THEN prog ELSE prog + (IF Contended THEN 100 ELSE 100 + CF)
        /\ LET wrap == pos + 1 = FD
           IN /\ pos' = IF wrap THEN 0 ELSE pos + 1
              /\ irem' = IF wrap /\ opt.ints = 1 THEN IDS[j] ELSE IF irem > 0 THEN irem - 1 ELSE 0
              /\ j' = IF wrap /\ opt.ints = 1 THEN (j % 2) + 1 ELSE j
        /\ UNCHANGED <<ds, opt, k, flips>>

Next == Flip \/ TState
Spec == Init /\ [][Next]_vars

-----------------------------------------------------------------------------
A == Adjust(cfg, opt, DocVariant, ds)
WalkFlips == FlipTimes(A.adj)
Done == k > Len(ds)

TypeOK == pos \in 0..(FD - 1) /\ irem \in 0..Max(ID1, ID2) /\ prog >= 0 /\ k \in 1..(Len(ds) + 1)

\* interrupts only: no rounding anywhere, the closed form is exact
InvIntsExact == (Done /\ opt.cmio = 0) => flips = WalkFlips
\* contention only: real time is a continuous function of program time; the closed form truncates once per segment
InvCmioClose == (Done /\ opt.ints = 0) => \A i \in 1..Len(ds) : Abs(flips[i] - WalkFlips[i]) <= A.segs + 1
\* both: the same unless a flip falls next to a frame boundary (there one T-state decides about a whole interrupt)
NearBoundary(x) == LET p == (opt.off + x) % FD IN p <= A.segs + 2 + Max(ID1, ID2) \/ p >= FD - (A.segs + 2)
InvBothClose == (Done /\ opt.ints = 1 /\ opt.cmio = 1) =>
                   \A i \in 1..Len(ds) : (\A i2 \in 1..i : ~NearBoundary(flips[i2]) /\ ~NearBoundary(WalkFlips[i2]))
                                          => Abs(flips[i] - WalkFlips[i]) <= A.segs + 1
\* adjustments only ever lengthen a delay, and never by more than the factor plus one interrupt per frame boundary
InvLonger == Done => \A i \in 1..Len(ds) : A.adj[i] >= ds[i]
\* the named deviations matter only where their flags say so
InvVariantFlags == Done => /\ (~A.span => Adjust(cfg, opt, [span |-> TRUE, first |-> FALSE], ds).adj = A.adj)
                           /\ (~A.fcross => Adjust(cfg, opt, [span |-> FALSE, first |-> TRUE], ds).adj = A.adj)

\* ---- rendering (of the machine's own flip times)
Total == IF flips = <<>> THEN 0 ELSE flips[Len(flips)]
N == NumSamples(PQ, Total)
Per == Periods(PQ, flips, N)
InvRender == Done =>
  /\ Bound(PQ, N) <= Total /\ Total < Bound(PQ, N + 1)                                  \* the duration in whole sample periods
  /\ \A i \in 1..N : /\ Per[i].lo = Bound(PQ, i - 1) /\ Per[i].hi = Bound(PQ, i)        \* periods tile [0, Bound(N))
                     /\ Per[i].hi - Per[i].lo \in {cfg.cs \div cfg.sr, CeilDiv(cfg.cs, cfg.sr)}
                     /\ Per[i].bits = HighIn(flips, Per[i].lo, Per[i].hi)                 \* sweep = declarative form
                     /\ Per[i].bits >= 0 /\ Per[i].bits <= Per[i].hi - Per[i].lo
  /\ Sum([i \in 1..N |-> Per[i].bits]) = HighIn(flips, 0, Bound(PQ, N))                  \* high time preserved
InvSteady == Done =>
  LET cls == SteadyClass(PQ, flips, N, 0)
  IN /\ \A i \in 1..N : cls[i] # 0 => Per[i].bits = (cls[i] - 1) * (Per[i].hi - Per[i].lo)   \* steady = all low / all high
     /\ \A d \in 1..Len(flips) :                                                              \* a long delay shows its level
          LET a == IF d = 1 THEN 0 ELSE flips[d - 1] IN
          (flips[d] - a >= 2 * CeilDiv(cfg.cs, cfg.sr) /\ flips[d] <= Bound(PQ, N))
             => \E i \in 1..N : cls[i] = 1 + ((d - 1) % 2) /\ Per[i].lo >= a /\ Per[i].hi <= flips[d]

\* ---- container: the fields as functions of (channels, rate, bits, frames) make a valid header
Canon(ch, rate, n) ==
  LET f == WavFields(ch, rate, 16, n)
  IN [riff |-> 1, wave |-> 1, riffSize |-> f.riffSize, fileLen |-> f.fileLen, over |-> 0,
      chunks |-> <<[id |-> "fmt ", size |-> 16, off |-> 12], [id |-> "data", size |-> f.dataSize, off |-> 36]>>,
      fmt |-> <<f.format, f.channels, f.rate, f.byteRate, f.blockAlign, f.bits>>, samples |-> <<>>]
InvHeader == \A ch \in 1..2 : \A n \in {0, 1, N} : WavClause(Canon(ch, 44100, n)) = "ok" /\ WavFrames(Canon(ch, 44100, n)) = n
=============================================================================
