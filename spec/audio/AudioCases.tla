----------------------------- MODULE AudioCases -----------------------------
(***************************************************************************)
(* E04, pattern B: every WAV file written by the real code is judged        *)
(* against Audio.tla.  A case (harness/drivers/audiodrv.py) =                *)
(*   k     "b" beeper (AudioWriter)  |  "a" AY (AYAudioWriter)               *)
(*   cfg   [cs, sr, cb, ce, cf, fd, ids]  the [AudioWriter] parameters in    *)
(*         effect (defaults of the machine filled in)                        *)
(*   opt   "b": [vol, cmio, ints, off]   "a": [vol, res, bpr, mode]          *)
(*   delays ("b")  the delay list given to the writer / the macro            *)
(*   adj, hasadj ("b") the adjusted delays seen inside the writer, when the  *)
(*         route allows to see them (used for classifying drift only)        *)
(*   log ("a")  <<<<t, r, v>>, ...>> register writes (r < 16), beeper flips  *)
(*         (r = 255), last entry = end marker                                *)
(*   wav   what the harness' RIFF reader found (see Audio!WavClause)         *)
(* Verdict = <<clause, drift, tag>>: clause "ok" or the first failing statement   *)
(* of the format definition / documentation / data sheet; drift "" or the    *)
(* first difference from the [impl] operators (counted, never a violation).  *)
(***************************************************************************)
EXTENDS Audio, Json, IOUtils

Cases == JsonDeserialize(IOEnv.CASES)
VARIABLES tid, verdict

Str(n) == ToString(n)
Set1(S) == Cardinality(S) <= 1
TheOne(S) == CHOOSE x \in S : TRUE
MinOf(S) == CHOOSE x \in S : \A y \in S : x <= y
MaxOf(S) == CHOOSE x \in S : \A y \in S : x >= y
FirstBad(n, P(_)) == IF \E k \in 1..n : P(k) THEN CHOOSE k \in 1..n : P(k) /\ \A j \in 1..(k - 1) : ~P(j) ELSE 0

\* container and format fields: "ok" or clause
Container(w, nch, rate) ==
  LET wc == WavClause(w)
  IN IF wc # "ok" THEN "wav:" \o wc
     ELSE IF w.fmt[2] # nch THEN "wav:channels:want" \o Str(nch) \o ":got" \o Str(w.fmt[2])
     ELSE IF w.fmt[3] # rate THEN "wav:rate"
     ELSE "ok"

-----------------------------------------------------------------------------
(* beeper *)

\* the documented statements about the samples, given a model's adjusted delays: "ok" or clause
BeeperVerdict(c, A, obs) ==
  LET PQ == Cycle(c.cfg)
      vol == ClampVol(c.opt.vol)
      F == FlipTimes(A.adj)
      total == IF F = <<>> THEN 0 ELSE F[Len(F)]
      slack == A.segs + 1
      n == Len(obs)
      nlo == NumSamples(PQ, Max(0, total - slack)) - 1
      nhi == NumSamples(PQ, total + slack) + 1
      m == Min(n, NumSamples(PQ, total))
      cls == SteadyClass(PQ, F, m, slack + 1)
      VA == {obs[k] : k \in {j \in 1..m : cls[j] = 1}}
      VB == {obs[k] : k \in {j \in 1..m : cls[j] = 2}}
      lo == MinOf(VA \cup VB)
      hi == MaxOf(VA \cup VB)
  IN IF n < nlo \/ n > nhi THEN "duration"
     ELSE IF vol = 0 THEN (IF Set1(Values(obs)) THEN "ok" ELSE "volume-zero-not-silent")
     ELSE IF ~Set1(VA) THEN "steady-first-state"
     ELSE IF ~Set1(VB) THEN "steady-second-state"
     ELSE IF VA # {} /\ VB # {} /\ VA = VB THEN "states-indistinguishable"
     ELSE IF VA # {} /\ VB # {} /\ \E k \in 1..m : obs[k] < lo \/ obs[k] > hi THEN "out-of-range"
     ELSE "ok"

\* [impl] exact rendering: "" or drift kind
BeeperExact(PQ, vol, adj, obs) ==
  LET F == FlipTimes(adj)
      total == IF F = <<>> THEN 0 ELSE F[Len(F)]
      nref == NumSamples(PQ, total)
      n == Len(obs)
      nok == n = nref \/ (n = nref - 1 /\ BoundTie(PQ, nref) /\ Bound(PQ, nref) = total)
      m == Min(n, nref)
      per == Periods(PQ, F, m)
      bad == FirstBad(m, LAMBDA k : obs[k] \notin BeeperPcm(PQ, vol, per[k], k))
  IN IF ~nok THEN "count:want" \o Str(nref) \o ":got" \o Str(n)
     ELSE IF bad # 0 THEN "sample:k" \o Str(bad)
     ELSE ""

JudgeB(c) ==
  LET w == c.wav
      ct == Container(w, 1, c.cfg.sr)
      obs == w.samples
      PQ == Cycle(c.cfg)
      vol == ClampVol(c.opt.vol)
      D == Adjust(c.cfg, c.opt, DocVariant, c.delays)
      v0 == BeeperVerdict(c, D, obs)
      \* is a failure explained by one of the named deviations (only tried where the deviation can matter)?
      AS == Adjust(c.cfg, c.opt, [span |-> TRUE, first |-> FALSE], c.delays)
      AF == Adjust(c.cfg, c.opt, [span |-> FALSE, first |-> TRUE], c.delays)
      tryS == D.span
      tryF == D.fcross
      vS == IF tryS THEN BeeperVerdict(c, AS, obs) ELSE "n/a"
      vF == IF tryF THEN BeeperVerdict(c, AF, obs) ELSE "n/a"
      \* one deviation may bring the other into play (a delay that is too long crosses a frame boundary it should not reach)
      vSF == IF (tryS /\ (tryF \/ AS.fcross)) \/ (tryF /\ AF.span) THEN BeeperVerdict(c, Adjust(c.cfg, c.opt, OldImplVariant, c.delays), obs) ELSE "n/a"
      clause == IF v0 = "ok" THEN "ok"
                ELSE IF vS = "ok" THEN "adjust:ImplSpanBook"
                ELSE IF vF = "ok" THEN "adjust:ImplFirstDelayExempt"
                ELSE IF vSF = "ok" THEN "adjust:ImplSpanBook+ImplFirstDelayExempt"
                ELSE v0
      I == Adjust(c.cfg, c.opt, ImplVariant, c.delays)
      badadj == FirstBad(Len(I.adj), LAMBDA i : i > Len(c.adj) \/ c.adj[i] # I.adj[i])
      drift == IF c.hasadj = 1 /\ (Len(c.adj) # Len(I.adj) \/ badadj # 0)
               THEN (IF I.tie THEN "adjust-float-tie" ELSE "adjust:i" \o Str(badadj))
               ELSE LET d == BeeperExact(PQ, vol, IF c.hasadj = 1 THEN c.adj ELSE I.adj, obs)
                    IN IF d # "" /\ c.hasadj = 0 /\ I.tie THEN "adjust-float-tie" ELSE d
      \* which statements had something to say about this case (for the vacuity guard of the harness)
      tag == LET F == FlipTimes(D.adj)
                 m == Min(Len(obs), NumSamples(PQ, IF F = <<>> THEN 0 ELSE F[Len(F)]))
                 cls == SteadyClass(PQ, F, m, D.segs + 2)
             IN "b" \o (IF \E i \in 1..m : cls[i] = 1 THEN ":first" ELSE "") \o (IF \E i \in 1..m : cls[i] = 2 THEN ":second" ELSE "")
                    \o (IF \E i \in 1..m : cls[i] = 0 THEN ":mixed" ELSE "") \o (IF D.segs > 0 THEN ":contended" ELSE "")
                    \o (IF D.span THEN ":span" ELSE "") \o (IF D.fcross THEN ":fcross" ELSE "") \o (IF D.tie THEN ":tie" ELSE "")
                    \o (IF Sum(D.adj) > Sum(c.delays) THEN ":longer" ELSE "")
  IN IF ct # "ok" THEN <<ct, "", "b">>
     ELSE IF w.fmt[6] # 16 THEN <<"ok", "bits", "b">>
     ELSE IF Len(obs) # WavFrames(w) THEN <<"machinery:reader", "", "b">>
     ELSE IF clause # "ok" /\ clause = v0 THEN <<clause, "", tag>>
     ELSE <<clause, drift, tag>>

-----------------------------------------------------------------------------
(* AY *)
IsAY(e) == e[2] < 16
SelectSeq2(s, T(_)) == SelectSeq(s, T)

\* one channel's contribution decides a stream: the statements of section 8 of Audio.tla
ToneRuns(st, hp, TS) ==
  LET r == Runs(st)
      n == Len(r)
  IN IF Cardinality(Values(st)) > 2 THEN "tone-levels"
     ELSE IF hp * TS[2] >= 10 * TS[1] /\ \E i \in 1..n : ~RunShortEnough(r[i], hp, TS) THEN "tone-period-long"   \* half period >= 1.25 samples: every run < hp + 1.25
     ELSE IF hp * TS[2] >= 18 * TS[1] /\ \E i \in 2..(n - 1) : ~RunOK(r[i], hp, TS) THEN "tone-period"
     ELSE "ok"
NoiseRuns(st, np, TS, ticks) ==
  LET r == Runs(st)
      n == Len(r)
  IN IF Cardinality(Values(st)) > 2 THEN "noise-levels"
     ELSE IF \E i \in 2..(n - 1) : ~RunLongEnough(r[i], 2 * np, TS) THEN "noise-period"
     ELSE IF ticks >= 80 * np /\ n < 2 THEN "noise-flat"
     ELSE "ok"
\* values by level: lv[k] = level of sample k or -1 (unknown); same level -> same value, higher level -> higher value
LevelMap(st, lv, strict) ==
  LET V(l) == {st[k] : k \in {j \in 1..Len(st) : lv[j] = l}}
      Vs == [l \in 0..15 |-> V(l)] @@ <<>>
  IN IF \E l \in 0..15 : ~Set1(Vs[l]) THEN "level-value"
     ELSE IF strict /\ \E l \in 0..15, h \in 0..15 : l < h /\ Vs[l] # {} /\ Vs[h] # {} /\ TheOne(Vs[l]) >= TheOne(Vs[h]) THEN "level-order"
     ELSE "ok"

JudgeA(c) ==
  LET w == c.wav
      mode == c.opt.mode % 3
      nch == NumChannels(mode)
      ct == Container(w, nch, c.cfg.sr)
      vol == ClampVol(c.opt.vol)
      res == IF c.opt.res = 0 THEN 622 ELSE c.opt.res
      opt == [vol |-> vol, res |-> res, bpr |-> c.opt.bpr, mode |-> mode]
      ayl == SelectSeq(c.log, IsAY)
      bl == LET b == SelectSeq(c.log, LAMBDA e : ~IsAY(e)) IN [i \in 1..Len(b) |-> b[i][1]]
      usebpr == c.opt.bpr = 1 /\ bl # <<>>
      ayfirst == ayl # <<>> /\ (~usebpr \/ ayl[1][1] < bl[1])
      aylog == IF ayfirst THEN ayl ELSE <<<<bl[1], 0, 0>>>> \o ayl                    \* [impl] start times synchronised
      btimes == IF usebpr /\ ayfirst THEN <<ayl[1][1]>> \o bl ELSE bl
      frames == FramesOf(aylog, res)
      nf == Len(frames)
      FS == FrameStep(c.cfg, res)
      TS == TickStep(c.cfg)
      nay == AYNumSamples(FS, nf)
      PQ == Cycle(c.cfg)
      bdel == [i \in 1..(Len(btimes) - 1) |-> btimes[i + 1] - btimes[i]]
      BF == FlipTimes(bdel)
      btotal == IF BF = <<>> THEN 0 ELSE BF[Len(BF)]
      nb == IF usebpr THEN NumSamples(PQ, btotal) ELSE 0
      n == IF Len(w.fmt) = 6 /\ w.fmt[5] > 0 THEN WavFrames(w) ELSE 0
      st == Force([s \in 1..nch |-> Stream(w.samples, nch, s)])
      \* ---- duration: the frames of the log, +- one frame and two samples (with beeper: the longer of the two)
      durOK == /\ (n * FS[1]) + FS[2] + (2 * FS[1]) >= nf * FS[2]
               /\ \/ (n * FS[1]) <= (nf * FS[2]) + FS[2] + (2 * FS[1])
                  \/ (usebpr /\ n <= nb + 1)
      \* ---- registers that never change after the first frame
      f0 == FrameOf(aylog[1][1], res)
      static == nf >= 1 /\ \A i \in 1..(Len(aylog) - 1) : FrameOf(aylog[i][1], res) = f0
      R == frames[1].R
      act == {ch \in 1..3 : EnvMode(R, ch) = 1 \/ FixedLevel(R, ch) > 0}
      W(ch, s) == Pan(mode, ch)[s]
      one == TheOne(act)
      gate == <<ToneOff(R, one), NoiseOff(R, one)>>
      ticks == TicksUpTo(TS, n)
      tslack == (((8 * TS[1]) + (TS[2] - 1)) \div TS[2]) + 1                              \* one sample of ticks, + 1
      envlv == Force([k \in 1..n |-> LET t == TicksUpTo(TS, k)
                                   a == Max(0, t - tslack) \div (2 * EnvPeriod(R))
                                   b == (t + tslack) \div (2 * EnvPeriod(R))
                               IN IF a = b THEN EnvLevel(EnvShape(R), a) ELSE 0 - 1])
      StaticSide(s) ==
        IF \A ch \in act : W(ch, s) = 0 THEN (IF Set1(Values(st[s])) THEN "ok" ELSE "silent-side-not-constant")
        ELSE IF Cardinality(act) # 1 THEN "ok"
        ELSE IF EnvMode(R, one) = 1
             THEN (IF gate = <<1, 1>> THEN LET r == LevelMap(st[s], envlv, TRUE) IN IF r = "ok" THEN "ok" ELSE "envelope-" \o r ELSE "ok")
        ELSE IF gate = <<1, 1>> THEN (IF Set1(Values(st[s])) THEN "ok" ELSE "dc-not-constant")
        ELSE IF gate = <<0, 1>> THEN ToneRuns(st[s], TonePeriod(R, one), TS)
        ELSE IF gate = <<1, 0>> THEN NoiseRuns(st[s], NoisePeriod(R), TS, ticks)
        ELSE "ok"
      StaticStereo ==
        IF nch = 2 /\ Cardinality(act) = 1 /\ vol > 0
        THEN (IF W(one, 1) = W(one, 2) /\ st[1] # st[2] THEN "stereo-centre"
              ELSE IF W(one, 2) = 0 /\ gate = <<1, 1>> /\ EnvMode(R, one) = 0 /\ \E k \in 1..n : st[1][k] <= st[2][k] THEN "stereo-left"
              ELSE IF W(one, 1) = 0 /\ gate = <<1, 1>> /\ EnvMode(R, one) = 0 /\ \E k \in 1..n : st[2][k] <= st[1][k] THEN "stereo-right"
              ELSE "ok")
        ELSE "ok"
      sres == Force([s \in 1..nch |-> StaticSide(s)])
      sbad == FirstBad(nch, LAMBDA s : sres[s] # "ok")
      \* ---- "speech": tone and noise off everywhere, fixed levels written frame by frame, one channel in use
      speech == /\ \A i \in 1..(Len(aylog) - 1) : LET e == aylog[i] IN
                     \/ (e[2] = 7 /\ (e[3] % 64) = 63) \/ (e[2] \in 8..10 /\ Bit(e[3], 4) = 0) \/ (e[2] = 0 /\ e[3] = 0)
                /\ \E i \in 1..(Len(aylog) - 1) : aylog[i][2] = 7 /\ FrameOf(aylog[i][1], res) = f0
                /\ nf >= 1
      used == {ch \in 1..3 : \E g \in 1..nf : FixedLevel(frames[g].R, ch) > 0}
      sch == TheOne(used)
      splv == Force([k \in 1..n |-> LET g == Loaded(FS, k)
                                  ws == {h \in (g - 1)..(g + 1) : h >= 1 /\ h <= nf}
                                  ls == {FixedLevel(frames[h].R, sch) : h \in ws}
                              IN IF g >= 1 /\ g <= nf /\ Set1(ls) THEN TheOne(ls) ELSE 0 - 1])
      spres == Force([s \in 1..nch |-> LevelMap(st[s], splv, W(sch, s) > 0)])
      spbad == FirstBad(nch, LAMBDA s : spres[s] # "ok")
      clause ==
        IF ~durOK THEN "duration"
        ELSE IF vol = 0 THEN (IF \A s \in 1..nch : Set1(Values(st[s])) THEN "ok" ELSE "volume-zero-not-silent")
        ELSE IF usebpr THEN "ok"
        ELSE IF static /\ sbad # 0 THEN sres[sbad]
        ELSE IF static /\ StaticStereo # "ok" THEN StaticStereo
        ELSE IF ~static /\ speech /\ Cardinality(used) = 1 /\ spbad # 0 THEN "frames-" \o spres[spbad]
        ELSE "ok"
      \* ---- [impl] exact samples
      nexp == Max(nay, nb)
      rend == AYRender(c.cfg, opt, frames, Min(n, nay))
      per == Periods(PQ, BF, Min(n, nb))
      Want(k, s) == LET side == IF k <= Len(rend) THEN rend[k][s] ELSE 0
                    IN IF usebpr
                       THEN (IF k <= Len(per) THEN UNION {MixPcm(side, vol, x[1], x[2]) : x \in BeeperAlt(PQ, per[k], k)} ELSE MixPcm(side, vol, 0, 1))
                       ELSE AYPcm(side, vol)
      \* where m * (frames per sample) is a whole number the floating point sum may load the frame one sample later
      bad == FirstBad(Min(n, nexp), LAMBDA k : ~LoadTie(FS, k) /\ \E s \in 1..nch : st[s][k] \notin Want(k, s))
      badtie == FirstBad(Min(n, nexp), LAMBDA k : LoadTie(FS, k) /\ \E s \in 1..nch : st[s][k] \notin Want(k, s))
      tie == \E k \in 1..(n + 1) : LoadTie(FS, k)
      drift == IF n # nexp THEN (IF tie /\ Abs(n - nexp) <= 1 THEN "ay-count-float-tie" ELSE "ay-count:want" \o Str(nexp) \o ":got" \o Str(n))
               ELSE IF bad # 0 THEN (IF TS[1] >= TS[2] THEN "ay-sample-slow-clock" ELSE "ay-sample:k" \o Str(bad))
               ELSE IF badtie # 0 THEN "ay-sample-float-tie"
               ELSE ""
      lowrate == TS[1] >= TS[2]
      tag == "a" \o (IF vol = 0 THEN ":vol0" ELSE IF usebpr THEN ":bpr"
                      ELSE IF static THEN ":static:" \o (IF Cardinality(act) = 0 THEN "silent" ELSE IF Cardinality(act) > 1 THEN "several"
                                                        ELSE (IF EnvMode(R, one) = 1 THEN "env" ELSE "fixed") \o ToString(gate[1]) \o ToString(gate[2]))
                      ELSE IF speech /\ Cardinality(used) = 1 THEN ":speech" ELSE ":dynamic")
                 \o (IF lowrate THEN ":lowrate" ELSE "")
  IN IF ct # "ok" THEN <<ct, "", "a">>
     ELSE IF w.fmt[6] # 16 THEN <<"ok", "bits", "a">>
     ELSE IF Len(w.samples) # n * nch THEN <<"machinery:reader", "", "a">>
     ELSE IF clause # "ok" THEN <<(IF lowrate /\ clause \in {"tone-period", "tone-period-long", "noise-period", "envelope-level-value", "envelope-level-order"}
                                   THEN "clock:ImplTickPerEighthSample:" ELSE "") \o clause, "", tag>>
     ELSE <<"ok", drift, tag>>

Judge(c) == IF c.k = "b" THEN JudgeB(c) ELSE JudgeA(c)

Init == tid \in 1..Len(Cases) /\ verdict = "pending"
Next == /\ verdict = "pending"
        /\ LET r == Judge(Cases[tid]) IN
             /\ verdict' = r[1]
             /\ (IF r[1] = "ok" THEN TRUE ELSE PrintT(<<"FAIL", tid, r[1]>>))
             /\ (IF r[2] = "" THEN TRUE ELSE PrintT(<<"DRIFT", tid, r[2]>>))
             /\ PrintT(<<"TAG", tid, r[3]>>)
        /\ UNCHANGED tid
=============================================================================
