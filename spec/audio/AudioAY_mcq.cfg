CONSTANTS
  MaxTicks = 105
  InitShapes = {3, 9, 12, 14}
  InitTP = {0, 3}
SPECIFICATION Spec
INVARIANTS TypeOK InvDecode InvTone InvNoise InvEnv InvEnvRate InvShape InvMixer InvDac InvAdvance InvPan
CHECK_DEADLOCK FALSE
