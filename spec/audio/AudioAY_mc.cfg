CONSTANTS
  MaxTicks = 210
SPECIFICATION Spec
INVARIANTS TypeOK InvDecode InvTone InvNoise InvEnv InvEnvRate InvShape InvMixer InvDac InvAdvance InvPan
CHECK_DEADLOCK FALSE
