----------------------------- MODULE AudioAYMC -----------------------------
(***************************************************************************)
(* E04, pattern A (2): the AY-3-8912 generators as a state machine          *)
(* (Audio!Tick, one step = 8 clock cycles) with register writes at any      *)
(* time, checked against what the data sheet says in closed form:           *)
(*  - a tone output changes exactly every TP ticks while TP is unchanged    *)
(*    (frequency = clock / (16 TP)), TP = 0 behaves as 1                    *)
(*  - the noise generator shifts exactly every 2 NP ticks and never locks   *)
(*  - the envelope level is EnvLevel(shape, steps since R13 was written),   *)
(*    a step lasting 2 EP ticks (16 steps per cycle, cycle = 256 EP clocks) *)
(*  - the shape diagram: CONT = 0 -> one cycle then 0; HOLD -> one cycle    *)
(*    then constant (15 if ATT # ALT else 0); otherwise sawtooth (ALT = 0)  *)
(*    or triangle (ALT = 1); the first cycle rises iff ATT = 1              *)
(*  - mixer: a channel with tone and noise disabled passes its amplitude    *)
(*  - the jump-ahead form used by the judge equals n single ticks           *)
(***************************************************************************)
EXTENDS Audio
CONSTANTS MaxTicks, InitShapes, InitTP
VARIABLES R, ch, n, hs, since, nsince, wrote

vars == <<R, ch, n, hs, since, nsince, wrote>>
Reg(tp, np, ep, shape, r7, amp) ==
  [i \in 1..16 |-> CASE i = 1 -> tp % 256 [] i = 2 -> 240 + (tp \div 256) [] i = 7 -> 224 + np [] i = 8 -> 192 + r7
                     [] i = 9 -> amp [] i = 12 -> ep [] i = 14 -> 16 * 5 + shape [] OTHER -> 0]

Init == /\ R \in {Reg(tp, np, ep, sh, r7, amp) : tp \in InitTP, np \in {0, 2}, ep \in {1, 2}, sh \in InitShapes, r7 \in {63, 62}, amp \in {16 + 7}}
        /\ ch = ChipInit /\ n = 0 /\ hs = 0 /\ since = 0 /\ nsince = 0 /\ wrote = 0

\* one tick; history: hs = half steps of the envelope since the restart, since / nsince = ticks since the tone A output /
\* the noise register last changed
DoTick == /\ n < MaxTicks
          /\ ch' = Tick(ch, R)
          /\ n' = n + 1
          /\ hs' = IF ch'.ec = 0 THEN hs + 1 ELSE hs
          /\ since' = IF ch'.to[1] # ch.to[1] THEN 0 ELSE since + 1
          /\ nsince' = IF ch'.nc = 0 THEN 0 ELSE nsince + 1
          /\ UNCHANGED <<R, wrote>>
\* writing R13 (any time, at most twice) restarts the envelope; writing the tone period (once) does not disturb the phase
Write13 == /\ wrote < 2 /\ n \in {5, 33, 70}
           /\ \E sh \in {0, 4, 8, 10, 11, 13, 14, 15} : R' = [R EXCEPT ![14] = 32 + sh]
           /\ ch' = EnvRestart(ch) /\ hs' = 0 /\ wrote' = wrote + 1
           /\ UNCHANGED <<n, since, nsince>>
WriteTP == /\ wrote = 0 /\ n = 9
           /\ \E tp \in {2, 5} : R' = [R EXCEPT ![1] = tp]
           /\ wrote' = 2
           /\ UNCHANGED <<ch, n, hs, since, nsince>>
Next == DoTick \/ Write13 \/ WriteTP
Spec == Init /\ [][Next]_vars

-----------------------------------------------------------------------------
TP == TonePeriod(R, 1)
NP == NoisePeriod(R)
EP == EnvPeriod(R)
sh == EnvShape(R)
TypeOK == /\ \A c \in 1..3 : ch.to[c] \in {0, 1} /\ ch.tc[c] >= 0
          /\ ch.lfsr \in 1..131071 /\ ch.eh \in 0..95 /\ ch.ec \in 0..(EP - 1) /\ ch.nc \in 0..((2 * NP) - 1)
\* masks: 12 / 5 / 4 bits, rubbish in the unused bits is ignored; period 0 counts as 1
InvDecode == /\ TP = (IF (R[1] + (256 * (R[2] % 16))) = 0 THEN 1 ELSE R[1] + (256 * (R[2] % 16)))
             /\ NP = (IF R[7] % 32 = 0 THEN 1 ELSE R[7] % 32) /\ sh = R[14] % 16
\* tone: the output never stays longer than TP ticks; while TP is unchanged it changes exactly when `since` reaches TP
InvTone == /\ since < TP \/ wrote = 2
           /\ (wrote # 2 /\ n >= TP) => ch.tc[1] = since
InvNoise == nsince < 2 * NP /\ ch.nc = nsince % (2 * NP)
\* envelope: level = closed form of the number of half steps; a half step every EP ticks
InvEnv == /\ EnvLevel(sh, ch.eh \div 2) = EnvLevel(sh, hs \div 2)
          /\ ChanLevel(ch, R, 1) = Gate(ch, R, 1) * EnvLevel(sh, hs \div 2)
InvEnvRate == wrote = 0 => hs = n \div EP
\* the shape diagram of the data sheet, stated on the closed form
ShapeFacts ==
  \A s \in 0..15 : LET cont == Bit(s, 3)  att == Bit(s, 2)  alt == Bit(s, 1)  hold == Bit(s, 0) IN
    /\ \A x \in 0..15 : EnvLevel(s, x) = IF att = 1 THEN x ELSE 15 - x
    /\ cont = 0 => \A x \in 16..70 : EnvLevel(s, x) = 0
    /\ (cont = 1 /\ hold = 1) => \A x \in 16..70 : EnvLevel(s, x) = IF att # alt THEN 15 ELSE 0
    /\ (cont = 1 /\ hold = 0 /\ alt = 0) => \A x \in 16..70 : EnvLevel(s, x) = EnvLevel(s, x - 16)
    /\ (cont = 1 /\ hold = 0 /\ alt = 1) => \A x \in 16..70 : EnvLevel(s, x) = 15 - EnvLevel(s, x - 16)
    /\ \A x \in 0..70 : EnvLevel(s, x) \in 0..15
InvShape == n = 0 => ShapeFacts
\* mixer
InvMixer == /\ (ToneOff(R, 1) = 1 /\ NoiseOff(R, 1) = 1) => Gate(ch, R, 1) = 1
            /\ (ToneOff(R, 1) = 0 /\ NoiseOff(R, 1) = 1) => Gate(ch, R, 1) = ch.to[1]
            /\ \A c \in 2..3 : ChanLevel(ch, R, c) = 0
\* D/A: 16 levels, level 0 is off, strictly increasing
InvDac == n = 0 => (Len(DacTable) = 16 /\ DacTable[1] = 0 /\ \A i \in 1..15 : DacTable[i] < DacTable[i + 1])
\* jump-ahead = single ticks
InvAdvance == \A m \in 0..9 : Advance(ch, R, m) = TickN(ch, R, m)
\* stereo placement
InvPan == n = 0 => /\ \A c \in 1..3 : Pan(0, c) = <<1, 1>>
                   /\ Pan(1, 1) = <<2, 0>> /\ Pan(1, 2) = <<1, 1>> /\ Pan(1, 3) = <<0, 2>>
                   /\ Pan(2, 1) = <<2, 0>> /\ Pan(2, 3) = <<1, 1>> /\ Pan(2, 2) = <<0, 2>>
                   /\ \A md \in 0..2 : Pan(md, 1)[1] + Pan(md, 2)[1] + Pan(md, 3)[1] = 3 /\ Pan(md, 1)[2] + Pan(md, 2)[2] + Pan(md, 3)[2] = 3
=============================================================================
