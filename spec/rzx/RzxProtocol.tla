---------------------------- MODULE RzxProtocol ----------------------------
(***************************************************************************)
(* The machine-independent part of the RZX input-recording protocol (see   *)
(* Rzx.tla for the overview): the stored frame list, frame-end rules of    *)
(* recorder and player, and the player's counters as pure operators.       *)
(* Extended by Rzx (state machine, model-checked) and by RzxCases /        *)
(* RzxTrace (judging what the real rzxplay / rzxinfo did).                 *)
(***************************************************************************)
EXTENDS Z80

-----------------------------------------------------------------------------
(* Part 1 - the file *)
Repeat == 65535
StoredFrame(fc, ins) == [fc |-> fc, ic |-> Len(ins), ins |-> ins]
RepeatFrame(fc) == [fc |-> fc, ic |-> Repeat, ins |-> <<>>]

WellFormed(fs) ==
  \A i \in 1..Len(fs) :
    /\ fs[i].fc \in 0..65535
    /\ \/ fs[i].ic = Repeat /\ fs[i].ins = <<>>
       \/ fs[i].ic < Repeat /\ fs[i].ic = Len(fs[i].ins)
    /\ \A j \in 1..Len(fs[i].ins) : fs[i].ins[j] \in 0..255

\* the readings frame i of a block really has (a repeated frame refers back; before the first: none)
RECURSIVE InsOf(_, _)
InsOf(fs, i) == IF i < 1 THEN <<>> ELSE IF fs[i].ic = Repeat THEN InsOf(fs, i - 1) ELSE fs[i].ins

Expand(fs) == [i \in 1..Len(fs) |-> [fc |-> fs[i].fc, ins |-> InsOf(fs, i)]]

\* canonical encoding: use the repeated-frame marker whenever the readings equal the previous frame's
Encode(xs) == [i \in 1..Len(xs) |->
                 IF i > 1 /\ xs[i].ins # <<>> /\ xs[i].ins = xs[i - 1].ins
                 THEN RepeatFrame(xs[i].fc) ELSE StoredFrame(xs[i].fc, xs[i].ins)]

\* what remains to be played when the player stands at the start of frame i (StopAndWrite): markers resolved
Remaining(fs, i) == [k \in 1..(Len(fs) + 1 - i) |-> StoredFrame(fs[i + k - 1].fc, InsOf(fs, i + k - 1))]

\* what a faithful report of a block shows per frame: its number (from 0), fetch counter, IN counter, for a repeated frame the
\* number of readings it stands for, the (first ten) readings and whether there are more
Min2(a, b) == IF a < b THEN a ELSE b
Info(fs, i) == LET ins == InsOf(fs, i) IN
  [n |-> i - 1, fc |-> fs[i].fc, ic |-> fs[i].ic, rep |-> IF fs[i].ic = Repeat THEN Len(ins) ELSE -1,
   shown |-> SubSeq(ins, 1, Min2(10, Len(ins))), more |-> IF Len(ins) > 10 THEN 1 ELSE 0]
InfoView(fs) == [i \in 1..Len(fs) |-> Info(fs, i)]

-----------------------------------------------------------------------------
(* Part 2 - frame ends *)
\* M1 fetches of the step that starts with bytes b0 b1 (Z80.tla: Decode(s).ri)
Fetches(b0, b1) == IF b0 \in {203, 237} THEN 2
                   ELSE IF b0 \in {221, 253} THEN (IF Indexable(b1) THEN 2 ELSE 1)
                   ELSE 1
LonePrefix(b0, b1) == b0 \in {221, 253} /\ ~Indexable(b1)

\* the player does not decode: for DD/FD it looks at the parity of the R register before and after
PlayerFetches(b0, r0, r1) == IF b0 \in {221, 253} THEN 2 - ((r0 + r1) % 2)
                             ELSE IF b0 \in {203, 237} THEN 2 ELSE 1

Cls(b0, b1) == IF b0 = 118 THEN "halt"
               ELSE IF b0 = 237 /\ b1 \in {87, 95} THEN "ldair"
               ELSE IF b0 = 251 THEN "ei"
               ELSE "other"

\* what the recorder does at a frame end with IFF = 1; xcls = class of the instruction it executed last
RecorderDecision(conv, xcls, halted) ==
  IF halted = 1 THEN "accept-halt"                    \* the CPU leaves HALT: PC+1 is pushed
  ELSE IF xcls = "ldair" THEN (IF Bit(conv, 0) = 1 THEN "accept-pv" ELSE "accept")
  ELSE IF xcls = "ei" THEN "block"                    \* only reachable under ShortFrameAfterEI
  ELSE "accept"

\* what the player does at a frame end with IFF = 1; mcls = class of the bytes it finds at the address of
\* the last instruction, nextfc = fetch counter of the next frame it will play (-1: none in this block)
PlayerDecision(flags, mcls, nextfc) ==
  IF mcls = "halt" THEN "accept-halt"
  ELSE IF Bit(flags, 0) = 1 /\ mcls = "ldair" THEN "accept-pv"
  ELSE IF Bit(flags, 1) = 1 THEN (IF mcls # "ei" \/ nextfc > 2 THEN "accept" ELSE "block")
  ELSE "accept"

SetOfLive(fs, i) == { j \in i..Len(fs) : fs[j].fc > 0 }
FirstLive(fs, i) == LET live == SetOfLive(fs, i) IN
                    IF live = {} THEN Len(fs) + 1 ELSE CHOOSE j \in live : \A k \in live : j <= k
NextFcIn(fs, i) == LET j == FirstLive(fs, i + 1) IN IF j > Len(fs) THEN -1 ELSE fs[j].fc

\* ends[i] = [iff, mcls, dec]: what the recorder saw and did at the end of frame i of the block.
\* The playback flags match the recording convention iff the player takes the recorder's decision everywhere.
ConvMatchesBlock(flags, fs, ends) ==
  \A i \in 1..Len(fs) : (fs[i].fc > 0 /\ ends[i].iff = 1)
                        => PlayerDecision(flags, ends[i].mcls, NextFcIn(fs, i)) = ends[i].dec

\* Snapshots after the first one.  A recording may embed them as a courtesy ("same": the state the run has
\* reached anyway), because the run is discontinuous there ("needed": rollback - only the snapshot tells where
\* the machine is), or carelessly ("stale": not the state the frames continue from).  Playback flag 4 says
\* "ignore snapshots after the first"; it must be clear for "needed" and set for "stale".
SnapshotUseMatches(flags, snapmode) == /\ (snapmode = "needed" => Bit(flags, 2) = 0)
                                       /\ (snapmode = "stale" => Bit(flags, 2) = 1)

-----------------------------------------------------------------------------
(* Part 3 - the player's counters: p = [fi, fc, ii, cnt]                   *)
(* fi frame index in the block (0 before the first), fc fetch counter,     *)
(* ii readings consumed in the frame, cnt frames completed over all blocks *)
PStart(cnt) == [fi |-> 0, fc |-> 0, ii |-> 0, cnt |-> cnt]
\* frames with fetch counter 0 are skipped (they are counted, nothing else happens)
PNextFrame(fs, p) == LET j == FirstLive(fs, p.fi + 1) IN
  [fi |-> j, fc |-> IF j > Len(fs) THEN -1 ELSE fs[j].fc, ii |-> 0,
   cnt |-> p.cnt + (j - p.fi) - (IF p.fi = 0 THEN 1 ELSE 0)]
PPlay(p, m1, isin) == [p EXCEPT !.fc = @ - m1, !.ii = @ + isin]
Exhausted(fs, p) == p.ii >= Len(InsOf(fs, p.fi))
LeftOver(fs, p) == p.ii < Len(InsOf(fs, p.fi))
Reading(fs, p) == InsOf(fs, p.fi)[p.ii + 1]

=============================================================================
