------------------------------ MODULE RzxTrace ------------------------------
(***************************************************************************)
(* C20 sequential trace validation: the player's bookkeeping, instruction  *)
(* by instruction.  Traces[tid] = [blocks, flags, ev, obs, full]:          *)
(*   ev[l]  = [pc, m1, isin] - what the recorder executed (its own log)    *)
(*   obs[l] = [frame_count, fetch_counter, readings left, pc] - line l of  *)
(*            the real `rzxplay --trace` output                            *)
(* The counters p (RzxProtocol Part 3) are carried in TLC variables; each  *)
(* step is NextFrame* (across blocks) followed by PlayInstr / PlayIn, and  *)
(* the trace line must show exactly the counters the protocol defines.     *)
(* full = 1: obs covers the whole run; then the recording must be consumed *)
(* exactly (last frame finished, no readings left, no frame unplayed).     *)
(***************************************************************************)
EXTENDS RzxProtocol, Json, IOUtils

Traces == JsonDeserialize(IOEnv.CASES)
VARIABLES tid, l, verdict, b, p
tvars == <<tid, l, verdict, b, p>>

\* move to the next live frame (possibly in a later block) when the current one is finished
RECURSIVE Adv(_, _, _)
Adv(bl, bb, q) ==
  IF q.fc > 0 THEN [b |-> bb, p |-> q, end |-> FALSE, left |-> FALSE]
  ELSE IF q.fi >= 1 /\ q.fi <= Len(bl[bb].fs) /\ LeftOver(bl[bb].fs, q) THEN [b |-> bb, p |-> q, end |-> FALSE, left |-> TRUE]
  ELSE LET n == PNextFrame(bl[bb].fs, q) IN
       IF n.fc > 0 THEN [b |-> bb, p |-> n, end |-> FALSE, left |-> FALSE]
       ELSE IF bb = Len(bl) THEN [b |-> bb, p |-> n, end |-> TRUE, left |-> FALSE]
       ELSE Adv(bl, bb + 1, PStart(n.cnt))

\* a claim is made only where the playback flags match the recording convention (as in RzxCases)
Matches(t) == \A k \in 1..Len(t.blocks) : /\ ConvMatchesBlock(t.flags, t.blocks[k].fs, t.blocks[k].ends)
                                          /\ SnapshotUseMatches(t.flags, t.blocks[k].snapmode)

Line(fs, q, pc) == <<q.cnt, q.fc, Len(InsOf(fs, q.fi)) - q.ii, pc>>

TraceInit ==
  /\ tid \in 1..Len(Traces)
  /\ l = 1 /\ verdict = "pending" /\ b = 1 /\ p = PStart(0)

TraceStep ==
  /\ verdict = "pending"
  /\ l <= Len(Traces[tid].obs)
  /\ LET t == Traces[tid]
         e == t.ev[l]
         o == t.obs[l]
         a == Adv(t.blocks, b, p)
         fs == t.blocks[a.b].fs
         q == PPlay(a.p, e[2], e[3])
         last == l = Len(t.obs)
         c == IF l = 1 /\ ~Matches(t) THEN "noclaim"
              ELSE IF l > Len(t.ev) THEN "more-instructions-than-recorded"
              ELSE IF a.left THEN "port-readings-left"
              ELSE IF a.end THEN "harness-events-beyond-recording"
              ELSE IF e[3] = 1 /\ Exhausted(fs, a.p) THEN "port-readings-exhausted"
              ELSE IF <<o[1], o[2], o[3], o[4]>> # Line(fs, q, e[1]) THEN "trace-line"
              ELSE IF last /\ t.full = 1 /\ (Len(t.obs) # Len(t.ev) \/ q.fc > 0 \/ LeftOver(fs, q) \/ ~Adv(t.blocks, a.b, q).end)
                   THEN "recording-not-consumed"
              ELSE "ok"
     IN /\ verdict' = IF c # "ok" THEN c ELSE IF last THEN "ok" ELSE "pending"
        /\ b' = a.b /\ p' = q
  /\ l' = l + 1
  /\ UNCHANGED tid
  /\ (verdict' \in {"ok", "pending"} \/ PrintT(<<"FAIL", (tid * 100000) + l, verdict'>>))

TraceSpec == TraceInit /\ [][TraceStep]_tvars
=============================================================================
