SPECIFICATION Spec
CONSTANTS
  Programs <- QuickPrograms
  Plans <- QuickPlans
  InModes = {"const"}
  Convs = {0, 3}
  FlagSet = {0, 3, 4, 7}
  Splits = {0, 1, 2}
  Empties = {FALSE}
  Fmts = {"z80"}
INVARIANT NoDesync
INVARIANT ExactFrames
INVARIANT BoundaryAgrees
INVARIANT SameFinal
INVARIANT StopFileFaithful
INVARIANT RecordingWellFormed
CHECK_DEADLOCK FALSE
