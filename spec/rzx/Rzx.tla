------------------------------- MODULE Rzx -------------------------------
(***************************************************************************)
(* C20: the RZX input-recording protocol (RZX format specification 0.12/   *)
(* 0.13: "Input recording block", "I/O recording frame") over the Z80      *)
(* machine of Z80.tla.                                                     *)
(*                                                                         *)
(* A recording is a sequence of blocks [snap, fs]; fs is a sequence of     *)
(* stored frames [fc, ic, ins]:                                            *)
(*   fc  = number of M1 fetches (R increments; every prefix byte is one    *)
(*         M1, the interrupt acknowledge is not counted) up to the frame   *)
(*         end, which is the point where the maskable interrupt is         *)
(*         sampled                                                         *)
(*   ic  = number of port reads in the frame, or 65535 = "repeated frame": *)
(*         the same readings as the previous frame, none stored            *)
(*   ins = the values the port reads returned, in order                    *)
(*                                                                         *)
(* Parts 1-3 live in RzxProtocol (also used by RzxCases / RzxTrace):      *)
(* Part 1: file level operators.                                           *)
(* Part 2: frame-end rules: the recorder's convention, the player's        *)
(*         decision under the playback flags, ConvMatches.                 *)
(* Part 3: the player's bookkeeping (frame_index, fetch_counter, in_index, *)
(*         frame_count) as pure operators on a record.                     *)
(* Part 4: the state machine: a recorder running a program of the Z80      *)
(*         machine, then a player (PlayInstr, PlayIn, EndFrame, NextFrame, *)
(*         NextBlock, StopAndWrite(k), ResumeFrom) playing what was        *)
(*         recorded.  Model-checked by Rzx_mc.                             *)
(*                                                                         *)
(* Named conventions (a recorder may follow either; the player's flags     *)
(* must match where a frame end actually hits the case):                   *)
(*   conv bit 0  LdAIrResetsPV : an interrupt accepted right after         *)
(*               LD A,I / LD A,R finds P/V = 0 (real Z80)                  *)
(*   conv bit 1  ShortFrameAfterEI : a frame may end right after EI; the   *)
(*               interrupt is then NOT accepted and the next frame is one  *)
(*               instruction (<= 2 fetches) long.  Without it a frame      *)
(*               never ends right after EI (the CPU samples INT only after *)
(*               the following instruction).                               *)
(*   always      a frame never ends between a lone DD/FD prefix and the    *)
(*               opcode it precedes (PrefixNop steps of Z80.tla).          *)
(*   snapshots   after the first one are "same" (the state reached anyway),*)
(*               "needed" (the run is discontinuous there) or "stale";     *)
(*               playback flag 4 = ignore them must be clear for "needed"  *)
(*               and set for "stale" (SnapshotUseMatches).                 *)
(***************************************************************************)
EXTENDS RzxProtocol

-----------------------------------------------------------------------------
(* Part 4 - recorder and player over the Z80 machine *)
CONSTANTS Programs,    \* set of <<registers, overlay>> start machines
          Plans,       \* set of sequences of frame lengths in fetches
          InModes,     \* subset of {"const", "count"}
          Convs, FlagSet, Splits, Empties, Fmts

VARIABLES cfg,         \* [prog, plan, conv, inmode, split, empties, fmt]  - fixed per behaviour
          phase,       \* rec recorded play boundary blockend written done error
          rm, rl, cur, tape, pi, nin, short,          \* recorder
          file, flags, pm, pl, pb, p, fresh, stopped, err      \* player
vars == <<cfg, phase, rm, rl, cur, tape, pi, nin, short, file, flags, pm, pl, pb, p, fresh, stopped, err>>
rvars == <<rm, rl, cur, tape, pi, nin, short>>
pvars == <<file, flags, pm, pl, pb, p, fresh, stopped, err>>

\* the machine as RZX playback needs it: no frame clock of its own (HALT never wakes by itself, the
\* LdAIrQuirk never triggers); the interrupt comes from the frame protocol
S(m, inv) == [r |-> m.r, ov |-> m.ov, inv |-> inv, frame |-> 1, ia |-> 0, tA |-> -1]
Exec(m, inv) == LET e == Step(S(m, inv)) IN [r |-> e.r, ov |-> m.ov \o e.wr]
ReadsPort(m) == \E i \in 1..Len(Step(S(m, 0)).io) : Step(S(m, 0)).io[i][1] = "i"
Mem(m, a) == MemAt(m.ov, W16(a))
IntAccept(m) == LET e == Interrupt([ov |-> m.ov], [r |-> m.r, wr |-> <<>>, io |-> <<>>, mask |-> 255])
                IN [r |-> e.r, ov |-> m.ov \o e.wr]
EndOfFrame(m, dec) ==
  LET m0 == [m EXCEPT !.r[rT] = 0] IN
  CASE dec = "accept-halt" -> IntAccept([m0 EXCEPT !.r[rPC] = W16(@ + 1)])
    [] dec = "accept-pv"   -> IntAccept([m0 EXCEPT !.r[rF] = @ - (4 * Bit(@, 2))])
    [] dec = "accept"      -> IntAccept(m0)
    [] OTHER               -> m0

\* what survives an embedded snapshot (SnapFields): no HALT flag, no clock worth keeping, z80 drops MEMPTR
Save(m, fmt) == [r |-> [m.r EXCEPT ![rHALT] = 0, ![rT] = 0, ![rMEMPTR] = IF fmt = "z80" THEN 0 ELSE @],
                 ov |-> m.ov]

InVal(mode, n) == IF mode = "const" THEN 191 ELSE ((n * 37) + 5) % 256

Init ==
  /\ cfg \in [prog : Programs, plan : Plans, conv : Convs, inmode : InModes, split : Splits,
              empties : Empties, fmt : Fmts]
  /\ phase = "rec"
  /\ rm = [r |-> cfg.prog[1], ov |-> cfg.prog[2]]
  /\ rl = [pc |-> 0, xcls |-> "other", lone |-> FALSE]
  /\ cur = [fc |-> 0, ins |-> <<>>]
  /\ tape = <<>> /\ pi = 1 /\ nin = 0 /\ short = FALSE
  /\ file = <<>> /\ flags = 0 /\ pm = [r |-> cfg.prog[1], ov |-> <<>>] /\ pl = 0 /\ pb = 0
  /\ p = PStart(0) /\ fresh = FALSE /\ stopped = FALSE /\ err = ""

-----------------------------------------------------------------------------
(* recorder *)
Target == IF short THEN 1 ELSE cfg.plan[pi]
CanBlock == Bit(cfg.conv, 1) = 1 /\ Mem(rm, rm.r[rPC]) \notin {221, 253}
Due == /\ cur.fc > 0 /\ cur.fc >= Target
       /\ ~rl.lone
       /\ ~(rl.xcls = "ei" /\ rm.r[rIFF] = 1 /\ ~CanBlock)

RecStep ==
  /\ phase = "rec" /\ ~Due
  /\ LET v == InVal(cfg.inmode, nin)
         pc == rm.r[rPC]
         b0 == Mem(rm, pc)  b1 == Mem(rm, pc + 1)
         isin == ReadsPort(rm)
     IN /\ rm' = Exec(rm, v)
        /\ rl' = [pc |-> pc, xcls |-> Cls(b0, b1), lone |-> LonePrefix(b0, b1)]
        /\ cur' = [fc |-> cur.fc + Fetches(b0, b1), ins |-> IF isin THEN Append(cur.ins, v) ELSE cur.ins]
        /\ nin' = nin + (IF isin THEN 1 ELSE 0)
  /\ UNCHANGED <<cfg, phase, tape, pi, short>> /\ UNCHANGED pvars

EmptyFrame(m) == [fc |-> 0, ins |-> <<>>, iff |-> 0, mcls |-> "other", dec |-> "none", after |-> m]

RecEnd ==
  /\ phase = "rec" /\ Due
  /\ LET iff == rm.r[rIFF]
         mcls == Cls(Mem(rm, rl.pc), Mem(rm, rl.pc + 1))
         dec == IF iff = 0 THEN "none" ELSE RecorderDecision(cfg.conv, rl.xcls, rm.r[rHALT])
         m2 == EndOfFrame(rm, dec)
         fr == [fc |-> cur.fc, ins |-> cur.ins, iff |-> iff, mcls |-> mcls, dec |-> dec, after |-> m2]
         pi2 == IF short THEN pi ELSE pi + 1
     IN /\ rm' = m2
        /\ tape' = IF cfg.empties /\ m2.r[rIFF] = 0 THEN tape \o <<fr, EmptyFrame(m2)>> ELSE Append(tape, fr)
        /\ short' = (dec = "block")
        /\ pi' = pi2
        /\ phase' = IF pi2 > Len(cfg.plan) THEN "recorded" ELSE "rec"
        /\ cur' = [fc |-> 0, ins |-> <<>>]
  /\ UNCHANGED <<cfg, rl, nin>> /\ UNCHANGED pvars

-----------------------------------------------------------------------------
(* the file the recorder writes *)
\* cfg.split: 0 one block; 1 a second block whose snapshot is the state reached ("same"); 2 a second block whose
\* snapshot is "stale" (not the state the frames continue from - playable only with flag 4)
SplitAt == IF cfg.split > 0 /\ Len(tape) >= 2 THEN Len(tape) \div 2 ELSE 0
Stale(m) == [m EXCEPT !.r[rA] = (@ + 85) % 256, !.r[rPC] = W16(@ + 1)]
Plain(a, b) == [i \in 1..(b + 1 - a) |-> [fc |-> tape[a + i - 1].fc, ins |-> tape[a + i - 1].ins]]
MkFile == LET F == Len(tape)  s == SplitAt  m0 == [r |-> cfg.prog[1], ov |-> cfg.prog[2]] IN
  IF s = 0 THEN << [snap |-> Save(m0, cfg.fmt), fs |-> Encode(Plain(1, F)), base |-> 0, snapmode |-> "first"] >>
  ELSE << [snap |-> Save(m0, cfg.fmt), fs |-> Encode(Plain(1, s)), base |-> 0, snapmode |-> "first"],
          [snap |-> IF cfg.split = 2 THEN Stale(Save(tape[s].after, cfg.fmt)) ELSE Save(tape[s].after, cfg.fmt),
           fs |-> Encode(Plain(s + 1, F)), base |-> s, snapmode |-> IF cfg.split = 2 THEN "stale" ELSE "same"] >>
EndsOf(b) == [i \in 1..Len(b.fs) |-> tape[b.base + i]]
ConvMatches(f, fl) == \A k \in 1..Len(fl) : /\ ConvMatchesBlock(f, fl[k].fs, EndsOf(fl[k]))
                                             /\ SnapshotUseMatches(f, fl[k].snapmode)

-----------------------------------------------------------------------------
(* player *)
Fs == file[pb].fs
Enter(fs, cnt) == PNextFrame(fs, PStart(cnt))
PhaseFor(q) == IF q.fc < 0 THEN "blockend" ELSE "play"

StartPlay(f) ==
  /\ phase = "recorded"
  /\ LET fl == MkFile  q == Enter(fl[1].fs, 0) IN
     /\ ConvMatches(f, fl)
     /\ file' = fl /\ flags' = f /\ pm' = fl[1].snap /\ pb' = 1 /\ p' = q /\ phase' = PhaseFor(q)
  /\ pl' = 0 /\ fresh' = TRUE
  /\ UNCHANGED <<cfg, stopped, err>> /\ UNCHANGED rvars

PlayInstr ==
  /\ phase = "play" /\ p.fc > 0 /\ ~ReadsPort(pm)
  /\ LET m2 == Exec(pm, 0)  pc == pm.r[rPC] IN
     /\ pm' = m2 /\ pl' = pc
     /\ p' = PPlay(p, PlayerFetches(Mem(pm, pc), pm.r[rR], m2.r[rR]), 0)
  /\ fresh' = FALSE
  /\ UNCHANGED <<cfg, phase, file, flags, pb, stopped, err>> /\ UNCHANGED rvars

PlayIn ==
  /\ phase = "play" /\ p.fc > 0 /\ ReadsPort(pm)
  /\ IF Exhausted(Fs, p)
     THEN /\ phase' = "error" /\ err' = "port readings exhausted"
          /\ UNCHANGED <<pm, pl, p>>
     ELSE /\ LET m2 == Exec(pm, Reading(Fs, p))  pc == pm.r[rPC] IN
             /\ pm' = m2 /\ pl' = pc
             /\ p' = PPlay(p, PlayerFetches(Mem(pm, pc), pm.r[rR], m2.r[rR]), 1)
          /\ UNCHANGED <<phase, err>>
  /\ fresh' = FALSE
  /\ UNCHANGED <<cfg, file, flags, pb, stopped>> /\ UNCHANGED rvars

EndFrame ==
  /\ phase = "play" /\ p.fc <= 0
  /\ IF LeftOver(Fs, p)
     THEN /\ phase' = "error" /\ err' = "port readings left" /\ UNCHANGED pm
     ELSE /\ LET nf == PNextFrame(Fs, p)
                 dec == IF pm.r[rIFF] = 0 THEN "none"
                        ELSE PlayerDecision(flags, Cls(Mem(pm, pl), Mem(pm, pl + 1)), nf.fc)
             IN pm' = EndOfFrame(pm, dec)
          /\ phase' = "boundary" /\ UNCHANGED err
  /\ UNCHANGED <<cfg, file, flags, pl, pb, p, fresh, stopped>> /\ UNCHANGED rvars

NextFrame ==
  /\ phase = "boundary"
  /\ p' = PNextFrame(Fs, p) /\ phase' = PhaseFor(p') /\ fresh' = TRUE
  /\ UNCHANGED <<cfg, file, flags, pm, pl, pb, stopped, err>> /\ UNCHANGED rvars

NextBlock ==
  /\ phase = "blockend"
  /\ IF pb = Len(file) THEN phase' = "done" /\ UNCHANGED <<pm, pb, p>>
     ELSE /\ pb' = pb + 1
          /\ pm' = IF Bit(flags, 2) = 1 THEN pm ELSE file[pb + 1].snap     \* flag 4: ignore later snapshots
          /\ p' = Enter(file[pb + 1].fs, p.cnt) /\ phase' = PhaseFor(p')
  /\ fresh' = TRUE
  /\ UNCHANGED <<cfg, file, flags, pl, stopped, err>> /\ UNCHANGED rvars

\* --stop k: after the frame end at which frame_count reaches k the player writes its state and what remains
StopAndWrite(k, fmt) ==
  /\ phase \in {"play", "blockend"} /\ fresh /\ ~stopped /\ p.cnt >= 1
  /\ k = p.cnt /\ k < Len(tape)
  /\ file' = << [snap |-> Save(pm, fmt), fs |-> Remaining(Fs, p.fi), base |-> 0, snapmode |-> "first"] >>
             \o SubSeq(file, pb + 1, Len(file))
  /\ phase' = "written" /\ stopped' = TRUE
  /\ UNCHANGED <<cfg, flags, pm, pl, pb, p, fresh, err>> /\ UNCHANGED rvars

ResumeFrom ==
  /\ phase = "written"
  /\ pm' = file[1].snap /\ pb' = 1 /\ p' = Enter(file[1].fs, 0) /\ phase' = PhaseFor(p')
  /\ pl' = 0 /\ fresh' = TRUE
  /\ UNCHANGED <<cfg, file, flags, stopped, err>> /\ UNCHANGED rvars

Next == \/ RecStep \/ RecEnd
        \/ \E f \in FlagSet : StartPlay(f)
        \/ PlayInstr \/ PlayIn \/ EndFrame \/ NextFrame \/ NextBlock
        \/ \E k \in 1..64, fmt \in Fmts : StopAndWrite(k, fmt)
        \/ ResumeFrom
Spec == Init /\ [][Next]_vars

-----------------------------------------------------------------------------
(* properties *)
ObsRegs == (1..13) \cup (15..25) \cup {rIFF, rIM}
Touched(m) == { m.ov[i][1] : i \in 1..Len(m.ov) }
ObsEq(a, b) == /\ \A i \in ObsRegs : a.r[i] = b.r[i]
               /\ \A x \in Touched(a) \cup Touched(b) : MemAt(a.ov, x) = MemAt(b.ov, x)

NoDesync == phase # "error"
\* frames of the recorder's own output end exactly where the recorder ended them
ExactFrames == phase = "play" => p.fc >= 0
\* uninterrupted playback passes through the recorder's state at every frame boundary ...
BoundaryAgrees == (phase \in {"play", "blockend"} /\ fresh /\ ~stopped /\ p.cnt >= 1) => ObsEq(pm, tape[p.cnt].after)
\* ... and every playback - uninterrupted or stopped at any k, written and resumed - ends in the recorder's final state
SameFinal == phase = "done" => (ObsEq(pm, rm) /\ p.cnt = (IF stopped THEN p.cnt ELSE Len(tape)))
\* the file written at a stop point holds the recorder's state at that boundary
StopFileFaithful == phase = "written" => (ObsEq(file[1].snap, tape[p.cnt].after) /\ WellFormed(file[1].fs))
RecordingWellFormed == phase = "recorded" => \A k \in 1..Len(MkFile) : WellFormed(MkFile[k].fs)
=============================================================================
