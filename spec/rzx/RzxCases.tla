------------------------------ MODULE RzxCases ------------------------------
(***************************************************************************)
(* C20 judge (pattern B).  The harness recorder (rzxdrv.py) made a         *)
(* recording; the real rzxplay / rzxinfo were run on the file.  A case:    *)
(*   blocks  the recording: [fs |-> stored frames, ends |-> what the       *)
(*           recorder saw and did at each frame end, snapmode]             *)
(*   kind = "play": flags, want (recorder's final state), got (state in    *)
(*           the snapshot rzxplay wrote after playing to the end), err     *)
(*   kind = "stop": k, bounds (recorder's state at every frame boundary),  *)
(*           wsnap / wblocks (independent decode of the .rzx that          *)
(*           `--stop k` wrote), got (final state after playing THAT file), *)
(*           want, werr / rerr                                             *)
(*   kind = "info": info (rzxinfo --frames report parsed per input block)  *)
(* A claim is made only where the playback flags match the recording       *)
(* convention (RzxProtocol!ConvMatchesBlock); otherwise the verdict is     *)
(* "ok" and a NOCLAIM note is printed.                                     *)
(***************************************************************************)
EXTENDS RzxProtocol, Json, IOUtils

Cases == JsonDeserialize(IOEnv.CASES)
VARIABLES tid, verdict

Matches(c) == \A b \in 1..Len(c.blocks) : /\ ConvMatchesBlock(c.flags, c.blocks[b].fs, c.blocks[b].ends)
                                          /\ SnapshotUseMatches(c.flags, c.blocks[b].snapmode)

\* fields a snapshot format cannot carry are projected as -1 and not compared
StateClause(w, g, feclaim, mpclaim) ==
  IF g.machine # w.machine THEN "machine"
  ELSE IF g.regs # w.regs THEN "registers"
  ELSE IF g.iff # w.iff \/ g.im # w.im THEN "interrupt-state"
  ELSE IF g.banks # w.banks THEN "memory"
  ELSE IF g.o7ffd # w.o7ffd THEN "paging"
  ELSE IF g.border # w.border THEN "border"
  ELSE IF g.offfd # w.offfd \/ g.ay # w.ay THEN "ay"
  ELSE IF feclaim = 1 /\ g.fe # -1 /\ g.fe # w.fe THEN "fe"
  ELSE IF mpclaim = 1 /\ g.memptr # -1 /\ g.memptr # w.memptr THEN "memptr"
  ELSE "ok"

JudgePlay(c) ==
  IF c.err # "" THEN "desync-or-tool-error"
  ELSE LET s == StateClause(c.want, c.got, c.feclaim, c.mpclaim) IN
       IF s = "ok" THEN "ok" ELSE "final-" \o s

\* where `--stop k` stops: after the first live frame whose end brings frame_count to k or more
BlockBase(bl, b) == IF b = 1 THEN 0 ELSE LET S[j \in 0..(b - 1)] == IF j = 0 THEN 0 ELSE S[j - 1] + Len(bl[j].fs) IN S[b - 1]
CntAfter(bl, b, i) == BlockBase(bl, b) + FirstLive(bl[b].fs, i + 1) - 1
StopCands(bl, k) == { x \in UNION { { <<b, i>> : i \in 1..Len(bl[b].fs) } : b \in 1..Len(bl) } :
                       bl[x[1]].fs[x[2]].fc > 0 /\ CntAfter(bl, x[1], x[2]) >= k }
StopAt(bl, k) == CHOOSE x \in StopCands(bl, k) : \A y \in StopCands(bl, k) : x[1] < y[1] \/ (x[1] = y[1] /\ x[2] <= y[2])
ExpectedWritten(bl, x) ==
  << Remaining(bl[x[1]].fs, FirstLive(bl[x[1]].fs, x[2] + 1)) >> \o [j \in 1..(Len(bl) - x[1]) |-> bl[x[1] + j].fs]

JudgeStop(c) ==
  IF c.werr # "" THEN "stop-tool-error"
  ELSE IF StopCands(c.blocks, c.k) = {} THEN "harness-stop-point"
  ELSE LET x == StopAt(c.blocks, c.k)
           at == CntAfter(c.blocks, x[1], x[2])
           s1 == StateClause(c.bounds[at], c.wsnap, c.feclaim, c.mpclaim)
       IN IF c.wshape # 1 THEN "written-file-shape"
          ELSE IF c.wblocks # ExpectedWritten(c.blocks, x) THEN "written-frames"
          ELSE IF s1 # "ok" THEN "written-snapshot-" \o s1
          ELSE IF c.rerr # "" THEN "resume-desync-or-tool-error"
          ELSE LET s2 == StateClause(c.want, c.got, c.feclaim, c.mpclaim) IN
               IF s2 = "ok" THEN "ok" ELSE "resume-final-" \o s2

JudgeInfo(c) ==
  IF c.err # "" THEN "info-tool-error"
  ELSE IF Len(c.info) # Len(c.blocks) THEN "info-blocks"
  ELSE IF \E b \in 1..Len(c.blocks) : c.info[b].nf # Len(c.blocks[b].fs) THEN "info-frame-count"
  ELSE IF \E b \in 1..Len(c.blocks) : c.info[b].frames # InfoView(c.blocks[b].fs) THEN "info-frames"
  ELSE "ok"

Claimed(c) == c.kind = "info" \/ Matches(c)
Judge(c) ==
  IF \E b \in 1..Len(c.blocks) : ~WellFormed(c.blocks[b].fs) THEN "harness-malformed-recording"
  ELSE IF ~Claimed(c) THEN "ok"
  ELSE IF c.kind = "play" THEN JudgePlay(c)
  ELSE IF c.kind = "stop" THEN JudgeStop(c)
  ELSE JudgeInfo(c)

Init == tid \in 1..Len(Cases) /\ verdict = "pending"
Next == /\ verdict = "pending"
        /\ verdict' = Judge(Cases[tid])
        /\ UNCHANGED tid
        /\ (verdict' = "ok" \/ PrintT(<<"FAIL", tid, verdict'>>))
        /\ (Claimed(Cases[tid]) \/ PrintT(<<"NOCLAIM", tid>>))
=============================================================================
