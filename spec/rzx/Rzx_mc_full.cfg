SPECIFICATION Spec
CONSTANTS
  Programs <- AllPrograms
  Plans <- AllPlans
  InModes = {"const", "count"}
  Convs = {0, 1, 2, 3}
  FlagSet = {0, 1, 2, 3, 4, 5, 6, 7}
  Splits = {0, 1, 2}
  Empties = {FALSE, TRUE}
  Fmts = {"z80"}
INVARIANT NoDesync
INVARIANT ExactFrames
INVARIANT BoundaryAgrees
INVARIANT SameFinal
INVARIANT StopFileFaithful
INVARIANT RecordingWellFormed
CHECK_DEADLOCK FALSE
