------------------------------- MODULE Rzx_mc -------------------------------
(* Small machines for model-checking Rzx: programs over the Base memory pattern with the IM 1 handler *)
(* placed at 0x38 and an IM 2 vector table, scaled frames of a few fetches.                           *)
EXTENDS Rzx

Regs(pc, iff, im, sp) == [i \in 1..30 |-> CASE i = rPC -> pc [] i = rIFF -> iff [] i = rIM -> im
                                            [] i = rSP -> sp [] i = rI -> 128 [] i = rB -> 2 [] i = rC -> 254
                                            [] i = rH -> 160 [] OTHER -> 0]
Code(base, bytes) == [k \in 1..Len(bytes) |-> <<base + k - 1, bytes[k]>>]
\* 0x38: PUSH AF ; IN A,(0xFE) ; POP AF ; EI ; RET        IM 2 (I=128): 0x80FF -> 0x9000: EI ; RETI
Handlers == Code(56, <<245, 219, 254, 241, 251, 201>>) \o <<<<33023, 0>>, <<33024, 144>>>> \o Code(36864, <<251, 237, 77>>)

\* EI ; loop: IN A,(0xFE) ; AND 0x1F ; JR Z,+1 ; INC D ; IN E,(C) ; JR loop          (IN values steer a branch)
P1 == Code(32768, <<251, 219, 254, 230, 31, 40, 1, 20, 237, 88, 24, 245>>)
\* EI ; HALT ; INC A ; SLA A ; JR -6
P2 == Code(32768, <<251, 118, 60, 203, 39, 24, 250>>)
\* IM 2 ; EI ; HALT ; DJNZ HALT ; JR start
P3 == Code(32768, <<237, 94, 251, 118, 16, 253, 24, 248>>)
\* EI ; LD A,I ; DD DD NOP ; LD A,R ; LD B,2 ; INIR ; PUSH AF ; POP DE ; JR start     (prefix chain, LD A,I/R, block IN)
P4 == Code(32768, <<251, 237, 87, 221, 221, 0, 237, 95, 6, 2, 237, 178, 245, 209, 24, 240>>)
\* EI ; NOP ; EI ; EI ; INC A ; DD INC IXh? (DD 24) ; FD CB 01 06 (RLC (IY+1)) ; EI ; JR start
P5 == Code(32768, <<251, 0, 251, 251, 60, 221, 36, 253, 203, 1, 6, 251, 24, 242>>)
\* DI ; IN A,(0xFE) ; HALT       (never interrupted)
P6 == Code(32768, <<243, 219, 254, 118>>)
\* EI ; FD EI ; DD HALT (lone prefixes before EI and HALT)
P7 == Code(32768, <<251, 253, 251, 221, 118, 60, 24, 248>>)

AllPrograms == { <<Regs(32768, iff, 1, 65000), pr \o Handlers>> : iff \in {0, 1}, pr \in {P1, P4, P5} }
          \cup { <<Regs(32768, 0, 1, 65000), pr \o Handlers>> : pr \in {P2, P6, P7} }
          \cup { <<Regs(32768, 1, 0, 65000), P3 \o Handlers>> }
QuickPrograms == { <<Regs(32768, 1, 1, 65000), pr \o Handlers>> : pr \in {P1, P4, P5} }
          \cup { <<Regs(32768, 0, 1, 65000), pr \o Handlers>> : pr \in {P2, P7} }
          \cup { <<Regs(32768, 1, 0, 65000), P3 \o Handlers>> }

AllPlans == { <<3, 5, 2, 7, 4>>, <<1, 1, 2, 9, 3, 1>>, <<6, 6, 6, 6>>, <<2, 2, 2, 2, 2, 2, 2>> }
QuickPlans == { <<3, 5, 2, 7, 4>>, <<1, 2, 9, 1>> }
=============================================================================
