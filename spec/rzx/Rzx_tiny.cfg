SPECIFICATION Spec
CONSTANTS
  Programs <- TinyPrograms
  Plans <- TinyPlans
  InModes = {"const"}
  Convs = {0}
  FlagSet = {0}
  Splits = {0}
  Empties = {FALSE}
  Fmts = {"szx"}
INVARIANT NoDesync
INVARIANT ExactFrames
INVARIANT BoundaryAgrees
INVARIANT SameFinal
INVARIANT StopFileFaithful
INVARIANT RecordingWellFormed
CHECK_DEADLOCK FALSE
