INIT Init
NEXT Next
CHECK_DEADLOCK FALSE
CONSTANTS
  MaxAddr = 0
  MaxVal = 0
  MaxDepth = 0
