---------------------------- MODULE MacroCases ----------------------------
(***************************************************************************)
(* C17 judge (pattern B).  A case = one macro text as a term tree (see      *)
(* Macro.tla) + the options the tools were run with + the memory the skool  *)
(* file defines + for each of the six places the text was planted in (entry *)
(* title, description, register description, instruction comment, mid-block *)
(* comment, end comment): the address #PC stands for there and the text     *)
(* skool2asm and skool2html produced (character codes; HTML unescaped).     *)
(*                                                                          *)
(* Verdict "ok" or the first failing clause:                                *)
(*   exception        a tool raised an error on a text inside the domain    *)
(*   undefined        the text left the documented domain (generator bug)   *)
(*   asm-html:<k>     ASM and HTML expansions differ at place k             *)
(*   place:<k>        same #PC, but the text at place k differs from place 1 *)
(*   expand:<k>       the expansion at place k is not Expand(term)          *)
(***************************************************************************)
EXTENDS Macro, Json, IOUtils

Cases == JsonDeserialize(IOEnv.CASES)
VARIABLES tid, verdict

Judge(c) ==
  LET n   == Len(c.locs)
      pcs == {c.locs[k].pc : k \in 1..n}
      R   == [p \in pcs |-> Expand(c.term, NewEnv(p, c.base, c.case, c.bo, c.bb))]
      K   == 1..n
      D1  == {k \in K : c.locs[k].asm # c.locs[k].html}
      D2  == {k \in K : c.locs[k].pc = c.locs[1].pc /\ c.locs[k].asm # c.locs[1].asm}
      D3  == {k \in K : c.locs[k].asm # R[c.locs[k].pc][1]}
      Min(S) == CHOOSE k \in S : \A j \in S : k <= j
  IN IF c.exc # "" THEN "exception"
     ELSE IF \E p \in pcs : R[p][2].err THEN "undefined"
     ELSE IF D1 # {} THEN "asm-html:" \o ToString(Min(D1))
     ELSE IF D2 # {} THEN "place:" \o ToString(Min(D2))
     ELSE IF D3 # {} THEN "expand:" \o ToString(Min(D3))
     ELSE "ok"

Init == /\ tid \in 1..Len(Cases) /\ verdict = "pending"
        /\ env = 0 /\ ghost = 0 /\ chk = TRUE /\ act = ""
Next == /\ verdict = "pending"
        /\ verdict' = Judge(Cases[tid])
        /\ UNCHANGED <<tid, env, ghost, chk, act>>
        /\ (verdict' = "ok" \/ PrintT(<<"FAIL", tid, verdict'>>))
=============================================================================
