------------------------------- MODULE Macro -------------------------------
(***************************************************************************)
(* Skool macros (numeric and control-flow subset, "SMPL" + #N #CHR #SPACE   *)
(* #PC #PEEK #POKES #PUSHS #POPS #STR) as defined by SkoolKit's user        *)
(* documentation sphinx/source/skool-macros.rst.                            *)
(*                                                                          *)
(* A macro text is an abstract syntax tree of TERMS; integer parameters are *)
(* a second AST of arithmetic EXPRESSIONS.  Expand(term, env) yields        *)
(* <<text, env'>> where text is a sequence of character codes.              *)
(*                                                                          *)
(* Evaluation order (docs, "General form" / "#LET" / "#()" sections):       *)
(*  - macros in a text are expanded leftmost first, and the text a macro    *)
(*    expands to is itself scanned for macros (so the output strings of     *)
(*    #IF/#MAP/#FOR/... are expanded AFTER the macro that produced them and *)
(*    only if they are selected);                                           *)
(*  - inside a parenthesised integer parameter string, nested skool macros  *)
(*    are expanded first and replacement fields are substituted afterwards: *)
(*    skool-macros.rst, #LET: "value ... may contain skool macros (which    *)
(*    are expanded immediately) and replacement fields (which are replaced  *)
(*    after any skool macros have been expanded)"; the same wording is used *)
(*    for the delays parameter of #AUDIO ("skool macros (which are expanded *)
(*    first) and replacement fields (which are replaced after any skool     *)
(*    macros have been expanded)").  Hence a #LET nested in a parameter     *)
(*    string is visible to every {field} of that same parameter string,     *)
(*    also to fields on its left (operators P1 = phase 1, Val = phase 2);   *)
(*  - #(text) pre-expands the macros in the parameters of the macro it      *)
(*    follows "before that macro" (operator PreKids).                       *)
(*                                                                          *)
(* The environment has no notion of ASM or HTML mode: the expansion of the  *)
(* macros specified here is mode independent by construction (the only mode *)
(* dependent outputs, &#160; for #SPACE and &#N; for #CHR in HTML mode, are  *)
(* the HTML spellings of the same characters).                              *)
(*                                                                          *)
(* TERMS (records, field t is the tag)                                      *)
(*   Text s | Seq xs | Sub n | Eval p | N p pre suf | If p a b nb           *)
(*   Map p d ks | For p var body sep fsep hasf | Foreach items var body sep *)
(*   fsep hasf | While c body | Let n e | LetS n v | Format p parts | Def n flags ip *)
(*   sp body | Call n p sa | Peek p | Pokes gs | Pushs name | Pops | Chr p  *)
(*   Str p end | Space p | Pc | Pre x                                       *)
(* p is a parameter group: the sequence, in textual order, of [k, e] where  *)
(* k is the position of the parameter in the macro's signature and e the    *)
(* expression (omitted parameters take their defaults; keyword arguments    *)
(* may appear in any order).                                                *)
(* EXPRESSIONS (field o)                                                    *)
(*   lit v | var n (replacement field {n}) | sub n (loop variable or macro  *)
(*   argument, substituted textually) | m x (nested macro x whose output is *)
(*   an integer) | pre x e (nested macro x with empty output, e.g. #LET,    *)
(*   followed by e) | binary operators a b                                  *)
(***************************************************************************)
EXTENDS Integers, Sequences, FiniteSets, TLC

\* ------------------------------------------------------------------ integers
Abs(x) == IF x < 0 THEN -x ELSE x

\* docs: "/" on integer parameters is integer division rounding towards minus infinity
FloorDiv(a, b) ==
  LET q == Abs(a) \div Abs(b)
      r == Abs(a) % Abs(b)
  IN IF (a >= 0 /\ b > 0) \/ (a <= 0 /\ b < 0) THEN q
     ELSE IF r = 0 THEN -q ELSE (-q) - 1

\* "%" (modulo): result has the sign of the divisor, a = b*(a/b) + a%b
PyMod(a, b) == a - (b * FloorDiv(a, b))

RECURSIVE Pow(_, _)
Pow(a, n) == IF n <= 0 THEN 1 ELSE a * Pow(a, n - 1)

\* bitwise operators on two's complement integers of unbounded width
RECURSIVE BitAnd(_, _)
BitAnd(a, b) ==
  IF a = 0 \/ b = 0 THEN 0
  ELSE IF a = -1 THEN b
  ELSE IF b = -1 THEN a
  ELSE (PyMod(a, 2) * PyMod(b, 2)) + (2 * BitAnd(FloorDiv(a, 2), FloorDiv(b, 2)))

RECURSIVE BitOr(_, _)
BitOr(a, b) ==
  IF a = 0 THEN b
  ELSE IF b = 0 THEN a
  ELSE IF a = -1 \/ b = -1 THEN -1
  ELSE (IF PyMod(a, 2) + PyMod(b, 2) > 0 THEN 1 ELSE 0) + (2 * BitOr(FloorDiv(a, 2), FloorDiv(b, 2)))

RECURSIVE BitXor(_, _)
BitXor(a, b) ==
  IF a = 0 THEN b
  ELSE IF b = 0 THEN a
  ELSE IF a = -1 THEN (-1) - b
  ELSE IF b = -1 THEN (-1) - a
  ELSE PyMod(PyMod(a, 2) + PyMod(b, 2), 2) + (2 * BitXor(FloorDiv(a, 2), FloorDiv(b, 2)))

B(p) == IF p THEN 1 ELSE 0            \* comparison and Boolean operators yield 0 or 1

Apply(o, a, b) ==
  CASE o = "+"  -> a + b
    [] o = "-"  -> a - b
    [] o = "*"  -> a * b
    [] o = "/"  -> FloorDiv(a, b)
    [] o = "%"  -> PyMod(a, b)
    [] o = "**" -> Pow(a, b)
    [] o = "&"  -> BitAnd(a, b)
    [] o = "|"  -> BitOr(a, b)
    [] o = "^"  -> BitXor(a, b)
    [] o = "<<" -> a * Pow(2, b)
    [] o = ">>" -> FloorDiv(a, Pow(2, b))
    [] o = "<"  -> B(a < b)
    [] o = ">"  -> B(a > b)
    [] o = "==" -> B(a = b)
    [] o = "!=" -> B(a # b)
    [] o = "<=" -> B(a <= b)
    [] o = ">=" -> B(a >= b)
    [] o = "&&" -> B(a # 0 /\ b # 0)
    [] o = "||" -> B(a # 0 \/ b # 0)

\* outside these the documentation defines nothing (division by zero, negative exponent / shift count)
ApplyDefined(o, a, b) ==
  CASE o \in {"/", "%"}          -> b # 0
    [] o \in {"**", "<<", ">>"}  -> b >= 0
    [] OTHER                     -> TRUE

Bit(v, k) == (v \div k) % 2 = 1      \* v >= 0, k a power of two

\* ---------------------------------------------------------------------- text
DigitCode(d, upper) == IF d < 10 THEN 48 + d ELSE IF upper THEN 55 + d ELSE 87 + d

RECURSIVE Digits(_, _, _)
Digits(n, base, upper) ==
  IF n < base THEN <<DigitCode(n, upper)>>
  ELSE Digits(n \div base, base, upper) \o <<DigitCode(n % base, upper)>>

RECURSIVE Rep(_, _)
Rep(c, n) == IF n <= 0 THEN <<>> ELSE <<c>> \o Rep(c, n - 1)

\* v in the given base with at least w digits ("padded with leading zeroes if necessary")
Num(v, base, w, upper) ==
  LET d == Digits(Abs(v), base, upper)
  IN (IF v < 0 THEN <<45>> ELSE <<>>) \o Rep(48, w - Len(d)) \o d

Dec(v) == Num(v, 10, 1, FALSE)

IsNatText(s) == Len(s) > 0 /\ \A i \in 1..Len(s) : s[i] \in 48..57
IsIntText(s) == IF Len(s) > 0 /\ s[1] = 45 THEN IsNatText(Tail(s)) ELSE IsNatText(s)
RECURSIVE ParseNat(_, _)
ParseNat(s, acc) == IF s = <<>> THEN acc ELSE ParseNat(Tail(s), (acc * 10) + (Head(s) - 48))
ParseInt(s) == IF s[1] = 45 THEN -ParseNat(Tail(s), 0) ELSE ParseNat(s, 0)

IsSpace(c) == c \in {32, 9, 10, 13}
RECURSIVE LStrip(_)
LStrip(s) == IF s # <<>> /\ IsSpace(Head(s)) THEN LStrip(Tail(s)) ELSE s
RECURSIVE RStrip(_)
RStrip(s) == IF s # <<>> /\ IsSpace(s[Len(s)]) THEN RStrip(SubSeq(s, 1, Len(s) - 1)) ELSE s
Strip(s) == RStrip(LStrip(s))

Lower(s) == [i \in 1..Len(s) |-> IF s[i] \in 65..90 THEN s[i] + 32 ELSE s[i]]
Upper(s) == [i \in 1..Len(s) |-> IF s[i] \in 97..122 THEN s[i] - 32 ELSE s[i]]

\* ZX Spectrum character set (#CHR flags bit 1)
ZxChar(c) == CASE c = 94 -> 8593 [] c = 96 -> 163 [] c = 127 -> 169 [] OTHER -> c

\* --------------------------------------------------------------- environment
\* vars  : replacement fields (name -> integer): #LET variables, base, case, ...
\* svars : string variables (#LET(name$=value)): name -> text
\* mem   : the current internal memory snapshot as a sparse overlay (address -> byte) over the
\*         bytes defined by the skool file (bo = origin, bb = bytes; 0 elsewhere)
\* stack : snapshots saved by #PUSHS (most recent last)
\* defs  : macros defined by #DEF (name -> definition)
\* subs  : textual substitutions in force (loop variables, arguments of a #DEF macro)
\* pc    : address #PC expands to at this place of the skool file
\* base  : 0, 10 (--decimal) or 16 (--hex);  case: 0, 1 (--lower) or 2 (--upper)
\* err   : the text left the documented domain (the generator must never cause this)
NewEnv(pc, base, case, bo, bb) ==
  [vars  |-> ("base" :> base) @@ ("case" :> case) @@ ("mode[base]" :> base) @@ ("mode[case]" :> case),
   svars |-> <<>>, mem   |-> <<>>, stack |-> <<>>, defs |-> <<>>, subs |-> <<>>,
   pc |-> pc, base |-> base, case |-> case, bo |-> bo, bb |-> bb, err |-> FALSE]

Err(env) == [env EXCEPT !.err = TRUE]

BaseAt(env, a) == IF a >= env.bo /\ a < env.bo + Len(env.bb) THEN env.bb[(a - env.bo) + 1] ELSE 0
ReadMem(mem, env, a) == IF a \in DOMAIN mem THEN mem[a] ELSE BaseAt(env, a)
Read(env, a) == ReadMem(env.mem, env, a)

\* #POKESaddr,byte[,length,step]
RECURSIVE PokeRun(_, _, _, _, _)
PokeRun(mem, a, v, n, step) == IF n <= 0 THEN mem ELSE PokeRun((a :> v) @@ mem, a + step, v, n - 1, step)

IntSub(v)  == [kind |-> 1, iv |-> v, s |-> Dec(v), x |-> 0]      \* an integer, spelt in decimal
TextSub(s) == [kind |-> 0, iv |-> 0, s |-> s, x |-> 0]           \* arbitrary text (#FOREACH item)
TermSub(x) == [kind |-> 2, iv |-> 0, s |-> <<>>, x |-> x]        \* string argument of a #DEF macro (by name)

TextT(s) == [t |-> "Text", s |-> s]

\* ----------------------------------------------------- expressions (phase 2)
RECURSIVE Val(_, _)
Val(e, env) ==
  CASE e.o = "lit" -> e.v
    [] e.o = "var" -> env.vars[e.n]
    [] e.o = "sub" -> env.subs[e.n].iv
    [] OTHER       -> Apply(e.o, Val(e.a, env), Val(e.b, env))

RECURSIVE Defined(_, _)
Defined(e, env) ==
  CASE e.o = "lit" -> TRUE
    [] e.o = "var" -> e.n \in DOMAIN env.vars
    [] e.o = "sub" -> e.n \in DOMAIN env.subs /\ env.subs[e.n].kind = 1
    [] e.o \in {"m", "pre"} -> FALSE
    [] OTHER       -> /\ Defined(e.a, env) /\ Defined(e.b, env)
                      /\ ApplyDefined(e.o, Val(e.a, env), Val(e.b, env))

\* ------------------------------------------------------------------ expansion
RECURSIVE Expand(_, _), P1(_, _), P1G(_, _, _, _), ExpandSeq(_, _, _, _), ExpandItems(_, _, _, _),
          WhileLoop(_, _, _, _, _), PokeGroups(_, _, _), StrScan(_, _, _, _, _), PreMap(_, _, _, _),
          FormatParts(_, _, _, _)

\* phase 1 of an integer parameter: expand the nested macros, left to right
P1(e, env) ==
  CASE e.o \in {"lit", "var", "sub"} -> <<e, env>>
    [] e.o = "m" ->
         LET r == Expand(e.x, env)
         IN IF IsIntText(r[1]) THEN <<[o |-> "lit", v |-> ParseInt(r[1])], r[2]>>
            ELSE <<[o |-> "lit", v |-> 0], Err(r[2])>>
    [] e.o = "pre" ->
         LET r == Expand(e.x, env)
         IN IF r[1] = <<>> THEN P1(e.e, r[2]) ELSE P1(e.e, Err(r[2]))
    [] OTHER ->
         LET ra == P1(e.a, env)
             rb == P1(e.b, ra[2])
         IN <<[o |-> e.o, a |-> ra[1], b |-> rb[1]], rb[2]>>

P1G(g, i, acc, env) ==
  IF i > Len(g) THEN <<acc, env>>
  ELSE LET r == P1(g[i].e, env) IN P1G(g, i + 1, Append(acc, [k |-> g[i].k, e |-> r[1]]), r[2])

\* values of a parameter group: phase 1 over the whole parameter string, then the replacement fields
\* are read in the resulting environment; omitted parameters take their defaults
ParamVals(g, defaults, env) ==
  LET r    == P1G(g, 1, <<>>, env)
      g1   == r[1]
      env1 == r[2]
      Given(i) == {j \in 1..Len(g1) : g1[j].k = i}
      ok   == \A j \in 1..Len(g1) : Defined(g1[j].e, env1)
      vals == [i \in 1..Len(defaults) |->
                 IF Given(i) = {} THEN defaults[i] ELSE Val(g1[CHOOSE j \in Given(i) : TRUE].e, env1)]
  IN IF ok THEN <<vals, env1>> ELSE <<defaults, Err(env1)>>

One(e) == <<[k |-> 1, e |-> e]>>

ExpandSeq(xs, i, acc, env) ==
  IF i > Len(xs) THEN <<acc, env>>
  ELSE LET r == Expand(xs[i], env) IN ExpandSeq(xs, i + 1, acc \o r[1], r[2])

\* items: sequence of [x |-> term, n |-> substituted name ("" = none), b |-> substitution]
ExpandBound(x, n, b, env) ==
  IF n = "" THEN Expand(x, env)
  ELSE LET r == Expand(x, [env EXCEPT !.subs = (n :> b) @@ @])
       IN <<r[1], [r[2] EXCEPT !.subs = env.subs]>>

ExpandItems(items, i, acc, env) ==
  IF i > Len(items) THEN <<acc, env>>
  ELSE LET r == ExpandBound(items[i].x, items[i].n, items[i].b, env)
       IN ExpandItems(items, i + 1, acc \o r[1], r[2])

\* #FOR: "stop is the final integer in the range", "step is the gap between each integer"
ForCount(start, stop, step) ==
  IF step > 0 THEN (IF stop < start THEN 0 ELSE ((stop - start) \div step) + 1)
  ELSE IF step < 0 THEN (IF stop > start THEN 0 ELSE ((start - stop) \div (-step)) + 1)
  ELSE 0
ForRange(start, stop, step) == [i \in 1..ForCount(start, stop, step) |-> start + ((i - 1) * step)]

\* elements and separators of #FOR / #FOREACH in output order.  subsInSep: the variable is also
\* replaced in each separator sep (flags bit 2 of #FOR); fsep is used as given.
LoopItems(bs, var, body, sep, fsep, hasf, subsInSep) ==
  LET n == Len(bs)
  IN [j \in 1..(IF n = 0 THEN 0 ELSE (2 * n) - 1) |->
        IF j % 2 = 1 THEN [x |-> body, n |-> var, b |-> bs[(j + 1) \div 2]]
        ELSE IF hasf = 1 /\ j = (2 * n) - 2 THEN [x |-> fsep, n |-> "", b |-> 0]
        ELSE IF subsInSep THEN [x |-> sep, n |-> var, b |-> bs[j \div 2]]
        ELSE [x |-> sep, n |-> "", b |-> 0]]

WhileLoop(c, body, env, acc, fuel) ==
  LET r == ParamVals(One(c), <<0>>, env)
  IN IF r[2].err \/ r[1][1] = 0 THEN <<acc, r[2]>>
     ELSE IF fuel = 0 THEN <<acc, Err(r[2])>>
     ELSE LET b == Expand(body, r[2])
          IN WhileLoop(c, body, b[2], acc \o Strip(b[1]), fuel - 1)

PokeGroups(gs, i, env) ==
  IF i > Len(gs) THEN env
  ELSE LET r == ParamVals(gs[i], <<0, 0, 1, 1>>, env)
           v == r[1]
       IN PokeGroups(gs, i + 1, [r[2] EXCEPT !.mem = PokeRun(@, v[1], v[2], v[3], v[4])])

\* #STR with length -1: up to (not including) the first zero byte, or up to and including the first
\* byte with bit 7 set (bit 7 reset); with flags bit 3 the end expression alone decides ($b = byte)
StrScan(env, a, endc, useEnd, acc) ==
  IF a >= 65536 THEN acc
  ELSE LET b == Read(env, a)
       IN IF useEnd
          THEN (IF Val(endc, [env EXCEPT !.subs = ("b" :> IntSub(b)) @@ @]) # 0 THEN acc
                ELSE StrScan(env, a + 1, endc, useEnd, Append(acc, b)))
          ELSE IF b = 0 THEN acc
          ELSE IF b >= 128 THEN Append(acc, b - 128)
          ELSE StrScan(env, a + 1, endc, useEnd, Append(acc, b))

\* #FORMAT: parts are literal text [f |-> 0, s], string variables [f |-> 2, n] ({n$}) or integer fields
\* [f |-> 1, n, z, w, ty]
\* ({n:[0][w][ty]}, ty in "", "d", "x", "X", "b"; Python format-spec semantics for integers:
\* right aligned in w columns, padded with zeroes when the 0 flag is present, else with spaces)
FieldText(p, env) ==
  LET v == env.vars[p.n]
      d == CASE p.ty = "x" -> Num(v, 16, 1, FALSE)
             [] p.ty = "X" -> Num(v, 16, 1, TRUE)
             [] p.ty = "b" -> Num(v, 2, 1, FALSE)
             [] OTHER      -> Dec(v)
  IN IF p.z = 1 THEN (IF v < 0 THEN <<45>> \o Rep(48, p.w - Len(d)) \o Tail(d) ELSE Rep(48, p.w - Len(d)) \o d)
     ELSE Rep(32, p.w - Len(d)) \o d

FormatParts(parts, i, acc, env) ==
  IF i > Len(parts) THEN acc
  ELSE FormatParts(parts, i + 1,
                   acc \o (CASE parts[i].f = 0 -> parts[i].s
                              [] parts[i].f = 1 -> FieldText(parts[i], env)
                              [] OTHER          -> env.svars[parts[i].n]), env)

\* #(...) in front of the parameters of macro m: every macro nested in the parameters is expanded,
\* in textual order, before m itself is parsed; m then sees their output as literal text
PreMap(ks, i, acc, env) ==
  IF i > Len(ks) THEN <<acc, env>>
  ELSE LET rk == P1(ks[i].k, env)
           rv == Expand(ks[i].v, rk[2])
       IN PreMap(ks, i + 1, Append(acc, [k |-> rk[1], v |-> TextT(rv[1])]), rv[2])

PreKids(m, env) ==
  CASE m.t \in {"Eval", "Peek", "Chr", "Space", "N"} ->
         LET r == P1G(m.p, 1, <<>>, env) IN <<[m EXCEPT !.p = r[1]], r[2]>>
    [] m.t = "Let" ->
         LET r == P1(m.e, env) IN <<[m EXCEPT !.e = r[1]], r[2]>>
    [] m.t = "If" ->
         LET r0 == P1G(m.p, 1, <<>>, env)
             ra == Expand(m.a, r0[2])
             rb == IF m.nb = 2 THEN Expand(m.b, ra[2]) ELSE <<<<>>, ra[2]>>
         IN <<[m EXCEPT !.p = r0[1], !.a = TextT(ra[1]), !.b = TextT(rb[1])], rb[2]>>
    [] m.t = "Map" ->
         LET r0 == P1G(m.p, 1, <<>>, env)
             rd == Expand(m.d, r0[2])
             rk == PreMap(m.ks, 1, <<>>, rd[2])
         IN <<[m EXCEPT !.p = r0[1], !.d = TextT(rd[1]), !.ks = rk[1]], rk[2]>>
    [] OTHER -> <<m, Err(env)>>

Expand(x, env) ==
  CASE x.t = "Text" -> <<x.s, env>>
    [] x.t = "Seq"  -> ExpandSeq(x.xs, 1, <<>>, env)
    [] x.t = "Sub"  ->
         \* a loop variable / macro argument: its value was substituted textually before the
         \* surrounding text is expanded; a string argument may itself contain macros
         IF x.n \notin DOMAIN env.subs THEN <<<<>>, Err(env)>>
         ELSE LET b == env.subs[x.n] IN IF b.kind = 2 THEN Expand(b.x, env) ELSE <<b.s, env>>
    [] x.t = "Eval" ->
         \* #EVALexpr[,base,width]: base 2, 10 (default) or 16; width = minimum number of digits;
         \* hexadecimal in lower case when --lower is used
         LET r == ParamVals(x.p, <<0, 10, 1>>, env)
             v == r[1]
         IN IF v[2] \notin {2, 10, 16} THEN <<<<>>, Err(r[2])>>
            ELSE <<Num(v[1], v[2], v[3], env.case # 1), r[2]>>
    [] x.t = "N" ->
         \* #Nvalue[,hwidth,dwidth,affix,hex][(prefix[,suffix])]
         LET r   == ParamVals(x.p, <<0, -1, 1, 0, 0>>, env)
             v   == r[1]
             hex == env.base = 16 \/ (v[5] # 0 /\ env.base # 10)
             hw  == IF v[2] = -1 THEN (IF v[1] \in 0..255 THEN 2 ELSE 4) ELSE v[2]
             pre == IF v[4] # 0 THEN x.pre ELSE <<>>
             suf == IF v[4] # 0 THEN x.suf ELSE <<>>
         IN IF hex THEN <<pre \o Num(v[1], 16, hw, env.case # 1) \o suf, r[2]>>
            ELSE <<Num(v[1], 10, v[3], FALSE), r[2]>>
    [] x.t = "If" ->
         \* #IFexpr(true[,false]); the selected output string is expanded afterwards
         LET r == ParamVals(x.p, <<0>>, env)
         IN IF r[1][1] # 0 THEN Expand(x.a, r[2])
            ELSE IF x.nb = 2 THEN Expand(x.b, r[2]) ELSE <<<<>>, r[2]>>
    [] x.t = "Map" ->
         \* #MAPkey(default[,k1:v1,k2:v2...]); keys are arithmetic expressions
         LET r   == ParamVals(x.p, <<0>>, env)
             key == r[1][1]
             hit == {i \in 1..Len(x.ks) : Val(x.ks[i].k, r[2]) = key}
         IN IF hit = {} THEN Expand(x.d, r[2])
            ELSE Expand(x.ks[CHOOSE i \in hit : \A j \in hit : j <= i].v, r[2])
    [] x.t = "For" ->
         \* #FORstart,stop[,step,flags](var,string[,sep,fsep])
         LET r     == ParamVals(x.p, <<0, 0, 1, 0>>, env)
             v     == r[1]
             rng   == ForRange(v[1], v[2], v[3])
             bs    == [i \in 1..Len(rng) |-> IntSub(rng[i])]
             comma == TextT(<<44>>)
             sep1  == IF Bit(v[4], 1) THEN [t |-> "Seq", xs |-> <<comma, x.sep>>] ELSE x.sep
             sep2  == IF Bit(v[4], 2) THEN [t |-> "Seq", xs |-> <<sep1, comma>>] ELSE sep1
         IN IF v[3] = 0 \/ v[4] \notin 0..7 THEN <<<<>>, Err(r[2])>>
            ELSE ExpandItems(LoopItems(bs, x.var, x.body, sep2, x.fsep, x.hasf, Bit(v[4], 4)), 1, <<>>, r[2])
    [] x.t = "Foreach" ->
         \* #FOREACH([s1,s2,...])(var,string[,sep,fsep]); items: [kind, iv, s]
         LET bs == [i \in 1..Len(x.items) |-> IF x.items[i].kind = 1 THEN IntSub(x.items[i].iv)
                                                 ELSE TextSub(x.items[i].s)]
         IN ExpandItems(LoopItems(bs, x.var, x.body, x.sep, x.fsep, x.hasf, FALSE), 1, <<>>, env)
    [] x.t = "While" ->
         \* #WHILE(expr)(body): "leading and trailing whitespace are stripped from the expanded value"
         WhileLoop(x.c, x.body, env, <<>>, 64)
    [] x.t = "Let" ->
         LET r == ParamVals(One(x.e), <<0>>, env)
         IN <<<<>>, [r[2] EXCEPT !.vars = (x.n :> r[1][1]) @@ @]>>
    [] x.t = "LetS" ->
         \* #LET(name$=value): "If name ends with a dollar sign, value is interpreted as a string";
         \* the skool macros in value "are expanded immediately"
         LET r == Expand(x.v, env)
         IN <<<<>>, [r[2] EXCEPT !.svars = (x.n :> r[1]) @@ @]>>
    [] x.t = "Format" ->
         \* #FORMAT[case](text): case 1 = lower, 2 = upper
         LET r == ParamVals(x.p, <<0>>, env)
             ok == \A i \in 1..Len(x.parts) : \/ x.parts[i].f = 0
                                                \/ (x.parts[i].f = 1 /\ x.parts[i].n \in DOMAIN r[2].vars)
                                                \/ (x.parts[i].f = 2 /\ x.parts[i].n \in DOMAIN r[2].svars)
             s == FormatParts(x.parts, 1, <<>>, r[2])
         IN IF ~ok THEN <<<<>>, Err(r[2])>>
            ELSE <<(CASE r[1][1] = 1 -> Lower(s) [] r[1][1] = 2 -> Upper(s) [] OTHER -> s), r[2]>>
    [] x.t = "Def" ->
         <<<<>>, [env EXCEPT !.defs = (x.n :> x) @@ @]>>
    [] x.t = "Call" ->
         \* a macro defined by #DEF: the argument values replace the placeholders in the body,
         \* which is then expanded; flags bit 1: expanded in isolation and stripped
         IF x.n \notin DOMAIN env.defs THEN <<<<>>, Err(env)>>
         ELSE
         LET d    == env.defs[x.n]
             r    == ParamVals(x.p, [i \in 1..Len(d.ip) |-> d.ip[i].d], env)
             ib   == [i \in 1..Len(d.ip) |-> [n |-> d.ip[i].n, b |-> IntSub(r[1][i])]]
             \* string arguments: "will take its default value only if it is omitted"
             sb   == [i \in 1..Len(d.sp) |-> [n |-> d.sp[i].n,
                                                b |-> TermSub(IF i <= Len(x.sa) THEN x.sa[i] ELSE d.sp[i].d)]]
             all  == ib \o sb
             Bind[i \in 0..Len(all)] == IF i = 0 THEN r[2].subs ELSE (all[i].n :> all[i].b) @@ Bind[i - 1]
             rb   == Expand(d.body, [r[2] EXCEPT !.subs = Bind[Len(all)]])
             envo == [rb[2] EXCEPT !.subs = r[2].subs]
         IN IF Len(x.sa) > Len(d.sp) \/ \E i \in (Len(x.sa) + 1)..Len(d.sp) : d.sp[i].hasd = 0
            THEN <<<<>>, Err(r[2])>>
            ELSE IF Bit(d.flags, 2) THEN <<Strip(rb[1]), envo>> ELSE <<rb[1], envo>>
    [] x.t = "Peek" ->
         LET r == ParamVals(x.p, <<0>>, env)
         IN IF r[1][1] \notin 0..65535 THEN <<<<>>, Err(r[2])>> ELSE <<Dec(Read(r[2], r[1][1])), r[2]>>
    [] x.t = "Pokes" -> <<<<>>, PokeGroups(x.gs, 1, env)>>
    [] x.t = "Pushs" ->
         \* "saves the current internal memory snapshot, and replaces it with an identical copy"
         <<<<>>, [env EXCEPT !.stack = Append(@, env.mem)]>>
    [] x.t = "Pops" ->
         \* "removes the current internal memory snapshot and replaces it with the one that was
         \* previously saved by a #PUSHS macro"
         IF env.stack = <<>> THEN <<<<>>, Err(env)>>
         ELSE <<<<>>, [env EXCEPT !.mem = env.stack[Len(env.stack)],
                                  !.stack = SubSeq(@, 1, Len(@) - 1)]>>
    [] x.t = "Chr" ->
         \* the character itself (UTF-8 in ASM mode; in HTML mode possibly spelt &#num;)
         LET r == ParamVals(x.p, <<0, 0>>, env)
             v == r[1]
         IN IF v[2] \notin 0..3 THEN <<<<>>, Err(r[2])>>
            ELSE <<<<IF Bit(v[2], 2) THEN ZxChar(v[1]) ELSE v[1]>>, r[2]>>
    [] x.t = "Str" ->
         \* #STRaddr[,flags,length][(end)].  flags bit 2 replaces runs of N >= 2 spaces by
         \* #SPACE(N), which expands to N spaces again: no effect on the characters produced
         LET r   == ParamVals(x.p, <<0, 0, -1>>, env)
             v   == r[1]
             raw == IF v[3] >= 0 THEN [i \in 1..v[3] |-> Read(r[2], v[1] + (i - 1))]
                    ELSE StrScan(r[2], v[1], x.end, Bit(v[2], 8), <<>>)
             s0  == [i \in 1..Len(raw) |-> ZxChar(raw[i])]
             s1  == IF Bit(v[2], 1) THEN RStrip(s0) ELSE s0
             s2  == IF Bit(v[2], 2) THEN LStrip(s1) ELSE s1
         IN IF v[2] \notin 0..15 \/ v[1] \notin 0..65535 THEN <<<<>>, Err(r[2])>> ELSE <<s2, r[2]>>
    [] x.t = "Space" ->
         \* #SPACE[num]: num spaces (&#160; in HTML mode), default 1
         LET r == ParamVals(x.p, <<1>>, env) IN <<Rep(32, r[1][1]), r[2]>>
    [] x.t = "Pc" -> <<Dec(env.pc), env>>
    [] x.t = "Pre" ->
         LET r == PreKids(x.x, env) IN Expand(r[1], r[2])
    [] OTHER -> <<<<>>, Err(env)>>

(***************************************************************************)
(* Pattern A: the macro environment as a state machine.  Every action runs  *)
(* Expand on a concrete term and compares the outcome with an independent   *)
(* statement of what the documentation promises (chk).  ghost holds a full  *)
(* dump of the memory at every #PUSHS, kept independently of env.stack.     *)
(***************************************************************************)
CONSTANTS MaxAddr, MaxVal, MaxDepth
VARIABLES env, ghost, chk, act       \* act: name of the last action (vacuity guard; not part of the VIEW)

Addr == 0..MaxAddr
Dump(e) == [a \in Addr |-> Read(e, a)]
Lit(v) == [o |-> "lit", v |-> v]
G(vs) == [i \in 1..Len(vs) |-> [k |-> i, e |-> Lit(vs[i])]]
Pristine == env.mem = <<>> /\ env.stack = <<>>
VarsInit == env.vars["x"] = 0 /\ env.vars["y"] = 0

MCInit ==
  /\ env = [NewEnv(0, 0, 0, 0, <<>>) EXCEPT !.vars = ("x" :> 0) @@ ("y" :> 0) @@ @]
  /\ ghost = <<>>
  /\ chk = TRUE
  /\ act = "init"

APokes(a, v, n, s) ==
  /\ act' = "Pokes"
  /\ VarsInit
  /\ a + ((n - 1) * s) \in Addr
  /\ LET r == Expand([t |-> "Pokes", gs |-> <<G(<<a, v, n, s>>)>>], env)
         hit == {a + (i * s) : i \in 0..(n - 1)}
     IN /\ env' = r[2]
        /\ chk' = /\ r[1] = <<>>
                  /\ \A b \in Addr : Read(r[2], b) = IF b \in hit THEN v ELSE Read(env, b)
                  /\ r[2].stack = env.stack
  /\ UNCHANGED ghost

APushs ==
  /\ act' = "Pushs"
  /\ VarsInit
  /\ Len(env.stack) < MaxDepth
  /\ LET r == Expand([t |-> "Pushs", name |-> ""], env)
     IN /\ env' = r[2]
        /\ ghost' = Append(ghost, Dump(env))
        /\ chk' = (r[1] = <<>> /\ Dump(r[2]) = Dump(env))

APops ==
  /\ act' = "Pops"
  /\ VarsInit
  /\ env.stack # <<>>
  /\ LET r == Expand([t |-> "Pops"], env)
     IN /\ env' = r[2]
        /\ ghost' = SubSeq(ghost, 1, Len(ghost) - 1)
        /\ chk' = (r[1] = <<>> /\ Dump(r[2]) = ghost[Len(ghost)] /\ ~r[2].err)

\* #LET(n=({m}+k)%3)#EVAL({n}): the new value is visible to the macro that follows
ALet(n, m, k) ==
  /\ act' = "Let"
  /\ Pristine
  /\ LET e == [o |-> "%", a |-> [o |-> "+", a |-> [o |-> "var", n |-> m], b |-> Lit(k)], b |-> Lit(3)]
         x == [t |-> "Seq", xs |-> <<[t |-> "Eval", p |-> One([o |-> "var", n |-> n])],
                                     [t |-> "Let", n |-> n, e |-> e],
                                     [t |-> "Eval", p |-> One([o |-> "var", n |-> n])]>>]
         r == Expand(x, env)
         new == (env.vars[m] + k) % 3
     IN /\ env' = r[2]
        /\ chk' = /\ r[1] = Dec(env.vars[n]) \o Dec(new)          \* old value before, new value after
                  /\ r[2].vars[n] = new
                  /\ \A o \in {"x", "y"} \ {n} : r[2].vars[o] = env.vars[o]
  /\ UNCHANGED ghost

\* #EVAL({x}*10+#LET(x=k){x}): the nested #LET is expanded before ANY field of the string is replaced
ALetNested(k) ==
  /\ act' = "LetNested"
  /\ Pristine
  /\ LET vx == [o |-> "var", n |-> "x"]
         e == [o |-> "+", a |-> [o |-> "*", a |-> vx, b |-> Lit(10)],
                          b |-> [o |-> "pre", x |-> [t |-> "Let", n |-> "x", e |-> Lit(k)], e |-> vx]]
         r == Expand([t |-> "Eval", p |-> One(e)], env)
     IN /\ env' = r[2]
        /\ chk' = (r[1] = Dec((k * 10) + k) /\ r[2].vars["x"] = k)
  /\ UNCHANGED ghost

\* #FOR(a,b,s,f)(n,n,;,&) resp. (n,n,;): |range| elements in order, sep between them, fsep last
AFor(a, b, s, f, hasf) ==
  /\ act' = "For"
  /\ Pristine /\ VarsInit
  /\ LET x == [t |-> "For", p |-> G(<<a, b, s, f>>), var |-> "n", body |-> [t |-> "Sub", n |-> "n"],
               sep |-> TextT(<<59>>), fsep |-> TextT(<<38>>), hasf |-> hasf]
         r == Expand(x, env)
         R == {v \in (IF s > 0 THEN a..b ELSE b..a) : (v - a) % Abs(s) = 0}
         n == Cardinality(R)
         Elem(i) == IF s > 0 THEN CHOOSE v \in R : Cardinality({w \in R : w < v}) = i - 1
                    ELSE CHOOSE v \in R : Cardinality({w \in R : w > v}) = i - 1
         sepT == (IF Bit(f, 1) THEN <<44>> ELSE <<>>) \o <<59>> \o (IF Bit(f, 2) THEN <<44>> ELSE <<>>)
         Exp[i \in 0..n] == IF i = 0 THEN <<>>
                            ELSE IF i = 1 THEN Dec(Elem(1))
                            ELSE Exp[i - 1] \o (IF i = n /\ hasf = 1 THEN <<38>> ELSE sepT) \o Dec(Elem(i))
         count(c) == Cardinality({i \in 1..Len(r[1]) : r[1][i] = c})
     IN /\ env' = r[2]
        /\ chk' = /\ r[1] = Exp[n]
                  /\ count(59) = (IF n = 0 THEN 0 ELSE IF hasf = 1 THEN (IF n = 1 THEN 0 ELSE n - 2) ELSE n - 1)
                  /\ count(38) = (IF hasf = 1 /\ n >= 2 THEN 1 ELSE 0)
                  /\ r[2] = env
  /\ UNCHANGED ghost

MCNext ==
  \/ \E a \in Addr, v \in 0..MaxVal, n \in 1..2, s \in 1..2 : (n = 1 => s = 1) /\ APokes(a, v, n, s)
  \/ APushs
  \/ APops
  \/ \E n \in {"x", "y"}, m \in {"x", "y"}, k \in 0..2 : ALet(n, m, k)
  \/ \E k \in 1..2 : ALetNested(k)
  \/ \E a \in -1..3, b \in -1..3, s \in {-2, -1, 1, 2}, f \in 0..3, hasf \in 0..1 : AFor(a, b, s, f, hasf)

MCVars == <<env, ghost, chk, act>>
MCView == <<env, ghost, chk>>
MCSpec == MCInit /\ [][MCNext]_MCVars

ChkOK == chk
NoErr == ~env.err
DepthOK == Len(env.stack) = Len(ghost) /\ Len(ghost) <= MaxDepth
\* the sparse snapshots on the stack read exactly like the full dumps taken at the #PUSHS
GhostAgrees == \A i \in 1..Len(ghost) : [a \in Addr |-> ReadMem(env.stack[i], env, a)] = ghost[i]
=============================================================================
