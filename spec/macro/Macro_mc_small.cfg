SPECIFICATION MCSpec
CONSTANTS
  MaxAddr = 1
  MaxVal = 1
  MaxDepth = 1
INVARIANT ChkOK
INVARIANT NoErr
INVARIANT DepthOK
INVARIANT GhostAgrees
