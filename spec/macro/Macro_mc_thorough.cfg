SPECIFICATION MCSpec
CONSTANTS
  MaxAddr = 2
  MaxVal = 1
  MaxDepth = 3
VIEW MCView
INVARIANT ChkOK
INVARIANT NoErr
INVARIANT DepthOK
INVARIANT GhostAgrees
