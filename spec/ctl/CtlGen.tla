------------------------------- MODULE CtlGen -------------------------------
(***************************************************************************)
(* sna2ctl's block-directive generator with a code map, over an abstract    *)
(* memory: the range 0..N-1, each address carrying the length (1..MaxLen)   *)
(* of the instruction that would be decoded there and an END flag           *)
(* (RET/JP/JR).  ctls : address -> type, as in the implementation.          *)
(*                                                                         *)
(* FindTerminal is _find_terminal_instruction transcribed: it walks          *)
(* instructions from `from`, and (when no ctl is given) deletes every       *)
(* directive that falls inside an instruction it walks over.                *)
(*                                                                         *)
(* The C14 invariant on the directive map:                                  *)
(*   start and end are directives, ctls[end] = "i", nothing outside         *)
(*   start..end - so that the emitted control file tiles the range.         *)
(***************************************************************************)
EXTENDS Integers, FiniteSets, Sequences, TLC

CONSTANTS N, MaxLen,
          ClipToEnd      \* TRUE: directives are deleted / added only below the walk's limit (the repaired behaviour)
VARIABLES len, isEnd, ctls, phase

vars == <<len, isEnd, ctls, phase>>
Start == 0
End == N

Dom(f) == DOMAIN f
Del(f, S) == [a \in Dom(f) \ S |-> f[a]]
Put(f, a, v) == [b \in Dom(f) \cup {a} |-> IF b = a THEN v ELSE f[b]]

\* result of walking from address `from` up to `limit`: <<ctls', stop address>>
RECURSIVE Walk(_, _, _, _, _)
Walk(c, a, limit, ctl, nextCtl) ==
  IF a >= limit THEN <<c, a>>
  ELSE
    LET sz == len[a]
        b == a + sz
        inside == { x \in a..(b - 1) : x \in Dom(c) /\ (~ClipToEnd \/ x < limit) }
        c1 == IF ctl = "none" THEN Del(c, inside) ELSE c
        nc == IF ctl = "none" /\ inside # {} THEN c[CHOOSE x \in inside : \A y \in inside : y <= x] ELSE nextCtl
    IN IF ctl = "none" /\ b \in Dom(c1) /\ c1[b] = "c" THEN <<c1, b>>
       ELSE IF isEnd[a] THEN
         <<IF (IF ClipToEnd THEN b < limit ELSE b < N + MaxLen) /\ b \notin Dom(c1) THEN Put(c1, b, IF ctl = "none" THEN nc ELSE ctl) ELSE c1, b>>
       ELSE Walk(c1, b, limit, ctl, nc)

FindTerminal(c, from, limit, ctl) == Walk(c, from, limit, ctl, "U")

Blocks(c) == { <<a, b>> \in Dom(c) \X Dom(c) : a < b /\ \A x \in Dom(c) : ~(a < x /\ x < b) }

Init ==
  /\ len \in [0..(N - 1) -> 1..MaxLen]
  /\ isEnd \in [0..(N - 1) -> BOOLEAN]
  /\ \E code \in SUBSET (0..(N - 1)) :
       \* step 1: executed instructions become c blocks, the rest U
       ctls = [a \in {Start, End} \cup code \cup { x \in 0..N : x > 0 /\ (x - 1) \in code /\ x \notin code /\ x < End }
                 |-> IF a = End THEN "i" ELSE IF a \in code THEN "c" ELSE "U"]
  /\ phase = 2

\* (2) extend a c block that does not end with a terminal instruction
Step2 ==
  /\ phase = 2
  /\ \E blk \in Blocks(ctls) :
       /\ ctls[blk[1]] = "c"
       /\ LET r == FindTerminal(ctls, blk[2], End, "none") IN ctls' = r[1]
  /\ UNCHANGED <<len, isEnd, phase>>
\* (4) split c blocks on terminal instructions
Step4 ==
  /\ phase \in {2, 4}
  /\ \E blk \in Blocks(ctls) :
       /\ ctls[blk[1]] = "c"
       /\ LET r == FindTerminal(ctls, blk[1], blk[2], "c") IN ctls' = r[1]
  /\ phase' = 4
  /\ UNCHANGED <<len, isEnd>>
\* (6) unknown blocks become data
Step6 ==
  /\ phase \in {2, 4}
  /\ ctls' = [a \in Dom(ctls) |-> IF ctls[a] = "U" THEN "b" ELSE ctls[a]]
  /\ phase' = 6
  /\ UNCHANGED <<len, isEnd>>

Next == Step2 \/ Step4 \/ Step6
Spec == Init /\ [][Next]_vars

TilesRange ==
  /\ Start \in Dom(ctls) /\ End \in Dom(ctls)
  /\ ctls[End] = "i"
  /\ \A a \in Dom(ctls) : a >= Start /\ a <= End
=============================================================================
