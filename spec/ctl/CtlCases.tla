------------------------------ MODULE CtlCases ------------------------------
(***************************************************************************)
(* Pattern B for C14.                                                      *)
(* kind "ft": one call of the real _find_terminal_instruction on an image   *)
(*   built from abstract lengths/END flags, compared with CtlGen!FindTerminal*)
(* kind "out": the control file sna2ctl wrote for an image/range/code map,  *)
(*   and what sna2skool made of it:                                         *)
(*   dirs  = block directives <<type, address>> in file order               *)
(*   subs  = addresses of sub-block directives                              *)
(*   map   = code-map addresses inside the range                            *)
(*   iaddr = statement addresses sna2skool produced from that control file  *)
(*   warn  = 1 if sna2skool/skool2bin printed an overlap warning or failed  *)
(*   plus the TilingCases fields for the C01 guarantee                      *)
(***************************************************************************)
EXTENDS CtlGenOps, Json, IOUtils

Cases == JsonDeserialize(IOEnv.CASES)
VARIABLES tid, verdict

SeqToSet(q) == { q[i] : i \in 1..Len(q) }
ToFun(pairs) == [a \in { pairs[i][1] : i \in 1..Len(pairs) } |-> (CHOOSE i \in 1..Len(pairs) : pairs[i][1] = a) ]
CtlsOf(pairs) == [a \in { pairs[i][1] : i \in 1..Len(pairs) } |-> pairs[CHOOSE i \in 1..Len(pairs) : pairs[i][1] = a][2]]

JudgeFT(c) ==
  LET pre == CtlsOf(c.pre)
      r == FT(c.len, c.isend, pre, c.from, c.limit, c.ctl, c.n, c.clip = 1)
  IN IF c.exc # "" THEN "exception"
     ELSE IF r[2] # c.ret THEN "return-address"
     ELSE IF r[1] # CtlsOf(c.post) THEN "ctls"
     ELSE "ok"

Ignored(c, a) == \E i \in 1..Len(c.ignored) : a >= c.ignored[i][1] /\ a < c.ignored[i][2]
BinAt(c, a) == LET k == a - c.binstart IN IF k >= 0 /\ k < Len(c.bin) THEN c.bin[k + 1] ELSE -1
\* the block a belongs to: the last directive at or below a
TypeAt(c, a) == LET S == { i \in 1..Len(c.dirs) : c.dirs[i][2] <= a } IN
                IF S = {} THEN "none" ELSE c.dirs[CHOOSE i \in S : \A j \in S : c.dirs[j][2] <= c.dirs[i][2]][1]

JudgeOut(c) ==
  IF c.timeout = 1 THEN "no-termination"
  ELSE IF c.err # "" THEN "sna2ctl-error"
  ELSE IF Len(c.dirs) = 0 THEN "no-directives"
  ELSE IF c.dirs[1][2] # c.start THEN "first-directive"
  ELSE IF \E i \in 1..Len(c.dirs)-1 : c.dirs[i][2] >= c.dirs[i + 1][2] THEN "order"
  \* (an end address of 65536 is not an address: the file then simply ends with the last block)
  ELSE IF c.end < 65536 /\ (c.dirs[Len(c.dirs)][2] # c.end \/ c.dirs[Len(c.dirs)][1] # "i") THEN "terminator"
  ELSE IF c.end = 65536 /\ c.dirs[Len(c.dirs)][2] >= c.end THEN "terminator"
  ELSE IF \E i \in 1..Len(c.dirs)-1 : c.dirs[i][1] \notin {"b", "c", "g", "s", "t", "u", "w", "i"} THEN "directive-type"
  ELSE IF \E i \in 1..Len(c.map) : TypeAt(c, c.map[i]) # "c" THEN "map-not-in-code"
  ELSE IF c.strict = 0 THEN "ok"        \* arbitrary address set instead of an execution trace
  ELSE IF c.skoolerr # "" THEN "sna2skool-error"
  ELSE IF c.warn = 1 THEN "overlap-warning"
  ELSE IF \E i \in 1..Len(c.subs) : c.subs[i] \notin SeqToSet(c.iaddr) THEN "sub-block-off-boundary"
  ELSE IF Len(c.stmts) = 0 THEN "no-statements"
  ELSE IF c.stmts[1] # c.start THEN "first-statement"
  ELSE IF \E i \in 1..Len(c.stmts)-1 : c.stmts[i] >= c.stmts[i + 1] THEN "statement-order"
  ELSE IF \E a \in c.start..(c.end - 1) : ~Ignored(c, a) /\ BinAt(c, a) # c.mem[a - c.start + 1] THEN "bytes"
  ELSE "ok"

Judge(c) == IF c.kind = "ft" THEN JudgeFT(c) ELSE JudgeOut(c)

Init == tid \in 1..Len(Cases) /\ verdict = "pending"
Next == /\ verdict = "pending"
        /\ verdict' = Judge(Cases[tid])
        /\ UNCHANGED tid
        /\ (verdict' = "ok" \/ PrintT(<<"FAIL", tid, verdict'>>))
=============================================================================
