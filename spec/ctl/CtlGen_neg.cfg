SPECIFICATION Spec
CONSTANTS
  N = 4
  MaxLen = 3
  ClipToEnd = FALSE
INVARIANT TilesRange
CHECK_DEADLOCK FALSE
