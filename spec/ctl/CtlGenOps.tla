------------------------------ MODULE CtlGenOps ------------------------------
(* FindTerminal as a plain operator over explicit arguments (the same text as in CtlGen, which *)
(* uses it on its variables), so that recorded calls of the real function can be judged.       *)
EXTENDS Integers, FiniteSets, Sequences, TLC

Dom(f) == DOMAIN f
Del(f, S) == [a \in Dom(f) \ S |-> f[a]]
Put(f, a, v) == [b \in Dom(f) \cup {a} |-> IF b = a THEN v ELSE f[b]]

\* len, isEnd: sequences indexed by address + 1; n = memory size of the abstract image
RECURSIVE WalkX(_, _, _, _, _, _, _, _, _)
WalkX(len, isEnd, c, a, limit, ctl, nextCtl, n, clip) ==
  IF a >= limit THEN <<c, a>>
  ELSE
    LET sz == len[a + 1]
        b == a + sz
        inside == { x \in a..(b - 1) : x \in Dom(c) /\ (~clip \/ x < limit) }
        c1 == IF ctl = "none" THEN Del(c, inside) ELSE c
        nc == IF ctl = "none" /\ inside # {} THEN c[CHOOSE x \in inside : \A y \in inside : y <= x] ELSE nextCtl
    IN IF ctl = "none" /\ b \in Dom(c1) /\ c1[b] = "c" THEN <<c1, b>>
       ELSE IF isEnd[a + 1] = 1 THEN
         <<IF (IF clip THEN b < limit ELSE b < n) /\ b \notin Dom(c1) THEN Put(c1, b, IF ctl = "none" THEN nc ELSE ctl) ELSE c1, b>>
       ELSE WalkX(len, isEnd, c1, b, limit, ctl, nc, n, clip)

FT(len, isEnd, c, from, limit, ctl, n, clip) == WalkX(len, isEnd, c, from, limit, ctl, "U", n, clip)
=============================================================================
