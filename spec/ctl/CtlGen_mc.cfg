SPECIFICATION Spec
CONSTANTS
  N = 5
  MaxLen = 3
  ClipToEnd = TRUE
INVARIANT TilesRange
CHECK_DEADLOCK FALSE
