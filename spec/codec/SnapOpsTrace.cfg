SPECIFICATION TraceSpec
CONSTANTS
  BankSize = 16384
CHECK_DEADLOCK FALSE
INVARIANT TraceTypeOK
INVARIANT TraceRam
PROPERTY HeaderStable
