------------------------------ MODULE SnapOps ------------------------------
(***************************************************************************)
(* bin2sna.py / snapmod.py as a state machine over the abstract content of *)
(* a snapshot: the options --reg, --state, --poke, --move, --patch are the  *)
(* actions; each changes exactly what it names and nothing else.            *)
(* From the command documentation (sphinx/source/commands.rst, `--reg help`,*)
(* `--state help`):                                                         *)
(*   --reg name=value        "Set the value of a register or register pair" *)
(*                           names a b bc c d de e f h hl l, ^-prefixed     *)
(*                           shadow registers, i ix iy pc r sp, memptr      *)
(*   --state name=value      7ffd, ay[N], fffd (128K only), border, fe (SZX *)
(*                           only), iff, im, issue2, tstates                *)
(*   --poke [p:]a[-b[-c]],[^+]v  "POKE N,v in RAM bank p for N in {a, a+c,  *)
(*                           a+2c..., b}. Prefix 'v' with '^' to perform an *)
(*                           XOR operation, or '+' to perform an ADD"       *)
(*   --move [s:]src,size,[d:]dest  "Copy a block of bytes of the given size *)
(*                           from src in RAM bank s to dest in RAM bank d"  *)
(*   --patch [p:]a,file      "Apply a binary patch file at address 'a' in   *)
(*                           RAM bank 'p'"                                  *)
(*                                                                         *)
(* Memory is the eight 16K RAM banks (a 48K machine has banks 5, 2, 0 at    *)
(* 0x4000, 0x8000, 0xC000); a cell is bank * BankSize + offset.  The state  *)
(* keeps only the cells that were ever written (mem), every other cell      *)
(* still holds the initial image Base(cell), so a state stays small while   *)
(* "every byte of every bank" is still defined.                             *)
(***************************************************************************)
EXTENDS SnapFields, FiniteSets, SequencesExt, TLC

CONSTANTS BankSize            \* 16384; the model checker uses a small value (all addresses scale with it)

VARIABLES fmt,                \* "z80" | "szx"
          ver,                \* .z80 header version 1, 2, 3 (3 for szx: everything is carried)
          machine,            \* "48K" | "128K" | "+2"
          regs, attrs, mem
vars == <<fmt, ver, machine, regs, attrs, mem>>

AddrSpace == 4 * BankSize
Base(c) == ((c * 7) + ((c \div 256) * 13) + ((c \div BankSize) * 101) + 3) % 256    \* shared with snapdrv.base_bank

Bit(v, n) == (v \div (2 ^ n)) % 2
Xor8(a, b) == LET x(n) == ((Bit(a, n) + Bit(b, n)) % 2) * (2 ^ n) IN x(0) + x(1) + x(2) + x(3) + x(4) + x(5) + x(6) + x(7)

Reg16 == {"bc", "de", "hl", "bc2", "de2", "hl2", "ix", "iy", "sp", "pc", "memptr"}
Reg8 == {"a", "f", "a2", "f2", "i", "r"}
\* option names: ^x is written x2 here; the 8-bit halves of the pairs
HiOf == [b |-> "bc", d |-> "de", h |-> "hl", b2 |-> "bc2", d2 |-> "de2", h2 |-> "hl2"]
LoOf == [c |-> "bc", e |-> "de", l |-> "hl", c2 |-> "bc2", e2 |-> "de2", l2 |-> "hl2"]
RegNames == Reg16 \cup Reg8 \cup DOMAIN HiOf \cup DOMAIN LoOf
AttrNames == {"iff", "im", "border", "issue2", "tstates", "7ffd", "fffd", "ay", "fe"}

ZeroRegs == [n \in Reg16 \cup Reg8 |-> 0]
\* documented defaults of a new snapshot (--state help): border 0, iff 1, im 1, issue2 0, tstates 34943
DefaultAttrs == [iff1 |-> 1, iff2 |-> 1, im |-> 1, border |-> 0, issue2 |-> 0, t |-> 34943,
                 o7ffd |-> 0, offfd |-> 0, ay |-> NoAy, fe |-> 0]

(***************************************************************************)
(* What a format can hold (named deviations from "everything"): a .z80      *)
(* file has no MEMPTR and no port 0xFE byte; only version 3 has the T-state *)
(* counter; version 1 has no 128K fields; an .szx file keeps the issue 2    *)
(* flag in the keyboard chunk, which exists for 48K machines only.          *)
(***************************************************************************)
HasReg(f, name) == name # "memptr" \/ f = "szx"
HasAttr(f, v, m, name) ==
  CASE name = "fe" -> f = "szx"
    [] name = "tstates" -> f = "szx" \/ v = 3
    [] name \in {"7ffd", "fffd", "ay"} -> f = "szx" \/ v >= 2
    [] name = "issue2" -> f = "z80" \/ m = "48K"
    [] OTHER -> TRUE

(***************************************************************************)
(* Pure state functions (s = [regs, attrs, mem]); the actions below and the *)
(* trace module apply exactly these.                                        *)
(***************************************************************************)
SetReg(r, f, name, v) ==
  IF ~HasReg(f, name) THEN r
  ELSE IF name \in Reg16 THEN [r EXCEPT ![name] = v % 65536]
  ELSE IF name \in Reg8 THEN [r EXCEPT ![name] = v % 256]
  ELSE IF name \in DOMAIN HiOf THEN [r EXCEPT ![HiOf[name]] = (@ % 256) + (256 * (v % 256))]
  ELSE [r EXCEPT ![LoOf[name]] = ((@ \div 256) * 256) + (v % 256)]

SetAttr(a, f, v, m, name, idx, val) ==
  IF ~HasAttr(f, v, m, name) THEN a
  ELSE CASE name = "iff" -> [a EXCEPT !.iff1 = val, !.iff2 = val]
         [] name = "im" -> [a EXCEPT !.im = val]
         [] name = "border" -> [a EXCEPT !.border = val]
         [] name = "issue2" -> [a EXCEPT !.issue2 = val]
         [] name = "tstates" -> [a EXCEPT !.t = val % Frame(m)]      \* position in the frame
         [] name = "7ffd" -> [a EXCEPT !.o7ffd = val]
         [] name = "fffd" -> [a EXCEPT !.offfd = val]
         [] name = "ay" -> [a EXCEPT !.ay[idx + 1] = val]
         [] name = "fe" -> [a EXCEPT !.fe = val]

Get(m, c) == IF c \in DOMAIN m THEN m[c] ELSE Base(c)
Put(m, c, v) == IF c < 0 THEN m ELSE (c :> v) @@ m               \* c < 0: ROM, not part of a snapshot

\* cells whose content differs between two memories (both only differ on tracked cells)
Changed(m1, m2) == {c \in DOMAIN m1 \cup DOMAIN m2 : Get(m1, c) # Get(m2, c)}

\* the cell behind a CPU address: 0x0000 ROM, 0x4000 bank 5, 0x8000 bank 2, 0xC000 bank 0 (48K) or the
\* bank selected by bits 0-2 of the last OUT to 0x7ffd (128K)
TopBank(m, o7ffd) == IF m = "48K" THEN 0 ELSE o7ffd % 8
Map(m, o7ffd, addr) ==
  LET region == addr \div BankSize off == addr % BankSize IN
  CASE region = 0 -> -1
    [] region = 1 -> (5 * BankSize) + off
    [] region = 2 -> (2 * BankSize) + off
    [] region = 3 -> (TopBank(m, o7ffd) * BankSize) + off
    [] OTHER -> -1
\* with a bank prefix the address is taken modulo the bank size
CellOf(m, o7ffd, page, addr) == IF page >= 0 THEN ((page % 8) * BankSize) + (addr % BankSize) ELSE Map(m, o7ffd, addr)
View(mm, m, o7ffd, addr) == LET c == Map(m, o7ffd, addr) IN IF c < 0 THEN 0 ELSE Get(mm, c)

PokeVal(old, op, v) == CASE op = "set" -> v % 256 [] op = "xor" -> Xor8(old, v % 256) [] op = "add" -> (old + v) % 256

\* addresses a, a+step, ... <= b in that order
PokeAddrs(a, b, step) == IF b < a THEN <<>> ELSE [k \in 1..(((b - a) \div step) + 1) |-> a + ((k - 1) * step)]

DoPoke(mm, m, o7ffd, page, a, b, step, op, v) ==
  FoldLeft(LAMBDA acc, addr : LET c == CellOf(m, o7ffd, page, addr) IN
                              IF c < 0 THEN acc ELSE Put(acc, c, PokeVal(Get(acc, c), op, v)),
           mm, PokeAddrs(a, b, step))

\* a move reads the whole source block first and then writes it ("copy a block")
DoMove(mm, m, o7ffd, spage, src, n, dpage, dst) ==
  LET data == [k \in 1..n |-> LET c == CellOf(m, o7ffd, spage, src + k - 1) IN IF c < 0 THEN 0 ELSE Get(mm, c)] IN
  FoldLeft(LAMBDA acc, k : Put(acc, CellOf(m, o7ffd, dpage, dst + k - 1), data[k]), mm, [k \in 1..n |-> k])

\* a patch writes consecutive bytes; what does not fit below the end of the address space / bank is dropped
DoPatch(mm, m, o7ffd, page, a, data) ==
  LET room == IF page >= 0 THEN BankSize - (a % BankSize) ELSE AddrSpace - a
      n == IF Len(data) < room THEN Len(data) ELSE room IN
  FoldLeft(LAMBDA acc, k : Put(acc, CellOf(m, o7ffd, page, a + k - 1), data[k]), mm, [k \in 1..n |-> k])

(***************************************************************************)
(* Enabling conditions = the documented domain of each option.              *)
(***************************************************************************)
RegOK(name, v) == name \in RegNames /\ v \in 0..(IF name \in Reg16 THEN 65535 ELSE 255)
AttrOK(m, name, idx, v) ==
  CASE name = "iff" -> v \in 0..1 [] name = "im" -> v \in 0..2 [] name = "border" -> v \in 0..7
    [] name = "issue2" -> v \in 0..1 [] name = "tstates" -> v >= 0
    [] name \in {"7ffd", "fffd", "fe"} -> v \in 0..255 /\ (name = "fe" \/ m # "48K")
    [] name = "ay" -> v \in 0..255 /\ idx \in 0..15 /\ m # "48K"
    [] OTHER -> FALSE
PageOK(m, page) == page = -1 \/ (page \in 0..7 /\ m # "48K")
PokeOK(m, page, a, b, step, op, v) ==
  /\ PageOK(m, page) /\ step >= 1 /\ a \in 0..(AddrSpace - 1) /\ b \in 0..(AddrSpace - 1)
  /\ op \in {"set", "xor", "add"} /\ v \in 0..255
MoveOK(m, spage, src, n, dpage, dst) ==
  /\ PageOK(m, spage) /\ PageOK(m, dpage) /\ (spage = -1) = (dpage = -1) /\ n >= 0
  /\ IF spage = -1 THEN src >= BankSize /\ src + n <= AddrSpace /\ dst >= 0 /\ dst + n <= AddrSpace
     ELSE (src % BankSize) + n <= BankSize /\ (dst % BankSize) + n <= BankSize     \* inside the named banks
\* a bank-prefixed move that does not fit inside the named banks: the documentation does not say whether it is
\* clipped or wraps, so only the frame condition is specified: at most the named destination cells (clipped at
\* the end of the destination bank) change, and every bank keeps its size
MoveOverOK(m, spage, src, n, dpage, dst) ==
  /\ spage \in 0..7 /\ dpage \in 0..7 /\ m # "48K" /\ n >= 0 /\ src >= 0 /\ dst >= 0
  /\ ((src % BankSize) + n > BankSize \/ (dst % BankSize) + n > BankSize)
MoveOverAllowed(dpage, n, dst) ==
  LET d == dst % BankSize
      last == IF d + n > BankSize THEN BankSize - 1 ELSE d + n - 1 IN
  {((dpage % 8) * BankSize) + off : off \in d..last}
MoveOverRel(mm, mm2, dpage, n, dst) == Changed(mm, mm2) \subseteq MoveOverAllowed(dpage, n, dst)

PatchOK(m, page, a, data) == PageOK(m, page) /\ a \in 0..(AddrSpace - 1) /\ \A k \in 1..Len(data) : data[k] \in 0..255

(***************************************************************************)
(* Actions.  Every action leaves unchanged whatever it does not name.       *)
(***************************************************************************)
Reg(name, v) ==
  /\ RegOK(name, v)
  /\ regs' = SetReg(regs, fmt, name, v)
  /\ UNCHANGED <<fmt, ver, machine, attrs, mem>>

State(name, idx, v) ==
  /\ AttrOK(machine, name, idx, v)
  /\ attrs' = SetAttr(attrs, fmt, ver, machine, name, idx, v)
  /\ UNCHANGED <<fmt, ver, machine, regs, mem>>

Poke(page, a, b, step, op, v) ==
  /\ PokeOK(machine, page, a, b, step, op, v)
  /\ mem' = DoPoke(mem, machine, attrs.o7ffd, page, a, b, step, op, v)
  /\ UNCHANGED <<fmt, ver, machine, regs, attrs>>

Move(spage, src, n, dpage, dst) ==
  /\ MoveOK(machine, spage, src, n, dpage, dst)
  /\ mem' = DoMove(mem, machine, attrs.o7ffd, spage, src, n, dpage, dst)
  /\ UNCHANGED <<fmt, ver, machine, regs, attrs>>

\* (mem' is not determined by the action: the trace module supplies it from the observation)
MoveOver(spage, src, n, dpage, dst, newmem) ==
  /\ MoveOverOK(machine, spage, src, n, dpage, dst)
  /\ MoveOverRel(mem, newmem, dpage, n, dst)
  /\ mem' = newmem
  /\ UNCHANGED <<fmt, ver, machine, regs, attrs>>

Patch(page, a, data) ==
  /\ PatchOK(machine, page, a, data)
  /\ mem' = DoPatch(mem, machine, attrs.o7ffd, page, a, data)
  /\ UNCHANGED <<fmt, ver, machine, regs, attrs>>

\* one command invocation = a sequence of options; an option is a record
\* [k, name, idx, v, page, a, b, step, op, n, dpage, dst, data]
OpOK(m, o) ==
  CASE o.k = "reg" -> RegOK(o.name, o.v)
    [] o.k = "state" -> AttrOK(m, o.name, o.idx, o.v)
    [] o.k = "poke" -> PokeOK(m, o.page, o.a, o.b, o.step, o.op, o.v)
    [] o.k = "move" -> MoveOK(m, o.page, o.a, o.n, o.dpage, o.dst)
    [] o.k = "patch" -> PatchOK(m, o.page, o.a, o.data)
    [] OTHER -> FALSE
ApplyOp(f, v, m, s, o) ==
  CASE o.k = "reg" -> [s EXCEPT !.regs = SetReg(@, f, o.name, o.v)]
    [] o.k = "state" -> [s EXCEPT !.attrs = SetAttr(@, f, v, m, o.name, o.idx, o.v)]
    [] o.k = "poke" -> [s EXCEPT !.mem = DoPoke(@, m, s.attrs.o7ffd, o.page, o.a, o.b, o.step, o.op, o.v)]
    [] o.k = "move" -> [s EXCEPT !.mem = DoMove(@, m, s.attrs.o7ffd, o.page, o.a, o.n, o.dpage, o.dst)]
    [] o.k = "patch" -> [s EXCEPT !.mem = DoPatch(@, m, s.attrs.o7ffd, o.page, o.a, o.data)]
ApplyOps(f, v, m, s, ops) == FoldLeft(LAMBDA acc, o : ApplyOp(f, v, m, acc, o), s, ops)

Invoke(ops) ==
  /\ \A k \in 1..Len(ops) : OpOK(machine, ops[k])
  /\ LET s == ApplyOps(fmt, ver, machine, [regs |-> regs, attrs |-> attrs, mem |-> mem], ops) IN
     regs' = s.regs /\ attrs' = s.attrs /\ mem' = s.mem
  /\ UNCHANGED <<fmt, ver, machine>>


TypeOK ==
  /\ \A n \in Reg16 : regs[n] \in 0..65535
  /\ \A n \in Reg8 : regs[n] \in 0..255
  /\ attrs.iff1 \in 0..1 /\ attrs.iff2 \in 0..1 /\ attrs.im \in 0..2 /\ attrs.border \in 0..7
  /\ attrs.issue2 \in 0..1 /\ attrs.t \in 0..(Frame(machine) - 1)
  /\ attrs.o7ffd \in 0..255 /\ attrs.offfd \in 0..255 /\ attrs.fe \in 0..255
  /\ \A k \in 1..16 : attrs.ay[k] \in 0..255
  /\ \A c \in DOMAIN mem : c \in 0..((8 * BankSize) - 1) /\ mem[c] \in 0..255

\* ROM is not part of a snapshot; a 48K snapshot only ever changes banks 5, 2, 0
OnlyRamOfTheMachine == \A c \in DOMAIN mem : machine = "48K" => (c \div BankSize) \in {0, 2, 5}
\* what the format cannot hold never changes
FormatLimits == /\ fmt = "z80" => regs.memptr = 0 /\ attrs.fe = 0
                /\ (fmt = "szx" /\ machine # "48K") => attrs.issue2 = 0
\* frame conditions as action properties
RegsOnlyByReg == [][regs' # regs => (attrs' = attrs /\ mem' = mem)]_vars
AttrsOnlyByState == [][attrs' # attrs => (regs' = regs /\ mem' = mem)]_vars
MemOnlyByMemOps == [][mem' # mem => (regs' = regs /\ attrs' = attrs)]_vars
HeaderStable == [][fmt' = fmt /\ ver' = ver /\ machine' = machine]_vars
\* the CPU's view of 0xC000.. is the bank selected by 7ffd
ViewConsistent == \A off \in 0..(BankSize - 1) :
  View(mem, machine, attrs.o7ffd, (3 * BankSize) + off) = Get(mem, (TopBank(machine, attrs.o7ffd) * BankSize) + off)

=============================================================================
