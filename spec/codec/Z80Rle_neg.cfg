SPECIFICATION EncSpec
CONSTANTS
  Alphabet = {237, 0, 1}
  MaxLen = 5
  MaxRun = 6
  MinRun = 5
  EdRuns = FALSE
INVARIANT RoundTrip
CHECK_DEADLOCK FALSE
