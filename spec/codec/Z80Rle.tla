------------------------------- MODULE Z80Rle -------------------------------
(***************************************************************************)
(* The run-length scheme of .z80 snapshot files, from the published format *)
(* text ("Z80 file format", worldofspectrum FAQ):                          *)
(*                                                                         *)
(*   "it replaces repetitions of at least five equal bytes by a four-byte  *)
(*    code ED ED xx yy, which stands for 'byte yy repeated xx times'. Only *)
(*    sequences of length at least 5 are coded. The exception is sequences *)
(*    consisting of ED's; if they are encountered, even two ED's are       *)
(*    encoded into ED ED 02 ED. Finally, every byte directly following a   *)
(*    single ED is not taken into a block, for example ED 6*00 is not      *)
(*    encoded into ED ED ED 06 00 but into ED 00 ED ED 05 00. The block is *)
(*    terminated by an end marker, 00 ED ED 00."            (version 1)    *)
(*   "[v2/v3 blocks: 2 bytes length of compressed data (without this       *)
(*    header); if length=0xffff, data is 16384 bytes long and not          *)
(*    compressed; 1 byte page number; data] ... The compression method is  *)
(*    the same as in v1, except there is no end marker."                   *)
(*                                                                         *)
(* Part 1: the decoder the text defines (SpecDecode, WellFormed).          *)
(* Part 2: the encoder the text describes in functional form (EncModel);   *)
(*         Z80RleEnc.tla has it as a per-byte state machine (pattern A).   *)
(***************************************************************************)
EXTENDS Integers, Sequences, FiniteSets

ED == 237
Rep(n, b) == [k \in 1..n |-> b]

(***************************************************************************)
(* Part 1 - decoding.  A block is read left to right as a token stream: at *)
(* a token boundary the two bytes ED ED open a four-byte run token         *)
(* ED ED n b; any other byte (including an ED not followed by ED) is a     *)
(* literal token.                                                          *)
(***************************************************************************)
RunAt(blk, i) == blk[i] = ED /\ i + 1 <= Len(blk) /\ blk[i + 1] = ED

RECURSIVE DecodeFrom(_, _)
DecodeFrom(blk, i) ==
  IF i > Len(blk) THEN <<>>
  ELSE IF RunAt(blk, i)
       THEN IF i + 3 <= Len(blk) THEN Rep(blk[i + 2], blk[i + 3]) \o DecodeFrom(blk, i + 4)
            ELSE <<>>                                  \* truncated run token: not WellFormed
       ELSE <<blk[i]>> \o DecodeFrom(blk, i + 1)

SpecDecode(blk) == DecodeFrom(blk, 1)

\* A data block is well formed when every run token is complete and has a repeat count of at
\* least 1 (the count 0 is reserved: it only occurs in the version 1 end marker).
RECURSIVE WellFormedFrom(_, _)
WellFormedFrom(blk, i) ==
  IF i > Len(blk) THEN TRUE
  ELSE IF RunAt(blk, i)
       THEN i + 3 <= Len(blk) /\ blk[i + 2] >= 1 /\ WellFormedFrom(blk, i + 4)
       ELSE WellFormedFrom(blk, i + 1)

WellFormed(blk) == WellFormedFrom(blk, 1)

\* ---- version 1: one block for the whole 48K, ended by the marker 00 ED ED 00 -------------------
Marker == <<0, ED, ED, 0>>
MarkerAt(blk, i) == i + 3 <= Len(blk) /\ blk[i] = 0 /\ blk[i + 1] = ED /\ blk[i + 2] = ED /\ blk[i + 3] = 0

RECURSIVE DecodeV1From(_, _)
DecodeV1From(blk, i) ==
  IF i > Len(blk) THEN <<>>                            \* no end marker: not WellFormedV1
  ELSE IF MarkerAt(blk, i) THEN <<>>
  ELSE IF RunAt(blk, i)
       THEN IF i + 3 <= Len(blk) THEN Rep(blk[i + 2], blk[i + 3]) \o DecodeV1From(blk, i + 4)
            ELSE <<>>
       ELSE <<blk[i]>> \o DecodeV1From(blk, i + 1)

SpecDecodeV1(blk) == DecodeV1From(blk, 1)

\* position just after the end marker (0 when there is none)
RECURSIVE EndV1From(_, _)
EndV1From(blk, i) ==
  IF i > Len(blk) THEN 0
  ELSE IF MarkerAt(blk, i) THEN i + 4
  ELSE IF RunAt(blk, i) THEN (IF i + 3 <= Len(blk) /\ blk[i + 2] >= 1 THEN EndV1From(blk, i + 4) ELSE 0)
  ELSE EndV1From(blk, i + 1)

\* well formed v1 block: well formed tokens, then the marker, and nothing after it
WellFormedV1(blk) == EndV1From(blk, 1) = Len(blk) + 1

\* ---- versions 2/3: length field + page + data ----------------------------------------------------
\* lenfield = 65535 means "16384 bytes, not compressed"
SpecDecodePaged(lenfield, data) == IF lenfield = 65535 THEN data ELSE SpecDecode(data)
WellFormedPaged(lenfield, data) ==
  IF lenfield = 65535 THEN Len(data) = 16384 ELSE Len(data) = lenfield /\ WellFormed(data)

(***************************************************************************)
(* The same decoder in run form, for long blocks: the result is a sequence *)
(* of <<byte, count>> pairs; Norm merges neighbours with equal bytes and   *)
(* drops empty runs, so two run lists denote the same byte string iff      *)
(* their normal forms are equal.                                           *)
(***************************************************************************)
RECURSIVE RunsFrom(_, _, _)
RunsFrom(blk, i, v1) ==
  IF i > Len(blk) THEN <<>>
  ELSE IF v1 /\ MarkerAt(blk, i) THEN <<>>
  ELSE IF RunAt(blk, i)
       THEN IF i + 3 <= Len(blk) THEN <<<<blk[i + 3], blk[i + 2]>>>> \o RunsFrom(blk, i + 4, v1)
            ELSE <<<<-1, 1>>>>                         \* poison: truncated token
       ELSE <<<<blk[i], 1>>>> \o RunsFrom(blk, i + 1, v1)

RECURSIVE NormFrom(_, _, _, _)
\* runs[i..], with a pending run (b, n)
NormFrom(runs, i, b, n) ==
  IF i > Len(runs) THEN (IF n > 0 THEN <<<<b, n>>>> ELSE <<>>)
  ELSE IF runs[i][2] = 0 THEN NormFrom(runs, i + 1, b, n)
  ELSE IF n > 0 /\ runs[i][1] = b THEN NormFrom(runs, i + 1, b, n + runs[i][2])
  ELSE (IF n > 0 THEN <<<<b, n>>>> ELSE <<>>) \o NormFrom(runs, i + 1, runs[i][1], runs[i][2])

Norm(runs) == NormFrom(runs, 1, 0, 0)
SpecDecodeRuns(blk, v1) == Norm(RunsFrom(blk, 1, v1))

RECURSIVE RunsLen(_, _)
RunsLen(runs, i) == IF i > Len(runs) THEN 0 ELSE runs[i][2] + RunsLen(runs, i + 1)

(***************************************************************************)
(* Part 2 - the encoder the text describes, in functional form (the        *)
(* per-byte state machine and its model-checked properties are in          *)
(* Z80RleEnc.tla).  mx = longest run one token can hold (255 in the        *)
(* format), mn = shortest run of a non-ED byte that is coded (5).          *)
(***************************************************************************)
EmitP(p, n, mx, mn) == IF n >= mn \/ (p = ED /\ n >= 2) THEN <<ED, ED, n, p>> ELSE Rep(n, p)

RECURSIVE EncFrom(_, _, _, _, _, _, _)
EncFrom(s, i, p, n, o, mx, mn) ==
  IF i > Len(s) THEN o \o EmitP(p, n, mx, mn)
  ELSE LET b == s[i] IN
       IF n = 0 THEN EncFrom(s, i + 1, b, 1, o, mx, mn)
       ELSE IF b = p /\ n < mx THEN EncFrom(s, i + 1, p, n + 1, o, mx, mn)
       ELSE IF p = ED /\ n = 1 THEN EncFrom(s, i + 1, 0, 0, o \o <<ED, b>>, mx, mn)
       ELSE EncFrom(s, i + 1, b, 1, o \o EmitP(p, n, mx, mn), mx, mn)
EncModelP(s, mx, mn) == EncFrom(s, 1, 0, 0, <<>>, mx, mn)
EncModel(s) == EncModelP(s, 255, 5)
=============================================================================
