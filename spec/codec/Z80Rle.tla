------------------------------- MODULE Z80Rle -------------------------------
(***************************************************************************)
(* The run-length scheme of .z80 snapshot files, from the published format *)
(* text ("Z80 file format", worldofspectrum FAQ):                          *)
(*                                                                         *)
(*   "it replaces repetitions of at least five equal bytes by a four-byte  *)
(*    code ED ED xx yy, which stands for 'byte yy repeated xx times'. Only *)
(*    sequences of length at least 5 are coded. The exception is sequences *)
(*    consisting of ED's; if they are encountered, even two ED's are       *)
(*    encoded into ED ED 02 ED. Finally, every byte directly following a   *)
(*    single ED is not taken into a block, for example ED 6*00 is not      *)
(*    encoded into ED ED ED 06 00 but into ED 00 ED ED 05 00. The block is *)
(*    terminated by an end marker, 00 ED ED 00."            (version 1)    *)
(*   "[v2/v3 blocks: 2 bytes length of compressed data (without this       *)
(*    header); if length=0xffff, data is 16384 bytes long and not          *)
(*    compressed; 1 byte page number; data] ... The compression method is  *)
(*    the same as in v1, except there is no end marker."                   *)
(*                                                                         *)
(* Part 1: the decoder the text defines (SpecDecode, WellFormed).          *)
(* Part 2: the encoder the text describes in functional form (EncModel);   *)
(*         Z80RleEnc.tla has it as a per-byte state machine (pattern A).   *)
(***************************************************************************)
EXTENDS Integers, Sequences, FiniteSets, SequencesExt

ED == 237
Rep(n, b) == [k \in 1..n |-> b]

(***************************************************************************)
(* Part 1 - decoding.  A block is read left to right as a token stream: at *)
(* a token boundary the two bytes ED ED open a four-byte run token         *)
(* ED ED n b; any other byte (including an ED not followed by ED) is a     *)
(* literal token.                                                          *)
(***************************************************************************)
RunAt(blk, i) == blk[i] = ED /\ i + 1 <= Len(blk) /\ blk[i + 1] = ED

RECURSIVE DecodeFrom(_, _)
DecodeFrom(blk, i) ==
  IF i > Len(blk) THEN <<>>
  ELSE IF RunAt(blk, i)
       THEN IF i + 3 <= Len(blk) THEN Rep(blk[i + 2], blk[i + 3]) \o DecodeFrom(blk, i + 4)
            ELSE <<>>                                  \* truncated run token: not WellFormed
       ELSE <<blk[i]>> \o DecodeFrom(blk, i + 1)

SpecDecode(blk) == DecodeFrom(blk, 1)

\* A data block is well formed when every run token is complete and has a repeat count of at
\* least 1 (the count 0 is reserved: it only occurs in the version 1 end marker).
RECURSIVE WellFormedFrom(_, _)
WellFormedFrom(blk, i) ==
  IF i > Len(blk) THEN TRUE
  ELSE IF RunAt(blk, i)
       THEN i + 3 <= Len(blk) /\ blk[i + 2] >= 1 /\ WellFormedFrom(blk, i + 4)
       ELSE WellFormedFrom(blk, i + 1)

WellFormed(blk) == WellFormedFrom(blk, 1)

\* ---- version 1: one block for the whole 48K, ended by the marker 00 ED ED 00 -------------------
Marker == <<0, ED, ED, 0>>
MarkerAt(blk, i) == i + 3 <= Len(blk) /\ blk[i] = 0 /\ blk[i + 1] = ED /\ blk[i + 2] = ED /\ blk[i + 3] = 0

RECURSIVE DecodeV1From(_, _)
DecodeV1From(blk, i) ==
  IF i > Len(blk) THEN <<>>                            \* no end marker: not WellFormedV1
  ELSE IF MarkerAt(blk, i) THEN <<>>
  ELSE IF RunAt(blk, i)
       THEN IF i + 3 <= Len(blk) THEN Rep(blk[i + 2], blk[i + 3]) \o DecodeV1From(blk, i + 4)
            ELSE <<>>
       ELSE <<blk[i]>> \o DecodeV1From(blk, i + 1)

SpecDecodeV1(blk) == DecodeV1From(blk, 1)

\* position just after the end marker (0 when there is none)
RECURSIVE EndV1From(_, _)
EndV1From(blk, i) ==
  IF i > Len(blk) THEN 0
  ELSE IF MarkerAt(blk, i) THEN i + 4
  ELSE IF RunAt(blk, i) THEN (IF i + 3 <= Len(blk) /\ blk[i + 2] >= 1 THEN EndV1From(blk, i + 4) ELSE 0)
  ELSE EndV1From(blk, i + 1)

\* well formed v1 block: well formed tokens, then the marker, and nothing after it
WellFormedV1(blk) == EndV1From(blk, 1) = Len(blk) + 1

\* ---- versions 2/3: length field + page + data ----------------------------------------------------
\* lenfield = 65535 means "16384 bytes, not compressed"
SpecDecodePaged(lenfield, data) == IF lenfield = 65535 THEN data ELSE SpecDecode(data)
WellFormedPaged(lenfield, data) ==
  IF lenfield = 65535 THEN Len(data) = 16384 ELSE Len(data) = lenfield /\ WellFormed(data)

(***************************************************************************)
(* The same decoder in run form, for long blocks: the result is a sequence *)
(* of <<byte, count>> pairs; Norm merges neighbours with equal bytes and   *)
(* drops empty runs, so two run lists denote the same byte string iff      *)
(* their normal forms are equal.                                           *)
(***************************************************************************)
RECURSIVE RunsFrom(_, _, _)
RunsFrom(blk, i, v1) ==
  IF i > Len(blk) THEN <<>>
  ELSE IF v1 /\ MarkerAt(blk, i) THEN <<>>
  ELSE IF RunAt(blk, i)
       THEN IF i + 3 <= Len(blk) THEN <<<<blk[i + 3], blk[i + 2]>>>> \o RunsFrom(blk, i + 4, v1)
            ELSE <<<<-1, 1>>>>                         \* poison: truncated token
       ELSE <<<<blk[i], 1>>>> \o RunsFrom(blk, i + 1, v1)

Norm(runs) ==
  FoldLeft(LAMBDA acc, r : IF r[2] = 0 THEN acc
                           ELSE IF acc # <<>> /\ acc[Len(acc)][1] = r[1]
                                THEN [acc EXCEPT ![Len(acc)] = <<r[1], @[2] + r[2]>>]
                                ELSE Append(acc, r),
           <<>>, runs)
SpecDecodeRuns(blk, v1) == Norm(RunsFrom(blk, 1, v1))

(***************************************************************************)
(* The decoder as a byte-at-a-time automaton (what a streaming reader      *)
(* does).  mode 0: at a token boundary; 1: one ED seen, undecided; 2: ED ED *)
(* seen, the next byte is the count; 3: count known (c), the next byte is   *)
(* the value.  It is evaluated with FoldLeft, i.e. iteratively, so blocks   *)
(* of thousands of bytes are cheap for TLC; RleTables.tla checks on every   *)
(* short block that it agrees with the declarative SpecDecode/WellFormed.   *)
(***************************************************************************)
StreamInit == [m |-> 0, c |-> 0, out |-> <<>>, bad |-> FALSE]
StreamStep(st, x) ==
  CASE st.m = 0 -> IF x = ED THEN [st EXCEPT !.m = 1] ELSE [st EXCEPT !.out = Append(@, x)]
    [] st.m = 1 -> IF x = ED THEN [st EXCEPT !.m = 2] ELSE [st EXCEPT !.m = 0, !.out = @ \o <<ED, x>>]
    [] st.m = 2 -> [st EXCEPT !.m = 3, !.c = x, !.bad = @ \/ x = 0]
    [] st.m = 3 -> [st EXCEPT !.m = 0, !.out = @ \o Rep(st.c, x)]
StreamEnd(st) == IF st.m = 1 THEN [st EXCEPT !.m = 0, !.out = Append(@, ED)]
                 ELSE IF st.m > 1 THEN [st EXCEPT !.bad = TRUE] ELSE st
StreamRun(blk) == StreamEnd(FoldLeft(StreamStep, StreamInit, blk))
StreamDecode(blk) == StreamRun(blk).out
StreamWellFormed(blk) == ~StreamRun(blk).bad

\* version 1: the block must end with the marker; what precedes it is a well formed data block
BodyV1(blk) == SubSeq(blk, 1, Len(blk) - 4)
StreamWellFormedV1(blk) == Len(blk) >= 4 /\ SubSeq(blk, Len(blk) - 3, Len(blk)) = Marker /\ StreamWellFormed(BodyV1(blk))

(***************************************************************************)
(* The same automaton without building the decoded string: it walks a      *)
(* NORMAL run list w (adjacent runs have different bytes, counts > 0)      *)
(* alongside the block.  (j, u): u bytes of run j of w are already matched. *)
(* bad = block position (1-based) of the first token that does not fit.    *)
(* MatchRuns = -1 iff the block is well formed and decodes exactly to w.   *)
(***************************************************************************)
IsNormal(w) == /\ \A k \in 1..Len(w) : w[k][2] > 0
               /\ \A k \in 1..(Len(w) - 1) : w[k][1] # w[k + 1][1]

Take(w, st, b, n) ==
  IF st.bad # 0 THEN st
  ELSE IF n = 0 \/ st.j > Len(w) THEN [st EXCEPT !.bad = st.pos]
  ELSE IF w[st.j][1] # b \/ st.u + n > w[st.j][2] THEN [st EXCEPT !.bad = st.pos]
  ELSE IF st.u + n = w[st.j][2] THEN [st EXCEPT !.j = @ + 1, !.u = 0]
  ELSE [st EXCEPT !.u = @ + n]

MatchInit == [m |-> 0, c |-> 0, j |-> 1, u |-> 0, bad |-> 0, pos |-> 1]
MatchStep(w, st0, x) ==
  LET st == [st0 EXCEPT !.pos = @ + 1] IN      \* pos = position of the NEXT byte; tokens are blamed at their last byte
  CASE st0.m = 0 -> IF x = ED THEN [st EXCEPT !.m = 1] ELSE Take(w, st, x, 1)
    [] st0.m = 1 -> IF x = ED THEN [st EXCEPT !.m = 2] ELSE [Take(w, Take(w, st, ED, 1), x, 1) EXCEPT !.m = 0]
    [] st0.m = 2 -> [st EXCEPT !.m = 3, !.c = x]
    [] st0.m = 3 -> [Take(w, st, x, st0.c) EXCEPT !.m = 0]
MatchEnd(w, st) ==
  LET e == IF st.m = 1 THEN Take(w, st, ED, 1) ELSE st IN
  IF e.bad # 0 THEN e.bad
  ELSE IF st.m > 1 \/ e.j # Len(w) + 1 \/ e.u # 0 THEN e.pos
  ELSE -1
MatchRuns(blk, w) == MatchEnd(w, FoldLeft(LAMBDA st, x : MatchStep(w, st, x), MatchInit, blk))
MatchRunsV1(blk, w) ==
  IF Len(blk) < 4 \/ SubSeq(blk, Len(blk) - 3, Len(blk)) # Marker THEN 0 ELSE MatchRuns(BodyV1(blk), w)
RunsOf(s) == [k \in 1..Len(s) |-> <<s[k], 1>>]

RunsTotal(runs) == FoldLeft(LAMBDA acc, r : acc + r[2], 0, runs)

(***************************************************************************)
(* Part 2 - the encoder the text describes, in functional form (the        *)
(* per-byte state machine and its model-checked properties are in          *)
(* Z80RleEnc.tla).  mx = longest run one token can hold (255 in the        *)
(* format), mn = shortest run of a non-ED byte that is coded (5).          *)
(***************************************************************************)
EmitP(p, n, mx, mn) == IF n >= mn \/ (p = ED /\ n >= 2) THEN <<ED, ED, n, p>> ELSE Rep(n, p)

RECURSIVE EncFrom(_, _, _, _, _, _, _)
EncFrom(s, i, p, n, o, mx, mn) ==
  IF i > Len(s) THEN o \o EmitP(p, n, mx, mn)
  ELSE LET b == s[i] IN
       IF n = 0 THEN EncFrom(s, i + 1, b, 1, o, mx, mn)
       ELSE IF b = p /\ n < mx THEN EncFrom(s, i + 1, p, n + 1, o, mx, mn)
       ELSE IF p = ED /\ n = 1 THEN EncFrom(s, i + 1, 0, 0, o \o <<ED, b>>, mx, mn)
       ELSE EncFrom(s, i + 1, b, 1, o \o EmitP(p, n, mx, mn), mx, mn)
EncModelP(s, mx, mn) == EncFrom(s, 1, 0, 0, <<>>, mx, mn)
EncModel(s) == EncModelP(s, 255, 5)
=============================================================================
