---------------------------- MODULE SnapOpsTrace ----------------------------
(***************************************************************************)
(* Trace validation for SnapOps: many recorded traces per TLC run.          *)
(* Traces[tid] = [fmt, ver, machine, steps] ; steps[l] = [ops, obs] where    *)
(* ops is the option list of ONE real command invocation (bin2sna.main for  *)
(* the first step of some traces, snapmod.main otherwise) and obs is what    *)
(* the file looked like afterwards:                                          *)
(*   err  : "" or the exception text                                         *)
(*   ind  : registers / attributes read by the independent decoder           *)
(*   real : registers / attributes read by skoolkit's reader                 *)
(*   diff : <<cell, value>> for EVERY cell of the eight banks whose value    *)
(*          differs from the previous file (whole decoded snapshots are      *)
(*          compared before/after by the harness), cells ascending           *)
(*   same : 1 iff skoolkit's reader returns the same RAM as the independent  *)
(*          decoder for the new file                                         *)
(* Each step IS the SnapOps action Invoke(ops) (for a single option: Reg,    *)
(* State, Poke, Move or Patch); the observation must equal the action's      *)
(* post-state: every carried register and attribute, and the set of changed  *)
(* cells with their values - nothing else may change.                        *)
(***************************************************************************)
EXTENDS SnapOps, Json, IOUtils

Traces == JsonDeserialize(IOEnv.CASES)

VARIABLES tid, l, verdict
tvars == <<vars, tid, l, verdict>>

SeqSet(s) == {s[k] : k \in 1..Len(s)}
Without(names, dc) == SelectSeq(names, LAMBDA x : x \notin dc)

RegFields(f) == <<"a", "f", "bc", "de", "hl", "a2", "f2", "bc2", "de2", "hl2", "ix", "iy", "sp", "pc", "i", "r">>
                \o (IF f = "szx" THEN <<"memptr">> ELSE <<>>)
AttrFields(f, v, m) ==
  <<"iff1", "iff2", "im", "border">>
  \o (IF HasAttr(f, v, m, "issue2") THEN <<"issue2">> ELSE <<>>)
  \o (IF HasAttr(f, v, m, "7ffd") /\ m # "48K" THEN <<"o7ffd", "offfd", "ay">> ELSE <<>>)
  \o (IF HasAttr(f, v, m, "fe") THEN <<"fe">> ELSE <<>>)

\* compare an observation with the post-state given explicitly (never prime an expression indexed by l)
Clause(o, f, v, m, r2, a2, m1, m2) ==
  IF o.err # "" THEN "exception"
  ELSE LET dr == FirstDiff(o.ind, r2, RegFields(f))
           da == FirstDiff(o.ind, a2, AttrFields(f, v, m))
           rr == FirstDiff(o.real, r2, RegFields(f))
           ra == FirstDiff(o.real, a2, Without(AttrFields(f, v, m), {"issue2"}))
           want == {<<c, Get(m2, c)>> : c \in Changed(m1, m2)}
           got == SeqSet(o.diff)
           gotcells == {d[1] : d \in got}
           t1 == IF HasAttr(f, v, m, "tstates") THEN o.ind.t ELSE 0
           t2 == IF HasAttr(f, v, m, "tstates") THEN o.real.t ELSE 0
           tw == IF HasAttr(f, v, m, "tstates") THEN a2.t ELSE 0 IN
       IF dr # "" THEN "regs:" \o dr
       ELSE IF da # "" THEN "attrs:" \o da
       ELSE IF rr # "" THEN "reader-regs:" \o rr
       ELSE IF ra # "" THEN "reader-attrs:" \o ra
       ELSE IF o.toomany = 1 THEN "mem:too-many-changes"
       ELSE IF \E d \in got : d[1] \notin Changed(m1, m2) THEN "mem:unnamed-cell-changed"
       ELSE IF \E c \in Changed(m1, m2) : c \notin gotcells THEN "mem:named-cell-not-changed"
       ELSE IF got # want THEN "mem:wrong-value"
       ELSE IF o.same # 1 THEN "mem:reader-differs"
       ELSE IF ~SameT(t1, tw, m) THEN "attrs:tstates"
       ELSE IF ~SameT(t2, tw, m) THEN "reader-attrs:tstates"
       ELSE "ok"

\* an over-long bank-prefixed move (SnapOps!MoveOver): only the frame condition is specified
IsOver(ops) == Len(ops) = 1 /\ ops[1].k = "moveover"
ApplyDiff(mm, diff) == FoldLeft(LAMBDA acc, d : Put(acc, d[1], d[2]), mm, diff)
ClauseOver(o, f, v, m, r2, a2, m1, op) ==
  IF o.err # "" THEN "exception"
  ELSE LET dr == FirstDiff(o.ind, r2, RegFields(f))
           da == FirstDiff(o.ind, a2, AttrFields(f, v, m)) IN
       IF dr # "" THEN "regs:" \o dr
       ELSE IF da # "" THEN "attrs:" \o da
       ELSE IF o.toomany = 1 THEN "mem:too-many-changes"
       ELSE IF ~MoveOverRel(m1, ApplyDiff(m1, o.diff), op.dpage, op.n, op.dst) THEN "mem:unnamed-cell-changed"
       ELSE IF o.same # 1 THEN "mem:reader-differs"
       ELSE "ok"

TraceInit ==
  /\ tid \in 1..Len(Traces)
  /\ l = 1 /\ verdict = "pending"
  /\ fmt = Traces[tid].fmt /\ ver = Traces[tid].ver /\ machine = Traces[tid].machine
  /\ regs = ZeroRegs /\ attrs = DefaultAttrs /\ mem = <<>>

TraceStep ==
  /\ verdict = "pending"
  /\ l <= Len(Traces[tid].steps)
  /\ LET ops == Traces[tid].steps[l].ops IN
       IF IsOver(ops)
       THEN LET o == ops[1]
                nm == ApplyDiff(mem, Traces[tid].steps[l].obs.diff) IN
            IF MoveOverOK(machine, o.page, o.a, o.n, o.dpage, o.dst) /\ MoveOverRel(mem, nm, o.dpage, o.n, o.dst)
            THEN MoveOver(o.page, o.a, o.n, o.dpage, o.dst, nm)
            ELSE UNCHANGED vars                 \* the observation is not a MoveOver step: verdict below
       ELSE IF \A k \in 1..Len(ops) : OpOK(machine, ops[k])
       THEN IF Len(ops) = 1
            THEN LET o == ops[1] IN
                 \/ o.k = "reg" /\ Reg(o.name, o.v)
                 \/ o.k = "state" /\ State(o.name, o.idx, o.v)
                 \/ o.k = "poke" /\ Poke(o.page, o.a, o.b, o.step, o.op, o.v)
                 \/ o.k = "move" /\ Move(o.page, o.a, o.n, o.dpage, o.dst)
                 \/ o.k = "patch" /\ Patch(o.page, o.a, o.data)
            ELSE Invoke(ops)
       ELSE UNCHANGED vars                      \* outside the documented domain: machinery error below
  /\ l' = l + 1
  /\ UNCHANGED tid
  /\ verdict' = LET ops == Traces[tid].steps[l].ops
                    c == IF IsOver(ops)
                         THEN (IF ~MoveOverOK(machine, ops[1].page, ops[1].a, ops[1].n, ops[1].dpage, ops[1].dst) THEN "machinery"
                               ELSE ClauseOver(Traces[tid].steps[l].obs, fmt, ver, machine, regs, attrs, mem, ops[1]))
                         ELSE IF \E k \in 1..Len(ops) : ~OpOK(machine, ops[k]) THEN "machinery"
                         ELSE Clause(Traces[tid].steps[l].obs, fmt, ver, machine, regs', attrs', mem, mem') IN
                IF c # "ok" THEN c ELSE IF l = Len(Traces[tid].steps) THEN "ok" ELSE "pending"
  /\ (verdict' \in {"ok", "pending"} \/ PrintT(<<"FAIL", (tid * 1000) + l, verdict'>>))

TraceSpec == TraceInit /\ [][TraceStep]_tvars

TraceTypeOK == TypeOK
TraceRam == OnlyRamOfTheMachine
=============================================================================
