SPECIFICATION McSpec
CONSTANTS
  BankSize = 4
  McRegs = {"a", "b", "c2", "bc", "memptr"}
  McVals = {5, 513}
  McAttrs = {"iff", "7ffd", "tstates", "fe", "issue2", "ay"}
  McAddrs = {3, 6, 7, 13}
  McDepth = 2
INVARIANT TypeOK
INVARIANT OnlyRamOfTheMachine
INVARIANT FormatLimits
INVARIANT ViewConsistent
PROPERTY RegsOnlyByReg
PROPERTY AttrsOnlyByState
PROPERTY MemOnlyByMemOps
PROPERTY HeaderStable
CHECK_DEADLOCK FALSE
