------------------------------ MODULE Z80RleEnc ------------------------------
(***************************************************************************)
(* The .z80 run-length encoder described by the format text, one input     *)
(* byte at a time, and the properties that make it a correct encoder for   *)
(* Z80Rle!SpecDecode (pattern A, Z80Rle_mc.cfg).                           *)
(* State: inp (bytes consumed), prev/count (pending run, count = 0: none), *)
(* out (bytes emitted).  MaxRun is 255 in the format (the count is one     *)
(* byte); the model checker uses a small MaxRun so that run splitting is   *)
(* reached with short inputs.  MinRun is 5.                                *)
(***************************************************************************)
EXTENDS Z80Rle

CONSTANTS Alphabet, MaxLen, MaxRun, MinRun,
          EdRuns      \* TRUE: two or more ED bytes always go into a block (the format's rule); Z80Rle_neg.cfg sets FALSE and must fail
VARIABLES inp, prev, count, out
evars == <<inp, prev, count, out>>

Emit(p, n) == IF n >= MinRun \/ (EdRuns /\ p = ED /\ n >= 2) THEN <<ED, ED, n, p>> ELSE Rep(n, p)

EncInit == inp = <<>> /\ prev = 0 /\ count = 0 /\ out = <<>>

Feed(b) ==
  /\ inp' = Append(inp, b)
  /\ IF count = 0 THEN prev' = b /\ count' = 1 /\ out' = out
     ELSE IF b = prev /\ count < MaxRun THEN count' = count + 1 /\ UNCHANGED <<prev, out>>
     ELSE IF prev = ED /\ count = 1
          THEN \* "every byte directly following a single ED is not taken into a block"
               out' = out \o <<ED, b>> /\ count' = 0 /\ prev' = 0
          ELSE out' = out \o Emit(prev, count) /\ prev' = b /\ count' = 1

EncNext == \E b \in Alphabet : Len(inp) < MaxLen /\ Feed(b)
EncSpec == EncInit /\ [][EncNext]_evars

\* what the encoder has produced once the input ends here
Flushed == out \o Emit(prev, count)


\* ---- properties of the design (checked by TLC on Z80Rle_mc.cfg) ---------------------------------
EncTypeOK == /\ count \in 0..MaxRun /\ Len(inp) <= MaxLen
             /\ \A k \in 1..Len(out) : out[k] \in Alphabet \cup {ED} \cup 0..MaxRun
RoundTrip == SpecDecode(Flushed) = inp
RoundTripV1 == SpecDecodeV1(Flushed \o Marker) = inp /\ WellFormedV1(Flushed \o Marker)
OutputWellFormed == WellFormed(Flushed)
FunctionalAgrees == EncModelP(inp, MaxRun, MinRun) = Flushed

\* the run form of the decoder agrees with the plain form
RunFormAgrees == SpecDecodeRuns(Flushed, FALSE) = Norm([k \in 1..Len(inp) |-> <<inp[k], 1>>])

StreamAgrees == /\ StreamDecode(Flushed) = inp /\ StreamWellFormed(Flushed)
                /\ StreamWellFormedV1(Flushed \o Marker)
MatchFormAgrees == /\ MatchRuns(Flushed, Norm(RunsOf(inp))) = -1
                   /\ MatchRunsV1(Flushed \o Marker, Norm(RunsOf(inp))) = -1
                   /\ (inp # <<>> => MatchRuns(Flushed, Norm(RunsOf(Tail(inp)))) # -1)
                   /\ MatchRuns(Flushed, Norm(RunsOf(Append(inp, 0)))) # -1

\* a literal ED is never directly followed by a run token (the byte after a single ED is literal)
RECURSIVE LoneEdOkFrom(_, _)
LoneEdOkFrom(blk, i) ==
  IF i > Len(blk) THEN TRUE
  ELSE IF RunAt(blk, i) THEN LoneEdOkFrom(blk, i + 4)
  ELSE IF blk[i] = ED /\ i + 1 <= Len(blk)
       THEN ~RunAt(blk, i + 1) /\ LoneEdOkFrom(blk, i + 2)
       ELSE LoneEdOkFrom(blk, i + 1)
LoneEdNeverBeforeRun == LoneEdOkFrom(Flushed, 1)

\* the output is never longer than the text's worst case: 2 bytes per input byte is impossible,
\* a lone ED costs nothing extra; runs of 2..4 EDs cost at most 4 bytes
NoBlowUp == Len(Flushed) <= Len(inp) + 2 * Cardinality({k \in 1..Len(inp) : inp[k] = ED})
=============================================================================
