----------------------------- MODULE RleTables -----------------------------
(***************************************************************************)
(* Pattern D for the .z80 run-length coder: TLC enumerates                  *)
(*   enc1 / encp : ALL strings over EncAlpha = {ED,00,01} of length 0..EncN *)
(*                 and looks up what the real Z80._make_z80_ram_block       *)
(*                 produced for it in the v1 form (whole-RAM block + end    *)
(*                 marker) and in the v2/v3 form (length, page, data);      *)
(*                 the output must be well formed and SpecDecode back to    *)
(*                 the string.                                              *)
(*   dec         : ALL blocks over DecAlpha = {ED,00,01,02,05} of length    *)
(*                 0..DecN; on every WellFormed block the real              *)
(*                 Z80._decompress and the harness' independent decoder     *)
(*                 (snapfile.rle_decode / rle_decode_v1) must return        *)
(*                 SpecDecode(block).                                       *)
(* Tab = [encn, decn, enc1, encp, dec, ind, indv1] with X[n+1][idx+1] = the *)
(* implementation's answer for the idx-th string of length n (<<-1>> = an   *)
(* exception was raised).                                                   *)
(***************************************************************************)
EXTENDS Z80Rle, Json, IOUtils, TLC

Tab == JsonDeserialize(IOEnv.TABLES)

EncAlpha == <<237, 0, 1>>
DecAlpha == <<237, 0, 1, 2, 5>>

RECURSIVE Pow(_, _)
Pow(k, n) == IF n = 0 THEN 1 ELSE k * Pow(k, n - 1)

\* the idx-th string of length n over alpha (digit j of idx in base Len(alpha) selects byte j)
Str(alpha, n, idx) == [j \in 1..n |-> alpha[((idx \div Pow(Len(alpha), j - 1)) % Len(alpha)) + 1]]

VARIABLES kind, n, idx, verdict

MaxN(k) == IF k = "dec" THEN Tab.decn ELSE Tab.encn
Alpha(k) == IF k = "dec" THEN DecAlpha ELSE EncAlpha

Err == <<-1>>

JudgeEnc1(s, o) ==
  IF o = Err THEN "enc:v1:exception"
  ELSE IF ~WellFormedV1(o) THEN "enc:v1:malformed"
  ELSE IF SpecDecodeV1(o) # s THEN "enc:v1:roundtrip"
  ELSE "ok"

JudgeEncP(s, o, page) ==
  IF o = Err THEN "enc:paged:exception"
  ELSE IF Len(o) < 3 THEN "enc:paged:header"
  ELSE LET lf == o[1] + (256 * o[2])
           data == SubSeq(o, 4, Len(o)) IN
       IF o[3] # page THEN "enc:paged:page"
       ELSE IF lf = 65535 \/ lf # Len(data) THEN "enc:paged:length"
       ELSE IF ~WellFormed(data) THEN "enc:paged:malformed"
       ELSE IF SpecDecode(data) # s THEN "enc:paged:roundtrip"
       ELSE "ok"

\* the spec's own lemmas on this block: automaton form = declarative form, v1 form = paged form + marker,
\* run matcher = equality of decoded strings
SpecLemmas(blk, other) ==
  LET wf == WellFormed(blk)
      want == SpecDecode(blk) IN
  IF StreamWellFormed(blk) # wf THEN "spec:stream-wellformed"
  ELSE IF WellFormedV1(blk) # StreamWellFormedV1(blk) THEN "spec:stream-wellformed-v1"
  ELSE IF WellFormedV1(blk) /\ SpecDecodeV1(blk) # StreamDecode(BodyV1(blk)) THEN "spec:stream-decode-v1"
  ELSE IF ~wf THEN (IF MatchRuns(blk, Norm(RunsOf(want))) = -1 THEN "spec:match-accepts-malformed" ELSE "ok")
  ELSE IF StreamDecode(blk) # want THEN "spec:stream-decode"
  ELSE IF SpecDecodeV1(blk \o Marker) # want \/ ~WellFormedV1(blk \o Marker) THEN "spec:v1-vs-paged"
  ELSE IF (MatchRuns(blk, Norm(RunsOf(other))) = -1) # (want = other) THEN "spec:match-vs-decode"
  ELSE IF MatchRuns(blk, Norm(RunsOf(want))) # -1 THEN "spec:match-vs-decode"
  ELSE IF MatchRunsV1(blk \o Marker, Norm(RunsOf(want))) # -1 THEN "spec:match-v1"
  ELSE "ok"

JudgeDec(blk, real, ind, indv1) ==
  LET lem == SpecLemmas(blk, Str(DecAlpha, n, (idx + 1) % Pow(5, n))) IN
  IF lem # "ok" THEN lem
  ELSE IF WellFormed(blk) # (ind # Err) THEN "dec:ind:wellformedness"
  ELSE IF ~WellFormed(blk) THEN "ok"
  ELSE LET want == SpecDecode(blk) IN
       IF real # want THEN "dec:real"
       ELSE IF ind # want THEN "dec:ind"
       ELSE IF indv1 # want THEN "dec:ind-v1"
       ELSE "ok"

Judge ==
  LET s == Str(Alpha(kind), n, idx) IN
  CASE kind = "enc1" -> JudgeEnc1(s, Tab.enc1[n + 1][idx + 1])
    [] kind = "encp" -> JudgeEncP(s, Tab.encp[n + 1][idx + 1], 3 + (idx % 8))
    [] kind = "dec"  -> JudgeDec(s, Tab.dec[n + 1][idx + 1], Tab.ind[n + 1][idx + 1], Tab.indv1[n + 1][idx + 1])

\* drift (not a violation): the real encoder's bytes differ from the text's greedy encoder
Drift ==
  LET s == Str(Alpha(kind), n, idx) IN
  CASE kind = "enc1" -> Tab.enc1[n + 1][idx + 1] # EncModel(s) \o Marker
    [] kind = "encp" -> Tab.encp[n + 1][idx + 1] # <<Len(EncModel(s)) % 256, Len(EncModel(s)) \div 256, 3 + (idx % 8)>> \o EncModel(s)
    [] kind = "dec"  -> FALSE

KindCode == CASE kind = "enc1" -> 1 [] kind = "encp" -> 2 [] kind = "dec" -> 3
Code == (((KindCode * 100) + n) * 100000) + idx

Init == /\ kind \in {"enc1", "encp", "dec"}
        /\ n \in 0..MaxN(kind)
        /\ idx \in 0..(Pow(Len(Alpha(kind)), n) - 1)
        /\ verdict = "pending"
Next == /\ verdict = "pending"
        /\ verdict' = Judge
        /\ UNCHANGED <<kind, n, idx>>
        /\ (verdict' = "ok" \/ PrintT(<<"FAIL", Code, verdict'>>))
        /\ (~Drift \/ PrintT(<<"DRIFT", Code>>))
=============================================================================
