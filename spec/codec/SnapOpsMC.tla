----------------------------- MODULE SnapOpsMC -----------------------------
(***************************************************************************)
(* Pattern A for SnapOps: a scaled machine (BankSize = 4, so the address    *)
(* space is 0..15 and the eight banks have 32 cells) and small parameter    *)
(* sets; every sequence of McDepth options is explored and the frame        *)
(* conditions / invariants of SnapOps are checked on it.                    *)
(***************************************************************************)
EXTENDS SnapOps

CONSTANTS McRegs, McVals, McAttrs, McAddrs, McDepth
McPages == {-1, 5, 7}            \* no bank prefix, a bank that is always mapped, a bank that may be paged in
VARIABLE depth

McInit == /\ fmt \in {"z80", "szx"} /\ ver = 3 /\ machine \in {"48K", "128K"}
          /\ regs = ZeroRegs /\ attrs = DefaultAttrs /\ mem = <<>> /\ depth = 0

Tick == depth < McDepth /\ depth' = depth + 1
McReg == Tick /\ \E name \in McRegs, v \in McVals : Reg(name, IF name \in Reg16 THEN v ELSE v % 256)
McState == Tick /\ \E name \in McAttrs, v \in McVals :
             State(name, v % 16, IF name = "tstates" THEN v * 40000
                                 ELSE v % (CASE name = "iff" -> 2 [] name = "issue2" -> 2 [] name = "im" -> 3
                                             [] name = "border" -> 8 [] OTHER -> 256))
McPoke == Tick /\ \E page \in McPages, a \in McAddrs, b \in McAddrs, step \in {1, BankSize}, op \in {"set", "xor", "add"} :
             Poke(page, a, b, step, op, 129)
McMove == Tick /\ \E page \in McPages, dpage \in McPages, src \in McAddrs, dst \in McAddrs, n \in {1, 3} :
             Move(page, src, n, dpage, dst)
McPatch == Tick /\ \E page \in McPages, a \in McAddrs : Patch(page, a, <<17, 34, 51>>)
McNext == McReg \/ McState \/ McPoke \/ McMove \/ McPatch

\* design lemma of SnapFields: the version 3 T-state counter pair is a bijection of the frame (both machines)
ASSUME TCounterLemma("48K") /\ TCounterLemma("128K")

McSpec == McInit /\ [][McNext]_<<vars, depth>>

=============================================================================
