----------------------------- MODULE SnapCases -----------------------------
(***************************************************************************)
(* Pattern B judge for whole snapshot files (C09 part 2).  One case = one   *)
(* machine state `want` (every register and hardware attribute the caller   *)
(* named when writing) and the one or two files (.z80 / .szx) skoolkit      *)
(* wrote for it.  Per file the harness recorded                             *)
(*   hdr | head,z80r,spcr,ay,keyb : the RAW header / chunk bytes cut out of *)
(*                 the file by the independent container parser             *)
(*   real        : the fields returned by skoolkit's own reader             *)
(*   ind         : the fields returned by the independent decoder           *)
(*   banks       : per RAM bank written: CRC limbs of the bank as written   *)
(*                 (w), as read by skoolkit (r) and by the independent      *)
(*                 decoder (i), first differing offsets (-1 = identical,    *)
(*                 -2 = bank missing)                                       *)
(* TLC itself applies the SnapFields maps to the raw bytes and decides      *)
(*   raw header = state written;  skoolkit reader = state written;          *)
(*   independent decoder = state written;  RAM identical;                   *)
(*   both formats read back the same state on the fields both carry         *)
(*   (T-state position modulo the frame).                                   *)
(* dontcare names the fields the caller did not name and whose default the  *)
(* documentation does not give.                                             *)
(***************************************************************************)
EXTENDS SnapFields, Json, IOUtils, TLC

Cases == JsonDeserialize(IOEnv.CASES)

VARIABLES tid, verdict

SeqSet(s) == {s[k] : k \in 1..Len(s)}
Without(names, dc) == SelectSeq(names, LAMBDA x : x \notin dc)

RawFields(f) == IF f.fmt = "z80" THEN Z80Fields(f.hdr) ELSE SzxFields(f.head, f.z80r, f.spcr, f.ay, f.keyb)
ContainerOK(f, ver) ==
  IF f.fmt = "z80" THEN Len(f.hdr) >= 30 /\ Z80Version(f.hdr) = ver /\ Len(f.hdr) = Z80HeaderLen(f.hdr)
  ELSE SzxContainerOK(f.head, f.z80r, f.spcr, f.ay, f.keyb)
Broken(f) == f.rerr # "" \/ f.ierr # ""
TCarried(f) == f.fmt = "szx" \/ Z80Version(f.hdr) = 3
BanksOf(machine) == IF machine = "48K" THEN <<0, 2, 5>> ELSE <<0, 1, 2, 3, 4, 5, 6, 7>>

\* v1/v2 headers carry fewer fields
CarriedV(f, machine) ==
  LET names == Carried(f.fmt, machine) IN
  IF f.fmt = "z80" /\ Z80Version(f.hdr) = 1 THEN Without(names, {"o7ffd", "offfd", "ay"}) ELSE names

JudgeFile(c, f) ==
  LET dc == SeqSet(c.dontcare)
      want == Want(c.want, c.machine)
      names == Without(CarriedV(f, c.machine), dc) IN
  IF f.ierr # "" THEN f.fmt \o ":ind:exception"
  ELSE IF f.rerr # "" THEN f.fmt \o ":reader:exception"
  ELSE IF ~ContainerOK(f, c.ver) THEN f.fmt \o ":container"
  ELSE LET h == FirstDiff(RawFields(f), want, names)
           r == FirstDiff(f.real, want, Without(names, {"issue2"}))
           i == FirstDiff(f.ind, want, names) IN
  IF h # "" THEN f.fmt \o ":hdr:" \o h
  ELSE IF r # "" THEN f.fmt \o ":reader:" \o r
  ELSE IF i # "" THEN f.fmt \o ":ind:" \o i
  ELSE IF [k \in 1..Len(f.banks) |-> f.banks[k].bank] # BanksOf(c.machine) THEN f.fmt \o ":ram:banks"
  ELSE IF f.rextra # <<>> \/ f.iextra # <<>> THEN f.fmt \o ":ram:extra-banks"
  ELSE IF \E k \in 1..Len(f.banks) : f.banks[k].idiff # -1 \/ f.banks[k].i # f.banks[k].w THEN f.fmt \o ":ram:ind"
  ELSE IF \E k \in 1..Len(f.banks) : f.banks[k].rdiff # -1 \/ f.banks[k].r # f.banks[k].w THEN f.fmt \o ":ram:reader"
  ELSE "ok"

\* the T-state position, judged after everything else
JudgeFileT(c, f) ==
  IF Broken(f) \/ "t" \in SeqSet(c.dontcare) \/ ~TCarried(f) THEN "ok"
  ELSE LET want == c.want.t % Frame(c.machine)
           raw == RawFields(f).t IN
  IF raw < 0 THEN f.fmt \o ":hdr:tstates"
  ELSE IF f.fmt = "z80" /\ raw # want THEN "z80:hdr:tstates"
  ELSE IF f.fmt = "szx" /\ ~SameT(raw, want, c.machine) THEN "szx:hdr:tstates"
  ELSE IF ~SameT(f.real.t, want, c.machine) THEN f.fmt \o ":reader:tstates"
  ELSE IF ~SameT(f.ind.t, want, c.machine) THEN f.fmt \o ":ind:tstates"
  ELSE "ok"

\* the two formats against each other, on what skoolkit's reader returns
Common(machine) == Without(Carried("z80", machine), {"issue2"})
Cross(c) ==
  IF Len(c.files) < 2 \/ Broken(c.files[1]) \/ Broken(c.files[2]) THEN "ok"
  ELSE LET x == c.files[1] y == c.files[2]
           d == FirstDiff(x.real, y.real, Without(Common(c.machine), SeqSet(c.crossdontcare))) IN
  IF d # "" THEN "cross:" \o d
  ELSE IF \E k \in 1..Len(x.banks) : x.banks[k].r # y.banks[k].r THEN "cross:ram"
  ELSE "ok"
CrossT(c) ==
  IF Len(c.files) < 2 \/ Broken(c.files[1]) \/ Broken(c.files[2]) \/ ~TCarried(c.files[1]) \/ ~TCarried(c.files[2]) THEN "ok"
  ELSE IF ~SameT(c.files[1].real.t, c.files[2].real.t, c.machine) THEN "cross:tstates" ELSE "ok"

FirstBad(vs) == LET bad == {k \in 1..Len(vs) : vs[k] # "ok"} IN
                IF bad = {} THEN "ok" ELSE vs[CHOOSE k \in bad : \A m \in bad : k <= m]

Judge(c) ==
  FirstBad([k \in 1..Len(c.files) |-> JudgeFile(c, c.files[k])]
           \o <<Cross(c)>>
           \o [k \in 1..Len(c.files) |-> JudgeFileT(c, c.files[k])]
           \o <<CrossT(c)>>)

Init == tid \in 1..Len(Cases) /\ verdict = "pending"
Next == /\ verdict = "pending" /\ verdict' = Judge(Cases[tid]) /\ UNCHANGED tid
        /\ (verdict' = "ok" \/ PrintT(<<"FAIL", tid, verdict'>>))
=============================================================================
