----------------------------- MODULE SnapFields -----------------------------
(***************************************************************************)
(* Field maps of the two snapshot formats skoolkit writes, from the         *)
(* published format documents:                                              *)
(*   .z80  "Z80 file format" (worldofspectrum FAQ): 30-byte header (v1),    *)
(*         additional header of 23 (v2) or 54/55 (v3) bytes                 *)
(*   .szx  "ZX-State file format" (Spectaculator): 8-byte header, chunks    *)
(*         Z80R (ZXSTZ80REGS), SPCR (ZXSTSPECREGS), AY (ZXSTAYBLOCK),       *)
(*         KEYB (ZXSTKEYBOARD), RAMP (ZXSTRAMPAGE)                          *)
(* A header is a sequence of bytes; B/W read it at 0-based offsets as the   *)
(* documents give them.  The result of a map is the abstract machine state  *)
(* record                                                                   *)
(*   [a f bc de hl a2 f2 bc2 de2 hl2 ix iy sp pc i r iff1 iff2 im border    *)
(*    issue2 t o7ffd offfd ay fe memptr machine]                            *)
(* with -1 for a field the format does not carry.                           *)
(***************************************************************************)
EXTENDS Integers, Sequences

B(h, k) == h[k + 1]
W(h, k) == h[k + 1] + (256 * h[k + 2])

Machines == {"48K", "128K", "+2"}
Frame(machine) == IF machine = "48K" THEN 69888 ELSE 70908      \* T-states per frame
Quarter(machine) == Frame(machine) \div 4                        \* 17472 / 17727

NoAy == [k \in 1..16 |-> 0]

(***************************************************************************)
(* .z80                                                                    *)
(***************************************************************************)
\* "To see whether a file is v1: PC (bytes 6,7) non-zero"; v2/v3 by the additional header length
Z80Version(h) == IF W(h, 6) # 0 THEN 1
                 ELSE IF Len(h) < 32 THEN 0
                 ELSE IF W(h, 30) = 23 THEN 2
                 ELSE IF W(h, 30) \in {54, 55} THEN 3 ELSE 0
Z80HeaderLen(h) == IF Z80Version(h) = 1 THEN 30 ELSE 32 + W(h, 30)

\* byte 34 (hardware mode) and bit 7 of byte 37 ("modify hardware": 128K becomes +2)
Z80Machine(h) ==
  LET v == Z80Version(h) IN
  IF v = 1 THEN "48K"
  ELSE LET mode == B(h, 34)
           modify == B(h, 37) >= 128
           m48 == IF v = 2 THEN {0, 1} ELSE {0, 1, 3}
           m128 == IF v = 2 THEN {3, 4} ELSE {4, 5, 6} IN
       IF mode \in m48 THEN "48K"
       ELSE IF mode \in m128 THEN (IF modify THEN "+2" ELSE "128K")
       ELSE IF mode = 12 THEN "+2"
       ELSE "?"

\* "Because of compatibility, if byte 12 is 255, it has to be regarded as being 1."
Byte12(h) == IF B(h, 12) = 255 THEN 1 ELSE B(h, 12)

(* v3 T-state counter: "The hi T state counter counts up modulo 4. Just     *)
(* after the ULA generates its once-in-every-20-ms interrupt, it is 3, and  *)
(* is increased by one every 5 emulated milliseconds. In these 1/200s       *)
(* intervals, the low T state counter counts down from 17471 to 0 (17726    *)
(* in 128K modes)".                                                         *)
Z80DecodeT(lo, hi, machine) == (((hi + 1) % 4) * Quarter(machine)) + (Quarter(machine) - 1 - lo)
Z80EncodeT(t, machine) ==                     \* <<lo, hi>> for a position t in the frame
  <<Quarter(machine) - 1 - (t % Quarter(machine)), ((t \div Quarter(machine)) + 3) % 4>>

Z80Fields(h) ==
  LET v == Z80Version(h)
      mach == Z80Machine(h) IN
  [a |-> B(h, 0), f |-> B(h, 1), bc |-> W(h, 2), hl |-> W(h, 4),
   pc |-> IF v = 1 THEN W(h, 6) ELSE W(h, 32),
   sp |-> W(h, 8), i |-> B(h, 10),
   r |-> (B(h, 11) % 128) + (128 * (Byte12(h) % 2)),
   border |-> (Byte12(h) \div 2) % 8,
   de |-> W(h, 13), bc2 |-> W(h, 15), de2 |-> W(h, 17), hl2 |-> W(h, 19),
   a2 |-> B(h, 21), f2 |-> B(h, 22), iy |-> W(h, 23), ix |-> W(h, 25),
   iff1 |-> IF B(h, 27) # 0 THEN 1 ELSE 0,      \* "0=DI, otherwise EI"
   iff2 |-> IF B(h, 28) # 0 THEN 1 ELSE 0,
   im |-> B(h, 29) % 4,
   issue2 |-> (B(h, 29) \div 4) % 2,
   o7ffd |-> IF v >= 2 THEN B(h, 35) ELSE 0,
   offfd |-> IF v >= 2 THEN B(h, 38) ELSE 0,
   ay |-> IF v >= 2 THEN [k \in 1..16 |-> B(h, 38 + k)] ELSE NoAy,
   t |-> IF v = 3 /\ mach \in Machines /\ W(h, 55) < Quarter(mach) /\ B(h, 57) < 4
         THEN Z80DecodeT(W(h, 55), B(h, 57), mach) ELSE -1,
   fe |-> -1, memptr |-> -1,
   machine |-> mach]

\* v2/v3 page numbers of the 16K blocks: 128K: page = bank + 3; 48K: 8 -> 0x4000, 4 -> 0x8000, 5 -> 0xC000
Z80Page(machine, bank) == IF machine = "48K" THEN (CASE bank = 5 -> 8 [] bank = 2 -> 4 [] bank = 0 -> 5 [] OTHER -> -1)
                          ELSE bank + 3

(***************************************************************************)
(* .szx                                                                    *)
(***************************************************************************)
SzxMagic == <<90, 88, 83, 84>>                               \* "ZXST"
SzxMachine(head) == CASE B(head, 6) = 0 -> "16K" [] B(head, 6) = 1 -> "48K" [] B(head, 6) = 2 -> "128K"
                      [] B(head, 6) = 3 -> "+2" [] OTHER -> "?"
SzxContainerOK(head, z80r, spcr, ay, keyb) ==
  /\ Len(head) = 8 /\ SubSeq(head, 1, 4) = SzxMagic /\ B(head, 4) = 1
  /\ Len(z80r) = 37 /\ Len(spcr) = 8
  /\ Len(ay) \in {0, 18} /\ Len(keyb) \in {0, 5}

(* ZXSTZ80REGS: AF BC DE HL AF1 BC1 DE1 HL1 IX IY SP PC (words), I R IFF1    *)
(* IFF2 IM (bytes), dwCyclesStart (dword), chHoldIntReqCycles, chFlags,      *)
(* wMemPtr.  ZXSTSPECREGS: chBorder ch7ffd ch1ffd chFe reserved[4].          *)
(* ZXSTAYBLOCK: chFlags chCurrentRegister chAyRegs[16].  ZXSTKEYBOARD:       *)
(* dwFlags (ZXSTKF_ISSUE2 = 1) chKeyboardJoystick.                           *)
SzxFields(head, z80r, spcr, ay, keyb) ==
  [f |-> B(z80r, 0), a |-> B(z80r, 1), bc |-> W(z80r, 2), de |-> W(z80r, 4), hl |-> W(z80r, 6),
   f2 |-> B(z80r, 8), a2 |-> B(z80r, 9), bc2 |-> W(z80r, 10), de2 |-> W(z80r, 12), hl2 |-> W(z80r, 14),
   ix |-> W(z80r, 16), iy |-> W(z80r, 18), sp |-> W(z80r, 20), pc |-> W(z80r, 22),
   i |-> B(z80r, 24), r |-> B(z80r, 25),
   iff1 |-> IF B(z80r, 26) # 0 THEN 1 ELSE 0,
   iff2 |-> IF B(z80r, 27) # 0 THEN 1 ELSE 0,
   im |-> B(z80r, 28),
   t |-> IF B(z80r, 32) < 128 THEN W(z80r, 29) + (65536 * W(z80r, 31)) ELSE -1,
   memptr |-> W(z80r, 35),
   border |-> B(spcr, 0), o7ffd |-> B(spcr, 1), fe |-> B(spcr, 3),
   offfd |-> IF Len(ay) = 18 THEN B(ay, 1) ELSE 0,
   ay |-> IF Len(ay) = 18 THEN [k \in 1..16 |-> B(ay, 1 + k)] ELSE NoAy,
   issue2 |-> IF Len(keyb) = 5 THEN B(keyb, 0) % 2 ELSE 0,
   machine |-> SzxMachine(head)]

(***************************************************************************)
(* What a file of each format must hold for a machine state w (the state    *)
(* the caller asked to be written; w.iff is the single interrupt flip-flop  *)
(* attribute of --state, w.t the T-state count given, possibly >= a frame). *)
(* The position in the frame is what a snapshot can carry, so T is reduced  *)
(* modulo the frame of the machine in both formats.                         *)
(***************************************************************************)
Carried(fmt, machine) ==
  <<"a", "f", "bc", "de", "hl", "a2", "f2", "bc2", "de2", "hl2", "ix", "iy", "sp", "pc", "i", "r",
    "iff1", "iff2", "im", "border", "machine">>
  \o (IF machine = "48K" THEN <<>> ELSE <<"o7ffd", "offfd", "ay">>)      \* "128K only"
  \o (IF fmt = "szx" THEN <<"fe", "memptr">> ELSE <<>>)                    \* "SZX only"
  \o (IF fmt = "z80" \/ machine = "48K" THEN <<"issue2">> ELSE <<>>)       \* KEYB exists for 48K only

Want(w, machine) ==
  [a |-> w.a, f |-> w.f, bc |-> w.bc, de |-> w.de, hl |-> w.hl, a2 |-> w.a2, f2 |-> w.f2, bc2 |-> w.bc2,
   de2 |-> w.de2, hl2 |-> w.hl2, ix |-> w.ix, iy |-> w.iy, sp |-> w.sp, pc |-> w.pc, i |-> w.i, r |-> w.r,
   iff1 |-> w.iff, iff2 |-> w.iff, im |-> w.im, border |-> w.border, issue2 |-> w.issue2,
   t |-> w.t % Frame(machine), o7ffd |-> w.o7ffd, offfd |-> w.offfd, ay |-> w.ay, fe |-> w.fe,
   memptr |-> w.memptr, machine |-> machine]

\* first field of `names` on which two state records differ ("" = none)
FirstDiff(x, y, names) ==
  LET bad == {k \in 1..Len(names) : x[names[k]] # y[names[k]]} IN
  IF bad = {} THEN "" ELSE names[CHOOSE k \in bad : \A m \in bad : k <= m]

\* T position: equal modulo the frame (a reader may or may not reduce it)
SameT(t1, t2, machine) == t1 >= 0 /\ t2 >= 0 /\ (t1 % Frame(machine)) = (t2 % Frame(machine))

\* design lemma (checked as an ASSUME by SnapOps_mc): the v3 counter pair is a bijection of the frame
TCounterLemma(machine) ==
  \A t \in 0..(Frame(machine) - 1) :
    LET e == Z80EncodeT(t, machine) IN
    /\ e[1] \in 0..(Quarter(machine) - 1) /\ e[2] \in 0..3
    /\ Z80DecodeT(e[1], e[2], machine) = t
=============================================================================
