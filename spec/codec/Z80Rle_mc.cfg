SPECIFICATION EncSpec
CONSTANTS
  Alphabet = {237, 0, 1}
  MaxLen = 9
  MaxRun = 6
  MinRun = 5
  EdRuns = TRUE
INVARIANT EncTypeOK
INVARIANT RoundTrip
INVARIANT RoundTripV1
INVARIANT OutputWellFormed
INVARIANT FunctionalAgrees
INVARIANT RunFormAgrees
INVARIANT MatchFormAgrees
INVARIANT StreamAgrees
INVARIANT LoneEdNeverBeforeRun
INVARIANT NoBlowUp
CHECK_DEADLOCK FALSE
