------------------------------ MODULE RleLong ------------------------------
(***************************************************************************)
(* Pattern B for long run-length inputs.  One case = one data block of a   *)
(* .z80 file written by the real writer (write_snapshot, or snapmod for    *)
(* the version 1 / 2 forms), cut out of the file by the independent        *)
(* container parser:                                                       *)
(*   form "paged": [lenfield, page, blk]   form "v1": [blk incl. marker]   *)
(*   runs  = the RAM that was written, as <<byte, count>> pairs            *)
(*   total = number of bytes written (16384 per bank, 49152 for v1)        *)
(*   req/rdiff, ieq/idiff, w/r/i = byte equality, first differing offset   *)
(*   and CRC-32 limbs of the RAM decoded by skoolkit's reader and by the   *)
(*   independent decoder against the RAM written (compared in Python)      *)
(* TLC decodes the real block with Z80Rle!MatchRuns, token by token        *)
(* against the runs written, so the run-length semantics of long           *)
(* inputs (counts around 255/510, ED before/after runs, trailing EDs) are  *)
(* decided here and not in the harness.                                    *)
(***************************************************************************)
EXTENDS Z80Rle, Json, IOUtils, TLC

Cases == JsonDeserialize(IOEnv.CASES)

VARIABLES tid, verdict

JudgeBlock(c) ==
  LET v1 == c.form = "v1" IN
  IF c.form = "paged" /\ c.lenfield = 65535 THEN "ok"          \* stored uncompressed: nothing to decode
  ELSE IF c.form = "paged" /\ c.lenfield # c.blklen THEN "length-field"
  ELSE IF c.form = "paged" /\ c.page # c.wantpage THEN "page"
  ELSE IF c.big = 1 THEN "ok"                                    \* block too long for TLC: facts only
  ELSE IF ~IsNormal(c.runs) THEN "machinery"
  ELSE IF v1 /\ MatchRunsV1(c.blk, c.runs) = 0 THEN "v1-marker"
  ELSE IF (IF v1 THEN MatchRunsV1(c.blk, c.runs) ELSE MatchRuns(c.blk, c.runs)) # -1 THEN "decode"
  ELSE "ok"

Judge(c) ==
  IF c.form = "error" THEN "exception"
  ELSE IF RunsTotal(c.runs) # c.total THEN "machinery"
  ELSE LET b == JudgeBlock(c) IN
  IF b # "ok" THEN "block:" \o b
  ELSE IF c.req # 1 \/ c.rdiff # -1 \/ c.r # c.w THEN "reader"
  ELSE IF c.ieq # 1 \/ c.idiff # -1 \/ c.i # c.w THEN "independent-reader"
  ELSE "ok"

Init == tid \in 1..Len(Cases) /\ verdict = "pending"
Next == /\ verdict = "pending" /\ verdict' = Judge(Cases[tid]) /\ UNCHANGED tid
        /\ (verdict' = "ok" \/ PrintT(<<"FAIL", tid, verdict'>>))
=============================================================================
