----------------------------- MODULE TapeDeckMC -----------------------------
(* Model values for TapeDeck: three blocks (edges 0..3, 5..7, 8..11), a gap edge (4) and two edges 1 T-state apart. *)
EXTENDS TapeDeck
MCEdges == <<0, 20, 40, 55, 75, 120, 140, 141, 170, 230, 250, 270>>
MCBlocks == <<[s |-> 0, e |-> 3], [s |-> 5, e |-> 7], [s |-> 8, e |-> 11]>>
=============================================================================
