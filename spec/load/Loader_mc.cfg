SPECIFICATION Spec
CONSTANTS
  W = 14
  MaxLen = 6
  StartAddr = 40000
INVARIANT NeverCrashes
INVARIANT ReachesStart
INVARIANT ProgramLoaded
CHECK_DEADLOCK FALSE
