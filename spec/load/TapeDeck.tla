------------------------------ MODULE TapeDeck ------------------------------
(***************************************************************************)
(* The deck of TapePlayer as a state machine on its own (pattern A): a      *)
(* program that lets instructions of arbitrary durations pass (Tick) and    *)
(* reads port 0xFE whenever it likes (Read).  Checked for a small tape of   *)
(* three blocks with and without pausing between blocks.                     *)
(***************************************************************************)
EXTENDS TapePlayer

CONSTANTS Edges, Blocks, Pause, Durations, MaxClk
VARIABLES clk, tp, lvl, ridx

vars == <<clk, tp, lvl, ridx>>
S == [edges |-> Edges, blocks |-> Blocks, pause |-> Pause, inmin |-> 0, rom48 |-> 1, inrc |-> 0, accs |-> <<>>, deca |-> 0,
      frame |-> 69888, ia |-> 32]

Init == /\ clk = 0
        /\ tp = [next |-> 0, idx |-> 0, ended |-> 0, bend |-> Blocks[1].e, run |-> 0, custom |-> 0, tend |-> 0, unann |-> 1, bidx |-> 0]
        /\ lvl = -1 /\ ridx = 0

Tick(d) == /\ clk + d <= MaxClk
           /\ clk' = clk + d
           /\ tp' = Advance(S, tp, clk + d)
           /\ UNCHANGED <<lvl, ridx>>

\* IN A,($FE): the read, then the 11 T-states of the instruction
Read == LET r0 == [i \in 1..30 |-> IF i = rT THEN clk ELSE IF i = rPC THEN 32768 ELSE 0]
            rp == ReadPort(S, [r |-> r0, ov |-> <<>>, tp |-> tp], 254)
            t2 == rp.r[rT] + 11
        IN /\ t2 <= MaxClk
           /\ clk' = t2
           /\ lvl' = rp.val
           /\ ridx' = rp.tp.idx
           /\ tp' = Advance(S, rp.tp, t2)

Next == Read \/ \E d \in Durations : Tick(d)
Spec == Init /\ [][Next]_vars

TypeOK == /\ tp.idx \in 0..MaxIdx(S) /\ tp.bend \in 0..MaxIdx(S) /\ tp.bidx \in 0..Len(Blocks)
          /\ tp.run \in {0, 1} /\ tp.unann \in {0, 1} /\ lvl \in {-1, 191, 255}
\* a finished tape does not run and stays finished; a running tape has a current block
EndedStops == (tp.ended > 0 => tp.run = 0 /\ tp.bidx = Len(Blocks)) /\ (tp.run = 1 => tp.bidx < Len(Blocks))
\* the deck only rests at a block boundary that has not been announced yet, before the first read, or at the end
RestsOnlyBetweenBlocks == tp.run = 0 => (tp.ended > 0 \/ tp.unann = 1)
\* while a block is being played the index is the last edge strictly before now
IndexIsCurrent == (tp.run = 1 /\ tp.unann = 0 /\ tp.idx < MaxIdx(S)) => (Edge(S, tp.idx) <= clk /\ Edge(S, tp.idx + 1) >= clk)
\* what a read returns is the level after `ridx` edges
LevelIsParity == lvl # -1 => lvl = PortLevel(ridx)
\* within the current block
InBlock == (tp.bidx < Len(Blocks) /\ tp.unann = 0) => tp.idx <= Blocks[tp.bidx + 1].e + 1
IndexNeverGoesBack == [][tp'.idx >= tp.idx /\ tp'.bidx >= tp.bidx /\ tp'.ended >= tp.ended]_vars
=============================================================================
