----------------------------- MODULE SnapGroups -----------------------------
(***************************************************************************)
(* C13 end-to-end judge (pattern B).  One case = one tape and the snapshots *)
(* real tap2sna.main produced for it under a set of configurations.         *)
(*                                                                         *)
(*  run = [cfg, cls, err, pc, sp, r, t, regs, pages, data, o7ffd]            *)
(*    cls   the options that may legitimately change scratch state:          *)
(*          fast-load, cmio (and the tape-side options polarity, first-edge) *)
(*    regs  A F I A' F' IFF1 IFF2 IM border BC DE HL IX IY BC' DE' HL'       *)
(*    pages CRC of every 256-byte page of RAM (all banks)                    *)
(*    data  the bytes found at the load address of every data block          *)
(*    t     clock when the simulation stopped (read from the simulator)      *)
(*  c.expect = the bytes of the tape's data blocks (ground truth), c.start    *)
(*  the address given with --start.  runs[1] is the default configuration.   *)
(*                                                                         *)
(* Clauses (the verdict names the first one that fails and the run):         *)
(*  load-failed, pc, data-bytes, sp      - for every run                     *)
(*  registers, r, tstates, ram, 7ffd     - for runs of the same class, i.e.  *)
(*    differing only in accelerator, accelerate-dec-a, pause, python         *)
(***************************************************************************)
EXTENDS Integers, Sequences, TLC, Json, IOUtils

Cases == JsonDeserialize(IOEnv.CASES)
VARIABLES tid, verdict

Each(c) ==
  LET bad(i) == LET u == c.runs[i] IN
        IF u.err # "" THEN "load-failed"
        ELSE IF u.pc # c.start THEN "pc"
        ELSE IF u.data # c.expect THEN "data-bytes"
        ELSE IF u.sp # c.runs[1].sp THEN "sp"
        ELSE "ok"
      B == { i \in 1..Len(c.runs) : bad(i) # "ok" }
  IN IF B = {} THEN "ok" ELSE LET i == CHOOSE i \in B : \A j \in B : i <= j IN bad(i) \o "@" \o ToString(i)

\* every run is compared with the first run of its class
Leader(c, i) == CHOOSE j \in 1..i : c.runs[j].cls = c.runs[i].cls /\ \A k \in 1..(j - 1) : c.runs[k].cls # c.runs[i].cls

Group(c) ==
  LET bad(i) == LET u == c.runs[i]  v == c.runs[Leader(c, i)] IN
        IF u.regs # v.regs THEN "registers"
        ELSE IF u.r # v.r THEN "r"
        ELSE IF u.t # v.t THEN "tstates"
        ELSE IF u.pages # v.pages THEN "ram"
        ELSE IF u.o7ffd # v.o7ffd THEN "7ffd"
        ELSE "ok"
      B == { i \in 1..Len(c.runs) : bad(i) # "ok" }
  IN IF B = {} THEN "ok" ELSE LET i == CHOOSE i \in B : \A j \in B : i <= j IN bad(i) \o "@" \o ToString(i)

Judge(c) == IF Each(c) # "ok" THEN Each(c) ELSE Group(c)

Init == tid \in 1..Len(Cases) /\ verdict = "pending"
Next == /\ verdict = "pending"
        /\ verdict' = Judge(Cases[tid])
        /\ UNCHANGED tid
        /\ (verdict' = "ok" \/ PrintT(<<"FAIL", tid, verdict'>>))
=============================================================================
