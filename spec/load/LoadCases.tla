------------------------------ MODULE LoadCases ------------------------------
(***************************************************************************)
(* C12 judge.  One case = one bin2tap -> tap2sna round trip:                *)
(*  bin (program bytes, possibly empty when too long for TLC), org, start,  *)
(*  stack, clear (-1 = none), tapedata (main block as found on the tape),    *)
(*  lcode/laddr (the machine-code loader block found on the tape and its     *)
(*  entry address), and what the snapshot made by tap2sna shows.            *)
(***************************************************************************)
EXTENDS Z80, Json, IOUtils

Cases == JsonDeserialize(IOEnv.CASES)
VARIABLES tid, verdict

StackContents(start) == <<1343 % 256, 1343 \div 256, start % 256, start \div 256>>
Prefill(data, org, stack, start) ==
  [k \in 1..Len(data) |->
     LET a == org + k - 1  j == a - (stack - 4) IN
     IF j >= 0 /\ j < 4 THEN StackContents(start)[j + 1] ELSE data[k]]

\* run the loader's own bytes with the Z80 specification until it enters LD-BYTES
RECURSIVE RunTo(_, _, _)
RunTo(s, target, fuel) ==
  IF s.r[rPC] = target \/ fuel = 0 THEN s
  ELSE LET e == Step(s) IN RunTo([s EXCEPT !.r = e.r, !.ov = s.ov \o e.wr], target, fuel - 1)

LoaderState(c) ==
  LET regs == [i \in 1..30 |-> IF i = rPC THEN c.laddr ELSE IF i = rSP THEN 65000 ELSE 0]
      ov == [k \in 1..Len(c.lcode) |-> <<c.laddr + k - 1, c.lcode[k]>>]
  IN RunTo([r |-> regs, ov |-> ov, inv |-> -1, frame |-> 69888, ia |-> 32, tA |-> -1], 1366, 12)

LoaderOK(c) ==
  LET s == LoaderState(c) IN
  /\ s.r[rPC] = 1366
  /\ (s.r[rIXh] * 256) + s.r[rIXl] = c.org
  /\ (s.r[rD] * 256) + s.r[rE] = c.len
  /\ s.r[rA] = 255 /\ s.r[rF] % 2 = 1                      \* data block flag, carry = LOAD
  /\ s.r[rSP] = (c.stack - 2) % 65536
  /\ MemAt(s.ov, s.r[rSP]) + (256 * MemAt(s.ov, (s.r[rSP] + 1) % 65536)) = c.start

Scratch(c, a) == c.clear = -1 /\ a >= c.stack - 14 /\ a < c.stack

Judge(c) ==
  IF c.err # "" THEN "tool-error"
  ELSE IF c.clear = -1 /\ Len(c.bin) > 0 /\ c.tapedata # Prefill(c.bin, c.org, c.stack, c.start) THEN "tape-data"
  ELSE IF c.clear = -1 /\ ~LoaderOK(c) THEN "loader-contract"
  ELSE IF c.loaderr # "" THEN "load-failed"
  ELSE IF c.pc # c.start THEN "pc"
  ELSE IF c.clear = -1 /\ c.sp # c.stack THEN "sp"
  ELSE IF Len(c.bin) > 0 /\ (\E k \in 1..Len(c.bin) : ~Scratch(c, c.org + k - 1) /\ c.snapmem[k] # c.bin[k]) THEN "memory"
  ELSE IF c.bigdiff # -1 THEN "memory"
  ELSE IF c.m128 = 1 /\ (\E i \in 1..Len(c.bankok) : c.bankok[i] # 1) THEN "bank-contents"
  ELSE IF c.m128 = 1 /\ c.o7ffd # c.want7ffd THEN "7ffd"
  ELSE "ok"

Init == tid \in 1..Len(Cases) /\ verdict = "pending"
Next == /\ verdict = "pending"
        /\ verdict' = Judge(Cases[tid])
        /\ UNCHANGED tid
        /\ (verdict' = "ok" \/ PrintT(<<"FAIL", tid, verdict'>>))
=============================================================================
