----------------------------- MODULE AccOblig -----------------------------
(***************************************************************************)
(* C13 refinement obligations, decided by TLC with the Z80 step spec        *)
(* (pattern D: TLC enumerates accelerator x counter value itself).          *)
(*                                                                         *)
(* Accs = the accelerator table exported from skoolkit.loadsample, each     *)
(* entry with the concrete memory image the harness built around its code   *)
(* bytes (ov, wildcards filled, jump operands pointing at the loop start),  *)
(* the address of the IN (inaddr), the code region lo..hi and register      *)
(* presets (pre) for the registers the loop itself assumes.                 *)
(*                                                                         *)
(* (a)+(c) for accelerator a, counter value c, k in Ks, x in Xs:            *)
(*   start at the IN with the next edge d = (k-1)*lt + x T-states ahead;    *)
(*   the accelerated system (closed form of TapePlayer!AccelSkip driven by  *)
(*   the table's loop_time / loop_r_inc / counter / inc / ear mask /         *)
(*   polarity) and the plain system (Z80!Step only) must be in the same     *)
(*   state - every register incl. R and the clock, memory, player - when     *)
(*   the program leaves the loop (edge found or counter time-out).           *)
(*   Literal form, additionally: after k plain iterations the clock, the     *)
(*   counter and R differ from the start by k*lt, +-k and k*lr.              *)
(* (b) DEC A: JR NZ,$-1 / DEC A: JP NZ,$-1 for every A, both carries.        *)
(***************************************************************************)
EXTENDS TapePlayer, Json, IOUtils

Input == JsonDeserialize(IOEnv.ACCS)       \* [accs, cvs (counter values), avs (A values), thorough (0/1)]
Accs == Input.accs
Thorough == Input.thorough = 1
ToSet(seq) == { seq[i] : i \in 1..Len(seq) }

VARIABLES kind, ai, cv, verdict

T0 == 50000
Far == 400000

Frame == 69888
\* a tape whose edge number 2+p lies in the past, the next one at time e1 (then, optionally, a second one `glitch` later)
Scn(a, p, e1, glitch) ==
  LET idx == 2 + p
      past == [i \in 1..(idx + 1) |-> (i - 1) * 10]
      fut == IF glitch > 0 THEN <<e1, e1 + glitch, e1 + glitch + Far>> ELSE <<e1>>
      last == fut[Len(fut)]
      more == [i \in 1..8 |-> last + (i * Far)]
  IN [edges |-> past \o fut \o more, blocks |-> << [s |-> 0, e |-> idx + Len(fut) + 6] >>, pause |-> 1, inmin |-> 32768,
      rom48 |-> 1, inrc |-> 1, accs |-> <<a>>, deca |-> 0, frame |-> Frame, ia |-> 32]

\* registers at the entry of the loop (first byte of the code): counter c, the EAR register agreeing with level p so that
\* the loop spins, the registers the loop itself assumes (pre), everything else arbitrary
Regs0(a, c, p) ==
  LET bit == IF a.mask # 0 THEN ((2 + p - a.pol) % 2) * a.mask ELSE 0
      pre(i) == IF \E j \in 1..Len(a.pre) : a.pre[j][1] = i
                THEN a.pre[CHOOSE j \in 1..Len(a.pre) : a.pre[j][1] = i][2] ELSE -1
  IN Norm([i \in 1..30 |->
        IF i = a.counter + 1 THEN c
        ELSE IF a.mask # 0 /\ i = a.ear + 1 THEN a.earbase + bit
        ELSE IF pre(i) >= 0 THEN pre(i)
        ELSE CASE i = rPC -> a.lo [] i = rT -> T0 [] i = rSP -> 24576 [] i = rR -> (c * 7 + 3) % 256
               [] i = rIFF -> 0 [] i = rIM -> 1 [] i = rHALT -> 0 [] i = rMEMPTR -> 0
               [] i = rF -> (c * 5) % 256 [] OTHER -> (i * 37 + c) % 256])

Tp0(S, p, e1) == [next |-> e1, idx |-> 2 + p, ended |-> 0, bend |-> S.blocks[1].e, run |-> 1, custom |-> 1,
                  tend |-> 0, unann |-> 0, bidx |-> 0]

Outside(a) == (0..65535) \ (a.lo..a.hi)

\* the level must make the loop spin: for polarity-sensitive loops (mask = 0) pick the parity the entry names
Par(a, c, k) == IF a.mask = 0 THEN (1 + a.pol) % 2 ELSE (c + k) % 2

\* the machine when it first arrives at the IN (the flags are then the ones the loop's own INC/DEC left)
AtIn(a, c, p) ==
  LET S == Plain(Scn(a, p, T0 + Far, 0))
      m == [r |-> Regs0(a, c, p), ov |-> a.ov, tp |-> Tp0(S, p, T0 + Far)]
  IN IF a.lo = a.inaddr THEN m ELSE Run(S, m, {a.inaddr} \cup Outside(a), 8)

\* next edge d T-states after the start of the first IN
Arrange(a, c, p, d, glitch) ==
  LET m1 == AtIn(a, c, p)
      e1 == m1.r[rT] + d
      S == Scn(a, p, e1, glitch)
  IN [S |-> S, m |-> [m1 EXCEPT !.tp = Tp0(S, p, e1)]]

ExitCheck(a, c, k, x, glitch) ==
  LET p == Par(a, c, k)
      sc == Arrange(a, c, p, ((k - 1) * a.lt) + x, glitch)
      fuel == ((k + 3) * 16) + 24
      ma == Run(sc.S, sc.m, Outside(a), fuel)
      mp == Run(Plain(sc.S), sc.m, Outside(a), fuel)
      room == CounterRoom(a, sc.m.r[a.counter + 1])
  IN IF sc.m.r[rPC] # a.inaddr THEN "ok"          \* the counter ran out before the first IN: nothing to accelerate
     ELSE IF Loops(a, sc.m.r, sc.m.tp) # (IF room < 0 \/ (k = 1 /\ x = 0) THEN 0 ELSE Min2(k, room)) THEN "skip-count"     \* (non-vacuity)
     ELSE IF mp.r[rPC] \in (a.lo..a.hi) THEN "no-exit"
     ELSE IF ma.r[rT] # mp.r[rT] THEN "exit-t"
     ELSE IF ma.r[rR] # mp.r[rR] THEN "exit-r"
     ELSE IF ma.r[a.counter + 1] # mp.r[a.counter + 1] THEN "exit-counter"
     ELSE IF ma.r[rF] # mp.r[rF] THEN "exit-flags"
     ELSE IF ma.r[rPC] # mp.r[rPC] THEN "exit-pc"
     ELSE IF ~SameMachine(ma, mp) THEN "exit-state"
     ELSE "ok"

\* the counter limit: the edge lies beyond the iteration in which the counter wraps
LimitCheck(a, c) ==
  LET p == Par(a, c, 0)
      m1 == AtIn(a, c, p)
      room == CounterRoom(a, m1.r[a.counter + 1])
      sc == Arrange(a, c, p, (room + 3) * a.lt, 0)
      fuel == ((room + 8) * 16) + 24
      ma == Run(sc.S, sc.m, Outside(a), fuel)
      mp == Run(Plain(sc.S), sc.m, Outside(a), fuel)
  IN IF sc.m.r[rPC] # a.inaddr \/ room < 0 THEN "ok"
     ELSE IF mp.r[rPC] \in (a.lo..a.hi) THEN "limit-no-exit"
     ELSE IF ~SameMachine(ma, mp) THEN "limit-state" ELSE "ok"

\* literal closed form after k plain iterations (IN to IN) with the edge far away
RECURSIVE Iter(_, _, _, _)
Iter(S, m, a, k) == IF k = 0 THEN m ELSE Iter(S, Run(S, m, {a.inaddr}, 20), a, k - 1)
Literal(a, c, k) ==
  LET p == Par(a, c, k)
      sc == Arrange(a, c, p, (k + 40) * a.lt, 0)
      mk == Iter(Plain(sc.S), sc.m, a, k)
      cf == AccelSkip(a, sc.m.r, k)
  IN IF sc.m.r[rPC] # a.inaddr \/ CounterRoom(a, sc.m.r[a.counter + 1]) < k THEN "ok"
     ELSE IF mk.r[rPC] # a.inaddr THEN "literal-no-loop"
     ELSE IF mk.r[rT] # cf[rT] THEN "loop-time"
     ELSE IF mk.r[a.counter + 1] # cf[a.counter + 1] THEN "counter"
     ELSE IF a.lr # 0 /\ mk.r[rR] # cf[rR] THEN "loop-r-inc"
     ELSE "ok"

Ks == ToSet(Input.ks)
Xs(a) == { IF x < 0 THEN a.lt + x ELSE x : x \in ToSet(Input.xs) }     \* negative = counted back from loop_time

AccVerdict(a, c) ==
  LET ex == { ExitCheck(a, c, k, x, 0) : k \in Ks, x \in Xs(a) } \ {"ok"}
      lit == { Literal(a, c, k) : k \in ToSet(Input.lits) } \ {"ok"}
      room == CounterRoom(a, c)
      lim == IF room <= Input.limroom \/ (Thorough /\ c \in {1, 254}) THEN { LimitCheck(a, c) } \ {"ok"} ELSE {}
      all == lit \cup ex \cup lim
  IN IF all = {} THEN "ok" ELSE CHOOSE v \in all : TRUE

\* (b) cv = A; ai in 1..4 = <<kind, carry>>
DecaVerdict(i, av) ==
  LET k == IF i <= 2 THEN 1 ELSE 2
      carry == i % 2
      base == 36864
      code == IF k = 1 THEN << <<base, 61>>, <<base + 1, 32>>, <<base + 2, 253>>, <<base + 3, 0>> >>
              ELSE << <<base, 61>>, <<base + 1, 194>>, <<base + 2, base % 256>>, <<base + 3, base \div 256>>, <<base + 4, 0>> >>
      S == [edges |-> <<0, 1000000>>, blocks |-> << [s |-> 0, e |-> 1] >>, pause |-> 1, inmin |-> 32768, rom48 |-> 1, inrc |-> 0,
            accs |-> <<>>, deca |-> 3, frame |-> Frame, ia |-> 32]
      r0 == Norm([j \in 1..30 |-> CASE j = rA -> av [] j = rF -> (((av * 3) % 128) * 2) + carry [] j = rPC -> base [] j = rT -> T0
                               [] j = rSP -> 24576 [] j = rR -> (av * 11 + 5) % 256 [] j = rIFF -> 0 [] j = rIM -> 1
                               [] j = rHALT -> 0 [] j = rMEMPTR -> 0 [] OTHER -> (j * 29 + av) % 256])
      tp0 == [next |-> 0, idx |-> 0, ended |-> 0, bend |-> 1, run |-> 0, custom |-> 0, tend |-> 0, unann |-> 1, bidx |-> 0]
      m0 == [r |-> r0, ov |-> code, tp |-> tp0]
      after == base + (IF k = 1 THEN 3 ELSE 4)
      ma == LoadStep(S, m0)
      mp == Run(Plain(S), m0, {after}, 520)
  IN IF DecAKind(S, m0) # k THEN "deca-not-recognised"
     ELSE IF mp.r[rPC] # after THEN "deca-no-exit"
     ELSE IF ma.r[rT] # mp.r[rT] THEN "deca-t"
     ELSE IF ma.r[rR] # mp.r[rR] THEN "deca-r"
     ELSE IF ma.r[rF] # mp.r[rF] THEN "deca-flags"
     ELSE IF ~SameMachine(ma, mp) THEN "deca-state"
     ELSE "ok"

Init == /\ \/ kind = "acc" /\ ai \in 1..Len(Accs) /\ cv \in ToSet(Input.cvs)
           \/ kind = "deca" /\ ai \in 1..4 /\ cv \in ToSet(Input.avs)
        /\ verdict = "pending"
Next == /\ verdict = "pending"
        /\ verdict' = IF kind = "acc" THEN AccVerdict(Accs[ai], cv) ELSE DecaVerdict(ai, cv)
        /\ UNCHANGED <<kind, ai, cv>>
        /\ (verdict' = "ok" \/ PrintT(<<"FAIL", (IF kind = "acc" THEN ai ELSE 900 + ai) * 1000 + cv, verdict'>>))
=============================================================================
