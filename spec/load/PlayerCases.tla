---------------------------- MODULE PlayerCases ----------------------------
(***************************************************************************)
(* C13 binding (pattern B).  One case = one small scenario (tape edges and  *)
(* blocks as computed by the real get_edges, a memory image, registers,     *)
(* player state, stop addresses) and what each real implementation          *)
(* (LoadTracer on the Python simulator, CSimulator.load) left behind under  *)
(* each speed-up configuration when the program counter reached the stop    *)
(* address.  Every observation must equal TapePlayer!Run of the *plain*     *)
(* system (no accelerator, no DEC A shortcut): all registers incl. R and    *)
(* the clock, memory, and the player's state.                               *)
(***************************************************************************)
EXTENDS TapePlayer, Json, IOUtils

Cases == JsonDeserialize(IOEnv.CASES)
VARIABLES tid, verdict

ToSet(seq) == { seq[i] : i \in 1..Len(seq) }

Scenario(c) == [edges |-> c.S.edges, blocks |-> c.S.blocks, pause |-> c.S.pause, inmin |-> c.S.inmin, rom48 |-> c.S.rom48,
                inrc |-> c.S.inrc, accs |-> <<>>, deca |-> 0, frame |-> c.S.frame, ia |-> c.S.ia]

TpFields(tp) == <<tp.next, tp.ended, tp.bend, tp.run, tp.custom, tp.tend, tp.unann, tp.bidx>>

JudgeObs(c, e, o) ==
  IF o.exc # "" THEN "exception"
  ELSE IF o.r[rPC] # e.r[rPC] THEN "pc"
  ELSE IF o.r[rT] # e.r[rT] THEN "t"
  ELSE IF o.r[rR] # e.r[rR] THEN "r"
  ELSE IF o.r[rF] # e.r[rF] THEN "flags"
  ELSE IF \E i \in 1..29 : o.r[i] # e.r[i] THEN "regs"
  ELSE IF o.tp.idx # e.tp.idx THEN "tape-index"
  ELSE IF TpFields(o.tp) # TpFields(e.tp) THEN "tape-state"
  ELSE IF { <<o.wr[i][1], o.wr[i][2]>> : i \in 1..Len(o.wr) } # FinalWrites(c.ov, SubSeq(e.ov, Len(c.ov) + 1, Len(e.ov))) THEN "mem"
  ELSE "ok"

Judge(c) ==
  LET e == Run(Scenario(c), [r |-> c.r, ov |-> c.ov, tp |-> c.tp], ToSet(c.stops), c.fuel)
      bad == { k \in 1..Len(c.obs) : JudgeObs(c, e, c.obs[k]) # "ok" }
  IN IF e.r[rPC] \notin ToSet(c.stops) THEN "spec-no-stop"
     ELSE IF bad = {} THEN "ok"
     ELSE LET k == CHOOSE k \in bad : \A j \in bad : k <= j IN c.obs[k].impl \o ":" \o JudgeObs(c, e, c.obs[k])

Init == tid \in 1..Len(Cases) /\ verdict = "pending"
Next == /\ verdict = "pending"
        /\ verdict' = Judge(Cases[tid])
        /\ UNCHANGED tid
        /\ (verdict' = "ok" \/ PrintT(<<"FAIL", tid, verdict'>>))
=============================================================================
