------------------------------- MODULE Loader -------------------------------
(***************************************************************************)
(* bin2tap's machine-code loader and the ROM LD-BYTES routine as an abstract *)
(* protocol (C12).                                                          *)
(*                                                                         *)
(* Without CLEAR the loader sets IX/DE/A/carry for LD-BYTES, moves SP to    *)
(* STACK, pushes START and JUMPS to LD-BYTES (0x0556).  LD-BYTES pushes the *)
(* address of SA/LD-RET (0x053F = 1343) itself, loads DE bytes to IX..,     *)
(* returns to 1343, which returns to START.  While loading, the four bytes  *)
(* below STACK therefore hold <<1343, START>>; if the program's own bytes   *)
(* land there they must carry the same values - Prefill.                    *)
(*                                                                         *)
(* Model: addresses 0..W-1; the binary occupies org..org+len-1.             *)
(***************************************************************************)
EXTENDS Integers, Sequences, FiniteSets, TLC

Lo(w) == w % 256
Hi(w) == (w \div 256) % 256
StackContents(start) == <<Lo(1343), Hi(1343), Lo(start), Hi(start)>>

\* what bin2tap must put on the tape for the main block: the program with the 4 stack bytes patched where they
\* fall inside it
Prefill(data, org, stack, start) ==
  [k \in 1..Len(data) |->
     LET a == org + k - 1  j == a - (stack - 4) IN
     IF j >= 0 /\ j < 4 THEN StackContents(start)[j + 1] ELSE data[k]]

CONSTANTS W, MaxLen, StartAddr
VARIABLES mem, sp, pc, loaded, org, len, stack, tape, phase
vars == <<mem, sp, pc, loaded, org, len, stack, tape, phase>>

Data(l) == [k \in 1..l |-> 100 + k]          \* distinguishable program bytes

Init ==
  /\ org \in 4..(W - 1) /\ len \in 1..MaxLen /\ org + len <= W
  /\ stack \in 4..W
  /\ tape = Prefill(Data(len), org, stack, StartAddr)
  /\ mem = [a \in 0..(W - 1) |-> 0]
  /\ sp = 0 /\ pc = 0 /\ loaded = 0 /\ phase = "loader"

Poke(m, a, v) == IF a \in DOMAIN m THEN [m EXCEPT ![a] = v] ELSE m
\* LD SP,STACK ; LD BC,START ; PUSH BC ; JP 0x0556
RunLoader ==
  /\ phase = "loader"
  /\ sp' = stack - 2
  /\ mem' = Poke(Poke(mem, stack - 2, Lo(StartAddr)), stack - 1, Hi(StartAddr))
  /\ phase' = "rom-entry" /\ UNCHANGED <<pc, loaded, org, len, stack, tape>>
\* LD-BYTES: PUSH SA/LD-RET
RomEntry ==
  /\ phase = "rom-entry"
  /\ sp' = sp - 2
  /\ mem' = Poke(Poke(mem, sp - 2, Lo(1343)), sp - 1, Hi(1343))
  /\ phase' = "loading" /\ UNCHANGED <<pc, loaded, org, len, stack, tape>>
LoadByte ==
  /\ phase = "loading" /\ loaded < len
  /\ mem' = Poke(mem, org + loaded, tape[loaded + 1])
  /\ loaded' = loaded + 1
  /\ UNCHANGED <<sp, pc, org, len, stack, tape, phase>>
\* RET to SA/LD-RET, which RETs to whatever is next on the stack
RomReturn ==
  /\ phase = "loading" /\ loaded = len
  /\ LET ret1 == mem[sp] + (256 * mem[sp + 1]) IN
     IF ret1 # 1343 THEN phase' = "crashed" /\ UNCHANGED <<sp, pc>>
     ELSE /\ pc' = mem[sp + 2] + (256 * mem[sp + 3])
          /\ sp' = sp + 4
          /\ phase' = "done"
  /\ UNCHANGED <<mem, loaded, org, len, stack, tape>>

Next == RunLoader \/ RomEntry \/ LoadByte \/ RomReturn
Spec == Init /\ [][Next]_vars

NeverCrashes == phase # "crashed"
ReachesStart == phase = "done" => (pc = StartAddr /\ sp = stack)
ProgramLoaded ==
  phase = "done" => \A k \in 1..len : LET a == org + k - 1 IN (a < stack - 4 \/ a >= stack) => mem[a] = Data(len)[k]
=============================================================================
