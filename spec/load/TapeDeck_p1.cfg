SPECIFICATION Spec
CONSTANTS
  Edges <- MCEdges
  Blocks <- MCBlocks
  Pause = 1
  Durations = {4, 13, 47}
  MaxClk = 320
INVARIANT TypeOK
INVARIANT EndedStops
INVARIANT RestsOnlyBetweenBlocks
INVARIANT IndexIsCurrent
INVARIANT LevelIsParity
INVARIANT InBlock
PROPERTY IndexNeverGoesBack
CHECK_DEADLOCK FALSE
