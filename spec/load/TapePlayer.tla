---------------------------- MODULE TapePlayer ----------------------------
(***************************************************************************)
(* The tape player that feeds a simulated Spectrum during LOAD, and the     *)
(* speed-ups layered on top of it (C13).                                    *)
(*                                                                         *)
(* Physical picture.  A tape is a non-decreasing sequence of edge times     *)
(* (in T-states); the EAR level at time t is the parity of the number of    *)
(* edges strictly before t; port 0xFE reads 191 (bit 6 clear) for level 0   *)
(* and 255 for level 1.  Edges are grouped into blocks; between blocks the  *)
(* deck may be paused and is restarted by the next port read, which also    *)
(* moves the machine clock to the first edge of the block ("announce").     *)
(*                                                                         *)
(* A machine state m = [r, ov, tp]:                                         *)
(*   r  : the 30 registers of Z80!Step (r[rT] = clock, r[rR], ...)          *)
(*   ov : memory overlay over Z80Bits!Base                                  *)
(*   tp : player = [next, idx, ended, bend, run, custom, tend, unann, bidx] *)
(*        next  time of the next edge          idx   index of the last edge *)
(*        ended tape finished (count)          bend  last edge of the block *)
(*        run   deck running                   custom a loader read the EAR *)
(*        tend  time the tape ended            unann block not yet announced*)
(*        bidx  0-based number of the current block                          *)
(* A scenario S (constant during a run) = [edges, blocks, pause, inmin,      *)
(*   rom48, inrc, accs, deca, frame, ia]; blocks[i] = [s, e] edge indices    *)
(*   (0-based, as in the implementation); Edge(S, i) is the time of edge i.  *)
(*                                                                         *)
(* LoadStep(S, m) is one instruction of the *plain* system when S.accs is   *)
(* empty and S.deca = 0, and one instruction of the *accelerated* system    *)
(* otherwise.  The property "speed-ups do not change the result" is the     *)
(* refinement  Run(Accelerated) = Run(Plain)  at every point where the      *)
(* program has left the loop that was fast-forwarded; AccOblig.tla lets TLC *)
(* decide it for every entry of the accelerator table, PlayerCases.tla      *)
(* compares runs of the real LoadTracer/CSimulator.load with Run(Plain).    *)
(***************************************************************************)
EXTENDS Z80

Edge(S, i) == S.edges[i + 1]
MaxIdx(S) == Len(S.edges) - 1
PortLevel(i) == IF i % 2 = 0 THEN 191 ELSE 255
Min2(a, b) == IF a < b THEN a ELSE b
Max2(a, b) == IF a > b THEN a ELSE b
\* Z80!Step builds its register file as a function constructor, which TLC keeps as an unevaluated lambda: a run of n
\* steps would re-evaluate n nested lambdas for every register read.  A tuple is evaluated once.
Norm(f) == <<f[1], f[2], f[3], f[4], f[5], f[6], f[7], f[8], f[9], f[10], f[11], f[12], f[13], f[14], f[15], f[16], f[17], f[18],
             f[19], f[20], f[21], f[22], f[23], f[24], f[25], f[26], f[27], f[28], f[29], f[30]>>

-----------------------------------------------------------------------------
(* Deck control *)
StopTape(S, tp, t) ==
  [tp EXCEPT !.bidx = Len(S.blocks), !.ended = tp.ended + 1,
             !.tend = IF tp.ended = 0 THEN t ELSE tp.tend, !.run = 0]

NextBlock(S, tp, t) ==
  IF tp.bidx + 1 >= Len(S.blocks) THEN StopTape(S, tp, t)
  ELSE LET b == S.blocks[tp.bidx + 2] IN
       [tp EXCEPT !.bidx = tp.bidx + 1, !.idx = tp.bend + 1, !.next = Edge(S, tp.bend + 1),
                  !.bend = b.e, !.run = 1 - S.pause, !.unann = 1]

\* the last edge strictly before t, never moving backwards
AdvIdx(S, idx, t) ==
  LET mx == MaxIdx(S) IN
  CHOOSE j \in idx..mx : /\ (j = mx \/ Edge(S, j + 1) >= t)
                         /\ \A i \in idx..(j - 1) : Edge(S, i + 1) < t

\* after every instruction (t = clock after it)
Advance(S, tp, t) ==
  IF tp.run = 0 \/ t < tp.next THEN tp
  ELSE LET j == AdvIdx(S, tp.idx, t)
           tp1 == [tp EXCEPT !.idx = j]
       IN IF j = MaxIdx(S) THEN (IF t - Edge(S, j) > 3500 THEN StopTape(S, tp1, t) ELSE tp1)   \* 1 ms grace for the last edge
          ELSE IF j > tp.bend THEN NextBlock(S, tp1, t)
          ELSE [tp1 EXCEPT !.next = Edge(S, j + 1)]

-----------------------------------------------------------------------------
(* Tape-sampling-loop accelerators.  a = [name, code, c0, counter, inc, lt,  *)
(* lr, ear, mask, pol]; code[j] = 256 is a wildcard; c0 = offset of the IN;  *)
(* counter/ear are 0-based register numbers (B=2 ... L=7), ear = -1 and      *)
(* mask = 0 for loops that test the EAR bit against a constant.              *)
AccMatch(a, ov, pc) ==
  \A j \in 1..Len(a.code) : a.code[j] = 256 \/ MemAt(ov, W16(pc - a.c0 + j - 1)) = a.code[j]

\* does the loop keep spinning at the current level?
Ffwd(a, r, idx) ==
  IF a.mask # 0 THEN And8(r[a.ear + 1], a.mask) = ((idx - a.pol) % 2) * a.mask
  ELSE (idx - a.pol) % 2 = 1

\* iterations that can be skipped: up to and including the first one whose IN starts after the next edge,
\* but never the one in which the counter would wrap (the loop leaves through its time-out exit then)
CounterRoom(a, ctr) == IF a.inc = 1 THEN 255 - ctr ELSE (ctr - 1) % 256       \* a DEC-type counter of 0 means 256
Loops(a, r, tp) ==
  IF Ffwd(a, r, tp.idx) /\ tp.next > r[rT]
  THEN Max2(0, Min2(((tp.next - r[rT]) \div a.lt) + 1, CounterRoom(a, r[a.counter + 1])))
  ELSE 0

\* the closed form of k iterations: clock, refresh register, counter and the flags of the last INC/DEC (carry clear)
AccelSkip(a, r, k) ==
  LET ctr == r[a.counter + 1]
      c2 == IF a.inc = 1 THEN (ctr + k) % 256 ELSE (ctr - k) % 256
      f2 == IF a.inc = 1 THEN IncF((c2 - 1) % 256, 0) ELSE DecF((c2 + 1) % 256, 0)
  IN [r EXCEPT ![a.counter + 1] = c2, ![rF] = f2, ![rR] = IncR(r[rR], a.lr * k), ![rT] = r[rT] + (a.lt * k)]

Accelerable(S, r, tp) == tp.run = 1 /\ r[rIFF] = 0 /\ tp.idx < tp.bend - 1

-----------------------------------------------------------------------------
(* One read of a port by the instruction at r[rPC]: [val, r, tp] *)
ReadPort(S, m, port) ==
  LET r == m.r  tp == m.tp  pc == r[rPC]  idx == tp.idx IN
  IF port % 256 # 254 \/ ~(pc >= S.inmin \/ (pc >= 1378 /\ pc <= 1521 /\ S.rom48 = 1))
  THEN [val |-> 255, r |-> r, tp |-> tp]
  ELSE LET tpc == [tp EXCEPT !.custom = 1] IN
    IF tp.unann = 1 /\ tp.ended = 0
    THEN [val |-> PortLevel(idx), r |-> [r EXCEPT ![rT] = Edge(S, idx)], tp |-> [tpc EXCEPT !.unann = 0, !.run = 1]]
    ELSE IF idx = MaxIdx(S)
    THEN [val |-> PortLevel(idx), r |-> r, tp |-> StopTape(S, tpc, r[rT])]
    ELSE LET hit == { i \in 1..Len(S.accs) : AccMatch(S.accs[i], m.ov, pc) } IN
      IF hit = {} \/ ~Accelerable(S, r, tp) THEN [val |-> PortLevel(idx), r |-> r, tp |-> tpc]
      ELSE LET a == S.accs[CHOOSE i \in hit : \A j \in hit : i <= j]
               k == Loops(a, r, tp)
           IN IF k <= 0 THEN [val |-> PortLevel(idx), r |-> r, tp |-> tpc]
              ELSE LET r2 == AccelSkip(a, r, k) IN
                   [val |-> PortLevel(IF r2[rT] > tp.next THEN idx + 1 ELSE idx), r |-> r2, tp |-> tpc]

-----------------------------------------------------------------------------
(* DEC A: JR NZ,$-1 (kind 1) and DEC A: JP NZ,$-1 (kind 2) delay loops *)
DecAKind(S, m) ==
  LET pc == m.r[rPC]  M(a) == MemAt(m.ov, W16(a)) IN
  IF M(pc) # 61 \/ m.r[rIFF] # 0 THEN 0
  ELSE IF S.deca % 2 = 1 /\ M(pc + 1) = 32 /\ M(pc + 2) = 253 THEN 1
  ELSE IF S.deca \div 2 = 1 /\ M(pc + 1) = 194 /\ M(pc + 2) = pc % 256 /\ M(pc + 3) = pc \div 256 THEN 2
  ELSE 0

DecASkip(r, kind) ==
  LET a == IF r[rA] = 0 THEN 256 ELSE r[rA] IN
  [r EXCEPT ![rA] = 0, ![rF] = 66 + (r[rF] % 2), ![rR] = IncR(r[rR], 2 * a),
            ![rT] = r[rT] + (IF kind = 1 THEN (16 * a) - 5 ELSE 14 * a),
            ![rPC] = W16(r[rPC] + (IF kind = 1 THEN 3 ELSE 4))]

-----------------------------------------------------------------------------
(* One instruction of the loading machine (interrupts disabled or outside   *)
(* the INT window - scenarios are generated that way).                      *)
LoadStep(S, m) ==
  LET r == m.r  pc == r[rPC]
      M(a) == MemAt(m.ov, W16(a))
      op == M(pc)  op2 == M(pc + 1)
      inAN == op = 219
      inRC == op = 237 /\ S.inrc = 1 /\ op2 \div 64 = 1 /\ op2 % 8 = 0
      port == IF inAN THEN op2 + (256 * r[rA]) ELSE r[rC] + (256 * r[rB])
      rp == IF inAN \/ inRC THEN ReadPort(S, m, port) ELSE [val |-> -1, r |-> r, tp |-> m.tp]
      dk == DecAKind(S, m)
      st == IF dk # 0 THEN [r |-> DecASkip(r, dk), wr |-> <<>>]
            ELSE Step([r |-> rp.r, ov |-> m.ov, inv |-> rp.val, frame |-> S.frame, ia |-> S.ia, tA |-> -1])
      r2 == Norm(st.r)
  IN [r |-> r2, ov |-> m.ov \o st.wr, tp |-> Advance(S, rp.tp, r2[rT])]

\* run until the program counter is in `stops` (checked after each instruction, like LoadTracer.run) or fuel is used up;
\* chunked so that the evaluation stack stays shallow
RECURSIVE RunSmall(_, _, _, _)
RunSmall(S, m, stops, fuel) ==
  IF fuel = 0 THEN m
  ELSE LET m2 == LoadStep(S, m) IN IF m2.r[rPC] \in stops THEN m2 ELSE RunSmall(S, m2, stops, fuel - 1)
RECURSIVE Run(_, _, _, _)
Run(S, m, stops, fuel) ==
  IF fuel <= 40 THEN RunSmall(S, m, stops, fuel)
  ELSE LET m2 == RunSmall(S, m, stops, 40) IN IF m2.r[rPC] \in stops THEN m2 ELSE Run(S, m2, stops, fuel - 40)

Plain(S) == [S EXCEPT !.accs = <<>>, !.deca = 0]

\* what the property lets no speed-up change
SameMachine(m1, m2) ==
  /\ m1.r = m2.r
  /\ FinalWrites(<<>>, m1.ov) = FinalWrites(<<>>, m2.ov)
  /\ m1.tp = m2.tp
=============================================================================
