------------------------------ MODULE FastRun ------------------------------
(***************************************************************************)
(* C06: run(start, stop) of a whole loop in one call.  The pure-Python      *)
(* simulator can be configured with closed forms for DJNZ $ (fast_djnz) and *)
(* LDIR / LDDR (fast_ldir, which must stop as soon as the copy reaches the  *)
(* instruction's own bytes); the C simulators and the plain configuration   *)
(* execute one iteration at a time.  Every observation must be the state    *)
(* Z80!Step reaches by iterating from the start state until PC = stop.      *)
(* State carried by TLC: r, ov (one step = one instruction).  A case: r0, ov0, stop, max, frame, ia, inv, obs = [impl, r, wr, exc].    *)
(***************************************************************************)
EXTENDS Z80, Json, IOUtils

Cases == JsonDeserialize(IOEnv.CASES)
VARIABLES tid, l, r, ov, rb, ovb, acc, verdict

Compared == ((1..13) \ {rF}) \cup {15} \cup (17..24) \cup {rIFF, rIM, rHALT}

\* C08's clauses on the same observations: the ROM is never written, every register stays in its range, the clock does not
\* run backwards
Regs8 == (1..12) \cup (15..24)
Range(c, o) ==
  /\ \A i \in Regs8 : o.r[i] \in 0..255
  /\ o.r[rSP] \in 0..65535 /\ o.r[rPC] \in 0..65535
  /\ o.r[rIFF] \in 0..1 /\ o.r[rIM] \in 0..2 /\ o.r[rHALT] \in 0..1
  /\ o.r[rT] >= c.r0[rT]
  /\ \A i \in 1..Len(o.wr) : o.wr[i][2] \in 0..255

Sem(c, fin, o) ==
  IF o.exc # "" THEN "exception"
  ELSE IF \E i \in 1..Len(o.wr) : o.wr[i][1] < 16384 THEN "rom-write"
  ELSE IF ~Range(c, o) THEN "range"
  ELSE IF \E i \in Compared : o.r[i] # fin.r[i] THEN "regs"
  ELSE IF And8(o.r[rF], fin.mask) # And8(fin.r[rF], fin.mask) THEN "flags"
  ELSE IF o.r[rPC] # fin.r[rPC] THEN "pc"
  ELSE IF o.r[rR] # fin.r[rR] THEN "r"
  ELSE IF o.r[rT] # fin.r[rT] THEN "t"
  ELSE IF \E i \in 1..Len(o.wr) : MemAt(fin.ov, o.wr[i][1]) # o.wr[i][2] THEN "mem"
  ELSE IF \E i \in 1..Len(fin.ov) : fin.ov[i][1] > 16383 /\ MemAt(fin.ov, fin.ov[i][1]) # MemAt(c.ov0, fin.ov[i][1])
                                    /\ ~(\E j \in 1..Len(o.wr) : o.wr[j][1] = fin.ov[i][1]) THEN "mem-missing"
  ELSE "ok"

Judge(c, fin) ==
  LET bad == { k \in 1..Len(c.obs) : Sem(c, fin, c.obs[k]) # "ok" }
  IN IF bad = {} THEN "ok"
     ELSE LET k == CHOOSE k \in bad : \A j \in bad : k <= j IN c.obs[k].impl \o ":" \o Sem(c, fin, c.obs[k])

\* Flag bits the documents leave open (repeating block instructions: bits 5,3; mask of Z80!Step) may still be open when
\* the run ends, because a copy that reaches its own opcode ends "in the middle".  Two chains are stepped, one with every
\* open bit 0 and one with every open bit 1: a final flag bit is decided where the chains agree; if they disagree anywhere
\* else (an open bit flowed into a register, memory, the path taken) the case is not judged ("skip").
Hav(e, h) == [e.r EXCEPT ![rF] = And8(e.r[rF], e.mask) + And8(h, 255 - e.mask)]

\* one TLC step = one instruction, followed by the frame interrupt if the run has interrupts on and it is accepted
\* (Z80!StepInt); the run ends when PC = stop
Init == /\ tid \in 1..Len(Cases) /\ l = 0 /\ verdict = "pending"
        /\ r = Cases[tid].r0 /\ ov = Cases[tid].ov0 /\ rb = Cases[tid].r0 /\ ovb = Cases[tid].ov0 /\ acc = 0
Next == /\ verdict = "pending"
        /\ LET c == Cases[tid]
               S(rr, oo) == StepInt([r |-> rr, ov |-> oo, inv |-> c.inv, frame |-> c.frame, ia |-> c.ia, tA |-> -1], c.ints = 1)
               e == S(r, ov)
               s0 == [r |-> r, ov |-> ov, inv |-> c.inv, frame |-> c.frame, ia |-> c.ia, tA |-> -1]
               taken == IF c.ints = 1 /\ IntAccepts(s0, Step(s0)) THEN 1 ELSE 0
               eb == S(rb, ovb)
               ra == Hav(e, 0)
               rc == Hav(eb, 255)
               same == /\ \A i \in 1..30 : i # rF => ra[i] = rc[i]
                       /\ FinalWrites(c.ov0, ov \o e.wr) = FinalWrites(c.ov0, ovb \o eb.wr)
               fin == [r |-> ra, ov |-> ov \o e.wr, mask |-> 255 - Xor8(ra[rF], rc[rF])]
           IN /\ r' = ra /\ rb' = rc
              /\ ov' = ov \o e.wr /\ ovb' = ovb \o eb.wr
              /\ acc' = acc + taken
              /\ verdict' = IF ra[rPC] = c.stop \/ rc[rPC] = c.stop
                            THEN (IF same THEN Judge(c, fin) ELSE "skip:open-flag-bit-flowed-on")
                            ELSE IF l + 1 >= c.max THEN "skip:longer-than-max" ELSE "pending"
        /\ l' = l + 1
        /\ UNCHANGED tid
        /\ (verdict' \in {"ok", "pending"} \/ PrintT(<<"FAIL", tid, verdict'>>))
        \* (both reports come after every primed variable is determined: evaluated as predicates, not as branches)
        /\ (verdict' = "pending" \/ PrintT(<<"LEN", tid, l + 1, acc'>>))
=============================================================================
