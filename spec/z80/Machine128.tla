----------------------------- MODULE Machine128 -----------------------------
(***************************************************************************)
(* The 128K machine: Z80!Step / Z80!Interrupt composed with the paging      *)
(* latch at port 0x7FFD, over PHYSICAL memory (RAM banks 0..7 = pages 0..7, *)
(* ROM 0/1 = pages 8/9).  Used for sequential trace validation of program   *)
(* runs on 128K memory (C06, C08 clauses on every state).                   *)
(*                                                                         *)
(* State carried by TLC: r (registers), pov (page -> overlay of <<offset,   *)
(* byte>> in write order over the page's base pattern), o7 (the latch).     *)
(* One trace step = one instruction boundary of the real trace loop:        *)
(*   1. Step on the logical view under the paging in force (o7);            *)
(*   2. the instruction's stores go to the pages that view maps them to;    *)
(*   3. an OUT that decodes as 0x7FFD (A15 = 0, A1 = 0) while bit 5 of the  *)
(*      latch is clear replaces the latch (Paging128!Out);                  *)
(*   4. if the frame interrupt is accepted, its vector read and its stack   *)
(*      push see the NEW mapping.                                           *)
(* Base patterns: ROMs Base(x); bank 5 Base(0x4000+x); bank 2               *)
(* Base(0x8000+x); every other bank Base(0xC000+x) - so the logical view    *)
(* equals Z80!Base + overlay as long as the bank at 0xC000 is not 2 or 5.   *)
(* Traces that page 2 or 5 in at 0xC000 (aliasing) carry sem = 0 and are    *)
(* judged for pair agreement, ranges, ROM immutability and the latch only.  *)
(***************************************************************************)
EXTENDS Z80Bus, Json, IOUtils, FiniteSets

Traces == JsonDeserialize(IOEnv.CASES)

VARIABLES r, pov, o7, tid, l, verdict
tvars == <<r, pov, o7, tid, l, verdict>>

Regs8 == (1..12) \cup (15..24)
Compared == ((1..13) \ {rF}) \cup {15} \cup (17..24) \cup {rIFF, rIM, rHALT}

-----------------------------------------------------------------------------
(* paging latch *)
PortMatch(port) == Bit(port, 15) = 0 /\ Bit(port, 1) = 0
Locked(v) == Bit(v, 5) = 1
RomPage(v) == 8 + Bit(v, 4)
BankAtC000(v) == v % 8

\* the latch after the port events of one instruction (at most one OUT per step, but written generally)
LatchAfter(v, io) ==
  LET F[k \in 0..Len(io)] ==
        IF k = 0 THEN v
        ELSE IF io[k][1] = "o" /\ PortMatch(io[k][2]) /\ ~Locked(F[k - 1]) THEN io[k][3] ELSE F[k - 1]
  IN F[Len(io)]

\* logical address -> <<page, offset>> under latch v
Phys(v, a) ==
  IF a < 16384 THEN <<RomPage(v), a>>
  ELSE IF a < 32768 THEN <<5, a - 16384>>
  ELSE IF a < 49152 THEN <<2, a - 32768>>
  ELSE <<BankAtC000(v), a - 49152>>

\* logical overlay under latch v (order inside a page is preserved; pages do not overlap logically
\* unless bank 2 or 5 sits at 0xC000)
Shift(seq, d) == [i \in 1..Len(seq) |-> <<seq[i][1] + d, seq[i][2]>>]
Logical(p, v) == Shift(p[RomPage(v)], 0) \o Shift(p[5], 16384) \o Shift(p[2], 32768) \o Shift(p[BankAtC000(v)], 49152)

\* apply logical writes under latch v to the physical overlays
ApplyWrites(p, v, wr) ==
  LET A[k \in 0..Len(wr)] ==
        IF k = 0 THEN p
        ELSE LET ph == Phys(v, wr[k][1]) IN [A[k - 1] EXCEPT ![ph[1]] = Append(@, <<ph[2], wr[k][2]>>)]
  IN A[Len(wr)]

BaseP(pg, x) == IF pg >= 8 THEN Base(x) ELSE IF pg = 5 THEN Base(16384 + x) ELSE IF pg = 2 THEN Base(32768 + x)
                ELSE Base(49152 + x)
PMem(p, pg, x) ==
  IF \E i \in 1..Len(p[pg]) : p[pg][i][1] = x
  THEN p[pg][CHOOSE i \in 1..Len(p[pg]) : p[pg][i][1] = x /\ \A j \in i+1..Len(p[pg]) : p[pg][j][1] # x][2]
  ELSE BaseP(pg, x)

\* the visible change of physical memory between two overlay states: {<<page, offset, byte>>}
Diff(p1, p2) ==
  UNION { { <<pg, p2[pg][i][1], PMem(p2, pg, p2[pg][i][1])>> :
              i \in { j \in 1..Len(p2[pg]) : PMem(p2, pg, p2[pg][j][1]) # PMem(p1, pg, p2[pg][j][1]) } } : pg \in 0..9 }

-----------------------------------------------------------------------------
(* one boundary of the machine: returns [r, pov, o7, io, mask] *)
Boundary(t, rr, p, v, tA) ==
  LET s == [r |-> rr, ov |-> Logical(p, v), inv |-> t.inv, frame |-> t.frame, ia |-> t.ia, tA |-> tA]
      st == Step(s)
      p1 == ApplyWrites(p, v, st.wr)
      v1 == LatchAfter(v, st.io)
  IN IF t.ints = 1 /\ IntAccepts(s, st)
     THEN LET s2 == [s EXCEPT !.ov = Logical(p1, v1)]
              it == Interrupt(s2, [st EXCEPT !.wr = <<>>])
          IN [r |-> it.r, pov |-> ApplyWrites(p1, v1, it.wr), o7 |-> v1, io |-> st.io, mask |-> st.mask]
     ELSE [r |-> st.r, pov |-> p1, o7 |-> v1, io |-> st.io, mask |-> st.mask]

Range(o) ==
  /\ \A i \in Regs8 : o.r[i] \in 0..255
  /\ o.r[rSP] \in 0..65535 /\ o.r[rPC] \in 0..65535 /\ o.r[rMEMPTR] \in 0..65535
  /\ o.r[rIFF] \in 0..1 /\ o.r[rIM] \in 0..2 /\ o.r[rHALT] \in 0..1
  /\ \A i \in 1..Len(o.pw) : o.pw[i][3] \in 0..255 /\ o.pw[i][1] \in 0..9 /\ o.pw[i][2] \in 0..16383

Sem(o, e, p) ==
  IF \E i \in Compared : o.r[i] # e.r[i] THEN "regs"
  ELSE IF And8(o.r[rF], e.mask) # And8(e.r[rF], e.mask) THEN "flags"
  ELSE IF o.r[rPC] # e.r[rPC] THEN "pc"
  ELSE IF o.r[rR] # e.r[rR] THEN "r"
  ELSE IF o.r[rT] # e.r[rT] THEN "t"
  ELSE IF { <<o.pw[i][1], o.pw[i][2], o.pw[i][3]>> : i \in 1..Len(o.pw) } # Diff(p, e.pov) THEN "mem"
  ELSE IF Len(o.io) # Len(e.io) THEN "io-count"
  ELSE IF \E i \in 1..Len(e.io) : o.io[i][1] # e.io[i][1] \/ o.io[i][2] # e.io[i][2]
                                  \/ (e.io[i][1] = "o" /\ o.io[i][3] # e.io[i][3]) THEN "io"
  ELSE "ok"

\* the latch clauses need only the observed port log, so they are judged on every trace (sem = 0 too)
Paging(o, v) ==
  LET v1 == LatchAfter(v, o.io) IN
  IF Locked(v) /\ (o.o7 # v \/ o.vis3 # BankAtC000(v) \/ o.vis0 # RomPage(v)) THEN "paging-locked-changed"
  ELSE IF o.o7 # v1 THEN "paging-latch"
  ELSE IF o.tr # v1 THEN "paging-tracer-copy"
  ELSE IF o.vis3 # BankAtC000(v1) THEN "paging-bank-at-c000"
  ELSE IF o.vis0 # RomPage(v1) THEN "paging-rom"
  ELSE "ok"

Clause(t, o, rr, p, v) ==
  LET E(tA) == Boundary(t, rr, p, v, tA)
      \* contended pair: uncontended duration + ULA delay on the 128K layout; the bank at 0xC000 is contended when odd
      \* (the mapping in force while the instruction runs); both readings of the OTIR/OTDR internal-cycle address
      B(alt) == [r |-> rr, ov |-> Logical(p, v), inv |-> t.inv, frame |-> t.frame, ia |-> t.ia, tA |-> -1,
                 m128 |-> 1, odd |-> BankAtC000(v) % 2, alt |-> alt]
      base == Step(B(0)).r[rT]
      cands == { base + ContendedDelay(B(0)), base + ContendedDelay(B(1)) }
  IN
  IF o.exc # "" THEN "exception"
  ELSE IF ~Range(o) THEN "range"
  ELSE IF \E i \in 1..Len(o.pw) : o.pw[i][1] >= 8 THEN "rom-write"
  ELSE IF o.r[rT] < rr[rT] THEN "t-decreased"
  ELSE IF o.r2 # o.r THEN "pair-regs"
  ELSE IF o.same2 # 1 THEN "pair-mem-io-paging"
  ELSE IF Paging(o, v) # "ok" THEN Paging(o, v)
  ELSE IF t.sem = 0 THEN "ok"
  \* a program that runs wild may page bank 2 or 5 in by itself: such a step has no Base + overlay view
  ELSE IF BankAtC000(v) \in {2, 5} \/ BankAtC000(LatchAfter(v, o.io)) \in {2, 5} THEN "ok"
  ELSE IF t.tsem = 1 THEN Sem(o, E(-1), p)
  ELSE IF \E tA \in cands : Sem(o, E(tA), p) = "ok" THEN "ok"
  ELSE Sem(o, E(base + ContendedDelay(B(0))), p)

\* observed physical writes -> overlays (the trace is followed on the OBSERVED state, so one bad step
\* does not make every later step fail)
ObsApply(p, pw) ==
  LET A[k \in 0..Len(pw)] ==
        IF k = 0 THEN p ELSE [A[k - 1] EXCEPT ![pw[k][1]] = Append(@, <<pw[k][2], pw[k][3]>>)]
  IN A[Len(pw)]

TraceInit ==
  /\ tid \in 1..Len(Traces)
  /\ l = 1 /\ verdict = "pending"
  /\ r = Traces[tid].r0
  /\ pov = [pg \in 0..9 |-> Traces[tid].pov0[pg + 1]]
  /\ o7 = Traces[tid].o70

TraceStep ==
  /\ verdict = "pending"
  /\ l <= Len(Traces[tid].obs)
  /\ LET t == Traces[tid]
         o == t.obs[l]
         c == Clause(t, o, r, pov, o7)
     IN /\ verdict' = IF c # "ok" THEN c ELSE IF l = Len(t.obs) THEN "ok" ELSE "pending"
        /\ r' = o.r
        /\ pov' = ObsApply(pov, o.pw)
        /\ o7' = o.o7
  /\ l' = l + 1
  /\ UNCHANGED tid
  /\ (verdict' \in {"ok", "pending"} \/ PrintT(<<"FAIL", (tid * 1000) + l, verdict'>>))

TraceSpec == TraceInit /\ [][TraceStep]_tvars
=============================================================================
