----------------------------- MODULE CmioCases -----------------------------
(***************************************************************************)
(* C19: single steps of the contention-aware simulators judged against the  *)
(* ULA model.  A case carries the observations of the plain Python          *)
(* simulator ("py") and of both contended ones ("pycm", "ccm").             *)
(***************************************************************************)
EXTENDS Z80Bus, Json, IOUtils

Cases == JsonDeserialize(IOEnv.CASES)
VARIABLES tid, verdict

Compared == ((1..13) \ {rF}) \cup {15} \cup (17..24) \cup {rIFF, rIM, rHALT}

Sem(c, e, o) ==
  IF o.exc # "" THEN "exception"
  ELSE IF \E i \in Compared : o.r[i] # e.r[i] THEN "regs"
  ELSE IF And8(o.r[rF], e.mask) # And8(e.r[rF], e.mask) THEN "flags"
  ELSE IF o.r[rPC] # e.r[rPC] THEN "pc"
  ELSE IF o.r[rR] # e.r[rR] THEN "r"
  ELSE IF { <<o.wr[i][1], o.wr[i][2]>> : i \in 1..Len(o.wr) } # FinalWrites(c.ov, e.wr) THEN "mem"
  ELSE IF Len(o.io) # Len(e.io) THEN "io-count"
  ELSE IF \E i \in 1..Len(e.io) : o.io[i][1] # e.io[i][1] \/ o.io[i][2] # e.io[i][2]
                                  \/ (e.io[i][1] = "o" /\ o.io[i][3] # e.io[i][3]) THEN "io"
  ELSE "ok"

\* flag bits that may legitimately differ between plain and contended simulators: bits 5,3 of
\* BIT n,(HL) / BIT n,(IX+d) (taken from MEMPTR), nothing else
MemBit(c) ==
  LET M(a) == MemAt(c.ov, W16(a))  pc == c.r[rPC]  b0 == M(pc) IN
  \/ b0 = 203 /\ M(pc + 1) \div 64 = 1 /\ M(pc + 1) % 8 = 6
  \/ b0 \in {221, 253} /\ M(pc + 1) = 203 /\ M(pc + 3) \div 64 = 1

Judge(c) ==
  LET s == [r |-> c.r, ov |-> c.ov, inv |-> c.inv, frame |-> c.frame, ia |-> c.ia, tA |-> -1,
            m128 |-> c.m128, odd |-> c.odd, alt |-> 0]
      e == Step(s)
      base == e.r[rT] - c.r[rT]
      \* both readings of OtirInternalBC are accepted; they coincide for every other instruction
      d0 == ContendedDelay(s)
      d1 == ContendedDelay([s EXCEPT !.alt = 1])
      d == IF d1 # d0 /\ c.obs[2].r[rT] = c.r[rT] + base + d1 THEN d1 ELSE d0
      e2 == Step([s EXCEPT !.tA = c.r[rT] + base + d])
      plain == c.obs[1]
      tdep == e2.r # [e.r EXCEPT ![rT] = e2.r[rT]]        \* behaviour depends on the frame position reached
      J(o) == LET m == Sem(c, e2, o) IN
              IF m # "ok" THEN m
              ELSE IF o.r[rT] < plain.r[rT] THEN "faster-than-plain"
              ELSE IF o.r[rT] # e2.r[rT] THEN "t"
              ELSE IF ~tdep /\ (\E i \in Compared : o.r[i] # plain.r[i]) THEN "differs-from-plain"
              ELSE IF ~tdep /\ And8(o.r[rF], IF MemBit(c) THEN 215 ELSE 255) # And8(plain.r[rF], IF MemBit(c) THEN 215 ELSE 255)
                   THEN "flags-differ-from-plain"
              ELSE IF ~tdep /\ (o.wr # plain.wr \/ o.io # plain.io) THEN "mem-io-differs-from-plain"
              ELSE "ok"
  IN
  IF SumLen(Bus(s)) # base THEN "spec:bus-sum"
  ELSE IF Sem(c, e, plain) # "ok" THEN "py:" \o Sem(c, e, plain)
  ELSE IF plain.r[rT] # e.r[rT] THEN "py:t"
  ELSE IF J(c.obs[2]) # "ok" THEN c.obs[2].impl \o ":" \o J(c.obs[2])
  ELSE IF J(c.obs[3]) # "ok" THEN c.obs[3].impl \o ":" \o J(c.obs[3])
  ELSE "ok"

Init == tid \in 1..Len(Cases) /\ verdict = "pending"
Next == /\ verdict = "pending"
        /\ verdict' = Judge(Cases[tid])
        /\ UNCHANGED tid
        /\ (verdict' = "ok" \/ PrintT(<<"FAIL", tid, verdict'>>))
=============================================================================
