---------------------------- MODULE InstrCases ----------------------------
(***************************************************************************)
(* C07: every decoder/disassembler/timing table against the specification. *)
(* A case = 4 bytes at an address + what each table-driven component said:  *)
(*   sk : skool-file Disassembler (per "Opcodes" option set) + z80.get_timing *)
(*   tu : traceutils.disassemble      od : opcodes.decode (sna2ctl)          *)
(* Verdict "ok" or "<component>:<clause>".                                   *)
(***************************************************************************)
EXTENDS Z80Asm, Json, IOUtils

Cases == JsonDeserialize(IOEnv.CASES)
VARIABLES tid, verdict

\* three register files that between them take both outcomes of every conditional / repeating form
RegFile(f, b, c) == [i \in 1..30 |-> CASE i = rF -> f [] i = rB -> b [] i = rC -> c [] i = rA -> 1 [] OTHER -> 0]
TimingSet(c) ==
  LET st(f, b, cc) == [r |-> [RegFile(f, b, cc) EXCEPT ![rPC] = c.pc], ov |-> c.ov, inv |-> 0, frame |-> 69888, ia |-> 32, tA |-> -1]
  IN { Decode(st(0, 1, 0)).t, Decode(st(255, 0, 1)).t, Decode(st(0, 2, 2)).t }

SeqToSet(q) == { q[i] : i \in 1..Len(q) }

Judge(c) ==
  LET M(a) == MemAt(c.ov, a)
      len == Length(M, c.pc)
      to == Text(M, c.pc)
      \* named deviation RelJumpOutOfRange: the skool disassembler renders a relative jump whose
      \* (unwrapped) target lies outside 0..65535 as DEFB
      relOut == M(c.pc) \in {16, 24, 32, 40, 48, 56} /\ (c.pc + 2 + Signed8(M(W16(c.pc + 1)))) \notin 0..65535
      enabled == (to[2] = "" \/ to[2] \in SeqToSet(c.opts)) /\ ~relOut
      skText == IF to[2] = "DEFB" THEN to[1] ELSE IF enabled THEN to[1] ELSE DefbText(M, c.pc, len)
      skVariant == to[2] \in {"ED63", "ED6B", "IM", "NEG", "RETN"} \/ (to[2] = "XYCB" /\ M(W16(c.pc + 3)) \div 64 = 1)
      tuText == to[1]
      isInstr == to[2] # "DEFB" /\ enabled
  IN
  IF c.sk.exc # "" THEN "sk:exception"
  ELSE IF c.tu.exc # "" THEN "tu:exception"
  ELSE IF c.od.exc # "" THEN "od:exception"
  ELSE IF c.sk.len # len THEN "sk:len"
  ELSE IF c.tu.len # len THEN "tu:len"
  ELSE IF c.od.len # len THEN "od:len"
  ELSE IF c.sk.op # skText THEN "sk:text"
  ELSE IF c.tu.op # tuText THEN "tu:text"
  ELSE IF isInstr /\ enabled /\ (c.sk.variant = 1) # (skVariant /\ isInstr) THEN "sk:variant"
  ELSE IF isInstr /\ c.sk.texc # "" THEN "timing:exception"
  ELSE IF isInstr /\ SeqToSet(c.sk.timing) # TimingSet(c) THEN "timing:value"
  \* a data statement (DEFB ...) has no timing, and asking for it is not an error
  ELSE IF ~isInstr /\ (c.sk.texc # "" \/ c.sk.timing # <<>>) THEN "timing:data-statement"
  \* the timing of a statement does not depend on the case it is written in (sna2skool -l)
  ELSE IF c.sk.ltexc # c.sk.texc \/ c.sk.ltiming # c.sk.timing THEN "timing:lower-case"
  ELSE "ok"

Init == tid \in 1..Len(Cases) /\ verdict = "pending"
Next == /\ verdict = "pending"
        /\ verdict' = Judge(Cases[tid])
        /\ UNCHANGED tid
        /\ (verdict' = "ok" \/ PrintT(<<"FAIL", tid, verdict'>>))
=============================================================================
