------------------------------ MODULE Z80Bus ------------------------------
(***************************************************************************)
(* ULA contention model (C19).                                             *)
(*  - Delay48/Delay128: the documented wait pattern 6,5,4,3,2,1,0,0 that    *)
(*    starts at T 14335 (48K) / 14361 (128K), repeats for 128 T on each of  *)
(*    192 display lines of 224 / 228 T.                                     *)
(*  - Bus(s): the machine cycles of the instruction at PC in order, each    *)
(*    <<address on the bus, T-states>>, from the documented M-cycle         *)
(*    breakdown (opcode fetch pc:4, operand reads :3, internal cycles :1 on *)
(*    IR or on the last bus address, stack, I/O by the four port patterns). *)
(*  - ContendedT(s): total extra delay = sum over cycles of Delay(t_i) for  *)
(*    contended addresses, t_{i+1} = t_i + delay_i + len_i.                 *)
(* Written from the contention tables of the comp.sys.sinclair FAQ /        *)
(* "Contended Memory" + "Contended I/O" sections, not from SkoolKit.        *)
(***************************************************************************)
EXTENDS Z80

Delay48(t) ==
  LET u == t - 14335 IN
  IF u < 0 \/ u >= 192 * 224 THEN 0
  ELSE LET pos == u % 224 IN IF pos >= 128 THEN 0 ELSE LET q == pos % 8 IN IF q < 6 THEN 6 - q ELSE 0
Delay128(t) ==
  LET u == t - 14361 IN
  IF u < 0 \/ u >= 192 * 228 THEN 0
  ELSE LET pos == u % 228 IN IF pos >= 128 THEN 0 ELSE LET q == pos % 8 IN IF q < 6 THEN 6 - q ELSE 0

\* s.m128 = 1: 128K frame layout; s.odd = 1: an odd (contended) RAM bank is paged at 0xC000
Delay(s, t) == IF s.m128 = 1 THEN Delay128(t % s.frame) ELSE Delay48(t % s.frame)
Contended(s, a) == (a >= 16384 /\ a < 32768) \/ (s.m128 = 1 /\ s.odd = 1 /\ a >= 49152)

Rep(a, n) == [i \in 1..n |-> <<a, 1>>]
C4(a) == << <<W16(a), 4>> >>
C3(a) == << <<W16(a), 3>> >>

\* I/O cycle patterns: N:4 | C:1,C:1,C:1,C:1 | N:1,C:3 | C:1,C:3  (C = a contended address, N = not)
IO(s, port) ==
  LET hiC == Contended(s, port)
      cA == 16384       \* any contended address
      nA == 0           \* any uncontended address
  IN IF port % 2 = 1
     THEN (IF hiC THEN << <<cA, 1>>, <<cA, 1>>, <<cA, 1>>, <<cA, 1>> >> ELSE << <<nA, 4>> >>)
     ELSE (IF hiC THEN << <<cA, 1>>, <<cA, 3>> >> ELSE << <<nA, 1>>, <<cA, 3>> >>)

MainBus(s, pc0, o, ix) ==
  LET r == s.r
      M(a) == MemAt(s.ov, W16(a))
      op == M(o)
      x == op \div 64  y == (op \div 8) % 8  z == op % 8  p == y \div 2  q == y % 2
      n1 == M(o + 1)  n2 == M(o + 2)  nn == n1 + (256 * n2)
      f == r[rF]  a == r[rA]
      hl == Pair(r, HLh(ix))
      ir == (r[rI] * 256) + r[rR]
      sp == r[rSP]
      pre == IF ix = 0 THEN <<>> ELSE C4(pc0)          \* prefix fetch
      F == pre \o C4(o)                                \* all opcode fetches
      o1 == W16(o + 1)  o2 == W16(o + 2)
      \* (HL) / (IX+d) operand access: displacement fetch + 5 internal cycles on it, then the address
      ma == IF ix = 0 THEN Pair(r, rH) ELSE W16(hl + Signed8(n1))
      dfetch == IF ix = 0 THEN <<>> ELSE C3(o1) \o Rep(o1, 5)
  IN
  CASE x = 0 /\ z = 0 /\ y < 2 -> F
    [] x = 0 /\ z = 0 /\ y = 2 -> F \o Rep(ir, 1) \o C3(o1) \o (IF (r[rB] - 1) % 256 # 0 THEN Rep(o1, 5) ELSE <<>>)
    [] x = 0 /\ z = 0 /\ y = 3 -> F \o C3(o1) \o Rep(o1, 5)
    [] x = 0 /\ z = 0 /\ y > 3 -> F \o C3(o1) \o (IF Cond(y - 4, f) THEN Rep(o1, 5) ELSE <<>>)
    [] x = 0 /\ z = 1 /\ q = 0 -> F \o C3(o1) \o C3(o2)
    [] x = 0 /\ z = 1 /\ q = 1 -> F \o Rep(ir, 7)
    [] x = 0 /\ z = 2 /\ p = 0 -> F \o C3(Pair(r, rB))
    [] x = 0 /\ z = 2 /\ p = 1 -> F \o C3(Pair(r, rD))
    [] x = 0 /\ z = 2 /\ p = 2 -> F \o C3(o1) \o C3(o2) \o C3(nn) \o C3(nn + 1)
    [] x = 0 /\ z = 2 /\ p = 3 -> F \o C3(o1) \o C3(o2) \o C3(nn)
    [] x = 0 /\ z = 3 -> F \o Rep(ir, 2)
    [] x = 0 /\ z \in {4, 5} /\ y # 6 -> F
    [] x = 0 /\ z \in {4, 5} /\ y = 6 -> F \o dfetch \o C3(ma) \o Rep(ma, 1) \o C3(ma)
    [] x = 0 /\ z = 6 /\ y # 6 -> F \o C3(o1)
    [] x = 0 /\ z = 6 /\ y = 6 ->
         IF ix = 0 THEN F \o C3(o1) \o C3(ma)
         ELSE F \o C3(o1) \o C3(o2) \o Rep(o2, 2) \o C3(ma)
    [] x = 0 /\ z = 7 -> F
    [] x = 1 /\ y = 6 /\ z = 6 -> pre \o C4(IF r[rHALT] = 1 THEN o + 1 ELSE o)    \* HaltFetchesNext
    [] x = 1 /\ (y = 6 \/ z = 6) -> F \o dfetch \o C3(ma)
    [] x = 1 -> F
    [] x = 2 /\ z = 6 -> F \o dfetch \o C3(ma)
    [] x = 2 -> F
    [] x = 3 /\ z = 0 -> F \o Rep(ir, 1) \o (IF Cond(y, f) THEN C3(sp) \o C3(sp + 1) ELSE <<>>)
    [] x = 3 /\ z = 1 /\ q = 0 -> F \o C3(sp) \o C3(sp + 1)
    [] x = 3 /\ z = 1 /\ q = 1 /\ p = 0 -> F \o C3(sp) \o C3(sp + 1)
    [] x = 3 /\ z = 1 /\ q = 1 /\ p = 1 -> F
    [] x = 3 /\ z = 1 /\ q = 1 /\ p = 2 -> F
    [] x = 3 /\ z = 1 /\ q = 1 /\ p = 3 -> F \o Rep(ir, 2)
    [] x = 3 /\ z = 2 -> F \o C3(o1) \o C3(o2)
    [] x = 3 /\ z = 3 /\ y = 0 -> F \o C3(o1) \o C3(o2)
    [] x = 3 /\ z = 3 /\ y \in {2, 3} -> F \o C3(o1) \o IO(s, n1 + (256 * a))
    [] x = 3 /\ z = 3 /\ y = 4 -> F \o C3(sp) \o C3(sp + 1) \o Rep(W16(sp + 1), 1) \o C3(sp + 1) \o C3(sp) \o Rep(sp, 2)
    [] x = 3 /\ z = 3 /\ y > 4 -> F
    [] x = 3 /\ z = 4 ->
         IF Cond(y, f) THEN F \o C3(o1) \o C3(o2) \o Rep(o2, 1) \o C3(sp - 1) \o C3(sp - 2)
         ELSE F \o C3(o1) \o C3(o2)
    [] x = 3 /\ z = 5 /\ q = 0 -> F \o Rep(ir, 1) \o C3(sp - 1) \o C3(sp - 2)
    [] x = 3 /\ z = 5 /\ q = 1 /\ p = 0 -> F \o C3(o1) \o C3(o2) \o Rep(o2, 1) \o C3(sp - 1) \o C3(sp - 2)
    [] x = 3 /\ z = 6 -> F \o C3(o1)
    [] x = 3 /\ z = 7 -> F \o Rep(ir, 1) \o C3(sp - 1) \o C3(sp - 2)

CBBus(s, pc0, ix) ==
  LET r == s.r
      M(a) == MemAt(s.ov, W16(a))
      op == IF ix = 0 THEN M(pc0 + 1) ELSE M(pc0 + 3)
      x == op \div 64  z == op % 8
      p1 == W16(pc0 + 1)  p2 == W16(pc0 + 2)  p3 == W16(pc0 + 3)
      hl == Pair(r, rH)
      ma == W16(Pair(r, HLh(ix)) + Signed8(M(pc0 + 2)))
  IN
  IF ix = 0 THEN
    (IF z # 6 THEN C4(pc0) \o C4(p1)
     ELSE IF x = 1 THEN C4(pc0) \o C4(p1) \o C3(hl) \o Rep(hl, 1)
     ELSE C4(pc0) \o C4(p1) \o C3(hl) \o Rep(hl, 1) \o C3(hl))
  ELSE
    (IF x = 1 THEN C4(pc0) \o C4(p1) \o C3(p2) \o C3(p3) \o Rep(p3, 2) \o C3(ma) \o Rep(ma, 1)
     ELSE C4(pc0) \o C4(p1) \o C3(p2) \o C3(p3) \o Rep(p3, 2) \o C3(ma) \o Rep(ma, 1) \o C3(ma))

EDBus(s, pc0) ==
  LET r == s.r
      M(a) == MemAt(s.ov, W16(a))
      op == M(pc0 + 1)
      x == op \div 64  y == (op \div 8) % 8  z == op % 8  q == y % 2
      nn == M(pc0 + 2) + (256 * M(pc0 + 3))
      hl == Pair(r, rH)  bc == Pair(r, rB)  de == Pair(r, rD)  sp == r[rSP]
      ir == (r[rI] * 256) + r[rR]
      F == C4(pc0) \o C4(pc0 + 1)
      p2 == W16(pc0 + 2)  p3 == W16(pc0 + 3)
      rep == y > 5
      bc2 == W16(bc - 1)
      b2 == (r[rB] - 1) % 256
  IN
  CASE x = 1 /\ z \in {0, 1} -> F \o IO(s, bc)
    [] x = 1 /\ z = 2 -> F \o Rep(ir, 7)
    [] x = 1 /\ z = 3 -> F \o C3(p2) \o C3(p3) \o C3(nn) \o C3(nn + 1)
    [] x = 1 /\ z = 5 -> F \o C3(sp) \o C3(sp + 1)
    [] x = 1 /\ z = 7 /\ y < 4 -> F \o Rep(ir, 1)
    [] x = 1 /\ z = 7 /\ y \in {4, 5} -> F \o C3(hl) \o Rep(hl, 4) \o C3(hl)
    [] x = 2 /\ z = 0 /\ y > 3 -> F \o C3(hl) \o C3(de) \o Rep(de, 2) \o (IF rep /\ bc2 # 0 THEN Rep(de, 5) ELSE <<>>)
    [] x = 2 /\ z = 1 /\ y > 3 ->
         F \o C3(hl) \o Rep(hl, 5) \o (IF rep /\ bc2 # 0 /\ (r[rA] - M(hl)) % 256 # 0 THEN Rep(hl, 5) ELSE <<>>)
    [] x = 2 /\ z = 2 /\ y > 3 -> F \o Rep(ir, 1) \o IO(s, bc) \o C3(hl) \o (IF rep /\ b2 # 0 THEN Rep(hl, 5) ELSE <<>>)
    [] x = 2 /\ z = 3 /\ y > 3 ->
         \* DontCare OtirInternalBC: the documents write the five extra cycles of a repeating OTIR/OTDR as
         \* "bc:1 x5" without saying whether B has been decremented yet; s.alt selects the reading
         \* (0: BC after the decrement, as on the port cycle; 1: BC before it)
         F \o Rep(ir, 1) \o C3(hl) \o IO(s, r[rC] + (256 * b2))
           \o (IF rep /\ b2 # 0 THEN Rep(IF s.alt = 1 THEN bc ELSE W16(r[rC] + (256 * b2)), 5) ELSE <<>>)
    [] OTHER -> F

Bus(s) ==
  LET pc == s.r[rPC]
      M(a) == MemAt(s.ov, W16(a))
      b0 == M(pc)
  IN
  CASE b0 = 203 -> CBBus(s, pc, 0)
    [] b0 = 237 -> EDBus(s, pc)
    [] b0 \in {221, 253} ->
         LET ix == IF b0 = 221 THEN 1 ELSE 2
             b1 == M(pc + 1)
         IN IF ~Indexable(b1) THEN C4(pc)
            ELSE IF b1 = 203 THEN CBBus(s, pc, ix)
            ELSE MainBus(s, pc, W16(pc + 1), ix)
    [] OTHER -> MainBus(s, pc, pc, 0)

SumLen(bus) == LET S[k \in 0..Len(bus)] == IF k = 0 THEN 0 ELSE S[k - 1] + bus[k][2] IN S[Len(bus)]

\* total wait-state delay of the instruction started at absolute time s.r[rT]
ContendedDelay(s) ==
  LET bus == Bus(s)
      D[k \in 0..Len(bus)] ==
        IF k = 0 THEN <<s.r[rT] % s.frame, 0>>
        ELSE LET tt == D[k - 1][1]
                 d == IF Contended(s, bus[k][1]) THEN Delay(s, tt) ELSE 0
             IN <<tt + d + bus[k][2], D[k - 1][2] + d>>
  IN D[Len(bus)][2]
=============================================================================
