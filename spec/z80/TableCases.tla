---------------------------- MODULE TableCases ----------------------------
(***************************************************************************)
(* Pattern D: TLC enumerates the complete index space of every 8-bit ALU / *)
(* flag table and looks the implementation's answer up in a dumped table.  *)
(* Tables[k] = [name, n (space size), data (n ints: result*256 + flags)].  *)
(* The dump comes from *executing* the corresponding instruction on each   *)
(* simulator for every index (the C tables are not exported) and from      *)
(* skoolkit.simtables directly.                                            *)
(***************************************************************************)
EXTENDS Z80, Json, IOUtils

Tables == JsonDeserialize(IOEnv.TABLES)

VARIABLES k, i, verdict

Pack(af) == (af[1] * 256) + af[2]
Hi1(i_) == i_ \div 65536
Mid(i_) == (i_ \div 256) % 256
Low(i_) == i_ % 256

AluY(name) == CASE name = "ADD" -> 0 [] name = "ADC" -> 1 [] name = "SUB" -> 2 [] name = "SBC" -> 3
                [] name = "AND" -> 4 [] name = "XOR" -> 5 [] name = "OR" -> 6 [] name = "CP" -> 7
AluYAA(name) == CASE name = "ADDAA" -> 0 [] name = "SUBAA" -> 2 [] name = "ANDAA" -> 4 [] name = "XORAA" -> 5
                  [] name = "ORAA" -> 6 [] name = "CPAA" -> 7
RotY(name) == CASE name = "RLC" -> 0 [] name = "RRC" -> 1 [] name = "RL" -> 2 [] name = "RR" -> 3
                [] name = "SLA" -> 4 [] name = "SRA" -> 5 [] name = "SLL" -> 6 [] name = "SRL" -> 7
AccY(name) == CASE name = "RLCA" -> 0 [] name = "RRCA" -> 1 [] name = "RLA" -> 2 [] name = "RRA" -> 3
                [] name = "DAA" -> 4 [] name = "CPL" -> 5 [] name = "SCF" -> 6 [] name = "CCF" -> 7

\* index layouts: 3-key tables (c, a, v); 2-key (a, v) / (c, v) / (f, a); 1-key (v)
Answer(name, j) ==
  CASE name \in {"ADC", "SBC"} -> Pack(Alu(AluY(name), Mid(j), Low(j), Hi1(j)))
    [] name \in {"ADD", "SUB", "AND", "XOR", "OR", "CP"} -> Pack(Alu(AluY(name), Mid(j), Low(j), 0))
    [] name \in {"ADCAA", "SBCAA"} -> Pack(Alu(IF name = "ADCAA" THEN 1 ELSE 3, Low(j), Low(j), Mid(j)))
    [] name \in {"ADDAA", "SUBAA", "ANDAA", "XORAA", "ORAA", "CPAA"} ->
         Pack(Alu(AluYAA(name), Low(j), Low(j), 0))
    [] name = "INC" -> ((Low(j) + 1) % 256) * 256 + IncF(Low(j), Mid(j))
    [] name = "DEC" -> ((Low(j) - 1) % 256) * 256 + DecF(Low(j), Mid(j))
    [] name \in {"RLC", "RRC", "RL", "RR", "SLA", "SRA", "SLL", "SRL"} -> Pack(Rot(RotY(name), Low(j), Mid(j)))
    [] name = "NEG" -> Pack(<<(0 - j) % 256, SubF(0, j, 0, FALSE)>>)
    [] name \in {"RLCA", "RRCA", "RLA", "RRA", "DAA", "CPL", "SCF", "CCF"} -> Pack(AccOp(AccY(name), Low(j), Mid(j)))
    [] name = "BIT" -> BitF(Mid(j) % 8, Low(j), Mid(j) \div 8)
    [] name = "SZ53P" -> SZ53P(j)
    [] name = "PARITY" -> IF EvenParity(j) THEN 4 ELSE 0

\* SCF/CCF: bits 5,3 are not fixed by the documents
Masked(name, v) == IF name \in {"SCF", "CCF"} THEN ((v \div 256) * 256) + And8(v % 256, 215) ELSE v

Init == /\ k \in 1..Len(Tables)
        /\ i \in 0..(Tables[k].n - 1)
        /\ verdict = "pending"
Next == /\ verdict = "pending"
        /\ verdict' = IF Masked(Tables[k].name, Tables[k].data[i + 1]) = Masked(Tables[k].name, Answer(Tables[k].name, i))
                      THEN "ok" ELSE "entry"
        /\ UNCHANGED <<k, i>>
        /\ (verdict' = "ok" \/ PrintT(<<"FAIL", (k * 1000000) + i, Tables[k].name>>))
=============================================================================
