---------------------------- MODULE StepCases ----------------------------
(***************************************************************************)
(* Pattern B (batch trace validation) for single instruction steps.        *)
(* Each case: one pre-state and what each simulator implementation did      *)
(* with it.  Judge compares every observation with Z80!Step and evaluates   *)
(* the C08 state invariants (ranges, ROM immutability, T monotone) on it.   *)
(* Verdict "ok" or "<impl>:<first failing clause>".                         *)
(***************************************************************************)
EXTENDS Z80, Json, IOUtils

Cases == JsonDeserialize(IOEnv.CASES)
Mode == IOEnv.MODE        \* "c05": semantics + invariants ; "c08": invariants only

VARIABLES tid, verdict

Regs8 == (1..12) \cup (15..24)
Compared == ((1..13) \ {rF}) \cup {15} \cup (17..24) \cup {rIFF, rIM, rHALT}

InRange(o) ==
  /\ \A i \in Regs8 : o.r[i] \in 0..255
  /\ o.r[rSP] \in 0..65535 /\ o.r[rPC] \in 0..65535 /\ o.r[rMEMPTR] \in 0..65535
  /\ o.r[rIFF] \in 0..1 /\ o.r[rIM] \in 0..2 /\ o.r[rHALT] \in 0..1
CellsInRange(o) == \A i \in 1..Len(o.wr) : o.wr[i][2] \in 0..255
\* 128K cases (harness/drivers/simdrv.py Impl128): pages that are not mapped in are reported at addresses >= 65536
\* (the other ROM first, then the hidden RAM banks); no instruction may touch them
RomImmutable(o) == \A i \in 1..Len(o.wr) : o.wr[i][1] > 16383 /\ ~(o.wr[i][1] >= 65536 /\ o.wr[i][1] < 98304)
OnlyMappedPages(o) == \A i \in 1..Len(o.wr) : o.wr[i][1] < 65536

Invariants(c, o) ==
  IF o.exc # "" THEN "exception"
  ELSE IF ~InRange(o) THEN "range"
  ELSE IF ~CellsInRange(o) THEN "cell-range"
  ELSE IF ~RomImmutable(o) THEN "rom-write"
  ELSE IF ~OnlyMappedPages(o) THEN "hidden-page-write"
  ELSE IF o.r[rT] < c.r[rT] THEN "t-decreased"
  ELSE "ok"

Semantics(c, e, o) ==
  IF \E i \in Compared : o.r[i] # e.r[i] THEN "regs"
  ELSE IF And8(o.r[rF], e.mask) # And8(e.r[rF], e.mask) THEN "flags"
  ELSE IF o.r[rPC] # e.r[rPC] THEN "pc"
  ELSE IF o.r[rR] # e.r[rR] THEN "r"
  ELSE IF o.r[rT] # e.r[rT] THEN "t"
  ELSE IF { <<o.wr[i][1], o.wr[i][2]>> : i \in 1..Len(o.wr) } # FinalWrites(c.ov, e.wr) THEN "mem"
  ELSE IF Len(o.io) # Len(e.io) THEN "io-count"
  ELSE IF \E i \in 1..Len(e.io) : o.io[i][1] # e.io[i][1] \/ o.io[i][2] # e.io[i][2]
                                  \/ (e.io[i][1] = "o" /\ o.io[i][3] # e.io[i][3]) THEN "io"
  ELSE "ok"

JudgeObs(c, e, o) ==
  LET i == Invariants(c, o) IN
  IF i # "ok" THEN i
  ELSE IF Mode = "c08" THEN "ok"
  ELSE Semantics(c, e, o)

Judge(c) ==
  LET s == [r |-> c.r, ov |-> c.ov, inv |-> c.inv, frame |-> c.frame, ia |-> c.ia, tA |-> -1]
      e == Step(s)
      bad == { k \in 1..Len(c.obs) : JudgeObs(c, e, c.obs[k]) # "ok" }
  IN IF bad = {} THEN "ok"
     ELSE LET k == CHOOSE k \in bad : \A j \in bad : k <= j IN c.obs[k].impl \o ":" \o JudgeObs(c, e, c.obs[k])

Init == tid \in 1..Len(Cases) /\ verdict = "pending"
Next == /\ verdict = "pending"
        /\ verdict' = Judge(Cases[tid])
        /\ UNCHANGED tid
        /\ (verdict' = "ok" \/ PrintT(<<"FAIL", tid, verdict'>>))
=============================================================================
