---------------------------- MODULE DelayTables ----------------------------
(***************************************************************************)
(* C19, pattern D: TLC enumerates every frame position of both machines    *)
(* and looks the wait-state delay up in tables dumped from the              *)
(* implementation: the DELAYS_48K / DELAYS_128K lists of the Python module, *)
(* and the delay *observed* on the Python and C contended simulators by     *)
(* running a NOP at a contended / uncontended address at every T.           *)
(* Tables[k] = [name, kind, n, data]; kind "48" | "128" | "zero".           *)
(***************************************************************************)
EXTENDS Z80Bus, Json, IOUtils

Tables == JsonDeserialize(IOEnv.TABLES)

VARIABLES k, t, verdict

Expected(kind, tt) == CASE kind = "48" -> Delay48(tt) [] kind = "128" -> Delay128(tt) [] kind = "zero" -> 0

\* structural facts of the documented pattern, checked on the specification's own functions for every t
PatternOK(kind, tt) ==
  LET d == Expected(kind, tt)
      first == IF kind = "48" THEN 14335 ELSE 14361
      line == IF kind = "48" THEN 224 ELSE 228
  IN kind = "zero" \/
     /\ d \in 0..6
     /\ (tt < first => d = 0)
     /\ (tt >= first + (192 * line) => d = 0)
     /\ (d > 0 => ((tt - first) % line) < 128)
     /\ (d > 1 => Expected(kind, tt + 1) = d - 1)         \* 6,5,4,3,2,1 count down to the next ULA fetch
     /\ (tt = first => d = 6)

Init == /\ k \in 1..Len(Tables)
        /\ t \in 0..(Tables[k].n - 1)
        /\ verdict = "pending"
Next == /\ verdict = "pending"
        /\ verdict' = IF ~PatternOK(Tables[k].kind, t) THEN "spec-pattern"
                      ELSE IF Tables[k].data[t + 1] = Expected(Tables[k].kind, t) THEN "ok" ELSE "entry"
        /\ UNCHANGED <<k, t>>
        /\ (verdict' = "ok" \/ PrintT(<<"FAIL", (k * 1000000) + t, verdict'>>))
=============================================================================
