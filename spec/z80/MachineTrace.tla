---------------------------- MODULE MachineTrace ----------------------------
(***************************************************************************)
(* Sequential trace validation of whole program runs (C06, C08).           *)
(* Traces[tid] = [pair, ints, frame, ia, inv, sem, r0, ov0, obs] where      *)
(* obs[l] = [r, wr, io, exc, r2, same2]: the state the first member of the  *)
(* implementation pair showed after instruction l (wr = diff of the whole   *)
(* address space), the partner's registers r2 and whether the partner's     *)
(* memory diff and port log were identical (same2).                         *)
(* Each step must be Z80!StepInt from the current state (when sem = 1) and  *)
(* both members must agree bit for bit.  r/ov are carried in TLC variables. *)
(***************************************************************************)
EXTENDS Z80Bus, Json, IOUtils

Traces == JsonDeserialize(IOEnv.CASES)

VARIABLES r, ov, tid, l, verdict
tvars == <<r, ov, tid, l, verdict>>

Regs8 == (1..12) \cup (15..24)
Compared == ((1..13) \ {rF}) \cup {15} \cup (17..24) \cup {rIFF, rIM, rHALT}

Range(o) ==
  /\ \A i \in Regs8 : o.r[i] \in 0..255
  /\ o.r[rSP] \in 0..65535 /\ o.r[rPC] \in 0..65535 /\ o.r[rMEMPTR] \in 0..65535
  /\ o.r[rIFF] \in 0..1 /\ o.r[rIM] \in 0..2 /\ o.r[rHALT] \in 0..1
  /\ \A i \in 1..Len(o.wr) : o.wr[i][2] \in 0..255

Sem(t, o, e, oo) ==
  IF \E i \in Compared : o.r[i] # e.r[i] THEN "regs"
  ELSE IF And8(o.r[rF], e.mask) # And8(e.r[rF], e.mask) THEN "flags"
  ELSE IF o.r[rPC] # e.r[rPC] THEN "pc"
  ELSE IF o.r[rR] # e.r[rR] THEN "r"
  ELSE IF o.r[rT] # e.r[rT] THEN "t"
  ELSE IF { <<o.wr[i][1], o.wr[i][2]>> : i \in 1..Len(o.wr) } # FinalWrites(oo, e.wr) THEN "mem"
  ELSE IF Len(o.io) # Len(e.io) THEN "io-count"
  ELSE IF \E i \in 1..Len(e.io) : o.io[i][1] # e.io[i][1] \/ o.io[i][2] # e.io[i][2]
                                  \/ (e.io[i][1] = "o" /\ o.io[i][3] # e.io[i][3]) THEN "io"
  ELSE "ok"

\* tsem = 1: T is predicted by the specification (plain simulators).
\* tsem = 0: contended pair on the 48K layout - the instruction ends at its uncontended duration plus the
\* ULA delay of Z80Bus!ContendedDelay (both readings of the OTIR/OTDR internal-cycle address are accepted);
\* interrupt acceptance then adds its 13/19 T as for the plain pair.
Clause(t, o, rr, oo) ==
  LET S(tA) == [r |-> rr, ov |-> oo, inv |-> t.inv, frame |-> t.frame, ia |-> t.ia, tA |-> tA]
      E(tA) == StepInt(S(tA), t.ints = 1)
      B(alt) == [r |-> rr, ov |-> oo, inv |-> t.inv, frame |-> t.frame, ia |-> t.ia, tA |-> -1, m128 |-> 0, odd |-> 0, alt |-> alt]
      base == Step(S(-1)).r[rT]
      cands == { base + ContendedDelay(B(0)), base + ContendedDelay(B(1)) }
  IN
  IF o.exc # "" THEN "exception"
  ELSE IF ~Range(o) THEN "range"
  ELSE IF \E i \in 1..Len(o.wr) : o.wr[i][1] < 16384 THEN "rom-write"
  ELSE IF o.r[rT] < rr[rT] THEN "t-decreased"
  \* traces recorded for C08 carry c08 = 1: only the state invariants above are judged (the partner's
  \* observation is judged by its own trace)
  ELSE IF "c08" \in DOMAIN t /\ t.c08 = 1 THEN "ok"
  ELSE IF o.r2 # o.r THEN "pair-regs"
  ELSE IF o.same2 # 1 THEN "pair-mem-io"
  ELSE IF t.sem = 0 THEN "ok"
  ELSE IF t.tsem = 1 THEN Sem(t, o, E(-1), oo)
  ELSE IF \E tA \in cands : Sem(t, o, E(tA), oo) = "ok" THEN "ok"
  ELSE Sem(t, o, E(base + ContendedDelay(B(0))), oo)

TraceInit ==
  /\ tid \in 1..Len(Traces)
  /\ l = 1 /\ verdict = "pending"
  /\ r = Traces[tid].r0 /\ ov = Traces[tid].ov0

TraceStep ==
  /\ verdict = "pending"
  /\ l <= Len(Traces[tid].obs)
  /\ LET t == Traces[tid]
         o == t.obs[l]
         c == Clause(t, o, r, ov)
     IN /\ verdict' = IF c # "ok" THEN c ELSE IF l = Len(t.obs) THEN "ok" ELSE "pending"
        /\ r' = o.r
        /\ ov' = ov \o o.wr
  /\ l' = l + 1
  /\ UNCHANGED tid
  /\ (verdict' \in {"ok", "pending"} \/ PrintT(<<"FAIL", (tid * 1000) + l, verdict'>>))

TraceSpec == TraceInit /\ [][TraceStep]_tvars
=============================================================================
