---------------------------- MODULE TapeFormats ----------------------------
(***************************************************************************)
(* Byte layouts of tape files -> abstract block lists.                      *)
(*   TAP : sequence of [length word][length bytes]                           *)
(*   TZX : "ZXTape!" 1A major minor, then [id byte][body] blocks (TZX 1.20)  *)
(*   PZX : [4 char tag][u32 size][size bytes] blocks, first one PZXT (1.0)   *)
(* bs is the file as Seq(0..255); offsets are 1-based.                       *)
(*                                                                         *)
(* A parsed block is [n, id, hasdata, data, reps, tm] where tm is the       *)
(* signal description (has = 0: the block plays nothing):                   *)
(*   [has, pulses, zero, one, pause, used, dr, tail, pol, err]               *)
(* Named deviations of SkoolKit from the documents are operators whose      *)
(* names start with Sk.                                                      *)
(***************************************************************************)
EXTENDS TapeSignal

Min(a, b) == IF a < b THEN a ELSE b
Sub(bs, i, n) == IF n <= 0 \/ i > Len(bs) THEN <<>> ELSE SubSeq(bs, i, Min(i + n - 1, Len(bs)))
At(bs, i) == IF i >= 1 /\ i <= Len(bs) THEN bs[i] ELSE 0       \* reading past the end of a truncated file
W(bs, i) == At(bs, i) + (256 * At(bs, i + 1))
W3(bs, i) == W(bs, i) + (65536 * At(bs, i + 2))
D31(bs, i) == W3(bs, i) + (16777216 * (At(bs, i + 3) % 128))    \* low 31 bits of a dword
Top(bs, i) == At(bs, i + 3) \div 128                             \* bit 31 of a dword

TM(has, pulses, zero, one, pause, used, dr, tail, pol, err) ==
  [has |-> has, pulses |-> pulses, zero |-> zero, one |-> one, pause |-> pause, used |-> used,
   dr |-> dr, tail |-> tail, pol |-> pol, err |-> err]
NoTM == TM(0, <<>>, <<>>, <<>>, 0, 8, 0, 0, NoPol, 0)
ErrTM == TM(1, <<>>, <<>>, <<>>, 0, 8, 0, 0, NoPol, 1)
PBlock(n, id, hasdata, data, reps, tm) == [n |-> n, id |-> id, hasdata |-> hasdata, data |-> data, reps |-> reps, tm |-> tm]

MsT == 3500                                      \* T-states per millisecond of pause

-----------------------------------------------------------------------------
(* ROM (standard speed) timings: TZX block 0x10, and what a TAP block means *)
\* ROM SA-BYTES / TZX 1.20: 8063 pilot pulses when the flag byte is < 128, else 3223
RomPilotCount(flag) == IF flag < 128 THEN 8063 ELSE 3223
\* Named deviation: SkoolKit plays the long pilot only for flag byte 0
SkPilotCount(flag) == IF flag = 0 THEN 8063 ELSE 3223
PilotCount(flag, dev) == IF dev = "sk" THEN SkPilotCount(flag) ELSE RomPilotCount(flag)
StdTM(flag, pause, dev) ==
  TM(1, << <<PilotCount(flag, dev), 2168>>, <<1, 667>>, <<1, 735>> >>, <<855, 855>>, <<1710, 1710>>, pause, 8, 0, 0, NoPol, 0)
\* Named deviation: a standard block without any byte is not played at all (SkEmptyStandardSkipped)
StdOrNothing(data, pause, dev) == IF Len(data) > 0 THEN StdTM(data[1], pause, dev) ELSE NoTM

-----------------------------------------------------------------------------
(* TAP *)
RECURSIVE TapFrom(_, _, _, _)
TapFrom(bs, i, n, dev) ==
  IF i + 1 > Len(bs) THEN <<>>
  ELSE LET len == W(bs, i)  data == Sub(bs, i + 2, len) IN
       <<PBlock(n, -1, 1, data, 0, StdOrNothing(data, 1000 * MsT, dev))>> \o TapFrom(bs, i + 2 + len, n + 1, dev)
ParseTap(bs, dev) == TapFrom(bs, 1, 1, dev)
\* offset just past the last block (for the truncation warnings), as a number of bytes
RECURSIVE TapEndFrom(_, _)
TapEndFrom(bs, i) == IF i + 1 > Len(bs) THEN i - 1 ELSE TapEndFrom(bs, i + 2 + W(bs, i))
\* 0: file ends with its last block, 1: one stray byte, 2: data bytes missing
TapWarning(bs) == LET e == TapEndFrom(bs, 1) IN IF e < Len(bs) THEN 1 ELSE IF e > Len(bs) THEN 2 ELSE 0
TapMissing(bs) == TapEndFrom(bs, 1) - Len(bs)

-----------------------------------------------------------------------------
(* TZX *)
TzxMagic == <<90, 88, 84, 97, 112, 101, 33, 26>>          \* "ZXTape!" 1A
IsTzx(bs) == Len(bs) >= 10 /\ SubSeq(bs, 1, 8) = TzxMagic

\* direct recording: one bit per sample, 1 = high; runs of equal samples are pulses; a recording that
\* starts high starts with a zero-length pulse
SampleBit(samples, used, k) == BitOf(samples[((k - 1) \div 8) + 1], (k - 1) % 8)
NSamples(samples, used) == IF Len(samples) = 0 THEN 0 ELSE (8 * (Len(samples) - 1)) + used
RECURSIVE DrRuns(_, _, _, _, _, _)
DrRuns(samples, used, tps, k, run, acc) ==
  IF k > NSamples(samples, used) THEN Append(acc, <<1, run * tps>>)
  ELSE IF SampleBit(samples, used, k) = SampleBit(samples, used, k - 1)
       THEN DrRuns(samples, used, tps, k + 1, run + 1, acc)
       ELSE DrRuns(samples, used, tps, k + 1, 1, Append(acc, <<1, run * tps>>))
DrPulses(samples, used, tps) ==
  IF NSamples(samples, used) = 0 THEN << <<1, 0>> >>
  ELSE DrRuns(samples, used, tps, 2, 1, IF SampleBit(samples, used, 1) = 1 THEN << <<1, 0>> >> ELSE <<>>)
\* Named deviation: the document fixes the level of a recording (0 = low); SkoolKit plays it relative to
\* whatever level the previous block left (SkRecordingRelative), i.e. without a stated level:
DrPol == NoPol

\* [next |-> offset of the next block, blk |-> parsed block, ok |-> id known]
TzxBlock(bs, i, n, dev) ==
  LET id == bs[i]  p == i + 1
      R(next, hasdata, data, reps, tm) == [next |-> next, ok |-> TRUE, blk |-> PBlock(n, id, hasdata, data, reps, tm)]
  IN CASE id = 16 -> LET len == W(bs, p + 2)  data == Sub(bs, p + 4, len) IN
                     R(p + 4 + len, 1, data, 0, StdOrNothing(data, W(bs, p) * MsT, dev))
       [] id = 17 -> LET len == W3(bs, p + 15)  data == Sub(bs, p + 18, len) IN
                     R(p + 18 + len, 1, data, 0,
                       TM(1, << <<W(bs, p + 10), W(bs, p)>>, <<1, W(bs, p + 2)>>, <<1, W(bs, p + 4)>> >>,
                          <<W(bs, p + 6), W(bs, p + 6)>>, <<W(bs, p + 8), W(bs, p + 8)>>,
                          W(bs, p + 13) * MsT, At(bs, p + 12), 0, 0, NoPol, 0))
       [] id = 18 -> R(p + 4, 0, <<>>, 0, TM(1, << <<W(bs, p + 2), W(bs, p)>> >>, <<>>, <<>>, 0, 8, 0, 0, NoPol, 0))
       [] id = 19 -> LET cnt == At(bs, p) IN
                     R(p + 1 + (2 * cnt), 0, <<>>, 0,
                       TM(1, [k \in 1..cnt |-> <<1, W(bs, p + 1 + (2 * (k - 1)))>>], <<>>, <<>>, 0, 8, 0, 0, NoPol, 0))
       [] id = 20 -> LET len == W3(bs, p + 7)  data == Sub(bs, p + 10, len) IN
                     R(p + 10 + len, 1, data, 0,
                       TM(1, <<>>, <<W(bs, p), W(bs, p)>>, <<W(bs, p + 2), W(bs, p + 2)>>,
                          W(bs, p + 5) * MsT, At(bs, p + 4), 0, 0, NoPol, 0))
       [] id = 21 -> LET len == W3(bs, p + 5)  samples == Sub(bs, p + 8, len) IN
                     R(p + 8 + len, 1, <<>>, 0,
                       TM(1, DrPulses(samples, At(bs, p + 4), W(bs, p)), <<>>, <<>>, W(bs, p + 2) * MsT, 8, 1, 0, DrPol, 0))
       [] id \in {22, 23, 24, 25} -> R(p + 4 + D31(bs, p), 0, <<>>, 0, ErrTM)    \* C64 / CSW / generalized data
       [] id = 32 -> R(p + 2, 0, <<>>, 0, TM(1, <<>>, <<>>, <<>>, W(bs, p) * MsT, 8, 0, 0, NoPol, 0))
       [] id = 33 -> R(p + 1 + At(bs, p), 0, <<>>, 0, NoTM)                       \* group start
       [] id = 34 -> R(p, 0, <<>>, 0, NoTM)                                       \* group end
       [] id = 35 -> R(p + 2, 0, <<>>, 0, NoTM)                                   \* jump
       [] id = 36 -> R(p + 2, 0, <<>>, W(bs, p), NoTM)                            \* loop start
       [] id = 37 -> R(p, 0, <<>>, 0, NoTM)                                       \* loop end
       [] id = 38 -> R(p + 2 + (2 * W(bs, p)), 0, <<>>, 0, NoTM)                  \* call sequence
       [] id = 39 -> R(p, 0, <<>>, 0, NoTM)                                       \* return
       [] id = 40 -> R(p + 2 + W(bs, p), 0, <<>>, 0, NoTM)                        \* select
       [] id = 42 -> R(p + 4, 0, <<>>, 0, NoTM)                                   \* stop if 48K
       [] id = 43 -> R(p + 5, 0, <<>>, 0, NoTM)                                   \* set signal level
       [] id = 48 -> R(p + 1 + At(bs, p), 0, <<>>, 0, NoTM)                       \* text description
       [] id = 49 -> R(p + 2 + At(bs, p + 1), 0, <<>>, 0, NoTM)                   \* message
       [] id = 50 -> R(p + 2 + W(bs, p), 0, <<>>, 0, NoTM)                        \* archive info
       [] id = 51 -> R(p + 1 + (3 * At(bs, p)), 0, <<>>, 0, NoTM)                 \* hardware type
       [] id = 52 -> R(p + 8, 0, <<>>, 0, NoTM)                                   \* emulation info
       [] id = 53 -> R(p + 20 + D31(bs, p + 16), 0, <<>>, 0, NoTM)                \* custom info
       [] id = 64 -> R(p + 4 + W3(bs, p + 1), 0, <<>>, 0, NoTM)                   \* snapshot
       [] id = 90 -> R(p + 9, 0, <<>>, 0, NoTM)                                   \* glue
       [] OTHER -> [next |-> Len(bs) + 1, ok |-> FALSE, blk |-> PBlock(n, id, 0, <<>>, 0, NoTM)]

RECURSIVE TzxFrom(_, _, _, _)
TzxFrom(bs, i, n, dev) ==
  IF i > Len(bs) THEN <<>>
  ELSE LET r == TzxBlock(bs, i, n, dev) IN <<r.blk>> \o TzxFrom(bs, r.next, n + 1, dev)
ParseTzx(bs, dev) == TzxFrom(bs, 11, 1, dev)
TzxIdsKnown(bs) == \A k \in 1..Len(ParseTzx(bs, "doc")) : ParseTzx(bs, "doc")[k].id \in
   {16, 17, 18, 19, 20, 21, 22, 23, 24, 25, 32, 33, 34, 35, 36, 37, 38, 39, 40, 42, 43, 48, 49, 50, 51, 52, 53, 64, 90}

\* loops: the blocks from a loop start to the next loop end are played reps times
RECURSIVE ExpandFrom(_, _, _, _, _)
ExpandFrom(blocks, i, inloop, loop, reps) ==
  IF i > Len(blocks) THEN <<>>
  ELSE LET b == blocks[i]
           starts == b.id = 36
           nowin == inloop \/ starts
           nloop == IF starts THEN <<b>> ELSE IF inloop THEN Append(loop, b) ELSE <<>>
           nreps == IF starts THEN b.reps ELSE reps
           RECURSIVE Times(_, _)
           Times(q, m) == IF m <= 0 THEN <<>> ELSE q \o Times(q, m - 1)
       IN IF ~nowin THEN <<b>> \o ExpandFrom(blocks, i + 1, FALSE, <<>>, 0)
          ELSE IF b.id = 37 THEN Times(nloop, nreps) \o ExpandFrom(blocks, i + 1, FALSE, <<>>, 0)
          ELSE ExpandFrom(blocks, i + 1, TRUE, nloop, nreps)
ExpandLoops(blocks) == ExpandFrom(blocks, 1, FALSE, <<>>, 0)

-----------------------------------------------------------------------------
(* PZX *)
Tag(a, b, c, d) == <<a, b, c, d>>
TagPZXT == Tag(80, 90, 88, 84)
TagPULS == Tag(80, 85, 76, 83)
TagDATA == Tag(68, 65, 84, 65)
TagPAUS == Tag(80, 65, 85, 83)
TagBRWS == Tag(66, 82, 87, 83)
TagSTOP == Tag(83, 84, 79, 80)
\* small integers standing for the tags in parsed blocks
TagCode(tag) == CASE tag = TagPZXT -> 1 [] tag = TagPULS -> 2 [] tag = TagDATA -> 3 [] tag = TagPAUS -> 4
                  [] tag = TagBRWS -> 5 [] tag = TagSTOP -> 6 [] OTHER -> 0
IsPzx(bs) == Len(bs) >= 8 /\ SubSeq(bs, 1, 4) = TagPZXT

\* PULS entries (pzx.txt): count = 1; d = u16; if d > 0x8000 then count = d & 0x7FFF, d = u16;
\* if d >= 0x8000 then d = ((d & 0x7FFF) << 16) | u16
RECURSIVE PulsFrom(_, _, _)
PulsFrom(bs, j, end) ==
  IF j > end THEN <<>>
  ELSE LET w1 == W(bs, j)
           rep == w1 > 32768
           cnt == IF rep THEN w1 - 32768 ELSE 1
           j2 == IF rep THEN j + 2 ELSE j
           w2 == W(bs, j2)
           long == w2 >= 32768
           dur == IF long THEN ((w2 - 32768) * 65536) + W(bs, j2 + 2) ELSE w2
           j3 == IF long THEN j2 + 4 ELSE j2 + 2
       IN << <<cnt, dur>> >> \o PulsFrom(bs, j3, end)

\* The document: a PULS block starts at low level. Named deviation (signal preserving): SkoolKit drops a
\* leading zero-length pulse with an odd count and starts the block high instead (SkPulsNormalise).
PulsDocTM(pulses) == TM(1, pulses, <<>>, <<>>, 0, 8, 0, 0, 0, 0)
SkPulsNormalise(tm) ==
  IF Len(tm.pulses) > 0 /\ tm.pulses[1][1] % 2 = 1 /\ tm.pulses[1][2] = 0
  THEN [tm EXCEPT !.pulses = SubSeq(@, 2, Len(@)), !.pol = 1] ELSE tm

PzxBlock(bs, i, n, norm) ==
  LET tag == Sub(bs, i, 4)  size == D31(bs, i + 4)  p == i + 8  end == i + 7 + size
      R(hasdata, data, tm) == [next |-> p + size, blk |-> PBlock(n, TagCode(tag), hasdata, data, 0, tm)]
  IN CASE tag = TagPULS -> LET tm == PulsDocTM(PulsFrom(bs, p, end)) IN R(0, <<>>, IF norm THEN SkPulsNormalise(tm) ELSE tm)
       [] tag = TagDATA -> LET bits == D31(bs, p)
                               p0 == At(bs, p + 6)  p1 == At(bs, p + 7)
                               s0 == [k \in 1..p0 |-> W(bs, p + 8 + (2 * (k - 1)))]
                               s1 == [k \in 1..p1 |-> W(bs, p + 8 + (2 * p0) + (2 * (k - 1)))]
                               d0 == p + 8 + (2 * (p0 + p1))
                               data == Sub(bs, d0, (bits + 7) \div 8)
                           IN R(1, data, TM(1, <<>>, s0, s1, 0, IF bits % 8 = 0 THEN 8 ELSE bits % 8, 0, W(bs, p + 4), Top(bs, p), 0))
       [] tag = TagPAUS -> R(0, <<>>, TM(1, <<>>, <<>>, <<>>, D31(bs, p), 8, 0, 0, Top(bs, p), 0))
       [] OTHER -> R(0, <<>>, NoTM)

RECURSIVE PzxFrom(_, _, _, _)
PzxFrom(bs, i, n, norm) ==
  IF i > Len(bs) THEN <<>>
  ELSE LET r == PzxBlock(bs, i, n, norm) IN <<r.blk>> \o PzxFrom(bs, r.next, n + 1, norm)
ParsePzx(bs, norm) == PzxFrom(bs, 1, 1, norm)

-----------------------------------------------------------------------------
(* from parsed blocks to the tape that is played *)

\* --tape-start / --tape-stop / --tape-skip: a filter on block numbers
Selected(blocks, start, stop, skip) ==
  SelectSeq(blocks, LAMBDA b : b.n >= start /\ (stop <= 0 \/ b.n < stop) /\ ~(\E k \in 1..Len(skip) : skip[k] = b.n))

Signal(b) == [pulses |-> b.tm.pulses, data |-> IF b.hasdata = 1 THEN b.data ELSE <<>>, zero |-> b.tm.zero, one |-> b.tm.one,
              used |-> b.tm.used, tail |-> b.tm.tail, pause |-> b.tm.pause, pol |-> b.tm.pol, dr |-> b.tm.dr]
Plays(b) == b.tm.has = 1 /\ b.tm.err = 0
\* fmt: "tap" | "tzx" | "pzx"
SignalBlocks(fmt, blocks) ==
  LET sel == SelectSeq(IF fmt = "tzx" THEN ExpandLoops(blocks) ELSE blocks, Plays) IN
  [k \in 1..Len(sel) |-> Signal(sel[k])]

Parse(fmt, bs, dev) == CASE fmt = "tap" -> ParseTap(bs, dev) [] fmt = "tzx" -> ParseTzx(bs, dev) [] fmt = "pzx" -> ParsePzx(bs, TRUE)

\* what tapinfo lists for a block: number, id (TZX id, PZX tag code, -1 for TAP), byte count or -1
InfoLine(fmt, b) == <<b.n, b.id, IF b.hasdata = 1 /\ ~(fmt = "tzx" /\ b.id = 21) THEN Len(b.data) ELSE -1>>

\* write_pzx (bin2tap): what a list of byte blocks becomes - PULS, DATA (tail 945, starts high), PAUS between
FlagOf(data) == IF Len(data) > 0 THEN data[1] ELSE 0          \* (a block without bytes: header-length pilot)
StdPzxOf(datas, dev) ==
  LET per(k) == (IF k > 1 THEN << TM(1, <<>>, <<>>, <<>>, 1000 * MsT, 8, 0, 0, 0, 0) >> ELSE <<>>)
                \o << [StdTM(FlagOf(datas[k]), 0, dev) EXCEPT !.zero = <<>>, !.one = <<>>, !.pol = 0],
                      TM(1, <<>>, <<855, 855>>, <<1710, 1710>>, 0, 8, 0, 945, 1, 0) >>
      RECURSIVE All(_)
      All(k) == IF k > Len(datas) THEN <<>> ELSE per(k) \o All(k + 1)
  IN All(1)
=============================================================================
