----------------------------- MODULE TapeAlpha ------------------------------
(***************************************************************************)
(* Bounded alphabets for model checking Tape.tla (pattern A).  Every block  *)
(* has a shape some tape file can express:                                  *)
(*   tone    TZX 0x12/0x13 (no level), PZX PULS (level 0/1)                  *)
(*   turbo   TZX 0x10/0x11: pilot + sync, bytes, two equal pulses per bit    *)
(*   pure    TZX 0x14: bytes only                                            *)
(*   rec     TZX 0x15: single pulses, flagged as a recording                 *)
(*   silence TZX 0x20 (no level), PZX PAUS (level 0/1)                       *)
(*   pzxdata PZX DATA: bytes, any two pulse sequences, tail, level           *)
(***************************************************************************)
EXTENDS Tape, Json, IOUtils

Blk(p, d, z, o, u, ta, pa, po, r) ==
  [pulses |-> p, data |-> d, zero |-> z, one |-> o, used |-> u, tail |-> ta, pause |-> pa, pol |-> po, dr |-> r]

Twice(S) == {<<a, a>> : a \in S}
Seqs12(S) == {<<a>> : a \in S} \cup {<<a, b>> : a \in S, b \in S}

Tone1(C, D, P) == {Blk(<< <<c, d>> >>, <<>>, <<>>, <<>>, 8, 0, 0, p, 0) : c \in C, d \in D, p \in P}
Tone2(C, D, E, P) == {Blk(<< <<c, d>>, <<1, e>> >>, <<>>, <<>>, <<>>, 8, 0, 0, p, 0) : c \in C, d \in D, e \in E, p \in P}
Turbo(C, D, Bytes, Z, O, U, W) ==
  {Blk(<< <<c, d>>, <<1, d>> >>, dat, z, o, u, 0, w, NoPol, 0) : c \in C, d \in D, dat \in Bytes, z \in Twice(Z), o \in Twice(O), u \in U, w \in W}
Pure(Bytes, Z, O, U, W) == {Blk(<<>>, dat, z, o, u, 0, w, NoPol, 0) : dat \in Bytes, z \in Twice(Z), o \in Twice(O), u \in U, w \in W}
Rec(D, E, W) == {Blk(<< <<1, d>>, <<1, e>> >>, <<>>, <<>>, <<>>, 8, 0, w, NoPol, 1) : d \in D, e \in E, w \in W}
Silence(W, P) == {Blk(<<>>, <<>>, <<>>, <<>>, 8, 0, w, p, 0) : w \in W, p \in P}
PzxData(Bytes, ZS, OS, U, T, P) == {Blk(<<>>, dat, z, o, u, ta, 0, p, 0) : dat \in Bytes, z \in ZS, o \in OS, u \in U, ta \in T, p \in P}

AnyPol == {NoPol, 0, 1}

\* Pattern C: the harness replays every tape of the bounded model into the real generator; it gets the
\* bounds from here (cfg: SPECIFICATION DumpSpec, environment variable ALPHA_OUT = file to write).
DumpInit == /\ Init
            /\ JsonSerialize(IOEnv.ALPHA_OUT, [alphabet |-> SX!SetToSeq(Alphabet), maxblocks |-> MaxBlocks,
                                               firstedges |-> SX!SetToSeq(FirstEdges), gpols |-> SX!SetToSeq(GPols)])
DumpSpec == DumpInit /\ [][FALSE]_vars
=============================================================================
