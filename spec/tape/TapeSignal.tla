---------------------------- MODULE TapeSignal ----------------------------
(***************************************************************************)
(* The signal a tape produces, written from the TZX 1.20 and PZX 1.0       *)
(* format documents (both define a tape as a sequence of pulses; the level  *)
(* of the signal toggles at the end of every pulse; PZX additionally lets   *)
(* every block state the level its first pulse has).                        *)
(*                                                                         *)
(* Abstract block (the common denominator of TAP, TZX 0x10-0x15/0x20 and    *)
(* PZX PULS/DATA/PAUS):                                                     *)
(*   pulses : Seq(<<count, duration>>)   tones / pulse sequences            *)
(*   data   : Seq(0..255)                bytes, most significant bit first   *)
(*   zero, one : Seq(Nat)                pulse durations encoding one bit    *)
(*   used   : 1..8                       bits used of the last byte          *)
(*   tail   : Nat                        extra pulse after the last bit      *)
(*   pause  : Nat                        silence after the block (T-states)  *)
(*   pol    : -1 | 0 | 1                 level of the block's first pulse    *)
(*                                       (-1: whatever the level is)        *)
(*   dr     : 0 | 1                      block is a sampled recording        *)
(*                                                                         *)
(* Part 1 is declarative: the signal as a list of <<level, duration>>       *)
(* segments and what an edge list means.  Part 2 is the generator as        *)
(* operators on a state record (the actions of Tape.tla); it uses the       *)
(* representation SkoolKit's players read: edges[1] is the start of the     *)
(* tape (a pseudo edge), the level between edges[k] and edges[k+1] is       *)
(* (k-1) % 2, a zero-length pulse is two edges at the same time.            *)
(***************************************************************************)
EXTENDS Integers, Sequences, TLC

NoPol == -1
Xor(a, b) == (a + b) % 2
Pow2(n) == CASE n = 0 -> 1 [] n = 1 -> 2 [] n = 2 -> 4 [] n = 3 -> 8 [] n = 4 -> 16
             [] n = 5 -> 32 [] n = 6 -> 64 [] n = 7 -> 128
BitOf(byte, k) == (byte \div Pow2(7 - k)) % 2            \* k = 0 is the most significant bit

Rep(n, x) == IF n <= 0 THEN <<>> ELSE [k \in 1..n |-> x]
\* left fold (evaluated iteratively by TLC: edge lists of real tapes are thousands of elements long, too
\* deep for recursive definitions): Fold(Op, base, <<x1, .., xn>>) = Op(.. Op(Op(base, x1), x2) .., xn)
SX == INSTANCE SequencesExt
Fold(Op(_, _), base, seq) == SX!FoldLeft(Op, base, seq)
Idx(n) == [i \in 1..n |-> i]
Sum(q) == Fold(LAMBDA a, x : a + x, 0, q)
HasZero(q) == \E i \in 1..Len(q) : q[i] = 0
Last(q) == q[Len(q)]
Front(q) == SubSeq(q, 1, Len(q) - 1)

HasData(b) == Len(b.data) > 0
HasPulses(b) == Len(b.pulses) > 0
\* a data block one of whose bit patterns contains a zero-length pulse carries samples, not bytes
SampleMode(b) == HasData(b) /\ (HasZero(b.zero) \/ HasZero(b.one))
NBits(b) == IF HasData(b) THEN (8 * (Len(b.data) - 1)) + b.used ELSE 0
BitAt(b, i) == BitOf(b.data[((i - 1) \div 8) + 1], (i - 1) % 8)
BitSeq(b) == [i \in 1..NBits(b) |-> BitAt(b, i)]          \* the block's bits, truncated to the used bits
BitDurs(b, bit) == IF bit = 1 THEN b.one ELSE b.zero

-----------------------------------------------------------------------------
(* Part 1: declarative signal *)

RECURSIVE FlatFrom(_, _)
FlatFrom(pulses, i) == IF i > Len(pulses) THEN <<>>
                       ELSE Rep(pulses[i][1], pulses[i][2]) \o FlatFrom(pulses, i + 1)
PulseDurs(b) == FlatFrom(b.pulses, 1)

DataDurs(b) == Fold(LAMBDA acc, i : acc \o BitDurs(b, BitAt(b, i)), <<>>, Idx(NBits(b)))
TailDurs(b) == IF HasData(b) /\ b.tail > 0 THEN <<b.tail>> ELSE <<>>

\* all pulses of a block in order, tagged: "p" tone/pulse, "d" data, "t" tail
BlockDurs(b) == PulseDurs(b) \o DataDurs(b) \o TailDurs(b)
BlockKinds(b) == Rep(Len(PulseDurs(b)), "p") \o Rep(Len(DataDurs(b)), "d") \o Rep(Len(TailDurs(b)), "t")

\* Segments <<level, duration, kind>> of the whole tape. L is the level at which the next pulse
\* would be played; a block with a stated level overrides it; a pause ("w") holds the level it is
\* given (PZX PAUS) or the current one and does not toggle it. The pause of the last block is not
\* played. gpol inverts every stated level (the player's polarity option).
RECURSIVE SegsFrom(_, _, _, _)
SegsFrom(blocks, i, L, gpol) ==
  IF i > Len(blocks) THEN <<>>
  ELSE LET b == blocks[i]
           durs == BlockDurs(b)
           kinds == BlockKinds(b)
           L0 == IF b.pol # NoPol /\ Len(durs) > 0 THEN Xor(b.pol, gpol) ELSE L
           Lend == Xor(L0, Len(durs) % 2)
           paused == i < Len(blocks) /\ b.pause > 0
           Lp == IF paused /\ b.pol # NoPol THEN Xor(b.pol, gpol) ELSE Lend
       IN [k \in 1..Len(durs) |-> <<Xor(L0, (k - 1) % 2), durs[k], kinds[k]>>]
          \o (IF paused THEN << <<Lp, b.pause, "w">> >> ELSE <<>>)
          \o SegsFrom(blocks, i + 1, Lp, gpol)

\* the tape starts low, first_edge T-states later its first block starts at level gpol
TapeSegs(blocks, fe, gpol) == << <<0, fe, "w">> >> \o SegsFrom(blocks, 1, gpol % 2, gpol % 2)

\* Named deviation (SkoolKit): when nothing but silence at an unchanged level follows the last tail
\* pulse of the tape, that tail pulse is never ended (its closing edge is dropped).
LastTail(segs) == IF \E k \in 1..Len(segs) : segs[k][3] = "t"
                  THEN CHOOSE k \in 1..Len(segs) : segs[k][3] = "t" /\ \A j \in (k + 1)..Len(segs) : segs[j][3] # "t"
                  ELSE 0
FinalTailDropped(segs) ==
  LET k == LastTail(segs) IN
  k > 0 /\ \A j \in (k + 1)..Len(segs) : segs[j][3] = "w" /\ segs[j][1] = 1 - segs[k][1]
\* (when nothing of positive length but silence follows the last tail pulse - only zero-length pulses - whether
\* its closing edge is dropped depends on the bookkeeping of the generator; the specification then allows both)
FinalTailEither(segs) ==
  LET k == LastTail(segs) IN
  k > 0 /\ ~FinalTailDropped(segs) /\ \A j \in (k + 1)..Len(segs) : segs[j][2] = 0 \/ segs[j][3] = "w"
\* the open tail pulse still begins (a change of level delimits what precedes it) but has no length
OpenTail(segs) == LET k == LastTail(segs) IN Append(SubSeq(segs, 1, k - 1), <<segs[k][1], 0, "t">>)
FiniteSegs(segs) == IF FinalTailDropped(segs) THEN OpenTail(segs) ELSE segs
\* level at which block i starts unless it states one (i = Len(blocks) + 1: level the tape ends at)
RECURSIVE EntryLevel(_, _, _)
EntryLevel(blocks, i, gpol) ==
  IF i = 1 THEN gpol % 2
  ELSE LET b == blocks[i - 1]
           n == Len(BlockDurs(b))
           L0 == IF b.pol # NoPol /\ n > 0 THEN Xor(b.pol, gpol) ELSE EntryLevel(blocks, i - 1, gpol)
       IN IF (i - 1) < Len(blocks) /\ b.pause > 0 /\ b.pol # NoPol THEN Xor(b.pol, gpol) ELSE Xor(L0, n % 2)
FinalLevel(blocks, segs, gpol) == IF FinalTailDropped(segs) THEN segs[LastTail(segs)][1]
                                  ELSE EntryLevel(blocks, Len(blocks) + 1, gpol)

\* canonical form: zero-length segments vanish, neighbours at the same level merge
CanonStep(acc, s) ==
  IF s[2] = 0 THEN acc
  ELSE IF Len(acc) > 0 /\ Last(acc)[1] = s[1] THEN [acc EXCEPT ![Len(acc)] = <<s[1], @[2] + s[2]>>]
  ELSE Append(acc, <<s[1], s[2]>>)
Canon(segs) == Fold(CanonStep, <<>>, segs)

\* what an edge list means
EdgeSegs(edges) == << <<0, edges[1], "w">> >> \o [k \in 1..(Len(edges) - 1) |-> <<(k - 1) % 2, edges[k + 1] - edges[k], "p">>]
EdgeFinalLevel(edges) == (Len(edges) - 1) % 2
Monotone(edges) == \A k \in 1..(Len(edges) - 1) : edges[k] <= edges[k + 1]

\* the signal the tape specifies (finite part) and the one an edge list plays
\* Which part of the specified signal an edge list can show: silence is delimited only by a later change of
\* level; a pulse of no length (a blip: zero-length pulse of sample data, of a tone, or an open tail pulse) is a
\* change of level that lasts no time.  So trailing blips and the trailing silence at one level are not part of
\* what is compared; the leading silence always is.
Blip(s) == s[2] = 0 /\ s[3] # "w"
\* (an open tail pulse - see OpenTail - delimits what precedes it only if that is at another level)
IsOpenTail(s) == s[3] = "t" /\ s[2] = 0
\* segs without its longest tail of segments satisfying Gone (the first segment, the leading silence, stays)
DropTail(segs, Gone(_)) == LET k == SX!SelectLastInSeq(segs, LAMBDA s : ~Gone(s)) IN SubSeq(segs, 1, IF k < 1 THEN 1 ELSE k)
DropBlips(segs) == DropTail(segs, Blip)
TrimLevel(segs, lv) == DropTail(segs, LAMBDA s : Blip(s) \/ (s[3] = "w" /\ s[1] = lv))
TrimSilence(segs) == IF Len(segs) > 1 /\ IsOpenTail(Last(segs)) THEN TrimLevel(Front(segs), Last(segs)[1])
                     ELSE LET s1 == DropBlips(segs) IN TrimLevel(s1, Last(s1)[1])
PlayedSignal(edges) == Canon(EdgeSegs(edges))

\* Blips within the silence the tape ends with: whether the silence before such a blip counts as delimited is
\* not specified (SkoolKit shows an edge when the block states a level other than the one its edge list shows or
\* when the blip is a tone pulse, none when the level is implied or the blip is the leading zero-length pulse
\* by which a PZX pulse block says "starts high"): then an edge list may expose any part of the trailing silence.
BlipTail(segs) == LET k == SX!SelectLastInSeq(segs, LAMBDA s : ~(Blip(s) \/ s[3] = "w")) IN       \* the last pulse of some length
                  k < Len(segs) /\ SX!SelectInSubSeq(segs, k + 1, Len(segs), LAMBDA s : Blip(s) /\ ~IsOpenTail(s)) # 0
\* p is an initial part of q: all segments but the last equal, the last at the same level and not longer
SigPrefix(p, q) == \/ Len(p) = 0
                   \/ /\ Len(p) <= Len(q) /\ \A j \in 1..(Len(p) - 1) : p[j] = q[j]
                      /\ p[Len(p)][1] = q[Len(p)][1] /\ p[Len(p)][2] <= q[Len(p)][2]
SignalVariants(segs) == IF FinalTailEither(segs) THEN {segs, OpenTail(segs)} ELSE {FiniteSegs(segs)}
\* "contains exactly the pulses the blocks specify"
SignalIs(played, segs) ==
  \E v \in SignalVariants(segs) :
     \/ played = Canon(TrimSilence(v))
     \/ BlipTail(v) /\ SigPrefix(Canon(TrimSilence(v)), played) /\ SigPrefix(played, Canon(v))
SignalOK(edges, blocks, fe, gpol) == SignalIs(PlayedSignal(edges), TapeSegs(blocks, fe, gpol))
\* two descriptions of one tape: what the second one specifies is something the first one allows
SameTape(decl, shaped, fe, gpol) ==
  \E v \in SignalVariants(TapeSegs(shaped, fe, gpol)) : SignalIs(Canon(TrimSilence(v)), TapeSegs(decl, fe, gpol))

\* time at which segment k of segs starts
StartOf(segs, k) == Sum([j \in 1..(k - 1) |-> segs[j][2]])

\* index (into TapeSegs) of the first segment of block i, and per-block facts
RECURSIVE FirstSegOf(_, _)
FirstSegOf(blocks, i) ==       \* 1 + number of segments before block i (incl. the leading silence)
  IF i = 1 THEN 2
  ELSE FirstSegOf(blocks, i - 1) + Len(BlockDurs(blocks[i - 1]))
       + (IF blocks[i - 1].pause > 0 THEN 1 ELSE 0)          \* i-1 < Len(blocks) here

\* decoding: measure the distances between consecutive edges a..b (1-based) and read them as bits
Prefix(p, q) == Len(p) <= Len(q) /\ \A j \in 1..Len(p) : p[j] = q[j]
Decodable(zero, one) == Len(zero) > 0 /\ Len(one) > 0 /\ ~HasZero(zero) /\ ~HasZero(one)
                        /\ ~Prefix(zero, one) /\ ~Prefix(one, zero)
\* from edge a on: the pulses of a one bit -> 1, of a zero bit -> 0, anything else -> -1 and stop; done at edge b
BitsFromEdges(edges, a, b, zero, one) ==
  IF a > b THEN <<-1>>
  ELSE LET M(q, p) == p + Len(q) <= b /\ \A j \in 1..Len(q) : edges[p + j] - edges[p + j - 1] = q[j]
           Step(s, i) == IF s.p = b \/ s.bad THEN s
                         ELSE IF M(one, s.p) THEN [s EXCEPT !.p = @ + Len(one), !.acc = Append(@, 1)]
                         ELSE IF M(zero, s.p) THEN [s EXCEPT !.p = @ + Len(zero), !.acc = Append(@, 0)]
                         ELSE [s EXCEPT !.bad = TRUE, !.acc = Append(@, -1)]
       IN Fold(Step, [p |-> a, acc |-> <<>>, bad |-> FALSE], Idx(b - a)).acc      \* every bit takes at least one edge

-----------------------------------------------------------------------------
(* Part 2: the generator.  State record:                                     *)
(*   t      current time                                                     *)
(*   edges  edge times so far (edges[1] = start of tape)                     *)
(*   ranges <<block number, start, end, byte data?>> per data block, 0-based *)
(*          indices into edges as the players use them                       *)
(*   mis    1 iff zero-length pulses have left the real level opposite to    *)
(*          the level the edge list shows after its last edge                *)
(*   tl     1 iff the last edge is the closing edge of a tail pulse          *)
(*   tm     how far that tail pulse moved an existing edge (0: it added one)  *)

S0(fe, gpol) == [t |-> fe, edges |-> IF gpol % 2 = 1 THEN <<fe, fe>> ELSE <<fe>>,
                 ranges |-> <<>>, mis |-> 0, tl |-> 0, tm |-> 0]
ListLevel(s) == (Len(s.edges) - 1) % 2
Level(s) == Xor(ListLevel(s), s.mis)
LastIdx(s) == Len(s.edges) - 1                       \* 0-based index of the last edge

\* a block that states its level gets it: an edge now, unless the edge list already shows that level
Settle(s) == IF s.mis = 0 THEN s ELSE [s EXCEPT !.edges = Append(@, s.t), !.mis = 0, !.tl = 0]
PolarityAdjust(s, b, gpol) ==
  IF b.pol = NoPol THEN Settle(s)      \* (no file format can follow sample data by a block without a level)
  ELSE IF ListLevel(s) # Xor(b.pol, gpol)
       THEN [s EXCEPT !.edges = Append(@, s.t), !.mis = 0, !.tl = 0]
       ELSE [s EXCEPT !.mis = 0]

\* n pulses of d T-states (n = 1: a single pulse); zero-length pulses are kept as double edges
Tone(s, n, d) ==
  IF n <= 0 THEN s
  ELSE [s EXCEPT !.t = s.t + (n * d), !.edges = @ \o [k \in 1..n |-> s.t + (k * d)], !.tl = 0]

\* one pulse played at the real level, zero-length pulses merged away (sample data)
VPulse(s, d) ==
  IF d = 0 THEN [s EXCEPT !.mis = 1 - @]
  ELSE IF s.mis = 0 THEN [s EXCEPT !.t = s.t + d, !.edges = Append(@, s.t + d), !.tl = 0]
  ELSE IF Len(s.edges) >= 2 /\ Last(s.edges) = s.t
       THEN \* the level before the last edge simply lasts longer
            [s EXCEPT !.t = s.t + d, !.edges = [@ EXCEPT ![Len(@)] = s.t + d], !.mis = 0, !.tl = 0]
       ELSE [s EXCEPT !.t = s.t + d, !.edges = @ \o <<s.t, s.t + d>>, !.mis = 0, !.tl = 0]
RECURSIVE VPulses(_, _, _)
VPulses(s, q, j) == IF j > Len(q) THEN s ELSE VPulses(VPulse(s, q[j]), q, j + 1)

RECURSIVE TimesFrom(_, _, _)
TimesFrom(t0, q, j) == IF j > Len(q) THEN <<>> ELSE <<t0 + q[j]>> \o TimesFrom(t0 + q[j], q, j + 1)

\* the pulses of one bit
DataBit(s, b, bit) ==
  LET q == BitDurs(b, bit) IN
  IF SampleMode(b) THEN VPulses(s, q, 1)
  ELSE IF Len(q) = 0 THEN s
  ELSE [s EXCEPT !.t = s.t + Sum(q), !.edges = @ \o TimesFrom(s.t, q, 1), !.tl = 0]

TailPulse(s, b) ==
  IF ~HasData(b) \/ b.tail = 0 THEN s
  ELSE IF SampleMode(b)
       THEN LET v == VPulse(s, b.tail) IN
            [v EXCEPT !.tl = 1, !.tm = IF Len(v.edges) = Len(s.edges) THEN b.tail ELSE 0]
       ELSE [s EXCEPT !.t = s.t + b.tail, !.edges = Append(@, s.t + b.tail), !.tl = 1, !.tm = 0]

\* the range reported for block number n whose data started after 0-based edge index st
MarkData(s, b, n, st) ==
  IF SampleMode(b) THEN [s EXCEPT !.ranges = Append(@, <<n, LastIdx(s), LastIdx(s), 0>>)]
  ELSE [s EXCEPT !.ranges = Append(@, <<n, st, LastIdx(s), 1>>)]
\* a block without bytes is reported (so that its pulses get played) when it is a recording or the
\* last block of the tape
MarkPulses(s, n) == [s EXCEPT !.ranges = Append(@, <<n, LastIdx(s), LastIdx(s), 0>>)]

Pause(s, b, gpol) ==
  IF b.pause = 0 THEN s ELSE [PolarityAdjust(s, b, gpol) EXCEPT !.t = @ + b.pause]

\* Named deviation: DropTailEdge (see FinalTailDropped)
DropTailEdge(s) ==
  IF s.tl = 0 THEN s
  ELSE IF s.tm > 0 THEN [s EXCEPT !.edges = [@ EXCEPT ![Len(@)] = @ - s.tm], !.tl = 0, !.tm = 0, !.mis = 1]
  ELSE LET m == Len(s.edges) - 2
           Clip(r) == <<r[1], IF r[2] > m THEN m ELSE r[2], IF r[3] > m THEN m ELSE r[3], r[4]>> IN
       \* (every range that points at the dropped edge: the blocks after the one with the tail may have added no edge)
       [s EXCEPT !.edges = Front(@), !.tl = 0, !.ranges = [k \in 1..Len(@) |-> Clip(@[k])]]
\* (SkoolKit clips the range of the last data block only: an earlier range can be left pointing past the list)

\* ---- folds of the actions (used to judge recorded edge lists)
RECURSIVE TonesFrom(_, _, _)
TonesFrom(s, pulses, j) == IF j > Len(pulses) THEN s ELSE TonesFrom(Tone(s, pulses[j][1], pulses[j][2]), pulses, j + 1)
BitsFrom(s, b, i) == Fold(LAMBDA st, j : DataBit(st, b, BitAt(b, j)), s, [j \in 1..(NBits(b) - i + 1) |-> i + j - 1])

RunBlock(s, b, n, islast, gpol) ==
  LET s1 == IF HasPulses(b) THEN TonesFrom(PolarityAdjust(s, b, gpol), b.pulses, 1) ELSE s
      s2 == IF HasData(b)
            THEN LET a == PolarityAdjust(s1, b, gpol) IN MarkData(TailPulse(BitsFrom(a, b, 1), b), b, n, LastIdx(a))
            ELSE IF b.dr = 1 \/ (islast /\ HasPulses(b)) THEN MarkPulses(s1, n)
            ELSE s1
  IN IF islast THEN s2 ELSE Pause(s2, b, gpol)

RECURSIVE RunFrom(_, _, _, _)
RunFrom(s, blocks, i, gpol) ==
  IF i > Len(blocks) THEN s ELSE RunFrom(RunBlock(s, blocks[i], i, i = Len(blocks), gpol), blocks, i + 1, gpol)
RunTape(blocks, fe, gpol) == DropTailEdge(RunFrom(S0(fe, gpol), blocks, 1, gpol))

-----------------------------------------------------------------------------
(* Part 3: the clauses of the property, as predicates on (tape, edge list, reported ranges).   *)
(* ranges: Seq(<<start, end, bytes?, data length>>), 0-based indices as reported.               *)

\* the blocks that get a range, in order
RangedBlocks(blocks) ==
  SelectSeq([i \in 1..Len(blocks) |-> i],
            LAMBDA i : HasData(blocks[i]) \/ blocks[i].dr = 1 \/ (i = Len(blocks) /\ HasPulses(blocks[i])))

\* per-block facts read off the declarative segments (segs = TapeSegs(blocks, fe, gpol))
DataSeg(blocks, i) == FirstSegOf(blocks, i) + Len(PulseDurs(blocks[i]))      \* index of the first data segment
DataStartTime(blocks, segs, i) == StartOf(segs, DataSeg(blocks, i))
DataEndTime(blocks, segs, i) == DataStartTime(blocks, segs, i) + Sum(DataDurs(blocks[i]))
\* is block i the one whose tail pulse is left open at the end of the tape?
TailOpen(blocks, segs, i) ==
  /\ HasData(blocks[i]) /\ blocks[i].tail > 0
  /\ FinalTailDropped(segs)
  /\ LastTail(segs) = FirstSegOf(blocks, i) + Len(BlockDurs(blocks[i])) - 1

\* "ok" or the name of the first clause of the property that (edges, ranges) break
RangeClause(blocks, fe, gpol, edges, ranges) ==
  LET rb == RangedBlocks(blocks)
      segs == TapeSegs(blocks, fe, gpol)
      n == Len(edges)
      Bad(k) ==
        LET i == rb[k]  b == blocks[i]  r == ranges[k]  st == r[1] + 1  en == r[2] + 1
            t0 == DataStartTime(blocks, segs, i) IN
        IF r[1] < 0 \/ r[2] < r[1] \/ en > n THEN "range-bounds"
        ELSE IF r[4] # Len(b.data) THEN "range-block"
        ELSE IF HasData(b) /\ ~SampleMode(b) THEN
          LET open == TailOpen(blocks, segs, i)
              dd == DataDurs(b)
              t1 == t0 + Sum(dd)
              dend == IF b.tail > 0 /\ ~open THEN en - 1 ELSE en IN
          IF r[3] # 1 THEN "range-kind"
          \* start: the last edge not after the start of the data (silence before the data at the level of its
          \* first pulse leaves no edge at the start itself), at the level of the first data pulse
          ELSE IF edges[st] > t0 \/ (st < n /\ edges[st + 1] < t0)
                  \/ (Len(dd) > 0 /\ (st - 1) % 2 # segs[DataSeg(blocks, i)][1]) THEN "range-start"
          \* (sample data later on the tape may start with a zero-length pulse and thereby lengthen the last
          \* pulse of this block: then nothing is claimed about where this block's data ends)
          ELSE IF \E j \in (i + 1)..Len(blocks) : SampleMode(blocks[j]) THEN "ok"
          ELSE IF dend < st \/ edges[dend] # t1 THEN "range-end"
          ELSE IF b.tail > 0 /\ ~open /\ edges[en] # t1 + b.tail THEN "range-tail"
          ELSE IF Decodable(b.zero, b.one) /\ BitsFromEdges([edges EXCEPT ![st] = t0], st, dend, b.zero, b.one) # BitSeq(b) THEN "bits"
          ELSE "ok"
        ELSE \* samples / recording / trailing pulses: the range is the last edge played so far
          LET te == IF HasData(b) THEN t0 + Sum(DataDurs(b)) + b.tail ELSE t0 IN
          IF r[3] # 0 \/ r[1] # r[2] THEN "range-kind"
          ELSE IF \E j \in (i + 1)..Len(blocks) : SampleMode(blocks[j]) THEN "ok"
          ELSE IF edges[en] > te \/ (en < n /\ edges[en + 1] < te) THEN "range-last"
          ELSE "ok"
      RECURSIVE FirstBad(_)
      FirstBad(k) == IF k > Len(rb) THEN "ok" ELSE LET v == Bad(k) IN IF v # "ok" THEN v ELSE FirstBad(k + 1)
  IN IF Len(ranges) # Len(rb) THEN "range-count" ELSE FirstBad(1)

\* decl: the tape as the format documents describe it; shaped: the same signal as the player's front end shapes
\* it (which blocks without bytes get a range is the player's convention, so ranges are judged on that shape)
PropertyClause(decl, shaped, fe, gpol, edges, ranges) ==
  IF Len(edges) = 0 THEN "no-edges"
  ELSE IF ~Monotone(edges) THEN "monotone"
  ELSE IF ~SignalOK(edges, decl, fe, gpol) THEN "pulses"
  ELSE RangeClause(shaped, fe, gpol, edges, ranges)

\* the same ranges in the generator's format <<n, start, end, bytes?>> -> <<start, end, bytes?, len>>
RangesOf(s, blocks) == [k \in 1..Len(s.ranges) |-> <<s.ranges[k][2], s.ranges[k][3], s.ranges[k][4], Len(blocks[s.ranges[k][1]].data)>>]
=============================================================================
