------------------------------ MODULE TapeMC3 ------------------------------
(* quick: every tape of up to 3 blocks over 15 blocks *)
EXTENDS TapeAlpha
AlphabetMC ==
  Tone1({1}, {0, 3}, AnyPol) \cup Tone1({2}, {3}, {NoPol})
  \cup Pure({<<165>>}, {1}, {3}, {3}, {0, 7})
  \cup Silence({7}, {NoPol, 0})
  \cup PzxData({<<165>>}, {<<3, 0>>}, {<<0, 3>>}, {2}, {0, 5}, {1})
  \cup PzxData({<<165>>}, {<<1>>}, {<<3>>}, {2}, {5}, {0, 1})
=============================================================================
