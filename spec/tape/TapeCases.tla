----------------------------- MODULE TapeCases -----------------------------
(***************************************************************************)
(* Judge for what the real code was seen to do (patterns B and C).          *)
(*                                                                         *)
(* kind "edges": blocks (abstract, TapeSignal), fe, gpol; the edge list the  *)
(*   real get_edges returned as first edge + run-length encoded deltas       *)
(*   (runs = <<delta, count>>...); the DataBlock ranges <<start, end,        *)
(*   fast_load, data length>>; exc = 1 when get_edges raised; expect = final *)
(*   edge list of the Tape.tla behaviour the case replays (pattern C) or <<>> *)
(* kind "files": one logical tape as one or more files. Per file: format,    *)
(*   the RAW bytes, start/stop/skip, what the real parser returned (parsed), *)
(*   the TAP warning, what tapinfo listed (info), the edges of the real      *)
(*   tapinfo -a pipeline (sig), the byte blocks given to the real writer     *)
(*   that made the file (wdata, writer; wexc = 1: the writer raised).        *)
(*   same = 1: all files must give the same edge list.                       *)
(*   same = 2: skoolkit's own writers: same pilot tones, no excuse.          *)
(* Verdict: "ok", the first clause that fails, or "drift-..." when only      *)
(* something the property does not speak about differs.                      *)
(***************************************************************************)
EXTENDS TapeFormats, Json, IOUtils

Cases == JsonDeserialize(IOEnv.CASES)

RunsToEdges(first, runs) == Fold(LAMBDA acc, r : acc \o [k \in 1..r[2] |-> Last(acc) + (k * r[1])], <<first>>, runs)

\* decl: the tape as the documents describe it; gen: the same tape as SkoolKit shapes it (equal signal).
\* The signal clauses are judged against decl. Which blocks without bytes get a range is SkoolKit's own
\* convention (a range makes its player read the pulses), so the ranges are judged against gen.
JudgeEdges(decl, gen, fe, gpol, edges, ranges, expect) ==
  LET gp == gpol % 2
      v == PropertyClause(decl, gen, fe, gp, edges, ranges)
      s == RunTape(gen, fe, gp)
  IN IF decl # gen /\ ~SameTape(decl, gen, fe, gp) THEN "machinery-shape"
     ELSE IF v # "ok" THEN v
     ELSE IF Len(expect) > 0 /\ expect # s.edges THEN "machinery-replay"
     ELSE IF edges # s.edges THEN "drift-edges"
     ELSE IF ranges # RangesOf(s, gen) THEN "drift-ranges"
     ELSE "ok"

EdgeCase(c) == IF c.exc = 1 THEN "exception"
               ELSE JudgeEdges(c.blocks, c.blocks, c.fe, c.gpol, RunsToEdges(c.first, c.runs), c.ranges, c.expect)

-----------------------------------------------------------------------------
IsDrift(v) == v \in {"drift-edges", "drift-ranges", "drift-pilot"}
Datas(blocks) == LET d == SelectSeq(blocks, LAMBDA b : b.hasdata = 1) IN [k \in 1..Len(d) |-> d[k].data]

\* which reading of the flag byte explains what the parser returned
Dev(f) ==
  IF f.parsed = Selected(Parse(f.fmt, f.raw, "doc"), f.start, f.stop, f.skip) THEN "doc"
  ELSE IF f.parsed = Selected(Parse(f.fmt, f.raw, "sk"), f.start, f.stop, f.skip) THEN "sk"
  ELSE "none"

FileSignal(f, dev, norm) ==
  SignalBlocks(f.fmt, Selected(IF f.fmt = "pzx" THEN ParsePzx(f.raw, norm) ELSE Parse(f.fmt, f.raw, dev), f.start, f.stop, f.skip))

\* the blocks after the PZX header are what write_pzx is documented to write for these byte blocks
PzxLayout(sel, wdata, dev) ==
  LET w == StdPzxOf(wdata, dev) IN
  Len(sel) = Len(w) + 1 /\ \A k \in 1..Len(w) : sel[k + 1].tm = w[k]

FileClause(f) ==
  IF f.wexc = 1 THEN "write-exception"
  ELSE IF f.exc = 1 THEN "parse-exception"
  ELSE LET dev == Dev(f)
           sel == Selected(Parse(f.fmt, f.raw, dev), f.start, f.stop, f.skip) IN
       IF dev = "none" THEN "parse"
       ELSE IF f.fmt = "tap" /\ f.stop = 0 /\ f.warn # TapWarning(f.raw) THEN "tap-warning"
       ELSE IF f.infoexc = 1 THEN "tapinfo-exception"
       ELSE IF f.info # [k \in 1..Len(sel) |-> InfoLine(f.fmt, sel[k])] THEN "tapinfo"
       ELSE IF f.writer = "tap" /\ (Datas(sel) # f.wdata \/ f.warn # 0) THEN "roundtrip-tap"
       ELSE IF f.writer = "pzx" /\ Datas(sel) # f.wdata THEN "roundtrip-pzx"
       ELSE IF f.writer = "pzx" /\ ~PzxLayout(sel, f.wdata, "doc") /\ ~PzxLayout(sel, f.wdata, "sk") THEN "write-pzx-layout"
       ELSE IF f.sig.has = 1 /\ f.sig.exc = 1 THEN "edges-exception"
       ELSE LET v == IF f.sig.has = 1
                     THEN JudgeEdges(FileSignal(f, dev, FALSE), FileSignal(f, dev, TRUE), 0, 0,
                                     RunsToEdges(f.sig.first, f.sig.runs), f.sig.ranges, <<>>)
                     ELSE "ok" IN
            IF v = "ok" /\ (dev = "sk" \/ (f.writer = "pzx" /\ ~PzxLayout(sel, f.wdata, "doc"))) THEN "drift-pilot" ELSE v

PilotRuns(runs) == SelectSeq(runs, LAMBDA x : x[1] = 2168)

FilesCase(c) ==
  LET n == Len(c.files)
      v == [k \in 1..n |-> FileClause(c.files[k])]
      Viol(k) == v[k] # "ok" /\ ~IsDrift(v[k])
      model == [k \in 1..n |-> RunTape(FileSignal(c.files[k], "doc", TRUE), 0, 0).edges]
  IN IF \E k \in 1..n : Viol(k)
     THEN LET k == CHOOSE k \in 1..n : Viol(k) /\ \A j \in 1..(k - 1) : ~Viol(j) IN "f" \o ToString(k) \o ":" \o v[k]
     ELSE IF c.same = 1 /\ \E k \in 2..n : model[k] # model[1] THEN "machinery-xfmt-model"
     ELSE IF c.same = 1 /\ (\E k \in 1..n : c.files[k].sig.has # 1) THEN "machinery-xfmt-sig"
     ELSE IF c.same = 1 /\ (\E k \in 2..n : c.files[k].sig.first # c.files[1].sig.first \/ c.files[k].sig.runs # c.files[1].sig.runs)
          THEN IF \E k \in 1..n : v[k] = "drift-pilot" THEN "drift-pilot" ELSE "xfmt-edges"
     \* same = 2: the files were written by skoolkit's own writers from the same blocks (write_tap, write_pzx): whichever
     \* pilot rule skoolkit follows, it must follow the same one in both: the pilot tones (runs of 2168 T-state pulses) agree without any excuse (tails and
     \* pauses are judged per file)
     ELSE IF c.same = 2 /\ (\A k \in 1..n : c.files[k].sig.has = 1)
             /\ (\E k \in 2..n : PilotRuns(c.files[k].sig.runs) # PilotRuns(c.files[1].sig.runs))
          THEN "own-writers-pilot"
     ELSE IF \E k \in 1..n : v[k] # "ok" THEN v[CHOOSE k \in 1..n : v[k] # "ok"]
     ELSE "ok"

Judge(c) == CASE c.kind = "edges" -> EdgeCase(c)
              [] c.kind = "files" -> FilesCase(c)
              [] OTHER -> "machinery-kind"

VARIABLES tid, verdict
Init == tid \in 1..Len(Cases) /\ verdict = "pending"
Next == /\ verdict = "pending" /\ verdict' = Judge(Cases[tid]) /\ UNCHANGED tid
        /\ (verdict' = "ok" \/ PrintT(<<"FAIL", tid, verdict'>>))
=============================================================================
