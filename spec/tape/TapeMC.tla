------------------------------ MODULE TapeMC ------------------------------
(* quick: every tape of up to 2 blocks over 59 blocks (all shapes, zero-length pulses, levels, tails, pauses) *)
EXTENDS TapeAlpha
AlphabetMC ==
  Tone1({1, 2}, {0, 3}, AnyPol) \cup Tone2({2}, {3}, {0}, {NoPol})
  \cup Turbo({2}, {3}, {<<165>>}, {1}, {3}, {1, 8}, {0, 7})
  \cup Pure({<<165>>}, {0, 1}, {3}, {3}, {0})
  \cup Rec({0, 1}, {3}, {7})
  \cup Silence({0, 7}, AnyPol)
  \cup PzxData({<<165>>}, {<<1>>, <<3, 0>>}, {<<3>>, <<0, 3>>}, {2, 8}, {0, 5}, {0, 1})
=============================================================================
