------------------------------- MODULE Tape -------------------------------
(***************************************************************************)
(* The tape signal generator as a state machine.  Blocks arrive one at a   *)
(* time (Load); each is played by the actions PolarityAdjust, Tone (a      *)
(* single Pulse is a tone of one), DataBit, Tail, Mark (report the data     *)
(* range), then either Pause + next Load or EndTape, whose DropTailEdge     *)
(* finishes the edge list.  The actions are the operators of TapeSignal     *)
(* part 2; the invariants say that what they produce is what TapeSignal     *)
(* part 1 (the declarative signal of the format documents) demands.         *)
(***************************************************************************)
EXTENDS TapeSignal, FiniteSets

CONSTANTS Alphabet,     \* set of blocks a tape is made of
          MaxBlocks,    \* tapes of 0..MaxBlocks blocks
          FirstEdges,   \* values of the first-edge option
          GPols         \* values of the polarity option

VARIABLES tape,         \* blocks loaded so far
          fe, gpol,     \* options
          t, edges, ranges, mis, tl, tm, \* generator state (TapeSignal part 2)
          pc, k, st     \* control: phase, counter within the phase, data start index

vars == <<tape, fe, gpol, t, edges, ranges, mis, tl, tm, pc, k, st>>

St == [t |-> t, edges |-> edges, ranges |-> ranges, mis |-> mis, tl |-> tl, tm |-> tm]
Set(s) == /\ t' = s.t /\ edges' = s.edges /\ ranges' = s.ranges /\ mis' = s.mis /\ tl' = s.tl /\ tm' = s.tm
Cur == tape[Len(tape)]
N == Len(tape)

Init == /\ tape = <<>> /\ fe \in FirstEdges /\ gpol \in GPols
        /\ LET s == S0(fe, gpol) IN t = s.t /\ edges = s.edges /\ ranges = s.ranges /\ mis = s.mis /\ tl = s.tl /\ tm = s.tm
        /\ pc = "idle" /\ k = 0 /\ st = 0

Load(b) == /\ pc = "idle" /\ N < MaxBlocks
           /\ tape' = Append(tape, b)
           /\ pc' = "adjP" /\ k' = 1
           /\ UNCHANGED <<fe, gpol, t, edges, ranges, mis, tl, tm, st>>

\* before the pulses, before the data and before the pause of a block that has them
AdjustP == /\ pc = "adjP"
           /\ Set(IF HasPulses(Cur) THEN PolarityAdjust(St, Cur, gpol) ELSE St)
           /\ pc' = "tone" /\ UNCHANGED <<tape, fe, gpol, k, st>>

ToneStep == /\ pc = "tone" /\ k <= Len(Cur.pulses)
            /\ Set(Tone(St, Cur.pulses[k][1], Cur.pulses[k][2]))
            /\ k' = k + 1 /\ UNCHANGED <<tape, fe, gpol, pc, st>>

AdjustD == /\ pc = "tone" /\ k > Len(Cur.pulses)
           /\ LET s == IF HasData(Cur) THEN PolarityAdjust(St, Cur, gpol) ELSE St IN
              Set(s) /\ st' = LastIdx(s)
           /\ pc' = "bits" /\ k' = 1 /\ UNCHANGED <<tape, fe, gpol>>

DataBitStep == /\ pc = "bits" /\ k <= NBits(Cur)
               /\ Set(DataBit(St, Cur, BitAt(Cur, k)))
               /\ k' = k + 1 /\ UNCHANGED <<tape, fe, gpol, pc, st>>

TailStep == /\ pc = "bits" /\ k > NBits(Cur)
            /\ Set(TailPulse(St, Cur))
            /\ pc' = "mark" /\ UNCHANGED <<tape, fe, gpol, k, st>>

\* the block is over: report its data; whether a block without bytes is reported depends on what follows
MarkStep == /\ pc = "mark"
            /\ Set(IF HasData(Cur) THEN MarkData(St, Cur, N, st) ELSE IF Cur.dr = 1 THEN MarkPulses(St, N) ELSE St)
            /\ pc' = "gap" /\ UNCHANGED <<tape, fe, gpol, k, st>>

PauseStep == /\ pc = "gap" /\ N < MaxBlocks
             /\ Set(Pause(St, Cur, gpol))
             /\ pc' = "idle" /\ UNCHANGED <<tape, fe, gpol, k, st>>

EndTape == /\ pc \in {"gap", "idle"} /\ (pc = "idle" => N = 0)
           /\ LET s == IF N > 0 /\ ~HasData(Cur) /\ Cur.dr = 0 /\ HasPulses(Cur) THEN MarkPulses(St, N) ELSE St IN
              Set(DropTailEdge(s))
           /\ pc' = "done" /\ UNCHANGED <<tape, fe, gpol, k, st>>

\* (one action guarded from outside: TLC would otherwise make one action per block of the alphabet and try each
\* of them in every state)
LoadAny == pc = "idle" /\ N < MaxBlocks /\ \E b \in Alphabet : Load(b)
Next == \/ LoadAny
        \/ AdjustP \/ ToneStep \/ AdjustD \/ DataBitStep \/ TailStep \/ MarkStep \/ PauseStep \/ EndTape

Spec == Init /\ [][Next]_vars

-----------------------------------------------------------------------------
Done == pc = "done"

TypeOK == /\ pc \in {"idle", "adjP", "tone", "bits", "mark", "gap", "done"}
          /\ mis \in {0, 1} /\ tl \in {0, 1} /\ Len(edges) >= 1 /\ Len(tape) <= MaxBlocks

\* C11: "non-decreasing in time" - at every moment, and never ahead of the clock
EdgesMonotone == Monotone(edges) /\ Last(edges) <= t

\* C11: "contains exactly the pulses the block specifies": the played signal is the specified one
PulsesExact == Done => SignalOK(edges, tape, fe, gpol)

\* the level the tape is left at (not part of C11; holds on the model)
FinalLevelOK == (Done /\ ~FinalTailEither(TapeSegs(tape, fe, gpol))) =>
                  Xor(EdgeFinalLevel(edges), mis) = FinalLevel(tape, TapeSegs(tape, fe, gpol), gpol)

\* C11: "decodes back to exactly the block's bits; ranges point at the first and last edge of the data"
RangesExact == Done => RangeClause(tape, fe, gpol, edges, RangesOf(St, tape)) = "ok"

\* the step machine and the fold used for judging recorded edge lists are the same function
FoldAgrees == Done => LET s == RunTape(tape, fe, gpol) IN s.edges = edges /\ s.ranges = ranges /\ s.t = t

\* whenever a block has been played completely, the signal so far is the specified one
PrefixExact == pc = "gap" => LET segs == TapeSegs(tape, fe, gpol) IN
                 \/ PlayedSignal(edges) = Canon(TrimSilence(segs))
                 \/ BlipTail(segs) /\ SigPrefix(Canon(TrimSilence(segs)), PlayedSignal(edges))
                                   /\ SigPrefix(PlayedSignal(edges), Canon(segs))
=============================================================================
