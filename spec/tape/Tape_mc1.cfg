SPECIFICATION Spec
CONSTANTS
  Alphabet <- AlphabetMC
  MaxBlocks = 1
  FirstEdges = {0, 3}
  GPols = {0, 1}
CHECK_DEADLOCK FALSE
INVARIANT TypeOK
INVARIANT EdgesMonotone
INVARIANT PulsesExact
INVARIANT FinalLevelOK
INVARIANT RangesExact
INVARIANT FoldAgrees
INVARIANT PrefixExact
