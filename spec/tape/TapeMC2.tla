------------------------------ MODULE TapeMC2 ------------------------------
(* thorough: every tape of up to 2 blocks over a richer alphabet (224 blocks): zero-length pulses at both *)
(* ends of a bit, blocks made of zero-length pulses only, uneven pulse sequences, every level, tails, pauses *)
EXTENDS TapeAlpha
AlphabetMC ==
  Tone1({1, 2}, {0, 1, 3}, AnyPol) \cup Tone2({1, 2}, {0, 3}, {0, 1}, {NoPol, 1})
  \cup Turbo({1, 2}, {3}, {<<165>>}, {0, 1}, {3}, {1, 8}, {0, 7})
  \cup Pure({<<165>>, <<255>>}, {0, 1}, {0, 3}, {1, 8}, {0, 7})
  \cup Rec({0, 1}, {0, 3}, {0, 7})
  \cup Silence({0, 7}, AnyPol)
  \cup PzxData({<<165>>, <<0>>}, {<<1>>, <<1, 1>>, <<3, 0>>, <<0, 0>>}, {<<3>>, <<0, 3>>}, {1, 8}, {0, 5}, {0, 1})
=============================================================================
