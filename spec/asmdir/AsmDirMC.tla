------------------------------ MODULE AsmDirMC ------------------------------
(* Pattern A: the reader of AsmDir.tla model-checked on every file of up to MaxLines lines over a small line alphabet.
   The same file is read in both modes in lockstep (sa = skool2asm's reader, sh = skool2html's reader); the invariants
   compare the incremental states with declarative definitions over the whole file read so far (hist). *)
EXTENDS AsmDir

CONSTANTS MaxLines, Wide, Leaky      \* Leaky = TRUE: a (wrong) reader that obeys @set outside @start..@end (AsmDir_neg.cfg)
VARIABLES hist, sa, sh

R1 == [kind |-> "inum", from |-> <<1>>, to |-> 2, keep |-> 1, other |-> 0]       \* /zqa\i/zqb\1
R2 == [kind |-> "inum", from |-> <<2>>, to |-> 100, keep |-> 1, other |-> 0]     \* /zqb\i/#ZQA\1
R3 == [kind |-> "swap", from |-> <<1>>, to |-> 0, keep |-> 0, other |-> 2]       \* /(zqa) (zqb)/\2 \1

\* Wide = FALSE leaves out the lines of Extra (the quick tier)
Extra == { [k |-> "replace", r |-> R3, c |-> "html"], [k |-> "set", name |-> "crlf", val |-> 1, c |-> "never"],
           [k |-> "assemble", h |-> 2, a |-> 2, c |-> "always"], [k |-> "nowarn", a |-> <<30000>>, c |-> ""] }
Alphabet(n) == (IF Wide THEN Extra ELSE {}) \cup
  { [k |-> "start", c |-> ""], [k |-> "end", c |-> ""], [k |-> "rem", c |-> ""],
    [k |-> "replace", r |-> R1, c |-> ""], [k |-> "replace", r |-> R2, c |-> ""],
    [k |-> "expand", plus |-> 0, p |-> <<<<1, 100>>, <<2, 13>>>>, c |-> ""],
    [k |-> "set", name |-> "indent", val |-> 4, c |-> ""], [k |-> "set", name |-> "indent", val |-> 6, c |-> "asm"],
    [k |-> "assemble", h |-> -1, a |-> 0, c |-> ""], [k |-> "assemble", h |-> 1, a |-> -1, c |-> ""],
    [k |-> "ignoreua", a |-> <<>>, c |-> ""],
    [k |-> "remote", a |-> <<29000, 29003>>, c |-> ""], [k |-> "writer", n |-> 1, c |-> ""],
    [k |-> "text", id |-> n, w |-> <<<<1, -1>>, <<2, 10>>, <<1, 63>>, <<97, 58006>>>>, probe |-> 0, c |-> ""],
    [k |-> "instr", n |-> n, addr |-> 30000 + (4 * n), isdef |-> n % 2, b0 |-> 62, tgt |-> 1, id |-> n, w |-> <<<<0, 60016>>>>,
     ops |-> <<<<1, -1>>, <<95, 58006>>>>, lab |-> 1, c |-> ""] }

TheStep(st, ln) == IF Leaky /\ ln.k = "set" /\ st.mode = "asm" THEN [st EXCEPT !.props[ln.name] = ln.val] ELSE Step(st, ln)

MCInit == hist = <<>> /\ sa = Init0("asm") /\ sh = Init0("html")
MCNext == /\ Len(hist) < MaxLines
          /\ \E ln \in Alphabet(Len(hist) + 1) :
               /\ hist' = Append(hist, ln)
               /\ sa' = TheStep(sa, ln)
               /\ sh' = TheStep(sh, ln)
Spec == MCInit /\ [][MCNext]_<<hist, sa, sh>>

(* ---- declarative definitions over the file *)
Marks(i) == {j \in 1..(i - 1) : hist[j].k \in {"start", "end"}}
InRegion(i) == Marks(i) # {} /\ hist[MaxOf(Marks(i))].k = "start"               \* B1
CondHolds(mode, i) == ~(hist[i].c = "never" \/ (hist[i].c \in {"asm", "html"} /\ hist[i].c # mode))
Proc(mode, i) == (mode = "html" \/ InRegion(i)) /\ CondHolds(mode, i)
RECURSIVE Pick(_, _, _)
Pick(mode, kinds, i) == IF i > Len(hist) THEN <<>>
                        ELSE (IF hist[i].k \in kinds /\ Proc(mode, i) THEN <<hist[i]>> ELSE <<>>) \o Pick(mode, kinds, i + 1)
RECURSIVE Without(_, _)
Without(kinds, i) == IF i > Len(hist) THEN <<>> ELSE (IF hist[i].k \in kinds THEN <<>> ELSE <<hist[i]>>) \o Without(kinds, i + 1)
RECURSIVE OnlyRead(_)
OnlyRead(i) == IF i > Len(hist) THEN <<>>
               ELSE (IF hist[i].k \in {"start", "end"} \/ InRegion(i) THEN <<hist[i]>> ELSE <<>>) \o OnlyRead(i + 1)
LastOr(s, default) == IF s = <<>> THEN default ELSE s[Len(s)]

TypeOK == /\ sa.mode = "asm" /\ sh.mode = "html"
          /\ sa.asmb[1] \in 0..2 /\ sa.asmb[2] \in 0..2 /\ sh.asmb[1] \in 0..2
          /\ Len(sa.fields) <= Len(sh.fields) /\ Len(sa.instrs) <= Len(sh.instrs)

\* reading is a function of the file: the machine's state is the fold of Step over the lines read so far
ReadingIsAFunctionOfTheFile == Leaky \/ (sa = Read("asm", hist) /\ sh = Read("html", hist))

\* A1: the @assemble state is what the last directive (that gave a value for this mode) said, else 2
AssembleIsLastDirective ==
  LET A == Pick("asm", {"assemble"}, 1)   H == Pick("html", {"assemble"}, 1)
      av == [i \in DOMAIN A |-> A[i].a]   hv == [i \in DOMAIN H |-> H[i].h]
      lastNonNeg(s) == LET S == {i \in DOMAIN s : s[i] >= 0} IN IF S = {} THEN 2 ELSE s[MaxOf(S)]
  IN CurAssemble(sa) = lastNonNeg(av) /\ CurAssemble(sh) = lastNonNeg(hv)

\* every instruction carries the @assemble value in force where it stands
InstructionsCarryTheModeInForce ==
  \A i \in DOMAIN sh.instrs :
     LET n == sh.instrs[i].n
         before == {j \in 1..(n - 1) : hist[j].k = "assemble" /\ hist[j].h >= 0 /\ CondHolds("html", j)}
     IN sh.instrs[i].am = IF before = {} THEN 2 ELSE hist[MaxOf(before)].h

\* S1: a later @set overrides an earlier one; only those between @start and @end count
SetOnlyInsideRegion ==
  \A name \in PropNames :
     LET S == Pick("asm", {"set"}, 1)   idx == {i \in DOMAIN S : S[i].name = name}
     IN sa.props[name] = IF idx = {} THEN -1 ELSE S[MaxOf(idx)].val

\* W1: the writer class is the one named between @start and @end, else the default; skool2html has no use for it
WriterOnlyInsideRegion == sa.writer = (IF Pick("asm", {"writer"}, 1) = <<>> THEN 0 ELSE 1) /\ sh.writer = 0

\* R2: replacements are kept in file order
ReplacementsInFileOrder ==
  LET A == Pick("asm", {"replace"}, 1)  H == Pick("html", {"replace"}, 1)
  IN sa.repl = [i \in DOMAIN A |-> A[i].r] /\ sh.repl = [i \in DOMAIN H |-> H[i].r]

\* B1: what stands outside @start..@end never reaches the ASM writer and leaves no trace in the reader
OutsideRegionInert ==
  /\ {sa.fields[i].id : i \in DOMAIN sa.fields} = {hist[i].id : i \in {i \in DOMAIN hist : hist[i].k \in {"text", "instr"} /\ InRegion(i)}}
  /\ {sa.instrs[i].n : i \in DOMAIN sa.instrs} = {hist[i].n : i \in {i \in DOMAIN hist : hist[i].k = "instr" /\ InRegion(i)}}
  /\ (Leaky \/ sa = Read("asm", OnlyRead(1)))

\* skool2html reads everything and ignores @start, @end and the ASM-only directives
HtmlReadsEverything ==
  /\ {sh.fields[i].id : i \in DOMAIN sh.fields} = {hist[i].id : i \in {i \in DOMAIN hist : hist[i].k \in {"text", "instr"}}}
  /\ sh = Read("html", Without({"start", "end", "set", "equ", "ignoreua", "nowarn", "writer"}, 1))
  /\ sh.ign = NoIgn /\ sh.nw = NoIgn /\ \A n \in PropNames : sh.props[n] = -1

\* C1: an @if whose condition is false in this mode is as good as absent, one whose condition is true as good as unconditional
RECURSIVE Resolved(_, _)
Resolved(mode, i) == IF i > Len(hist) THEN <<>>
                     ELSE (IF hist[i].c = "never" \/ (hist[i].c \in {"asm", "html"} /\ hist[i].c # mode) THEN <<>>
                           ELSE <<[hist[i] EXCEPT !.c = ""]>>) \o Resolved(mode, i + 1)
ConditionalDirectives == Leaky \/ (sa = Read("asm", Resolved("asm", 1)) /\ sh = Read("html", Resolved("html", 1)))

\* T1: #R / JP into the other disassembly lead to the page of the remote entry that lists the address, else to the address itself
RemoteResolvesToEntry ==
  LET H == Pick("html", {"remote"}, 1)
      pageOf(a) == IF \E i \in DOMAIN H : a \in Range(H[i].a) THEN 29000 ELSE a
      links(ws) == {ws[j] : j \in {j \in DOMAIN ws : ws[j][1] = LinkTag}}
  IN /\ \A i \in DOMAIN sh.fields : links(FinalWords(sh, sh.fields[i].w)) \subseteq {<<LinkTag, 2 * Enc(pageOf(29003), 29003)>>}
     /\ links(FlatOps(sh)) \subseteq {<<LinkTag, 2 * Enc(29000, 29003)>>}
     /\ (H = <<>> => links(FlatOps(sh)) = {})
     /\ \A i \in DOMAIN sa.fields : links(FinalWords(sa, sa.fields[i].w)) = {}

\* M1
RemIsIgnored == Leaky \/ (sa = Read("asm", Without({"rem"}, 1)) /\ sh = Read("html", Without({"rem"}, 1)))

\* I1 / N1: a pending @ignoreua is used by exactly the next comment (or instruction), a pending @nowarn by the next instruction
Consumes(k, what) == IF what = "ign" THEN k \in {"text", "instr", "end"} ELSE k \in {"instr", "end"}
PendingAt(i, what, dk) ==      \* the value of the last in-region directive dk before line i that nothing consumed
  LET D == {j \in 1..(i - 1) : hist[j].k = dk /\ InRegion(j) /\ CondHolds("asm", j) /\ \A l \in (j + 1)..(i - 1) : ~(InRegion(l) /\ Consumes(hist[l].k, what)) /\ hist[l].k # "end"}
  IN IF D = {} THEN NoIgn ELSE hist[MaxOf(D)].a
SuppressionScope ==
  /\ \A f \in DOMAIN sa.fields :
        LET i == CHOOSE i \in DOMAIN hist : hist[i].k \in {"text", "instr"} /\ hist[i].id = sa.fields[f].id
        IN sa.fields[f].ign = PendingAt(i, "ign", "ignoreua")
  /\ \A f \in DOMAIN sa.instrs :
        LET i == CHOOSE i \in DOMAIN hist : hist[i].k = "instr" /\ hist[i].n = sa.instrs[f].n
        IN sa.instrs[f].nw = PendingAt(i, "nw", "nowarn")

\* R1: where a @replace directive stands relative to the text does not matter, only the order among the directives does
FieldsOut(st) == [i \in DOMAIN st.fields |-> FinalWords(st, st.fields[i].w)]
ReplaceFirst == Pick("html", {"replace"}, 1) \o Without({"replace"}, 1)
ReplacePositionIndependent == FieldsOut(sh) = FieldsOut(Read("html", ReplaceFirst))

\* R2: what a macro expands to is not replaced again; an undefined macro is never "expanded"
MacrosAfterReplacements ==
  \A i \in DOMAIN sh.fields :
     LET rs == Replaced(sh, sh.fields[i].w)
     IN \A j \in DOMAIN rs : IsMacroTag(rs[j][1]) /\ ~UndefWord(sh, rs[j]) => FinalWords(sh, sh.fields[i].w)[j][1] = DefOf(sh.exps, rs[j][1])

\* the documentation's own example of R2 (#foo31 with the two directives in either order)
Foo == [kind |-> "inum", from |-> <<1>>, to |-> 2, keep |-> 1, other |-> 0]
Bar == [kind |-> "inum", from |-> <<2>>, to |-> 3, keep |-> 1, other |-> 0]
ASSUME ApplyAll(<<Foo, Bar>>, <<<<1, 62>>>>) = <<<<3, 62>>>>
ASSUME ApplyAll(<<Bar, Foo>>, <<<<1, 62>>>>) = <<<<2, 62>>>>
\* groups and back-references: matches do not overlap
ASSUME ApplyRule(R3, <<<<1, -1>>, <<2, 5>>, <<2, -1>>, <<1, -1>>, <<1, -1>>, <<2, -1>>>>)
         = <<<<2, -1>>, <<1, 5>>, <<2, -1>>, <<1, -1>>, <<2, -1>>, <<1, -1>>>>
=============================================================================
