------------------------------- MODULE AsmDir -------------------------------
(* E07 - the ASM directives that rewrite a skool file as it is read (sphinx/source/asm.rst, "ASM directives"):
   @replace, @expand, @set-*, @assemble, @rem, @equ, @ignoreua, @nowarn, @start, @end.
   (@*sub/@*fix, @org, @label, @keep, @bytes, @defb/@defs/@defw, @if blocks: spec/doc/SubFix.tla.)

   A skool file is abstracted to a sequence of LINES (records with a kind `k`), read top to bottom in one of two MODES:
   "asm" (skool2asm.py) and "html" (skool2html.py).  The reader is a state machine: `Init0(mode)`, one `Step` per line.
   `Final(st)` is what the writer receives / does with the state the reader leaves behind.

   Text is abstracted to sequences of WORDS <<tag, num>>:
     tag 0           a bare number (num = 2*value)
     tag 1..98       a plain word or a lower-case '#xy' shortcut, optionally with a number glued to it (zqa, zqa31, zqa$1F)
     tag 95          (operations only) the operand of a JP / CALL to an address in another disassembly
     tag 96          (output only) a hyperlink into the other disassembly: num = 2 * ((page - 29000) * 64 + (anchor - 29000))
     tag 97          #Raddr@oth - a reference to an address in another disassembly (num = 2 * addr)
     tag 99          #PEEK of the address of instruction number num \div 2
     tag 100..199    a user-defined macro (#DEF, made available by @expand), the number is its integer parameter
     tag 200..299    #EVAL of a variable defined by #LET in an @expand directive
   num = -1: no number; otherwise 2*value + (1 if written in hexadecimal with '$').

   Documented statements modelled (asm.rst unless noted):
     R1  @replace "replaces strings that match a regular expression in skool file annotations and ref file section ...
         contents" - every annotation of the file, wherever the directive stands.
         (probe = 3: a ref file section name, [Page:word] - observed as the name of the file written for that page.)
     R2  "string replacements specified by @replace directives are made before skool macros are expanded, and in the
         order in which the directives appear in the skool file".
     R3  "\i ... is replaced by a regular expression group that matches a decimal number or a hexadecimal number
         preceded by $".
     R4  annotations only: instruction operations are not annotations.
     X1  @expand text "will be expanded by the ASM writer or HTML writer during initialisation (before any skool macros
         that appear in skool file annotations or ref file sections are expanded)" - a #DEF / #LET in it is available
         "immediately anywhere in the skool file ... or ref files".
     X2  "If text begins with +, it is appended to the text of the previous @expand directive (with the + removed)".
     S1  @set-name=value "sets a property on the ASM writer"; they "must be placed somewhere after the @start directive,
         and before the @end directive"; names and defaults as listed.
     A1  @assemble=H,A: 0 nothing, 1 DEFB/DEFM/DEFS/DEFW only, 2 instructions as well; default 2,2; "If H or A is blank
         or omitted, its value is left unchanged"; H counts in HTML mode, A in ASM mode.
     M1  @rem "is ignored by the parser".
     E1  @equ=label=value "defines an EQU directive that will appear in the ASM output".
     I1  @ignoreua suppresses the warnings about unconverted addresses "in the comment that follows"; with a list
         only for the addresses listed.
     N1  @nowarn suppresses the warnings "for the next instruction"; with a list only for the addresses listed.
     B1  @start / @end: "Everything before the @start directive is ignored by skool2asm.py", "Everything after the @end
         directive is ignored by skool2asm.py".  skool2html.py reads everything.
     T1  @remote=code:address[,address2...] "creates a remote entry": "enables JR, JP and CALL instructions to be
         hyperlinked to an entry defined in another skool file" and #R to "create a hyperlink to a remote entry point":
         the link goes to the page of `address`, with the entry point as anchor.  In ASM mode #R expands to the address.
     C1  @if(expr)(true[,false]) "conditionally processes other ASM directives"; the replacement fields {asm} and {html}
         (skool-macros.rst) tell the modes apart.  Here only the one-branch form: field `c` of a line = "" (plain),
         "always", "never", "asm", "html".
     W1  @writer=package.module.classname or @writer=/path/to/moduledir:module.classname "specifies the name of the Python class
         to use to generate ASM output. It must be placed somewhere after the @start directive, and before the @end
         directive"; "The default ASM writer class is skoolkit.skoolasm.AsmWriter" (here: writer 0).
     S2  @set-warnings=0 suppresses the warnings "produced while writing ASM output (after parsing the skool file)". *)
EXTENDS Integers, Sequences, FiniteSets, TLC

NoNum == -1
PeekTag == 99
JumpTag == 95
LinkTag == 96
RTag == 97
RemoteBase == 29000
Enc(page, a) == ((page - RemoteBase) * 64) + (a - RemoteBase)
IsMacroTag(t) == t >= 100 /\ t < 200
IsVarTag(t) == t >= 200 /\ t < 300
Range(s) == {s[i] : i \in DOMAIN s}
MaxOf(S) == CHOOSE x \in S : \A y \in S : y <= x
MinOf(S) == CHOOSE x \in S : \A y \in S : y >= x

PropNames == {"indent", "tab", "label-colons", "line-width", "instruction-width", "crlf", "warnings", "comment-width-min"}
PropDefault == [n \in PropNames |-> CASE n = "indent" -> 2 [] n = "tab" -> 0 [] n = "label-colons" -> 1
                                      [] n = "line-width" -> 79 [] n = "instruction-width" -> 23 [] n = "crlf" -> 0
                                      [] n = "warnings" -> 1 [] n = "comment-width-min" -> 10]

(* ------------------------------------------------------------------ @replace (R1-R3) *)
Hit(r, w) == \E i \in DOMAIN r.from : r.from[i] = w[1]
\* /(zqa|zqb)/zqc : the tag is rewritten, a number glued to the word stays
Retag(r, ws) == [i \in DOMAIN ws |-> IF Hit(r, ws[i]) THEN <<r.to, ws[i][2]>> ELSE ws[i]]
\* /zqa\i/zqc\1 (keep = 1) or /zqa\i/zqc (keep = 0): only words that carry a decimal or $hex number
INum(r, ws) == [i \in DOMAIN ws |-> IF Hit(r, ws[i]) /\ ws[i][2] >= 0
                                      THEN <<r.to, IF r.keep = 1 THEN ws[i][2] ELSE NoNum>> ELSE ws[i]]
\* /(zqa) (zqb)/\2 \1 : groups and back-references; matches are found left to right and do not overlap
RECURSIVE SwapFrom(_, _, _)
SwapFrom(r, ws, i) ==
  IF i >= Len(ws) THEN ws
  ELSE IF ws[i][1] = r.from[1] /\ ws[i][2] = NoNum /\ ws[i + 1][1] = r.other
       THEN SwapFrom(r, [ws EXCEPT ![i] = <<r.other, NoNum>>, ![i + 1] = <<r.from[1], ws[i + 1][2]>>], i + 2)
       ELSE SwapFrom(r, ws, i + 1)
ApplyRule(r, ws) == IF r.kind = "retag" THEN Retag(r, ws) ELSE IF r.kind = "inum" THEN INum(r, ws) ELSE SwapFrom(r, ws, 1)
RECURSIVE ApplyFrom(_, _, _)
ApplyFrom(rules, ws, j) == IF j > Len(rules) THEN ws ELSE ApplyFrom(rules, ApplyRule(rules[j], ws), j + 1)
ApplyAll(rules, ws) == ApplyFrom(rules, ws, 1)                  \* R2: file order

(* ------------------------------------------------------------------ @expand (X1, X2) *)
\* an @expand text is a sequence of pieces: <<1, m>> = "#DEF(#M(n=0)", <<2, t>> = " t$n)", <<3, v, x>> = "#LET(v=x)"
IsDef(e) == Len(e) = 2 /\ e[1][1] = 1 /\ e[2][1] = 2
IsLet(e) == Len(e) = 1 /\ e[1][1] = 3
WellFormed(e) == IsDef(e) \/ IsLet(e)
DefOf(exps, m) == LET S == {i \in DOMAIN exps : IsDef(exps[i]) /\ exps[i][1][2] = m}
                  IN IF S = {} THEN 0 ELSE exps[MaxOf(S)][2][2]
LetOf(exps, v) == LET S == {i \in DOMAIN exps : IsLet(exps[i]) /\ exps[i][1][2] = v}
                  IN IF S = {} THEN -1 ELSE exps[MaxOf(S)][1][3]

(* ------------------------------------------------------------------ the reader *)
NoIgn == <<-1>>                         \* pending @ignoreua / @nowarn: none; <<>> = all addresses; else the list
Suppressed(ig, v) == ig = <<>> \/ (ig # NoIgn /\ v \in Range(ig))

Init0(mode) == [mode |-> mode, started |-> FALSE, repl |-> <<>>, exps |-> <<>>, odd |-> 0,
               props |-> [n \in PropNames |-> -1], remotes |-> <<>>, writer |-> 0, asmb |-> <<2, 2>>, ign |-> NoIgn, nw |-> NoIgn,
               fields |-> <<>>, instrs |-> <<>>, equs |-> <<>>]

Active(st) == st.mode = "html" \/ st.started                  \* B1
CurAssemble(st) == IF st.mode = "html" THEN st.asmb[1] ELSE st.asmb[2]

Step(st, ln) ==
  IF ln.k = "start" THEN (IF st.mode = "asm" THEN [st EXCEPT !.started = TRUE] ELSE st)
  ELSE IF ln.k = "end" THEN (IF st.mode = "asm" THEN [st EXCEPT !.started = FALSE, !.ign = NoIgn, !.nw = NoIgn] ELSE st)
  ELSE IF ~Active(st) THEN st
  ELSE IF ln.c = "never" \/ (ln.c \in {"asm", "html"} /\ ln.c # st.mode) THEN st                           \* C1
  ELSE IF ln.k = "remote" THEN [st EXCEPT !.remotes = Append(@, ln.a)]                                  \* T1
  ELSE IF ln.k = "rem" THEN st                                                                      \* M1
  ELSE IF ln.k = "replace" THEN [st EXCEPT !.repl = Append(@, ln.r)]
  ELSE IF ln.k = "expand" THEN
       (IF ln.plus = 1
        THEN (IF st.exps = <<>> THEN [st EXCEPT !.odd = 1]
              ELSE [st EXCEPT !.exps = [@ EXCEPT ![Len(@)] = @ \o ln.p]])                             \* X2
        ELSE [st EXCEPT !.exps = Append(@, ln.p)])
  ELSE IF ln.k = "assemble" THEN
       [st EXCEPT !.asmb = <<IF ln.h >= 0 THEN ln.h ELSE @[1], IF ln.a >= 0 THEN ln.a ELSE @[2]>>]   \* A1
  ELSE IF ln.k = "set" THEN (IF st.mode = "asm" THEN [st EXCEPT !.props[ln.name] = ln.val] ELSE st)   \* S1
  ELSE IF ln.k = "writer" THEN (IF st.mode = "asm" THEN [st EXCEPT !.writer = ln.n] ELSE st)         \* W1
  ELSE IF ln.k = "equ" THEN (IF st.mode = "asm" THEN [st EXCEPT !.equs = Append(@, <<ln.n, ln.val>>)] ELSE st)
  ELSE IF ln.k = "ignoreua" THEN (IF st.mode = "asm" THEN [st EXCEPT !.ign = ln.a] ELSE st)
  ELSE IF ln.k = "nowarn" THEN (IF st.mode = "asm" THEN [st EXCEPT !.nw = ln.a] ELSE st)
  ELSE IF ln.k = "text" THEN
       [st EXCEPT !.fields = Append(@, [id |-> ln.id, w |-> ln.w, ign |-> st.ign, probe |-> ln.probe]), !.ign = NoIgn]
  ELSE IF ln.k = "instr" THEN
       [st EXCEPT !.instrs = Append(@, [n |-> ln.n, addr |-> ln.addr, isdef |-> ln.isdef, b0 |-> ln.b0, tgt |-> ln.tgt,
                                        am |-> CurAssemble(st), nw |-> st.nw, ops |-> ln.ops, lab |-> ln.lab, cid |-> ln.id]),
                  !.fields = IF ln.id > 0 THEN Append(@, [id |-> ln.id, w |-> ln.w, ign |-> st.ign, probe |-> 0]) ELSE @,
                  !.ign = NoIgn, !.nw = NoIgn]
  ELSE st

RECURSIVE ReadFrom(_, _, _)
ReadFrom(st, lines, i) == IF i > Len(lines) THEN st ELSE ReadFrom(Step(st, lines[i]), lines, i + 1)
Read(mode, lines) == ReadFrom(Init0(mode), lines, 1)

(* ------------------------------------------------------------------ what the writer makes of it *)
Prop(st, n) == IF st.props[n] >= 0 THEN st.props[n] ELSE PropDefault[n]

Assembled(rec) == rec.am = 2 \/ (rec.am = 1 /\ rec.isdef = 1)                                       \* A1
Mem(st, n) == LET S == {i \in DOMAIN st.instrs : st.instrs[i].n = n}
              IN IF S = {} THEN 0 ELSE LET rec == st.instrs[MaxOf(S)] IN IF Assembled(rec) THEN rec.b0 ELSE 0

RemotePage(st, a) == LET S == {i \in DOMAIN st.remotes : a \in Range(st.remotes[i])}
                     IN IF S = {} THEN a ELSE st.remotes[MinOf(S)][1]
IsRemote(st, a) == \E i \in DOMAIN st.remotes : a \in Range(st.remotes[i])
ExpandWord(st, w) ==
  IF w[1] = RTag THEN (IF st.mode = "html" THEN <<LinkTag, 2 * Enc(RemotePage(st, w[2] \div 2), w[2] \div 2)>> ELSE <<0, w[2]>>) ELSE
  IF IsMacroTag(w[1]) THEN <<DefOf(st.exps, w[1]), IF w[2] >= 0 THEN 2 * (w[2] \div 2) ELSE 0>>
  ELSE IF IsVarTag(w[1]) THEN <<0, 2 * LetOf(st.exps, w[1])>>
  ELSE IF w[1] = PeekTag THEN <<0, 2 * Mem(st, w[2] \div 2)>>
  ELSE w
UndefWord(st, w) == (IsMacroTag(w[1]) /\ DefOf(st.exps, w[1]) = 0) \/ (IsVarTag(w[1]) /\ LetOf(st.exps, w[1]) < 0)

\* R2 + X1: replacements first (in file order), then macros; what a macro expands to is not replaced again
Replaced(st, ws) == ApplyAll(st.repl, ws)
FinalWords(st, ws) == LET rs == Replaced(st, ws) IN [i \in DOMAIN rs |-> ExpandWord(st, rs[i])]
HasUndef(st, ws) == LET rs == Replaced(st, ws) IN \E i \in DOMAIN rs : UndefWord(st, rs[i])

\* alternative readings, used only to name the failing clause
ReversedRules(st) == [i \in DOMAIN st.repl |-> st.repl[Len(st.repl) + 1 - i]]
AltReversed(st, ws) == LET rs == ApplyAll(ReversedRules(st), ws) IN [i \in DOMAIN rs |-> ExpandWord(st, rs[i])]
AltNoReplace(st, ws) == [i \in DOMAIN ws |-> ExpandWord(st, ws[i])]
AltAfterMacros(st, ws) == ApplyAll(st.repl, [i \in DOMAIN ws |-> ExpandWord(st, ws[i])])

BaseAddr(st) == MinOf({st.instrs[i].addr : i \in DOMAIN st.instrs})
EndAddr(st) == st.instrs[Len(st.instrs)].addr
\* I1, S2: addresses in comments that the ASM writer warns about
UAWarnings(st) ==
  IF st.instrs = <<>> \/ Prop(st, "warnings") = 0 THEN {}
  ELSE UNION { LET fw == FinalWords(st, st.fields[i].w)
               IN { fw[j][2] \div 2 : j \in { j \in DOMAIN fw : /\ fw[j][1] = 0 /\ (fw[j][2] \div 2) >= 257
                                                                  /\ (fw[j][2] \div 2) >= BaseAddr(st)
                                                                  /\ (fw[j][2] \div 2) <= EndAddr(st)
                                                                  /\ ~Suppressed(st.fields[i].ign, fw[j][2] \div 2) } }
             : i \in DOMAIN st.fields }
\* N1: LD rr,address-of-a-labelled-instruction (instruction number tgt carries a label)
AddrOf(st, n) == LET S == {i \in DOMAIN st.instrs : st.instrs[i].n = n} IN IF S = {} THEN -1 ELSE st.instrs[MaxOf(S)].addr
LDWarnings(st) == { st.instrs[i].n : i \in { i \in DOMAIN st.instrs : /\ st.instrs[i].tgt > 0
                                                                      /\ AddrOf(st, st.instrs[i].tgt) >= 0
                                                                      /\ ~Suppressed(st.instrs[i].nw, AddrOf(st, st.instrs[i].tgt)) } }
\* R4 + T1: operations reach the writer as they are; in HTML mode a jump into a remote entry becomes a hyperlink
OpOut(st, w) == IF w[1] # JumpTag THEN <<w>>
                ELSE IF st.mode = "html" /\ IsRemote(st, w[2] \div 2) THEN <<<<LinkTag, 2 * Enc(RemotePage(st, w[2] \div 2), w[2] \div 2)>>>>
                ELSE <<>>
RECURSIVE OpsOut(_, _, _)
OpsOut(st, ops, j) == IF j > Len(ops) THEN <<>> ELSE OpOut(st, ops[j]) \o OpsOut(st, ops, j + 1)
RECURSIVE FlatOpsFrom(_, _)
FlatOpsFrom(st, i) == IF i > Len(st.instrs) THEN <<>> ELSE OpsOut(st, st.instrs[i].ops, 1) \o FlatOpsFrom(st, i + 1)
FlatOps(st) == FlatOpsFrom(st, 1)
=============================================================================
