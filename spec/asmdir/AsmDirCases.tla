----------------------------- MODULE AsmDirCases -----------------------------
(* Pattern B: one generated skool file read by the real skool2asm.py / skool2html.py per case.
   c.mode, c.lines = the abstract file (see AsmDir.tla), c.obs = what the real tool wrote, projected by
   harness/drivers/asmdirdrv.py.  Judge names the first documented clause that the observation contradicts. *)
EXTENDS AsmDir, Json, IOUtils

Cases == JsonDeserialize(IOEnv.CASES)
VARIABLES tid, verdict

ObsWords(o, id) == LET S == {i \in DOMAIN o.fields : o.fields[i].id = id} IN o.fields[MinOf(S)].w

HasLink(ws) == \E j \in DOMAIN ws : ws[j][1] \in {LinkTag, RTag, JumpTag}
FieldClause(st, f, ow) ==
  IF f.probe = 3       \* a section name is replaced; whether a macro that the replacement produced is expanded in the file name: not stated
  THEN (IF ow = Replaced(st, f.w) \/ (\E j \in DOMAIN f.w : IsMacroTag(Replaced(st, f.w)[j][1])) THEN "ok" ELSE "ref:section-name")
  ELSE IF ow = FinalWords(st, f.w) THEN "ok"
  ELSE IF f.probe = 1 THEN "assemble:peek"
  ELSE IF HasLink(f.w) /\ [j \in DOMAIN ow |-> IF ow[j][1] = LinkTag THEN 0 ELSE ow[j]]
                          = [j \in DOMAIN f.w |-> IF FinalWords(st, f.w)[j][1] = LinkTag THEN 0 ELSE FinalWords(st, f.w)[j]]
       THEN "remote:link"
  ELSE IF st.repl # <<>> /\ ow = AltNoReplace(st, f.w) THEN "replace:not-applied"
  ELSE IF ow = AltReversed(st, f.w) THEN "replace:order"
  ELSE IF ow = AltAfterMacros(st, f.w) THEN "replace:after-macros"
  ELSE IF f.probe = 2 THEN "ref:field-text"
  ELSE "field-text"

FieldsClause(st, o) ==
  LET bad == {i \in DOMAIN st.fields : FieldClause(st, st.fields[i], ObsWords(o, st.fields[i].id)) # "ok"}
  IN IF bad = {} THEN "ok" ELSE LET i == MinOf(bad) IN FieldClause(st, st.fields[i], ObsWords(o, st.fields[i].id))

IndentWidth(st) == IF Prop(st, "tab") # 0 THEN 1 ELSE Prop(st, "indent")
HasLabel(st) == \E i \in DOMAIN st.instrs : st.instrs[i].lab = 1
HasComment(st) == \E i \in DOMAIN st.instrs : st.instrs[i].cid > 0

CommentWidth(st) == LET left == Prop(st, "line-width") - Prop(st, "indent") - Prop(st, "instruction-width") - 3
                    IN IF left > Prop(st, "comment-width-min") THEN left ELSE Prop(st, "comment-width-min")
LayoutClause(st, o) ==
  IF st.instrs = <<>> /\ st.fields = <<>> THEN "ok"
  ELSE IF o.crlf # Prop(st, "crlf") THEN "set:crlf"
  ELSE IF st.instrs # <<>> /\ o.tab # <<IF Prop(st, "tab") # 0 THEN 1 ELSE 0>> THEN "set:tab"
  ELSE IF st.instrs # <<>> /\ Prop(st, "tab") = 0 /\ o.indents # <<Prop(st, "indent")>> THEN "set:indent"
  ELSE IF HasLabel(st) /\ o.colons # <<Prop(st, "label-colons")>> THEN "set:label-colons"
  ELSE IF HasComment(st) /\ o.semis # <<IndentWidth(st) + Prop(st, "instruction-width") + 1>> THEN "set:instruction-width"
  ELSE IF o.maxw > Prop(st, "line-width") THEN "set:line-width"
  \* the instruction comment field takes what is left of the line, but at least comment-width-min (a tab counts as 8
  \* columns in skoolkit's sum: not documented, so not judged when tab=1)
  ELSE IF Prop(st, "tab") = 0 /\ o.cmaxw > CommentWidth(st)
       THEN (IF CommentWidth(st) = Prop(st, "comment-width-min") THEN "set:comment-width-min" ELSE "set:line-width")
  \* "the minimum width of the instruction comment field": a comment line is not broken where the next word would still
  \* fit into a field of that minimum width
  ELSE IF Prop(st, "tab") = 0 /\ o.cfitw <= Prop(st, "comment-width-min") THEN "set:comment-width-min"
  ELSE "ok"

WarnClause(st, o) ==
  LET ua == Range(o.ua)  eua == UAWarnings(st)  ld == Range(o.ld)  eld == LDWarnings(st)
  IN IF ua # {} /\ Prop(st, "warnings") = 0 THEN "set:warnings"
     ELSE IF ua \ eua # {} THEN "ignoreua:not-suppressed"
     ELSE IF eua \ ua # {} THEN "ignoreua:over-suppressed"
     ELSE IF ld \ eld # {} THEN "nowarn:not-suppressed"
     ELSE IF eld \ ld # {} THEN "nowarn:over-suppressed"
     ELSE "ok"

Judge(c) ==
  LET st == Read(c.mode, c.lines)
      o == c.obs
      eids == {st.fields[i].id : i \in DOMAIN st.fields}
      oids == {o.fields[i].id : i \in DOMAIN o.fields}
  IN IF st.odd = 1 THEN "skip:odd-expand"
     ELSE IF \E i \in DOMAIN st.fields : HasUndef(st, st.fields[i].w) THEN "skip:undef-macro"
     ELSE IF \E i \in DOMAIN st.exps : ~WellFormed(st.exps[i]) THEN "skip:odd-expand"
     ELSE IF o.err = 1 THEN "tool-error"
     ELSE IF oids \ eids # {} THEN (IF c.mode = "asm" THEN "start-end:leak" ELSE "fields:extra")
     ELSE IF eids \ oids # {} THEN (IF c.mode = "asm" THEN "start-end:lost" ELSE "html:field-lost")
     ELSE IF Len(o.fields) # Cardinality(oids) THEN "fields:duplicated"
     ELSE IF FieldsClause(st, o) # "ok" THEN FieldsClause(st, o)
     ELSE IF o.ops # FlatOps(st)
          THEN (IF SelectSeq(o.ops, LAMBDA w : w[1] # LinkTag) = SelectSeq(FlatOps(st), LAMBDA w : w[1] # LinkTag)
                THEN "remote:jump-link" ELSE "replace:touched-operation")
     ELSE IF c.mode = "html" THEN "ok"
     ELSE IF LayoutClause(st, o) # "ok" THEN LayoutClause(st, o)
     ELSE IF WarnClause(st, o) # "ok" THEN WarnClause(st, o)
     ELSE IF Range(o.equs) # Range(st.equs) THEN "equ"
     ELSE IF o.writer # st.writer THEN "writer"
     ELSE "ok"

\* undocumented but expected of a greedy wrapper: a comment line is broken only where the next word would not fit
Drift(c) ==
  LET st == Read(c.mode, c.lines)
  IN IF c.mode = "asm" /\ c.obs.err = 0 /\ c.obs.fitw <= Prop(st, "line-width") THEN "line-width-early-break"
     ELSE IF c.mode = "asm" /\ c.obs.err = 0 /\ Prop(st, "tab") = 0 /\ c.obs.cfitw <= CommentWidth(st) THEN "comment-width-early-break"
     ELSE "none"

Init == tid \in 1..Len(Cases) /\ verdict = "pending"
Next == /\ verdict = "pending"
        /\ verdict' = Judge(Cases[tid])
        /\ UNCHANGED tid
        /\ (IF verdict' = "ok" THEN (IF Drift(Cases[tid]) = "none" THEN TRUE ELSE PrintT(<<"DRIFT", tid, Drift(Cases[tid])>>))
            ELSE PrintT(<<"FAIL", tid, verdict'>>))
=============================================================================
