SPECIFICATION Spec
CONSTANTS
  MaxLines = 4
  Wide = FALSE
  Leaky = FALSE
INVARIANT TypeOK
INVARIANT ReadingIsAFunctionOfTheFile
INVARIANT AssembleIsLastDirective
INVARIANT InstructionsCarryTheModeInForce
INVARIANT SetOnlyInsideRegion
INVARIANT ReplacementsInFileOrder
INVARIANT OutsideRegionInert
INVARIANT HtmlReadsEverything
INVARIANT RemIsIgnored
INVARIANT SuppressionScope
INVARIANT ReplacePositionIndependent
INVARIANT MacrosAfterReplacements
INVARIANT ConditionalDirectives
INVARIANT RemoteResolvesToEntry
INVARIANT WriterOnlyInsideRegion
CHECK_DEADLOCK FALSE
