SPECIFICATION Spec
CONSTANTS
  MaxLines = 3
  Wide = FALSE
  Leaky = TRUE
INVARIANT TypeOK
INVARIANT ReadingIsAFunctionOfTheFile
INVARIANT AssembleIsLastDirective
INVARIANT InstructionsCarryTheModeInForce
INVARIANT SetOnlyInsideRegion
INVARIANT ReplacementsInFileOrder
INVARIANT OutsideRegionInert
INVARIANT HtmlReadsEverything
INVARIANT RemIsIgnored
INVARIANT SuppressionScope
INVARIANT ReplacePositionIndependent
INVARIANT MacrosAfterReplacements
INVARIANT ConditionalDirectives
INVARIANT RemoteResolvesToEntry
INVARIANT WriterOnlyInsideRegion
CHECK_DEADLOCK FALSE
