------------------------------ MODULE BoxList ------------------------------
(***************************************************************************)
(* E09 - the reader of a box page entry section whose SectionType is        *)
(* ListItems or BulletPoints (ref-files.rst, "Box pages"):                   *)
(*                                                                          *)
(*   [Changelog:title]            [Changes:title]                            *)
(*   Intro text.                  Intro text.                                *)
(*                                                                          *)
(*   First top-level item.        - First top-level item,                    *)
(*     First subitem.               split over two lines.                    *)
(*     Second subitem.              - First subitem, also                    *)
(*       First subsubitem.            split over two lines.                  *)
(*                                  - Second subitem, on one line this time. *)
(*   Second top-level item.           - First subsubitem,                    *)
(*                                                                          *)
(*                                - Second top-level item.                   *)
(*                                                                          *)
(* "The intro text and the first top-level item must be separated by a      *)
(* blank line.  Lower-level items are created by using indentation, as      *)
(* shown.  Blank lines between items are optional and are ignored.  If the  *)
(* intro text is a single hyphen (-), it is not included in the final HTML  *)
(* rendering."  BulletPoints: "a sequence of multi-line list items prefixed *)
(* by '-'".                                                                  *)
(*                                                                          *)
(* A line, as far as the reader looks at it, is                              *)
(*   [ind |-> number of leading blanks, dash |-> the rest starts with '-',   *)
(*    words |-> the words after the indentation and the '-' ]                *)
(* (blank line: no dash, no words; the single hyphen: dash, no words).      *)
(* The reader is a state machine over the lines:                             *)
(*   phase   "intro" (in the intro paragraph), "items"                       *)
(*   stack   indentations of the open lists, outermost first (strictly       *)
(*           increasing)                                                     *)
(*   cur     text of the item being read (open = there is one)               *)
(*   out     what has been produced: UL, LI(text), IL, LU tokens = the       *)
(*           nested <ul> tree in document order                              *)
(*   note    the first feature of the indentation about which the            *)
(*           documentation says nothing ("" = none); contind: a continuation *)
(*           line is not aligned with the text of its item as in the example; *)
(*           blankin: a blank line inside an item.  The verdict of a section  *)
(*           with one of these is drift, never a violation                    *)
(*   blanksub  an item with indentation > 0 followed a blank line: the      *)
(*           documentation says the blank line is ignored, so the item goes   *)
(*           where it would go without it (up to skoolkit 64ba54a~1 the       *)
(*           reader started again at the top level there: SkBlankRestarted)   *)
(***************************************************************************)
EXTENDS Naturals, Integers, Sequences, FiniteSets

Blank(l) == l.words = <<>> /\ ~l.dash
Hyphen(l) == l.dash /\ l.words = <<>>

\* ---- tokens: sequences of integers, the head says what it is --------------------------------------
UL == <<-1>>                 \* <ul>
LU == <<-2>>                 \* </ul>
LI(w) == <<-3>> \o w         \* <li> and its own text
IL == <<-4>>                 \* </li>
PARA(w) == <<-5>> \o w       \* a paragraph
INTRO(w) == <<-6>> \o w      \* the intro text of a list entry (no words: not rendered)

Modes == {"ListItems", "BulletPoints"}
Unit == 2                    \* the indentation of one level in the examples of the documentation

S0 == [phase |-> "intro", nintro |-> 0, hy |-> FALSE, intro |-> <<>>, stack |-> <<>>, cur |-> <<>>, curind |-> 0, open |-> FALSE,
       out |-> <<>>, note |-> "", contind |-> FALSE, blankin |-> FALSE, afterblank |-> FALSE, blanksub |-> FALSE]

Top(q) == q[Len(q)]
Note(s, n) == IF s.note = "" THEN n ELSE s.note
RECURSIVE Rep(_, _)
Rep(q, n) == IF n = 0 THEN <<>> ELSE q \o Rep(q, n - 1)

\* which lines start an item
IsItem(l, mode) == ~Blank(l) /\ (mode = "BulletPoints" => l.dash)
IsCont(l, mode) == ~Blank(l) /\ mode = "BulletPoints" /\ ~l.dash

\* ---- the actions as functions of the state --------------------------------------------------------
IntroLine(s, l) == [s EXCEPT !.nintro = @ + 1, !.hy = Hyphen(l), !.intro = @ \o l.words]
IntroEnd(s) == [s EXCEPT !.phase = "items", !.intro = IF s.nintro = 1 /\ s.hy THEN <<>> ELSE @]

\* the text of the item being read is complete
Flushed(s) == IF s.open THEN Append(s.out, LI(s.cur)) ELSE s.out

ItemLine(s, l) ==
  LET base == [s EXCEPT !.cur = l.words, !.curind = l.ind, !.open = TRUE, !.afterblank = FALSE,
                        !.blanksub = @ \/ (s.afterblank /\ l.ind > 0)]
  IN IF s.stack = <<>>
     THEN \* the first item opens the list; its indentation is the top level
          [base EXCEPT !.stack = <<l.ind>>, !.out = Append(Flushed(s), UL),
                       !.note = IF l.ind # 0 THEN Note(s, "first-item-indented") ELSE @]
     ELSE IF l.ind > Top(s.stack)
     THEN \* deeper than the item before: a list inside that item
          [base EXCEPT !.stack = Append(@, l.ind), !.out = Append(Flushed(s), UL),
                       !.note = IF l.ind # Top(s.stack) + Unit THEN Note(s, "indent-unit") ELSE @]
     ELSE \* back to an open level: the lists below it are complete
          LET keep0 == Cardinality({j \in 1..Len(s.stack) : s.stack[j] <= l.ind})
              keep == IF keep0 = 0 THEN 1 ELSE keep0
              closes == Len(s.stack) - keep
          IN [base EXCEPT !.stack = SubSeq(@, 1, keep), !.out = Flushed(s) \o <<IL>> \o Rep(<<LU, IL>>, closes),
                          !.note = IF s.stack[keep] # l.ind THEN Note(s, "dedent-between-levels") ELSE @]

ContLine(s, l) ==
  IF s.open
  THEN [s EXCEPT !.cur = @ \o l.words, !.afterblank = FALSE,
                 !.blankin = @ \/ s.afterblank, !.contind = @ \/ l.ind # s.curind + Unit]
  ELSE [s EXCEPT !.note = Note(s, "text-before-first-item")]

\* "Blank lines between items are optional and are ignored"
BlankLine(s) == IF s.phase = "intro" THEN (IF s.nintro = 0 THEN s ELSE IntroEnd(s)) ELSE [s EXCEPT !.afterblank = s.open]

Step(s, l, mode) ==
  IF Blank(l) THEN BlankLine(s)
  ELSE IF s.phase = "intro" THEN IntroLine(s, l)
  ELSE IF IsItem(l, mode) THEN ItemLine(s, l)
  ELSE ContLine(s, l)

EndSection(s) ==
  LET t == IF s.phase = "intro" THEN IntroEnd(s) ELSE s
  IN [t EXCEPT !.open = FALSE, !.stack = <<>>,
               !.out = IF s.stack = <<>> THEN @ ELSE Flushed(s) \o <<IL>> \o Rep(<<LU, IL>>, Len(s.stack) - 1) \o <<LU>>]

RECURSIVE RunFrom(_, _, _, _)
RunFrom(s, lines, i, mode) == IF i > Len(lines) THEN s ELSE RunFrom(Step(s, lines[i], mode), lines, i + 1, mode)
\* the state after the whole section
Run(lines, mode) == EndSection(RunFrom(S0, lines, 1, mode))
\* the content of the entry: intro, then the list
ListTokens(r) == <<INTRO(r.intro)>> \o r.out

\* ---- properties of a token sequence -----------------------------------------------------------------
\* the number of open <ul> after the first i tokens
RECURSIVE UlDepth(_, _)
UlDepth(q, i) == IF i = 0 THEN 0 ELSE UlDepth(q, i - 1) + (IF q[i] = UL THEN 1 ELSE IF q[i] = LU THEN -1 ELSE 0)
RECURSIVE LiDepth(_, _)
LiDepth(q, i) == IF i = 0 THEN 0 ELSE LiDepth(q, i - 1) + (IF q[i][1] = -3 THEN 1 ELSE IF q[i] = IL THEN -1 ELSE 0)
\* well nested: <ul> only at the start or directly after the text of an item; <li> only inside a list, one level deeper than
\* the items around it; everything closed at the end
Balanced(q) ==
  /\ \A i \in 1..Len(q) :
       /\ UlDepth(q, i) >= 0 /\ LiDepth(q, i) >= 0
       /\ q[i] = UL => (IF i = 1 THEN TRUE ELSE q[i - 1][1] = -3) /\ LiDepth(q, i) = UlDepth(q, i) - 1
       /\ q[i][1] = -3 => LiDepth(q, i) = UlDepth(q, i) /\ UlDepth(q, i) >= 1
       /\ q[i] = IL => LiDepth(q, i) = UlDepth(q, i) - 1
       /\ q[i] = LU => LiDepth(q, i) = UlDepth(q, i) /\ i > 1 /\ q[i - 1] = IL
  /\ UlDepth(q, Len(q)) = 0 /\ LiDepth(q, Len(q)) = 0
\* the texts of the items in document order, and the depth of each
ItemTexts(q) == LET s == SelectSeq(q, LAMBDA t : t[1] = -3) IN [i \in 1..Len(s) |-> Tail(s[i])]
ItemDepths(q) == LET idx == SelectSeq([i \in 1..Len(q) |-> i], LAMBDA i : q[i][1] = -3) IN [k \in 1..Len(idx) |-> UlDepth(q, idx[k])]

\* ---- where skoolkit's reader left the documentation (named, not used for verdicts) ---------------------------------
\* Until commit 64ba54a HtmlWriter._build_box_page_list_entries read the paragraphs after the intro one by one and started every
\* paragraph with the top-level list alone on its stack: an indented item after a blank line became THE sublist of the last
\* top-level item (replacing the one it had) instead of being read as if the blank line were not there.  Repaired; sections
\* with blanksub are judged in full (BoxCases clause list:<type>:blank-line-before-subitem).
SkBlankRestarted == TRUE
=============================================================================
