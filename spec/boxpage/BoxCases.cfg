INIT Init
NEXT Next
CHECK_DEADLOCK FALSE
