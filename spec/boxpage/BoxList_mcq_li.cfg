SPECIFICATION Spec
CONSTANTS
  Mode = "ListItems"
  MaxLines = 7
  Inds = {0, 2, 3, 4}
  ContInds = {2, 4}
  Broken = FALSE
INVARIANT StackOK
INVARIANT DepthIsStack
INVARIANT BalancedAtEnd
INVARIANT TextOnce
INVARIANT ItemPerLine
INVARIANT DepthIsDeclared
INVARIANT DepthSteps
INVARIANT StepIsRun
INVARIANT ReindentInvariant
INVARIANT BlankIgnored
INVARIANT IntroRule
CHECK_DEADLOCK FALSE
