----------------------------- MODULE BoxListMC -----------------------------
(***************************************************************************)
(* E09, pattern A: the list reader of BoxList as a machine fed with every   *)
(* sequence of at most MaxLines lines (one intro line or the single hyphen, *)
(* a blank line, then item / continuation / blank lines with indentations   *)
(* from Inds / ContInds; the text of line n is the single word n).          *)
(* Broken = TRUE (BoxList_neg.cfg) replaces ItemLine by a reader that closes *)
(* only one level when the indentation goes back: the invariants must fail.  *)
(***************************************************************************)
EXTENDS BoxList, TLC

CONSTANTS Mode, MaxLines, Inds, ContInds, Broken
VARIABLES st, inp, body, done
vars == <<st, inp, body, done>>

BrokenItemLine(s, l) ==
  IF s.stack # <<>> /\ l.ind < Top(s.stack) /\ Len(s.stack) > 1
  THEN [s EXCEPT !.cur = l.words, !.curind = l.ind, !.open = TRUE, !.afterblank = FALSE, !.stack = SubSeq(@, 1, Len(@) - 1),
                 !.out = Flushed(s) \o <<IL, LU, IL>>]
  ELSE ItemLine(s, l)
StepM(s, l) == IF Broken /\ ~Blank(l) /\ s.phase = "items" /\ IsItem(l, Mode) THEN BrokenItemLine(s, l) ELSE Step(s, l, Mode)

Feed(l) == /\ ~done /\ Len(inp) < MaxLines
           /\ st' = StepM(st, l)
           /\ inp' = Append(inp, l)
           /\ body' = IF st.phase = "items" THEN Append(body, l) ELSE body
           /\ UNCHANGED done
Word == Len(inp) + 1

Init == st = S0 /\ inp = <<>> /\ body = <<>> /\ done = FALSE
IntroLineA(hy) == st.phase = "intro" /\ st.nintro = 0 /\ Feed([ind |-> 0, dash |-> hy, words |-> IF hy THEN <<>> ELSE <<Word>>])
BlankLineA == (st.phase = "items" \/ st.nintro > 0) /\ Feed([ind |-> 0, dash |-> FALSE, words |-> <<>>])
ItemLineA(i) == st.phase = "items" /\ Feed([ind |-> i, dash |-> Mode = "BulletPoints", words |-> <<Word>>])
ContinuationLineA(i) == st.phase = "items" /\ Mode = "BulletPoints" /\ st.open /\ Feed([ind |-> i, dash |-> FALSE, words |-> <<Word>>])
EndSectionA == ~done /\ done' = TRUE /\ st' = EndSection(st) /\ UNCHANGED <<inp, body>>
Next == \/ \E hy \in BOOLEAN : IntroLineA(hy)
        \/ BlankLineA
        \/ \E i \in Inds : ItemLineA(i)
        \/ \E i \in ContInds : ContinuationLineA(i)
        \/ EndSectionA
Spec == Init /\ [][Next]_vars

\* ---- invariants --------------------------------------------------------------------------------------
RECURSIVE Flat(_)
Flat(q) == IF q = <<>> THEN <<>> ELSE Head(q) \o Flat(Tail(q))
StrictlyIncreasing(q) == \A i \in 1..Len(q) - 1 : q[i] < q[i + 1]
Max(S) == CHOOSE x \in S : \A y \in S : y <= x

StackOK == StrictlyIncreasing(st.stack) /\ (st.open <=> st.stack # <<>>)
\* the open <ul> are the levels on the stack
DepthIsStack == ~done => UlDepth(st.out, Len(st.out)) = Len(st.stack)
\* every <ul> / <li> is closed, lists open only inside items, items only inside lists
BalancedAtEnd == done => Balanced(st.out)
\* document order is preserved and every text appears exactly once: the texts of the items, in order, are the texts of the
\* item and continuation lines, in order (each line has its own word)
TextOnce == done => Flat(ItemTexts(st.out)) = Flat([i \in 1..Len(body) |-> body[i].words])
\* one item per item line
ItemPerLine == done => Len(ItemTexts(st.out)) = Len(SelectSeq(body, LAMBDA l : IsItem(l, Mode)))
\* the declarative reading of indentation: the parent of an item is the nearest earlier item that is indented less
ItemInds == LET s == SelectSeq(body, LAMBDA l : IsItem(l, Mode)) IN [i \in 1..Len(s) |-> s[i].ind]
RECURSIVE DeclDepth(_, _)
DeclDepth(inds, j) == LET P == {i \in 1..j - 1 : inds[i] < inds[j]} IN IF P = {} THEN 1 ELSE 1 + DeclDepth(inds, Max(P))
Documented == st.note = ""
DepthIsDeclared == done /\ Documented => ItemDepths(st.out) = [j \in 1..Len(ItemInds) |-> DeclDepth(ItemInds, j)]
\* the depth changes by at most +1 from one item to the next, and goes back to an open level only
DepthSteps == done => LET d == ItemDepths(st.out) IN (d # <<>> => d[1] = 1) /\ \A i \in 1..Len(d) - 1 : d[i + 1] <= d[i] + 1 /\ d[i + 1] >= 1
\* the machine is the function Run
StepIsRun == done /\ ~Broken => st = Run(inp, Mode)
\* re-indentation that keeps the order of the indentations keeps the tree
Re(lines, f(_)) == [i \in 1..Len(lines) |-> [lines[i] EXCEPT !.ind = f(@)]]
Double(n) == 2 * n
Shift(n) == IF n = 0 THEN 0 ELSE n + 3
ReindentInvariant == done /\ ~Broken => Run(Re(inp, Double), Mode).out = st.out /\ Run(Re(inp, Shift), Mode).out = st.out
\* blank lines between items are ignored
Intro == SubSeq(inp, 1, Len(inp) - Len(body))
BlankIgnored == done /\ ~Broken /\ ~st.blankin =>
                  Run(Intro \o SelectSeq(body, LAMBDA l : ~Blank(l)), Mode).out = st.out
\* the single hyphen is not rendered; any other intro is
IntroRule == done /\ inp # <<>> => st.intro = (IF Hyphen(inp[1]) THEN <<>> ELSE inp[1].words)
=============================================================================
