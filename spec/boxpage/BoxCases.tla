----------------------------- MODULE BoxCases -----------------------------
(***************************************************************************)
(* E09, pattern B.  One case = one generated site, judged page ID by page ID *)
(* (harness/drivers/boxdrv.py): the section blocks of the ref files in       *)
(* reading order, what the user wrote about the page in [Page:pid],          *)
(* [Titles], [PageHeaders], [Links], [Paths], [Game] JavaScript and an index *)
(* group, and what the real skool2html.main wrote (html.parser projection):  *)
(*   obs.wr     a file with <body class="pid"> was written; obs.files: where *)
(*   obs.toc    <<href, text>> of the links in <ul class="contents">         *)
(*   obs.ents   <<[id, tit, toks]>>: the <span id>, the title and the content *)
(*              tokens (BoxList) of the entries, in page order               *)
(*   obs.title, obs.hdr, obs.js, obs.pcw (words of the page body),           *)
(*   obs.idx    the link to the page on the index page                       *)
(* Verdict: "ok", "drift:..." (an input feature the documentation does not   *)
(* describe is read differently from skoolkit's present choice), else the    *)
(* first failing clause.                                                     *)
(***************************************************************************)
EXTENDS BoxPage, Json, IOUtils, TLC

Cases == JsonDeserialize(IOEnv.CASES)
VARIABLES tid, verdict

DriftVerdicts == {"drift:indent-unit", "drift:dedent-between-levels", "drift:first-item-indented", "drift:text-before-first-item",
                  "drift:continuation-indent", "drift:blank-line-inside-item", "drift:empty-box-page-written"}
First(q) == LET hard == SelectSeq(q, LAMBDA s : s # "ok" /\ s \notin DriftVerdicts)
                soft == SelectSeq(q, LAMBDA s : s # "ok")
            IN IF hard # <<>> THEN hard[1] ELSE IF soft # <<>> THEN soft[1] ELSE "ok"

Range(q) == {q[i] : i \in 1..Len(q)}
\* the content of one entry
JudgeContent(stype, sec, exp, got) ==
  IF got = exp.toks THEN "ok"
  ELSE IF stype \notin ListTypes THEN "content:paragraphs"
  ELSE LET r == Run(sec.lines, stype)
           gl == SubSeq(got, 2, Len(got))
           el == SubSeq(exp.toks, 2, Len(exp.toks))
           shape == got # <<>> /\ got[1][1] = -6 /\ \A i \in 2..Len(got) : got[i][1] \in {-1, -2, -3, -4}
       IN IF ~shape THEN "list:shape"
          ELSE IF r.note # "" THEN "drift:" \o r.note
          ELSE IF r.blankin THEN "drift:blank-line-inside-item"
          ELSE IF got[1] # exp.toks[1] THEN "list:intro"
          ELSE IF r.contind THEN "drift:continuation-indent"
          ELSE IF r.blanksub
          THEN \* "Blank lines between items are optional and are ignored": the same tree as without them, judged in full (exp is
               \* that tree: BlankLine leaves the stack alone); the clause names the rule that such a section exercises
               "list:" \o stype \o ":blank-line-before-subitem"
          ELSE IF ~Balanced(gl) THEN "list:unbalanced"
          ELSE IF ItemTexts(gl) # ItemTexts(el) THEN "list:item-text"
          ELSE IF ItemDepths(gl) # ItemDepths(el) THEN "list:nesting"
          ELSE "list:tokens"

IsPerm(a, b) == Len(a) = Len(b) /\ \A x \in Range(a) \cup Range(b) :
                  Cardinality({i \in 1..Len(a) : a[i] = x}) = Cardinality({i \in 1..Len(b) : b[i] = x})

JudgeMeta(c) ==
  LET o == c.obs
  IN << IF o.files = <<PagePath(c)>> THEN "ok" ELSE "meta:path",
        IF o.title = c.game \o ": " \o PageTitle(c) THEN "ok" ELSE "meta:title",
        IF o.hdr = PageHeader(c) THEN "ok" ELSE "meta:header",
        IF o.js = Scripts(c) THEN "ok" ELSE "meta:javascript",
        IF ~c.ingroup THEN "ok"
        ELSE IF ~o.idx.has THEN "index:not-linked"
        ELSE IF o.idx.href # PagePath(c) THEN "index:href"
        ELSE IF c.hdr.has /\ c.hdr.pre # "" /\ ~c.lnk.has THEN "ok"
        ELSE IF <<o.idx.txt, o.idx.other>> # LinkText(c) THEN "meta:link-text" ELSE "ok" >>

JudgeBox(c) ==
  LET o == c.obs
      stype == SType(c)
      secs == EntrySections(c.secs, Prefix(c))
      exp == [i \in 1..Len(secs) |-> Entry(stype, secs[i])]
      ids(q) == [i \in 1..Len(q) |-> q[i].id]
      tits(q) == [i \in 1..Len(q) |-> q[i].tit]
  IN IF secs = <<>> THEN (IF o.wr THEN "drift:empty-box-page-written" ELSE "ok")
     ELSE IF ~o.wr THEN "page:not-written"
     ELSE IF o.kind # (IF stype \in ListTypes THEN "list" ELSE "para") THEN "page:section-type"
     ELSE IF Len(o.ents) # Len(exp) THEN "entries:count"
     ELSE IF ids(o.ents) # ids(exp) THEN (IF IsPerm(ids(o.ents), ids(exp)) THEN "entries:order" ELSE "entries:anchor")
     ELSE IF tits(o.ents) # tits(exp) THEN "entries:title"
     ELSE IF o.toc # Toc(exp) THEN "toc"
     ELSE First([i \in 1..Len(exp) |-> JudgeContent(stype, secs[i], exp[i], o.ents[i].toks)] \o JudgeMeta(c))

Judge(c) ==
  LET k == Kind(c)
  IN CASE k = "ext" -> IF c.obs.wr THEN "content:page-written" ELSE "ok"
       [] k = "box" -> JudgeBox(c)
       [] k = "page" -> IF ~c.obs.wr THEN "page:not-written"
                        ELSE IF c.obs.kind # "page" THEN "page:precedence"
                        ELSE IF c.obs.pcw # ExpandAll(c.pg.pcw) THEN "page:content"
                        ELSE First(JudgeMeta(c))
       [] OTHER -> "ok"

\* one case = one site: the pages are judged one by one
PageCase(c, i, secs) == c.pages[i] @@ [secs |-> secs, game |-> c.game, gjs |-> c.gjs]
Init == tid \in 1..Len(Cases) /\ verdict = "pending"
Next == /\ verdict = "pending" /\ UNCHANGED tid
        /\ LET c == Cases[tid]
               secs == Sections(c.blocks)        \* once per site
               v == [i \in 1..Len(c.pages) |-> Judge(PageCase(c, i, secs))]
           IN /\ verdict' = IF \A i \in 1..Len(v) : v[i] = "ok" \/ v[i] \in DriftVerdicts THEN "ok" ELSE "fail"
              /\ \A i \in 1..Len(v) : IF v[i] = "ok" THEN TRUE
                                       ELSE IF v[i] \in DriftVerdicts THEN PrintT(<<"DRIFT", tid, c.pages[i].pid \o "|" \o v[i]>>)
                                       ELSE PrintT(<<"FAIL", tid, c.pages[i].pid \o "|" \o v[i]>>)
=============================================================================
