------------------------------ MODULE BoxPage ------------------------------
(***************************************************************************)
(* E09 - from ref file sections to the content structure of the pages       *)
(* defined by [Page:*] sections (ref-files.rst: [Page:*], Box pages,         *)
(* [Titles], [PageHeaders], [Links], [Paths], Appending content).            *)
(*                                                                          *)
(* Ref file syntax itself is spec/ref (E03): here a ref file chain is the    *)
(* sequence of its section blocks in reading order,                          *)
(*   [pfx |-> text before the first colon of the name (string),              *)
(*    nc  |-> the name has no colon, ha |-> it has two (anchor given),       *)
(*    anc, tit |-> anchor and title (sequences: character codes; an element  *)
(*    >= MACRO is a macro word, see Expand), plus |-> the name ends with '+',*)
(*    lines |-> the lines of the block as records of BoxList ]               *)
(* Text is words: word k is written "wk" in the files; the macro word        *)
(* MACRO*(1+c) + 1000*a + b is written #IF(c)(wa,wb).                        *)
(***************************************************************************)
EXTENDS BoxList

MACRO == 1000000
\* #IF(1)(wa,wb) is wa, #IF(0)(wa,wb) is wb
Expand(w) == IF w < MACRO THEN w ELSE IF w \div MACRO = 2 THEN (w % MACRO) \div 1000 ELSE w % 1000
ExpandAll(q) == [i \in 1..Len(q) |-> Expand(q[i])]
ExpandTok(t) == <<t[1]>> \o ExpandAll(Tail(t))
RECURSIVE Digits(_)
Digits(k) == IF k < 10 THEN <<48 + k>> ELSE Digits(k \div 10) \o <<48 + (k % 10)>>
RECURSIVE Chars(_)
\* the characters of a title / anchor after macro expansion
Chars(q) == IF q = <<>> THEN <<>> ELSE (IF Head(q) < MACRO THEN <<Head(q)>> ELSE <<119>> \o Digits(Expand(Head(q)))) \o Chars(Tail(q))

\* ---- the sections of the ref file chain ------------------------------------------------------------
SameName(a, b) == a.pfx = b.pfx /\ a.nc = b.nc /\ a.ha = b.ha /\ a.anc = b.anc /\ a.tit = b.tit
\* "Content may be appended to an existing ref file section defined elsewhere by adding a '+' suffix to the section name":
\* a section stays where it was first defined; a '+' block adds its lines at the end (a second plain block is not generated:
\* the documentation does not say what it does)
RECURSIVE Merge(_, _, _)
Merge(secs, blocks, i) ==
  IF i > Len(blocks) THEN secs
  ELSE LET b == blocks[i]
           at == {j \in 1..Len(secs) : SameName(secs[j], b)}
       IN IF at = {} THEN Merge(Append(secs, b), blocks, i + 1)
          ELSE LET j == CHOOSE x \in at : TRUE
               IN Merge([secs EXCEPT ![j].lines = IF b.plus THEN @ \o b.lines ELSE b.lines], blocks, i + 1)
Sections(blocks) == Merge(<<>>, blocks, 1)

\* ---- box page entries ---------------------------------------------------------------------------------
\* "[Bug:title] or [Bug:anchor:title]": the entries of the page with SectionPrefix p, in the order of the ref files
EntrySections(secs, p) == SelectSeq(secs, LAMBDA s : ~s.nc /\ s.pfx = p)       \* secs = Sections(blocks)
\* "If anchor is omitted from an entry section name, it defaults to the title converted to lower case with parentheses and
\* whitespace characters replaced by underscores."
AnchorChar(c) == IF c \in {32, 9, 40, 41} THEN 95 ELSE IF c \in 65..90 THEN c + 32 ELSE c
Anchor(s) == IF s.ha THEN Chars(s.anc) ELSE [i \in 1..Len(s.tit) |-> AnchorChar(s.tit[i])]
Title(s) == Chars(s.tit)

\* "By default, a box page entry section is parsed as a sequence of paragraphs separated by blank lines."
RECURSIVE Paras(_, _, _)
Paras(lines, i, cur) ==
  IF i > Len(lines) THEN (IF cur = <<>> THEN <<>> ELSE <<PARA(cur)>>)
  ELSE IF Blank(lines[i]) THEN (IF cur = <<>> THEN <<>> ELSE <<PARA(cur)>>) \o Paras(lines, i + 1, <<>>)
  ELSE Paras(lines, i + 1, cur \o lines[i].words)

ListTypes == {"ListItems", "BulletPoints"}
\* the content tokens of an entry
Content(stype, lines) ==
  LET toks == IF stype \in ListTypes THEN ListTokens(Run(lines, stype)) ELSE Paras(lines, 1, <<>>)
  IN [i \in 1..Len(toks) |-> ExpandTok(toks[i])]
Entry(stype, s) == [id |-> Anchor(s), tit |-> Title(s), toks |-> Content(stype, s.lines)]
\* "a table of contents (links to each entry)": one link per entry, to #anchor, with the title as text, in order
Toc(ents) == [i \in 1..Len(ents) |-> <<<<35>> \o ents[i].id, ents[i].tit>>]

\* ---- the pages ----------------------------------------------------------------------------------------
\* "SkoolKit defines some box pages by default. Their names and the ref file sections that can be used to define their entries"
BuiltIn == {"Bugs", "Changelog", "Facts", "Glossary", "GraphicGlitches", "Pokes"}
DefPrefix(p) == CASE p = "Bugs" -> "Bug" [] p = "Changelog" -> "Changelog" [] p = "Facts" -> "Fact" [] p = "Glossary" -> "Glossary"
                  [] p = "GraphicGlitches" -> "GraphicGlitch" [] p = "Pokes" -> "Poke" [] OTHER -> ""
\* the default [Page:Changelog] (skool2html.py -r Page:) and the example of the documentation: the changelog is a ListItems page
DefType(p) == IF p = "Changelog" THEN "ListItems" ELSE ""
\* [Titles]: "Recognised page IDs and their default titles"; a [Page:*] page: "defaults to the page ID"
DefTitle(p) == CASE p = "Facts" -> "Trivia" [] p = "GraphicGlitches" -> "Graphic glitches" [] OTHER -> p
\* [Paths]: "Recognised file IDs and their default paths"; a [Page:*] page: "a file named PageID.html in the root directory"
DefPath(p) == CASE p = "Bugs" -> "reference/bugs.html" [] p = "Changelog" -> "reference/changelog.html" [] p = "Facts" -> "reference/facts.html"
                [] p = "Glossary" -> "reference/glossary.html" [] p = "GraphicGlitches" -> "graphics/glitches.html"
                [] p = "Pokes" -> "reference/pokes.html" [] OTHER -> p \o ".html"

\* the parameters of [Page:p] as given by the user (u.has.X) over the default ones
Prefix(c) == IF c.pg.hprefix THEN c.pg.prefix ELSE DefPrefix(c.pid)
SType(c) == IF c.pg.hstype THEN c.pg.stype ELSE DefType(c.pid)
\* "the Content, SectionPrefix and PageContent parameters are mutually exclusive (and that is their order of precedence)"
Kind(c) == IF c.pg.content THEN "ext" ELSE IF Prefix(c) # "" THEN "box" ELSE IF c.pg.pc THEN "page" ELSE "none"

PageTitle(c) == IF c.tit.has THEN c.tit.v ELSE DefTitle(c.pid)
\* [PageHeaders]: "The default header text for a page is the same as the title"; PageID=[prefix<>]suffix
PageHeader(c) == IF c.hdr.has THEN <<c.hdr.pre, c.hdr.suf>> ELSE <<"", PageTitle(c)>>
\* [Links]: "The default link text for a page is the same as the header"; "[text] rest": text alone is the link text and
\* the remaining text is displayed alongside the hyperlink
LinkText(c) == IF c.lnk.has THEN <<c.lnk.txt, c.lnk.other>> ELSE <<PageHeader(c)[2], "">>
PagePath(c) == IF c.path.has THEN c.path.v ELSE DefPath(c.pid)
\* "JavaScript - the base name of the JavaScript file to use in addition to any declared by the JavaScript parameter in the
\* [Game] section; multiple JavaScript files can be declared by separating their names with semicolons"
Scripts(c) == c.gjs \o c.pg.js
=============================================================================
