------------------------------ MODULE RamOpsMC ------------------------------
(***************************************************************************)
(* The --ram state machine of RamOps.tla model-checked on a small instance *)
(* (8 addresses, 2 of them ROM area, banks of 2; three tape blocks): every  *)
(* sequence of up to MaxOps operations from two initial memories.  The      *)
(* properties restate, address by address and independently of the         *)
(* function constructions in RamOps, what each operation promises.          *)
(***************************************************************************)
EXTENDS RamOps

CONSTANTS Mach,      \* 48 or 128
          MaxOps,
          MoveMode   \* "block": the specification; "ldir": a byte-by-byte ascending copy (negative configuration)

VARIABLES st, hist, m0

MCSysKnown == <<9, 256>>
Blocks == << <<11, 12, 13, 14, 15>>, <<21>>, <<>> >>
Env == [mach |-> Mach, top |-> 0, base |-> m0, stop |-> 0]
Val(s, a) == Rd(Env, s.m, Loc(Env, a))
Addr == 0..(Top - 1)
Pages == IF Mach = 48 THEN {-1} ELSE IF MaxOps = 1 THEN {-1, 1, 5} ELSE {-1, 5}

\* MaxOps = 1: rich parameter sets; deeper: small ones
Rich == MaxOps = 1
PokeOps == IF Rich THEN [k : {"poke"}, p : Pages, a : {0, 1, 2, 5, 7}, b : {-1, 3, 6, 7}, c : {-1, 2, 3}, mode : 0..2, v : {3, 255}]
           ELSE [k : {"poke"}, p : Pages, a : {1, 5}, b : {-1, 7}, c : {-1, 3}, mode : {0, 2}, v : {255}]
MoveOps == IF Rich THEN [k : {"move"}, sp : Pages, src : {0, 2, 3, 6}, n : {0, 1, 3, 4}, dp : Pages, dest : {1, 2, 4, 5, 7}]
           ELSE [k : {"move"}, sp : Pages, src : {0, 3}, n : {3}, dp : Pages, dest : {2, 4}]
LoadOps == IF Rich THEN [k : {"load"}, blk : {1, 2, 3}, pre : {0, 1}, suf : {0, 1}, start : {2, 6, 7}, len : {-1, 0, 2, 6}, step : {-1, 0, 3}, off : {-1, 2}, inc : {-1, 3}]
           ELSE [k : {"load"}, blk : {1, 2}, pre : {0, 1}, suf : {0, 1}, start : {6}, len : {-1, 2}, step : {-1, 3}, off : {-1}, inc : {-1, 3}]
PatchOps == [k : {"patch"}, p : Pages, a : IF Rich THEN {1, 3, 7} ELSE {3}, data : {<<>>, <<31, 32, 33>>}]
OtherOps == {[k |-> "sysvars"], [k |-> "call", called |-> 1, size |-> Top, reads |-> <<>>, writes |-> <<<<7, 41>>, <<0, 42>>, <<7, 43>>>>]}

\* the byte-by-byte copy a Z80 LDIR would make (NOT what the documentation promises)
RECURSIVE Ldir(_, _, _, _, _)
Ldir(s, src, dest, n, i) == IF i = n THEN s ELSE Ldir([s EXCEPT !.m = (Loc(Env, dest + i) :> Val(s, src + i)) @@ @], src, dest, n, i + 1)
Step(s, op) == IF op.k = "move" /\ MoveMode = "ldir" /\ op.sp < 0 /\ op.dp < 0 /\ op.src + op.n <= Top /\ op.dest + op.n <= Top
               THEN Ldir(s, op.src, op.dest, op.n, 0) ELSE Apply(Env, Blocks, s, op)

Init == /\ m0 \in {<<>>, [x \in {Loc([mach |-> Mach, top |-> 0], a) : a \in RomTop..(Top - 1)} |-> 100 + x]}
        /\ st = St0 /\ hist = <<>>
Do(op) == /\ Len(hist) < MaxOps /\ st' = Step(st, op) /\ hist' = Append(hist, op) /\ UNCHANGED m0
Next == (\E op \in PokeOps : Do(op)) \/ (\E op \in MoveOps : Do(op)) \/ (\E op \in LoadOps : Do(op))
        \/ (\E op \in PatchOps : Do(op)) \/ (\E op \in OtherOps : Do(op))
vars == <<st, hist, m0>>
Spec == Init /\ [][Next]_vars

Last == hist'[Len(hist')]
Plain(op) == Apply(Env, Blocks, [st EXCEPT !.flags = {}], op).flags = {}          \* the operation hits no undefined corner
Flat(op) == (op.k \in {"poke", "patch"} /\ op.p < 0) \/ (op.k = "move" /\ op.sp < 0 /\ op.dp < 0)

\* a poke touches exactly the named cells
PokeExact == LET op == Last IN (op.k = "poke" /\ Flat(op) /\ Plain(op)) =>
  LET b == IF op.b < 0 THEN op.a ELSE op.b
      c == IF op.c < 0 THEN 1 ELSE op.c
  IN \A t \in Addr : Val(st', t) = IF t >= op.a /\ t <= b /\ ((t - op.a) % c) = 0
                                   THEN (IF op.mode = 0 THEN op.v ELSE IF Val(st, t) = Unknown THEN Unknown
                                         ELSE IF op.mode = 1 THEN Xor(Val(st, t), op.v) ELSE (Val(st, t) + op.v) % 256)
                                   ELSE Val(st, t)
\* move is a block copy, also when source and destination overlap; nothing else changes
MoveCopy == LET op == Last IN (op.k = "move" /\ Flat(op)) =>
  \A t \in Addr : Val(st', t) = IF t >= op.dest /\ t < op.dest + op.n /\ op.src + (t - op.dest) < Top
                                THEN Val(st, op.src + (t - op.dest)) ELSE Val(st, t)
\* a paged operation changes nothing outside its destination bank, and nothing at all on a 48K machine
PagedFrame == LET op == Last IN (op.k \in {"poke", "patch", "move"} /\ ~Flat(op)) =>
  IF Mach = 48 THEN st'.m = st.m
  ELSE LET p == IF op.k = "move" THEN (IF op.dp < 0 THEN op.sp ELSE op.dp) ELSE op.p
       IN (op.k = "move" /\ op.sp < 0) \/ (\A x \in DOMAIN st'.m : (x \div Bank) = p \/ (x \in DOMAIN st.m /\ st'.m[x] = st.m[x]))
\* load writes exactly the documented number of bytes at the documented addresses (the later write wins), advances the
\* block's position by that number, and touches nothing else
LoadExact == LET op == Last IN (op.k = "load" /\ st'.err = "") =>
  LET blk  == Blocks[op.blk]
      p0   == IF op.blk \in DOMAIN st.pos THEN st.pos[op.blk] ELSE 1 - op.pre
      n    == st'.pos[op.blk] - p0
      step == IF op.step < 0 THEN 1 ELSE op.step
      off  == IF op.off < 0 THEN 0 ELSE op.off
      inc  == IF op.inc < 0 THEN 0 ELSE op.inc
      dst(k) == (LoadDest(op.start, step, inc, k) + off) % Top
  IN /\ n >= 0 /\ p0 + n <= Max(1, Len(blk))
     /\ (op.len < 0 => p0 + n = Max(p0, Len(blk) - 1 + op.suf))                 \* "the number of bytes remaining in the block"
     /\ (op.len >= 0 /\ Plain(op) => n = op.len)                                    \* "the number of bytes to load"
     /\ \A t \in Addr : LET ks == {k \in 0..(n - 1) : dst(k) = t}
                        IN Val(st', t) = IF ks = {} THEN Val(st, t) ELSE blk[p0 + 1 + (CHOOSE k \in ks : \A j \in ks : j <= k)]
     /\ \A b \in DOMAIN st.pos : b # op.blk => st'.pos[b] = st.pos[b]
\* sysvars touches only its area
SysFrame == LET op == Last IN op.k = "sysvars" =>
  \A t \in Addr : IF t >= SysLo /\ t < SysLo + SysLen THEN Loc(Env, t) \in DOMAIN st'.m ELSE Val(st', t) = Val(st, t)
\* writes to the ROM area never reach the snapshot; reading them back later is possible
RomOutside == \A x \in DOMAIN st'.m : ~InSnapshot(Env, x) => (Mach = 48 /\ x < RomTop) \/ (Mach = 128 /\ x >= 8 * Bank)
StepProps == Len(hist') > Len(hist) => PokeExact /\ MoveCopy /\ PagedFrame /\ LoadExact /\ SysFrame /\ RomOutside
StepOK == [][StepProps]_vars
\* the operations are applied one after the other, in the order given
InOrder == MoveMode = "block" => st = Run(Env, Blocks, hist)
TypeOK == /\ \A x \in DOMAIN st.m : st.m[x] \in 0..256
          /\ \A b \in DOMAIN st.pos : st.pos[b] \in 0..Max(1, Len(Blocks[b]))   \* a block without data: nothing to load, the position stays at 1
=============================================================================
