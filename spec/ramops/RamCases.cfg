CONSTANTS Top = 65536  RomTop = 16384  Bank = 16384  SysLo = 23552  SysLen = 203  SysKnown <- RealSysKnown
INIT Init
NEXT Next
CHECK_DEADLOCK FALSE
