CONSTANTS Top = 8  RomTop = 2  Bank = 2  SysLo = 2  SysLen = 2  SysKnown <- MCSysKnown
          Mach = 48  MaxOps = 3  MoveMode = "block"
SPECIFICATION Spec
INVARIANTS TypeOK InOrder
PROPERTY StepOK
CHECK_DEADLOCK FALSE
