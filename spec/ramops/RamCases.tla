------------------------------ MODULE RamCases ------------------------------
(***************************************************************************)
(* Pattern B judge for extension E08.  One case = one run of the real      *)
(* skoolkit.tap2sna.main(args) on a generated tape with generated --ram /   *)
(* --reg / --state / --start / --stack options; the written .z80 / .szx     *)
(* file was read back by the independent decoder (harness/drivers/snapfile). *)
(*   mach, top, fmt : machine (48 / 128), RAM bank at 0xC000, "z80" / "szx" *)
(*   sim            : 1 when the memory came from a (minimal) simulated     *)
(*                    LOAD - then base / breg / bhw are what the same       *)
(*                    command line without the options under test wrote     *)
(*   blocks         : the tape, one byte sequence per block                 *)
(*   ops, opts      : the --ram operations and the register / state options *)
(*                    in command-line order (structured: the generator made *)
(*                    the option strings from these records)                *)
(*   stop           : the --tape-stop block number, 0 without the option      *)
(*   experr         : "" or why the documentation makes the run fail        *)
(*   err            : "" or the error the tool raised                       *)
(*   obs            : every snapshot cell that differs from the baseline,   *)
(*                    as [location, value]                                  *)
(*   regs, hw, omach, outok, readerr : the rest of what was observed        *)
(*   dflags         : corners named by the generator (option combinations   *)
(*                    whose meaning is not documented)                      *)
(* TLC computes the specification's final state with RamOps!Run and         *)
(* compares.  Judge returns <<clause, corners>>.                            *)
(***************************************************************************)
EXTENDS RamOps, Json, IOUtils

Cases == JsonDeserialize(IOEnv.CASES)

VARIABLES tid, verdict

\* what every 48K Spectrum holds in the system variables area after start-up (ZX Spectrum BASIC programming manual ch. 25,
\* ROM initialisation routine): offset from 23552 -> value
\* as a table: entry i + 1 is the value at 23552 + i, 256 (Unknown) where machines / moments differ:
\*   REPDEL 35, REPPER 5 (23561); STRMS for K S R K K S P (23568-23581); CHARS = 15360, RASP = 64 (23606-23608); BORDCR = 56 (23624);
\*   VARS = PROG = 23755 (23627, 23635), CHANS = 23734 (23631), E-LINE = 23756 (23641); DF-SZ = 2 (23659); UDG = 65368 (23675);
\*   ATTR-P = ATTR-T = 56 (23693, 23695); RAMTOP = 65367, P-RAMT = 65535 (23730-23733); the channel information K S R P + end marker (23734-23754)
RealSysKnown == <<
    256, 256, 256, 256, 256, 256, 256, 256, 256, 35, 5, 256, 256, 256, 256, 256, 1, 0, 6, 0, 11, 0, 1, 0, 1, 0, 6, 0, 16,
    0, 256, 256, 256, 256, 256, 256, 256, 256, 256, 256, 256, 256, 256, 256, 256, 256, 256, 256, 256, 256, 256, 256, 256, 256, 0, 60, 64, 256,
    256, 256, 256, 256, 256, 256, 256, 256, 256, 256, 256, 256, 256, 256, 56, 256, 256, 203, 92, 256, 256, 182, 92, 256, 256, 203, 92, 256, 256,
    256, 256, 204, 92, 256, 256, 256, 256, 256, 256, 256, 256, 256, 256, 256, 256, 256, 256, 256, 256, 2, 256, 256, 256, 256, 256, 256, 256, 256,
    256, 256, 256, 256, 256, 256, 256, 88, 255, 256, 256, 256, 256, 256, 256, 256, 256, 256, 256, 256, 256, 256, 256, 256, 256, 56, 256, 56, 256,
    256, 256, 256, 256, 256, 256, 256, 256, 256, 256, 256, 256, 256, 256, 256, 256, 256, 256, 256, 256, 256, 256, 256, 256, 256, 256, 256, 256, 256,
    256, 256, 256, 256, 87, 255, 255, 255, 244, 9, 168, 16, 75, 244, 9, 196, 21, 83, 129, 15, 196, 21, 82, 244, 9, 196, 21, 80, 128 >>

PairF(ps) == [x \in {ps[k][1] : k \in DOMAIN ps} |-> ps[CHOOSE k \in DOMAIN ps : ps[k][1] = x][2]]

DriftFlags == <<"poke-step-0", "poke-empty-range", "addr-past-top", "paged-on-48k", "bank-range", "dest-page-only", "move-dest-past-top",
                "rom-source", "dest-page-default", "bank-clip", "patch-past-top", "prefix-on-later-stage", "length-past-end",
                "reg-override", "tape-window", "state-128-on-48", "issue2-on-128", "top-bank-state", "no-such-block", "empty-field", "load-no-data">>
RECURSIVE JoinFlags(_, _)
JoinFlags(fs, k) == IF k > Len(DriftFlags) THEN ""
                    ELSE LET r == JoinFlags(fs, k + 1) IN IF DriftFlags[k] \in fs THEN DriftFlags[k] \o (IF r = "" THEN "" ELSE "+" \o r) ELSE r

RegNames == <<"a", "f", "bc", "de", "hl", "a2", "f2", "bc2", "de2", "hl2", "ix", "iy", "sp", "pc", "i", "r">>

Judge(c) ==
  LET env  == [mach |-> c.mach, top |-> c.top, base |-> PairF(c.base) @@ <<>>, stop |-> c.stop]       \* @@ makes TLC build the function once
      st   == Run(env, c.blocks, c.ops)
      dom  == DOMAIN st.m
      fl   == st.flags \cup {c.dflags[k] : k \in DOMAIN c.dflags} \cup (IF st.err = "no-such-block" THEN {st.err} ELSE {})
      obsC == {c.obs[k][1] : k \in DOMAIN c.obs}
      base(x) == Rd(env, <<>>, x)
      \* memory
      frameBad == {k \in DOMAIN c.obs : c.obs[k][1] \notin dom}
      valueBad == {k \in DOMAIN c.obs : LET x == c.obs[k][1] IN x \in dom /\ st.m[x] # Unknown /\ st.m[x] # c.obs[k][2]}
      missing  == {x \in dom : InSnapshot(env, x) /\ st.m[x] # Unknown /\ st.m[x] # base(x) /\ x \notin obsC}
      \* registers
      rf0  == IF c.sim = 1 THEN RegOfView(c.breg) ELSE RegDefault
      want == RegView(RegRun(rf0, c.opts, 1))
      regBad == {k \in DOMAIN RegNames : want[RegNames[k]] # c.regs[RegNames[k]]}
      \* hardware state
      hw0  == IF c.sim = 1 THEN [border |-> c.bhw.border, iff |-> c.bhw.iff1, im |-> c.bhw.im, issue2 |-> c.bhw.issue2, tstates |-> 34943,      \* the documented default also after a simulation
                                 o7ffd |-> c.bhw.o7ffd, offfd |-> c.bhw.offfd, fe |-> Max(0, c.bhw.fe), ay |-> [n \in 0..15 |-> c.bhw.ay[n + 1]]]
              ELSE HwDefault
      hw   == HwRun(hw0, c.opts, 1)
      fatal ==
        IF c.experr # "" THEN (IF c.err = "" THEN "accepted:" \o c.experr ELSE "ok")
        ELSE IF st.err # "" THEN (IF c.err = "" THEN "accepted:" \o st.err ELSE "ok")
        ELSE IF c.err # "" THEN "tool-error"
        ELSE IF c.outok = 0 THEN "outfile"
        ELSE IF c.readerr # "" THEN "snapshot-unreadable"
        ELSE IF c.omach # (IF c.mach = 48 THEN "48K" ELSE "128K") THEN "machine"
        ELSE ""
      clauses ==
        (IF st.bad # "" THEN {st.bad} ELSE {})
        \cup (IF frameBad # {} THEN {"mem-frame"} ELSE {})
        \cup (IF valueBad # {} \/ missing # {} THEN {"mem-value"} ELSE {})
        \cup {"reg-" \o RegNames[k] : k \in regBad}
        \cup (IF c.fmt = "szx" /\ want.memptr # c.regs.memptr THEN {"reg-memptr"} ELSE {})
        \cup (IF hw.border # c.hw.border THEN {"state-border"} ELSE {})
        \cup (IF hw.iff # c.hw.iff1 \/ hw.iff # c.hw.iff2 THEN {"state-iff"} ELSE {})
        \cup (IF hw.im # c.hw.im THEN {"state-im"} ELSE {})
        \cup (IF hw.tstates # c.hw.t THEN {"state-tstates"} ELSE {})
        \cup (IF c.mach = 48 /\ hw.issue2 # c.hw.issue2 THEN {"state-issue2"} ELSE {})
        \cup (IF c.fmt = "szx" /\ hw.fe # c.hw.fe THEN {"state-fe"} ELSE {})
        \cup (IF c.mach = 128 /\ hw.o7ffd # c.hw.o7ffd THEN {"state-7ffd"} ELSE {})
        \cup (IF c.mach = 128 /\ hw.offfd # c.hw.offfd THEN {"state-fffd"} ELSE {})
        \cup (IF c.mach = 128 /\ \E n \in 0..15 : hw.ay[n] # c.hw.ay[n + 1] THEN {"state-ay"} ELSE {})
  IN <<IF fatal = "ok" THEN {} ELSE IF fatal # "" THEN {fatal} ELSE clauses, JoinFlags(fl, 1), "call-arg-size" \in fl>>

\* a case that touches an undefined corner is never a violation: what it disagrees on is printed as drift
Init == tid \in 1..Len(Cases) /\ verdict = "pending"
Next == /\ verdict = "pending" /\ UNCHANGED tid
        /\ LET r == Judge(Cases[tid]) IN
           /\ verdict' = (IF r[1] = {} \/ r[2] # "" THEN "ok" ELSE "bad")
           /\ (r[2] # "" \/ \A cl \in r[1] : PrintT(<<"FAIL", tid, cl>>))
           /\ (r[2] = "" \/ PrintT(<<"DRIFT", tid, r[2]>>))
           /\ (~r[3] \/ PrintT(<<"NOTE", tid, "call-arg-size">>))      \* a call function was handed something that is not 65536 long
           /\ (r[2] = "" \/ \A cl \in r[1] : PrintT(<<"DRIFTFAIL", tid, cl>>))
=============================================================================
