------------------------------- MODULE RamOps -------------------------------
(***************************************************************************)
(* Extension E08: what tap2sna.py builds when it does NOT get the memory   *)
(* from a simulated LOAD - the `--ram` operations and their friends        *)
(* (`--reg`, `--state`, `--start`, `--stack`), written from the            *)
(* documentation (commands.rst, man/tap2sna.py.rst, `--ram help`).         *)
(*                                                                         *)
(* The snapshot being built is a sequential state machine:                 *)
(*   m    the working memory, "a list of 65536 byte values" on a 48K       *)
(*        machine (the first RomTop of them are the ROM area: they can be  *)
(*        written and read back by later operations but are not part of    *)
(*        the snapshot), eight RAM banks (plus the ROM area) on a 128K     *)
(*        machine.  m is sparse: a function from the locations touched so  *)
(*        far to their value; every other location has its initial value   *)
(*        (0 in blank RAM, env.base where a baseline is given, Unknown in  *)
(*        the ROM area).                                                   *)
(*   pos  for every tape block loaded so far, the index of the next byte   *)
(*        ("A single tape block can be loaded in two or more stages").     *)
(* Every `--ram` option is one action, applied in command-line order.      *)
(* Registers and hardware state are a second, independent fold over the    *)
(* `--reg` / `--state` / `--start` / `--stack` options.                    *)
(*                                                                         *)
(* Corners the documentation does not define are not given a meaning here: *)
(* they are named in st.flags (the judge counts a disagreement in such a   *)
(* case as drift, never as a violation).                                   *)
(***************************************************************************)
EXTENDS Integers, Sequences, FiniteSets, TLC

CONSTANTS Top,       \* size of the address space (65536)
          RomTop,    \* first RAM address (16384)
          Bank,      \* size of a RAM bank (16384); Top = 4 * Bank, RomTop = Bank
          SysLo,     \* first address written by `sysvars` (23552)
          SysLen,    \* number of addresses written by `sysvars` (203: 23552-23754)
          SysKnown   \* sequence of SysLen values: what any 48K Spectrum has there after start-up, Unknown where that varies

Unknown == 256                       \* "some byte": compares equal to everything
Min(a, b) == IF a < b THEN a ELSE b
Max(a, b) == IF a > b THEN a ELSE b

RECURSIVE XorN(_, _, _)
XorN(a, b, n) == IF n = 0 THEN 0 ELSE (((a % 2) + (b % 2)) % 2) + 2 * XorN(a \div 2, b \div 2, n - 1)
Xor(a, b) == XorN(a, b, 8)

\* ---- locations -----------------------------------------------------------------------------------------------
\* env = [mach |-> 48 | 128, top |-> the RAM bank at 0xC000 (128K), base |-> sparse initial contents, stop |-> --tape-stop or 0]
\* 48K: location = address.  128K: location = bank * Bank + offset for RAM, 8 * Bank + address for the ROM area.
Loc(env, a) == IF env.mach = 48 THEN a
               ELSE IF a < RomTop THEN 8 * Bank + a
               ELSE LET slot == a \div Bank
                        bank == IF slot = 1 THEN 5 ELSE IF slot = 2 THEN 2 ELSE env.top
                    IN bank * Bank + (a % Bank)
BankLoc(bank, a) == (bank % 8) * Bank + (a % Bank)          \* `p:a` - address a in RAM bank p (128K only)
InSnapshot(env, x) == IF env.mach = 48 THEN x >= RomTop /\ x < Top ELSE x >= 0 /\ x < 8 * Bank

Rd(env, m, x) == IF x \in DOMAIN m THEN m[x]
                 ELSE IF x \in DOMAIN env.base THEN env.base[x]
                 ELSE IF InSnapshot(env, x) THEN 0 ELSE Unknown

Flag(st, f) == [st EXCEPT !.flags = @ \cup {f}]
Fail(st, e) == IF st.err = "" THEN [st EXCEPT !.err = e] ELSE st        \* the tool cannot carry this operation out
Bad(st, e) == IF st.bad = "" THEN [st EXCEPT !.bad = e] ELSE st          \* an observation contradicts the specification

\* ---- poke=[p:]a[-b[-c]],[^+]v --------------------------------------------------------------------------------
\* "This does POKE N,V in RAM bank P for N in {A, A+C, A+2C..., B}"; b, c = -1 when absent (default b = a, c = 1);
\* mode 0 = plain, 1 = '^' (XOR), 2 = '+' (ADD)
PokeAddrs(a, b0, c0) == LET b == IF b0 < 0 THEN a ELSE b0
                            c == IF c0 < 0 THEN 1 ELSE c0
                        IN IF c = 0 \/ b < a THEN {} ELSE {a + k * c : k \in 0..((b - a) \div c)}
PokeVal(mode, v, old) == IF mode = 0 THEN v
                         ELSE IF old = Unknown THEN Unknown
                         ELSE IF mode = 1 THEN Xor(old, v) ELSE (old + v) % 256
Poke(env, st, op) ==
  LET A  == PokeAddrs(op.a, op.b, op.c)
      s1 == IF op.c = 0 THEN Flag(st, "poke-step-0") ELSE IF op.b >= 0 /\ op.b < op.a THEN Flag(st, "poke-empty-range") ELSE st
  IN IF op.p < 0 THEN
       IF \E t \in A : t >= Top THEN Flag(s1, "addr-past-top")
       ELSE [s1 EXCEPT !.m = [x \in {Loc(env, t) : t \in A} |-> PokeVal(op.mode, op.v, Rd(env, st.m, x))] @@ st.m]
     ELSE IF env.mach = 48 THEN Flag(s1, "paged-on-48k")                       \* "128K only": no meaning given
     ELSE IF op.p > 7 \/ Cardinality({t % Bank : t \in A}) # Cardinality(A) THEN Flag(s1, "bank-range")
     ELSE [s1 EXCEPT !.m = [x \in {BankLoc(op.p, t) : t \in A} |->
                               PokeVal(op.mode, op.v, Rd(env, st.m, x))] @@ st.m]

\* ---- move=[s:]src,N,[d:]dest ---------------------------------------------------------------------------------
\* "This copies a block of N bytes from src in RAM bank s to dest in RAM bank d": a block copy - every destination
\* byte gets the value its source byte had BEFORE the operation (overlap is harmless).  Bytes beyond the top of
\* memory (or of the bank) do not exist: they are neither read nor written.
Move(env, st, op) ==
  IF op.sp < 0 THEN
    LET n  == Max(0, Min(op.n, Min(Top - op.src, Top - op.dest)))
        s1 == IF op.dp >= 0 THEN Flag(st, "dest-page-only") ELSE st
        s2 == IF op.src + op.n > Top THEN Flag(s1, "move-src-past-top") ELSE IF op.dest + op.n > Top THEN Flag(s1, "move-dest-past-top") ELSE s1
        s3 == IF op.n > 0 /\ op.src < RomTop THEN Flag(s2, "rom-source") ELSE s2
    IN IF n = 0 THEN s3
       ELSE [s3 EXCEPT !.m = [x \in {Loc(env, op.dest + i) : i \in 0..(n - 1)} |->
                                LET i == CHOOSE j \in 0..(n - 1) : Loc(env, op.dest + j) = x
                                IN Rd(env, st.m, Loc(env, op.src + i))] @@ st.m]
  ELSE IF env.mach = 48 THEN Flag(st, "paged-on-48k")
  ELSE LET dp == IF op.dp < 0 THEN op.sp ELSE op.dp
           s  == op.src % Bank
           d  == op.dest % Bank
           n  == Max(0, Min(op.n, Min(Bank - s, Bank - d)))
           s1 == IF op.dp < 0 THEN Flag(st, "dest-page-default") ELSE st
           s2 == IF n < op.n THEN Flag(s1, "bank-clip") ELSE s1
       IN IF op.sp > 7 \/ dp > 7 THEN Flag(s2, "bank-range")
          ELSE IF n = 0 THEN s2
          ELSE [s2 EXCEPT !.m = [x \in {BankLoc(dp, d + i) : i \in 0..(n - 1)} |->
                                   Rd(env, st.m, BankLoc(op.sp, s + (x - BankLoc(dp, d))))] @@ st.m]

\* ---- patch=[p:]a,file ----------------------------------------------------------------------------------------
\* "applies the named binary patch file at address a in RAM bank p"; op.data = the file's bytes
Patch(env, st, op) ==
  LET len == Len(op.data) IN
  IF op.p < 0 THEN
    LET n  == Max(0, Min(len, Top - op.a))
        s1 == IF n < len THEN Flag(st, "patch-past-top") ELSE st
    IN IF n = 0 THEN s1
       ELSE [s1 EXCEPT !.m = [x \in {Loc(env, op.a + i) : i \in 0..(n - 1)} |->
                                op.data[1 + (CHOOSE j \in 0..(n - 1) : Loc(env, op.a + j) = x)]] @@ st.m]
  ELSE IF env.mach = 48 THEN Flag(st, "paged-on-48k")
  ELSE LET d  == op.a % Bank
           n  == Max(0, Min(len, Bank - d))
           s1 == IF n < len THEN Flag(st, "bank-clip") ELSE st
       IN IF op.p > 7 THEN Flag(s1, "bank-range")
          ELSE IF n = 0 THEN s1
          ELSE [s1 EXCEPT !.m = [x \in {BankLoc(op.p, d + i) : i \in 0..(n - 1)} |-> op.data[1 + (x - BankLoc(op.p, d))]] @@ st.m]

\* ---- sysvars -------------------------------------------------------------------------------------------------
\* "initialise the system variables at 23552-23754 (5C00-5CCA) with values suitable for a 48K ZX Spectrum": exactly
\* these addresses are written; where every 48K Spectrum has the same value after start-up (SysKnown) that value,
\* elsewhere some value
Sysvars(env, st) ==
  LET known == SysKnown
      lo    == Loc(env, SysLo)           \* the area lies inside one 16K slot: locations are consecutive
  IN [st EXCEPT !.m = [x \in lo..(lo + SysLen - 1) |-> known[x - lo + 1]] @@ st.m]

\* ---- load=[+]block[+],start[,length,step,offset,inc] ---------------------------------------------------------
\* blocks = the tape: sequence of byte sequences (a block without data is the empty sequence); block numbers start
\* at 1.  pre/suf = 1 when the '+' prefix / suffix is attached; length, step, offset, inc = -1 when absent.
\*   '+' prefix: load the first byte of the block (usually the flag byte) too - without it loading starts at the
\*               second byte;   '+' suffix: load the last byte (usually the parity byte) too
\*   length: the number of bytes to load (default: the number of bytes remaining in the block)
\*   step:   added to the destination address after each byte (default 1)
\*   offset: added to the destination address before a byte is loaded, subtracted afterwards (default 0)
\*   inc:    added too after step if the result overflowed past 65535 (default 0)
\* The k-th destination (k = 0, 1, ...) for a start address i0:
RECURSIVE LoadDest(_, _, _, _)
LoadDest(i, step, inc, k) == IF k = 0 THEN i
                             ELSE LET j == i + step IN LoadDest((IF j >= Top THEN j + inc ELSE j) % Top, step, inc, k - 1)
RECURSIVE LoadWrites(_, _, _, _, _, _, _, _)
LoadWrites(env, m, data, k, i, step, off, inc) ==
  IF k > Len(data) THEN m
  ELSE LET j == i + step
       IN LoadWrites(env, (Loc(env, (i + off) % Top) :> data[k]) @@ m, data, k + 1, (IF j >= Top THEN j + inc ELSE j) % Top, step, off, inc)
Load(env, blocks, st, op) ==
  IF op.blk < 1 \/ op.blk > Len(blocks) THEN Fail(st, "no-such-block")
  ELSE IF env.stop > 0 /\ op.blk >= env.stop THEN Fail(st, "block-after-tape-stop")     \* "--tape-stop BLOCK: Stop the tape at this block number"
  ELSE LET blk   == blocks[op.blk]
           first == op.blk \notin DOMAIN st.pos
           p0    == IF first THEN (IF op.pre = 1 THEN 0 ELSE 1) ELSE st.pos[op.blk]
           lim   == IF op.suf = 1 THEN Len(blk) ELSE Len(blk) - 1            \* bytes p0 .. lim-1 (0-based) may be loaded
           n     == IF op.len < 0 THEN Max(0, lim - p0) ELSE Max(0, Min(op.len, Len(blk) - p0))
           data  == SubSeq(blk, p0 + 1, p0 + n)
           step  == IF op.step < 0 THEN 1 ELSE op.step
           off   == IF op.off < 0 THEN 0 ELSE op.off
           inc   == IF op.inc < 0 THEN 0 ELSE op.inc
           s1    == IF ~first /\ op.pre = 1 THEN Flag(st, "prefix-on-later-stage") ELSE st
           \* an explicit length is "the number of bytes to load", whatever the suffix says about the default; asking for
           \* more bytes than the block has left is not given a meaning
           s2    == IF op.len >= 0 /\ p0 + op.len > Len(blk) THEN Flag(s1, "length-past-end") ELSE s1
           s3    == IF op.start >= Top THEN Flag(s2, "addr-past-top") ELSE s2
           s4    == IF Len(blk) = 0 THEN Flag(s3, "load-no-data") ELSE s3      \* a block without data (a pause, a text block...)
       IN [s4 EXCEPT !.m = LoadWrites(env, st.m, data, 1, op.start % Top, step, off, inc),
                     !.pos = (op.blk :> (p0 + n)) @@ @]

\* ---- call=[/path/to/moduledir:]module.function ---------------------------------------------------------------
\* "The function is called with the memory snapshot (a list of 65536 byte values) as the sole positional argument.
\* The function must modify the snapshot in place."  The function used by the binding reads op.reads (address,
\* value seen) first - it must see the memory as the previous operations left it - and then stores op.writes.
RECURSIVE CallWrites(_, _, _, _)
CallWrites(env, m, ws, k) == IF k > Len(ws) THEN m ELSE CallWrites(env, (Loc(env, ws[k][1]) :> ws[k][2]) @@ m, ws, k + 1)
Call(env, st, op) ==
  LET bad == {k \in 1..Len(op.reads) : LET v == Rd(env, st.m, Loc(env, op.reads[k][1])) IN v # Unknown /\ v # op.reads[k][2]}
      s1  == IF op.called = 0 THEN Bad(st, "call-not-made") ELSE IF bad # {} THEN Bad(st, "call-sees") ELSE st
      s2  == IF op.size # Top THEN Flag(s1, "call-arg-size") ELSE s1
  IN [s2 EXCEPT !.m = CallWrites(env, st.m, op.writes, 1)]

\* ---- the operations in command-line order --------------------------------------------------------------------
Apply(env, blocks, st, op) ==
  CASE op.k = "poke"    -> Poke(env, st, op)
    [] op.k = "move"    -> Move(env, st, op)
    [] op.k = "patch"   -> Patch(env, st, op)
    [] op.k = "sysvars" -> Sysvars(env, st)
    [] op.k = "load"    -> Load(env, blocks, st, op)
    [] op.k = "call"    -> Call(env, st, op)
St0 == [m |-> <<>>, pos |-> <<>>, flags |-> {}, err |-> "", bad |-> ""]
RECURSIVE RunFrom(_, _, _, _, _)
RunFrom(env, blocks, st, ops, k) == IF k > Len(ops) \/ st.err # "" THEN st ELSE RunFrom(env, blocks, Apply(env, blocks, st, ops[k]), ops, k + 1)
Run(env, blocks, ops) == RunFrom(env, blocks, St0, ops, 1)

\* ---- registers -----------------------------------------------------------------------------------------------
\* "--reg name=value"; "-s/--start START ... equivalent to --reg pc=START"; "-p/--stack STACK ... equivalent to
\* --reg sp=STACK"; "The default value for each register is 0, with the following exceptions: i=63, iy=23610"
Reg8  == {"a", "f", "b", "c", "d", "e", "h", "l", "^a", "^f", "^b", "^c", "^d", "^e", "^h", "^l", "i", "r"}
Reg16 == {"ix", "iy", "sp", "pc", "memptr"}
Pairs == [bc |-> <<"b", "c">>, de |-> <<"d", "e">>, hl |-> <<"h", "l">>] @@
         ("^bc" :> <<"^b", "^c">>) @@ ("^de" :> <<"^d", "^e">>) @@ ("^hl" :> <<"^h", "^l">>)
RegDefault == [n \in Reg8 \cup Reg16 |-> IF n = "i" THEN 63 ELSE IF n = "iy" THEN 23610 ELSE 0]
RegSet(rf, name, v) ==
  IF name \in Reg8 THEN [rf EXCEPT ![name] = v % 256]
  ELSE IF name \in Reg16 THEN [rf EXCEPT ![name] = v % 65536]
  ELSE [rf EXCEPT ![Pairs[name][1]] = (v \div 256) % 256, ![Pairs[name][2]] = v % 256]
RegApply(rf, o) == IF o.k = "reg" THEN RegSet(rf, o.name, o.v)
                   ELSE IF o.k = "start" THEN RegSet(rf, "pc", o.v)
                   ELSE IF o.k = "stack" THEN RegSet(rf, "sp", o.v) ELSE rf
RECURSIVE RegRun(_, _, _)
RegRun(rf, os, k) == IF k > Len(os) THEN rf ELSE RegRun(RegApply(rf, os[k]), os, k + 1)
\* the fields of a snapshot file
RegView(rf) == [a |-> rf["a"], f |-> rf["f"], bc |-> rf["b"] * 256 + rf["c"], de |-> rf["d"] * 256 + rf["e"], hl |-> rf["h"] * 256 + rf["l"],
                a2 |-> rf["^a"], f2 |-> rf["^f"], bc2 |-> rf["^b"] * 256 + rf["^c"], de2 |-> rf["^d"] * 256 + rf["^e"],
                hl2 |-> rf["^h"] * 256 + rf["^l"], ix |-> rf["ix"], iy |-> rf["iy"], sp |-> rf["sp"], pc |-> rf["pc"],
                i |-> rf["i"], r |-> rf["r"], memptr |-> rf["memptr"]]
RegOfView(v) == [n \in Reg8 \cup Reg16 |->
                   CASE n = "a" -> v.a [] n = "f" -> v.f [] n = "b" -> v.bc \div 256 [] n = "c" -> v.bc % 256 [] n = "d" -> v.de \div 256
                     [] n = "e" -> v.de % 256 [] n = "h" -> v.hl \div 256 [] n = "l" -> v.hl % 256 [] n = "^a" -> v.a2 [] n = "^f" -> v.f2
                     [] n = "^b" -> v.bc2 \div 256 [] n = "^c" -> v.bc2 % 256 [] n = "^d" -> v.de2 \div 256 [] n = "^e" -> v.de2 % 256
                     [] n = "^h" -> v.hl2 \div 256 [] n = "^l" -> v.hl2 % 256 [] n = "i" -> v.i [] n = "r" -> v.r [] n = "ix" -> v.ix
                     [] n = "iy" -> v.iy [] n = "sp" -> v.sp [] n = "pc" -> v.pc [] n = "memptr" -> Max(0, v.memptr)]

\* ---- hardware state ------------------------------------------------------------------------------------------
\* "--state name=value": 7ffd, ay[N], fffd (128K only), fe (SZX only), border (default 0), iff (default 1), im (default 1),
\* issue2 (default 0), tstates (default 34943)
HwDefault == [border |-> 0, iff |-> 1, im |-> 1, issue2 |-> 0, tstates |-> 34943, o7ffd |-> 0, offfd |-> 0, fe |-> 0, ay |-> [n \in 0..15 |-> 0]]
HwApply(hw, o) ==
  IF o.k # "state" THEN hw
  ELSE CASE o.name = "border"  -> [hw EXCEPT !.border = o.v]
         [] o.name = "iff"     -> [hw EXCEPT !.iff = o.v]
         [] o.name = "im"      -> [hw EXCEPT !.im = o.v]
         [] o.name = "issue2"  -> [hw EXCEPT !.issue2 = o.v]
         [] o.name = "tstates" -> [hw EXCEPT !.tstates = o.v]
         [] o.name = "7ffd"    -> [hw EXCEPT !.o7ffd = o.v]
         [] o.name = "fffd"    -> [hw EXCEPT !.offfd = o.v]
         [] o.name = "fe"      -> [hw EXCEPT !.fe = o.v]
         [] o.name = "ay"      -> [hw EXCEPT !.ay[o.n] = o.v]
RECURSIVE HwRun(_, _, _)
HwRun(hw, os, k) == IF k > Len(os) THEN hw ELSE HwRun(HwApply(hw, os[k]), os, k + 1)
=============================================================================
