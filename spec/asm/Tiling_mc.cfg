SPECIFICATION Spec
CONSTANTS
  N = 6
  MaxLen = 4
INVARIANT Lossless
INVARIANT NoOverlap
INVARIANT Complete
CHECK_DEADLOCK FALSE
