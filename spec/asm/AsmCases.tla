----------------------------- MODULE AsmCases -----------------------------
(***************************************************************************)
(* C02: assembler and disassembler are mutual inverses.                    *)
(* kind "dis": bytes at an address were disassembled (any base / case /     *)
(*   Opcodes set) and the text reassembled.  TLC checks: reassembled bytes  *)
(*   = the bytes the instruction object carries = memory contents of the    *)
(*   specification's Length; the instruction template equals the            *)
(*   specification's (numbers replaced by #) or the DEFB form; every        *)
(*   numeric literal, read by the AsmLit grammar, has the value of the      *)
(*   operand the specification decoded.                                     *)
(* kind "def": a DEFB/DEFM/DEFS/DEFW statement from the disassembler        *)
(*   reassembles to the data it was made from.                              *)
(* kind "asm": a generated spelling the assembler accepted: every assembled *)
(*   value is a byte, and disassemble -> assemble reproduces the bytes.     *)
(***************************************************************************)
EXTENDS Z80Asm, AsmLit, Json, IOUtils

Cases == JsonDeserialize(IOEnv.CASES)
VARIABLES tid, verdict

SeqToSet(q) == { q[i] : i \in 1..Len(q) }
Bytes(M(_), pc, n) == [k \in 1..n |-> M(W16(pc + k - 1))]
AllBytes(q) == \A i \in 1..Len(q) : q[i] \in 0..255

LitOK(op, lit) ==
  CASE op[1] = "b" -> Value(lit) # Undefined /\ (Value(lit) - op[2]) % 256 = 0 /\ Value(lit) \in -255..255
    [] op[1] = "w" -> Value(lit) # Undefined /\ (Value(lit) - op[2]) % 65536 = 0 /\ Value(lit) \in -65535..65535
    [] op[1] = "d" -> /\ Len(lit) > 1 /\ lit[1] \in {43, 45}
                      /\ LET m == Value(Tail(lit)) IN
                         m # Undefined /\ m \in -255..255 /\ ((IF lit[1] = 45 THEN 0 - m ELSE m) - op[2]) % 256 = 0

JudgeDis(c) ==
  LET M(a) == MemAt(c.ov, a)
      len == Length(M, c.pc)
      to == Template(M, c.pc)
      relOut == M(c.pc) \in {16, 24, 32, 40, 48, 56} /\ (c.pc + 2 + Signed8(M(W16(c.pc + 1)))) \notin 0..65535
      enabled == (to[2] = "" \/ to[2] \in SeqToSet(c.opts)) /\ ~relOut
      asDefb == to[2] = "DEFB" \/ ~enabled
      \* a DEFB statement does not wrap past 65535: it stops at the end of memory
      n == IF asDefb /\ c.pc + len > 65536 THEN 65536 - c.pc ELSE len
      src == Bytes(M, c.pc, n)
      ops == IF asDefb THEN [k \in 1..n |-> <<"b", src[k]>>] ELSE Operands(M, c.pc)
  IN
  IF c.exc # "" THEN "exception"
  ELSE IF c.ibytes # src THEN "instruction-bytes"
  ELSE IF ~AllBytes(c.reasm) THEN "not-a-byte"
  ELSE IF c.reasm # src THEN "reassembled-bytes"
  ELSE IF asDefb /\ c.template # "DEFB #" /\ c.template # "DEFB " \o DefbHashes(n) THEN "defb-template"
  ELSE IF ~asDefb /\ c.template # to[1] THEN "template"
  ELSE IF Len(c.lits) # Len(ops) THEN "literal-count"
  ELSE IF \E i \in 1..Len(ops) : ~LitOK(ops[i], c.lits[i]) THEN "literal-value"
  ELSE "ok"

JudgeDef(c) ==
  IF c.exc # "" THEN "exception"
  ELSE IF c.covers # 1 THEN "range-not-covered"
  ELSE IF ~AllBytes(c.reasm) THEN "not-a-byte"
  ELSE IF c.reasm # c.data THEN "reassembled-bytes"
  ELSE "ok"

\* c.bytes1 = assemble(text); c.text2 = disassemble(bytes1); c.bytes2 = assemble(text2)
JudgeAsm(c) ==
  IF c.exc # "" THEN "ok"        \* a crash is not acceptance: counted as drift by the harness, outside this property
  ELSE IF c.accepted = 0 THEN "ok"
  ELSE IF ~AllBytes(c.bytes1) THEN "not-a-byte"
  ELSE IF c.bytes2 # c.bytes1 THEN "second-assembly-differs"
  ELSE "ok"

Judge(c) == CASE c.kind = "dis" -> JudgeDis(c) [] c.kind = "def" -> JudgeDef(c) [] c.kind = "asm" -> JudgeAsm(c)

Init == tid \in 1..Len(Cases) /\ verdict = "pending"
Next == /\ verdict = "pending"
        /\ verdict' = Judge(Cases[tid])
        /\ UNCHANGED tid
        /\ (verdict' = "ok" \/ PrintT(<<"FAIL", tid, verdict'>>))
=============================================================================
