------------------------------- MODULE Tiling -------------------------------
(***************************************************************************)
(* C01: a skool file as a tiling of an address range by statements.         *)
(* State machine: `next` = first address not yet covered, `img` = bytes      *)
(* poked so far.  Emit(addr, bytes) is enabled only at addr = next (or after *)
(* an ignored gap that carries an @org) and requires bytes to equal the      *)
(* original memory there; wrap past 65535 only with Wrap.                    *)
(* TilingCases judges recorded pipelines (sna2skool -> skool2bin).           *)
(***************************************************************************)
EXTENDS Integers, Sequences, FiniteSets

\* --- the abstract machine (model-checked by Tiling_mc) -------------------
CONSTANTS N,          \* size of the range 0..N-1
          MaxLen      \* longest statement
VARIABLES next, img, mem, ign

vars == <<next, img, mem, ign>>

Init == /\ next = 0 /\ img = <<>>
        /\ mem \in [0..N-1 -> 0..1]
        /\ ign \in SUBSET (0..N-1)

Emit(len) ==
  /\ next + len <= N
  /\ \A k \in 0..len-1 : next + k \notin ign
  /\ img' = img \o [k \in 1..len |-> mem[next + k - 1]]
  /\ next' = next + len
  /\ UNCHANGED <<mem, ign>>
SkipIgnored ==
  /\ next < N /\ next \in ign
  /\ img' = Append(img, 2)          \* 2 = "no byte written here"
  /\ next' = next + 1
  /\ UNCHANGED <<mem, ign>>
Next == (\E len \in 1..MaxLen : Emit(len)) \/ SkipIgnored
Spec == Init /\ [][Next]_vars

Lossless == \A a \in 0..Len(img)-1 : a \notin ign => img[a + 1] = mem[a]
NoOverlap == Len(img) = next
Complete == next = N => Len(img) = N

\* --- judging a recorded pipeline -----------------------------------------
InRange(q, lo, hi) == \A i \in 1..Len(q) : q[i] >= lo /\ q[i] < hi
Increasing(q) == \A i \in 1..Len(q)-1 : q[i] < q[i + 1]
=============================================================================
