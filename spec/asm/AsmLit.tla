------------------------------ MODULE AsmLit ------------------------------
(***************************************************************************)
(* The operand-literal grammar of Z80 assembly language as SkoolKit's       *)
(* documentation defines it, as a function from character sequences         *)
(* (Seq(0..255)) to integers:                                               *)
(*   decimal | $hex | %binary | "c" | "\c"   with unary minus and            *)
(*   products and sums of atoms: atom {x atom} {(+|-) term}  (no spaces)      *)
(* Value(s) = Undefined when s is not in the grammar.                       *)
(***************************************************************************)
EXTENDS Integers, Sequences

Undefined == -99999999

HexVal(c) == IF c >= 48 /\ c <= 57 THEN c - 48
             ELSE IF c >= 65 /\ c <= 70 THEN c - 55
             ELSE IF c >= 97 /\ c <= 102 THEN c - 87 ELSE 99

RECURSIVE Digits(_, _, _, _)
\* scan base-b digits from position i: <<value, next index>>
Digits(s, i, b, acc) ==
  IF i <= Len(s) /\ HexVal(s[i]) < b THEN Digits(s, i + 1, b, (acc * b) + HexVal(s[i])) ELSE <<acc, i>>

\* <<value, next index>>, next index 0 = syntax error
Atom(s, i) ==
  LET neg == i <= Len(s) /\ s[i] = 45
      j == IF neg THEN i + 1 ELSE i
      r == IF j > Len(s) THEN <<0, 0>>
           ELSE IF s[j] = 36 THEN (LET d == Digits(s, j + 1, 16, 0) IN IF d[2] = j + 1 THEN <<0, 0>> ELSE d)
           ELSE IF s[j] = 37 THEN (LET d == Digits(s, j + 1, 2, 0) IN IF d[2] = j + 1 THEN <<0, 0>> ELSE d)
           ELSE IF s[j] = 34 THEN
             (IF j + 3 <= Len(s) /\ s[j + 1] = 92 /\ s[j + 3] = 34 THEN <<s[j + 2], j + 4>>
              ELSE IF j + 2 <= Len(s) /\ s[j + 1] # 92 /\ s[j + 2] = 34 THEN <<s[j + 1], j + 3>>
              ELSE <<0, 0>>)
           ELSE IF HexVal(s[j]) < 10 THEN Digits(s, j, 10, 0)
           ELSE <<0, 0>>
  IN IF r[2] = 0 THEN r ELSE <<IF neg THEN 0 - r[1] ELSE r[1], r[2]>>

RECURSIVE TermTail(_, _, _)
TermTail(s, i, acc) ==
  IF i <= Len(s) /\ s[i] = 42
  THEN LET a == Atom(s, i + 1) IN IF a[2] = 0 THEN <<0, 0>> ELSE TermTail(s, a[2], acc * a[1])
  ELSE <<acc, i>>
Term(s, i) == LET a == Atom(s, i) IN IF a[2] = 0 THEN a ELSE TermTail(s, a[2], a[1])

RECURSIVE ExprTail(_, _, _)
ExprTail(s, i, acc) ==
  IF i <= Len(s) /\ s[i] \in {43, 45}
  THEN LET t == Term(s, i + 1) IN
       IF t[2] = 0 THEN <<0, 0>> ELSE ExprTail(s, t[2], IF s[i] = 43 THEN acc + t[1] ELSE acc - t[1])
  ELSE <<acc, i>>

Value(s) ==
  LET t == Term(s, 1)
      e == IF t[2] = 0 THEN t ELSE ExprTail(s, t[2], t[1])
  IN IF e[2] = Len(s) + 1 THEN e[1] ELSE Undefined
=============================================================================
