---------------------------- MODULE TilingCases ----------------------------
(***************************************************************************)
(* Pattern B for C01 (and the C01 part of C14).  A case:                    *)
(*  start, end : requested range; mem : original bytes of [start, end)       *)
(*  ignored : <<lo, hi>> ranges inside i blocks                              *)
(*  binstart, bin : what skool2bin wrote; stmts : statement addresses in     *)
(*  file order; err : tool failure text ("" if none)                         *)
(***************************************************************************)
EXTENDS Integers, Sequences, Json, IOUtils, TLC

Cases == JsonDeserialize(IOEnv.CASES)
VARIABLES tid, verdict

Ignored(c, a) == \E i \in 1..Len(c.ignored) : a >= c.ignored[i][1] /\ a < c.ignored[i][2]
\* address a (possibly >= 65536 when the range wraps) as an index into bin
BinAt(c, a) == LET k == a - c.binstart IN IF k >= 0 /\ k < Len(c.bin) THEN c.bin[k + 1] ELSE -1

Judge(c) ==
  IF c.err # "" THEN "tool-error"
  ELSE IF Len(c.stmts) = 0 THEN "no-statements"
  ELSE IF c.stmts[1] # c.start THEN "first-statement"
  ELSE IF \E i \in 1..Len(c.stmts)-1 : c.stmts[i] >= c.stmts[i + 1] THEN "order"
  ELSE IF \E i \in 1..Len(c.stmts) : c.stmts[i] < c.start \/ c.stmts[i] >= c.end THEN "outside-range"
  ELSE IF \E a \in c.start..(c.end - 1) : ~Ignored(c, a) /\ BinAt(c, a) = -1 THEN "not-covered"
  ELSE IF \E a \in c.start..(c.end - 1) : ~Ignored(c, a) /\ BinAt(c, a) # c.mem[a - c.start + 1] THEN "bytes"
  ELSE "ok"

Init == tid \in 1..Len(Cases) /\ verdict = "pending"
Next == /\ verdict = "pending"
        /\ verdict' = Judge(Cases[tid])
        /\ UNCHANGED tid
        /\ (verdict' = "ok" \/ PrintT(<<"FAIL", tid, verdict'>>))
=============================================================================
