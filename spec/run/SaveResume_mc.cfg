SPECIFICATION Spec
CONSTANTS
  Frame = 96
  IA = 8
  TMod = 256
  SzxReducesModFrame = TRUE
  MaxSteps = 40
  Programs <- MCPrograms
INVARIANT Transparent
CHECK_DEADLOCK FALSE
