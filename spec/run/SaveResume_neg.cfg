SPECIFICATION Spec
CONSTANTS
  Frame = 96
  IA = 8
  TMod = 256
  SzxReducesModFrame = TRUE
  AyLostOn48K = TRUE
  MaxSteps = 40
  Programs <- NegPrograms
INVARIANT Transparent
CHECK_DEADLOCK FALSE
