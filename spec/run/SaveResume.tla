----------------------------- MODULE SaveResume -----------------------------
(***************************************************************************)
(* C10: saving a snapshot at an instruction boundary and resuming from it   *)
(* is transparent.  Two copies of the machine (Z80!StepInt) run the same    *)
(* program in lock-step; SaveLoad(fmt) replaces `live` by what survives a   *)
(* snapshot write + read:                                                   *)
(*   - HALT state is not stored (HaltNotSaved): the HALT re-executes        *)
(*   - the T-state clock comes back as the frame position (T mod frame);    *)
(*     the SZX field is TWidth bits wide and stores T mod 2^TWidth when     *)
(*     SzxReducesModFrame = FALSE (the behaviour before the repair)         *)
(*   - Z80 drops MEMPTR                                                     *)
(* Transparent: observable state (registers, memory, frame position) equal. *)
(***************************************************************************)
EXTENDS Z80

CONSTANTS Frame, IA,           \* scaled frame duration and INT window
          TMod,                \* the SZX T-state field stores T mod TMod
          SzxReducesModFrame,  \* TRUE: the writer reduces T modulo the frame first
          Programs,            \* set of <<r0, ov0>> start states
          MaxSteps

VARIABLES live, shadow, saved, n
vars == <<live, shadow, saved, n>>

S(m) == [r |-> m.r, ov |-> m.ov, inv |-> 255, frame |-> Frame, ia |-> IA, tA |-> -1]
Run(m) == LET e == StepInt(S(m), TRUE) IN [r |-> e.r, ov |-> m.ov \o e.wr]

Init == /\ \E p \in Programs : live = [r |-> p[1], ov |-> p[2]] /\ shadow = [r |-> p[1], ov |-> p[2]]
        /\ saved = FALSE /\ n = 0

StepBoth == /\ n < MaxSteps
            /\ live' = Run(live) /\ shadow' = Run(shadow)
            /\ n' = n + 1 /\ UNCHANGED saved

StoredT(fmt, t) == IF fmt = "z80" \/ SzxReducesModFrame THEN t % Frame ELSE (t % TMod)
SaveLoad(fmt) ==
  /\ ~saved
  /\ live' = [live EXCEPT !.r = [live.r EXCEPT ![rHALT] = 0,
                                              ![rT] = StoredT(fmt, live.r[rT]),
                                              ![rMEMPTR] = IF fmt = "z80" THEN 0 ELSE live.r[rMEMPTR]]]
  /\ saved' = TRUE
  /\ UNCHANGED <<shadow, n>>

Next == StepBoth \/ SaveLoad("szx") \/ SaveLoad("z80")
Spec == Init /\ [][Next]_vars

MemOf(m, a) == MemAt(m.ov, a)
Touched(m) == { m.ov[i][1] : i \in 1..Len(m.ov) }
ObsRegs == (1..13) \cup (15..25) \cup {rIFF, rIM}
Transparent ==
  /\ \A i \in ObsRegs : live.r[i] = shadow.r[i]
  /\ (live.r[rT] % Frame) = (shadow.r[rT] % Frame)
  /\ \A a \in Touched(live) \cup Touched(shadow) : MemOf(live, a) = MemOf(shadow, a)
=============================================================================
