----------------------------- MODULE SaveResume -----------------------------
(***************************************************************************)
(* C10: saving a snapshot at an instruction boundary and resuming from it   *)
(* is transparent.  Two copies of the machine (Z80!StepInt) run the same    *)
(* program in lock-step; SaveLoad(fmt) replaces `live` by what survives a   *)
(* snapshot write + read:                                                   *)
(*   - HALT state is not stored (HaltNotSaved): the HALT re-executes        *)
(*   - the T-state clock comes back as the frame position (T mod frame);    *)
(*     the SZX field is TWidth bits wide and stores T mod 2^TWidth when     *)
(*     SzxReducesModFrame = FALSE (the behaviour before the repair)         *)
(*   - Z80 drops MEMPTR                                                     *)
(*   - the I/O devices trace.py keeps beside the CPU - border, the 0x7FFD   *)
(*     latch with its lock bit, the AY register select (0xFFFD) and the 16  *)
(*     AY registers (0xBFFD), read back through IN - are part of the        *)
(*     machine: an OUT updates them, an IN from 0xFFFD returns the selected *)
(*     register.  A 128K snapshot stores them; a 48K snapshot stores the    *)
(*     border only although trace.py answers the AY ports on a 48K machine  *)
(*     too (named deviation AyLostOn48K, an open finding of C10).           *)
(* Transparent: observable state (registers, memory, frame position,        *)
(* devices) equal.                                                          *)
(***************************************************************************)
EXTENDS Z80

CONSTANTS Frame, IA,           \* scaled frame duration and INT window
          TMod,                \* the SZX T-state field stores T mod TMod
          SzxReducesModFrame,  \* TRUE: the writer reduces T modulo the frame first
          Programs,            \* set of <<r0, ov0, m128>> start states (m128 = 1: 128K machine)
          AyLostOn48K,         \* TRUE: what skoolkit does (a 48K snapshot has no AY state)
          MaxSteps

VARIABLES live, shadow, saved, n
vars == <<live, shadow, saved, n>>

-----------------------------------------------------------------------------
(* devices: [border, o7, fffd, ay] *)
Dev0 == [border |-> 0, o7 |-> 0, fffd |-> 0, ay |-> [k \in 0..15 |-> 0]]
IsUla(port) == port % 2 = 0
Is7ffd(port) == Bit(port, 15) = 0 /\ Bit(port, 1) = 0
IsAySelect(port) == Bit(port, 15) = 1 /\ Bit(port, 14) = 1 /\ Bit(port, 1) = 0
IsAyData(port) == Bit(port, 15) = 1 /\ Bit(port, 14) = 0 /\ Bit(port, 1) = 0
Out1(d, port, v) ==
  LET d1 == IF IsUla(port) THEN [d EXCEPT !.border = v % 8] ELSE d
      d2 == IF Is7ffd(port) /\ Bit(d1.o7, 5) = 0 THEN [d1 EXCEPT !.o7 = v] ELSE d1
      d3 == IF IsAySelect(port) THEN [d2 EXCEPT !.fffd = v]
            ELSE IF IsAyData(port) /\ d2.fffd < 16 THEN [d2 EXCEPT !.ay[d2.fffd] = v] ELSE d2
  IN d3
DevAfter(d, io) ==
  LET F[k \in 0..Len(io)] == IF k = 0 THEN d ELSE IF io[k][1] = "o" THEN Out1(F[k - 1], io[k][2], io[k][3]) ELSE F[k - 1]
  IN F[Len(io)]

S(m, inv) == [r |-> m.r, ov |-> m.ov, inv |-> inv, frame |-> Frame, ia |-> IA, tA |-> -1]
\* an IN from the AY select port reads the selected register back (255 when none is selected)
InValue(m) ==
  LET e0 == StepInt(S(m, 255), TRUE)
      ayin == \E k \in 1..Len(e0.io) : e0.io[k][1] = "i" /\ IsAySelect(e0.io[k][2])
  IN IF ayin /\ m.dev.fffd < 16 THEN m.dev.ay[m.dev.fffd] ELSE 255
Run(m) == LET e == StepInt(S(m, InValue(m)), TRUE)
          IN [r |-> e.r, ov |-> m.ov \o e.wr, dev |-> DevAfter(m.dev, e.io), m128 |-> m.m128]

Init == /\ \E p \in Programs : /\ live = [r |-> p[1], ov |-> p[2], dev |-> Dev0, m128 |-> p[3]]
                                /\ shadow = [r |-> p[1], ov |-> p[2], dev |-> Dev0, m128 |-> p[3]]
        /\ saved = FALSE /\ n = 0

StepBoth == /\ n < MaxSteps
            /\ live' = Run(live) /\ shadow' = Run(shadow)
            /\ n' = n + 1 /\ UNCHANGED saved

StoredT(fmt, t) == IF fmt = "z80" \/ SzxReducesModFrame THEN t % Frame ELSE (t % TMod)
SaveLoad(fmt) ==
  /\ ~saved
  /\ live' = [live EXCEPT !.r = [live.r EXCEPT ![rHALT] = 0,
                                              ![rT] = StoredT(fmt, live.r[rT]),
                                              ![rMEMPTR] = IF fmt = "z80" THEN 0 ELSE live.r[rMEMPTR]],
                          !.dev = IF live.m128 = 0 /\ AyLostOn48K
                                  THEN [live.dev EXCEPT !.fffd = 0, !.ay = [k \in 0..15 |-> 0], !.o7 = 0]
                                  ELSE live.dev]
  /\ saved' = TRUE
  /\ UNCHANGED <<shadow, n>>

Next == StepBoth \/ SaveLoad("szx") \/ SaveLoad("z80")
Spec == Init /\ [][Next]_vars

MemOf(m, a) == MemAt(m.ov, a)
Touched(m) == { m.ov[i][1] : i \in 1..Len(m.ov) }
ObsRegs == (1..13) \cup (15..25) \cup {rIFF, rIM}
Transparent ==
  /\ \A i \in ObsRegs : live.r[i] = shadow.r[i]
  /\ (live.r[rT] % Frame) = (shadow.r[rT] % Frame)
  /\ \A a \in Touched(live) \cup Touched(shadow) : MemOf(live, a) = MemOf(shadow, a)
  /\ live.dev.border = shadow.dev.border
  /\ (live.m128 = 1 => live.dev = shadow.dev)

\* the latch: once bit 5 is set no later write changes it (C08's lock clause, on this machine)
LockStable == [][Bit(shadow.dev.o7, 5) = 1 => shadow.dev.o7' = shadow.dev.o7]_vars
=============================================================================
