----------------------------- MODULE ResumeCases -----------------------------
(***************************************************************************)
(* C10 judge: leg A (n1+n2 instructions in one run) against leg B (n1, save, *)
(* load, n2) for one split point.  Observation Obs as in SaveResume:         *)
(* registers, interrupt state, border, frame position, paging, AY, RAM;     *)
(* MEMPTR only when the intermediate snapshot was SZX.                       *)
(***************************************************************************)
EXTENDS Integers, Sequences, Json, IOUtils, TLC

Cases == JsonDeserialize(IOEnv.CASES)
VARIABLES tid, verdict

\* The Z80 format cannot store MEMPTR ("Z80 exactly except MEMPTR"): with contention simulation bits 5 and 3 of F
\* after BIT n,(HL) are copied from MEMPTR, so they are excepted together with it
Bit(v, k) == (v \div (2 ^ k)) % 2
MaskF(c, regs) == IF c.fmt = "z80" /\ c.cmio = 1
                  THEN [regs EXCEPT ![2] = regs[2] - (32 * Bit(regs[2], 5)) - (8 * Bit(regs[2], 3))] ELSE regs

Judge(c) ==
  IF c.err # "" THEN "tool-error"
  ELSE IF MaskF(c, c.a_regs) # MaskF(c, c.b_regs) THEN "registers"
  ELSE IF c.a_iff # c.b_iff \/ c.a_im # c.b_im THEN "interrupt-state"
  ELSE IF c.a_tpos # c.b_tpos THEN "frame-position"
  ELSE IF c.a_border # c.b_border THEN "border"
  ELSE IF c.a_o7ffd # c.b_o7ffd \/ c.a_offfd # c.b_offfd THEN "paging"
  ELSE IF c.a_ay # c.b_ay THEN "ay"
  ELSE IF c.a_banks # c.b_banks \/ c.ramdiff # -1 THEN "memory"
  ELSE IF c.fmt = "szx" /\ c.cmio = 1 /\ c.a_memptr # c.b_memptr THEN "memptr"
  ELSE "ok"

Init == tid \in 1..Len(Cases) /\ verdict = "pending"
Next == /\ verdict = "pending"
        /\ verdict' = Judge(Cases[tid])
        /\ UNCHANGED tid
        /\ (verdict' = "ok" \/ PrintT(<<"FAIL", tid, verdict'>>))
=============================================================================
