---------------------------- MODULE SaveResume_mc ----------------------------
EXTENDS SaveResume

Regs(pc, t, iff, im, sp) == [i \in 1..30 |-> CASE i = rPC -> pc [] i = rT -> t [] i = rIFF -> iff [] i = rIM -> im
                                              [] i = rSP -> sp [] i = rI -> 128 [] i = rB -> 2 [] i = rC -> 3 [] OTHER -> 0]
Code(base, bytes) == [k \in 1..Len(bytes) |-> <<base + k - 1, bytes[k]>>]
\* interrupt handler at 0x38: EI ; RET ;  IM 2 vector (I=128 -> 0x80FF) -> 0x9000: EI ; RETI
Handlers == <<<<56, 251>>, <<57, 201>>, <<33023, 0>>, <<33024, 144>>, <<36864, 251>>, <<36865, 237>>, <<36866, 77>>>>

\* EI ; HALT ; INC A ; JR -4      (HALT wait across the frame interrupt)
P1 == Code(32768, <<251, 118, 60, 24, 252>>)
\* EI ; LD A,I ; DD DD NOP ; LD BC,2 ; LDIR ; JR 0x8000   (prefix chain, repeating block instruction, LD A,I quirk)
P2 == Code(32768, <<251, 237, 87, 221, 221, 0, 1, 2, 0, 237, 176, 24, 243>>)
\* IM 2 ; EI ; HALT ; DJNZ -1
P3 == Code(32768, <<237, 94, 251, 118, 16, 253>>)

\* AY: select 31 (none) ; IN (255) ; store ; select 3 ; write 0x55 ; read back ; store ; border ; page with lock ; page again
\*   LD BC,FFFD / LD A,1F / OUT (C),A / IN A,(C) / LD (9100),A / LD A,3 / OUT (C),A / LD B,BF / LD A,55 / OUT (C),A /
\*   LD B,FF / IN A,(C) / LD (9101),A / LD A,5 / OUT (FE),A / LD BC,7FFD / LD A,21 / OUT (C),A / LD A,3 / OUT (C),A / JR $
P4 == Code(32768, <<1, 253, 255, 62, 31, 237, 121, 237, 120, 50, 0, 145, 62, 3, 237, 121, 6, 191, 62, 85, 237, 121,
                    6, 255, 237, 120, 50, 1, 145, 62, 5, 211, 254, 1, 253, 127, 62, 33, 237, 121, 62, 3, 237, 121, 24, 254>>)

MCPrograms == { <<Regs(32768, t, iff, 1, 65000), P1 \o Handlers, m>> : t \in {0, Frame - 9, Frame - 3, TMod - 5}, iff \in {0, 1}, m \in {0, 1} }
         \cup { <<Regs(32768, t, 1, 1, 65000), P2 \o Handlers, 0>> : t \in {0, Frame - 20, Frame - 6} }
         \cup { <<Regs(32768, t, 0, 0, 65000), P3 \o Handlers, 1>> : t \in {Frame - 30, Frame - 12} }
         \cup { <<Regs(32768, t, 0, 1, 65000), P4 \o Handlers, 1>> : t \in {0, Frame - 14} }
\* the same I/O program on a 48K machine: with AyLostOn48K the resumed run reads 0 back - Transparent must FAIL
NegPrograms == { <<Regs(32768, 0, 0, 1, 65000), P4 \o Handlers, 0>> }
=============================================================================
