---------------------------- MODULE SaveResume_mc ----------------------------
EXTENDS SaveResume

Regs(pc, t, iff, im, sp) == [i \in 1..30 |-> CASE i = rPC -> pc [] i = rT -> t [] i = rIFF -> iff [] i = rIM -> im
                                              [] i = rSP -> sp [] i = rI -> 128 [] i = rB -> 2 [] i = rC -> 3 [] OTHER -> 0]
Code(base, bytes) == [k \in 1..Len(bytes) |-> <<base + k - 1, bytes[k]>>]
\* interrupt handler at 0x38: EI ; RET ;  IM 2 vector (I=128 -> 0x80FF) -> 0x9000: EI ; RETI
Handlers == <<<<56, 251>>, <<57, 201>>, <<33023, 0>>, <<33024, 144>>, <<36864, 251>>, <<36865, 237>>, <<36866, 77>>>>

\* EI ; HALT ; INC A ; JR -4      (HALT wait across the frame interrupt)
P1 == Code(32768, <<251, 118, 60, 24, 252>>)
\* EI ; LD A,I ; DD DD NOP ; LD BC,2 ; LDIR ; JR 0x8000   (prefix chain, repeating block instruction, LD A,I quirk)
P2 == Code(32768, <<251, 237, 87, 221, 221, 0, 1, 2, 0, 237, 176, 24, 243>>)
\* IM 2 ; EI ; HALT ; DJNZ -1
P3 == Code(32768, <<237, 94, 251, 118, 16, 253>>)

MCPrograms == { <<Regs(32768, t, iff, 1, 65000), P1 \o Handlers>> : t \in {0, Frame - 9, Frame - 3, TMod - 5}, iff \in {0, 1} }
         \cup { <<Regs(32768, t, 1, 1, 65000), P2 \o Handlers>> : t \in {0, Frame - 20, Frame - 6} }
         \cup { <<Regs(32768, t, 0, 0, 65000), P3 \o Handlers>> : t \in {Frame - 30, Frame - 12} }
=============================================================================
