----------------------------- MODULE RefFileMC -----------------------------
(* constants for model checking RefFile (a .cfg file cannot hold tuples); letters: A=65 B=66 a=97 k=107 v=118 w=119 *)
EXTENDS RefFile, TLC

A == 65
B == 66
k == 107
v == 118
w == 119

\* [A] [A+] [B]
NamesQ == {<<A>>, <<A, PLUS>>, <<B>>}
\* k=v  k=w  "w"  ";w"  "[w]"  "[[w"
TextsQ == {<<k, EQ, v>>, <<k, EQ, w>>, <<w>>, <<SEMI, w>>, <<LB, w, RB>>, <<LB, LB, w>>}
CommentsQ == {<<>>, <<LB, A, RB>>}

\* thorough: also [A++] (appends to a section called "A+"), [B:A], ";;w", "w " (trailing blank), " [A]", "=v", "[w] "
NamesT == NamesQ \cup {<<A, PLUS, PLUS>>, <<B, COLON, A>>}
TextsT == TextsQ \cup {<<SEMI, SEMI, w>>, <<w, SP>>, <<SP, LB, A, RB>>, <<EQ, v>>, <<LB, w, RB, SP>>, <<SEMI>>}
CommentsT == CommentsQ \cup {<<SP, k, EQ, v>>}

\* the merging configuration: headers [A] [A+] [B], one text, deeper
NamesM == NamesQ
TextsM == {<<k, EQ, v>>}
CommentsM == {<<SP, k, EQ, v>>}
\* ... and with [A++]
NamesM2 == NamesQ \cup {<<A, PLUS, PLUS>>}

ContQ == {<<w>>}
ContM == {}

Def == <<<<k, EQ, A>>, <<w, EQ, A>>>>
Cli == <<<<w, EQ, B>>, <<w, EQ, v>>>>
Cli2 == <<<<k, EQ, B>>>>

\* ---- the examples of ref-files.rst, read by the documented reader ---------------------------------------
G == 71
L == <<60, 99, 62>>          \* "<c>"
M == <<60, 47, 99, 62>>      \* "</c>"
T == <<84, 104, 105, 115>>   \* "This"
\* [G] / <c> / ;; This / </c>   is rendered  <c> / ; This / </c>
ASSUME ParseFiles(<<>>, << << <<LB, G, RB>>, L, <<SEMI, SEMI, SP>> \o T, M >> >>, Impl)
         = << [name |-> <<G>>, lines |-> <<L, <<SEMI, SP>> \o T, M>>] >>
\* [G] / <c> / [[This] / </c>   is rendered  <c> / [This] / </c>
ASSUME ParseFiles(<<>>, << << <<LB, G, RB>>, L, <<LB, LB>> \o T \o <<RB>>, M >> >>, Impl)
         = << [name |-> <<G>>, lines |-> <<L, <<LB>> \o T \o <<RB>>, M>>] >>
\* [G] / k=v   and, elsewhere,   [G+] / w=v   adds the line w=v to section G
ASSUME ParseFiles(<<>>, << << <<LB, G, RB>>, <<k, EQ, v>> >>, << <<LB, G, PLUS, RB>>, <<w, EQ, v>> >> >>, Impl)
         = << [name |-> <<G>>, lines |-> <<<<k, EQ, v>>, <<w, EQ, v>>>>] >>
\* "; This is a comment"
ASSUME ParseFiles(<<>>, << << <<LB, G, RB>>, <<SEMI, SP>> \o T, <<k, EQ, v>> >> >>, Impl) = << [name |-> <<G>>, lines |-> <<<<k, EQ, v>>>>] >>
\* -c S/L
ASSUME AddLines(<<>>, << <<G, SLASH, k, EQ, v, SLASH, w>> >>) = << [name |-> <<G>>, lines |-> << <<k, EQ, v, SLASH, w>> >>] >>
\* families: [P:a] [P:a:b] [P:a:b:c] [P] [PP:a]
P == 80
ASSUME LET S == << [name |-> <<P, COLON, A>>, lines |-> <<>>], [name |-> <<P, COLON, A, COLON, B>>, lines |-> <<>>],
                   [name |-> <<P, COLON, A, COLON, B, COLON, G>>, lines |-> <<>>], [name |-> <<P>>, lines |-> <<>>],
                   [name |-> <<P, P, COLON, A>>, lines |-> <<>>] >>
       IN /\ [i \in 1..3 |-> FamilySections(S, <<P>>)[i].parts] = << <<<<A>>>>, <<<<A>>, <<B>>>>, <<<<A>>, <<B, COLON, G>>>> >>
          /\ [i \in 1..3 |-> FamilyDicts(S, <<P>>)[i].suffix] = << <<A>>, <<A, COLON, B>>, <<A, COLON, B, COLON, G>> >>
          /\ Len(FamilySections(S, <<P>>)) = 3
=============================================================================
