------------------------------ MODULE RefCases ------------------------------
(***************************************************************************)
(* E03, pattern B.  One case = generated ref / ini files (lines as          *)
(* sequences of code points) with what the real code made of them           *)
(* (harness/drivers/refdrv.py).  TLC reads the files with the documented     *)
(* reader of RefDefs and compares.                                           *)
(*                                                                          *)
(* k = "parse"   files read by RefParser.parse one after the other           *)
(*     q    <<[n, has, raw, trim, paras, dict]>>  per queried section name:   *)
(*          has_section, get_section(lines, trim=False), get_section(lines), *)
(*          get_section(paragraphs, lines), get_dictionary as <<key, value>> *)
(*     fam  <<[p, secs, dicts]>> per prefix: get_sections(p, lines,          *)
(*          trim=False) as <<[parts, lines]>>, get_dictionaries(p) as        *)
(*          <<[suffix, dict]>>                                               *)
(* k = "site"    skool2html.main run on game.skool with ref files; the       *)
(*          observations are made by an HtmlWriter subclass in init()        *)
(*     auto, dir, cmd, cli: see RefDefs!UserSections; the lines printed by   *)
(*          skool2html.py -r for the queried built-in sections are the same  *)
(*          for every case (Aux.defaults)                                    *)
(*     uq   <<[n, has, raw]>>   the user's sections (writer.ref_parser)      *)
(*     q    <<[n, text, raw, dict]>>  HtmlWriter.get_section(lines,          *)
(*          trim=False) (judged if text = 1) and HtmlWriter.get_dictionary   *)
(*     fam  as above through HtmlWriter.get_sections / get_dictionaries      *)
(*     gamedir  the directory created under the output directory; skool:     *)
(*          base name of the skool file                                       *)
(*     cfg  <<configuration record>> (one or none), see below                *)
(* k = "cfg"     a command run with skoolkit.ini and -I options              *)
(*     cfg  <<[tool, def, ints, ini, cli, shown, shownc, eff]>>              *)
(*          def: --show-config without skoolkit.ini; ints: the parameters    *)
(*          whose default is a number; ini: lines of skoolkit.ini; cli: the  *)
(*          -I specs; shown: --show-config with the ini file; shownc: with   *)
(*          the ini file and the -I options; eff: <<parameter, value>> seen  *)
(*          in the behaviour of the command run with ini file and -I options *)
(* k = "reffile" full: lines printed by -R; parts <<[p, out]>>: lines        *)
(*          printed by -r p                                                  *)
(*                                                                          *)
(* Verdict: "ok"; "drift:..." when only an undocumented choice other than    *)
(* skoolkit's present one explains the observation; else the first failing   *)
(* clause (FAIL).                                                            *)
(***************************************************************************)
EXTENDS RefDefs, Json, IOUtils, TLC

Cases == JsonDeserialize(IOEnv.CASES)
\* the same for every case: [defaults |-> the lines printed by skool2html.py -r for the queried built-in sections]
Aux == JsonDeserialize(IOEnv.AUX)
DefaultSecs(V) == ParseFile(<<>>, Aux.defaults, V)
VARIABLES tid, verdict

FnOf(pairs) == [x \in {p[1] : p \in Range(pairs)} |-> (CHOOSE p \in Range(pairs) : p[1] = x)[2]]
Restrict(f, S) == [x \in DOMAIN f \cap S |-> f[x]]
DriftVerdicts == {"drift:malformed-number", "drift:show-config-before-ini-options", "drift:order", "drift:variant", "drift:auto-order",
                  "drift:append-replaces-built-in-section", "drift:config-line-added-twice"}
IsDrift(s) == s \in DriftVerdicts
\* accepted when another variant / order is tried: "ok" or one of skoolkit's standing deviations
Soft(s) == s \in {"ok", "drift:show-config-before-ini-options", "drift:append-replaces-built-in-section", "drift:config-line-added-twice"}
\* the first hard failure, else the first drift, else "ok"
First(q) == LET hard == SelectSeq(q, LAMBDA s : s # "ok" /\ ~IsDrift(s))
                soft == SelectSeq(q, LAMBDA s : s # "ok")
            IN IF hard # <<>> THEN hard[1] ELSE IF soft # <<>> THEN soft[1] ELSE "ok"
Fails(q) == q
SeqOrSet(a, b, strict) == IF strict THEN a = b ELSE Range(a) = Range(b) /\ Len(a) = Len(b)

\* ---- one queried section / family against sections S ----------------------------------------------------
QClause(q, S) ==
  IF (q.has = 1) # Has(S, q.n) THEN "has-section"
  ELSE IF q.raw # LinesOf(S, q.n) THEN "section-lines"
  ELSE IF q.trim # Trimmed(LinesOf(S, q.n)) THEN "trim"
  ELSE IF q.paras # Paragraphs(Trimmed(LinesOf(S, q.n))) THEN "paragraphs"
  ELSE IF FnOf(q.dict) # DictOf(LinesOf(S, q.n)) THEN "dictionary"
  ELSE "ok"
ObsSecs(f) == [i \in 1..Len(f.secs) |-> [parts |-> f.secs[i].parts, lines |-> f.secs[i].lines]]
ObsDicts(f) == [i \in 1..Len(f.dicts) |-> [suffix |-> f.dicts[i].suffix, dict |-> FnOf(f.dicts[i].dict)]]
FClause(f, S, strict) ==
  IF ~SeqOrSet(ObsSecs(f), FamilySections(S, f.p), strict) THEN "family-sections"
  ELSE IF ~SeqOrSet(ObsDicts(f), FamilyDicts(S, f.p), strict) THEN "family-dictionaries"
  ELSE "ok"

ParseClause(c, V, strict) ==
  LET S == ParseFiles(<<>>, c.files, V) IN
  First(Fails([i \in 1..Len(c.q) |-> QClause(c.q[i], S)] \o [i \in 1..Len(c.fam) |-> FClause(c.fam[i], S, strict)]))

\* ---- configuration chain ---------------------------------------------------------------------------------
Digits == 48..57
IsCanonInt(v) ==
  \/ v = <<48>>
  \/ LET d == IF v # <<>> /\ v[1] = 45 THEN Tail(v) ELSE v IN
     d # <<>> /\ d[1] \in 49..57 /\ \A i \in 1..Len(d) : d[i] \in Digits
\* IgnoreMalformed: a value that is not a number is ignored for a numeric parameter (not documented)
Accepted(d, ints) == Restrict(d, {x \in DOMAIN d : x \notin ints \/ IsCanonInt(d[x])})
Malformed(d, ints) == \E x \in DOMAIN d \cap ints : ~IsCanonInt(d[x])
CfgClause(g, V) ==
  LET def == FnOf(g.def)
      ints == Range(g.ints)
      inid == IniDict(g.ini, g.tool, V)
      clid == DictOf(g.cli)
      exp1 == Chain(def, Accepted(inid, ints), EmptyDict)
      exp2 == Chain(def, Accepted(inid, ints), Accepted(clid, ints))
      soft == Malformed(inid, ints) \/ \E i \in 1..Len(g.cli) : Malformed(DictOf(<<g.cli[i]>>), ints)
      bad(s) == IF soft THEN "drift:malformed-number" ELSE s
  IN IF Restrict(FnOf(g.shown), DOMAIN def) # exp1 THEN bad("show-config:ini-section")
     ELSE IF \E i \in 1..Len(g.eff) : g.eff[i][1] \notin DOMAIN def \/ exp2[g.eff[i][1]] # g.eff[i][2] THEN bad("effective-value")
     ELSE IF Restrict(FnOf(g.shownc), DOMAIN def) = exp2 THEN "ok"
     ELSE IF Restrict(FnOf(g.shownc), DOMAIN def) = exp1 THEN "drift:show-config-before-ini-options"
     ELSE bad("show-config:ini-options")
CfgsClause(gs, V) == First(Fails([i \in 1..Len(gs) |-> CfgClause(gs[i], V)]))

\* ---- skool2html with ref files ----------------------------------------------------------------------------
UQClause(q, U, U2) ==
  IF q.n = CONFIG THEN
    (IF q.raw = LinesOf(U, q.n) THEN "ok" ELSE IF q.raw = LinesOf(U2, q.n) THEN "drift:config-line-added-twice" ELSE "user-section-lines")
  ELSE IF (q.has = 1) # Has(U, q.n) THEN "user-has-section"
  ELSE IF q.raw = LinesOf(U, q.n) THEN "ok"
  ELSE "user-section-lines"
\* "Content may be appended to an existing ref file section defined elsewhere by adding a '+' suffix": when the section
\* exists only in the built-in ref file and the user's files only ever append to it, HtmlWriter.get_section returns the
\* appended lines alone.  Both that and built-in + appended lines are accepted; the former is counted (drift).
PlainSomewhere(c, n) ==
  \/ \E i \in 1..Len(c.auto) : \E j \in 1..Len(c.auto[i]) : RStrip(c.auto[i][j]) = <<LB>> \o n \o <<RB>>
  \/ \E i \in 1..Len(c.dir) : \E j \in 1..Len(c.dir[i].lines) : RStrip(c.dir[i].lines[j]) = <<LB>> \o n \o <<RB>>
  \/ \E i \in 1..Len(c.cli) : SpecOK(c.cli[i]) /\ SpecSection(c.cli[i]) = n
WQClause(c, q, D, U) ==
  IF FnOf(q.dict) # WDict(D, U, q.n) THEN "writer-dictionary"
  ELSE IF q.text = 0 \/ q.raw = WLines(D, U, q.n) THEN
    (IF q.text = 1 /\ Has(D, q.n) /\ Has(U, q.n) /\ LinesOf(D, q.n) # <<>> /\ ~PlainSomewhere(c, q.n) THEN "drift:append-replaces-built-in-section" ELSE "ok")
  ELSE IF Has(D, q.n) /\ Has(U, q.n) /\ ~PlainSomewhere(c, q.n) /\ q.raw = LinesOf(D, q.n) \o LinesOf(U, q.n) THEN "ok"
  ELSE "writer-section-lines"
WSecs(D, U, p) == LET m == WSections(D, U, p) IN [i \in 1..Len(m) |-> [parts |-> m[i].key, lines |-> m[i].val]]
WDcts(D, U, p) == LET m == WDicts(D, U, p) IN [i \in 1..Len(m) |-> [suffix |-> m[i].key, dict |-> m[i].val]]
WFClause(f, D, U, strict) ==
  IF ~SeqOrSet(ObsSecs(f), WSecs(D, U, f.p), strict) THEN "writer-family-sections"
  ELSE IF ~SeqOrSet(ObsDicts(f), WDcts(D, U, f.p), strict) THEN "writer-family-dictionaries"
  ELSE "ok"
SiteClauses(c, V, auto, strict) ==
  IF ~AllNamed(c.dir, c.cmd) THEN <<"machinery:cmd-file">>
  ELSE LET D == DefaultSecs(V)
           U == UserSections(auto, c.dir, c.cmd, c.cli, V)
           U2 == UserSectionsTwice(D, auto, c.dir, c.cmd, c.cli, V)
       IN [i \in 1..Len(c.uq) |-> UQClause(c.uq[i], U, U2)] \o [i \in 1..Len(c.q) |-> WQClause(c, c.q[i], D, U)]
          \o [i \in 1..Len(c.fam) |-> WFClause(c.fam[i], D, U, strict)]
          \o <<IF c.gamedir # GameDir(auto, c.cli, c.skool, V) THEN "game-dir" ELSE "ok">> \o <<CfgsClause(c.cfg, V)>>
SiteClause(c, V, auto, strict) == First(SiteClauses(c, V, auto, strict))
Perms(n) == {f \in [1..n -> 1..n] : \A i, j \in 1..n : f[i] = f[j] => i = j}
Permuted(q, f) == [i \in 1..Len(q) |-> q[f[i]]]

\* ---- skool2html -R / -r PREFIX: "Show default ref file sections whose names start with PREFIX" -------------
RefFileClause(c) ==
  LET D == ParseFile(<<>>, c.full, Impl) IN
  IF Len(D) = 0 THEN "ref-file:empty"
  ELSE IF \E i \in 1..Len(c.parts) : ParseFile(<<>>, c.parts[i].out, Impl) # SelectSeq(D, LAMBDA s : StartsWith(s.name, c.parts[i].p))
  THEN "ref-sections"
  ELSE "ok"

Judge(c) ==
  IF c.k = "parse" THEN
    LET r == ParseClause(c, Impl, TRUE) IN
    IF r = "ok" THEN "ok"
    ELSE IF ParseClause(c, Impl, FALSE) = "ok" THEN "drift:order"
    ELSE IF \E V \in Variants : ParseClause(c, V, FALSE) = "ok" THEN "drift:variant"
    ELSE r
  ELSE IF c.k = "site" THEN
    LET r == SiteClause(c, Impl, c.auto, TRUE) IN
    IF r = "ok" \/ IsDrift(r) THEN r
    ELSE IF Soft(SiteClause(c, Impl, c.auto, FALSE)) THEN "drift:order"
    ELSE IF \E V \in Variants : Soft(SiteClause(c, V, c.auto, FALSE)) THEN "drift:variant"
    ELSE IF \E f \in Perms(Len(c.auto)) : Soft(SiteClause(c, Impl, Permuted(c.auto, f), FALSE)) THEN "drift:auto-order"
    ELSE r
  ELSE IF c.k = "cfg" THEN
    LET r == CfgsClause(c.cfg, Impl) IN
    IF r = "ok" \/ IsDrift(r) THEN r
    ELSE IF \E V \in Variants : Soft(CfgsClause(c.cfg, V)) THEN "drift:variant"
    ELSE r
  ELSE IF c.k = "reffile" THEN RefFileClause(c)
  ELSE "machinery:kind"

\* every drift class of a case that has no hard failure
DriftSet(c, v) ==
  IF ~IsDrift(v) THEN {}
  ELSE IF c.k = "site" /\ v \notin {"drift:order", "drift:variant", "drift:auto-order"} THEN {s \in Range(SiteClauses(c, Impl, c.auto, TRUE)) : IsDrift(s)}
  ELSE {v}

Init == tid \in 1..Len(Cases) /\ verdict = "pending"
Next == /\ verdict = "pending" /\ verdict' = Judge(Cases[tid]) /\ UNCHANGED tid
        /\ (IF verdict' = "ok" THEN TRUE
            ELSE IF verdict' \in DriftVerdicts THEN \A d \in DriftSet(Cases[tid], verdict') : PrintT(<<"DRIFT", tid, d>>)
            ELSE PrintT(<<"FAIL", tid, verdict'>>))
=============================================================================
