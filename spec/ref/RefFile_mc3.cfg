SPECIFICATION Spec
CONSTANTS
  Names <- NamesQ
  Texts <- TextsQ
  CommentTexts <- CommentsQ
  ContTexts <- ContQ
  DefLines <- Def
  CliLines <- Cli
  MaxLines = 4
  MaxFiles = 2
INVARIANT ParseIsFunction
INVARIANT EscapedNeverStructural
INVARIANT LaterKeyOverrides
INVARIANT MergeIsConcatenation
INVARIANT MergeSequential
INVARIANT FilesAreOneFile
INVARIANT ChainIsConcat
INVARIANT VariantsAgree
CHECK_DEADLOCK FALSE
