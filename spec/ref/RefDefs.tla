------------------------------ MODULE RefDefs ------------------------------
(***************************************************************************)
(* E03 - ref files and tool configuration (skoolkit.ini), the definitions. *)
(*                                                                          *)
(* Written from sphinx/source/ref-files.rst ("A ref file must be formatted  *)
(* into sections...", "Appending content", "Ref file comments", "Square     *)
(* brackets", [Config] RefFiles), commands.rst (skool2html.py: game*.ref,    *)
(* -c S/L, -W, -r, -R; every tool: skoolkit.ini [tool], -I p=v,              *)
(* --show-config) and extending.rst ("Parsing ref files": get_section,       *)
(* get_sections, get_dictionary, get_dictionaries; writer specified on the   *)
(* command line overrides HtmlWriterClass of the ref file).                  *)
(*                                                                          *)
(* A character is its code point; a line is a sequence of characters         *)
(* without the line terminator; a file is a sequence of lines.               *)
(*                                                                          *)
(* What the documentation leaves open is a field of the record V (a          *)
(* "variant"); Impl names the choices skoolkit makes today.  The conformance *)
(* modules accept every variant and count an observation that only a         *)
(* variant other than Impl explains as drift.                                *)
(***************************************************************************)
EXTENDS Naturals, Sequences, FiniteSets

TAB == 9
SP == 32
PLUS == 43
COMMA == 44
SLASH == 47
COLON == 58
SEMI == 59
EQ == 61
LB == 91
BSL == 92
RB == 93
WS == {9, 10, 11, 12, 13, 28, 29, 30, 31, 32}        \* white space

\* ---- sequences -------------------------------------------------------------------------------------
MinOf(S) == CHOOSE x \in S : \A y \in S : x <= y
MaxOf(S) == CHOOSE x \in S : \A y \in S : x >= y
Take(l, n) == SubSeq(l, 1, n)
Drop(l, n) == SubSeq(l, n + 1, Len(l))
StartsWith(l, p) == Len(l) >= Len(p) /\ Take(l, Len(p)) = p
\* position of the first c in l (0 if there is none); l without trailing / leading white space
RECURSIVE Scan(_, _, _)
Scan(l, c, i) == IF i > Len(l) THEN 0 ELSE IF l[i] = c THEN i ELSE Scan(l, c, i + 1)
Pos(l, c) == Scan(l, c, 1)
RECURSIVE RLen(_, _)
RLen(l, n) == IF n = 0 THEN 0 ELSE IF l[n] \notin WS THEN n ELSE RLen(l, n - 1)
RStrip(l) == Take(l, RLen(l, Len(l)))
RECURSIVE LSkip(_, _)
LSkip(l, i) == IF i > Len(l) THEN Len(l) ELSE IF l[i] \notin WS THEN i - 1 ELSE LSkip(l, i + 1)
LStrip(l) == Drop(l, LSkip(l, 1))
Range(q) == {q[i] : i \in 1..Len(q)}
RECURSIVE Flat(_)
Flat(ss) == IF ss = <<>> THEN <<>> ELSE Head(ss) \o Flat(Tail(ss))
RECURSIVE Split(_, _)
Split(s, c) == LET p == Pos(s, c) IN IF p = 0 THEN <<s>> ELSE <<Take(s, p - 1)>> \o Split(Drop(s, p), c)

\* ---- the lines of a ref file (ref-files.rst: sections, comments, square brackets) ------------------
\* "any line that starts with two opening square brackets will be rendered with the first one removed";
\* a line that needs to start with a semicolon "can be escaped by doubling it"
IsEscaped(l) == StartsWith(l, <<LB, LB>>) \/ StartsWith(l, <<SEMI, SEMI>>)
\* "section names inside square brackets, like this: [SectionName]"
IsHeader(l) == ~IsEscaped(l) /\ Len(l) >= 2 /\ l[1] = LB /\ l[Len(l)] = RB
\* "A comment may be added to a ref file by starting a line with a semicolon"
IsComment(l) == ~IsEscaped(l) /\ Len(l) >= 1 /\ l[1] = SEMI
Classify(l) == IF IsEscaped(l) THEN "escaped" ELSE IF IsHeader(l) THEN "header" ELSE IF IsComment(l) THEN "comment"
               ELSE IF l = <<>> THEN "blank" ELSE "content"
HeaderName(l) == SubSeq(l, 2, Len(l) - 1)
\* how a content line has to be written so that it is read back as itself
LooksStructural(t) == (Len(t) >= 2 /\ t[1] = LB /\ t[Len(t)] = RB) \/ StartsWith(t, <<LB, LB>>)
Escape(t) == IF StartsWith(t, <<SEMI>>) THEN <<SEMI>> \o t ELSE IF LooksStructural(RStrip(t)) THEN <<LB>> \o t ELSE t

\* ---- what the documentation leaves open ------------------------------------------------------------
\*  rstrip     trailing white space of a line is dropped before the line is looked at
\*  trimtrail  blank lines at the end of a section body are dropped
\*  repeat     a section name (without '+') that is met again: the new body replaces / is appended to the old one
Variants == [rstrip : BOOLEAN, trimtrail : BOOLEAN, repeat : {"replace", "append"}]
Impl == [rstrip |-> TRUE, trimtrail |-> TRUE, repeat |-> "replace"]
Norm(raw, V) == IF V.rstrip THEN RStrip(raw) ELSE raw

\* ---- sections: a sequence of [name, lines] in order of creation -------------------------------------
Idx(secs, n) == LET S == {i \in 1..Len(secs) : secs[i].name = n} IN IF S = {} THEN 0 ELSE MinOf(S)
Has(secs, n) == Idx(secs, n) > 0
LinesOf(secs, n) == IF Has(secs, n) THEN secs[Idx(secs, n)].lines ELSE <<>>
SetSec(secs, n, ls) == IF Has(secs, n) THEN [secs EXCEPT ![Idx(secs, n)].lines = ls] ELSE Append(secs, [name |-> n, lines |-> ls])
ExtendSec(secs, n, ls) == SetSec(secs, n, LinesOf(secs, n) \o ls)
TrimTrail(ls) == LET S == {i \in 1..Len(ls) : ls[i] # <<>>} IN IF S = {} THEN <<>> ELSE Take(ls, MaxOf(S))
\* "Content may be appended to an existing ref file section defined elsewhere by adding a '+' suffix to the section name"
IsAppendName(n) == Len(n) >= 1 /\ n[Len(n)] = PLUS
BaseName(n) == Take(n, Len(n) - 1)

\* the reader: sections read so far, whether a section is open, its name and the lines collected for it
Reader(secs) == [secs |-> secs, open |-> FALSE, name |-> <<>>, body |-> <<>>]
Body(st, V) == IF V.trimtrail THEN TrimTrail(st.body) ELSE st.body
\* EmptyNameDiscarded: skoolkit drops a section whose header is "[]" (nothing is documented about it)
CloseSec(st, V) ==
  IF ~st.open \/ st.name = <<>> THEN st.secs
  ELSE IF IsAppendName(st.name) THEN ExtendSec(st.secs, BaseName(st.name), Body(st, V))
  ELSE IF V.repeat = "append" THEN ExtendSec(st.secs, st.name, Body(st, V))
  ELSE SetSec(st.secs, st.name, Body(st, V))
\* lines before the first section header of a file belong to no section
StepLine(st, raw, V) ==
  LET l == Norm(raw, V) IN
  IF IsEscaped(l) THEN [st EXCEPT !.body = Append(@, Tail(l))]
  ELSE IF IsHeader(l) THEN [secs |-> CloseSec(st, V), open |-> TRUE, name |-> HeaderName(l), body |-> <<>>]
  ELSE IF IsComment(l) THEN st
  ELSE [st EXCEPT !.body = Append(@, l)]
\* the lines lo..hi fed to the reader one after the other.  (Split in halves, and the state after the first half is
\* looked at before the second half is entered: TLC evaluates operator arguments on demand, and a plain left-to-right
\* recursion would build a chain of suspended states as long as the file.)
RECURSIVE Feed(_, _, _, _, _)
Feed(st, lines, lo, hi, V) ==
  IF lo > hi THEN st
  ELSE IF lo = hi THEN StepLine(st, lines[lo], V)
  ELSE LET mid == (lo + hi) \div 2
           left == Feed(st, lines, lo, mid, V)
       IN IF left.open \in BOOLEAN THEN Feed(left, lines, mid + 1, hi, V) ELSE left
\* one file read on top of the sections known so far; the end of the file ends the open section
ParseFile(secs, lines, V) == CloseSec(Feed(Reader(secs), lines, 1, Len(lines), V), V)
\* files are read one after the other into the same set of sections
RECURSIVE ParseFiles(_, _, _)
ParseFiles(secs, files, V) == IF files = <<>> THEN secs ELSE ParseFiles(ParseFile(secs, Head(files), V), Tail(files), V)

\* ---- skool2html -c S/L: "Add the line 'L' to the ref file section 'S'" ------------------------------
SpecOK(spec) == Pos(spec, SLASH) > 0
SpecSection(spec) == Take(spec, Pos(spec, SLASH) - 1)
SpecLine(spec) == Drop(spec, Pos(spec, SLASH))
RECURSIVE AddLines(_, _)
AddLines(secs, specs) ==
  IF specs = <<>> THEN secs ELSE AddLines(ExtendSec(secs, SpecSection(Head(specs)), <<SpecLine(Head(specs))>>), Tail(specs))

\* ---- reading a section -----------------------------------------------------------------------------
\* get_section(trim): "remove leading whitespace from each line"
Trimmed(ls) == [i \in 1..Len(ls) |-> LStrip(ls[i])]
\* get_section(paragraphs): runs of non-blank lines
RECURSIVE Paras(_, _, _)
Paras(ls, cur, acc) ==
  IF ls = <<>> THEN (IF cur = <<>> THEN acc ELSE Append(acc, cur))
  ELSE IF Head(ls) = <<>> THEN Paras(Tail(ls), <<>>, IF cur = <<>> THEN acc ELSE Append(acc, cur))
  ELSE Paras(Tail(ls), Append(cur, Head(ls)), acc)
Paragraphs(ls) == Paras(ls, <<>>, <<>>)

\* get_dictionary: "Each line in the section should be of the form X=Y"; the first '=' splits; a key defined again
\* later wins; lines of another form say nothing
IsPair(l) == Pos(l, EQ) > 0
KeyOf(l) == Take(l, Pos(l, EQ) - 1)
ValOf(l) == Drop(l, Pos(l, EQ))
DictKeys(ls) == {KeyOf(ls[i]) : i \in {j \in 1..Len(ls) : IsPair(ls[j])}}
DictOf(ls) == [k \in DictKeys(ls) |-> ValOf(ls[MaxOf({i \in 1..Len(ls) : IsPair(ls[i]) /\ KeyOf(ls[i]) = k})])]
\* the same, operationally: the lines are executed as assignments in order
RECURSIVE DictFold(_, _)
Assign(d, k, v) == [x \in DOMAIN d \cup {k} |-> IF x = k THEN v ELSE d[x]]
DictFold(ls, d) == IF ls = <<>> THEN d ELSE DictFold(Tail(ls), IF IsPair(Head(ls)) THEN Assign(d, KeyOf(Head(ls)), ValOf(Head(ls))) ELSE d)
EmptyDict == [x \in {} |-> <<>>]
\* layer d2 over layer d1
Override(d1, d2) == [k \in DOMAIN d1 \cup DOMAIN d2 |-> IF k \in DOMAIN d2 THEN d2[k] ELSE d1[k]]

\* families [Prefix:*]: "sections whose names start with section_type followed by a colon"
InFamily(n, p) == StartsWith(n, p \o <<COLON>>)
\* get_dictionaries: "suffix is the part of the section name that follows the first colon"
Suffix1(n) == Drop(n, Pos(n, COLON))
\* get_sections: "suffix is the part of the section name that follows either the first colon (when there is only one) or
\* the second colon (when there is more than one); infix is the part between the first and second colons"
NameParts(n) == LET r == Suffix1(n) IN IF Pos(r, COLON) = 0 THEN <<r>> ELSE <<Take(r, Pos(r, COLON) - 1), Drop(r, Pos(r, COLON))>>
Family(secs, p) == SelectSeq(secs, LAMBDA s : InFamily(s.name, p))
FamilySections(secs, p) == LET f == Family(secs, p) IN [i \in 1..Len(f) |-> [parts |-> NameParts(f[i].name), lines |-> f[i].lines]]
FamilyDicts(secs, p) == LET f == Family(secs, p) IN [i \in 1..Len(f) |-> [suffix |-> Suffix1(f[i].name), dict |-> DictOf(f[i].lines)]]

\* ---- HtmlWriter on top of the built-in ref file (skool2html.py -R) D and the user's sections U ----
\* ref-files.rst gives every parameter of the dictionary sections a default value; a parameter set in a ref file wins
WDict(D, U, n) == Override(DictOf(LinesOf(D, n)), DictOf(LinesOf(U, n)))
\* a text section of the user stands in for the built-in one of the same name
WLines(D, U, n) == IF Has(U, n) THEN LinesOf(U, n) ELSE LinesOf(D, n)
\* families: the built-in members, then the user's; a user's member with the name of an earlier one takes its place
RECURSIVE MergeFam(_, _, _)
KeyIdx(acc, k) == LET S == {i \in 1..Len(acc) : acc[i].key = k} IN IF S = {} THEN 0 ELSE MinOf(S)
MergeFam(acc, items, update) ==
  IF items = <<>> THEN acc
  ELSE LET it == Head(items)
           i == KeyIdx(acc, it.key)
       IN MergeFam(IF i = 0 THEN Append(acc, it)
                   ELSE IF update THEN [acc EXCEPT ![i].val = Override(@, it.val)] ELSE [acc EXCEPT ![i] = it],
                   Tail(items), update)
SecItems(secs, p) == LET f == FamilySections(secs, p) IN [i \in 1..Len(f) |-> [key |-> f[i].parts, val |-> f[i].lines]]
DictItems(secs, p) == LET f == FamilyDicts(secs, p) IN [i \in 1..Len(f) |-> [key |-> f[i].suffix, val |-> f[i].dict]]
WSections(D, U, p) == MergeFam(<<>>, SecItems(D, p) \o SecItems(U, p), FALSE)
WDicts(D, U, p) == MergeFam(<<>>, DictItems(D, p) \o DictItems(U, p), TRUE)

\* ---- skool2html: which ref files are read, in which order (commands.rst, [Config] RefFiles) --------
\* auto   the files game*.ref next to game.skool (their mutual order is not documented: the harness lists them in
\*        skoolkit's order - game.ref first, then by name - and the conformance module tries the other orders as drift)
\* dir    the other files that exist, <<[name, lines]>>
\* cmd    names of the ref files given on the command line after the skool file
\* cli    the -c specs in command line order
\* "RefFiles - a semicolon-separated list of extra ref files to use (after any that are automatically read by virtue of
\*  having the same filename prefix as the skool file, and before any others named on the skool2html.py command line)";
\* "the Config section must appear in a ref file that is read automatically"; -W CLASS is "shorthand for --config
\* Config/HtmlWriterClass=CLASS" and "will override any HtmlWriterClass parameter in the ref file", i.e. the lines added
\* with -c come after the lines read from the files
CONFIG == <<67, 111, 110, 102, 105, 103>>
REFFILES == <<82, 101, 102, 70, 105, 108, 101, 115>>
IsConfigSpec(s) == SpecOK(s) /\ SpecSection(s) = CONFIG
FileIdx(dir, name) == LET S == {i \in 1..Len(dir) : dir[i].name = name} IN IF S = {} THEN 0 ELSE MinOf(S)
RefFileNames(secs) ==
  LET d == DictOf(LinesOf(secs, CONFIG)) IN
  IF REFFILES \in DOMAIN d THEN SelectSeq(Split(d[REFFILES], SEMI), LAMBDA f : f # <<>>) ELSE <<>>
FilesNamed(dir, names) == [i \in 1..Len(names) |-> dir[FileIdx(dir, names[i])].lines]
AllNamed(dir, names) == \A i \in 1..Len(names) : FileIdx(dir, names[i]) > 0
\* the [Config] parameters that count: those of the files read automatically, then the -c Config/... lines
ConfigDict(auto, cli, V) == DictOf(LinesOf(AddLines(ParseFiles(<<>>, auto, V), SelectSeq(cli, IsConfigSpec)), CONFIG))
\* "GameDir - the root directory of the game's HTML disassembly; if not specified, the base name of the skool file given on
\*  the skool2html.py command line will be used"
GAMEDIR == <<71, 97, 109, 101, 68, 105, 114>>
GameDir(auto, cli, skoolbase, V) == LET d == ConfigDict(auto, cli, V) IN IF GAMEDIR \in DOMAIN d THEN d[GAMEDIR] ELSE skoolbase
UserSections(auto, dir, cmd, cli, V) ==
  LET s1 == ParseFiles(<<>>, auto, V)
      cfg == AddLines(s1, SelectSeq(cli, IsConfigSpec))
      extra == RefFileNames(cfg)
      s2 == ParseFiles(s1, FilesNamed(dir, extra), V)
      s3 == ParseFiles(s2, FilesNamed(dir, cmd), V)
  IN AddLines(s3, cli)

\* ConfigLinesAddedTwice: skoolkit starts from the built-in [Config] section (D), adds the -c Config/... lines to its set
\* of sections before it reads the extra files, and then adds all -c lines, those included, at the end: its [Config] section
\* has the built-in lines (unless a ref file has a plain [Config]) and the -c lines twice.  Same dictionary as documented.
UserSectionsTwice(D, auto, dir, cmd, cli, V) ==
  LET cfg == AddLines(ParseFiles(SelectSeq(D, LAMBDA x : x.name = CONFIG), auto, V), SelectSeq(cli, IsConfigSpec))
      s3 == ParseFiles(ParseFiles(cfg, FilesNamed(dir, RefFileNames(cfg)), V), FilesNamed(dir, cmd), V)
  IN AddLines(s3, cli)

\* ---- configuration of the commands (commands.rst, "Configuration" of every command) ----------------
\* "will read configuration from a file named skoolkit.ini ... Configuration parameters must appear in a [tool] section";
\* "Configuration parameters may also be set on the command line by using the --ini option.  Parameter values set this
\*  way will override any found in skoolkit.ini."   skoolkit.ini has the format of a ref file.
\* def: parameter -> default value; ini: the lines of skoolkit.ini (<<>> if there is none); cli: the -I p=v specs
IniDict(ini, tool, V) == DictOf(LinesOf(ParseFiles(<<>>, <<ini>>, V), tool))
Chain(def, inid, clid) ==
  [k \in DOMAIN def |-> IF k \in DOMAIN clid THEN clid[k] ELSE IF k \in DOMAIN inid THEN inid[k] ELSE def[k]]
Effective(def, ini, tool, cli, V) == Chain(def, IniDict(ini, tool, V), DictOf(cli))
=============================================================================
