------------------------------ MODULE RefFile ------------------------------
(***************************************************************************)
(* E03 - a writer of ref files and the documented reader, side by side.    *)
(*                                                                          *)
(* The machine writes up to MaxFiles ref files of MaxLines lines in all,    *)
(* one line per step.  Every action says what the line *means* (which       *)
(* section it opens, which text it adds) and how that meaning is spelt      *)
(* according to ref-files.rst (escapes by doubling).  The state has both:   *)
(*   hist    the files as written: sequences of raw lines                    *)
(*   st      what the author of the files intends: sections so far, the      *)
(*           section that is open and the text put into it                   *)
(*   chunks  every section body that was closed, in order (ghost)            *)
(* The invariants say that the documented reader (RefDefs!ParseFiles), which *)
(* only sees hist, recovers exactly what was meant.                          *)
(*                                                                          *)
(* There is no line continuation in a ref file: Continuation writes a line   *)
(* that ends in a backslash and the next line is a line of its own.          *)
(***************************************************************************)
EXTENDS RefDefs

CONSTANTS Names,        \* section names that may be opened (not empty, not starting with '[')
          Texts,        \* texts that may be put into a section
          CommentTexts, \* what may follow the ';' of a comment
          ContTexts,    \* texts that may be written with a backslash at the end
          DefLines, CliLines,   \* default layer / -I layer of the configuration chain looked at by ChainIsConcat
          MaxLines, MaxFiles

ASSUME \A x \in Names : x # <<>> /\ x[1] # LB /\ RStrip(x) = x

VARIABLES hist, st, chunks, n, nhdr, ncmt, done
vars == <<hist, st, chunks, n, nhdr, ncmt, done>>

Init ==
  /\ hist = << <<>> >>
  /\ st = Reader(<<>>)
  /\ chunks = <<>>
  /\ n = 0 /\ nhdr = 0 /\ ncmt = 0
  /\ done = FALSE

Emit(raw) == /\ ~done /\ n < MaxLines
             /\ n' = n + 1
             /\ hist' = [hist EXCEPT ![Len(hist)] = Append(@, raw)]
             /\ UNCHANGED done
Closed == IF st.open THEN Append(chunks, [name |-> st.name, body |-> st.body]) ELSE chunks

\* "[SectionName]": ends the open section and opens SectionName
SectionHeader(name) ==
  /\ Emit(<<LB>> \o name \o <<RB>>)
  /\ st' = [secs |-> CloseSec(st, Impl), open |-> TRUE, name |-> name, body |-> <<>>]
  /\ chunks' = Closed
  /\ nhdr' = nhdr + 1
  /\ UNCHANGED ncmt
\* a line of text; "If a non-comment line in a ref file section needs to start with a semicolon, it can be escaped by
\* doubling it"; a line "that looks like a section header ... can be escaped by doubling the opening square bracket"
Line(text) ==
  /\ Emit(Escape(text))
  /\ st' = [st EXCEPT !.body = Append(@, RStrip(text))]
  /\ UNCHANGED <<chunks, nhdr, ncmt>>
\* "; This is a comment"
Comment(text) ==
  /\ (IF text = <<>> THEN TRUE ELSE text[1] # SEMI)   \* ";;..." would be an escaped text line
  /\ Emit(<<SEMI>> \o text)
  /\ ncmt' = ncmt + 1
  /\ UNCHANGED <<st, chunks, nhdr>>
Blank ==
  /\ Emit(<<>>)
  /\ st' = [st EXCEPT !.body = Append(@, <<>>)]
  /\ UNCHANGED <<chunks, nhdr, ncmt>>
\* a text line that ends in a backslash is a text line
Continuation(text) ==
  /\ Emit(Escape(text \o <<BSL>>))
  /\ st' = [st EXCEPT !.body = Append(@, text \o <<BSL>>)]
  /\ UNCHANGED <<chunks, nhdr, ncmt>>
\* the end of a file ends the open section; the next file continues with the sections read so far
EndOfFile ==
  /\ ~done
  /\ st' = Reader(CloseSec(st, Impl))
  /\ chunks' = Closed
  /\ IF Len(hist) < MaxFiles THEN hist' = Append(hist, <<>>) /\ UNCHANGED done ELSE done' = TRUE /\ UNCHANGED hist
  /\ UNCHANGED <<n, nhdr, ncmt>>

Next ==
  \/ \E name \in Names : SectionHeader(name)
  \/ \E text \in Texts : Line(text)
  \/ \E text \in ContTexts : Continuation(text)
  \/ \E text \in CommentTexts : Comment(text)
  \/ Blank
  \/ EndOfFile
Spec == Init /\ [][Next]_vars

\* ---- invariants --------------------------------------------------------------------------------------
Meant == CloseSec(st, Impl)                      \* the sections as the author means them, were the file to end here
AllChunks == Closed
Read == ParseFiles(<<>>, hist, Impl)             \* what the documented reader makes of the raw lines

\* parsing is a function of the line sequence, and it gives back what was meant
ParseIsFunction == Read = Meant

\* a line that starts with ";;" or "[[" never starts a comment or a section; the reader sees exactly the headers and
\* comments that were written as such
RawLines == Flat(hist)
CountClass(c) == Cardinality({i \in 1..Len(RawLines) : Classify(Norm(RawLines[i], Impl)) = c})
EscapedNeverStructural ==
  /\ \A i \in 1..Len(RawLines) :
       (StartsWith(RawLines[i], <<SEMI, SEMI>>) \/ StartsWith(RawLines[i], <<LB, LB>>)) => Classify(Norm(RawLines[i], Impl)) = "escaped"
  /\ CountClass("header") = nhdr
  /\ CountClass("comment") = ncmt

\* a later definition of a key overrides an earlier one: the declarative dictionary (value of the last line with the key)
\* is the result of executing the lines as assignments in order
LaterKeyOverrides ==
  \A i \in 1..Len(Meant) : DictOf(Meant[i].lines) = DictFold(Meant[i].lines, EmptyDict)

\* repeated sections and '+': the content of section x is what was put - in reading order, over all files - into the
\* bodies headed [x] or [x+] since the last body headed [x]  (a name that itself ends in '+' can only be appended to)
Plain(x) == {i \in 1..Len(AllChunks) : AllChunks[i].name = x /\ ~IsAppendName(x)}
From(x) == IF Plain(x) = {} THEN 1 ELSE MaxOf(Plain(x))
Feeds(cn, x) == (cn = x /\ ~IsAppendName(x)) \/ cn = x \o <<PLUS>>
Contrib(x) == [i \in 1..Len(AllChunks) |-> IF i >= From(x) /\ Feeds(AllChunks[i].name, x) THEN TrimTrail(AllChunks[i].body) ELSE <<>>]
Targets == {IF IsAppendName(c.name) THEN BaseName(c.name) ELSE c.name : c \in Range(AllChunks)}
MergeIsConcatenation ==
  /\ {Meant[i].name : i \in 1..Len(Meant)} = Targets
  /\ \A x \in Targets : LinesOf(Meant, x) = Flat(Contrib(x))

\* files read later: reading is sequential composition, however the sequence of files is cut
Front(q) == SubSeq(q, 1, Len(q) - 1)
MergeSequential ==
  /\ Read = ParseFile(ParseFiles(<<>>, Front(hist), Impl), hist[Len(hist)], Impl)
  /\ \A k \in 0..Len(hist) : Read = ParseFiles(ParseFiles(<<>>, SubSeq(hist, 1, k), Impl), SubSeq(hist, k + 1, Len(hist)), Impl)
\* ... and several files read one after the other are one file, once the lines before the first header of each are gone
FirstHeader(f) == LET S == {i \in 1..Len(f) : IsHeader(Norm(f[i], Impl))} IN IF S = {} THEN Len(f) + 1 ELSE MinOf(S)
FilesAreOneFile == Read = ParseFiles(<<>>, <<Flat([k \in 1..Len(hist) |-> Drop(hist[k], FirstHeader(hist[k]) - 1)])>>, Impl)

\* defaults < skoolkit.ini section < -I: the effective configuration is the dictionary of the three layers read in order
\* (restricted to the known parameters); the section of the first name stands for the [tool] section
Tool == CHOOSE x \in Names : ~IsAppendName(x)
ChainIsConcat ==
  LET def == DictOf(DefLines)
      all == DictOf(DefLines \o LinesOf(Meant, Tool) \o CliLines)
  IN Chain(def, DictOf(LinesOf(Meant, Tool)), DictOf(CliLines)) = [k \in DOMAIN def |-> all[k]]

\* every documented variant is a function of the lines as well, and agrees with Impl where the open points are not touched
NoTrailingWS == \A i \in 1..Len(RawLines) : RStrip(RawLines[i]) = RawLines[i]
VariantsAgree ==
  NoTrailingWS => ParseFiles(<<>>, hist, [Impl EXCEPT !.rstrip = FALSE]) = Read
=============================================================================
