SPECIFICATION Spec
CONSTANTS
  Names <- NamesT
  Texts <- TextsT
  CommentTexts <- CommentsT
  DefLines <- Def
  CliLines <- Cli2
  MaxLines = 5
  MaxFiles = 2
INVARIANT ParseIsFunction
INVARIANT EscapedNeverStructural
INVARIANT LaterKeyOverrides
INVARIANT MergeIsConcatenation
INVARIANT MergeSequential
INVARIANT FilesAreOneFile
INVARIANT ChainIsConcat
INVARIANT VariantsAgree
CHECK_DEADLOCK FALSE
