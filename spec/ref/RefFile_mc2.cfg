SPECIFICATION Spec
CONSTANTS
  Names <- NamesM2
  Texts <- TextsM
  CommentTexts <- CommentsM
  ContTexts <- ContM
  DefLines <- Def
  CliLines <- Cli2
  MaxLines = 5
  MaxFiles = 2
INVARIANT ParseIsFunction
INVARIANT EscapedNeverStructural
INVARIANT LaterKeyOverrides
INVARIANT MergeIsConcatenation
INVARIANT MergeSequential
INVARIANT FilesAreOneFile
INVARIANT ChainIsConcat
INVARIANT VariantsAgree
CHECK_DEADLOCK FALSE
