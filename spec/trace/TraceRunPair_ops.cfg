INIT PInit
NEXT PNext
CONSTANTS
  MaxOpsLimit = 6
  TLimits = {0, 7, 11, 30}
  Bound = 24
  Kind = "ops"
CONSTRAINT Cut
INVARIANTS PrefixInv
CHECK_DEADLOCK FALSE
