----------------------------- MODULE TraceRunMC -----------------------------
(***************************************************************************)
(* Model checking of the run-control machine (TraceRun) itself on small    *)
(* jobs: every combination of a tiny program (48K: counted loop, EI, HALT, *)
(* IM 2 handler; 128K: the same plus OUTs to 0x7ffd that page RAM banks     *)
(* and finally lock the latch), --stop (none, reachable, = start, the      *)
(* handler, unreachable), -m 0..MaxOpsLimit, -M from TLimits, interrupts on *)
(* or off, IFF, and a start clock early in / at the end of a frame.         *)
(* History variables: nsteps (StepActions taken), log (<<pc, clock>> of     *)
(* every executed instruction = the -v lines).                              *)
(***************************************************************************)
EXTENDS TraceRun

CONSTANTS MaxOpsLimit,      \* -m ranges over 0..MaxOpsLimit
          TLimits,          \* values of -M (0 = no limit)
          Bound,            \* runs without an effective limit are cut after Bound instructions (CONSTRAINT)
          NegOrder          \* negative configuration: the address test is made before the limits (must be refuted)

VARIABLES nsteps, log
mcvars == <<job, m, nsteps, log>>

Ov(a, bytes) == [i \in 1..Len(bytes) |-> <<a + i - 1, bytes[i]>>]

\* 0x8000 LD B,2 ; 0x8002 INC A ; 0x8003 DJNZ 0x8002 ; 0x8005 EI ; 0x8006 HALT ; 0x8007 LD (0x9000),A ; 0x800A JR 0x8000
\* IM 2 vector at 0x81FF -> 0x8300: EI ; RET
Prog48 == Ov(32768, <<6, 2, 60, 16, 253, 251, 118, 50, 0, 144, 24, 244>>) \o Ov(33279, <<0, 131>>) \o Ov(33536, <<251, 201>>)
\* 0x8000 LD BC,0x7FFD ; 0x8003 LD A,1 ; 0x8005 OUT (C),A ; 0x8007 LD (0xC000),A ; 0x800A LD A,0x23 ; 0x800C OUT (C),A
\* 0x800E LD (0xC000),A ; 0x8011 EI ; 0x8012 HALT ; 0x8013 LD A,4 ; 0x8015 OUT (C),A (locked: ignored) ; 0x8017 JR 0x8007
Prog128 == Ov(32768, <<1, 253, 127, 62, 1, 237, 121, 50, 0, 192, 62, 35, 237, 121, 50, 0, 192, 251, 118, 62, 4, 237, 121, 24, 238>>)
           \o Ov(33279, <<0, 131>>) \o Ov(33536, <<251, 201>>)

BaseRegs(is128, iff, t) ==
  [i \in 1..30 |-> CASE i = rSP -> 36864 [] i = rI -> 129 [] i = rIM -> 2 [] i = rIFF -> iff [] i = rT -> t [] i = rPC -> 32768
                     [] OTHER -> 0]

Job(is128, stop, maxops, maxt, ints, iff, t) ==
  [is128 |-> is128, realrom |-> FALSE, r0 |-> BaseRegs(is128, iff, t),
   mem0 |-> [ov |-> IF is128 THEN Prog128 ELSE Prog48, is128 |-> is128, p7 |-> 0],
   hw0 |-> [fffd |-> 0, ay |-> Zero16, fe |-> 0, border |-> 0],
   stop |-> stop, maxops |-> maxops, maxt |-> maxt, ints |-> ints, cmio |-> FALSE, tafter |-> <<>>,
   fmt |-> [p |-> "$", b |-> "02X", w |-> "04X"]]

Stops == {-1, 32773, 32768, 33536, 45056}
Jobs == { Job(k, s, mo, mt, i, f, IF late THEN Frame(k) - (IF k THEN 70 ELSE 40) ELSE 100) :
            k \in BOOLEAN, s \in Stops, mo \in 0..MaxOpsLimit, mt \in TLimits, i \in BOOLEAN, f \in 0..1, late \in BOOLEAN }

MCInit == /\ job \in Jobs /\ m = M0(job) /\ nsteps = 0 /\ log = <<>>

\* the negative configuration swaps the priority: an address hit wins over the limits
NegStopByAddress ==
  /\ m.ph = "check" /\ AtStop(job, m)
  /\ m' = [m EXCEPT !.ph = "done", !.reason = "addr"]
  /\ UNCHANGED job
NegStopByOperations ==
  /\ m.ph = "check" /\ ~AtStop(job, m) /\ OpsReached(job, m)
  /\ m' = [m EXCEPT !.ph = "done", !.reason = "ops"]
  /\ UNCHANGED job

H == UNCHANGED <<nsteps, log>>
MCStep == StepAction /\ nsteps' = nsteps + 1 /\ log' = Append(log, <<m.r[rPC], m.r[rT]>>)
MCAccept == AcceptInterrupt /\ H
MCNoInt == NoInterrupt /\ H
MCStopOps == (IF NegOrder THEN NegStopByOperations ELSE StopByOperations) /\ H
MCStopT == StopByTstates /\ H
MCStopAddr == (IF NegOrder THEN NegStopByAddress ELSE StopByAddress) /\ H
MCContinue == Continue /\ H
MCFinish == Finish /\ H
MCNext == MCStep \/ MCAccept \/ MCNoInt \/ MCStopOps \/ MCStopT \/ MCStopAddr \/ MCContinue \/ MCFinish

MCSpec == MCInit /\ [][MCNext]_mcvars
MCLive == MCSpec /\ WF_mcvars(MCNext)

Cut == m.ops <= Bound

-----------------------------------------------------------------------------
Stopped == m.ph \in {"done", "reported"}
Running == m.ph \in {"exec", "int", "check"}

TypeOK ==
  /\ m.ph \in {"exec", "int", "check", "done", "reported"}
  /\ m.reason \in {"", "ops", "tstates", "addr"}
  /\ m.ops \in Nat /\ m.nint \in Nat
  /\ \A i \in (1..12) \cup (15..24) : m.r[i] \in 0..255
  /\ m.r[rSP] \in 0..65535 /\ m.r[rPC] \in 0..65535 /\ m.r[rIFF] \in 0..1 /\ m.r[rIM] \in 0..2 /\ m.r[rHALT] \in 0..1
  /\ m.hw.border \in 0..7 /\ m.mem.p7 \in 0..255

\* operations counted = number of StepActions = number of -v lines
OpsCounted == m.ops = nsteps /\ Len(log) = m.ops

\* exactly one stop reason is reported, it holds in the final state, and no condition of higher priority holds
OneReason ==
  /\ Running => m.reason = ""
  /\ Stopped =>
       /\ m.reason \in {"ops", "tstates", "addr"}
       /\ m.reason = "ops" => OpsReached(job, m)
       /\ m.reason = "tstates" => TReached(job, m) /\ ~OpsReached(job, m)
       /\ m.reason = "addr" => AtStop(job, m) /\ ~OpsReached(job, m) /\ ~TReached(job, m)

\* the run stops at the FIRST boundary where a condition holds, and only at a boundary
NoStopMissed == m.ph = "exec" /\ m.ops > 0 => ~OpsReached(job, m) /\ ~TReached(job, m) /\ ~AtStop(job, m)
\* the instruction at the start address is executed even when start = stop (StartEqualsStopRuns)
AtLeastOne == Stopped => m.ops >= 1
\* -m is exact, -M is overshot by less than one instruction (+ one interrupt acceptance)
OpsLimit == job.maxops > 0 => m.ops <= job.maxops
OpsExact == Stopped /\ m.reason = "ops" => m.ops = job.maxops
TOvershoot == Stopped /\ m.reason = "tstates" => Elapsed(m) - job.maxt < 23 + 19

\* the log is the sequence of PCs of successive Step states, with non-decreasing clocks
LogChained == \A k \in 1..Len(log) - 1 : log[k][2] < log[k + 1][2]
LogStart == Len(log) > 0 => log[1] = <<job.r0[rPC], job.r0[rT]>>

\* interrupts
IntsOnlyWhenAsked == m.nint > 0 => job.ints
IntsAtMostOnePerStep == m.nint <= m.ops
\* ROM is never modified; a locked latch never changes
RomIntact == \A i \in 1..Len(m.mem.ov) : m.mem.ov[i][1] < 16384 => \E k \in 1..Len(job.mem0.ov) : job.mem0.ov[k] = m.mem.ov[i]
\* the report
ReportShape ==
  m.ph = "reported" =>
    LET rp == Report(job, m) IN
    /\ rp.kind = m.reason
    /\ rp.kind = "ops" => rp.n = nsteps
    /\ rp.kind = "tstates" => rp.n >= job.maxt
    /\ rp.pc = "$" \o Hex4(m.r[rPC])
    /\ SnapT(job, m) \in 0..(Frame(job.is128) - 1)

Inv == TypeOK /\ OpsCounted /\ OneReason /\ NoStopMissed /\ AtLeastOne /\ OpsLimit /\ OpsExact /\ TOvershoot /\ LogChained /\ LogStart
       /\ IntsOnlyWhenAsked /\ IntsAtMostOnePerStep /\ RomIntact /\ ReportShape

\* action properties
ClockMonotone == [][m'.r[rT] >= m.r[rT]]_mcvars
LockedLatchStays == [][(m.mem.p7 \div 32) % 2 = 1 => m'.mem.p7 = m.mem.p7]_mcvars
AcceptDisables == [][m'.nint > m.nint => m'.r[rIFF] = 0 /\ m'.r[rHALT] = 0 /\ m'.r[rSP] = W16(m.r[rSP] - 2)]_mcvars
StoppedIsFinal == [][Stopped => m'.r = m.r /\ m'.mem = m.mem /\ m'.ops = m.ops /\ m'.reason = m.reason]_mcvars
\* a run with a limit always ends
Terminates == (job.maxops > 0) ~> (m.ph = "reported")

\* reachability guards (TraceRun_cov.cfg): every tag must be printed at least once.  A worker prints a tag the first time it
\* meets a state of that kind (TLC registers are per worker and initialised for all workers by the ASSUME).
Tags == << <<"interrupt", m.nint > 0>>,
           <<"paged-and-locked", m.mem.is128 /\ m.mem.p7 = 35 /\ Stopped>>,
           <<"locked-out-ignored", m.mem.is128 /\ m.mem.p7 = 35 /\ m.last.pc = 32789 /\ m.ph = "int">>,
           <<"stop-ops", m.reason = "ops">>, <<"stop-tstates", m.reason = "tstates">>, <<"stop-addr", m.reason = "addr">>,
           <<"ops-and-addr", m.ph = "check" /\ OpsReached(job, m) /\ AtStop(job, m)>>,
           <<"tstates-and-addr", m.ph = "check" /\ ~OpsReached(job, m) /\ TReached(job, m) /\ AtStop(job, m)>>,
           <<"ops-and-tstates", m.ph = "check" /\ OpsReached(job, m) /\ TReached(job, m)>>,
           <<"halted", m.r[rHALT] = 1>>,
           <<"halt-woken", m.last.op = 118 /\ m.ph = "int" /\ m.r[rHALT] = 0 /\ m.ops > 0>>,
           <<"stop-in-handler", Stopped /\ m.r[rPC] = 33536 /\ m.reason = "addr">>,
           <<"start-equals-stop", Stopped /\ job.stop = 32768 /\ m.reason = "addr">>,
           <<"banked-write", \E i \in 1..Len(m.mem.ov) : m.mem.ov[i][1] >= 65536>>,
           <<"no-limit-cut", m.ops = Bound /\ job.maxops = 0 /\ job.maxt = 0>> >>
ASSUME \A k \in 1..15 : TLCSet(k, 0)
CovSeen == \A k \in 1..Len(Tags) : IF Tags[k][2] /\ TLCGet(k) = 0 THEN TLCSet(k, 1) /\ PrintT(<<"COV", Tags[k][1]>>) ELSE TRUE
=============================================================================
