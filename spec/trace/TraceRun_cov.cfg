INIT MCInit
NEXT MCNext
CONSTANTS
  MaxOpsLimit = 6
  TLimits = {0, 7, 11, 30}
  Bound = 24
  NegOrder = FALSE
CONSTRAINT Cut
INVARIANTS CovSeen
CHECK_DEADLOCK FALSE
