INIT MCInit
NEXT MCNext
CONSTANTS
  MaxOpsLimit = 6
  TLimits = {0, 7, 11, 30}
  Bound = 24
  NegOrder = FALSE
CONSTRAINT Cut
INVARIANTS CovSeen TypeOK OpsCounted OneReason NoStopMissed AtLeastOne OpsLimit OpsExact TOvershoot LogChained LogStart
           IntsOnlyWhenAsked IntsAtMostOnePerStep RomIntact ReportShape
PROPERTIES ClockMonotone LockedLatchStays AcceptDisables StoppedIsFinal
CHECK_DEADLOCK FALSE
