INIT JInit
NEXT JNext
CHECK_DEADLOCK FALSE
