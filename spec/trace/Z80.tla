------------------------------- MODULE Z80 -------------------------------
(***************************************************************************)
(* Executable specification of one Z80 instruction step, written from the  *)
(* Zilog Z80 CPU User Manual and Sean Young's "The Undocumented Z80        *)
(* Documented" by *algorithmic decoding* (x,y,z,p,q fields), not from      *)
(* SkoolKit's tables.                                                      *)
(*                                                                         *)
(* State of a case:                                                        *)
(*   r    : 30 registers in SkoolKit's layout (1-based here)               *)
(*   ov   : sparse memory overlay <<addr, byte>> over the Base pattern     *)
(*   inv  : value a port read returns (-1: no tracer installed)            *)
(*   frame, ia : frame duration and INT-active window (HALT / LD A,I)      *)
(*   tA   : -1, or the absolute T after the instruction when the caller   *)
(*          knows it (contended runs: timing is specified by Ula/Z80Bus)   *)
(* Step(s) yields [r |-> registers', wr |-> writes in order,               *)
(*                 io |-> port events in order, mask |-> flag bits fixed]   *)
(*                                                                         *)
(* Named deviations of SkoolKit's machine from a bare Z80 are operators    *)
(* whose names say so: HaltAs4TSteps, PrefixNop, LdAIrQuirk, InDefault,    *)
(* RomWriteIgnored.                                                        *)
(***************************************************************************)
EXTENDS Z80Bits, TLC, FiniteSets

rA == 1  rF == 2  rB == 3  rC == 4  rD == 5  rE == 6  rH == 7  rL == 8
rIXh == 9  rIXl == 10  rIYh == 11  rIYl == 12  rSP == 13  rI == 15  rR == 16
rxA == 17  rxF == 18  rxB == 19  rxH == 23
rPC == 25  rT == 26  rIFF == 27  rIM == 28  rHALT == 29  rMEMPTR == 30

FS == 128  FZ == 64  F5 == 32  FH == 16  F3 == 8  FPV == 4  FN == 2  FC == 1

-----------------------------------------------------------------------------
(* Memory: base pattern + overlay; RomWriteIgnored drops stores < 0x4000 *)
MemAt(ov, a) == IF \E i \in 1..Len(ov) : ov[i][1] = a
                THEN ov[CHOOSE i \in 1..Len(ov) : ov[i][1] = a /\ \A j \in i+1..Len(ov) : ov[j][1] # a][2]
                ELSE Base(a)
RomWriteIgnored(wr) == SelectSeq(wr, LAMBDA p : p[1] > 16383)
St8(a, v) == << <<W16(a), v>> >>
St16(a, v) == << <<W16(a), Lo(v)>>, <<W16(a + 1), Hi(v)>> >>

-----------------------------------------------------------------------------
(* Flags *)
SZ53(v) == And8(v, 168) + (IF v = 0 THEN FZ ELSE 0)
SZ53P(v) == SZ53(v) + (IF EvenParity(v) THEN FPV ELSE 0)

\* 8-bit addition a + v + c
AddF(a, v, c) ==
  LET res == a + v + c
      r8  == res % 256
      ov_ == (Bit(a,7) = Bit(v,7)) /\ (Bit(r8,7) # Bit(a,7))
  IN  SZ53(r8) + (IF (a % 16) + (v % 16) + c > 15 THEN FH ELSE 0)
      + (IF ov_ THEN FPV ELSE 0) + (IF res > 255 THEN FC ELSE 0)
\* 8-bit subtraction a - v - c ; x53 = value supplying bits 5 and 3
SubF(a, v, c, cp) ==
  LET res == a - v - c
      r8  == res % 256
      ov_ == (Bit(a,7) # Bit(v,7)) /\ (Bit(r8,7) # Bit(a,7))
      x   == IF cp THEN v ELSE r8
  IN  And8(r8, 128) + (IF r8 = 0 THEN FZ ELSE 0) + And8(x, 40)
      + (IF (a % 16) - (v % 16) - c < 0 THEN FH ELSE 0)
      + (IF ov_ THEN FPV ELSE 0) + FN + (IF res < 0 THEN FC ELSE 0)

\* alu[y]: 0 ADD 1 ADC 2 SUB 3 SBC 4 AND 5 XOR 6 OR 7 CP  ->  <<A', F'>>
Alu(y, a, v, f) ==
  LET c == f % 2 IN
  CASE y = 0 -> << (a + v) % 256, AddF(a, v, 0) >>
    [] y = 1 -> << (a + v + c) % 256, AddF(a, v, c) >>
    [] y = 2 -> << (a - v) % 256, SubF(a, v, 0, FALSE) >>
    [] y = 3 -> << (a - v - c) % 256, SubF(a, v, c, FALSE) >>
    [] y = 4 -> << And8(a, v), SZ53P(And8(a, v)) + FH >>
    [] y = 5 -> << Xor8(a, v), SZ53P(Xor8(a, v)) >>
    [] y = 6 -> << Or8(a, v), SZ53P(Or8(a, v)) >>
    [] y = 7 -> << a, SubF(a, v, 0, TRUE) >>

IncF(v, f) == LET r8 == (v + 1) % 256 IN
  SZ53(r8) + (IF v % 16 = 15 THEN FH ELSE 0) + (IF v = 127 THEN FPV ELSE 0) + (f % 2)
DecF(v, f) == LET r8 == (v - 1) % 256 IN
  SZ53(r8) + (IF v % 16 = 0 THEN FH ELSE 0) + (IF v = 128 THEN FPV ELSE 0) + FN + (f % 2)

\* rot[y]: 0 RLC 1 RRC 2 RL 3 RR 4 SLA 5 SRA 6 SLL 7 SRL  ->  <<v', F'>>
Rot(y, v, f) ==
  LET c  == f % 2
      res == CASE y = 0 -> ((v * 2) % 256) + Bit(v,7)
               [] y = 1 -> (v \div 2) + 128 * Bit(v,0)
               [] y = 2 -> ((v * 2) % 256) + c
               [] y = 3 -> (v \div 2) + 128 * c
               [] y = 4 -> (v * 2) % 256
               [] y = 5 -> (v \div 2) + 128 * Bit(v,7)
               [] y = 6 -> ((v * 2) % 256) + 1
               [] y = 7 -> v \div 2
      co == IF y \in {0, 2, 4, 6} THEN Bit(v,7) ELSE Bit(v,0)
  IN << res, SZ53P(res) + co >>

\* DAA from the manual's correction rule
Daa(a, f) ==
  LET c == f % 2  h == Bit(f, 4)  n == Bit(f, 1)
      lo == a % 16
      addlo == IF h = 1 \/ lo > 9 THEN 6 ELSE 0
      addhi == IF c = 1 \/ a > 153 THEN 96 ELSE 0
      corr == addlo + addhi
      res == IF n = 1 THEN (a - corr) % 256 ELSE (a + corr) % 256
      c2 == IF c = 1 \/ a > 153 THEN 1 ELSE 0
      h2 == IF n = 1 THEN (IF h = 1 /\ lo < 6 THEN 1 ELSE 0) ELSE (IF lo > 9 THEN 1 ELSE 0)
  IN << res, SZ53P(res) + FH * h2 + FN * n + c2 >>

\* 16-bit
Add16F(hl, v, f) ==
  LET res == hl + v IN
  And8(f, 196) + And8(Hi(res % 65536), 40) + (IF (hl % 4096) + (v % 4096) > 4095 THEN FH ELSE 0)
  + (IF res > 65535 THEN FC ELSE 0)
Adc16F(hl, v, c) ==
  LET res == hl + v + c
      r16 == res % 65536
      ov_ == (Bit(Hi(hl),7) = Bit(Hi(v),7)) /\ (Bit(Hi(r16),7) # Bit(Hi(hl),7))
  IN And8(Hi(r16), 168) + (IF r16 = 0 THEN FZ ELSE 0)
     + (IF (hl % 4096) + (v % 4096) + c > 4095 THEN FH ELSE 0)
     + (IF ov_ THEN FPV ELSE 0) + (IF res > 65535 THEN FC ELSE 0)
Sbc16F(hl, v, c) ==
  LET res == hl - v - c
      r16 == res % 65536
      ov_ == (Bit(Hi(hl),7) # Bit(Hi(v),7)) /\ (Bit(Hi(r16),7) # Bit(Hi(hl),7))
  IN And8(Hi(r16), 168) + (IF r16 = 0 THEN FZ ELSE 0)
     + (IF (hl % 4096) - (v % 4096) - c < 0 THEN FH ELSE 0)
     + (IF ov_ THEN FPV ELSE 0) + FN + (IF res < 0 THEN FC ELSE 0)

\* accumulator/flag operations of x=0,z=7: 0 RLCA 1 RRCA 2 RLA 3 RRA 4 DAA 5 CPL 6 SCF 7 CCF -> <<A', F'>>
AccOp(y, a, f) ==
  CASE y = 0 -> LET res == ((a * 2) % 256) + Bit(a,7) IN << res, And8(f, 196) + And8(res, 40) + Bit(a,7) >>
    [] y = 1 -> LET res == (a \div 2) + (128 * Bit(a,0)) IN << res, And8(f, 196) + And8(res, 40) + Bit(a,0) >>
    [] y = 2 -> LET res == ((a * 2) % 256) + (f % 2) IN << res, And8(f, 196) + And8(res, 40) + Bit(a,7) >>
    [] y = 3 -> LET res == (a \div 2) + (128 * (f % 2)) IN << res, And8(f, 196) + And8(res, 40) + Bit(a,0) >>
    [] y = 4 -> Daa(a, f)
    [] y = 5 -> LET res == 255 - a IN << res, And8(f, 197) + And8(res, 40) + FH + FN >>
    [] y = 6 -> << a, And8(f, 196) + FC >>
    [] y = 7 -> << a, And8(f, 196) + (FH * (f % 2)) + (1 - (f % 2)) >>

\* BIT y,v : bits 5,3 copied from the operand (register forms; memory forms take them from MEMPTR -> masked)
BitF(y, v, f) == (IF Bit(v, y) = 0 THEN FZ + FPV ELSE 0) + (IF y = 7 /\ Bit(v, 7) = 1 THEN FS ELSE 0)
                 + And8(v, 40) + FH + (f % 2)

\* condition cc[y]: NZ Z NC C PO PE P M
Cond(y, f) == CASE y = 0 -> Bit(f,6) = 0 [] y = 1 -> Bit(f,6) = 1
                [] y = 2 -> Bit(f,0) = 0 [] y = 3 -> Bit(f,0) = 1
                [] y = 4 -> Bit(f,2) = 0 [] y = 5 -> Bit(f,2) = 1
                [] y = 6 -> Bit(f,7) = 0 [] y = 7 -> Bit(f,7) = 1

-----------------------------------------------------------------------------
(* Effects.  u: register updates (function index -> value), wr, io, pc, t,  *)
(* ri: refresh increments, mask: flag bits the documents fix (255 = all)    *)
Eff(u, wr, io, pc, t, ri, mask) == [u |-> u, wr |-> wr, io |-> io, pc |-> pc, t |-> t, ri |-> ri, mask |-> mask]
None == <<>>
U1(i, v) == i :> v
U2(i, v, j, w) == (i :> v) @@ (j :> w)
UPair(hi, v) == (hi :> Hi(v)) @@ ((hi + 1) :> Lo(v))

\* index mode: 0 none, 1 IX, 2 IY
HLh(ix) == CASE ix = 0 -> rH [] ix = 1 -> rIXh [] ix = 2 -> rIYh
Pair(r, hi) == (r[hi] * 256) + r[hi + 1]

\* 8-bit register table r[z] (z # 6); with an index prefix H/L become IXh/IXl
Reg8(z, ix) == CASE z = 0 -> rB [] z = 1 -> rC [] z = 2 -> rD [] z = 3 -> rE
                 [] z = 4 -> HLh(ix) [] z = 5 -> HLh(ix) + 1 [] z = 7 -> rA
\* rp[p]
RPGet(r, p, ix) == CASE p = 0 -> Pair(r, rB) [] p = 1 -> Pair(r, rD) [] p = 2 -> Pair(r, HLh(ix)) [] p = 3 -> r[rSP]
RPSet(p, ix, v) == CASE p = 0 -> UPair(rB, v) [] p = 1 -> UPair(rD, v) [] p = 2 -> UPair(HLh(ix), v) [] p = 3 -> U1(rSP, v)

IncR(rv, n) == (128 * Bit(rv, 7)) + ((rv + n) % 128)

InDefault(block) == IF block THEN 191 ELSE 255
\* a port read is observable only when a tracer is installed (inv >= 0)
InEv(s, port) == IF s.inv < 0 THEN <<>> ELSE << <<"i", port, 0>> >>

-----------------------------------------------------------------------------
(* Main (unprefixed or DD/FD-prefixed) page.  pc0 = address of first byte,  *)
(* o = address of the opcode byte (pc0 or pc0+1), ix = index mode.          *)
MainPage(s, pc0, o, ix) ==
  LET r == s.r
      M(a) == MemAt(s.ov, W16(a))
      op == M(o)
      x == op \div 64  y == (op \div 8) % 8  z == op % 8  p == y \div 2  q == y % 2
      pre == IF ix = 0 THEN 0 ELSE 1           \* prefix bytes
      pt  == IF ix = 0 THEN 0 ELSE 4           \* prefix T-states
      n1 == M(o + 1)  n2 == M(o + 2)
      nn == n1 + (256 * n2)
      f == r[rF]  a == r[rA]
      hl == Pair(r, HLh(ix))                    \* HL / IX / IY
      \* (HL) or (IX+d): address, extra length, extra T
      d == n1
      ma == IF ix = 0 THEN Pair(r, rH) ELSE W16(hl + Signed8(d))
      ml == IF ix = 0 THEN 0 ELSE 1             \* displacement byte
      mt == IF ix = 0 THEN 0 ELSE 8             \* extra T on top of the prefix's 4
      next(k) == W16(pc0 + pre + k)
      E(u, wr, io, len, t) == Eff(u, wr, io, next(len), t + pt, 1 + pre, 255)
      Em(u, wr, io, len, t, mask) == Eff(u, wr, io, next(len), t + pt, 1 + pre, mask)
      J(u, wr, target, t) == Eff(u, wr, <<>>, target, t + pt, 1 + pre, 255)
      sp == r[rSP]
  IN
  CASE x = 0 /\ z = 0 /\ y = 0 -> E(None, <<>>, <<>>, 1, 4)
    [] x = 0 /\ z = 0 /\ y = 1 -> E(U2(rA, r[rxA], rF, r[rxF]) @@ U2(rxA, a, rxF, f), <<>>, <<>>, 1, 4)
    [] x = 0 /\ z = 0 /\ y = 2 ->
         LET b == (r[rB] - 1) % 256 IN
         IF b # 0 THEN J(U1(rB, b), <<>>, W16(pc0 + pre + 2 + Signed8(n1)), 13)
         ELSE E(U1(rB, b), <<>>, <<>>, 2, 8)
    [] x = 0 /\ z = 0 /\ y = 3 -> J(None, <<>>, W16(pc0 + pre + 2 + Signed8(n1)), 12)
    [] x = 0 /\ z = 0 /\ y > 3 ->
         IF Cond(y - 4, f) THEN J(None, <<>>, W16(pc0 + pre + 2 + Signed8(n1)), 12)
         ELSE E(None, <<>>, <<>>, 2, 7)
    [] x = 0 /\ z = 1 /\ q = 0 -> E(RPSet(p, ix, nn), <<>>, <<>>, 3, 10)
    [] x = 0 /\ z = 1 /\ q = 1 ->
         LET v == RPGet(r, p, ix) IN
         E(UPair(HLh(ix), W16(hl + v)) @@ U1(rF, Add16F(hl, v, f)), <<>>, <<>>, 1, 11)
    [] x = 0 /\ z = 2 /\ q = 0 /\ p = 0 -> E(None, St8(Pair(r, rB), a), <<>>, 1, 7)
    [] x = 0 /\ z = 2 /\ q = 0 /\ p = 1 -> E(None, St8(Pair(r, rD), a), <<>>, 1, 7)
    [] x = 0 /\ z = 2 /\ q = 0 /\ p = 2 -> E(None, St16(nn, hl), <<>>, 3, 16)
    [] x = 0 /\ z = 2 /\ q = 0 /\ p = 3 -> E(None, St8(nn, a), <<>>, 3, 13)
    [] x = 0 /\ z = 2 /\ q = 1 /\ p = 0 -> E(U1(rA, M(Pair(r, rB))), <<>>, <<>>, 1, 7)
    [] x = 0 /\ z = 2 /\ q = 1 /\ p = 1 -> E(U1(rA, M(Pair(r, rD))), <<>>, <<>>, 1, 7)
    [] x = 0 /\ z = 2 /\ q = 1 /\ p = 2 -> E(UPair(HLh(ix), M(nn) + (256 * M(nn + 1))), <<>>, <<>>, 3, 16)
    [] x = 0 /\ z = 2 /\ q = 1 /\ p = 3 -> E(U1(rA, M(nn)), <<>>, <<>>, 3, 13)
    [] x = 0 /\ z = 3 /\ q = 0 -> E(RPSet(p, ix, W16(RPGet(r, p, ix) + 1)), <<>>, <<>>, 1, 6)
    [] x = 0 /\ z = 3 /\ q = 1 -> E(RPSet(p, ix, W16(RPGet(r, p, ix) - 1)), <<>>, <<>>, 1, 6)
    [] x = 0 /\ z = 4 /\ y # 6 ->
         LET v == r[Reg8(y, ix)] IN E(U2(Reg8(y, ix), (v + 1) % 256, rF, IncF(v, f)), <<>>, <<>>, 1, 4)
    [] x = 0 /\ z = 4 /\ y = 6 ->
         LET v == M(ma) IN E(U1(rF, IncF(v, f)), St8(ma, (v + 1) % 256), <<>>, 1 + ml, 11 + mt)
    [] x = 0 /\ z = 5 /\ y # 6 ->
         LET v == r[Reg8(y, ix)] IN E(U2(Reg8(y, ix), (v - 1) % 256, rF, DecF(v, f)), <<>>, <<>>, 1, 4)
    [] x = 0 /\ z = 5 /\ y = 6 ->
         LET v == M(ma) IN E(U1(rF, DecF(v, f)), St8(ma, (v - 1) % 256), <<>>, 1 + ml, 11 + mt)
    [] x = 0 /\ z = 6 /\ y # 6 -> E(U1(Reg8(y, ix), n1), <<>>, <<>>, 2, 7)
    [] x = 0 /\ z = 6 /\ y = 6 ->
         IF ix = 0 THEN E(None, St8(ma, n1), <<>>, 2, 10)
         ELSE E(None, St8(ma, n2), <<>>, 3, 15)
    [] x = 0 /\ z = 7 ->        \* RLCA RRCA RLA RRA DAA CPL SCF CCF ; SCF/CCF bits 5,3 are model-dependent -> masked
         LET af == AccOp(y, a, f) IN Em(U2(rA, af[1], rF, af[2]), <<>>, <<>>, 1, 4, IF y > 5 THEN 215 ELSE 255)
    [] x = 1 /\ y = 6 /\ z = 6 ->        \* HALT (HaltAs4TSteps), see Halt below
         LET t2 == IF s.tA >= 0 THEN s.tA ELSE r[rT] + 4 + pt
             wake == r[rIFF] = 1 /\ (t2 % s.frame) < s.ia
         IN Eff(U1(rHALT, IF wake THEN 0 ELSE 1), <<>>, <<>>,
                IF wake THEN next(1) ELSE W16(pc0 + pre), 4 + pt, 1 + pre, 255)
    [] x = 1 /\ y = 6 /\ z # 6 ->        \* LD (HL),r : with an index prefix r is never IXh/IXl
         E(None, St8(ma, r[Reg8(z, 0)]), <<>>, 1 + ml, 7 + mt)
    [] x = 1 /\ y # 6 /\ z = 6 -> E(U1(Reg8(y, 0), M(ma)), <<>>, <<>>, 1 + ml, 7 + mt)
    [] x = 1 /\ y # 6 /\ z # 6 -> E(U1(Reg8(y, ix), r[Reg8(z, ix)]), <<>>, <<>>, 1, 4)
    [] x = 2 /\ z # 6 -> LET af == Alu(y, a, r[Reg8(z, ix)], f) IN E(U2(rA, af[1], rF, af[2]), <<>>, <<>>, 1, 4)
    [] x = 2 /\ z = 6 -> LET af == Alu(y, a, M(ma), f) IN E(U2(rA, af[1], rF, af[2]), <<>>, <<>>, 1 + ml, 7 + mt)
    [] x = 3 /\ z = 0 ->
         IF Cond(y, f) THEN J(U1(rSP, W16(sp + 2)), <<>>, M(sp) + (256 * M(sp + 1)), 11)
         ELSE E(None, <<>>, <<>>, 1, 5)
    [] x = 3 /\ z = 1 /\ q = 0 ->
         LET v == M(sp) + (256 * M(sp + 1)) IN
         E((IF p = 3 THEN UPair(rA, v) ELSE RPSet(p, ix, v)) @@ U1(rSP, W16(sp + 2)), <<>>, <<>>, 1, 10)
    [] x = 3 /\ z = 1 /\ q = 1 /\ p = 0 -> J(U1(rSP, W16(sp + 2)), <<>>, M(sp) + (256 * M(sp + 1)), 10)
    [] x = 3 /\ z = 1 /\ q = 1 /\ p = 1 ->
         E([i \in rB..rL |-> r[i + 16]] @@ [i \in rxB..(rxB + 5) |-> r[i - 16]], <<>>, <<>>, 1, 4)
    [] x = 3 /\ z = 1 /\ q = 1 /\ p = 2 -> J(None, <<>>, hl, 4)
    [] x = 3 /\ z = 1 /\ q = 1 /\ p = 3 -> E(U1(rSP, hl), <<>>, <<>>, 1, 6)
    [] x = 3 /\ z = 2 -> IF Cond(y, f) THEN J(None, <<>>, nn, 10) ELSE E(None, <<>>, <<>>, 3, 10)
    [] x = 3 /\ z = 3 /\ y = 0 -> J(None, <<>>, nn, 10)
    [] x = 3 /\ z = 3 /\ y = 2 -> E(None, <<>>, << <<"o", n1 + (256 * a), a>> >>, 2, 11)
    [] x = 3 /\ z = 3 /\ y = 3 ->
         E(U1(rA, IF s.inv < 0 THEN InDefault(FALSE) ELSE s.inv), <<>>, InEv(s, n1 + (256 * a)), 2, 11)
    [] x = 3 /\ z = 3 /\ y = 4 ->
         E(UPair(HLh(ix), M(sp) + (256 * M(sp + 1))), St16(sp, hl), <<>>, 1, 19)
    [] x = 3 /\ z = 3 /\ y = 5 ->        \* EX DE,HL is never indexed
         E(UPair(rD, Pair(r, rH)) @@ UPair(rH, Pair(r, rD)), <<>>, <<>>, 1, 4)
    [] x = 3 /\ z = 3 /\ y = 6 -> E(U1(rIFF, 0), <<>>, <<>>, 1, 4)
    [] x = 3 /\ z = 3 /\ y = 7 -> E(U1(rIFF, 1), <<>>, <<>>, 1, 4)
    [] x = 3 /\ z = 4 ->
         IF Cond(y, f) THEN J(U1(rSP, W16(sp - 2)), St16(sp - 2, next(3)), nn, 17)
         ELSE E(None, <<>>, <<>>, 3, 10)
    [] x = 3 /\ z = 5 /\ q = 0 ->
         LET v == IF p = 3 THEN (a * 256) + f ELSE RPGet(r, p, ix) IN
         E(U1(rSP, W16(sp - 2)), St16(sp - 2, v), <<>>, 1, 11)
    [] x = 3 /\ z = 5 /\ q = 1 /\ p = 0 -> J(U1(rSP, W16(sp - 2)), St16(sp - 2, next(3)), nn, 17)
    [] x = 3 /\ z = 6 -> LET af == Alu(y, a, n1, f) IN E(U2(rA, af[1], rF, af[2]), <<>>, <<>>, 2, 7)
    [] x = 3 /\ z = 7 -> J(U1(rSP, W16(sp - 2)), St16(sp - 2, next(1)), y * 8, 11)

\* Does the opcode at o use HL/H/L/(HL) (so that a DD/FD prefix changes it)?
Indexable(op) ==
  LET x == op \div 64  y == (op \div 8) % 8  z == op % 8  p == y \div 2  q == y % 2 IN
  \/ x = 0 /\ z = 1 /\ (p = 2 \/ q = 1)            \* LD IX,nn ; ADD IX,rp
  \/ x = 0 /\ z = 2 /\ p = 2                       \* LD (nn),IX / LD IX,(nn)
  \/ x = 0 /\ z = 3 /\ p = 2                       \* INC/DEC IX
  \/ x = 0 /\ z \in {4, 5, 6} /\ y \in {4, 5, 6}   \* INC/DEC/LD IXh/IXl/(IX+d)
  \/ x = 1 /\ (y \in {4, 5, 6} \/ z \in {4, 5, 6}) /\ ~(y = 6 /\ z = 6)
  \/ x = 2 /\ z \in {4, 5, 6}
  \/ x = 3 /\ z = 1 /\ p = 2                       \* POP IX, JP (IX)
  \/ x = 3 /\ z = 1 /\ q = 1 /\ p = 3              \* LD SP,IX
  \/ x = 3 /\ z = 3 /\ y = 4                       \* EX (SP),IX
  \/ x = 3 /\ z = 5 /\ q = 0 /\ p = 2              \* PUSH IX
  \/ op = 203                                      \* DDCB page

-----------------------------------------------------------------------------
(* CB page (ix = 0: op at o; ix # 0: DD CB d op, result also copied to r[z]) *)
CBPage(s, pc0, ix) ==
  LET r == s.r
      M(a) == MemAt(s.ov, W16(a))
      op == IF ix = 0 THEN M(pc0 + 1) ELSE M(pc0 + 3)
      x == op \div 64  y == (op \div 8) % 8  z == op % 8
      f == r[rF]
      mem == ix # 0 \/ z = 6
      ma == IF ix = 0 THEN Pair(r, rH) ELSE W16(Pair(r, HLh(ix)) + Signed8(M(pc0 + 2)))
      v == IF mem THEN M(ma) ELSE r[Reg8(z, 0)]
      len == IF ix = 0 THEN 2 ELSE 4
      t(tr, tm, tx) == IF ix # 0 THEN tx ELSE IF z = 6 THEN tm ELSE tr
      res == CASE x = 0 -> Rot(y, v, f)[1] [] x = 2 -> v - (Pow2(y) * Bit(v, y)) [] x = 3 -> v + (Pow2(y) * (1 - Bit(v, y))) [] x = 1 -> v
      \* destination: memory (and register copy for DDCB with z # 6) or register
      upd == IF mem THEN (IF ix # 0 /\ z # 6 THEN U1(Reg8(z, 0), res) ELSE None) ELSE U1(Reg8(z, 0), res)
      wr == IF mem THEN St8(ma, res) ELSE <<>>
  IN
  CASE x = 0 -> Eff(upd @@ U1(rF, Rot(y, v, f)[2]), wr, <<>>, W16(pc0 + len), t(8, 15, 23), 2, 255)
    [] x = 1 ->      \* BIT: bits 5,3 come from internal state (MEMPTR) for memory forms -> masked
         Eff(U1(rF, BitF(y, v, f)), <<>>, <<>>, W16(pc0 + len), t(8, 12, 20), 2, IF mem THEN 215 ELSE 255)
    [] OTHER -> Eff(upd, wr, <<>>, W16(pc0 + len), t(8, 15, 23), 2, 255)

-----------------------------------------------------------------------------
(* ED page *)
EDPage(s, pc0) ==
  LET r == s.r
      M(a) == MemAt(s.ov, W16(a))
      op == M(pc0 + 1)
      x == op \div 64  y == (op \div 8) % 8  z == op % 8  p == y \div 2  q == y % 2
      f == r[rF]  a == r[rA]
      n1 == M(pc0 + 2)  n2 == M(pc0 + 3)  nn == n1 + (256 * n2)
      hl == Pair(r, rH)  bc == Pair(r, rB)  de == Pair(r, rD)  sp == r[rSP]
      E(u, wr, io, len, t) == Eff(u, wr, io, W16(pc0 + len), t, 2, 255)
      Em(u, wr, io, len, t, mask) == Eff(u, wr, io, W16(pc0 + len), t, 2, mask)
      inval(block) == IF s.inv < 0 THEN InDefault(block) ELSE s.inv
  IN
  CASE x = 1 /\ z = 0 ->
         LET v == inval(FALSE) IN
         E((IF y = 6 THEN None ELSE U1(Reg8(y, 0), v)) @@ U1(rF, SZ53P(v) + (f % 2)), <<>>, InEv(s, bc), 2, 12)
    [] x = 1 /\ z = 1 -> E(None, <<>>, << <<"o", bc, IF y = 6 THEN 0 ELSE r[Reg8(y, 0)]>> >>, 2, 12)
    [] x = 1 /\ z = 2 /\ q = 0 ->
         LET v == RPGet(r, p, 0) IN E(UPair(rH, W16(hl - v - (f % 2))) @@ U1(rF, Sbc16F(hl, v, f % 2)), <<>>, <<>>, 2, 15)
    [] x = 1 /\ z = 2 /\ q = 1 ->
         LET v == RPGet(r, p, 0) IN E(UPair(rH, W16(hl + v + (f % 2))) @@ U1(rF, Adc16F(hl, v, f % 2)), <<>>, <<>>, 2, 15)
    [] x = 1 /\ z = 3 /\ q = 0 -> E(None, St16(nn, RPGet(r, p, 0)), <<>>, 4, 20)
    [] x = 1 /\ z = 3 /\ q = 1 -> E(RPSet(p, 0, M(nn) + (256 * M(nn + 1))), <<>>, <<>>, 4, 20)
    [] x = 1 /\ z = 4 -> E(U2(rA, (0 - a) % 256, rF, SubF(0, a, 0, FALSE)), <<>>, <<>>, 2, 8)
    [] x = 1 /\ z = 5 -> Eff(U1(rSP, W16(sp + 2)), <<>>, <<>>, M(sp) + (256 * M(sp + 1)), 14, 2, 255)
    [] x = 1 /\ z = 6 -> E(U1(rIM, CASE y % 4 = 0 -> 0 [] y % 4 = 1 -> 0 [] y % 4 = 2 -> 1 [] y % 4 = 3 -> 2), <<>>, <<>>, 2, 8)
    [] x = 1 /\ z = 7 /\ y = 0 -> E(U1(rI, a), <<>>, <<>>, 2, 9)
    [] x = 1 /\ z = 7 /\ y = 1 -> E(U1(rR, a), <<>>, <<>>, 2, 9)
    [] x = 1 /\ z = 7 /\ y \in {2, 3} ->
         \* LD A,I / LD A,R ; R is read after its refresh increments.
         \* LdAIrQuirk: P/V reads 0 when an interrupt is accepted right after the instruction
         LET v == IF y = 2 THEN r[rI] ELSE IncR(r[rR], 2)
             quirk == r[rIFF] = 1 /\ ((IF s.tA >= 0 THEN s.tA ELSE r[rT] + 9) % s.frame) < s.ia
         IN E(U2(rA, v, rF, SZ53(v) + (IF r[rIFF] = 1 /\ ~quirk THEN FPV ELSE 0) + (f % 2)), <<>>, <<>>, 2, 9)
    [] x = 1 /\ z = 7 /\ y = 4 ->      \* RRD
         LET m == M(hl)  a2 == ((a \div 16) * 16) + (m % 16) IN
         E(U2(rA, a2, rF, SZ53P(a2) + (f % 2)), St8(hl, ((a % 16) * 16) + (m \div 16)), <<>>, 2, 18)
    [] x = 1 /\ z = 7 /\ y = 5 ->      \* RLD
         LET m == M(hl)  a2 == ((a \div 16) * 16) + (m \div 16) IN
         E(U2(rA, a2, rF, SZ53P(a2) + (f % 2)), St8(hl, ((m % 16) * 16) + (a % 16)), <<>>, 2, 18)
    [] x = 1 /\ z = 7 /\ y > 5 -> E(None, <<>>, <<>>, 2, 8)
    [] x = 2 /\ z < 4 /\ y > 3 ->
         LET inc == IF y \in {4, 6} THEN 1 ELSE -1
             rep == y > 5
             bc2 == W16(bc - 1)
             hl2 == W16(hl + inc)
         IN
         (CASE z = 0 ->     \* LDI LDD LDIR LDDR
                LET v == M(hl)  k == (a + v) % 256
                    again == rep /\ bc2 # 0
                    fl == And8(f, 193) + (IF bc2 # 0 THEN FPV ELSE 0) + (F3 * Bit(k, 3)) + (F5 * Bit(k, 1))
                IN Eff(UPair(rH, hl2) @@ UPair(rD, W16(de + inc)) @@ UPair(rB, bc2) @@ U1(rF, fl),
                       St8(de, v), <<>>, IF again THEN pc0 ELSE W16(pc0 + 2), IF again THEN 21 ELSE 16, 2,
                       IF again THEN 215 ELSE 255)
           [] z = 1 ->     \* CPI CPD CPIR CPDR
                LET v == M(hl)
                    cp == (a - v) % 256
                    hf == IF (a % 16) < (v % 16) THEN 1 ELSE 0
                    k == (a - v - hf) % 256
                    again == rep /\ bc2 # 0 /\ cp # 0
                    fl == And8(cp, 128) + (IF cp = 0 THEN FZ ELSE 0) + (FH * hf) + (IF bc2 # 0 THEN FPV ELSE 0) + FN
                          + (f % 2) + (F3 * Bit(k, 3)) + (F5 * Bit(k, 1))
                IN Eff(UPair(rH, hl2) @@ UPair(rB, bc2) @@ U1(rF, fl), <<>>, <<>>,
                       IF again THEN pc0 ELSE W16(pc0 + 2), IF again THEN 21 ELSE 16, 2,
                       IF again THEN 215 ELSE 255)
           [] z = 2 ->     \* INI IND INIR INDR
                LET v == inval(TRUE)
                    b2 == (r[rB] - 1) % 256
                    k == v + ((r[rC] + inc) % 256)
                    again == rep /\ b2 # 0
                    fl == SZ53(b2) + (IF k > 255 THEN FH + FC ELSE 0) + (FN * Bit(v, 7))
                          + (IF EvenParity(Xor8(k % 8, b2)) THEN FPV ELSE 0)
                IN Eff(UPair(rH, hl2) @@ U1(rB, b2) @@ U1(rF, fl), St8(hl, v), InEv(s, bc),
                       IF again THEN pc0 ELSE W16(pc0 + 2), IF again THEN 21 ELSE 16, 2,
                       IF again THEN 195 ELSE 255)
           [] z = 3 ->     \* OUTI OUTD OTIR OTDR  (B is decremented before it appears on the bus)
                LET v == M(hl)
                    b2 == (r[rB] - 1) % 256
                    k == v + (hl2 % 256)
                    again == rep /\ b2 # 0
                    fl == SZ53(b2) + (IF k > 255 THEN FH + FC ELSE 0) + (FN * Bit(v, 7))
                          + (IF EvenParity(Xor8(k % 8, b2)) THEN FPV ELSE 0)
                IN Eff(UPair(rH, hl2) @@ U1(rB, b2) @@ U1(rF, fl), <<>>, << <<"o", r[rC] + (256 * b2), v>> >>,
                       IF again THEN pc0 ELSE W16(pc0 + 2), IF again THEN 21 ELSE 16, 2,
                       IF again THEN 195 ELSE 255))
    [] OTHER -> E(None, <<>>, <<>>, 2, 8)      \* NONI: behaves as two NOPs

-----------------------------------------------------------------------------
(* One step.  PrefixNop: DD/FD before an opcode that does not use HL is a   *)
(* separate 1-byte, 4-T, R+1 step (the following opcode runs as its own     *)
(* step).                                                                   *)
Decode(s) ==
  LET pc == s.r[rPC]
      M(a) == MemAt(s.ov, W16(a))
      b0 == M(pc)
  IN
  CASE b0 = 203 -> CBPage(s, pc, 0)
    [] b0 = 237 -> EDPage(s, pc)
    [] b0 \in {221, 253} ->
         LET ix == IF b0 = 221 THEN 1 ELSE 2
             b1 == M(pc + 1)
         IN IF ~Indexable(b1) THEN Eff(None, <<>>, <<>>, W16(pc + 1), 4, 1, 255)     \* PrefixNop
            ELSE IF b1 = 203 THEN CBPage(s, pc, ix)
            ELSE MainPage(s, pc, W16(pc + 1), ix)
    [] OTHER -> MainPage(s, pc, pc, 0)

Step(s) ==
  LET e == Decode(s)
      r == s.r
      \* LD R,A sets R after the refresh increments
      r2 == [i \in 1..30 |->
               CASE i = rPC -> e.pc
                 [] i = rT -> IF s.tA >= 0 THEN s.tA ELSE r[rT] + e.t
                 [] i = rR -> IF rR \in DOMAIN e.u THEN e.u[rR] ELSE IncR(r[rR], e.ri)
                 [] OTHER -> IF i \in DOMAIN e.u THEN e.u[i] ELSE r[i]]
  IN [r |-> r2, wr |-> RomWriteIgnored(e.wr), io |-> e.io, mask |-> e.mask]

-----------------------------------------------------------------------------
(* Maskable interrupt at an instruction boundary (SkoolKit's machine):      *)
(* accepted iff IFF = 1, the frame position after the instruction lies in   *)
(* the INT-active window, the instruction was not EI (NoIntAfterEI) and was *)
(* not a lone DD/FD prefix (PrefixNop).  IM 0 is treated as IM 1            *)
(* (Im0AsIm1).  s = state before the instruction, st = Step(s).             *)
IntAccepts(s, st) ==
  LET op == MemAt(s.ov, s.r[rPC]) IN
  /\ st.r[rIFF] = 1
  /\ (st.r[rT] % s.frame) < s.ia
  /\ op # 251
  /\ ~(op \in {221, 253} /\ st.r[rPC] = W16(s.r[rPC] + 1))

\* memory after the instruction's own writes
OvAfter(ov, wr) == ov \o wr

Interrupt(s, st) ==
  LET r == st.r
      ov2 == OvAfter(s.ov, st.wr)
      im2 == r[rIM] = 2
      va == (r[rI] * 256) + 255
      target == IF im2 THEN MemAt(ov2, va) + (256 * MemAt(ov2, W16(va + 1))) ELSE 56
      sp2 == W16(r[rSP] - 2)
      r2 == [r EXCEPT ![rSP] = sp2, ![rPC] = target, ![rT] = r[rT] + (IF im2 THEN 19 ELSE 13),
                      ![rR] = IncR(r[rR], 1), ![rIFF] = 0, ![rHALT] = 0]
  IN [r |-> r2, wr |-> st.wr \o RomWriteIgnored(St16(sp2, r[rPC])), io |-> st.io, mask |-> st.mask]

\* one instruction boundary to the next, with the frame interrupt when enabled
StepInt(s, ints) ==
  LET st == Step(s) IN IF ints /\ IntAccepts(s, st) THEN Interrupt(s, st) ELSE st

\* Net effect of a write sequence on memory: the last value per address, dropping no-ops
FinalWrites(ov, wr) ==
  { <<wr[i][1], wr[i][2]>> : i \in { j \in 1..Len(wr) : (\A k \in j+1..Len(wr) : wr[k][1] # wr[j][1])
                                                      /\ MemAt(ov, wr[j][1]) # wr[j][2] } }

\* instruction length / timing exposed for the table checks (C07)
InstrLen(s) == W16(Decode(s).pc - s.r[rPC])
=============================================================================
