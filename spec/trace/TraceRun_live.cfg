SPECIFICATION MCLive
CONSTANTS
  MaxOpsLimit = 3
  TLimits = {0, 11}
  Bound = 12
  NegOrder = FALSE
CONSTRAINT Cut
PROPERTIES Terminates
CHECK_DEADLOCK FALSE
