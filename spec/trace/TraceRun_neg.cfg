INIT MCInit
NEXT MCNext
CONSTANTS
  MaxOpsLimit = 6
  TLimits = {0}
  Bound = 24
  NegOrder = TRUE
CONSTRAINT Cut
INVARIANTS OneReason
CHECK_DEADLOCK FALSE
