------------------------------ MODULE TraceRun ------------------------------
(***************************************************************************)
(* E06 - trace.py run control: the documented behaviour of `trace.py`       *)
(* (sphinx/source/commands.rst "trace.py", sphinx/source/man/trace.py.rst)  *)
(* as a state machine on top of the executable Z80 specification            *)
(* (Z80!Step, Z80!IntAccepts, Z80!Interrupt) and Z80Asm!TextF.              *)
(*                                                                         *)
(*   job : what the command line asks for (constant during a run)           *)
(*     is128, realrom, r0 (30 registers, PC = start address, T = clock),    *)
(*     mem0 [ov, is128, p7], hw0 [fffd, ay, fe, border], stop (-1: none),   *)
(*     maxops / maxt (0: no limit), ints, cmio + tafter (contended runs:    *)
(*     the clock after every instruction is an input, see Instr), fmt       *)
(*   m   : the machine while `trace.py` runs                                *)
(*     ph "exec" -> "int" -> "check" -> ("exec" | "done" -> "reported")     *)
(*     r, mem, hw, ops (instructions executed), t0 (clock at the start),    *)
(*     reason ("" | "ops" | "tstates" | "addr"), last (the instruction just *)
(*     executed), ok (inside the modelled domain), map (--map), nint /      *)
(*     nhalt / npage (interrupts accepted, HALT repeats, paging changes)    *)
(*                                                                         *)
(* Actions (one instruction boundary = StepAction ; AcceptInterrupt or      *)
(* NoInterrupt ; one of StopByOperations / StopByTstates / StopByAddress /  *)
(* Continue), then Finish.  The stop conditions are tested only AFTER an    *)
(* instruction (the instruction at the start address is always executed),   *)
(* in the priority order operations > T-states > address:                   *)
(*   man page: "-m MAX ... Overrides the STOP address", "-M MAX ...         *)
(*   Overrides the STOP address"; which of -m / -M wins when both are        *)
(*   reached at the same boundary is not documented (OpsBeforeTstates).      *)
(*                                                                         *)
(* Named conventions where the documents are silent (judged as drift by     *)
(* TraceJudge, never as violations): OpsBeforeTstates, StartEqualsStopRuns, *)
(* SimulatorDefaults, RegistersAfterInstruction, TimestampAtStart.          *)
(***************************************************************************)
EXTENDS Z80Asm

VARIABLES job, m
vars == <<job, m>>

-----------------------------------------------------------------------------
(* Machines: "48K, 128K or +2" *)
Frame(is128) == IF is128 THEN 70908 ELSE 69888
IntActive(is128) == IF is128 THEN 36 ELSE 32
ClockHz(is128) == IF is128 THEN 3546900 ELSE 3500000

-----------------------------------------------------------------------------
(* Memory.  mem = [ov, is128, p7]: ov is a sequence of <<cell, byte>> over   *)
(* Z80Bits!Base.  A cell is a logical address below 0xC000 (any address of a *)
(* 48K machine); on a 128K machine an address >= 0xC000 names cell           *)
(* 65536 + bank * 16384 + offset of the RAM bank selected by bits 0-2 of the *)
(* last OUT to port 0x7ffd.  RAM banks 2 and 5 at 0xC000 (also visible at    *)
(* 0x8000 / 0x4000) are outside the modelled domain: Aliased.                *)
Bank(mm) == mm.p7 % 8
BankLo(mm) == 65536 + (Bank(mm) * 16384)
CellOf(is128, bank, a) == IF is128 /\ a >= 49152 THEN 65536 + (bank * 16384) + (a - 49152) ELSE a
Cell(mm, a) == CellOf(mm.is128, Bank(mm), a)
Aliased(mm) == mm.is128 /\ Bank(mm) \in {2, 5}

\* what the CPU sees: logical address -> byte, as a Z80!MemAt overlay
View(mm) ==
  IF ~mm.is128 THEN mm.ov
  ELSE LET lo == BankLo(mm)
           vis == SelectSeq(mm.ov, LAMBDA e : e[1] < 49152 \/ (e[1] >= lo /\ e[1] < lo + 16384))
       IN [i \in 1..Len(vis) |-> IF vis[i][1] < 49152 THEN vis[i] ELSE <<49152 + (vis[i][1] - lo), vis[i][2]>>]

Peek(mm, a) == MemAt(View(mm), W16(a))
CellAt(ov, c, base) == IF \E i \in 1..Len(ov) : ov[i][1] = c
                       THEN ov[CHOOSE i \in 1..Len(ov) : ov[i][1] = c /\ \A k \in i+1..Len(ov) : ov[k][1] # c][2]
                       ELSE base

\* writes (<<cell, byte>> in order); older values of the same cells are dropped so that the overlay stays small
StoreCells(mm, cw) ==
  IF cw = <<>> THEN mm
  ELSE LET keep == SelectSeq(mm.ov, LAMBDA e : \A i \in 1..Len(cw) : cw[i][1] # e[1])
       IN [mm EXCEPT !.ov = keep \o cw]
\* logical writes land in the cells that are paged in
Store(mm, wr) == StoreCells(mm, [i \in 1..Len(wr) |-> <<Cell(mm, wr[i][1]), wr[i][2]>>])

-----------------------------------------------------------------------------
(* Hardware reached through ports (partial decoding of the ULA, the 128K     *)
(* paging latch and the AY chip).  --state names: 7ffd "last OUT to port     *)
(* 0x7ffd", fffd "last OUT to port 0xfffd", ay[N] "contents of AY register   *)
(* N", fe "last OUT to port 0xfe", border "border colour".                    *)
A15(p) == (p \div 32768) % 2
A14(p) == (p \div 16384) % 2
A1(p) == (p \div 2) % 2
A0(p) == p % 2

\* h = [mem, hw]
OutHw(h, port, v) ==
  LET pg == h.mem.is128 /\ A15(port) = 0 /\ A1(port) = 0 /\ (h.mem.p7 \div 32) % 2 = 0
      m2 == IF pg THEN [h.mem EXCEPT !.p7 = v] ELSE h.mem
      w1 == IF A0(port) = 0 THEN [h.hw EXCEPT !.fe = v, !.border = v % 8] ELSE h.hw
      w2 == IF A15(port) = 1 /\ A14(port) = 1 /\ A1(port) = 0 THEN [w1 EXCEPT !.fffd = v]
            ELSE IF A15(port) = 1 /\ A14(port) = 0 /\ A1(port) = 0 /\ w1.fffd < 16 THEN [w1 EXCEPT !.ay = [w1.ay EXCEPT ![w1.fffd + 1] = v]]
            ELSE w1
  IN [mem |-> m2, hw |-> w2]

RECURSIVE OutsHw(_, _, _)
OutsHw(h, io, i) ==
  IF i > Len(io) THEN h
  ELSE OutsHw(IF io[i][1] = "o" THEN OutHw(h, io[i][2], io[i][3]) ELSE h, io, i + 1)

\* IN: no key is pressed and nothing drives the bus (255), except that a 128K machine answers reads of
\* port 0xfffd with the selected AY register
InValue(j, x, port) ==
  IF j.is128 /\ A15(port) = 1 /\ A14(port) = 1 /\ A1(port) = 0 /\ x.hw.fffd < 16 THEN x.hw.ay[x.hw.fffd + 1] ELSE 255

-----------------------------------------------------------------------------
(* One instruction.  --cmio: "simulate memory and I/O contention" changes    *)
(* timing only; the contended clock after each instruction is taken from     *)
(* the observation (job.tafter) and must not be shorter than the             *)
(* uncontended duration (TraceJudge!LineClause).                             *)
TAfter(j, k) == IF j.cmio /\ k <= Len(j.tafter) THEN j.tafter[k] ELSE -1

CpuState(j, x, ov, inv, tA) ==
  [r |-> x.r, ov |-> ov, inv |-> inv, frame |-> Frame(j.is128), ia |-> IntActive(j.is128), tA |-> tA]

Instr(j, x) ==
  LET ov == View(x.mem)
      tA == TAfter(j, x.ops + 1)
      st0 == Step(CpuState(j, x, ov, 255, tA))
      ins == SelectSeq(st0.io, LAMBDA e : e[1] = "i")
      v == IF ins = <<>> THEN 255 ELSE InValue(j, x, ins[1][2])
  IN IF v = 255 THEN st0 ELSE Step(CpuState(j, x, ov, v, tA))

\* uncontended duration of the instruction about to be executed
PlainDuration(j, x) == Step(CpuState(j, x, View(x.mem), 255, -1)).r[rT] - x.r[rT]

\* the modelled domain: no execution in a ROM whose contents the specification does not have, no aliased paging
InDomain(j, x) == ~(j.realrom /\ x.r[rPC] < 16384) /\ ~Aliased(x.mem)

-----------------------------------------------------------------------------
(* The run loop *)
M0(j) == [ph |-> "exec", r |-> j.r0, mem |-> j.mem0, hw |-> j.hw0, ops |-> 0, t0 |-> j.r0[rT], reason |-> "",
          last |-> [pc |-> 0, op |-> 0, t |-> 0], ok |-> TRUE, mask |-> 255, map |-> {}, nint |-> 0, nhalt |-> 0, npage |-> 0]

InitWith(j) == job = j /\ m = M0(j)

\* "simulates code execution beginning with the instruction at the address specified by the --start option (or the
\* program counter in the snapshot)": one instruction, its stores, its port writes (paging takes effect at once)
StepAction ==
  /\ m.ph = "exec"
  /\ LET st == Instr(job, m)
         h == OutsHw([mem |-> Store(m.mem, st.wr), hw |-> m.hw], st.io, 1)
         pc == m.r[rPC]
     IN m' = [m EXCEPT !.ph = "int", !.r = st.r, !.mem = h.mem, !.hw = h.hw, !.ops = @ + 1,
                       !.last = [pc |-> pc, op |-> Peek(m.mem, pc), t |-> m.r[rT]],
                       !.ok = @ /\ InDomain(job, m), !.mask = st.mask, !.map = @ \cup {pc},
                       !.nhalt = @ + st.r[rHALT], !.npage = @ + (IF h.mem.p7 # m.mem.p7 THEN 1 ELSE 0)]
  /\ UNCHANGED job

\* "interrupt routines are executed by default" (9.0), "-n, --no-interrupts  Don't execute interrupt routines":
\* Z80!IntAccepts on the boundary just reached (IFF set, frame position inside the INT window of a 48K / 128K frame,
\* not right after EI or a lone prefix); the vector read and the push see the memory as the instruction left it
IntWindow(j, x) ==
  IntAccepts([r |-> [x.r EXCEPT ![rPC] = x.last.pc], ov |-> << <<x.last.pc, x.last.op>> >>,
              frame |-> Frame(j.is128), ia |-> IntActive(j.is128)],
             [r |-> x.r])

AcceptInterrupt ==
  /\ m.ph = "int" /\ job.ints /\ IntWindow(job, m)
  /\ LET it == Interrupt([ov |-> View(m.mem)], [r |-> m.r, wr |-> <<>>, io |-> <<>>, mask |-> 255])
     IN m' = [m EXCEPT !.ph = "check", !.r = it.r, !.mem = Store(m.mem, it.wr), !.nint = @ + 1]
  /\ UNCHANGED job

NoInterrupt ==
  /\ m.ph = "int" /\ ~(job.ints /\ IntWindow(job, m))
  /\ m' = [m EXCEPT !.ph = "check"]
  /\ UNCHANGED job

\* "-m MAX  Maximum number of instructions to execute"
OpsReached(j, x) == j.maxops > 0 /\ x.ops >= j.maxops
\* "-M MAX  Maximum number of (simulated) T-states to run for": elapsed since the run began, instructions are indivisible
TReached(j, x) == j.maxt > 0 /\ x.r[rT] - x.t0 >= j.maxt
\* "ending when the instruction at the address specified by --stop (if any) is reached"
AtStop(j, x) == j.stop >= 0 /\ x.r[rPC] = j.stop

StopByOperations ==
  /\ m.ph = "check" /\ OpsReached(job, m)
  /\ m' = [m EXCEPT !.ph = "done", !.reason = "ops"]
  /\ UNCHANGED job
StopByTstates ==
  /\ m.ph = "check" /\ ~OpsReached(job, m) /\ TReached(job, m)
  /\ m' = [m EXCEPT !.ph = "done", !.reason = "tstates"]
  /\ UNCHANGED job
StopByAddress ==
  /\ m.ph = "check" /\ ~OpsReached(job, m) /\ ~TReached(job, m) /\ AtStop(job, m)
  /\ m' = [m EXCEPT !.ph = "done", !.reason = "addr"]
  /\ UNCHANGED job
Continue ==
  /\ m.ph = "check" /\ ~OpsReached(job, m) /\ ~TReached(job, m) /\ ~AtStop(job, m)
  /\ m' = [m EXCEPT !.ph = "exec"]
  /\ UNCHANGED job

\* the report is printed, the output files are written
Finish ==
  /\ m.ph = "done"
  /\ m' = [m EXCEPT !.ph = "reported"]
  /\ UNCHANGED job

Next == StepAction \/ AcceptInterrupt \/ NoInterrupt \/ StopByOperations \/ StopByTstates \/ StopByAddress
        \/ Continue \/ Finish

-----------------------------------------------------------------------------
(* Text.  TraceOperand "the prefix, byte format, and word format for the     *)
(* numeric operands of instructions" (default $,02X,04X; -D: ,,).            *)
HexD(d) == CASE d = 0 -> "0" [] d = 1 -> "1" [] d = 2 -> "2" [] d = 3 -> "3" [] d = 4 -> "4" [] d = 5 -> "5"
             [] d = 6 -> "6" [] d = 7 -> "7" [] d = 8 -> "8" [] d = 9 -> "9" [] d = 10 -> "A" [] d = 11 -> "B"
             [] d = 12 -> "C" [] d = 13 -> "D" [] d = 14 -> "E" [] d = 15 -> "F"
Hex2(v) == HexD((v \div 16) % 16) \o HexD(v % 16)
Hex4(v) == Hex2(v \div 256) \o Hex2(v % 256)
NDigits(v) == IF v < 10 THEN 1 ELSE IF v < 100 THEN 2 ELSE IF v < 1000 THEN 3 ELSE IF v < 10000 THEN 4 ELSE 5
Zeros(n) == CASE n <= 0 -> "" [] n = 1 -> "0" [] n = 2 -> "00" [] n = 3 -> "000" [] n = 4 -> "0000"
Pad(v, w) == Zeros(w - NDigits(v)) \o ToString(v)
\* the Python format specifiers the harness uses
Fmt(f, v) == CASE f = "" -> ToString(v) [] f = "02X" -> Hex2(v) [] f = "04X" -> Hex4(v)
               [] f = "03" -> Pad(v, 3) [] f = "05" -> Pad(v, 5) [] f = "03d" -> Pad(v, 3) [] f = "05d" -> Pad(v, 5)

FmtB(f, v) == f.p \o Fmt(f.b, v)
FmtW(f, v) == f.p \o Fmt(f.w, v)
\* "{i} - the current instruction", disassembled before it is executed
InstrText(f, ov, pc) ==
  LET M(a) == MemAt(ov, a)
      NB(v) == FmtB(f, v)
      NW(v) == FmtW(f, v)
      ND(d) == IF d < 128 THEN "+" \o FmtB(f, d) ELSE "-" \o FmtB(f, 256 - d)
  IN TextF(M, NB, NW, ND, pc)[1]

\* "{pc} - the address of the current instruction": default TraceLine ${pc:04X}, TraceLineDecimal {pc:05}
AddrText(decimal, pc) == IF decimal THEN Pad(pc, 5) ELSE "$" \o Hex4(pc)

-----------------------------------------------------------------------------
(* The report (evaluated in the final state) *)
\* 'Stopped at <PC>', ': N operations' when -m ended the run, ': N T-states' when -M did
Report(j, x) == [pc |-> FmtW(j.fmt, x.r[rPC]), kind |-> x.reason,
                 n |-> IF x.reason = "ops" THEN x.ops ELSE IF x.reason = "tstates" THEN x.r[rT] - x.t0 ELSE 0]
\* --stats: 'Z80 execution time: N T-states (S.SSSs)', 'Instructions executed: N'
Elapsed(x) == x.r[rT] - x.t0
\* thousandths of a second, rounded; both neighbours when the quotient is within 1/1000 of a tie (float formatting)
Millis(j, x) ==
  LET hz == ClockHz(j.is128)
      n2 == 2000 * Elapsed(x)
      q2 == n2 \div hz
  IN IF n2 % hz = 0 /\ q2 % 2 = 1 THEN { q2 \div 2, (q2 \div 2) + 1 } ELSE { (q2 + 1) \div 2 }
\* the snapshot written after execution: registers, "T-states elapsed since start of frame", border, paging, AY, memory
SnapT(j, x) == x.r[rT] % Frame(j.is128)

-----------------------------------------------------------------------------
(* Initial state: "Init from options".  in = what the input file holds:      *)
(*   kind "z80" | "szx" | "sna" | "bin" | "blank", is128, regs (snapshot      *)
(*   kinds, simulator layout), t (-1: the format has no clock), border, p7,   *)
(*   fffd, ay, fe, org (bin: address of the first byte), stackpc (48K SNA:    *)
(*   PC is on the stack), ov (memory cells)                                   *)
(* op = the options: regs <<[n, v]>>, state <<[n, i, v]>>, pokes <<[bank, a,  *)
(*   b, c, op, v]>>, start, stop, maxops, maxt, ints, cmio, tafter, fmt       *)
\* SimulatorDefaults (not in the trace.py documents; #SIM documents the same values except IFF):
\* IY = 23610, I = 63, SP = 23552, IM 1, IFF 1, clock 0
DefaultRegs == [i \in 1..30 |-> CASE i = rIYh -> 92 [] i = rIYl -> 58 [] i = rSP -> 23552 [] i = rI -> 63
                                  [] i = rIM -> 1 [] i = rIFF -> 1 [] OTHER -> 0]
Zero16 == [i \in 1..16 |-> 0]

Set8(r, i, v) == [r EXCEPT ![i] = v]
Set16(r, hi, v) == [r EXCEPT ![hi] = v \div 256, ![hi + 1] = v % 256]
\* "--reg name=value  Set the value of a register before execution begins"
SetReg(r, n, v) ==
  CASE n = "a" -> Set8(r, rA, v) [] n = "f" -> Set8(r, rF, v) [] n = "b" -> Set8(r, rB, v) [] n = "c" -> Set8(r, rC, v)
    [] n = "d" -> Set8(r, rD, v) [] n = "e" -> Set8(r, rE, v) [] n = "h" -> Set8(r, rH, v) [] n = "l" -> Set8(r, rL, v)
    [] n = "bc" -> Set16(r, rB, v) [] n = "de" -> Set16(r, rD, v) [] n = "hl" -> Set16(r, rH, v)
    [] n = "^a" -> Set8(r, rxA, v) [] n = "^f" -> Set8(r, rxF, v) [] n = "^b" -> Set8(r, rxB, v) [] n = "^c" -> Set8(r, rxB + 1, v)
    [] n = "^d" -> Set8(r, rxB + 2, v) [] n = "^e" -> Set8(r, rxB + 3, v) [] n = "^h" -> Set8(r, rxH, v) [] n = "^l" -> Set8(r, rxH + 1, v)
    [] n = "^bc" -> Set16(r, rxB, v) [] n = "^de" -> Set16(r, rxB + 2, v) [] n = "^hl" -> Set16(r, rxH, v)
    [] n = "ix" -> Set16(r, rIXh, v) [] n = "iy" -> Set16(r, rIYh, v) [] n = "i" -> Set8(r, rI, v) [] n = "r" -> Set8(r, rR, v)
    [] n = "sp" -> Set8(r, rSP, v) [] n = "pc" -> Set8(r, rPC, v) [] n = "memptr" -> Set8(r, rMEMPTR, v)

RECURSIVE SetRegs(_, _, _)
SetRegs(r, rs, i) == IF i > Len(rs) THEN r ELSE SetRegs(SetReg(r, rs[i].n, rs[i].v), rs, i + 1)

\* "--state name=value  Set a hardware state attribute before execution begins"
HasState(ss, n) == \E i \in 1..Len(ss) : ss[i].n = n
LastState(ss, n) == ss[CHOOSE i \in 1..Len(ss) : ss[i].n = n /\ \A k \in i+1..Len(ss) : ss[k].n # n].v
StateOr(ss, n, d) == IF HasState(ss, n) THEN LastState(ss, n) ELSE d
RECURSIVE SetAy(_, _, _)
SetAy(ay, ss, i) == IF i > Len(ss) THEN ay
                    ELSE SetAy(IF ss[i].n = "ay" THEN [ay EXCEPT ![(ss[i].i % 16) + 1] = ss[i].v] ELSE ay, ss, i + 1)

\* "-p [p:]a[-b[-c]],[^+]v  POKE N,v in RAM bank p for N in {a, a+c, a+2c..., b} ... '^' XOR, '+' ADD"
PokeCells(mm, pk) ==
  LET n == ((pk.b - pk.a) \div pk.c) + 1
      cell(k) == IF pk.bank >= 0 THEN (IF pk.bank = 5 THEN 16384 ELSE IF pk.bank = 2 THEN 32768 ELSE 65536 + (pk.bank * 16384))
                                      + ((pk.a + (k * pk.c)) % 16384)
                 ELSE Cell(mm, pk.a + (k * pk.c))
      base(c) == IF c < 65536 THEN Base(c) ELSE Base(49152 + ((c - 65536) % 16384))
      val(c) == LET old == CellAt(mm.ov, c, base(c)) IN
                CASE pk.op = 0 -> pk.v [] pk.op = 1 -> Xor8(old, pk.v) [] pk.op = 2 -> (old + pk.v) % 256
  IN [k \in 1..n |-> <<cell(k - 1), val(cell(k - 1))>>]
RECURSIVE Pokes(_, _, _)
Pokes(mm, ps, i) == IF i > Len(ps) THEN mm ELSE Pokes(StoreCells(mm, PokeCells(mm, ps[i])), ps, i + 1)

JobOf(in, op) ==
  LET snap == in.kind \in {"z80", "szx", "sna"}
      is128 == in.is128 = 1
      p7 == StateOr(op.state, "7ffd", IF snap THEN in.p7 ELSE 0)
      mem1 == [ov |-> in.ov, is128 |-> is128, p7 |-> p7]
      \* a 48K SNA keeps PC on the stack
      rf == IF snap THEN in.regs ELSE DefaultRegs
      rs == IF in.kind = "sna" /\ in.stackpc = 1
            THEN [rf EXCEPT ![rPC] = Peek(mem1, rf[rSP]) + (256 * Peek(mem1, rf[rSP] + 1)), ![rSP] = W16(rf[rSP] + 2)]
            ELSE rf
      rt == [rs EXCEPT ![rT] = IF snap /\ in.t >= 0 THEN in.t ELSE 0]
      r1 == SetRegs(rt, op.regs, 1)
      r2 == [r1 EXCEPT ![rIFF] = StateOr(op.state, "iff", @), ![rIM] = StateOr(op.state, "im", @),
                       ![rT] = StateOr(op.state, "tstates", @)]
      \* "-s ADDR  Start execution at this address ... If this option is omitted, execution starts either at the address
      \* given by the value of the program counter (for a SNA, SZX or Z80 snapshot), or at the origin address of the raw
      \* memory file"
      start == IF op.start >= 0 THEN op.start ELSE IF snap THEN rs[rPC] ELSE in.org
      hw == [fffd |-> StateOr(op.state, "fffd", IF snap THEN in.fffd ELSE 0),
             ay |-> SetAy(IF snap THEN in.ay ELSE Zero16, op.state, 1),
             fe |-> StateOr(op.state, "fe", IF snap THEN in.fe ELSE 0),
             border |-> StateOr(op.state, "border", IF snap THEN in.border ELSE 7)]
  IN [is128 |-> is128, realrom |-> in.realrom = 1, r0 |-> [r2 EXCEPT ![rPC] = start], mem0 |-> Pokes(mem1, op.pokes, 1),
      hw0 |-> hw, stop |-> op.stop, maxops |-> op.maxops, maxt |-> op.maxt, ints |-> op.ints = 1,
      cmio |-> op.cmio = 1, tafter |-> op.tafter, fmt |-> op.fmt]
=============================================================================
