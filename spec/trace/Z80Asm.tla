------------------------------ MODULE Z80Asm ------------------------------
(***************************************************************************)
(* Canonical assembly text, length and static timing of the instruction at *)
(* an address, derived from the same algorithmic decode as Z80!Step        *)
(* (x,y,z,p,q fields) - so lengths/timings cannot diverge from the         *)
(* execution model.  Numbers are rendered in decimal (the harness asks     *)
(* every disassembler for decimal), displacements as +d / -d.              *)
(*                                                                         *)
(* Opt(...) names the sna2skool "Opcodes" item that must be enabled for    *)
(* the skool-file disassembler to decode the sequence ("" = always, "DEFB" *)
(* = never decoded: lone prefixes and ED no-ops).                          *)
(***************************************************************************)
EXTENDS Z80

N(v) == ToString(v)
Disp(d) == IF d < 128 THEN "+" \o ToString(d) ELSE "-" \o ToString(256 - d)

R8Name(z, ix) ==
  CASE z = 0 -> "B" [] z = 1 -> "C" [] z = 2 -> "D" [] z = 3 -> "E"
    [] z = 4 -> (CASE ix = 0 -> "H" [] ix = 1 -> "IXh" [] ix = 2 -> "IYh")
    [] z = 5 -> (CASE ix = 0 -> "L" [] ix = 1 -> "IXl" [] ix = 2 -> "IYl")
    [] z = 7 -> "A"
HLName(ix) == CASE ix = 0 -> "HL" [] ix = 1 -> "IX" [] ix = 2 -> "IY"
RPName(p, ix) == CASE p = 0 -> "BC" [] p = 1 -> "DE" [] p = 2 -> HLName(ix) [] p = 3 -> "SP"
RP2Name(p, ix) == IF p = 3 THEN "AF" ELSE RPName(p, ix)
CCName(y) == CASE y = 0 -> "NZ" [] y = 1 -> "Z" [] y = 2 -> "NC" [] y = 3 -> "C"
               [] y = 4 -> "PO" [] y = 5 -> "PE" [] y = 6 -> "P" [] y = 7 -> "M"
AluName(y) == CASE y = 0 -> "ADD A," [] y = 1 -> "ADC A," [] y = 2 -> "SUB " [] y = 3 -> "SBC A,"
                [] y = 4 -> "AND " [] y = 5 -> "XOR " [] y = 6 -> "OR " [] y = 7 -> "CP "
RotName(y) == CASE y = 0 -> "RLC" [] y = 1 -> "RRC" [] y = 2 -> "RL" [] y = 3 -> "RR"
                [] y = 4 -> "SLA" [] y = 5 -> "SRA" [] y = 6 -> "SLL" [] y = 7 -> "SRL"
AccName(y) == CASE y = 0 -> "RLCA" [] y = 1 -> "RRCA" [] y = 2 -> "RLA" [] y = 3 -> "RRA"
                [] y = 4 -> "DAA" [] y = 5 -> "CPL" [] y = 6 -> "SCF" [] y = 7 -> "CCF"
BlockName(y, z) ==
  CASE y = 4 -> (CASE z = 0 -> "LDI" [] z = 1 -> "CPI" [] z = 2 -> "INI" [] z = 3 -> "OUTI")
    [] y = 5 -> (CASE z = 0 -> "LDD" [] z = 1 -> "CPD" [] z = 2 -> "IND" [] z = 3 -> "OUTD")
    [] y = 6 -> (CASE z = 0 -> "LDIR" [] z = 1 -> "CPIR" [] z = 2 -> "INIR" [] z = 3 -> "OTIR")
    [] y = 7 -> (CASE z = 0 -> "LDDR" [] z = 1 -> "CPDR" [] z = 2 -> "INDR" [] z = 3 -> "OTDR")

\* M: memory reader (address -> byte); o = address of opcode byte; pc0 = first byte
MainText(M(_), NB(_), NW(_), ND(_), pc0, o, ix) ==
  LET op == M(W16(o))
      x == op \div 64  y == (op \div 8) % 8  z == op % 8  p == y \div 2  q == y % 2
      pre == IF ix = 0 THEN 0 ELSE 1
      n1 == M(W16(o + 1))  n2 == M(W16(o + 2))
      nn == n1 + (256 * n2)
      rel == W16(pc0 + pre + 2 + Signed8(n1))
      \* memory operand
      mo == IF ix = 0 THEN "(HL)" ELSE "(" \o HLName(ix) \o ND(n1) \o ")"
      r8(k) == IF k = 6 THEN mo ELSE R8Name(k, ix)
  IN
  CASE x = 0 /\ z = 0 /\ y = 0 -> "NOP"
    [] x = 0 /\ z = 0 /\ y = 1 -> "EX AF,AF'"
    [] x = 0 /\ z = 0 /\ y = 2 -> "DJNZ " \o NW(rel)
    [] x = 0 /\ z = 0 /\ y = 3 -> "JR " \o NW(rel)
    [] x = 0 /\ z = 0 /\ y > 3 -> "JR " \o CCName(y - 4) \o "," \o NW(rel)
    [] x = 0 /\ z = 1 /\ q = 0 -> "LD " \o RPName(p, ix) \o "," \o NW(nn)
    [] x = 0 /\ z = 1 /\ q = 1 -> "ADD " \o HLName(ix) \o "," \o RPName(p, ix)
    [] x = 0 /\ z = 2 /\ q = 0 /\ p = 0 -> "LD (BC),A"
    [] x = 0 /\ z = 2 /\ q = 0 /\ p = 1 -> "LD (DE),A"
    [] x = 0 /\ z = 2 /\ q = 0 /\ p = 2 -> "LD (" \o NW(nn) \o ")," \o HLName(ix)
    [] x = 0 /\ z = 2 /\ q = 0 /\ p = 3 -> "LD (" \o NW(nn) \o "),A"
    [] x = 0 /\ z = 2 /\ q = 1 /\ p = 0 -> "LD A,(BC)"
    [] x = 0 /\ z = 2 /\ q = 1 /\ p = 1 -> "LD A,(DE)"
    [] x = 0 /\ z = 2 /\ q = 1 /\ p = 2 -> "LD " \o HLName(ix) \o ",(" \o NW(nn) \o ")"
    [] x = 0 /\ z = 2 /\ q = 1 /\ p = 3 -> "LD A,(" \o NW(nn) \o ")"
    [] x = 0 /\ z = 3 /\ q = 0 -> "INC " \o RPName(p, ix)
    [] x = 0 /\ z = 3 /\ q = 1 -> "DEC " \o RPName(p, ix)
    [] x = 0 /\ z = 4 -> "INC " \o r8(y)
    [] x = 0 /\ z = 5 -> "DEC " \o r8(y)
    [] x = 0 /\ z = 6 /\ y # 6 -> "LD " \o R8Name(y, ix) \o "," \o NB(n1)
    [] x = 0 /\ z = 6 /\ y = 6 -> IF ix = 0 THEN "LD (HL)," \o NB(n1) ELSE "LD " \o mo \o "," \o NB(n2)
    [] x = 0 /\ z = 7 -> AccName(y)
    [] x = 1 /\ y = 6 /\ z = 6 -> "HALT"
    [] x = 1 /\ y = 6 /\ z # 6 -> "LD " \o mo \o "," \o R8Name(z, 0)
    [] x = 1 /\ y # 6 /\ z = 6 -> "LD " \o R8Name(y, 0) \o "," \o mo
    [] x = 1 /\ y # 6 /\ z # 6 -> "LD " \o R8Name(y, ix) \o "," \o R8Name(z, ix)
    [] x = 2 -> AluName(y) \o r8(z)
    [] x = 3 /\ z = 0 -> "RET " \o CCName(y)
    [] x = 3 /\ z = 1 /\ q = 0 -> "POP " \o RP2Name(p, ix)
    [] x = 3 /\ z = 1 /\ q = 1 /\ p = 0 -> "RET"
    [] x = 3 /\ z = 1 /\ q = 1 /\ p = 1 -> "EXX"
    [] x = 3 /\ z = 1 /\ q = 1 /\ p = 2 -> "JP (" \o HLName(ix) \o ")"
    [] x = 3 /\ z = 1 /\ q = 1 /\ p = 3 -> "LD SP," \o HLName(ix)
    [] x = 3 /\ z = 2 -> "JP " \o CCName(y) \o "," \o NW(nn)
    [] x = 3 /\ z = 3 /\ y = 0 -> "JP " \o NW(nn)
    [] x = 3 /\ z = 3 /\ y = 2 -> "OUT (" \o NB(n1) \o "),A"
    [] x = 3 /\ z = 3 /\ y = 3 -> "IN A,(" \o NB(n1) \o ")"
    [] x = 3 /\ z = 3 /\ y = 4 -> "EX (SP)," \o HLName(ix)
    [] x = 3 /\ z = 3 /\ y = 5 -> "EX DE,HL"
    [] x = 3 /\ z = 3 /\ y = 6 -> "DI"
    [] x = 3 /\ z = 3 /\ y = 7 -> "EI"
    [] x = 3 /\ z = 4 -> "CALL " \o CCName(y) \o "," \o NW(nn)
    [] x = 3 /\ z = 5 /\ q = 0 -> "PUSH " \o RP2Name(p, ix)
    [] x = 3 /\ z = 5 /\ q = 1 /\ p = 0 -> "CALL " \o NW(nn)
    [] x = 3 /\ z = 6 -> AluName(y) \o NB(n1)
    [] x = 3 /\ z = 7 -> "RST " \o NB(y * 8)

CBText(M(_), ND(_), pc0, ix) ==
  LET op == IF ix = 0 THEN M(W16(pc0 + 1)) ELSE M(W16(pc0 + 3))
      x == op \div 64  y == (op \div 8) % 8  z == op % 8
      mo == IF ix = 0 THEN "(HL)" ELSE "(" \o HLName(ix) \o ND(M(W16(pc0 + 2))) \o ")"
      tgt == IF ix = 0 THEN (IF z = 6 THEN mo ELSE R8Name(z, 0))
             ELSE (IF z = 6 \/ x = 1 THEN mo ELSE mo \o "," \o R8Name(z, 0))
  IN CASE x = 0 -> RotName(y) \o " " \o tgt
       [] x = 1 -> "BIT " \o N(y) \o "," \o tgt
       [] x = 2 -> "RES " \o N(y) \o "," \o tgt
       [] x = 3 -> "SET " \o N(y) \o "," \o tgt

\* ED page: <<text, option>> ; option "DEFB" = not an instruction for the skool disassembler
EDTextB(M(_), NW(_), NBE(_), pc0) ==
  LET op == M(W16(pc0 + 1))
      x == op \div 64  y == (op \div 8) % 8  z == op % 8  p == y \div 2  q == y % 2
      nn == M(W16(pc0 + 2)) + (256 * M(W16(pc0 + 3)))
  IN
  CASE x = 1 /\ z = 0 -> IF y = 6 THEN <<"IN F,(C)", "ED70">> ELSE <<"IN " \o R8Name(y, 0) \o ",(C)", "">>
    [] x = 1 /\ z = 1 -> IF y = 6 THEN <<"OUT (C),0", "ED71">> ELSE <<"OUT (C)," \o R8Name(y, 0), "">>
    [] x = 1 /\ z = 2 /\ q = 0 -> <<"SBC HL," \o RPName(p, 0), "">>
    [] x = 1 /\ z = 2 /\ q = 1 -> <<"ADC HL," \o RPName(p, 0), "">>
    [] x = 1 /\ z = 3 /\ q = 0 -> <<"LD (" \o NW(nn) \o ")," \o RPName(p, 0), IF p = 2 THEN "ED63" ELSE "">>
    [] x = 1 /\ z = 3 /\ q = 1 -> <<"LD " \o RPName(p, 0) \o ",(" \o NW(nn) \o ")", IF p = 2 THEN "ED6B" ELSE "">>
    [] x = 1 /\ z = 4 -> <<"NEG", IF y = 0 THEN "" ELSE "NEG">>
    [] x = 1 /\ z = 5 -> IF y = 1 THEN <<"RETI", "">> ELSE <<"RETN", IF y = 0 THEN "" ELSE "RETN">>
    [] x = 1 /\ z = 6 -> << "IM " \o N(CASE y % 4 = 0 -> 0 [] y % 4 = 1 -> 0 [] y % 4 = 2 -> 1 [] y % 4 = 3 -> 2),
                            IF y \in {0, 2, 3} THEN "" ELSE "IM" >>
    [] x = 1 /\ z = 7 /\ y = 0 -> <<"LD I,A", "">>
    [] x = 1 /\ z = 7 /\ y = 1 -> <<"LD R,A", "">>
    [] x = 1 /\ z = 7 /\ y = 2 -> <<"LD A,I", "">>
    [] x = 1 /\ z = 7 /\ y = 3 -> <<"LD A,R", "">>
    [] x = 1 /\ z = 7 /\ y = 4 -> <<"RRD", "">>
    [] x = 1 /\ z = 7 /\ y = 5 -> <<"RLD", "">>
    [] x = 2 /\ z < 4 /\ y > 3 -> <<BlockName(y, z), "">>
    [] OTHER -> <<"DEFB " \o NBE(237) \o "," \o NBE(op), "DEFB">>

EDText(M(_), NW(_), pc0) == EDTextB(M, NW, N, pc0)

\* <<text, option>> of the instruction at pc, numbers rendered by NB/NW/ND
TextF(M(_), NB(_), NW(_), ND(_), pc) ==
  LET b0 == M(pc) IN
  CASE b0 = 203 -> <<CBText(M, ND, pc, 0), "">>
    [] b0 = 237 -> EDTextB(M, NW, NB, pc)
    [] b0 \in {221, 253} ->
         LET ix == IF b0 = 221 THEN 1 ELSE 2
             b1 == M(W16(pc + 1))
         IN IF ~Indexable(b1) THEN <<"DEFB " \o NB(b0), "DEFB">>
            ELSE IF b1 = 203 THEN
              LET op == M(W16(pc + 3)) IN <<CBText(M, ND, pc, ix), IF op % 8 = 6 THEN "" ELSE "XYCB">>
            ELSE <<MainText(M, NB, NW, ND, pc, pc + 1, ix), "">>
    [] OTHER -> <<MainText(M, NB, NW, ND, pc, pc, 0), "">>

Text(M(_), pc) == TextF(M, N, N, Disp, pc)

\* the same with every numeric operand replaced by "#": the *template* of the instruction
Hash(v) == "#"
Template(M(_), pc) == TextF(M, Hash, Hash, Hash, pc)

\* numeric operands in order of appearance: <<kind, value>>, kind "b" byte, "w" word (jump targets are
\* absolute addresses), "d" displacement byte
Operands(M(_), pc) ==
  LET b0 == M(pc)
      pfx == b0 \in {221, 253}
      o == IF pfx THEN W16(pc + 1) ELSE pc
      op == M(o)
      x == op \div 64  y == (op \div 8) % 8  z == op % 8  p == y \div 2  q == y % 2
      n1 == M(W16(o + 1))  n2 == M(W16(o + 2))  nn == n1 + (256 * n2)
      rel == W16(pc + 2 + Signed8(n1))
      W(v) == << <<"w", v>> >>  B(v) == << <<"b", v>> >>  D(v) == << <<"d", v>> >>
      dd == IF pfx THEN D(n1) ELSE <<>>
  IN
  IF b0 = 203 THEN <<>>
  ELSE IF b0 = 237 THEN
    (LET e == M(W16(pc + 1)) IN
     IF e \div 64 = 1 /\ e % 8 = 3 THEN W(M(W16(pc + 2)) + (256 * M(W16(pc + 3))))
     ELSE IF EDText(M, N, pc)[2] = "DEFB" THEN B(237) \o B(e) ELSE <<>>)
  ELSE IF pfx /\ ~Indexable(op) THEN B(b0)
  ELSE IF pfx /\ op = 203 THEN D(n1)
  ELSE
  CASE x = 0 /\ z = 0 /\ y > 1 -> W(rel)
    [] x = 0 /\ z = 1 /\ q = 0 -> W(nn)
    [] x = 0 /\ z = 2 /\ p > 1 -> W(nn)
    [] x = 0 /\ z \in {4, 5} /\ y = 6 -> dd
    [] x = 0 /\ z = 6 /\ y # 6 -> B(n1)
    [] x = 0 /\ z = 6 /\ y = 6 -> IF pfx THEN D(n1) \o B(n2) ELSE B(n1)
    [] x = 1 /\ (y = 6 \/ z = 6) /\ ~(y = 6 /\ z = 6) -> dd
    [] x = 2 /\ z = 6 -> dd
    [] x = 3 /\ z \in {2, 4} -> W(nn)
    [] x = 3 /\ z = 3 /\ y = 0 -> W(nn)
    [] x = 3 /\ z = 3 /\ y \in {2, 3} -> B(n1)
    [] x = 3 /\ z = 5 /\ q = 1 /\ p = 0 -> W(nn)
    [] x = 3 /\ z = 6 -> B(n1)
    [] x = 3 /\ z = 7 -> B(y * 8)
    [] OTHER -> <<>>

-----------------------------------------------------------------------------
(* Static length (bytes) of the instruction at pc, by the same field decode. *)
MainLen(op, ix) ==
  LET x == op \div 64  y == (op \div 8) % 8  z == op % 8  p == y \div 2  q == y % 2
      dl == IF ix = 0 THEN 0 ELSE 1
  IN CASE x = 0 /\ z = 0 -> IF y < 2 THEN 1 ELSE 2
       [] x = 0 /\ z = 1 -> IF q = 0 THEN 3 ELSE 1
       [] x = 0 /\ z = 2 -> IF p < 2 THEN 1 ELSE 3
       [] x = 0 /\ z = 3 -> 1
       [] x = 0 /\ z \in {4, 5} -> IF y = 6 THEN 1 + dl ELSE 1
       [] x = 0 /\ z = 6 -> IF y = 6 THEN 2 + dl ELSE 2
       [] x = 0 /\ z = 7 -> 1
       [] x = 1 -> IF (y = 6 \/ z = 6) /\ ~(y = 6 /\ z = 6) THEN 1 + dl ELSE 1
       [] x = 2 -> IF z = 6 THEN 1 + dl ELSE 1
       [] x = 3 /\ z \in {0, 1, 7} -> 1
       [] x = 3 /\ z \in {2, 4} -> 3
       [] x = 3 /\ z = 3 -> IF y = 0 THEN 3 ELSE IF y \in {2, 3} THEN 2 ELSE 1
       [] x = 3 /\ z = 5 -> IF q = 1 /\ p = 0 THEN 3 ELSE 1
       [] x = 3 /\ z = 6 -> 2
EDLen(op) == IF op \div 64 = 1 /\ op % 8 = 3 THEN 4 ELSE 2

Length(M(_), pc) ==
  LET b0 == M(pc)  b1 == M(W16(pc + 1)) IN
  CASE b0 = 203 -> 2
    [] b0 = 237 -> EDLen(b1)
    [] b0 \in {221, 253} -> IF ~Indexable(b1) THEN 1 ELSE IF b1 = 203 THEN 4 ELSE 1 + MainLen(b1, 1)
    [] OTHER -> MainLen(b0, 0)

DefbHashes(len) == LET F[k \in 0..len] == IF k = 0 THEN "" ELSE F[k - 1] \o (IF k = 1 THEN "" ELSE ",") \o "#" IN F[len]

\* the bytes of the instruction as a DEFB statement (what the skool disassembler emits when the
\* sequence is not enabled)
DefbText(M(_), pc, len) ==
  LET F[k \in 0..len] == IF k = 0 THEN "" ELSE F[k - 1] \o (IF k = 1 THEN "" ELSE ",") \o N(M(W16(pc + k - 1)))
  IN "DEFB " \o F[len]
=============================================================================
