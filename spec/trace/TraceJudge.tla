----------------------------- MODULE TraceJudge -----------------------------
(***************************************************************************)
(* Binding of TraceRun to the real tool.  A case = one invocation of        *)
(* skoolkit.trace.main: what the input file holds (c.in), the options       *)
(* (c.op) and what the tool printed / wrote, read by an independent parser: *)
(*   lines  one record per -v / -vv line: a (address text), i (instruction  *)
(*          text), t ({t}, -1: not shown), r (values of the registers named *)
(*          in c.rnames), mv ({m[c.maddr]}, -1: not shown)                   *)
(*   stop   the 'Stopped at' line: a (address text), kind, n                 *)
(*   stats  --stats: t, ms (thousandths of a second), ops                    *)
(*   snap   the snapshot written after execution (independent decoder):      *)
(*          r (simulator layout), t, border, p7, fffd, ay, fe, is128, diff    *)
(*          (cells that differ from the input file: <<cell, byte>>)           *)
(*   map    --map: the sorted addresses in the file                           *)
(*   same   the pure-Python and the C simulator gave identical output and     *)
(*          identical snapshot files                                          *)
(* TLC runs the machine of TraceRun from JobOf(c.in, c.op), one action per   *)
(* TLC step; StepAction must reproduce the next observed line, Finish must   *)
(* reproduce the report and the snapshot.  One <<"VERDICT", tid, clause>>    *)
(* is printed per case: "ok", a failing clause, "drift:..." (the documents   *)
(* leave the observed difference open) or "undefined:..." (the run left the  *)
(* modelled domain).                                                         *)
(***************************************************************************)
EXTENDS TraceRun, Json, IOUtils

Cases == JsonDeserialize(IOEnv.CASES)

VARIABLES tid, l, verdict
jvars == <<job, m, tid, l, verdict>>

\* (the harness chooses stop conditions that the real tool reaches within a few hundred instructions)
MaxModelOps == 1500

-----------------------------------------------------------------------------
\* "r[X] - the 'X' register"
RegVal(r, n) ==
  CASE n = "a" -> r[rA] [] n = "f" -> r[rF] [] n = "b" -> r[rB] [] n = "c" -> r[rC] [] n = "d" -> r[rD] [] n = "e" -> r[rE]
    [] n = "h" -> r[rH] [] n = "l" -> r[rL] [] n = "bc" -> Pair(r, rB) [] n = "de" -> Pair(r, rD) [] n = "hl" -> Pair(r, rH)
    [] n = "^a" -> r[rxA] [] n = "^f" -> r[rxF] [] n = "^b" -> r[rxB] [] n = "^c" -> r[rxB + 1] [] n = "^d" -> r[rxB + 2]
    [] n = "^e" -> r[rxB + 3] [] n = "^h" -> r[rxH] [] n = "^l" -> r[rxH + 1]
    [] n = "^bc" -> Pair(r, rxB) [] n = "^de" -> Pair(r, rxB + 2) [] n = "^hl" -> Pair(r, rxH)
    [] n = "ix" -> Pair(r, rIXh) [] n = "ixh" -> r[rIXh] [] n = "ixl" -> r[rIXl]
    [] n = "iy" -> Pair(r, rIYh) [] n = "iyh" -> r[rIYh] [] n = "iyl" -> r[rIYl]
    [] n = "i" -> r[rI] [] n = "r" -> r[rR] [] n = "sp" -> r[rSP]

RegsShown(c, r) == [k \in 1..Len(c.rnames) |-> RegVal(r, c.rnames[k])]

\* one -v / -vv line against the StepAction x -> y.  RegistersAfterInstruction / TimestampAtStart are conventions:
\* a line that shows the state BEFORE the instruction (or the clock after it) is drift, anything else is a failure.
LineClause(c, ln, j, x, y) ==
  LET pc == x.r[rPC]
      pfx == IF y.ops = 1 THEN "first-" ELSE ""
  IN
  IF y.mask # 255 THEN "harness:flag-mask"
  ELSE IF c.custom = 0 /\ ln.a # AddrText(c.decimal = 1, pc) THEN pfx \o "line-address"
  ELSE IF c.custom = 1 /\ ln.a # ToString(pc) THEN pfx \o "line-address"
  ELSE IF ln.i # InstrText(j.fmt, View(x.mem), pc) THEN pfx \o "line-instruction"
  ELSE IF ln.t >= 0 /\ ln.t # x.r[rT] THEN (IF ln.t = y.r[rT] THEN "drift:timestamp-after" ELSE pfx \o "line-timestamp")
  ELSE IF j.cmio /\ y.r[rT] - x.r[rT] < PlainDuration(j, x) THEN "cmio-faster-than-uncontended"
  ELSE IF j.cmio /\ y.r[rT] - x.r[rT] > 6 * PlainDuration(j, x) THEN "cmio-delay-implausible"
  ELSE IF ln.r # <<>> /\ ln.r # RegsShown(c, y.r) THEN (IF ln.r = RegsShown(c, x.r) THEN "drift:registers-before" ELSE pfx \o "line-registers")
  ELSE IF ln.mv >= 0 /\ ln.mv # Peek(y.mem, c.maddr) THEN pfx \o "line-memory"
  ELSE "ok"

-----------------------------------------------------------------------------
(* the report and the output files, in the state where the machine stopped *)
SnapRegs == ((1..13) \cup (15..25)) \ {14}
CellBase(cl) == IF cl < 65536 THEN Base(cl) ELSE Base(49152 + ((cl - 65536) % 16384))
FinalDiff(c, x) ==
  { <<x.mem.ov[i][1], x.mem.ov[i][2]>> : i \in { k \in 1..Len(x.mem.ov) :
        x.mem.ov[k][1] >= 16384 /\ x.mem.ov[k][2] # CellAt(c.in.ov, x.mem.ov[k][1], CellBase(x.mem.ov[k][1])) } }
SeqToSet(q) == { q[i] : i \in 1..Len(q) }

StopClause(c, j, x) ==
  LET both == OpsReached(j, x) /\ TReached(j, x) IN
  IF c.stop.kind = "none" THEN "no-stop-line"
  ELSE IF c.stop.a # FmtW(j.fmt, x.r[rPC]) THEN "stop-address"
  ELSE IF c.stop.kind = "ops" /\ c.stop.n # x.ops THEN "stop-operations-count"
  ELSE IF c.stop.kind = "tstates" /\ c.stop.n # Elapsed(x) THEN "stop-tstates-count"
  ELSE IF c.stop.kind # x.reason THEN (IF both /\ c.stop.kind = "tstates" THEN "drift:tstates-before-operations" ELSE "stop-reason")
  ELSE "ok"

StatsClause(c, j, x) ==
  IF c.stats.has = 0 THEN "ok"
  ELSE IF c.stats.t # Elapsed(x) THEN "stats-tstates"
  ELSE IF c.stats.ops # x.ops THEN "stats-instructions"
  ELSE IF Elapsed(x) < 1000000 /\ c.stats.ms \notin Millis(j, x) THEN "stats-seconds"
  ELSE "ok"

SnapClause(c, j, x) ==
  LET s == c.snap IN
  IF s.has = 0 THEN "ok"
  ELSE IF s.err # "" THEN "snap-unreadable"
  ELSE IF (s.is128 = 1) # j.is128 THEN "snap-machine"
  ELSE IF s.plus2 # c.in.plus2 THEN "snap-machine-plus2"
  ELSE IF s.r[rPC] # x.r[rPC] THEN "snap-pc"
  ELSE IF s.r[rSP] # x.r[rSP] THEN "snap-sp"
  ELSE IF \E i \in SnapRegs : s.r[i] # x.r[i] THEN "snap-registers"
  ELSE IF s.r[rIFF] # x.r[rIFF] THEN "snap-iff"
  ELSE IF s.r[rIM] # x.r[rIM] THEN "snap-im"
  ELSE IF s.t >= 0 /\ s.t # SnapT(j, x) THEN "snap-tstates"
  ELSE IF s.border # x.hw.border THEN "snap-border"
  ELSE IF s.fe >= 0 /\ s.fe # x.hw.fe THEN "snap-fe"
  ELSE IF j.is128 /\ s.p7 # x.mem.p7 THEN "snap-7ffd"
  ELSE IF j.is128 /\ s.fffd # x.hw.fffd THEN "snap-fffd"
  ELSE IF j.is128 /\ s.ay # x.hw.ay THEN "snap-ay"
  ELSE IF s.diffok = 0 THEN "snap-memory-many-differences"
  ELSE IF SeqToSet(s.diff) # FinalDiff(c, x) THEN "snap-memory"
  ELSE "ok"

MapClause(c, x) == IF c.map.has = 1 /\ SeqToSet(c.map.a) # x.map THEN "map" ELSE "ok"

FinalClause(c, j, x) ==
  IF x.mask # 255 THEN "harness:flag-mask"
  ELSE IF c.vlevel > 0 /\ Len(c.lines) # x.ops THEN "extra-lines"
  ELSE IF StopClause(c, j, x) # "ok" THEN StopClause(c, j, x)
  ELSE IF StatsClause(c, j, x) # "ok" THEN StatsClause(c, j, x)
  ELSE IF SnapClause(c, j, x) # "ok" THEN SnapClause(c, j, x)
  ELSE IF MapClause(c, x) # "ok" THEN MapClause(c, x)
  ELSE IF c.same = 0 THEN "python-and-c-differ"
  ELSE "ok"

\* c.soft # "": the case relies on something the documents leave open (start = stop, simulator defaults, a file without
\* a clock): a failing clause is reported as drift
Soften(c, cl) ==
  IF cl = "ok" \/ c.soft = "" THEN cl
  ELSE IF cl \in {"drift:timestamp-after", "drift:registers-before", "drift:tstates-before-operations"} THEN cl
  ELSE IF cl = "harness:flag-mask" \/ cl = "undefined:domain" THEN cl
  ELSE "drift:" \o c.soft \o ":" \o cl

-----------------------------------------------------------------------------
\* (the start state is computed by the first action, not by the initial predicate: TLC evaluates the latter on its main
\* thread, whose stack is too small for the deep recursion of a long --poke list)
JInit ==
  /\ tid \in 1..Len(Cases)
  /\ l = 0 /\ verdict = "pending"
  /\ job = [loaded |-> FALSE]
  /\ m = [ph |-> "load"]

JLoad ==
  /\ m.ph = "load"
  /\ job' = JobOf(Cases[tid].in, Cases[tid].op)
  /\ m' = M0(job')
  /\ l' = 1
  /\ UNCHANGED <<tid, verdict>>

Say(v) == IF v = "pending" THEN TRUE ELSE PrintT(<<"VERDICT", tid, v>>)

\* the tool failed (exception, time-out, unparsable output): nothing to run
JBroken ==
  /\ m.ph = "exec" /\ m.ops = 0 /\ Cases[tid].exc # ""
  /\ verdict' = Soften(Cases[tid], "tool:" \o Cases[tid].exc)
  /\ UNCHANGED <<job, m, tid, l>>
  /\ Say(verdict')

JStep ==
  /\ Cases[tid].exc = ""
  /\ StepAction
  /\ LET c == Cases[tid]
         cl == IF m.ops >= MaxModelOps THEN "machine-runs-on"
               ELSE IF ~m'.ok THEN "undefined:domain"
               ELSE IF c.vlevel = 0 THEN "ok"
               ELSE IF l > Len(c.lines) THEN "stopped-early"
               ELSE LineClause(c, c.lines[l], job, m, m')
     IN verdict' = IF cl = "ok" THEN "pending" ELSE Soften(c, cl)
  /\ l' = l + 1
  /\ UNCHANGED tid
  /\ Say(verdict')

JBoundary ==
  /\ AcceptInterrupt \/ NoInterrupt \/ StopByOperations \/ StopByTstates \/ StopByAddress \/ Continue
  /\ UNCHANGED <<tid, l, verdict>>

JFinish ==
  /\ Finish
  /\ verdict' = Soften(Cases[tid], FinalClause(Cases[tid], job, m))
  /\ UNCHANGED <<tid, l>>
  /\ Say(verdict')
  /\ PrintT(<<"STAT", tid, m.ops, m.nint, m.nhalt, m.npage>>)
  /\ IF verdict' \in {"snap-memory", "snap-registers"} THEN PrintT(<<"WANT", tid, m.r, FinalDiff(Cases[tid], m)>>) ELSE TRUE

JNext == verdict = "pending" /\ (JLoad \/ JBroken \/ JStep \/ JBoundary \/ JFinish)
=============================================================================
