----------------------------- MODULE Z80Bits -----------------------------
(* Bit-level arithmetic used by every Z80 module. Written with plain integer *)
(* arithmetic (no recursion) so that TLC evaluates it quickly.               *)
EXTENDS Integers, Sequences

Pow2(n) == CASE n = 0 -> 1 [] n = 1 -> 2 [] n = 2 -> 4 [] n = 3 -> 8 [] n = 4 -> 16
             [] n = 5 -> 32 [] n = 6 -> 64 [] n = 7 -> 128 [] n = 8 -> 256
             [] n = 9 -> 512 [] n = 10 -> 1024 [] n = 11 -> 2048 [] n = 12 -> 4096
             [] n = 13 -> 8192 [] n = 14 -> 16384 [] n = 15 -> 32768 [] n = 16 -> 65536

Bit(v, n) == (v \div Pow2(n)) % 2

And8(a, b) == Bit(a,0)*Bit(b,0) + 2*(Bit(a,1)*Bit(b,1)) + 4*(Bit(a,2)*Bit(b,2)) + 8*(Bit(a,3)*Bit(b,3))
              + 16*(Bit(a,4)*Bit(b,4)) + 32*(Bit(a,5)*Bit(b,5)) + 64*(Bit(a,6)*Bit(b,6)) + 128*(Bit(a,7)*Bit(b,7))
X1(p, q) == (p + q) % 2
Xor8(a, b) == X1(Bit(a,0),Bit(b,0)) + 2*X1(Bit(a,1),Bit(b,1)) + 4*X1(Bit(a,2),Bit(b,2)) + 8*X1(Bit(a,3),Bit(b,3))
              + 16*X1(Bit(a,4),Bit(b,4)) + 32*X1(Bit(a,5),Bit(b,5)) + 64*X1(Bit(a,6),Bit(b,6)) + 128*X1(Bit(a,7),Bit(b,7))
Or8(a, b) == a + b - And8(a, b)

Ones(v) == Bit(v,0) + Bit(v,1) + Bit(v,2) + Bit(v,3) + Bit(v,4) + Bit(v,5) + Bit(v,6) + Bit(v,7)
EvenParity(v) == (Ones(v) % 2) = 0

Signed8(v) == IF v < 128 THEN v ELSE v - 256
Hi(w) == (w \div 256) % 256
Lo(w) == w % 256
W16(v) == v % 65536          \* TLA+ % is always non-negative for positive modulus
B8(v) == v % 256

B2I(b) == IF b THEN 1 ELSE 0

(* The background pattern of memory shared bit-for-bit with harness/drivers/simdrv.py *)
Base(a) == ((a * 73) + ((a \div 256) * 29) + 11) % 256
=============================================================================
