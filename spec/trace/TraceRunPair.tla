---------------------------- MODULE TraceRunPair ----------------------------
(***************************************************************************)
(* The prefix property of the run-control machine, by self-composition:    *)
(* two copies of TraceRun run in lock-step on the same job, A with limit N  *)
(* and B with limit N + 1 (Kind "ops": -m, Kind "tstates": -M).             *)
(*   * until A stops, both machines are in the same state (so B's output is *)
(*     A's output: the run with the larger limit EXTENDS the other one);    *)
(*   * if A is stopped by something else than its limit, B stops in the     *)
(*     same state for the same reason;                                      *)
(*   * if A is stopped by -m N, B executes at most one more instruction;    *)
(*   * if A is stopped by -M N, B stops at the same boundary or later.      *)
(***************************************************************************)
EXTENDS Z80Asm

CONSTANTS MaxOpsLimit, TLimits, Bound, Kind
VARIABLES jobA, mA, jobB, mB, nsteps, log
pvars == <<jobA, mA, jobB, mB, nsteps, log>>

A == INSTANCE TraceRun WITH job <- jobA, m <- mA
B == INSTANCE TraceRun WITH job <- jobB, m <- mB
\* the job set of TraceRunMC (its variables nsteps / log are not used here)
MC == INSTANCE TraceRunMC WITH job <- jobA, m <- mA, NegOrder <- FALSE

More(j) == IF Kind = "ops" THEN [j EXCEPT !.maxops = @ + 1] ELSE [j EXCEPT !.maxt = @ + 1]
Limited(j) == IF Kind = "ops" THEN j.maxops > 0 ELSE j.maxt > 0

PInit == /\ jobA \in { j \in MC!Jobs : Limited(j) } /\ jobB = More(jobA)
         /\ mA = A!M0(jobA) /\ mB = A!M0(jobB) /\ nsteps = 0 /\ log = <<>>

PNext == /\ \/ A!Next /\ B!Next
            \/ mA.ph = "reported" /\ UNCHANGED <<jobA, mA>> /\ B!Next
         /\ UNCHANGED <<nsteps, log>>
PSpec == PInit /\ [][PNext]_pvars

Cut == mB.ops <= Bound

StoppedA == mA.ph \in {"done", "reported"}
StoppedB == mB.ph \in {"done", "reported"}

SameWhileRunning == ~StoppedA => mA = mB
SameWhenOtherReason == StoppedA /\ mA.reason # Kind => (mB.reason = mA.reason /\ mB.r = mA.r /\ mB.mem = mA.mem /\ mB.ops = mA.ops)
OneMoreOp == Kind = "ops" /\ StoppedA /\ mA.reason = "ops" =>
               /\ mB.ops \in {mA.ops, mA.ops + 1}
               /\ StoppedB /\ mB.ops = mA.ops => (mB.r = mA.r /\ mB.mem = mA.mem /\ mB.reason # "ops")
               /\ StoppedB /\ mB.ops = mA.ops + 1 => mB.reason = "ops"
LaterT == Kind = "tstates" /\ StoppedA /\ mA.reason = "tstates" =>
               /\ mB.ops >= mA.ops
               /\ StoppedB /\ mB.reason = "tstates" => B!Elapsed(mB) >= jobB.maxt /\ mB.r[rT] >= mA.r[rT]
               /\ StoppedB /\ mB.ops = mA.ops => mB.r = mA.r

PrefixInv == SameWhileRunning /\ SameWhenOtherReason /\ OneMoreOp /\ LaterT
=============================================================================
