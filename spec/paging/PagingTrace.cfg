SPECIFICATION TraceSpec
CONSTANTS
  Vals = {0}
  Ports = {0}
  CellVals = {0}
  LockBit = 5
CHECK_DEADLOCK FALSE
INVARIANT TraceTypeOK
INVARIANT TraceConsistent
PROPERTY RomImmutable
PROPERTY OneBankPerWrite
