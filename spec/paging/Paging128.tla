---------------------------- MODULE Paging128 ----------------------------
(***************************************************************************)
(* 128K memory paging as SkoolKit implements it (implementation-shaped):    *)
(*   o7ffd  - the value Memory.o7ffd / the C simulator's out7ffd holds       *)
(*   tr7ffd - the tracer's own copy, which is what the lock test reads       *)
(*   slot0, slot3 - which physical page sits at 0x0000 / 0xC000              *)
(*            (pages 0..7 = RAM banks, 8..9 = ROM 0/1)                       *)
(*   cells  - one abstract byte per physical page                            *)
(* Port decode: A15 = 0 and A1 = 0; bit 5 of the accepted value locks.       *)
(***************************************************************************)
EXTENDS Integers, FiniteSets, Sequences

CONSTANTS Vals,      \* values written to ports
          Ports,     \* port addresses used by Out
          CellVals,  \* values written to memory
          LockBit    \* 5 on the real machine; Paging128_neg.cfg uses 4 and must violate LockStable (vacuity guard)

VARIABLES o7ffd, tr7ffd, slot0, slot3, cells
vars == <<o7ffd, tr7ffd, slot0, slot3, cells>>

Pow2(n) == CASE n = 0 -> 1 [] n = 1 -> 2 [] n = 2 -> 4 [] n = 3 -> 8 [] n = 4 -> 16 [] n = 5 -> 32
             [] n = 6 -> 64 [] n = 7 -> 128 [] n = 15 -> 32768
Bit(v, n) == (v \div Pow2(n)) % 2

PortMatch(port) == Bit(port, 15) = 0 /\ Bit(port, 1) = 0
Locked == Bit(tr7ffd, LockBit) = 1

RomOf(v) == 8 + Bit(v, 4)
BankOf(v) == v % 8
Slot(region) == CASE region = 0 -> slot0 [] region = 1 -> 5 [] region = 2 -> 2 [] region = 3 -> slot3

TypeOK == /\ o7ffd \in 0..255 /\ tr7ffd \in 0..255
          /\ slot0 \in 8..9 /\ slot3 \in 0..7
          /\ cells \in [0..9 -> 0..255]

Init == /\ o7ffd \in Vals
        /\ tr7ffd = o7ffd
        /\ slot0 = RomOf(o7ffd) /\ slot3 = BankOf(o7ffd)
        /\ cells = [p \in 0..9 |-> 0]

\* Memory.out7ffd(value): no lock logic at this level
RawOut(v) == /\ slot0' = RomOf(v) /\ slot3' = BankOf(v) /\ o7ffd' = v

\* a port write as seen by PagingTracer.write_port / the C OUT macro
Out(port, v) ==
  IF PortMatch(port) /\ ~Locked
  THEN RawOut(v) /\ tr7ffd' = v /\ UNCHANGED cells
  ELSE UNCHANGED vars

\* a store into one of the four 16K regions (ROM stores are dropped)
Write(region, v) ==
  IF region = 0 THEN UNCHANGED vars
  ELSE cells' = [cells EXCEPT ![Slot(region)] = v] /\ UNCHANGED <<o7ffd, tr7ffd, slot0, slot3>>

\* skoolutils.Memory (the @bank / #BANK memory of the skool parser) has no tracer and no lock:
MemOut(v) == RawOut(v) /\ tr7ffd' = v /\ UNCHANGED cells
MemBank(p) == /\ slot3' = p /\ o7ffd' = ((o7ffd \div 8) * 8) + p /\ tr7ffd' = o7ffd' /\ UNCHANGED <<slot0, cells>>

Next == \/ \E port \in Ports, v \in Vals : Out(port, v)
        \/ \E region \in 0..3, v \in CellVals : Write(region, v)

Spec == Init /\ [][Next]_vars

-----------------------------------------------------------------------------
(* The property (C08), on the model *)
PagingConsistent == /\ slot3 = BankOf(o7ffd) /\ slot0 = RomOf(o7ffd) /\ tr7ffd = o7ffd
Banks52Fixed == Slot(1) = 5 /\ Slot(2) = 2
LockStable == [][Bit(o7ffd, 5) = 1 => (o7ffd' = o7ffd /\ slot0' = slot0 /\ slot3' = slot3)]_vars
RomImmutable == [][cells'[8] = cells[8] /\ cells'[9] = cells[9]]_vars
OneBankPerWrite == [][Cardinality({p \in 0..9 : cells'[p] # cells[p]}) <= 1]_vars
\* only a decoded, unlocked write changes the mapping
OnlyAcceptedWritesPage == [][(o7ffd' # o7ffd) => ~Locked]_vars
=============================================================================
