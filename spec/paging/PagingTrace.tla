---------------------------- MODULE PagingTrace ----------------------------
(***************************************************************************)
(* Trace validation for Paging128: many recorded traces per TLC run.       *)
(* Traces[tid] = [impl, pre (o7ffd before), acts, obs] where acts[l] is     *)
(* <<"out", port, v>> | <<"write", region, v>> | <<"memout", v, 0>> |       *)
(* <<"membank", p, 0>> and obs[l] is what the implementation showed after   *)
(* act l: o7ffd, tr (tracer copy), vis (page ids seen by the CPU at the four *)
(* regions), pvis (seen through the Python Memory object), cells (10).       *)
(* Each step IS the corresponding Paging128 action; a mismatch between the   *)
(* action's post-state and the observation ends the trace with a verdict.   *)
(***************************************************************************)
EXTENDS Paging128, Json, IOUtils, TLC

Traces == JsonDeserialize(IOEnv.CASES)

VARIABLES tid, l, verdict
tvars == <<o7ffd, tr7ffd, slot0, slot3, cells, tid, l, verdict>>

\* compare an observation with an abstract state given explicitly (so that the caller can pass the
\* primed variables without priming the observation index)
Clause(o, o7, tr, s0, s3, cl) ==
  IF o.exc # "" THEN "exception"
  ELSE IF o.o7ffd # o7 THEN "o7ffd"
  ELSE IF o.tr # tr THEN "tracer-copy"
  ELSE IF o.vis # <<s0, 5, 2, s3>> THEN "cpu-mapping"
  ELSE IF o.pvis # <<s0, 5, 2, s3>> THEN "py-mapping"
  ELSE IF o.cells[9] # cl[8] \/ o.cells[10] # cl[9] THEN "rom-write"
  ELSE IF \E p \in 0..7 : o.cells[p + 1] # cl[p] THEN "bank-cells"
  ELSE "ok"

TraceInit ==
  /\ tid \in 1..Len(Traces)
  /\ l = 1 /\ verdict = "pending"
  /\ o7ffd = Traces[tid].pre /\ tr7ffd = o7ffd
  /\ slot0 = RomOf(o7ffd) /\ slot3 = BankOf(o7ffd)
  /\ cells = [p \in 0..9 |-> 0]

TraceStep ==
  /\ verdict = "pending"
  /\ l <= Len(Traces[tid].acts)
  /\ LET a == Traces[tid].acts[l] IN
       \/ a[1] = "out" /\ Out(a[2], a[3])
       \/ a[1] = "write" /\ Write(a[2], a[3])
       \/ a[1] = "memout" /\ MemOut(a[2])
       \/ a[1] = "membank" /\ MemBank(a[2])
  /\ l' = l + 1
  /\ UNCHANGED tid
  /\ verdict' = LET c == Clause(Traces[tid].obs[l], o7ffd', tr7ffd', slot0', slot3', cells') IN
                IF c # "ok" THEN c ELSE IF l = Len(Traces[tid].acts) THEN "ok" ELSE "pending"
  /\ (verdict' \in {"ok", "pending"} \/ PrintT(<<"FAIL", (tid * 1000) + l, verdict'>>))

TraceSpec == TraceInit /\ [][TraceStep]_tvars

\* evaluated on every state of every recorded trace
TraceTypeOK == TypeOK
TraceConsistent == PagingConsistent
=============================================================================
