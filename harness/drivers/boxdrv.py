"""E09 driver: generated ref files with box page entry sections and [Page:*] pages -> the real skool2html.main -> html.parser
projection of every written page into the records judged by spec/boxpage/BoxCases.tla.

The generator builds an ABSTRACT site first (pages, sections as lists of abstract lines [ind, dash, words]) and renders it to
ref files; the abstract site is what TLC reads.  Words are unique per site ("w17"), so every text is traceable.
"""
import io
import os
import random
import shutil
import sys
import traceback
from html.parser import HTMLParser

MACRO = 1000000
UNKNOWN = 999999
BUILTIN = {'Bugs': 'Bug', 'Changelog': 'Changelog', 'Facts': 'Fact', 'Glossary': 'Glossary', 'GraphicGlitches': 'GraphicGlitch', 'Pokes': 'Poke'}
DEFAULT_INDEX = ['MemoryMaps', 'Graphics', 'DataTables', 'OtherCode', 'Reference']
SKOOL = '; Routine\nc32768 RET\n'


# ---------------------------------------------------------------------------------------------------------------------
# rendering of the abstract things
# ---------------------------------------------------------------------------------------------------------------------
def word_text(w):
    if w < MACRO:
        return 'w%d' % w
    c, r = divmod(w, MACRO)
    return '#IF(%d)(w%d,w%d)' % (c - 1, r // 1000, r % 1000)


def line_text(l):
    if not l['dash'] and not l['words']:
        return ''
    t = ' '.join(word_text(w) for w in l['words'])
    if l['dash']:
        t = '- ' + t if t else '-'
    return ' ' * l['ind'] + t


def chars_text(q):
    return ''.join(chr(c) if c < MACRO else word_text(c) for c in q)


def header_text(b):
    if b['nc']:
        name = b['pfx']
    elif b['ha']:
        name = '%s:%s:%s' % (b['pfx'], chars_text(b['anc']), chars_text(b['tit']))
    else:
        name = '%s:%s' % (b['pfx'], chars_text(b['tit']))
    return '[%s%s]' % (name, '+' if b['plus'] else '')


# ---------------------------------------------------------------------------------------------------------------------
# generator
# ---------------------------------------------------------------------------------------------------------------------
class Gen:
    def __init__(self, seedval):
        self.rng = random.Random(seedval)
        self.seed = seedval
        self.nw = 0
        self.names = set()
        self.feat = set()

    def word(self, macros=True):
        r = self.rng
        self.nw += 1
        if macros and r.random() < 0.08 and self.nw < 990:
            self.nw += 1
            self.feat.add('macro')
            return MACRO * (1 + r.randrange(2)) + 1000 * (self.nw - 1) + self.nw
        return self.nw

    def words(self, lo=1, hi=3, macros=True):
        return [self.word(macros) for _ in range(self.rng.randint(lo, hi))]

    def L(self, ind, dash, words):
        return {'ind': ind, 'dash': dash, 'words': words}

    BLANK = {'ind': 0, 'dash': False, 'words': []}

    # ---- section bodies
    def para_lines(self):
        r = self.rng
        lines = []
        npar = r.choice([0, 1, 1, 2, 2, 3]) if r.random() < 0.1 else r.randint(1, 3)
        if npar == 0:
            self.feat.add('para:empty-section')
        for p in range(npar):
            if p:
                lines += [dict(self.BLANK)] * r.choice([1, 1, 1, 2])
            for _ in range(r.randint(1, 3)):
                lines.append(self.L(r.choice([0, 0, 0, 2, 5]), False, self.words()))
        if npar > 1:
            self.feat.add('para:several')
        return lines

    def list_lines(self, bullets):
        r = self.rng
        tag = 'bp' if bullets else 'li'
        if r.random() < 0.12:
            lines = [self.L(0, True, [])]
            self.feat.add(tag + ':intro-hyphen')
        else:
            lines = [self.L(0, False, self.words())]
        if r.random() < 0.06:
            self.feat.add(tag + ':intro-only')
            return lines
        lines.append(dict(self.BLANK))
        unit = 2 if r.random() < 0.85 else r.choice([1, 3, 4])
        odd = r.random() < 0.06                 # some deeper step is two units at once
        pblanksub = 0.3 if r.random() < 0.5 else 0.0   # a blank line before an indented item: 'ignored' must hold there too
        n = r.randint(1, 9)
        stack = [0]
        maxd = 1
        for i in range(n):
            if i == 0:
                ind = 0
            else:
                x = r.random()
                if x < 0.35 and len(stack) < 5:
                    step = unit * (2 if odd and r.random() < 0.5 else 1)
                    if step != unit:
                        self.feat.add(tag + ':deeper-by-two-units')
                    ind = stack[-1] + step
                    stack.append(ind)
                elif x < 0.65 or len(stack) == 1:
                    ind = stack[-1]
                else:
                    up = r.randint(1, len(stack) - 1)
                    if up > 1:
                        self.feat.add(tag + ':up-by-two-levels-or-more')
                    if odd and r.random() < 0.3 and stack[-up] - stack[-up - 1] > 1:
                        ind = stack[-up] - 1        # between two open levels
                        self.feat.add(tag + ':dedent-between-levels')
                        del stack[-up:]
                    else:
                        del stack[-up:]
                        ind = stack[-1]
                if r.random() < (0.3 if ind == 0 else pblanksub):
                    lines += [dict(self.BLANK)] * r.choice([1, 1, 2])
                    self.feat.add(tag + ':blank-between-items')
                    if ind > 0:
                        self.feat.add(tag + ':blank-before-subitem')
            maxd = max(maxd, len(stack))
            lines.append(self.L(ind, bullets, self.words()))
            if bullets and r.random() < 0.4:
                for _ in range(r.randint(1, 2)):
                    x = r.random()
                    if x < 0.05:
                        lines.append(dict(self.BLANK))
                        self.feat.add('bp:blank-inside-item')
                    cind = ind + 2 if x < 0.9 else r.choice([0, ind, ind + 4])
                    if cind != ind + 2:
                        self.feat.add('bp:continuation-other-indent')
                    lines.append(self.L(cind, False, self.words()))
                    self.feat.add('bp:continuation')
        if unit != 2:
            self.feat.add(tag + ':unit-%d' % unit)
        if maxd >= 3:
            self.feat.add(tag + ':depth>=3')
        if maxd >= 4:
            self.feat.add(tag + ':depth>=4')
        return lines

    # ---- section names
    def title(self, with_macro):
        r = self.rng
        while True:
            parts = []
            for _ in range(r.randint(1, 3)):
                w = ''.join(r.choice('abcdefgxyzABCDEFG0123456789') for _ in range(r.randint(1, 5)))
                x = r.random()
                if x < 0.15:
                    w = '(' + w + ')'
                    self.feat.add('title:parentheses')
                parts.append(w)
            sep = '\t' if r.random() < 0.03 else ' '
            t = sep.join(parts)
            if sep in t:
                self.feat.add('title:whitespace')
            if t not in self.names and t.lower() not in self.names:
                self.names.add(t)
                self.names.add(t.lower())
                break
        q = [ord(c) for c in t]
        if with_macro and r.random() < 0.15:
            q += [32, self.word_macro()]
            self.feat.add('title:macro')
        elif with_macro and r.random() < 0.1:
            q += [58, 32, 122]           # ": z" - a colon in the title
            self.feat.add('title:colon')
        return q

    def word_macro(self):
        self.nw += 2
        return MACRO * (1 + self.rng.randrange(2)) + 1000 * (self.nw - 1) + self.nw

    def section(self, pfx, stype):
        r = self.rng
        ha = r.random() < 0.5
        anc = []
        if ha:
            while True:
                a = ''.join(r.choice('abcdxyz_0123456789') for _ in range(r.randint(1, 6)))
                if a not in self.names:
                    self.names.add(a)
                    break
            anc = [ord(c) for c in a]
            if r.random() < 0.1:
                anc.append(self.word_macro())
                self.feat.add('anchor:macro')
            self.feat.add('anchor:given')
        else:
            self.feat.add('anchor:default')
        tit = self.title(ha)
        if stype == 'ListItems':
            lines = self.list_lines(False)
        elif stype == 'BulletPoints':
            lines = self.list_lines(True)
        else:
            lines = self.para_lines()
        return {'pfx': pfx, 'nc': False, 'ha': ha, 'anc': anc, 'tit': tit, 'plus': False, 'lines': lines}

    # ---- the site
    def site(self):
        r = self.rng
        pages = []       # dicts: pid, builtin, user page params, prefix/stype effective (for the generator only)
        for pid, pfx in BUILTIN.items():
            pg = {'content': False, 'hprefix': False, 'prefix': '', 'hstype': False, 'stype': '', 'pc': False, 'pcw': [], 'js': []}
            st = 'ListItems' if pid == 'Changelog' else ''
            if r.random() < 0.12:
                pg['hstype'] = True
                pg['stype'] = st = r.choice(['ListItems', 'BulletPoints', ''] if pid != 'Changelog' else ['BulletPoints', 'ListItems'])
                self.feat.add('builtin:SectionType-overridden')
            pages.append({'pid': pid, 'pg': pg, 'pfx': pfx, 'st': st, 'n': r.choice([0, 0, 1, 2, 3]) if r.random() < 0.6 else 0})
        ncustom = r.randint(1, 3)
        cids = r.sample(['Pg1', 'Notes', 'Hist', 'AllBugs', 'Xtra'], ncustom)
        for pid in cids:
            pg = {'content': False, 'hprefix': False, 'prefix': '', 'hstype': False, 'stype': '', 'pc': False, 'pcw': [], 'js': []}
            x = r.random()
            pfx, st, n = '', '', 0
            if x < 0.1:
                pg['content'] = True
                self.feat.add('page:Content')
                if r.random() < 0.5:
                    pg['hprefix'], pg['prefix'] = True, 'Bug'
                    self.feat.add('page:Content+SectionPrefix')
                if r.random() < 0.5:
                    pg['pc'], pg['pcw'] = True, self.words(1, 3)
            elif x < 0.3:
                pg['pc'], pg['pcw'] = True, self.words(1, 5)
                self.feat.add('page:PageContent')
            else:
                pfx = {'AllBugs': 'Bug', 'Hist': 'Bugs'}.get(pid) or r.choice(['Note', 'Bu', 'Chg', 'Bugs'])
                pg['hprefix'], pg['prefix'] = True, pfx
                st = r.choice(['', 'ListItems', 'BulletPoints', 'BulletPoints'])
                if st or r.random() < 0.1:
                    pg['hstype'], pg['stype'] = True, st
                n = r.choice([0, 1, 2, 3, 4])
                if r.random() < 0.3:
                    pg['pc'], pg['pcw'] = True, self.words(1, 3)
                    self.feat.add('page:SectionPrefix+PageContent')
                self.feat.add('page:custom-box')
            if r.random() < 0.3:
                pg['js'] = r.sample(['p1.js', 'p2.js', 'p3.js'], r.randint(1, 2))
                self.feat.add('page:JavaScript')
            pages.append({'pid': pid, 'pg': pg, 'pfx': pfx, 'st': st, 'n': n})
        # entry sections, by prefix; pages that share a prefix get the same SectionType (the sections are written for one type)
        canon = {}
        for p in pages:
            if p['pfx']:
                st = canon.setdefault(p['pfx'], p['st'])
                if st != p['st']:
                    p['st'] = st
                    p['pg']['hstype'], p['pg']['stype'] = True, st
                if len([q for q in pages if q['pfx'] == p['pfx']]) > 1:
                    self.feat.add('prefix-shared-by-two-pages')
        by_pfx = {}
        for p in pages:
            if p['pfx'] and p['n'] and p['pfx'] not in by_pfx:
                by_pfx[p['pfx']] = [self.section(p['pfx'], p['st']) for _ in range(p['n'])]
        secs = [s for v in by_pfx.values() for s in v]
        r.shuffle(secs)
        # keep the order within a prefix random but known: the order of `secs` is the order in the files
        # decoys: names that look like entries but are not
        decoys = []
        if r.random() < 0.4:
            decoys.append({'pfx': r.choice(['Bug', 'Fact', 'Note', 'Changelog']), 'nc': True, 'ha': False, 'anc': [], 'tit': [], 'plus': False,
                           'lines': self.para_lines()})
            self.feat.add('decoy:no-colon')
        if r.random() < 0.4:
            d = self.section(r.choice(['Bugx', 'Bugz', 'bug', 'Facts', 'Pokes', 'Chang']), '')
            decoys.append(d)
            self.feat.add('decoy:other-prefix')
        # split some sections into a block and a '+' block placed later
        blocks = []
        later = []
        for s in secs + decoys:
            lines = s['lines']
            is_list = lines and any(p['pfx'] == s['pfx'] and p['st'] for p in pages) and not s['nc']
            cut = None
            if r.random() < 0.25 and len(lines) >= 2:
                if is_list:
                    ks = [k for k in range(1, len(lines)) if k == 1 or k >= 3]      # not between the separating blank line and the first item
                else:
                    ks = [k for k in range(1, len(lines)) if not lines[k]['words'] and not lines[k]['dash']]
                if ks:
                    cut = r.choice(ks)
            if cut is None:
                blocks.append(s)
            else:
                blocks.append(dict(s, lines=lines[:cut]))
                later.append(dict(s, plus=True, lines=lines[cut:]))
                self.feat.add('append:+')
        r.shuffle(blocks)
        two = bool(later) and r.random() < 0.6 or r.random() < 0.2
        files = [[], []]
        for b in blocks:
            files[r.randrange(2) if two else 0].append(b)
        for b in later:
            # after its plain block in reading order
            fi = next(i for i, f in enumerate(files) if any(x is not b and x['pfx'] == b['pfx'] and x['tit'] == b['tit'] and x['anc'] == b['anc']
                                                            and x['nc'] == b['nc'] for x in f))
            if two and fi == 0 and r.random() < 0.6:
                files[1].insert(r.randint(0, len(files[1])), b)
                self.feat.add('append:in-later-file')
            else:
                f = files[fi]
                at = next(i for i, x in enumerate(f) if x['pfx'] == b['pfx'] and x['tit'] == b['tit'] and x['anc'] == b['anc'] and not x['plus'])
                f.insert(r.randint(at + 1, len(f)), b)
        # trailing blank lines of each block as written in the file
        for f in files:
            for i, b in enumerate(f):
                nb = r.choice([0, 1, 1, 2])
                if nb:
                    f[i] = dict(b, lines=b['lines'] + [dict(self.BLANK)] * nb)
                    self.feat.add('trailing-blank-lines')
        # ---- dictionaries
        game = 'game'
        gjs = []
        dicts = []
        glines = []
        if r.random() < 0.5:
            game = 'G%d' % r.randrange(100)
            glines.append('Game=' + game)
        if r.random() < 0.2:
            gjs = r.sample(['g1.js', 'g2.js'], r.randint(1, 2))
            glines.append('JavaScript=' + ';'.join(gjs))
            self.feat.add('game:JavaScript')
        if glines:
            dicts.append(['[Game]'] + glines)
        titles, headers, links, paths = [], [], [], []
        cases = []
        for p in pages:
            pid, pg = p['pid'], p['pg']
            builtin = pid in BUILTIN
            pl = []
            if pg['content']:
                pl.append('Content=ext/%s.html' % pid.lower())
            if pg['hprefix']:
                pl.append('SectionPrefix=' + pg['prefix'])
            if pg['hstype']:
                pl.append('SectionType=' + pg['stype'])
            if pg['pc']:
                pl.append('PageContent=<div class="pc">%s</div>' % ' '.join(word_text(w) for w in pg['pcw']))
            if pg['js']:
                pl.append('JavaScript=' + ';'.join(pg['js']))
            r.shuffle(pl)
            if pl or not builtin:
                dicts.append(['[Page:%s]' % pid] + pl)
            c = {'pid': pid, 'pg': pg, 'game': game, 'gjs': gjs,
                 'tit': {'has': False, 'v': ''}, 'hdr': {'has': False, 'pre': '', 'suf': ''}, 'lnk': {'has': False, 'txt': '', 'other': ''},
                 'path': {'has': False, 'v': ''}, 'ingroup': True}
            q = 0.35 if not builtin else 0.15
            if r.random() < q:
                c['tit'] = {'has': True, 'v': 'Tt%d %s' % (r.randrange(100), pid.lower())}
                titles.append('%s=%s' % (pid, c['tit']['v']))
                self.feat.add('meta:title')
            if r.random() < q:
                pre = 'Hp%d' % r.randrange(100) if r.random() < 0.4 else ''
                c['hdr'] = {'has': True, 'pre': pre, 'suf': 'Hd%d of %s' % (r.randrange(100), pid)}
                headers.append('%s=%s%s' % (pid, pre + '<>' if pre else '', c['hdr']['suf']))
                self.feat.add('meta:header' + ('-prefix' if pre else ''))
            if r.random() < q:
                other = '(more %d)' % r.randrange(100) if r.random() < 0.4 else ''
                c['lnk'] = {'has': True, 'txt': 'Lk%d %s' % (r.randrange(100), pid), 'other': other}
                links.append('%s=%s' % (pid, '[%s] %s' % (c['lnk']['txt'], other) if other else c['lnk']['txt']))
                self.feat.add('meta:link' + ('-bracket' if other else ''))
            if r.random() < q:
                c['path'] = {'has': True, 'v': r.choice(['', 'd%d/' % r.randrange(3), 'reference/', 'a/b/']) + '%s%d.html' % (pid.lower(), r.randrange(10))}
                paths.append('%s=%s' % (pid, c['path']['v']))
                self.feat.add('meta:path')
            if not builtin and r.random() < 0.2:
                c['ingroup'] = False
            cases.append(c)
        for name, ls in (('Titles', titles), ('PageHeaders', headers), ('Links', links), ('Paths', paths)):
            if ls:
                dicts.append(['[%s]' % name] + ls)
        custom_in = [c['pid'] for c in cases if c['pid'] not in BUILTIN and c['ingroup']]
        dicts.append(['[Index]'] + DEFAULT_INDEX + ['Custom'])
        dicts.append(['[Index:Custom:Custom pages]'] + custom_in)
        r.shuffle(dicts)
        # ---- text of the files: the dictionary sections between the entry blocks of the first file
        out = []
        for fi, f in enumerate(files):
            chunks = [[header_text(b)] + [line_text(l) for l in b['lines']] for b in f]
            if fi == 0:
                for d in dicts:
                    chunks.insert(r.randint(0, len(chunks)), d + [''] * r.choice([0, 1]))
            out.append('\n'.join(l for ch in chunks for l in ch) + '\n')
        tla_blocks = [{k: b[k] for k in ('pfx', 'nc', 'ha', 'anc', 'tit', 'plus', 'lines')} for f in files for b in f]
        nents = {}
        for b in tla_blocks:
            if not b['nc']:
                nents[b['pfx']] = nents.get(b['pfx'], 0) + 1
        for c in cases:
            c['blocks'] = tla_blocks
            c['key'] = 's%d:%s' % (self.seed, c['pid'])
            pfx = c['pg']['prefix'] if c['pg']['hprefix'] else BUILTIN.get(c['pid'], '')
            if not c['pg']['content'] and pfx:
                if nents.get(pfx):
                    self.feat.add('box:' + (c['pg']['stype'] if c['pg']['hstype'] else ('ListItems' if c['pid'] == 'Changelog' else '')) + ':written')
                    self.feat.add('builtin:with-entries' if c['pid'] in BUILTIN else 'custom:with-entries')
                    if nents[pfx] >= 2:
                        self.feat.add('box:several-entries')
                else:
                    self.feat.add('box:empty' + (':builtin' if c['pid'] in BUILTIN else ':custom'))
        js = sorted(set(gjs) | {j for p in pages for j in p['pg']['js']})
        return {'seed': self.seed, 'ref': out[0], 'extra': out[1] if files[1] or two else None, 'cases': cases, 'js': js, 'feat': sorted(self.feat)}


def gen_site(seedval):
    return Gen(seedval).site()


# ---------------------------------------------------------------------------------------------------------------------
# projection of the written pages (html.parser is trusted)
# ---------------------------------------------------------------------------------------------------------------------
def to_words(text):
    out = []
    for t in text.split():
        if t[0] == 'w' and t[1:].isdigit() and len(t) <= 7:
            out.append(int(t[1:]))
        else:
            out.append(UNKNOWN)
    return out


def to_chars(text):
    return [ord(c) for c in text]


class PageParser(HTMLParser):
    def __init__(self):
        super().__init__(convert_charrefs=True)
        self.body = None
        self.title = ''
        self.hdr = []
        self.js = []
        self.toc = []
        self.ents = []
        self.kind = 'page'
        self.pcw = None
        self.sink = None          # (kind, payload) receiving text
        self.text = ''
        self.in_toc = False
        self.list_depth = 0
        self.links = []           # for the index page: [href, text, other]
        self.in_index = False

    def _cls(self, attrs):
        return dict(attrs).get('class') or ''

    def _flush(self):
        s, t = self.sink, self.text
        self.sink, self.text = None, ''
        if s is None:
            return
        k = s[0]
        if k == 'title':
            self.title = t
        elif k == 'hdr':
            self.hdr.append(t.strip())
        elif k == 'toc':
            self.toc.append([to_chars(s[1]), to_chars(t)])
        elif k == 'etitle':
            if self.ents:
                self.ents[-1]['tit'] = to_chars(t)
        elif k == 'para':
            if self.ents:
                self.ents[-1]['toks'].append([-5] + to_words(t))
        elif k == 'intro':
            if self.ents:
                self.ents[-1]['toks'].append([-6] + to_words(t))
        elif k == 'li':
            if self.ents:
                self.ents[-1]['toks'].append([-3] + to_words(t))
        elif k == 'pc':
            self.pcw = to_words(t)
        elif k == 'ilink':
            self.links.append([s[1], t, ''])
        elif k == 'iother':
            if self.links:
                self.links[-1][2] = t.strip()

    def handle_starttag(self, tag, attrs):
        a = dict(attrs)
        cls = a.get('class') or ''
        if self.sink and self.sink[0] in ('li', 'iother', 'hdr') and tag not in ('ul', 'li', 'td', 'div'):
            return                # markup inside running text
        self._flush()
        if tag == 'body':
            self.body = cls
        elif tag == 'title':
            self.sink = ('title',)
        elif tag == 'script' and a.get('src'):
            self.js.append(a['src'].rsplit('/', 1)[-1])
        elif tag == 'td' and cls == 'page-header':
            self.sink = ('hdr',)
        elif tag == 'ul' and cls == 'contents':
            self.in_toc = True
        elif tag == 'ul' and cls == 'index-list':
            self.in_index = True
        elif tag == 'a' and self.in_toc:
            self.sink = ('toc', a.get('href') or '')
        elif tag == 'a' and self.in_index:
            self.sink = ('ilink', a.get('href') or '')
        elif tag == 'span' and a.get('id') is not None and not self.in_toc:
            self.ents.append({'id': to_chars(a['id']), 'tit': [], 'toks': []})
        elif tag == 'div' and cls in ('box-title', 'list-entry-title'):
            self.sink = ('etitle',)
        elif tag == 'div' and cls.startswith('box box-'):
            self.kind = 'para'
        elif tag == 'div' and cls.startswith('list-entry list-entry-'):
            self.kind = 'list'
        elif tag == 'div' and cls == 'paragraph':
            self.sink = ('para',)
        elif tag == 'div' and cls == 'list-entry-desc':
            self.sink = ('intro',)
        elif tag == 'div' and cls == 'pc':
            self.sink = ('pc',)
        elif tag == 'ul' and cls.startswith('list-entry'):
            self.list_depth += 1
            if self.ents:
                self.ents[-1]['toks'].append([-1])
        elif tag == 'li' and self.list_depth:
            self.sink = ('li',)

    def handle_endtag(self, tag):
        if self.sink and self.sink[0] in ('li', 'iother', 'hdr') and tag not in ('ul', 'li', 'td', 'div'):
            return
        was = self.sink
        self._flush()
        if tag == 'ul':
            if self.in_toc:
                self.in_toc = False
            elif self.in_index:
                self.in_index = False
            elif self.list_depth:
                self.list_depth -= 1
                if self.ents:
                    self.ents[-1]['toks'].append([-2])
        elif tag == 'li' and self.list_depth and not self.in_toc:
            if self.ents:
                self.ents[-1]['toks'].append([-4])
        elif tag == 'a' and self.in_index and was and was[0] == 'ilink':
            self.sink = ('iother',)

    def handle_data(self, data):
        if self.sink is not None:
            self.text += data


def parse_page(path):
    p = PageParser()
    with open(path, encoding='utf-8') as f:
        p.feed(f.read())
    p.close()
    p._flush()
    return p


def observe(odir, pids):
    pages = {}
    index = None
    for d, _, fs in os.walk(odir):
        for fn in fs:
            if fn.endswith('.html'):
                full = os.path.join(d, fn)
                rel = os.path.relpath(full, odir).replace(os.sep, '/')
                p = parse_page(full)
                if p.body == 'GameIndex':
                    index = p
                elif p.body in pids:
                    pages.setdefault(p.body, []).append((rel, p))
    obs = {}
    for pid in pids:
        got = sorted(pages.get(pid, []), key=lambda x: x[0])
        o = {'wr': bool(got), 'files': [g[0] for g in got], 'kind': '', 'toc': [], 'ents': [], 'title': '', 'hdr': ['', ''], 'js': [], 'pcw': [],
             'idx': {'has': False, 'href': '', 'txt': '', 'other': ''}}
        if got:
            rel, p = got[0]
            o.update(kind=p.kind, toc=p.toc, ents=p.ents, title=p.title, js=p.js, pcw=p.pcw if p.pcw is not None else [UNKNOWN])
            o['hdr'] = p.hdr if len(p.hdr) == 2 else [''] + p.hdr if len(p.hdr) == 1 else ['?', '?']
            if index is not None:
                for href, txt, other in index.links:
                    if href == rel:
                        o['idx'] = {'has': True, 'href': href, 'txt': txt, 'other': other}
        obs[pid] = o
    return obs, index is not None


# ---------------------------------------------------------------------------------------------------------------------
# running the real code
# ---------------------------------------------------------------------------------------------------------------------
def run_site(S, wd):
    from skoolkit import skool2html
    src = os.path.join(wd, 'src')
    out = os.path.join(wd, 'out')
    shutil.rmtree(wd, ignore_errors=True)
    os.makedirs(src)
    with open(os.path.join(src, 'game.skool'), 'w') as f:
        f.write(SKOOL)
    with open(os.path.join(src, 'game.ref'), 'w') as f:
        f.write(S['ref'])
    argv = ['-d', out, os.path.join(src, 'game.skool')]
    if S['extra'] is not None:
        with open(os.path.join(src, 'extra.ref'), 'w') as f:
            f.write(S['extra'])
        argv.append(os.path.join(src, 'extra.ref'))
    for j in S['js']:
        with open(os.path.join(src, j), 'w') as f:
            f.write('// %s\n' % j)
    err = None
    so, se = sys.stdout, sys.stderr
    sys.stdout = sys.stderr = io.StringIO()
    try:
        skool2html.main(argv)
    except SystemExit as e:
        if e.code not in (None, 0):
            err = 'SystemExit(%s)' % (e.code,)
    except Exception as e:
        err = '%s: %s | %s' % (type(e).__name__, e, ' / '.join(x.strip() for x in traceback.format_exc().strip().splitlines()[-4:-1]))
    finally:
        sys.stdout, sys.stderr = so, se
    pids = [c['pid'] for c in S['cases']]
    if err:
        return [{'k': 'crash', 'key': 's%d' % S['seed'], 'err': err, 'ref': S['ref'], 'extra': S['extra']}]
    obs, has_index = observe(os.path.join(out, 'game'), pids)
    res = []
    for c in S['cases']:
        res.append(dict(c, k='page', obs=obs[c['pid']], hasindex=has_index))
    return res


def worker(args):
    seeds, wd = args
    out = []
    d = os.path.join(wd, 'w%d' % os.getpid())
    for sv in seeds:
        S = gen_site(sv)
        try:
            recs = run_site(S, d)
        except Exception:
            recs = [{'k': 'error', 'key': 's%d' % sv, 'err': traceback.format_exc()}]
        for rc in recs:
            rc['feat'] = S['feat']
            rc['files'] = {'game.ref': S['ref'], 'extra.ref': S['extra']}
        out += recs
    shutil.rmtree(d, ignore_errors=True)
    return out
