"""E07 driver: generated skool files full of reader-side ASM directives (@replace, @expand, @set-*, @assemble, @rem, @equ,
@ignoreua, @nowarn, @start, @end) -> the real skool2asm.main / skool2html.main in-process -> projected observations for
spec/asmdir/AsmDirCases.tla.

Text is made of traceable tokens (see AsmDir.tla for the abstract words <<tag, num>>):
  zq?   plain words (tags 1..8)          #s?   lower-case shortcuts (tags 9..12)     zr?  macro bodies (tags 13..16)
  #ZQ?  macros defined by @expand=#DEF (tags 100..103)     #EVAL({vq?})  variables defined by @expand=#LET (200..202)
  #PEEKaddr  (tag 99, number = instruction index)          a bare number (tag 0)
Every comment field is one source line `zb<id> words... ze<id>`; the anchors are never touched by a generated pattern.
"""
import contextlib
import html
import html.parser
import io
import os
import random
import re
import shutil

from ..lib.common import REPO

PLAIN = list(range(1, 9))
SHORT = list(range(9, 13))
BODY = list(range(13, 17))
MACRO = list(range(100, 104))
VARS = list(range(200, 203))
PEEK = 99
JUMP, LINK, RTAG = 95, 96, 97
RBASE = 29000
NAME = {}
for _i, _t in enumerate(PLAIN):
    NAME[_t] = 'zq' + 'abcdefgh'[_i]
for _i, _t in enumerate(SHORT):
    NAME[_t] = '#s' + 'abcd'[_i]
for _i, _t in enumerate(BODY):
    NAME[_t] = 'zr' + 'abcd'[_i]
for _i, _t in enumerate(MACRO):
    NAME[_t] = '#ZQ' + 'ABCD'[_i]
for _i, _t in enumerate(VARS):
    NAME[_t] = 'vq' + 'abc'[_i]
TAGOF = {v: k for k, v in NAME.items() if k < 200}
JUNK = 98

PROPS = ('indent', 'tab', 'label-colons', 'line-width', 'instruction-width', 'crlf', 'warnings', 'comment-width-min')


# ------------------------------------------------------------------ rendering
def num_text(n):
    if n < 0:
        return ''
    return ('$%X' % (n // 2)) if n & 1 else str(n // 2)


def word_text(w, addr_of):
    t, n = w
    if t == 0:
        return str(n // 2)
    if t == PEEK:
        return '#PEEK%d' % addr_of[n // 2]
    if t == RTAG:
        return '#R%d@oth' % (n // 2)
    if t >= 200:
        return '#EVAL({%s})' % NAME[t]
    return NAME[t] + num_text(n)


def rule_text(r, rnd, simple=False):
    if simple:
        return '@replace=/%s/%s' % (NAME[r['from'][0]], NAME[r['to']])
    if r['kind'] == 'swap':
        pat, rep = '(%s) (%s)' % (NAME[r['from'][0]], NAME[r['other']]), r'\2 \1'
    else:
        fr = [NAME[t] for t in r['from']]
        if len(fr) == 1:
            pat = fr[0] if rnd.random() < 0.7 else '(?:%s)' % fr[0]
        elif all(f[:2] == fr[0][:2] for f in fr) and rnd.random() < 0.5:
            pat = '%s[%s]' % (fr[0][:2], ''.join(f[2] for f in fr))
        else:
            pat = '(?:%s)' % '|'.join(fr)
        rep = NAME[r['to']]
        if r['kind'] == 'inum':
            pat += r'\i'
            if r['keep']:
                rep += r'\1'
    seps = [s for s in '/|!,:' if s not in pat and s not in rep]
    sep = '/' if rnd.random() < 0.6 else rnd.choice(seps)
    s = '@replace=%s%s%s%s' % (sep, pat, sep, rep)
    if rnd.random() < 0.3:
        s += sep + rnd.choice(['', ' zqa zqb', 'ignored', '#ZQA7'])
    return s


def piece_text(p):
    if p[0] == 1:
        return '#DEF(%s(n=0)' % NAME[p[1]]
    if p[0] == 2:
        return ' %s$n)' % NAME[p[1]]
    return '#LET(%s=%d)' % (NAME[p[1]], p[2])


WRITER_DIR = ['']
WRITER_SRC = '''import sys
from skoolkit.skoolasm import AsmWriter


class Writer1(AsmWriter):
    def init(self):
        sys.stderr.write('E07WRITER=1\\n')


class Writer2(AsmWriter):
    def init(self):
        sys.stderr.write('E07WRITER=2\\n')
'''


def install_writer(wd):
    """The module named by the generated @writer directives: next to the skool files (found there by the short form, as
    skool2asm adds the skool file's directory to the search path) and named by its directory in the long form."""
    import sys
    WRITER_DIR[0] = wd
    if 'e07writer' not in sys.modules:
        sys.path.insert(0, wd)       # the short form needs the module on the search path (as PYTHONPATH would provide)
    with open(os.path.join(wd, 'e07writer.py'), 'w') as f:
        f.write(WRITER_SRC)


COND = {'always': ['1', '{asm}+{html}', '{html}>=0'], 'never': ['0', '{asm}*{html}'], 'asm': ['{asm}', '{html}==0', '{asm}==1'],
        'html': ['{html}', '{asm}==0', '{html}==1']}


def line_text(ln, addr_of, rnd):
    if ln.get('c'):
        t = line_text(dict(ln, c=''), addr_of, rnd)
        assert not any(ch in t for ch in ',()'), t
        return '@if(%s)(%s)' % (rnd.choice(COND[ln['c']]), t[1:])
    k = ln['k']
    if k == 'remote':
        return '@remote=oth:' + ','.join(str(a) for a in ln['a'])
    if k == 'writer':
        return '@writer=%s:e07writer.Writer%d' % (WRITER_DIR[0], ln['n']) if ln['form'] else '@writer=e07writer.Writer%d' % ln['n']
    if k == 'replace':
        return rule_text(ln['r'], rnd, simple=ln.get('simple', False))
    if k == 'expand':
        return '@expand=' + ('+' if ln['plus'] else '') + ''.join(piece_text(p) for p in ln['p'])
    if k == 'set':
        return '@set-%s=%d' % (ln['name'], ln['val'])
    if k == 'assemble':
        h, a = ln['h'], ln['a']
        if a < 0:
            return '@assemble=%d%s' % (h, '' if ln.get('simple') else rnd.choice(['', ',']))
        return '@assemble=%s,%d' % ('' if h < 0 else h, a)
    if k == 'rem':
        return '@rem=' + rnd.choice(['note', 'replace=/zqa/zqb', 'set-indent=7', 'assemble=0', 'end', 'zqa #ZQA1', 'expand=#LET[vqa=1]', 'remote=oth:29001'])
    if k == 'equ':
        return '@equ=Q%d=%d' % (ln['n'], ln['val'])
    if k in ('ignoreua', 'nowarn'):
        return '@%s%s' % (k, ('=' + ','.join(str(a) for a in ln['a'])) if ln['a'] else '')
    if k in ('start', 'end'):
        return '@' + k
    raise ValueError(k)


# ------------------------------------------------------------------ generation
def gen_words(rnd, g, n, ua=None):
    ws = []
    for _ in range(n):
        x = rnd.random()
        if x < 0.70:
            t = rnd.choice(g['pool'])
        elif x < 0.85:
            t = rnd.choice(g['macros'])
        elif x < 0.92 and g['vars']:
            t = rnd.choice(g['vars'])
        else:
            t = rnd.choice(g['pool'])
        if t >= 200:
            ws.append([t, -1])
        elif rnd.random() < (0.75 if t >= 100 else 0.4):
            v = rnd.randrange(1, 256)
            ws.append([t, 2 * v + (1 if rnd.random() < 0.3 else 0)])
        else:
            ws.append([t, -1])
    if ua is not None:
        ws.insert(rnd.randrange(len(ws) + 1), [0, 2 * ua])
    if rnd.random() < 0.12:
        ws.insert(rnd.randrange(len(ws) + 1), [RTAG, 2 * rnd.choice(g['raddrs'])])
    return ws


def gen_rule(rnd, g):
    x = rnd.random()
    src = g['pool']
    if x < 0.45:
        fr = rnd.sample(src, 1 if rnd.random() < 0.6 else 2)
        if rnd.random() < 0.1:
            fr = [rnd.choice(g['macros'])]
        to = rnd.choice(src + g['macros'])
        return {'kind': 'retag', 'from': fr, 'to': to, 'keep': 0, 'other': 0}
    if x < 0.75:
        return {'kind': 'inum', 'from': [rnd.choice(src)], 'to': rnd.choice(src + g['macros']), 'keep': int(rnd.random() < 0.7), 'other': 0}
    a, b = rnd.sample(src, 2)
    return {'kind': 'swap', 'from': [a], 'to': 0, 'keep': 0, 'other': b}


def gen_case(rnd, mode, style=None):
    """Returns a dict with 'lines' (abstract, for TLC), 'skool' (text), 'ref' (text), bookkeeping."""
    g = {}
    g['pool'] = rnd.sample(PLAIN, 4) + rnd.sample(SHORT, 2)
    defined = rnd.sample(MACRO, rnd.choice([1, 2, 2, 3]))
    undefined = [m for m in MACRO if m not in defined]
    g['macros'] = defined if (rnd.random() < 0.93 or not undefined) else defined + undefined[:1]
    g['vars'] = rnd.sample(VARS, rnd.choice([0, 1, 2]))
    rpool = rnd.sample(range(RBASE, RBASE + 64), 8)
    g['raddrs'] = rpool
    remotes = []
    for _ in range(rnd.choice([0, 1, 1, 2])):
        k = rnd.choice([1, 2, 3])
        remotes.append([rpool.pop() for _ in range(k)])
    g['raddrs'] = [a for r in remotes for a in r] + rpool[:2]
    ne = rnd.choice([2, 3, 3, 4])
    narrow = rnd.random() < 0.12
    items = []          # (abstract line or None, text or None (rendered later))
    ctr = {'id': 0, 'n': 0, 'equ': 0}
    addr_of = {}
    labelled = []       # instruction numbers carrying a label

    # the pool of directive lines to scatter
    dirs = []
    for _ in range(rnd.choice([0, 1, 2, 3, 4])):
        dirs.append({'k': 'replace', 'r': gen_rule(rnd, g)})
    exp_groups = []
    for m in defined:
        b = rnd.choice(BODY)
        if rnd.random() < 0.5:
            exp_groups.append([{'k': 'expand', 'plus': 0, 'p': [[1, m], [2, b]]}])
        else:
            exp_groups.append([{'k': 'expand', 'plus': 0, 'p': [[1, m]]}, {'k': 'expand', 'plus': 1, 'p': [[2, b]]}])
    for v in g['vars']:
        exp_groups.append([{'k': 'expand', 'plus': 0, 'p': [[3, v, rnd.randrange(1, 250)]]}])
    for _ in range(rnd.choice([0, 1, 2, 4])):
        name = rnd.choice(PROPS)
        val = {'indent': rnd.randrange(1, 9), 'tab': rnd.randrange(2), 'label-colons': rnd.randrange(2),
               'line-width': rnd.randrange(50, 121), 'instruction-width': rnd.randrange(14, 31), 'crlf': rnd.randrange(2),
               'warnings': rnd.randrange(2), 'comment-width-min': rnd.randrange(8, 15)}[name]
        dirs.append({'k': 'set', 'name': name, 'val': val})
    if narrow:
        # a narrow layout: the instruction comment field is squeezed down to comment-width-min
        for name, val in (('line-width', rnd.randrange(45, 57)), ('instruction-width', rnd.randrange(26, 31)), ('indent', rnd.randrange(4, 9)),
                          ('comment-width-min', rnd.randrange(8, 15))):
            dirs.append({'k': 'set', 'name': name, 'val': val})
    for _ in range(rnd.choice([0, 1, 2, 3])):
        h, a = rnd.choice([(-1, 0), (-1, 1), (-1, 2), (0, -1), (1, -1), (2, -1), (0, 0), (1, 1), (0, 1), (1, 0), (2, 2), (0, 2), (2, 0), (1, 2), (2, 1)])
        dirs.append({'k': 'assemble', 'h': h, 'a': a})
    for _ in range(rnd.choice([0, 1, 2])):
        dirs.append({'k': 'rem'})
    for _ in range(rnd.choice([0, 0, 1, 2])):
        ctr['equ'] += 1
        dirs.append({'k': 'equ', 'n': ctr['equ'], 'val': rnd.randrange(16384, 30000)})

    for r in remotes:
        dirs.append({'k': 'remote', 'a': r})
    if rnd.random() < 0.3:
        dirs.append({'k': 'writer', 'n': rnd.choice([1, 2]), 'form': rnd.randrange(2)})
    # some directives are wrapped in a one-branch @if (only those whose text has no comma or parenthesis)
    for d in dirs:
        if rnd.random() < 0.2:
            ok = d['k'] in ('set', 'equ', 'rem') or (d['k'] == 'assemble' and d['a'] < 0) or \
                (d['k'] == 'replace' and d['r']['kind'] == 'retag' and len(d['r']['from']) == 1) or (d['k'] == 'remote' and len(d['a']) == 1)
            if ok:
                d['c'] = rnd.choice(['always', 'never', 'asm', 'html'])
                d['simple'] = 1
    # region
    x = rnd.random()
    if style == 'noregion' or (style is None and x < 0.04):
        start_at, end_at = None, None
    else:
        start_at = 0 if rnd.random() < 0.55 else rnd.randrange(ne)          # before entry start_at
        end_at = None if rnd.random() < 0.4 else rnd.randrange(start_at, ne)  # after entry end_at
    # @start / @end inside an entry (the 'c' line and at least one instruction stay inside), or a second region
    start_mid = start_at is not None and rnd.random() < 0.12
    if start_mid and end_at == start_at:
        end_at = None if start_at == ne - 1 else rnd.randrange(start_at + 1, ne)
    end_mid = end_at is not None and rnd.random() < 0.12
    start2 = None
    if end_at is not None and end_at < ne - 1 and not start_mid and not end_mid and rnd.random() < 0.15:
        start2 = rnd.randrange(end_at + 1, ne)
        end2 = None if rnd.random() < 0.5 else rnd.randrange(start2, ne)
    # skeleton: entries with slots
    entries = []
    ua_pool = []
    for e in range(ne):
        base = 30000 + 1000 * e
        ua_pool += [base + 500 + j for j in range(8)]
    rnd.shuffle(ua_pool)

    def ua():
        return ua_pool.pop() if rnd.random() < 0.45 and ua_pool else None

    first_instr_n = []
    for e in range(ne):
        first_instr_n.append(ctr['n'] + 1)
        ctr['n'] += rnd.choice([2, 3, 4])
    ctr['n'] = 0
    for e in range(ne):
        base = 30000 + 1000 * e
        slots = []      # each slot: list of item tuples; directives go between slots
        sections = rnd.choice([1, 2, 3, 4])

        def add_text(prefix, kind, long_ok=False):
            nw = rnd.randrange(12, 28) if (long_ok and rnd.random() < 0.35) else rnd.randrange(1, 6)
            pre = []
            if rnd.random() < 0.3:
                pre.append({'k': 'ignoreua', 'a': []})
            u = ua()
            if pre == [] and u is not None and rnd.random() < 0.3:
                pre.append({'k': 'ignoreua', 'a': sorted(rnd.sample([u, u + 1, ua_pool[0] if ua_pool else u + 2], rnd.choice([1, 2])))})
            if pre and rnd.random() < 0.25:
                pre.append({'k': 'rem'})
            ctr['id'] += 1
            ln = {'k': 'text', 'id': ctr['id'], 'w': gen_words(rnd, g, nw, u), 'probe': 0}
            slots.append([(p, None) for p in pre] + [(ln, prefix)])

        add_text('; ', 'title')
        if sections >= 2:
            slots.append([(None, ';')])
            add_text('; ', 'desc', True)
        if sections >= 3:
            slots.append([(None, ';')])
            add_text('; %s ' % rnd.choice(['A', 'HL', 'BC']), 'reg', True)
        if sections >= 4:
            slots.append([(None, ';')])
            add_text('; ', 'start', True)
        ni = (first_instr_n[e + 1] if e + 1 < ne else first_instr_n[e] + rnd.choice([2, 3, 4])) - first_instr_n[e]
        for j in range(ni):
            ctr['n'] += 1
            n = ctr['n']
            addr = base + 4 * j
            addr_of[n] = addr
            if j > 0 and rnd.random() < 0.25:
                add_text('; ', 'mid', True)
            pre = []
            kind = rnd.choice(['ld8', 'ld8', 'defb', 'defb', 'defm', 'ldbc', 'ret', 'jp'])
            tgt = 0
            ops = []
            if kind == 'ld8':
                r, b = rnd.choice([('A', 62), ('B', 6), ('C', 14), ('D', 22), ('E', 30), ('H', 38), ('L', 46)])
                op, b0, isdef = 'LD %s,%d' % (r, rnd.randrange(256)), b, 0
            elif kind == 'defb':
                v = rnd.randrange(1, 256)
                op, b0, isdef = 'DEFB %d' % v, v, 1
            elif kind == 'defm':
                t = rnd.choice(g['pool'][:4])
                op, b0, isdef, ops = 'DEFM "%s"' % NAME[t], ord('z'), 1, [[t, -1]]
            elif kind == 'ldbc':
                te = rnd.randrange(ne)
                tgt = first_instr_n[te]
                rr, b = rnd.choice([('BC', 1), ('DE', 17), ('HL', 33)])
                op, b0, isdef = 'LD %s,%d' % (rr, 30000 + 1000 * te), b, 0
                if rnd.random() < 0.4:
                    pre.append({'k': 'nowarn', 'a': [] if rnd.random() < 0.5 else sorted(set(rnd.sample([30000 + 1000 * te, 30000 + 1000 * rnd.randrange(ne), 1234], 2)))})
            elif kind == 'jp':
                ta = rnd.choice(g['raddrs'])
                mn, b = rnd.choice([('JP', 195), ('CALL', 205)])
                op, b0, isdef, ops = '%s %d' % (mn, ta), b, 0, [[JUMP, 2 * ta]]
            else:
                op, b0, isdef = 'RET', 201, 0
            if kind != 'ldbc' and rnd.random() < 0.06:
                pre.append({'k': 'nowarn', 'a': []})
            has_comment = rnd.random() < 0.6
            u = ua() if has_comment else None
            if has_comment and rnd.random() < 0.3:
                pre.append({'k': 'ignoreua', 'a': [] if (u is None or rnd.random() < 0.5) else sorted({u, u + rnd.choice([0, 1])})})
            cid = 0
            ws = []
            if has_comment:
                ctr['id'] += 1
                cid = ctr['id']
                ws = gen_words(rnd, g, rnd.randrange(6, 13) if rnd.random() < (0.7 if narrow else 0.2) else rnd.randrange(1, 5), u)
            lab = 1 if j == 0 else 0
            ln = {'k': 'instr', 'n': n, 'addr': addr, 'isdef': isdef, 'b0': b0, 'tgt': tgt, 'id': cid, 'w': ws, 'ops': ops, 'lab': lab}
            rnd.shuffle(pre)
            group = [(p, None) for p in pre]
            if lab:
                group.insert(rnd.randrange(len(group) + 1), (None, '@label=L%d' % n))
                labelled.append(n)
            group.append((ln, ('c' if j == 0 else ' ') + '%05d %s' % (addr, op), op))
            slots.append(group)
        if rnd.random() < 0.3:
            add_text('; ', 'end', True)
        entries.append(slots)

    # scatter directives: each goes to (entry e, boundary b) or to a non-entry block before entry e (b = -1) / after the last (e = ne)
    units = [[d] for d in dirs] + exp_groups
    rnd.shuffle(units)
    placed = {}
    for u in units:
        e = rnd.randrange(ne + 1) if rnd.random() < 0.3 else rnd.randrange(ne)
        inside = start_at is not None and (u[0]['k'] == 'expand' and rnd.random() < 0.9 or rnd.random() < 0.5)
        if inside:          # most directives of interest stand where skool2asm reads them too
            e = rnd.randrange(start_at, (ne - 1 if end_at is None else end_at) + 1)
            key = (e, rnd.randrange(len(entries[e]) + 1))
        elif e == ne or rnd.random() < 0.25:
            key = (e, -1)
        else:
            key = (e, rnd.randrange(len(entries[e]) + 1))
        for i, d in enumerate(u):
            if i > 0 and rnd.random() < 0.3:
                placed.setdefault(key, []).append({'k': 'rem'})      # something between @expand=... and @expand=+...
            placed.setdefault(key, []).append(d)
    out = []
    for e in range(ne + 1):
        blk = placed.get((e, -1), [])
        if blk:
            if rnd.random() < 0.5 or e == ne:
                out += [(d, None) for d in blk] + [(None, '')]
            else:
                entries[e][0][0:0] = [(d, None) for d in blk]
        if e == ne:
            break
        slots = entries[e]
        first_i = next(i for i, sl in enumerate(slots) if sl[-1][0] and sl[-1][0]['k'] == 'instr')
        b_start = b_end = None
        if start_at == e or start2 == e:
            if start_mid:
                b_start = rnd.randrange(0, first_i + 1)
            else:
                out.append(({'k': 'start'}, None))
                if start_at == e:
                    out.append(('PROBE',))
        if end_at == e and end_mid:
            b_end = rnd.randrange(first_i + 1, len(slots) + 1)
        for b in range(len(slots) + 1):
            if b == b_start:
                out.append(({'k': 'start'}, None))
            if b == b_end:
                out.append(({'k': 'end'}, None))
            for d in placed.get((e, b), []):
                out.append((d, None))
            if b < len(slots):
                out += slots[b]
        if (end_at == e and not end_mid) or (start2 is not None and end2 == e):
            out.append(({'k': 'end'}, None))
        out.append((None, ''))
        if start_at == e and start_mid:
            out.append(('PROBE',))
    if start_at is None:
        out.insert(0, ('PROBE',))
    return finish_case(rnd, mode, out, addr_of, g, ne, start_at, start_mid, start2 is not None)


def finish_case(rnd, mode, out, addr_of, g, ne, start_at, start_mid, two_regions):
    # a probe entry of its own, the first thing after @start (or the first thing in the file): its title holds one #PEEK per
    # instruction.  (The snapshot is complete when the writer expands macros, so the position of the probe does not matter.)
    ns = sorted(addr_of)
    probe_words = [[PEEK, 2 * n] for n in ns]
    max_id = max([it[0]['id'] for it in out if len(it) > 1 and it[0] and it[0].get('id')] + [0])
    pid = max_id + 1
    probe_line = {'k': 'text', 'id': pid, 'w': probe_words, 'probe': 1}
    pn = max(ns) + 1
    paddr = 30000 + 1000 * (start_at or 0) + (700 if start_mid else -300)
    addr_of[pn] = paddr
    probe_instr = {'k': 'instr', 'n': pn, 'addr': paddr, 'isdef': 0, 'b0': 201, 'tgt': 0, 'id': 0, 'w': [], 'ops': [], 'lab': 1}
    probe = [(probe_line, '; '), (None, '@label=L%d' % pn), (probe_instr, 'c%05d RET' % paddr, 'RET'), (None, '')]
    idx = out.index(('PROBE',))
    out = out[:idx] + probe + out[idx + 1:]
    started = start_at is not None
    lines = [it[0] for it in out if it[0] is not None]
    for ln in lines:
        ln.setdefault('c', '')
    text = []
    for it in out:
        ln = it[0]
        if ln is None:
            text.append(it[1])
        elif ln['k'] == 'text':
            text.append('%szb%d %s ze%d' % (it[1], ln['id'], ' '.join(word_text(w, addr_of) for w in ln['w']), ln['id']))
        elif ln['k'] == 'instr':
            s = it[1]
            if ln['id']:
                s += ' ; zb%d %s ze%d' % (ln['id'], ' '.join(word_text(w, addr_of) for w in ln['w']), ln['id'])
            text.append(s)
        else:
            text.append(line_text(ln, addr_of, rnd))
    ref = ''
    if mode == 'html':
        rid = pid + 1
        rw = gen_words(rnd, g, rnd.randrange(2, 7))
        lines.append({'k': 'text', 'id': rid, 'w': rw, 'probe': 2, 'c': ''})
        ref = '[OtherCode:oth]\n[Page:P1]\nPageContent=zb%d %s ze%d\n' % (rid, ' '.join(word_text(w, addr_of) for w in rw), rid)
        # a ref file section NAME (asm.rst: "ref file section names and contents"): the page ID names the file written
        sw = [rnd.choice(g['pool'][:4]), -1 if rnd.random() < 0.5 else 2 * rnd.randrange(1, 200)]
        lines.append({'k': 'text', 'id': rid + 1, 'w': [sw], 'probe': 3, 'c': ''})
        ref += '[Page:%s]\nPageContent=nothing\n' % word_text(sw, addr_of)
    return {'mode': mode, 'lines': lines, 'skool': '\n'.join(text) + '\n', 'ref': ref, 'addr_of': {str(k): v for k, v in addr_of.items()},
            'started': started, 'two_regions': two_regions, 'start_mid': int(start_mid)}


# ------------------------------------------------------------------ running the real tools
def run_tool(main, args):
    out, err = io.StringIO(), io.StringIO()
    code = 0
    try:
        with contextlib.redirect_stdout(out), contextlib.redirect_stderr(err):
            main(list(args))
    except SystemExit as e:
        code = e.code if isinstance(e.code, int) else (1 if e.code else 0)
    except Exception as e:   # noqa: B902
        return out.getvalue(), err.getvalue() + '\n%s: %s' % (type(e).__name__, e), 99
    return out.getvalue(), err.getvalue(), code


_TOKEN = re.compile(r'(zq[a-z]|zr[a-z]|#s[a-z]|#ZQ[A-Z])(\d+|\$[0-9A-Fa-f]+)?$')
_ANCHOR = re.compile(r'z([be])(\d+)$')


def parse_word(tok):
    m = _TOKEN.match(tok)
    if m:
        t = TAGOF[m.group(1)]
        ns = m.group(2)
        if ns is None:
            return [t, -1]
        if ns.startswith('$'):
            v = int(ns[1:], 16)
            return [t, 2 * v + 1] if v < 2 ** 20 else [JUNK, -1]
        v = int(ns)
        return [t, 2 * v] if v < 2 ** 20 else [JUNK, -1]
    if re.match(r'zl\d+$', tok):
        return [LINK, 2 * int(tok[2:])]
    if tok.isdigit() and len(tok) < 8:
        return [0, 2 * int(tok)]
    return [JUNK, -1]


def split_fields(text):
    """Token stream -> [{'id', 'w'}] for each zb<id> ... ze<id> group."""
    fields = []
    cur = None
    for tok in text.split():
        m = _ANCHOR.match(tok)
        if m:
            if m.group(1) == 'b':
                cur = {'id': int(m.group(2)), 'w': []}
                fields.append(cur)
            else:
                cur = None
            continue
        if cur is not None:
            cur['w'].append(parse_word(tok))
    return fields


def op_words(text):
    return [parse_word(m.group(0)) for m in re.finditer(r'zl\d+|(zq[a-z]|zr[a-z]|#s[a-z]|#ZQ[A-Z])(\d+|\$[0-9A-Fa-f]+)?', text)]


_UA = re.compile(r'contains address(?:es)? \(([\d, ]+)\) not converted')
_LD = re.compile(r'Address (\d+) replaced with (\w+) in unsubbed LD operation:\n\s*(\d+) ')
_EQU = re.compile(r'^Q(\d+) EQU (\d+)$')
_LABEL = re.compile(r'^L\d+(:?)$')
NEUTRAL = {'writer': 0, 'indents': [], 'tab': [], 'colons': [], 'crlf': 0, 'semis': [], 'maxw': 0, 'cmaxw': 0, 'fitw': 10 ** 6, 'cfitw': 10 ** 6, 'ua': [], 'ld': [], 'equs': []}


def observe_asm(case, wd, tag, extra_args=()):
    from skoolkit import skool2asm
    path = os.path.join(wd, '%s.skool' % tag)
    with open(path, 'w', newline='\n') as f:
        f.write(case['skool'])
    out, err, rc = run_tool(skool2asm.main, ['-q'] + list(extra_args) + [path])
    os.remove(path)
    o = dict(NEUTRAL, err=0, fields=[], ops=[], msg='')
    if rc:
        o['err'] = 1
        o['msg'] = err.strip()[-300:]
        return o
    raw = out.split('\n')
    if raw and raw[-1] == '':
        raw.pop()
    ncr = sum(1 for ln in raw if ln.endswith('\r'))
    o['crlf'] = 0 if ncr == 0 else (1 if ncr == len(raw) else 2)
    lines = [ln[:-1] if ln.endswith('\r') else ln for ln in raw]
    # which lines lack the CR when others have it: 'reg' = a line of a wrapped register description that is not its last line
    o['lf_only'] = sorted({'reg' if (i + 1 < len(raw) and re.match(r';\s{2,}\S', raw[i + 1]) and ln.startswith(';')) else 'other'
                           for i, ln in enumerate(raw) if not ln.endswith('\r')}) if o['crlf'] == 2 else []
    ctext, otext = [], []
    indents, tabs, colons, semis, equs = set(), set(), set(), set(), []
    maxw, fitw, cmaxw, cfitw, cprev = 0, 10 ** 6, 0, 10 ** 6, None
    prev = None
    for ln in lines:
        if ln.startswith(';'):
            ctext.append(ln[1:])
            maxw = max(maxw, len(ln))
            if prev is not None and len(ln) > 1:
                fitw = min(fitw, len(prev) + 1 + len(ln[1:].split()[0]))
            prev = ln if len(ln) > 1 else None
            continue
        prev = None
        if not ln:
            continue
        m = _EQU.match(ln)
        if m:
            equs.append([int(m.group(1)), int(m.group(2))])
            continue
        m = _LABEL.match(ln)
        if m:
            colons.add(1 if m.group(1) else 0)
            continue
        op, sep, com = ln.partition(';')
        if sep:
            ctext.append(com)
            cmaxw = max(cmaxw, len(com.strip()))
            if not op.strip():
                o['cwrapped'] = o.get('cwrapped', 0) + 1
                if cprev is not None and com.strip():
                    cfitw = min(cfitw, len(cprev) + 1 + len(com.split()[0]))
            cprev = com.strip()
        else:
            cprev = None
        if op.strip():
            otext.append(op)
            if op.startswith('\t'):
                tabs.add(1)
            else:
                tabs.add(0)
                indents.add(len(op) - len(op.lstrip(' ')))
            if sep:
                semis.add(len(op))
    o['fields'] = split_fields('\n'.join(ctext))
    o['ops'] = op_words('\n'.join(otext))
    o.update(indents=sorted(indents), tab=sorted(tabs), colons=sorted(colons), semis=sorted(semis), maxw=maxw, fitw=fitw, equs=equs, cmaxw=cmaxw, cfitw=cfitw)
    ua = set()
    for m in _UA.finditer(err):
        ua.update(int(x) for x in m.group(1).replace(' ', '').split(',') if x)
    o['ua'] = sorted(ua)
    n_of = {v: int(k) for k, v in case['addr_of'].items()}
    o['ld'] = sorted({n_of.get(int(m.group(3)), 0) for m in _LD.finditer(err)})
    o['warn_lines'] = err.count('WARNING')
    ws = sorted(set(re.findall(r'E07WRITER=(\d)', err)))
    o['writer'] = int(ws[0]) if len(ws) == 1 else (0 if not ws else 9)
    return o


class _Page(html.parser.HTMLParser):
    def __init__(self):
        super().__init__(convert_charrefs=True)
        self.stack = []
        self.text = []
        self.ops = []
        self.body = False
        self.in_link = 0

    def handle_starttag(self, tag, attrs):
        if tag == 'body':
            self.body = True
        if tag == 'a':
            m = re.match(r'(?:\.\./)?oth/(\d+)\.html(?:#(\d+))?$', dict(attrs).get('href') or '')
            if m:
                page = int(m.group(1))
                anchor = int(m.group(2)) if m.group(2) else page
                enc = (page - RBASE) * 64 + (anchor - RBASE) if (RBASE <= page < RBASE + 64 and RBASE <= anchor < RBASE + 64) else 999999
                self.in_link = 1
                self.handle_data(' zl%d ' % enc)
                self.in_link = 2
        if tag in ('br', 'img', 'meta', 'link', 'input', 'hr'):
            return
        self.stack.append((tag, dict(attrs).get('class') or ''))

    def handle_endtag(self, tag):
        if tag == 'a':
            self.in_link = 0
        for i in range(len(self.stack) - 1, -1, -1):
            if self.stack[i][0] == tag:
                del self.stack[i:]
                break

    def handle_data(self, data):
        if not self.body or self.in_link == 2:
            return
        if any(c in ('asm-navigation', 'header') for _, c in self.stack) or any(t == 'footer' for t, _ in self.stack):
            return
        if any(t == 'td' and c == 'instruction' for t, c in self.stack):
            self.ops.append(data)
        else:
            self.text.append(data)


def observe_html(case, wd, tag):
    from skoolkit import skool2html
    path = os.path.join(wd, '%s.skool' % tag)
    with open(path, 'w', newline='\n') as f:
        f.write(case['skool'])
    with open(os.path.join(wd, '%s.ref' % tag), 'w', newline='\n') as f:
        f.write(case['ref'])
    d = os.path.join(wd, 'html-' + tag)
    shutil.rmtree(d, ignore_errors=True)
    _, err, rc = run_tool(skool2html.main, ['-q', '-w', 'dP', '-d', d, path])
    o = dict(NEUTRAL, err=0, fields=[], ops=[], msg='')
    try:
        if rc:
            o['err'] = 1
            o['msg'] = err.strip()[-300:]
            return o
        root = os.path.join(d, tag)
        pages = []
        ad = os.path.join(root, 'asm')
        if os.path.isdir(ad):
            pages += [os.path.join(ad, fn) for fn in sorted(os.listdir(ad), key=lambda s: int(s.split('.')[0]))]
        p1 = os.path.join(root, 'P1.html')
        if os.path.isfile(p1):
            pages.append(p1)
        text, ops = [], []
        for pg in pages:
            with open(pg, encoding='utf-8') as f:
                p = _Page()
                p.feed(f.read())
            text.append(' '.join(p.text))
            ops.append(' '.join(p.ops))
        o['fields'] = split_fields('\n'.join(text))
        o['ops'] = op_words('\n'.join(ops))
        sid = max(ln['id'] for ln in case['lines'] if ln['k'] == 'text')
        names = sorted(fn[:-5] for fn in os.listdir(root) if fn.endswith('.html') and fn not in ('index.html', 'P1.html')) if os.path.isdir(root) else []
        o['fields'].append({'id': sid, 'w': [parse_word(nm) for nm in names]})
        return o
    finally:
        shutil.rmtree(d, ignore_errors=True)
        for ext in ('.skool', '.ref'):
            try:
                os.remove(os.path.join(wd, tag + ext))
            except OSError:
                pass


def observe(case, wd, tag):
    if case['mode'] == 'asm':
        return observe_asm(case, wd, tag)
    return observe_html(case, wd, tag)


def worker(job):
    wd, sd, n = job
    import sys
    if REPO not in sys.path:
        sys.path.insert(0, REPO)
    rnd = random.Random(sd)
    out = []
    sub = os.path.join(wd, 'w%d' % sd)
    os.makedirs(sub, exist_ok=True)
    install_writer(sub)
    for i in range(n):
        seed_i = rnd.randrange(2 ** 40)
        # the same abstract file is read in both modes
        for mode in ('asm', 'html'):
            case = gen_case(random.Random(seed_i), mode)
            case['gen'] = {'seed': seed_i, 'mode': mode}
            case['obs'] = observe(case, sub, 'g%d' % i)
            out.append(case)
    shutil.rmtree(sub, ignore_errors=True)
    return out
